/-
Helper lemmas about `Model/Codec.lean`: `readCoords` never panics on a long enough buffer and
returns the big-endian words; encode-then-read gives the coordinates back.  Core Lean only.
-/
import DosModel.Model.Codec
import DosModel.Proofs.CodecBytes

namespace Dos.Codec
open Dos Dos.Bn256 Dos.CodecBytes

theorem p_lt : p < 256 ^ 32 := by decide
theorem r_lt : r < 256 ^ 32 := by decide
theorem r_lt_p : r < p := by decide
theorem p_pos : 0 < p := by decide

theorem be32_length (n : Nat) : (be32 n).length = 32 := natBE_length 32 n

theorem beNat_be32 (n : Nat) (h : n < p) : beNat (be32 n) = n :=
  beNat_natBE 32 n (Nat.lt_trans h p_lt)

/-- the words `readCoords n` returns -/
def wordsOf : Nat → Bytes → List Nat
  | 0, _ => []
  | n + 1, buf => beNat (buf.take 32) :: wordsOf n (buf.drop 32)

theorem wordsOf_length (n : Nat) (buf : Bytes) : (wordsOf n buf).length = n := by
  induction n generalizing buf with
  | zero => rfl
  | succ n ih => simp [wordsOf, ih]

/-- on a buffer of at least `32 n` bytes `readCoords n` succeeds -/
theorem readCoords_ok (n : Nat) (buf : Bytes) (h : 32 * n ≤ buf.length) :
    readCoords n buf = .ok (wordsOf n buf) := by
  induction n generalizing buf with
  | zero => rfl
  | succ n ih =>
    have h1 : 32 ≤ buf.length := by omega
    have h2 : 32 * n ≤ (buf.drop 32).length := by simp; omega
    simp [readCoords, gfpUnmarshal, sliceFrom, h1, ih _ h2, wordsOf]

/-- whatever the buffer, `readCoords` returns a value or panics — it never returns an error -/
theorem readCoords_not_err (n : Nat) (buf : Bytes) (e : DecErr) : readCoords n buf ≠ .err e := by
  induction n generalizing buf e with
  | zero => simp [readCoords]
  | succ n ih =>
    unfold readCoords gfpUnmarshal sliceFrom
    by_cases h1 : 32 ≤ buf.length
    · simp only [h1, if_true]
      cases hr : readCoords n (List.drop 32 buf) with
      | ok cs => simp
      | err e' => exact absurd hr (ih _ e')
      | panic s => simp
    · simp [h1]

/-- reading back what `be32` wrote -/
theorem wordsOf_encode (cs : List Nat) (tail : Bytes) (h : ∀ c ∈ cs, c < p) :
    wordsOf cs.length ((cs.map be32).flatten ++ tail) = cs := by
  induction cs with
  | nil => rfl
  | cons c cs ih =>
    have hc : c < p := h c (by simp)
    have hl := be32_length c
    simp only [List.map_cons, List.flatten_cons, List.length_cons, wordsOf, List.append_assoc]
    rw [List.take_append_of_le_length (by omega), List.take_of_length_le (by omega),
      List.drop_append_of_le_length (by omega), List.drop_of_length_le (by omega),
      beNat_be32 c hc, List.nil_append, ih (fun c hc => h c (by simp [hc]))]

theorem flatten_be32_length (cs : List Nat) : ((cs.map be32).flatten).length = 32 * cs.length := by
  induction cs with
  | nil => rfl
  | cons c cs ih => simp [be32_length, ih]; omega

/-- decoding writes back exactly the bytes it read: `be32` of the words of `buf` is the prefix of `buf` -/
theorem encode_wordsOf (n : Nat) (buf : Bytes) (h : 32 * n ≤ buf.length) :
    ((wordsOf n buf).map be32).flatten = buf.take (32 * n) := by
  induction n generalizing buf with
  | zero => simp [wordsOf]
  | succ n ih =>
    have h2 : 32 * n ≤ (buf.drop 32).length := by simp; omega
    have hl : (buf.take 32).length = 32 := by simp; omega
    simp only [wordsOf, List.map_cons, List.flatten_cons, ih _ h2]
    have : be32 (beNat (buf.take 32)) = buf.take 32 := by
      have := natBE_beNat (buf.take 32)
      rw [hl] at this; exact this
    rw [this, List.take_drop]
    have e : 32 * (n + 1) = 32 + 32 * n := by omega
    rw [e]
    conv => rhs; rw [← List.take_append_drop 32 (buf.take (32 + 32 * n))]
    rw [List.take_take]
    have : min 32 (32 + 32 * n) = 32 := by omega
    rw [this]

theorem wordsOf_lt (n : Nat) (buf : Bytes) (h : 32 * n ≤ buf.length) :
    ∀ c ∈ wordsOf n buf, c < 256 ^ 32 := by
  induction n generalizing buf with
  | zero => simp [wordsOf]
  | succ n ih =>
    have h2 : 32 * n ≤ (buf.drop 32).length := by simp; omega
    intro c hc
    simp only [wordsOf, List.mem_cons] at hc
    rcases hc with rfl | hc
    · have := beNat_lt (buf.take 32)
      have hl : (buf.take 32).length = 32 := by simp; omega
      rwa [hl] at this
    · exact ih _ h2 c hc

theorem wordsOf_append (n : Nat) (buf tail : Bytes) (h : 32 * n ≤ buf.length) :
    wordsOf n (buf ++ tail) = wordsOf n buf := by
  induction n generalizing buf with
  | zero => rfl
  | succ n ih =>
    have h2 : 32 * n ≤ (buf.drop 32).length := by simp; omega
    simp only [wordsOf]
    rw [List.take_append_of_le_length (by omega), List.drop_append_of_le_length (by omega), ih _ h2]

/-- `(0,0)` is not on the curve y² = x³ + 3 -/
theorem zero_not_on_curve : G1.onCurve (.aff 0 0) = false := by decide

theorem zero_not_on_twist : G2.onCurve (.aff ⟨0, 0⟩ ⟨0, 0⟩) = false := by decide

theorem g2_smulAux_inf (fuel k : Nat) : G2.smulAux .inf fuel k = .inf := by
  induction fuel generalizing k with
  | zero => rfl
  | succ fuel ih =>
    unfold G2.smulAux
    split
    · rfl
    · simp only [ih, G2.double]
      split <;> rfl

theorem g2_smul_inf (k : Nat) : G2.smul k .inf = .inf := g2_smulAux_inf k k

theorem g1_smulAux_inf (fuel k : Nat) : G1.smulAux .inf fuel k = .inf := by
  induction fuel generalizing k with
  | zero => rfl
  | succ fuel ih =>
    unfold G1.smulAux
    split
    · rfl
    · simp only [ih, G1.double]
      split <;> rfl

theorem g1_smul_inf (k : Nat) : G1.smul k .inf = .inf := g1_smulAux_inf k k

end Dos.Codec

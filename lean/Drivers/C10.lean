/-
C10 driver: one case line → the model's canonical output line (see go/props/c10).
All field values travel as the RAW limb content (Montgomery form), 64 hex digits each, so the
comparison with the real code is exact on the machine representation.

  f <add|sub|neg|mul> <alias> <a> <b>   interpreted gfp.s on both gfpMul paths; must equal the Nat model
  fx <enc|dec|inv|new> <a|k>            montEncode / montDecode / Invert / newGFp
  t2|t6|t12 <op> <a> [<b>|<k>]          tower operations
  g1|g2 <add|dbl|mul|aff|neg|onc> …     Jacobian point operations (receiver state included)
  miller|pair <Q> <P>, finexp <f>, check <P;Q|…>
-/
import DosModel.Model.Util
import DosModel.Model.AsmBn256
import DosModel.Model.Bn256CPairing
import DosModel.Gen.Bn256Asm

open Dos Dos.Bn256 Dos.Mont

namespace C10Drv

def hexNat (s : String) : Option Nat := (ofHex s).map beNat
def natHex (n : Nat) : String := toHex (natBE 32 n)

def gfpOf (s : String) : Option GFp := (hexNat s).map GFp.mk
def gfpHex (a : GFp) : String := natHex a.v

def splitC (s : String) : List String := s.splitOn ","

def fp2Of : List String → Option F2
  | [a, b] => do pure ⟨← gfpOf a, ← gfpOf b⟩
  | _ => none
def fp6Of : List String → Option F6
  | [a, b, c, d, e, f] => do pure ⟨← fp2Of [a, b], ← fp2Of [c, d], ← fp2Of [e, f]⟩
  | _ => none
def fp12Of (l : List String) : Option F12 :=
  if l.length = 12 then do pure ⟨← fp6Of (l.take 6), ← fp6Of (l.drop 6)⟩ else none

def fp2Hex (a : F2) : String := gfpHex a.x ++ "," ++ gfpHex a.y
def fp6Hex (a : F6) : String := fp2Hex a.x ++ "," ++ fp2Hex a.y ++ "," ++ fp2Hex a.z
def fp12Hex (a : F12) : String := fp6Hex a.x ++ "," ++ fp6Hex a.y

def g1Of (s : String) : Option G1J := match splitC s with
  | [a, b, c, d] => do pure ⟨← gfpOf a, ← gfpOf b, ← gfpOf c, ← gfpOf d⟩
  | _ => none
def g2Of (s : String) : Option G2J := match splitC s with
  | [a, b, c, d, e, f, g, h] => do pure ⟨← fp2Of [a, b], ← fp2Of [c, d], ← fp2Of [e, f], ← fp2Of [g, h]⟩
  | _ => none
def g1Hex (p : G1J) : String := gfpHex p.x ++ "," ++ gfpHex p.y ++ "," ++ gfpHex p.z ++ "," ++ gfpHex p.t
def g2Hex (p : G2J) : String := fp2Hex p.x ++ "," ++ fp2Hex p.y ++ "," ++ fp2Hex p.z ++ "," ++ fp2Hex p.t

/-! ### interpreted assembly -/
open Dos.Asm

def aliasOf (s : String) : Option (Blk → Blk) :=
  match s with
  | "n" => some id
  | "ca" => some fun | .c => .a | k => k
  | "cb" => some fun | .c => .b | k => k
  | "ab" => some fun | .b => .a | k => k
  | "cab" => some fun _ => .a
  | _ => none

def runAsm := runFn

def fieldCase (op alias a b : String) : String :=
  match aliasOf alias, hexNat a, hexNat b with
  | some al, some av, some bv0 =>
      -- with a and b aliased the callee sees a in both
      let bv := if al .b = al .a then av else bv0
      let (fn, model) : Func × Nat := match op with
        | "add" => (Gen.Bn256Asm.gfpAdd, addM p av bv)
        | "sub" => (Gen.Bn256Asm.gfpSub, subM p av bv)
        | "neg" => (Gen.Bn256Asm.gfpNeg, negM p av)
        | _ => (Gen.Bn256Asm.gfpMul, mulM p np av bv)
      match runAsm fn false al av bv, runAsm fn true al av bv with
      | .ok r0, .ok r1 =>
          if r0 = model ∧ r1 = model then natHex r0 ++ " " ++ natHex r1
          else "MODEL-MISMATCH interp=" ++ natHex r0 ++ "," ++ natHex r1 ++ " model=" ++ natHex model
      | .error m, _ => "INTERP-ERROR " ++ m
      | _, .error m => "INTERP-ERROR " ++ m
  | _, _, _ => "bad-case"

def bad : String := "bad-case"

def orBad (o : Option String) : String := o.getD bad

def t2Case (op : String) (args : List String) : String := orBad do
  let a ← fp2Of (splitC (← args[0]?))
  match op with
  | "sq" => pure (fp2Hex a.square)
  | "inv" => pure (fp2Hex a.invert)
  | "xi" => pure (fp2Hex a.mulXi)
  | "conj" => pure (fp2Hex a.conjugate)
  | "neg" => pure (fp2Hex a.neg)
  | "muls" => do let b ← gfpOf (← args[1]?); pure (fp2Hex (a.mulScalar b))
  | _ =>
    let b ← fp2Of (splitC (← args[1]?))
    match op with
    | "mul" => pure (fp2Hex (a.mul b))
    | "add" => pure (fp2Hex (a.add b))
    | "sub" => pure (fp2Hex (a.sub b))
    | _ => none

def t6Case (op : String) (args : List String) : String := orBad do
  let a ← fp6Of (splitC (← args[0]?))
  match op with
  | "sq" => pure (fp6Hex a.square)
  | "inv" => pure (fp6Hex a.invert)
  | "tau" => pure (fp6Hex a.mulTau)
  | "neg" => pure (fp6Hex a.neg)
  | "frob" => pure (fp6Hex (Fp6.frobenius a))
  | "frob2" => pure (fp6Hex (Fp6.frobeniusP2 a))
  | "frob4" => pure (fp6Hex (Fp6.frobeniusP4 a))
  | "muls" => do let b ← fp2Of (splitC (← args[1]?)); pure (fp6Hex (a.mulScalar b))
  | "mulg" => do let b ← gfpOf (← args[1]?); pure (fp6Hex (a.mulGFP b))
  | _ =>
    let b ← fp6Of (splitC (← args[1]?))
    match op with
    | "mul" => pure (fp6Hex (a.mul b))
    | "add" => pure (fp6Hex (a.add b))
    | "sub" => pure (fp6Hex (a.sub b))
    | _ => none

def t12Case (op : String) (args : List String) : String := orBad do
  let a ← fp12Of (splitC (← args[0]?))
  match op with
  | "sq" => pure (fp12Hex a.square)
  | "inv" => pure (fp12Hex a.invert)
  | "conj" => pure (fp12Hex a.conjugate)
  | "neg" => pure (fp12Hex a.neg)
  | "frob" => pure (fp12Hex (Fp12.frobenius a))
  | "frob2" => pure (fp12Hex (Fp12.frobeniusP2 a))
  | "frob4" => pure (fp12Hex (Fp12.frobeniusP4 a))
  | "exp" => do let k ← (← args[1]?).toNat?; pure (fp12Hex (a.exp k))
  | "finexp" => pure (fp12Hex (finalExponentiation a))
  | _ =>
    let b ← fp12Of (splitC (← args[1]?))
    match op with
    | "mul" => pure (fp12Hex (a.mul b))
    | "add" => pure (fp12Hex (a.add b))
    | "sub" => pure (fp12Hex (a.sub b))
    | _ => none

/-- receiver / operand aliasing of a point operation: the aliased operand is the SAME object -/
def pick3 {α : Type} (alias : String) (c a b : α) : Option (α × α × α) :=
  match alias with
  | "n" => some (c, a, b)
  | "ca" => some (a, a, b)
  | "cb" => some (b, a, b)
  | "ab" => some (c, a, a)
  | "cab" => some (a, a, a)
  | _ => none

def g1Case (op : String) (args : List String) : String := orBad do
  match op with
  | "add" =>
      let (c, a, b) ← pick3 (← args[0]?) (← g1Of (← args[1]?)) (← g1Of (← args[2]?)) (← g1Of (← args[3]?))
      pure (g1Hex (Jac.add c a b))
  | "dbl" =>
      let (c, a, _) ← pick3 (← args[0]?) (← g1Of (← args[1]?)) (← g1Of (← args[2]?)) (← g1Of (← args[2]?))
      pure (g1Hex (Jac.double c a))
  | "mul" => do
      let a ← g1Of (← args[0]?)
      let k ← (← args[1]?).toNat?
      pure (g1Hex (Jac.curveMul a k))
  | "aff" => do pure (g1Hex (← g1Of (← args[0]?)).makeAffine)
  | "neg" => do pure (g1Hex (curveNeg (← g1Of (← args[0]?))))
  | "onc" => do pure (toString (curveIsOnCurve (← g1Of (← args[0]?))))
  | _ => none

def g2Case (op : String) (args : List String) : String := orBad do
  match op with
  | "add" =>
      let (c, a, b) ← pick3 (← args[0]?) (← g2Of (← args[1]?)) (← g2Of (← args[2]?)) (← g2Of (← args[3]?))
      pure (g2Hex (Jac.add c a b))
  | "dbl" =>
      let (c, a, _) ← pick3 (← args[0]?) (← g2Of (← args[1]?)) (← g2Of (← args[2]?)) (← g2Of (← args[2]?))
      pure (g2Hex (Jac.double c a))
  | "mul" => do
      let a ← g2Of (← args[0]?)
      let k ← (← args[1]?).toNat?
      pure (g2Hex (Jac.twistMul a k))
  | "aff" => do pure (g2Hex (← g2Of (← args[0]?)).makeAffine)
  | "neg" => do pure (g2Hex (twistNeg (← g2Of (← args[0]?))))
  | "onc" => do pure (toString (twistIsOnCurve (← g2Of (← args[0]?))))
  | _ => none

def pairsOf (s : String) : Option (List (G1J × G2J)) :=
  if s == "-" then some [] else
  (s.splitOn "|").mapM fun e => match e.splitOn ";" with
    | [p, q] => do pure (← g1Of p, ← g2Of q)
    | _ => none


/-! ### API-level programs (exported kyber interface of the suite, point.go) -/

inductive RegVal
  | g1 (p : G1J)
  | g2 (q : G2J)
  | gt (e : F12)
  | b (v : Bool)

abbrev Regs := List (String × RegVal)

def Regs.get? (rs : Regs) (n : String) : Option RegVal := (rs.find? (·.1 == n)).map (·.2)
def Regs.put (rs : Regs) (n : String) (v : RegVal) : Regs :=
  if rs.any (·.1 == n) then rs.map (fun e => if e.1 == n then (n, v) else e) else rs ++ [(n, v)]

def dec (a : GFp) : String := natHex (GFp.montDecode a).v
/-- montEncode(Unmarshal(Marshal(montDecode a))) -/
def reenc (a : GFp) : GFp := GFp.montEncode (GFp.montDecode a)
def reenc2 (a : F2) : F2 := ⟨reenc a.x, reenc a.y⟩

/-- pointG1.MarshalBinary (works on a copy) -/
def g1Marshal (p : G1J) : String :=
  let a := p.makeAffine
  if a.isInfinity then natHex 0 ++ natHex 0 else dec a.x ++ dec a.y
/-- pointG1.Clone = UnmarshalBinary(MarshalBinary) into a fresh point -/
def g1Clone (p : G1J) : G1J :=
  let a := p.makeAffine
  let (x, y) : GFp × GFp := if a.isInfinity then (GFp.montEncode ⟨0⟩, GFp.montEncode ⟨0⟩) else (reenc a.x, reenc a.y)
  if x = 0 ∧ y = 0 then ⟨x, 1, 0, 0⟩ else ⟨x, y, 1, 1⟩

/-- pointG2.MarshalBinary normalises the point IN PLACE, then encodes -/
def g2Marshal (q : G2J) : String :=
  let a := q.makeAffine
  if a.isInfinity then "00" else "01" ++ dec a.x.x ++ dec a.x.y ++ dec a.y.x ++ dec a.y.y
def g2Clone (q : G2J) : G2J :=
  let a := q.makeAffine
  if a.isInfinity then Jac.infinity
  else
    let x := reenc2 a.x
    let y := reenc2 a.y
    if x = 0 ∧ y = 0 then ⟨x, 1, 0, 0⟩ else ⟨x, y, 1, 1⟩

def f12Coords (e : F12) : List GFp :=
  [e.x.x.x, e.x.x.y, e.x.y.x, e.x.y.y, e.x.z.x, e.x.z.y, e.y.x.x, e.y.x.y, e.y.y.x, e.y.y.y, e.y.z.x, e.y.z.y]
def gtMarshal (e : F12) : String := String.join ((f12Coords e).map dec)
def gtClone (e : F12) : F12 :=
  ⟨⟨reenc2 e.x.x, reenc2 e.x.y, reenc2 e.x.z⟩, ⟨reenc2 e.y.x, reenc2 e.y.y, reenc2 e.y.z⟩⟩

def order : Nat := Gen.Bn256.Order

def apiOp (rs : Regs) (dst name : String) (args : List String) : Option Regs := do
  let kind := dst.front
  if kind == 'b' then
    -- chk:<p>,<q>,<p>,<q>,…
    let rec pairs : List String → Option (List (G1J × G2J))
      | [] => some []
      | p :: q :: rest => do
          match ← rs.get? p, ← rs.get? q with
          | .g1 a, .g2 b => pure ((a, b) :: (← pairs rest))
          | _, _ => none
      | _ => none
    let ps ← pairs args
    return rs.put dst (.b (pairingCheck ps))
  if kind == 'p' then
    let recv : G1J := match rs.get? dst with
      | some (.g1 p) => p
      | _ => Jac.zeroValue
    let g (n : String) : Option G1J := match rs.get? n with
      | some (.g1 p) => some p
      | _ => none
    let v ← (match name with
      | "base" => some curveGen
      | "null" => some Jac.infinity
      | "mul" => do pure (Jac.curveMul (← g (← args[1]?)) ((← (← args[0]?).toNat?) % order))
      | "add" => do pure (Jac.add recv (← g (← args[0]?)) (← g (← args[1]?)))
      | "sub" => do pure (Jac.add recv (← g (← args[0]?)) (curveNeg (← g (← args[1]?))))
      | "neg" => do pure (curveNeg (← g (← args[0]?)))
      | "set" => do g (← args[0]?)
      | "clone" => do pure (g1Clone (← g (← args[0]?)))
      | _ => none)
    return rs.put dst (.g1 v)
  if kind == 'q' then
    let recv : G2J := match rs.get? dst with
      | some (.g2 p) => p
      | _ => Jac.zeroValue
    let g (n : String) : Option G2J := match rs.get? n with
      | some (.g2 p) => some p
      | _ => none
    match name with
    | "clone" =>
        -- MarshalBinary normalises the SOURCE in place
        let src ← args[0]?
        let a ← g src
        let rs := rs.put src (.g2 a.makeAffine)
        return rs.put dst (.g2 (g2Clone a))
    | _ =>
      let v ← (match name with
        | "base" => some twistGen
        | "null" => some Jac.infinity
        | "mul" => do pure (Jac.twistMul (← g (← args[1]?)) ((← (← args[0]?).toNat?) % order))
        | "add" => do pure (Jac.add recv (← g (← args[0]?)) (← g (← args[1]?)))
        | "sub" => do pure (Jac.add recv (← g (← args[0]?)) (twistNeg (← g (← args[1]?))))
        | "neg" => do pure (twistNeg (← g (← args[0]?)))
        | "set" => do g (← args[0]?)
        | _ => none)
      return rs.put dst (.g2 v)
  if kind == 'e' then
    let g (n : String) : Option F12 := match rs.get? n with
      | some (.gt p) => some p
      | _ => none
    let v ← (match name with
      | "base" => some gfP12Gen
      | "null" => some gfP12Inf
      | "mul" => do pure ((← g (← args[1]?)).exp ((← (← args[0]?).toNat?) % order))
      | "add" => do pure ((← g (← args[0]?)).mul (← g (← args[1]?)))
      | "sub" => do pure ((← g (← args[0]?)).mul (← g (← args[1]?)).conjugate)
      | "neg" => do pure (← g (← args[0]?)).conjugate
      | "set" => do g (← args[0]?)
      | "clone" => do pure (gtClone (← g (← args[0]?)))
      | "pair" => do
          match ← rs.get? (← args[0]?), ← rs.get? (← args[1]?) with
          | .g1 a, .g2 b => pure (optimalAte b a)
          | _, _ => none
      | _ => none)
    return rs.put dst (.gt v)
  none

def apiCase (prog : String) : String := orBad do
  let rs ← (prog.splitOn ";").foldlM (fun (rs : Regs) op => do
    match op.splitOn "=" with
    | [dst, rhs] =>
        match rhs.splitOn ":" with
        | [name] => apiOp rs dst name []
        | [name, args] => apiOp rs dst name (args.splitOn ",")
        | _ => none
    | _ => none) ([] : Regs)
  let names := (rs.map (·.1)).toArray.qsort (· < ·) |>.toList
  let outs ← names.mapM fun n => do
    match ← rs.get? n with
    | .g1 p => pure (n ++ "=" ++ g1Marshal p)
    | .g2 q => pure (n ++ "=" ++ g2Marshal q)
    | .gt e => pure (n ++ "=" ++ gtMarshal e)
    | .b v => pure (n ++ "=" ++ toString v)
  pure (" ".intercalate outs)

/-- tower operation under a receiver / operand aliasing pattern: the model is a function of the operand VALUES,
so aliasing only matters through "both operands are the same object" (the second operand is then the first) -/
def towerAlias (f : String → List String → String) (op alias : String) (args : List String) : String :=
  if alias == "n" || alias == "ca" || alias == "cb" then f op args
  else if alias == "ab" || alias == "cab" then
    match args with
    | [a, _] => f op [a, a]
    | _ => f op args
  else bad

def step (line : String) : String :=
  match words line with
  | ["f", op, alias, a, b] => fieldCase op alias a b
  | ["fx", "enc", a] => orBad do pure (gfpHex (GFp.montEncode (← gfpOf a)))
  | ["fx", "dec", a] => orBad do pure (gfpHex (GFp.montDecode (← gfpOf a)))
  | ["fx", "inv", a] => orBad do pure (gfpHex (GFp.invert (← gfpOf a)))
  | ["fx", "new", k] => orBad do pure (gfpHex (GFp.newGFp (← k.toInt?)))
  | "t2a" :: op :: alias :: args => towerAlias t2Case op alias args
  | "t6a" :: op :: alias :: args => towerAlias t6Case op alias args
  | "t12a" :: op :: alias :: args => towerAlias t12Case op alias args
  | "t2" :: op :: args => t2Case op args
  | "t6" :: op :: args => t6Case op args
  | "t12" :: op :: args => t12Case op args
  | "g1" :: op :: args => g1Case op args
  | "g2" :: op :: args => g2Case op args
  | ["miller", q, p] => orBad do pure (fp12Hex (miller (← g2Of q) (← g1Of p)))
  | ["pair", q, p] => orBad do pure (fp12Hex (optimalAte (← g2Of q) (← g1Of p)))
  | ["pair", q, p, _, _] => orBad do pure (fp12Hex (optimalAte (← g2Of q) (← g1Of p)))
  | ["api", prog] => apiCase prog
  | ["check", ps] => orBad do pure (toString (pairingCheck (← pairsOf ps)))
  | ["const", name] =>
      match name with
      | "curveGen" => g1Hex curveGen
      | "twistGen" => g2Hex twistGen
      | "gtGen" => fp12Hex gfP12Gen
      | "gtInf" => fp12Hex gfP12Inf
      | "curveB" => gfpHex curveB
      | "twistB" => fp2Hex twistB
      | _ => bad
  | _ => bad

end C10Drv

def main : IO Unit := Dos.lineLoop C10Drv.step

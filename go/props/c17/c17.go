// Package c17: every p2p request gets its own reply, at most once, or a prompt error.
//
// Three kinds of case line:
//
//	disp <ops>          the real client.dispatch + client.packPipe on injected channels, one
//	                    operation at a time (s new request, r<n> new Reply with nonce n,
//	                    p<k>:<m> reply message nonce k payload m, v<m> other message,
//	                    c<i> cancel request i, x connection context done)
//	obj <ops>           one request object and its by-value copies (y<a> copy of copy a,
//	                    f<a>:<v> replyResult(v) on copy a, c cancel)
//	net <peers> <reqs>  a real node on loopback against scripted peers (package fakepeer):
//	                    peers ok|close|refuse|silent|blackhole; reqs <peer>.<act> with act
//	                    R<ms> reply, D drop+cancel, T drop (deadline), L lost by close, U unknown
//	                    nonce first, P duplicate reply, X late reply after cancel, C<t>.<d> racing cancel,
//	                    K<t> cancel t ms after the call, S<m> a reply with bad signature (fakepeer
//	                    sigMode m = 1..4) then the good reply, B<m> a reply with bad signature only
//	                    (the caller cancels 300 ms later). With a blackhole peer (an address that
//	                    does not answer the SYN) the scenario starts with one warm-up request per
//	                    ok peer, and the output line ends with warm=…
package c17

import (
	"bytes"
	"context"
	"fmt"
	"net"
	"os"
	osexec "os/exec"
	"sort"
	"strconv"
	"strings"
	"sync"
	"time"

	"github.com/DOSNetwork/core/log"
	"github.com/DOSNetwork/core/p2p"
	"github.com/golang/protobuf/proto"
	"github.com/golang/protobuf/ptypes"

	"verifharness/internal/h"
	"verifharness/props/c17/fakepeer"
)

func init() {
	h.Register(&h.Prop{
		ID:   "C17",
		Rule: "hist: a real node and 1..3 peers (real nodes behind a cuttable relay / harness endpoints) driven through connection histories (requests both ways, answers in any order and late, DisConnectTo, second connections, cuts, restarts of either side, contexts ending), then every connection ended and every peer asked again both ways; disp: random serialised histories over the real dispatch+packPipe (≤60 ops: sends, Replies, replies in any order, duplicates, unknown nonces, cancels, close); obj: copies of one request object; net: real node vs scripted peers, 1..200 concurrent requests over 1..4 connections, reordered/delayed/dropped/duplicated/late replies, cancels, deadline, connection closed mid-flight, refusing, silent and black-holed peer (SYN never answered; the node is already connected to the answering peers), replies to a pending request with each kind of bad signature followed by the good reply or by nothing; non-trivial = ≥2 requests in flight or a fault (drop/dup/unknown/cancel/close/refuse/silent/blackhole/bad signature); distinct = distinct case line",
		Gen:  gen,
		Exec: exec,
	})
}

var logOnce sync.Once

func initLog() { logOnce.Do(func() { os.MkdirAll("vault", 0o755); log.Init([]byte("c17")) }) }

func own(g int) uint64 { return uint64(7*g + 3) }

func exec(line string) (res h.Result) {
	w := strings.Fields(line)
	// every case runs in a child process: a panic in a goroutine of the code under test (double
	// close of a reply channel, …) then costs one case, not the run, and the case line is the replay
	if os.Getenv("VERIF_C17_CHILD") == "" {
		return execChild(line, w)
	}
	initLog()
	switch w[0] {
	case "disp":
		return execDisp(w[1])
	case "obj":
		return execObj(w[1])
	case "net":
		return execNet(w[1], w[2])
	case "hist":
		return execHist(w[1], w[2])
	}
	panic("bad case line")
}

// ---------------------------------------------------------------- disp

func split(s string) []string {
	if s == "-" || s == "" {
		return nil
	}
	return strings.Split(s, ",")
}

func classify(r interface{}, err error) string {
	if err != nil {
		if strings.Contains(err.Error(), "client dispatch") {
			return "closed"
		}
		if strings.Contains(err.Error(), "client send") {
			return "send"
		}
		if err == context.Canceled || err == context.DeadlineExceeded {
			return "ctx"
		}
		return "err:" + h.OneLine(err.Error())
	}
	if r == nil {
		return "nil"
	}
	if m, ok := r.(p2p.P2PMessage); ok {
		if pg, ok := m.Msg.Message.(*p2p.Pong); ok {
			return fmt.Sprintf("msg:%d", pg.Count)
		}
	}
	return fmt.Sprintf("other:%T", r)
}

const marker = uint64(1) << 62

var hangsSeen int

func execDisp(ops string) (res h.Result) {
	d := p2p.VerifNewDispatcher([]byte("me"), 0)
	var reqs []*p2p.VerifRequest
	var outcome []string
	var done []chan struct{}
	var nonces, wire, feed []string
	var omu sync.Mutex
	stopped := false
	faults, inflight, maxInflight := 0, 0, 0
	barrier := func() bool {
		select {
		case d.Recv <- p2p.P2PMessage{Msg: ptypes.DynamicAny{Message: &p2p.Ping{Count: marker}}}:
		case <-time.After(10 * time.Second):
			return false
		}
		select {
		case <-d.Feed:
		case <-time.After(10 * time.Second):
			return false
		}
		return true
	}
	newReq := func(isReply bool, nonce uint64) bool {
		i := len(reqs)
		r := p2p.VerifNewRequest(context.Background(), isReply, []byte("peer"), &p2p.Ping{Count: uint64(i)}, nonce)
		reqs = append(reqs, r)
		omu.Lock() // waiters write outcome[i] concurrently: the append may move the slice
		outcome = append(outcome, "hang")
		omu.Unlock()
		ch := make(chan struct{})
		done = append(done, ch)
		go func() {
			v, err := r.Wait()
			omu.Lock()
			outcome[i] = classify(v, err)
			omu.Unlock()
			close(ch)
		}()
		if err := d.Send(r); err != nil {
			return false
		}
		select {
		case b, ok := <-d.Out:
			if !ok {
				return false
			}
			pa := &p2p.Package{}
			if err := proto.Unmarshal(b, pa); err != nil {
				return false
			}
			t := "s"
			if pa.ReplyFlag {
				t = "r"
			}
			wire = append(wire, fmt.Sprintf("%d:%s", pa.RequestNonce, t))
			if !isReply {
				nonces = append(nonces, fmt.Sprintf("%d:%d", i, pa.RequestNonce))
			}
		case <-time.After(10 * time.Second):
			return false
		}
		return true
	}
	good := true
	for _, op := range split(ops) {
		if stopped || !good {
			break
		}
		arg := op[1:]
		switch op[0] {
		case 's':
			good = newReq(false, 0)
			inflight++
		case 'r':
			good = newReq(true, uint64(h.Atoi(arg)))
		case 'p':
			kv := strings.Split(arg, ":")
			k, _ := strconv.ParseUint(kv[0], 10, 64)
			m := h.Atoi(kv[1])
			select {
			case d.Reply <- p2p.P2PMessage{Msg: ptypes.DynamicAny{Message: &p2p.Pong{Count: uint64(m)}}, RequestNonce: k}:
			case <-time.After(10 * time.Second):
				good = false
			}
			good = good && barrier()
			faults++
		case 'v':
			m := h.Atoi(arg)
			select {
			case d.Recv <- p2p.P2PMessage{Msg: ptypes.DynamicAny{Message: &p2p.Ping{Count: uint64(m)}}}:
				select {
				case got := <-d.Feed:
					feed = append(feed, fmt.Sprint(got.Msg.Message.(*p2p.Ping).Count))
				case <-time.After(10 * time.Second):
					good = false
				}
			case <-time.After(10 * time.Second):
				good = false
			}
		case 'c':
			i := h.Atoi(arg)
			if i < len(reqs) {
				reqs[i].Cancel()
				select {
				case <-done[i]:
				case <-time.After(10 * time.Second):
					good = false
				}
				faults++
			}
		case 'x':
			stopped = true
		default:
			panic("bad disp op " + op)
		}
		if inflight > maxInflight {
			maxInflight = inflight
		}
	}
	d.Cancel()
	// one deadline for all: a request that is never completed shows as "hang"; once a few cases of
	// this process have shown it (the violation is established) later cases wait less
	wait := 3 * time.Second
	if hangsSeen >= 3 {
		wait = 150 * time.Millisecond
	}
	final := time.After(wait)
	for i := range done {
		select {
		case <-done[i]:
		case <-final:
			final = nil
			select {
			case <-done[i]:
			default:
			}
		}
		if final == nil {
			break
		}
	}
	// at most one value, closed at most once: the channel of every completed request is closed and empty
	omu.Lock()
	defer omu.Unlock()
	for i, r := range reqs {
		st, v, _ := r.TryRecv()
		if st == 1 {
			res.Oracle = fmt.Sprintf("second-value: request %d's reply channel carried a second value %v", i, v)
		}
		if outcome[i] == "hang" {
			hangsSeen++
		}
		if outcome[i] == "hang" && res.Oracle == "" {
			res.Oracle = fmt.Sprintf("request-never-returned: request %d still waiting after the connection context ended", i)
		}
	}
	if !good && res.Oracle == "" {
		res.Oracle = "dispatch-stuck: an operation was not accepted within 10 s"
	}
	// direct oracle (independent of the model): replay the history with a plain map
	if o := dispOracle(split(ops), nonces, outcome); o != "" && res.Oracle == "" {
		res.Oracle = o
	}
	res.Impl = fmt.Sprintf("nonces=%s wire=%s feed=%s res=%s", join(nonces), join(wire), join(feed), join(outcome))
	res.Class = fmt.Sprintf("disp-%dops", len(split(ops))/20*20)
	res.Nontrivial = maxInflight >= 2 || faults > 0
	return
}

func join(v []string) string {
	if len(v) == 0 {
		return "-"
	}
	return strings.Join(v, ",")
}

// dispOracle states the property on the observed run: nonces pairwise distinct; a request that
// returned a message returned the FIRST reply event carrying its own nonce and was not cancelled
// before it; no other request returned that message.
func dispOracle(ops []string, nonces, outcome []string) string {
	nonceOf := map[int]uint64{}
	seen := map[uint64]bool{}
	for _, s := range nonces {
		kv := strings.Split(s, ":")
		i, _ := strconv.Atoi(kv[0])
		k, _ := strconv.ParseUint(kv[1], 10, 64)
		if seen[k] {
			return fmt.Sprintf("nonce-reused: nonce %d assigned twice", k)
		}
		seen[k] = true
		nonceOf[i] = k
	}
	firstReply := map[uint64]int{} // nonce → payload of the first reply event after the request was sent
	cancelled := map[int]bool{}
	cancelledBeforeReply := map[int]bool{}
	isReplyType := map[int]bool{}
	n := 0
	owner := map[uint64]int{}
	for _, op := range ops {
		if op == "x" {
			break
		}
		switch op[0] {
		case 's':
			if k, ok := nonceOf[n]; ok {
				owner[k] = n
			}
			n++
		case 'r':
			isReplyType[n] = true
			n++
		case 'c':
			i, _ := strconv.Atoi(op[1:])
			if i < n {
				cancelled[i] = true
			}
		case 'p':
			kv := strings.Split(op[1:], ":")
			k, _ := strconv.ParseUint(kv[0], 10, 64)
			m, _ := strconv.Atoi(kv[1])
			if i, ok := owner[k]; ok {
				if _, dup := firstReply[k]; !dup {
					firstReply[k] = m
					if cancelled[i] {
						cancelledBeforeReply[i] = true
					}
				}
			}
		}
	}
	for i, o := range outcome {
		if isReplyType[i] {
			if o != "nil" {
				return fmt.Sprintf("reply-ack-missing: Reply request %d returned %s", i, o)
			}
			continue
		}
		k, has := nonceOf[i]
		m, replied := firstReply[k]
		switch {
		case strings.HasPrefix(o, "msg:"):
			if !has || !replied || o != fmt.Sprintf("msg:%d", m) || cancelledBeforeReply[i] {
				return fmt.Sprintf("cross-talk: request %d (nonce %d) returned %s, first reply to its nonce was %v/%d", i, k, o, replied, m)
			}
		case o == "ctx":
			if !cancelled[i] {
				return fmt.Sprintf("spurious-ctx-error: request %d", i)
			}
		case o == "closed":
			if replied && !cancelledBeforeReply[i] {
				return fmt.Sprintf("reply-lost: request %d was replied (%d) but returned closed", i, m)
			}
		default:
			return fmt.Sprintf("unexpected-outcome: request %d returned %s", i, o)
		}
		if replied && !cancelledBeforeReply[i] && !strings.HasPrefix(o, "msg:") && o != "closed" {
			return fmt.Sprintf("reply-lost: request %d was replied (%d) but returned %s", i, m, o)
		}
	}
	return ""
}

// ---------------------------------------------------------------- obj

func execObj(ops string) (res h.Result) {
	ctx, cancel := context.WithCancel(context.Background())
	defer cancel()
	orig := p2p.VerifNewRequest(ctx, false, []byte("peer"), &p2p.Ping{}, 0)
	copies := []*p2p.VerifRequest{orig}
	outcome := "hang"
	done := make(chan struct{})
	go func() {
		v, err := orig.Wait()
		outcome = classify(v, err)
		close(done)
	}()
	panicked := false
	fires := 0
	fire := func(c *p2p.VerifRequest, v uint64) {
		defer func() {
			if e := recover(); e != nil {
				panicked = true
			}
		}()
		c.ReplyResult(p2p.P2PMessage{Msg: ptypes.DynamicAny{Message: &p2p.Pong{Count: v}}}, nil)
	}
	for _, op := range split(ops) {
		if panicked {
			break
		}
		switch op[0] {
		case 'y':
			a := h.Atoi(op[1:])
			if a < len(copies) {
				copies = append(copies, copies[a].Copy())
			}
		case 'f':
			kv := strings.Split(op[1:], ":")
			a := h.Atoi(kv[0])
			if a < len(copies) {
				fire(copies[a], uint64(h.Atoi(kv[1])))
				fires++
			}
		case 'c':
			orig.Cancel()
			<-done
		}
	}
	closed := "0"
	if panicked {
		closed = "panic"
	} else if st, _, _ := orig.TryRecv(); st == 2 {
		closed = "1"
	} else if st == 1 {
		res.Oracle = "second-value: a value was left on the reply channel"
	}
	orig.Cancel()
	select {
	case <-done:
	case <-time.After(5 * time.Second):
	}
	res.Impl = fmt.Sprintf("res=%s closed=%s", outcome, closed)
	res.Class = "obj"
	res.Nontrivial = fires >= 2
	return
}

// ---------------------------------------------------------------- net (child process)

func execChild(line string, w []string) (res h.Result) {
	cmd := osexec.Command(os.Args[0], "exec", "C17")
	cmd.Env = append(os.Environ(), "VERIF_C17_CHILD=1")
	cmd.Stdin = strings.NewReader(line + "\n")
	var out, errb bytes.Buffer
	cmd.Stdout, cmd.Stderr = &out, &errb
	done := make(chan error, 1)
	if err := cmd.Start(); err != nil {
		panic(err)
	}
	go func() { done <- cmd.Wait() }()
	var err error
	select {
	case err = <-done:
	case <-time.After(120 * time.Second):
		cmd.Process.Kill()
		err = fmt.Errorf("timeout")
	}
	switch w[0] {
	case "net":
		res.Class, res.Nontrivial = netClass(w[1], w[2])
	case "obj":
		res.Class, res.Nontrivial = "obj", strings.Count(w[1], "f") >= 2
	case "hist":
		res.Class, res.Nontrivial = histClass(w[1], w[2])
	default:
		ops := split(w[1])
		sends, faults := 0, 0
		for _, o := range ops {
			if o[0] == 's' {
				sends++
			}
			if o[0] == 'p' || o[0] == 'c' {
				faults++
			}
		}
		res.Class, res.Nontrivial = fmt.Sprintf("disp-%dops", len(ops)/20*20), sends >= 2 || faults > 0
	}
	if err != nil {
		msg := errb.String()
		if i := strings.Index(msg, "panic:"); i >= 0 {
			msg = msg[i:]
		} else if i := strings.Index(msg, "fatal error:"); i >= 0 {
			msg = msg[i:]
		}
		if len(msg) > 300 {
			msg = msg[:300]
		}
		res.Impl = "crash"
		sig := "node-crashed"
		if strings.Contains(errb.String(), "close of closed channel") {
			sig = "reply-channel-closed-twice"
		}
		res.Oracle = sig + ": " + h.OneLine(err.Error()+" "+msg)
		return
	}
	lines := strings.Split(strings.TrimRight(out.String(), "\n"), "\n")
	last := lines[len(lines)-1]
	parts := strings.SplitN(last, "\t", 2)
	res.Impl = parts[0]
	if len(parts) > 1 {
		res.Oracle = parts[1]
	}
	return
}

type reqSpec struct {
	peer int
	act  byte
	a, b int
}

func parseReqs(s string) []reqSpec {
	var out []reqSpec
	for _, e := range split(s) {
		pa := strings.Split(e, ".")
		r := reqSpec{peer: h.Atoi(pa[0]), act: pa[1][0]}
		if len(pa[1]) > 1 {
			r.a = h.Atoi(pa[1][1:])
		}
		if len(pa) > 2 {
			r.b = h.Atoi(pa[2])
		}
		out = append(out, r)
	}
	return out
}

func netClass(peers, reqs string) (string, bool) {
	rs := parseReqs(reqs)
	faults := strings.Contains(peers, "refuse") || strings.Contains(peers, "silent") || strings.Contains(peers, "close") || strings.Contains(peers, "blackhole")
	badSig := false
	for _, r := range rs {
		if r.act != 'R' {
			faults = true
		}
		if r.act == 'S' || r.act == 'B' {
			badSig = true
		}
	}
	b := "1"
	switch {
	case len(rs) > 100:
		b = "101-200"
	case len(rs) > 20:
		b = "21-100"
	case len(rs) > 1:
		b = "2-20"
	}
	kind := "plain"
	switch {
	case strings.Contains(peers, "blackhole"):
		kind = "blackhole"
	case badSig:
		kind = "badsig"
	case strings.Contains(peers, "silent"):
		kind = "silent"
	case strings.Contains(peers, "close"):
		kind = "close"
	case strings.Contains(peers, "refuse"):
		kind = "refuse"
	case faults:
		kind = "faults"
	}
	return fmt.Sprintf("net-%s-%sreq-%dpeers", kind, b, len(split(peers))), len(rs) >= 2 || faults
}

func freePort() string {
	l, err := net.Listen("tcp", "127.0.0.1:0")
	if err != nil {
		panic(err)
	}
	defer l.Close()
	return strconv.Itoa(l.Addr().(*net.TCPAddr).Port)
}

type fpeer struct {
	idx      int
	kind     string
	bh       *blackhole
	ln       net.Listener
	addr     string
	id       []byte
	mu       sync.Mutex
	conns    []net.Conn
	nonces   [][]uint64 // per session, in arrival order
	late     []func()
	accepted chan struct{} // closed when a silent peer has accepted a connection
	accOnce  sync.Once
	seenAll  chan struct{}
	closeGo  chan struct{}
	expect   int // requests of the first wave this peer will see (close kind)
	got      int
}

type scenario struct {
	reqs   []reqSpec
	nTotal int
	seen   []chan struct{}
	seenO  []sync.Once
}

func (sc *scenario) spec(g int) reqSpec {
	if g < len(sc.reqs) {
		return sc.reqs[g]
	}
	return reqSpec{act: 'R'}
}

func (p *fpeer) serve(sc *scenario) {
	for {
		c, err := p.ln.Accept()
		if err != nil {
			return
		}
		p.mu.Lock()
		p.conns = append(p.conns, c)
		p.mu.Unlock()
		if p.kind == "silent" {
			p.accOnce.Do(func() { close(p.accepted) })
			continue
		}
		go p.session(c, sc)
	}
}

func (p *fpeer) session(c net.Conn, sc *scenario) {
	s, err := fakepeer.Handshake(c, p.id)
	if err != nil {
		return
	}
	p.mu.Lock()
	si := len(p.nonces)
	p.nonces = append(p.nonces, nil)
	p.mu.Unlock()
	var held []func() // close kind: replies are sent once every expected request has arrived
	for {
		pa, err := s.Read()
		if err != nil {
			return
		}
		var dyn ptypes.DynamicAny
		if err := ptypes.UnmarshalAny(pa.GetAnything(), &dyn); err != nil {
			continue
		}
		pg, ok := dyn.Message.(*p2p.Ping)
		if !ok {
			continue
		}
		g := int(pg.Count)
		nonce := pa.GetRequestNonce()
		p.mu.Lock()
		p.nonces[si] = append(p.nonces[si], nonce)
		p.got++
		gotAll := p.kind == "close" && p.got == p.expect
		p.mu.Unlock()
		if g >= sc.nTotal {
			continue
		}
		sp := sc.spec(g)
		reply := func(payload uint64, n uint64) { s.Send(&p2p.Pong{Count: payload}, n, true, 0) }
		// a reply to the pending request (right nonce, reply flag) in a package whose signature does not verify
		badReply := func(mode int) { s.Send(&p2p.Pong{Count: own(g) + 2}, nonce, true, mode) }
		var act func()
		switch sp.act {
		case 'R':
			d := sp.a
			act = func() {
				go func() {
					if d > 0 {
						time.Sleep(time.Duration(d) * time.Millisecond)
					}
					reply(own(g), nonce)
				}()
			}
		case 'U':
			act = func() { reply(own(g)+1, nonce+100000); reply(own(g), nonce) }
		case 'P':
			act = func() { reply(own(g), nonce); reply(own(g)+1, nonce) }
		case 'S':
			m := sp.a
			act = func() { badReply(m); reply(own(g), nonce) }
		case 'B':
			m := sp.a
			act = func() { badReply(m) }
		case 'X':
			p.mu.Lock()
			p.late = append(p.late, func() { reply(own(g), nonce) })
			p.mu.Unlock()
		case 'C':
			d := sp.b
			act = func() {
				go func() {
					time.Sleep(time.Duration(d) * time.Millisecond)
					reply(own(g), nonce)
				}()
			}
		}
		sc.seenO[g].Do(func() { close(sc.seen[g]) })
		if p.kind == "close" && g < len(sc.reqs) {
			if act != nil {
				held = append(held, act)
			}
			if gotAll {
				for _, f := range held {
					f()
				}
				held = nil
				go func() {
					<-p.closeGo
					c.Close()
				}()
			}
			continue
		}
		if act != nil {
			act()
		}
	}
}

type reqResult struct {
	err     error
	payload uint64
	dur     time.Duration
	hang    bool
}

func execNet(peersS, reqsS string) (res h.Result) {
	kinds := split(peersS)
	sc := &scenario{reqs: parseReqs(reqsS)}
	nOK := 0
	for _, k := range kinds {
		if k == "ok" {
			nOK++
		}
	}
	hasBlackhole := false
	for _, k := range kinds {
		if k == "blackhole" {
			hasBlackhole = true
		}
	}
	// ids: requests, then one probe per peer, then (black hole in the scenario) one warm-up per peer
	sc.nTotal = len(sc.reqs) + len(kinds)
	if hasBlackhole {
		sc.nTotal += len(kinds)
	}
	sc.seen = make([]chan struct{}, sc.nTotal)
	sc.seenO = make([]sync.Once, sc.nTotal)
	for i := range sc.seen {
		sc.seen[i] = make(chan struct{})
	}
	peers := make([]*fpeer, len(kinds))
	table := map[string]string{}
	for i, k := range kinds {
		p := &fpeer{idx: i, kind: k, id: []byte(fmt.Sprintf("peer%d", i)), accepted: make(chan struct{}), closeGo: make(chan struct{})}
		if k == "refuse" {
			p.addr = "127.0.0.1:" + freePort()
		} else if k == "blackhole" {
			bh, err := newBlackhole()
			if err != nil {
				panic(err)
			}
			p.bh, p.addr = bh, bh.addr
		} else {
			ln, err := net.Listen("tcp", "127.0.0.1:0")
			if err != nil {
				panic(err)
			}
			p.ln, p.addr = ln, ln.Addr().String()
		}
		for _, r := range sc.reqs {
			if r.peer == i {
				p.expect++
			}
		}
		peers[i] = p
		table[string(p.id)] = p.addr
		if p.ln != nil {
			go p.serve(sc)
		}
	}
	// the node under test
	var node p2p.P2PInterface
	for try := 0; ; try++ {
		port := freePort()
		n, err := p2p.CreateP2PNetwork([]byte("node-under-test"), "127.0.0.1", port, p2p.NoDiscover)
		if err != nil {
			panic(err)
		}
		p2p.VerifSetLookup(n, func(id []byte) string { return table[string(id)] })
		errc := make(chan error, 1)
		go func() { errc <- n.Listen() }()
		ready := false
		for i := 0; i < 400 && !ready; i++ {
			select {
			case <-errc:
				i = 1000
			default:
				if c, err := net.DialTimeout("tcp", "127.0.0.1:"+port, time.Second); err == nil {
					c.Close()
					ready = true
				} else {
					time.Sleep(5 * time.Millisecond)
				}
			}
		}
		if ready {
			node = n
			break
		}
		n.Leave()
		if try > 5 {
			panic("cannot start the node under test")
		}
	}
	results := make([]reqResult, sc.nTotal)
	var wgAll sync.WaitGroup
	perPeerR := make([]sync.WaitGroup, len(peers))
	issue := func(g int, peer int, sp reqSpec) {
		wgAll.Add(1)
		countsForClose := g < len(sc.reqs) && peers[peer].kind == "close" && (sp.act == 'R' || sp.act == 'U' || sp.act == 'P' || sp.act == 'S')
		if countsForClose {
			perPeerR[peer].Add(1)
		}
		go func() {
			defer wgAll.Done()
			ctx, cancel := context.WithCancel(context.Background())
			defer cancel()
			fin := make(chan struct{})
			switch sp.act {
			case 'K':
				go func() {
					select {
					case <-time.After(time.Duration(sp.a) * time.Millisecond):
						cancel()
					case <-fin:
					}
				}()
			case 'D', 'X', 'C', 'B':
				go func() {
					select {
					case <-sc.seen[g]:
						if sp.act == 'C' && sp.a > 0 {
							time.Sleep(time.Duration(sp.a) * time.Millisecond)
						}
						if sp.act == 'B' { // give the bad reply the time to be (wrongly) accepted
							time.Sleep(300 * time.Millisecond)
						}
						cancel()
					case <-fin:
					}
				}()
			}
			t0 := time.Now()
			m, err := node.Request(ctx, peers[peer].id, &p2p.Ping{Count: uint64(g)})
			close(fin)
			r := reqResult{err: err, dur: time.Since(t0)}
			if err == nil {
				if pg, ok := m.Msg.Message.(*p2p.Pong); ok {
					r.payload = pg.Count
				} else {
					r.err = fmt.Errorf("not a Pong: %T", m.Msg.Message)
				}
			}
			results[g] = r
			if countsForClose {
				perPeerR[peer].Done()
			}
		}()
	}
	waitAll := func() bool {
		c := make(chan struct{})
		go func() { wgAll.Wait(); close(c) }()
		select {
		case <-c:
			return true
		case <-time.After(30 * time.Second):
			return false
		}
	}
	// a scenario with a black-holed peer starts with one request to every answering peer: the node
	// is CONNECTED to them (no dial needed any more) when the black hole is asked
	var warm []int
	if hasBlackhole {
		for i, p := range peers {
			if p.kind == "ok" {
				g := len(sc.reqs) + len(kinds) + i
				warm = append(warm, g)
				issue(g, i, reqSpec{peer: i, act: 'R'})
			}
		}
		waitAll()
	}
	hasSilent, stalled := false, false
	for g, sp := range sc.reqs {
		if k := peers[sp.peer].kind; k == "silent" || k == "blackhole" {
			hasSilent = hasSilent || k == "silent"
			stalled = stalled || k == "blackhole"
			issue(g, sp.peer, sp)
		}
	}
	if stalled {
		// nothing tells us that callHandler has taken the request to the black hole and is dialling:
		// give it the time (the reviewer's witness waits 200 ms too)
		time.Sleep(200 * time.Millisecond)
	}
	if hasSilent {
		for _, p := range peers {
			if p.kind == "silent" && p.expect > 0 {
				select {
				case <-p.accepted:
				case <-time.After(6 * time.Second):
				}
			}
		}
	}
	for g, sp := range sc.reqs {
		if k := peers[sp.peer].kind; k != "silent" && k != "blackhole" {
			issue(g, sp.peer, sp)
		}
	}
	for i, p := range peers {
		if p.kind == "close" {
			go func(i int, p *fpeer) { perPeerR[i].Wait(); close(p.closeGo) }(i, p)
		}
	}
	allBack := waitAll()
	// late replies to cancelled requests, then one probe per answering peer
	for _, p := range peers {
		p.mu.Lock()
		late := p.late
		p.late = nil
		p.mu.Unlock()
		for _, f := range late {
			f()
		}
	}
	var probes []int
	if allBack {
		for i, p := range peers {
			if p.kind == "ok" {
				g := len(sc.reqs) + i
				probes = append(probes, g)
				issue(g, i, reqSpec{peer: i, act: 'R'})
			}
		}
		allBack = waitAll()
	}
	node.Leave()
	for _, p := range peers {
		if p.ln != nil {
			p.ln.Close()
		}
		if p.bh != nil {
			p.bh.close()
		}
		p.mu.Lock()
		for _, c := range p.conns {
			c.Close()
		}
		p.mu.Unlock()
	}

	show := func(g int, sp reqSpec) string {
		r := results[g]
		switch {
		case !allBack && r.err == nil && r.dur == 0:
			return "hang"
		case sp.act == 'C' || (sp.act == 'K' && (kinds[sp.peer] == "ok" || kinds[sp.peer] == "close")):
			return "any"
		case r.err != nil:
			return "err"
		case r.payload == own(g):
			return "ok"
		}
		return fmt.Sprintf("ok-wrong:%d", r.payload)
	}
	var rs, ps []string
	for g, sp := range sc.reqs {
		rs = append(rs, show(g, sp))
	}
	for _, g := range probes {
		ps = append(ps, show(g, reqSpec{act: 'R'}))
	}
	res.Impl = fmt.Sprintf("res=%s probes=%s", join(rs), join(ps))
	if hasBlackhole {
		var ws []string
		for _, g := range warm {
			ws = append(ws, show(g, reqSpec{act: 'R'}))
		}
		res.Impl += " warm=" + join(ws)
	}

	// ---- the property itself on what was observed
	var viol []string
	add := func(s string) { viol = append(viol, s) }
	check := func(g int, sp reqSpec, probe bool) {
		r := results[g]
		name := fmt.Sprintf("request %d (peer %d %s, act %c)", g, sp.peer, kinds[sp.peer], sp.act)
		if r.err == nil && r.dur == 0 {
			add("request-never-returned: " + name)
			return
		}
		if r.dur > 8*time.Second {
			add(fmt.Sprintf("slow-return: %s took %v", name, r.dur))
		}
		if r.err == nil && (sp.act == 'S' || sp.act == 'B') && r.payload == own(g)+2 {
			// Request returned the message of a package whose signature does not verify
			add(fmt.Sprintf("unsigned-reply-accepted: %s returned payload %d, which the peer sent only in a reply with bad signature (mode %d)", name, r.payload, sp.a))
			return
		}
		if r.err == nil && r.payload != own(g) {
			add(fmt.Sprintf("cross-talk: %s returned payload %d, its own reply is %d", name, r.payload, own(g)))
		}
		answering := kinds[sp.peer] == "ok" || kinds[sp.peer] == "close"
		switch sp.act {
		case 'R', 'U', 'P', 'S':
			if answering && r.err != nil {
				if hasBlackhole {
					// direct oracle of review 5-D #2: a request to an answering peer (connected already: the
					// warm-up) failed after a request to a black-holed peer
					add(fmt.Sprintf("blackhole-wedges-other-peers: %s failed after %v: %s", name, r.dur.Round(time.Millisecond), h.OneLine(r.err.Error())))
				} else if hasSilent {
					add(fmt.Sprintf("silent-peer-handshake-wedges-callHandler: %s failed after %v: %s", name, r.dur.Round(time.Millisecond), h.OneLine(r.err.Error())))
				} else {
					add(fmt.Sprintf("valid-request-failed: %s failed after %v: %s", name, r.dur.Round(time.Millisecond), h.OneLine(r.err.Error())))
				}
			}
			if !answering && r.err == nil {
				add("unreachable-peer-answered: " + name)
			}
		case 'K':
			if !answering && r.err == nil {
				add("unreachable-peer-answered: " + name)
			}
		case 'D', 'T', 'X', 'L', 'B':
			if r.err == nil {
				add("dropped-request-got-reply: " + name)
			}
		}
	}
	for g, sp := range sc.reqs {
		check(g, sp, false)
	}
	for _, g := range probes {
		check(g, reqSpec{peer: g - len(sc.reqs), act: 'R'}, true)
	}
	for _, g := range warm {
		check(g, reqSpec{peer: g - len(sc.reqs) - len(kinds), act: 'R'}, true)
	}
	for _, p := range peers {
		p.mu.Lock()
		for si, ns := range p.nonces {
			for j, k := range ns {
				// the nonces of a connection count up from its (random, 2071f1f) starting value
				if k != ns[0]+uint64(j) {
					add(fmt.Sprintf("nonce-not-counter: peer %d session %d saw nonces %v", p.idx, si, ns))
					break
				}
			}
		}
		p.mu.Unlock()
	}
	if len(viol) > 0 {
		sort.SliceStable(viol, func(i, j int) bool { return sigRank(viol[i]) < sigRank(viol[j]) })
		res.Oracle = viol[0]
		if len(viol) > 1 {
			res.Oracle += fmt.Sprintf(" (+%d more)", len(viol)-1)
		}
	}
	res.Class, res.Nontrivial = netClass(peersS, reqsS)
	return
}

// a known finding must not mask a different violation in the same case
func sigRank(v string) int {
	if strings.HasPrefix(v, "silent-peer-handshake-wedges-callHandler") || strings.HasPrefix(v, "blackhole-wedges-other-peers") {
		return 1
	}
	return 0
}

// ---------------------------------------------------------------- generator

func gen(tier string, rng *h.Rng, emit func(string)) {
	thorough := tier == "thorough"
	// connection histories first: they are what finds a defect of the server-level tables
	genHist(tier, h.NewRng(rng.U64()), emit)
	// directed dispatch histories
	for _, l := range []string{
		"disp -",
		"disp s,p0:5",
		"disp s,p0:5,p0:6",
		"disp s,p1:5,p0:6",
		"disp s,s,s,p2:1,p0:2,p1:3",
		"disp s,c0,p0:5,s,p1:6",
		"disp s,s,x,p0:1",
		"disp r9,s,r0,p0:4",
		"disp s,s,s,r5,p1:111,p1:999,p7:555,c2,p2:222,v9,x,s",
		"disp s,v1,v2,c0,c0,x",
		"disp s,p18446744073709551615:3,p0:1",
	} {
		emit(l)
	}
	nd := 250
	if thorough {
		nd = 4000
	}
	for i := 0; i < nd; i++ {
		n := 1 + rng.Intn(60)
		var ops []string
		sent, created := 0, 0
		for j := 0; j < n; j++ {
			switch c := rng.Intn(20); {
			case c < 7:
				ops = append(ops, "s")
				sent++
				created++
			case c < 8:
				ops = append(ops, fmt.Sprintf("r%d", rng.Intn(50)))
				created++
			case c < 15:
				k := rng.Intn(sent + 2)
				if rng.Intn(12) == 0 {
					k += 1000
				}
				ops = append(ops, fmt.Sprintf("p%d:%d", k, 100+rng.Intn(900)))
			case c < 16:
				ops = append(ops, fmt.Sprintf("v%d", rng.Intn(1000)))
			case c < 19:
				ops = append(ops, fmt.Sprintf("c%d", rng.Intn(created+1)))
			default:
				if rng.Intn(4) == 0 {
					ops = append(ops, "x")
				}
			}
		}
		emit("disp " + join(ops))
	}
	// request object and its copies
	for _, l := range []string{"obj -", "obj f0:5", "obj y0,f0:5,f1:6", "obj c,f0:5", "obj f0:5,y0,f1:6", "obj f0:5,f0:6", "obj y0,y1,f2:1,c,f0:2"} {
		emit(l)
	}
	no := 40
	if thorough {
		no = 400
	}
	for i := 0; i < no; i++ {
		n := 1 + rng.Intn(8)
		var ops []string
		copies := 1
		for j := 0; j < n; j++ {
			switch rng.Intn(5) {
			case 0, 1:
				ops = append(ops, fmt.Sprintf("y%d", rng.Intn(copies)))
				copies++
			case 2, 3:
				ops = append(ops, fmt.Sprintf("f%d:%d", rng.Intn(copies), 1+rng.Intn(99)))
			default:
				ops = append(ops, "c")
			}
		}
		emit("obj " + join(ops))
	}
	// network scenarios
	mk := func(peers []string, n int, acts string, slow int) string {
		var rs []string
		var answering []int
		for i, p := range peers {
			if p == "ok" || p == "close" {
				answering = append(answering, i)
			}
		}
		for i, p := range peers { // one request to every non-answering peer
			if p == "refuse" || p == "silent" || p == "blackhole" {
				rs = append(rs, fmt.Sprintf("%d.R0", i))
			}
		}
		for len(rs) < n && len(answering) > 0 {
			p := answering[rng.Intn(len(answering))]
			a := acts[rng.Intn(len(acts))]
			if a == 'T' || a == 'L' {
				if slow == 0 || (a == 'L' && peers[p] != "close") {
					a = 'R'
				} else {
					slow--
				}
			}
			switch a {
			case 'R':
				rs = append(rs, fmt.Sprintf("%d.R%d", p, rng.Intn(40)))
			case 'C':
				rs = append(rs, fmt.Sprintf("%d.C%d.%d", p, rng.Intn(6), rng.Intn(6)))
			case 'S', 'B':
				rs = append(rs, fmt.Sprintf("%d.%c%d", p, a, 1+rng.Intn(4)))
			default:
				rs = append(rs, fmt.Sprintf("%d.%c", p, a))
			}
		}
		// shuffle the order requests are issued in
		for i := len(rs) - 1; i > 0; i-- {
			j := rng.Intn(i + 1)
			rs[i], rs[j] = rs[j], rs[i]
		}
		return "net " + strings.Join(peers, ",") + " " + strings.Join(rs, ",")
	}
	emit("net ok 0.R0")
	emit("net ok 0.R5,0.R0,0.R9,0.R2")
	emit(mk([]string{"ok"}, 20, "RRRDUPXC", 0))
	emit(mk([]string{"ok", "ok"}, 50, "RRRRDUPXC", 0))
	emit(mk([]string{"ok", "ok", "ok", "ok"}, 200, "RRRRRRDUPXC", 0))
	emit(mk([]string{"ok"}, 200, "RRRRRD", 0))
	emit(mk([]string{"ok", "refuse"}, 12, "RRDP", 0))
	emit(mk([]string{"ok", "ok"}, 10, "RRTD", 2))
	emit(mk([]string{"close", "ok"}, 12, "RRLRU", 2))
	emit(mk([]string{"ok", "silent"}, 6, "RRRP", 0))
	// a black-holed peer (review 5-D #2): the node is connected to the answering peers, asks the black hole,
	// and every request to the answering peers issued while the dial is pending must still be served
	emit("net ok,blackhole 1.R0,0.R0,0.R0,0.R0")
	emit(mk([]string{"ok", "blackhole", "ok"}, 12, "RRRPU", 0))
	// replies to a pending request in a package whose signature does not verify (review 5-D #3):
	// every bad mode, followed by the good reply (S) or by nothing (B)
	emit("net ok 0.S1,0.S2,0.S3,0.S4")
	emit("net ok 0.B1,0.B2,0.B3,0.B4,0.R0")
	emit(mk([]string{"ok", "ok"}, 24, "RRSSBBUP", 0))
	nn := 8
	if thorough {
		nn = 60
	}
	for i := 0; i < nn; i++ {
		np := 1 + rng.Intn(4)
		peers := make([]string, np)
		for j := range peers {
			peers[j] = "ok"
		}
		slow := 0
		if thorough {
			switch rng.Intn(8) {
			case 0:
				peers[np-1] = "refuse"
			case 1:
				peers[rng.Intn(np)] = "close"
				slow = 2
			case 2:
				if np > 1 {
					peers[np-1] = "silent"
				}
			case 3:
				slow = 1
			case 4:
				if np > 1 {
					peers[np-1] = "blackhole"
				}
			}
			if peers[0] != "ok" && np == 1 {
				peers[0] = "ok"
			}
		}
		n := 1 + rng.Intn(60)
		if rng.Intn(5) == 0 {
			n = 100 + rng.Intn(101)
		}
		emit(mk(peers, n, "RRRRRRDUPXCLTSB", slow))
	}
}

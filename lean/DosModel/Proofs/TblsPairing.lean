/-
Abstract bilinear pairing (what `bls.Verify` and `PairingCheck` rely on) and the
signing-side definitions used by `Props/C03.lean`.
-/
import Mathlib.Algebra.Module.Defs
import Mathlib.Algebra.Field.Defs
import Mathlib.Algebra.BigOperators.Group.List.Basic

namespace Dos.Tbls

/-- a bilinear pairing `e : G1 × G2 → GT` of `F`-modules into a (multiplicative) commutative
group, non-degenerate at the generator `g2` of G2 -/
structure Pairing (F G1 G2 GT : Type) [Field F] [AddCommGroup G1] [Module F G1]
    [AddCommGroup G2] [Module F G2] [CommGroup GT] where
  e : G1 → G2 → GT
  add_left : ∀ a b q, e (a + b) q = e a q * e b q
  add_right : ∀ a p q, e a (p + q) = e a p * e a q
  smul_swap : ∀ (c : F) a q, e (c • a) q = e a (c • q)
  g2 : G2
  nondeg : ∀ a, e a g2 = 1 → a = 0

variable {F G1 G2 GT : Type} [Field F] [AddCommGroup G1] [Module F G1]
  [AddCommGroup G2] [Module F G2] [CommGroup GT]

namespace Pairing
variable (pr : Pairing F G1 G2 GT)

theorem zero_left (q : G2) : pr.e 0 q = 1 := by
  have h := pr.add_left 0 0 q
  rw [add_zero] at h
  exact (mul_eq_left.1 h.symm)

theorem zero_right (a : G1) : pr.e a 0 = 1 := by
  have h := pr.add_right a 0 0
  rw [add_zero] at h
  exact (mul_eq_left.1 h.symm)

/-- the equation `bls.Verify` checks: `e(-s, B₂) · e(H(m), X) = 1` -/
def verifyEq (X : G2) (hm s : G1) : Prop := pr.e (-s) pr.g2 * pr.e hm X = 1

/-- `PairingCheck` as implemented: pairs with an identity component are skipped -/
def checkSkipping [DecidableEq G1] [DecidableEq G2] (ps : List (G1 × G2)) : GT :=
  ((ps.filter fun ab => ¬ (ab.1 = 0 ∨ ab.2 = 0)).map fun ab => pr.e ab.1 ab.2).prod

/-- the mathematical product of pairings -/
def checkAll (ps : List (G1 × G2)) : GT := (ps.map fun ab => pr.e ab.1 ab.2).prod

end Pairing
end Dos.Tbls

package codecfacts

import (
	"fmt"
	"go/ast"
	"path/filepath"
	"strings"

	"verifharness/extract/ex"
)

func init() { ex.Register(&ex.Extractor{Name: "BlsFacts", Run: runBls}) }

// litArgs returns, for the call to method `name` in fd, the elements of each composite-literal argument
func litArgs(fd *ast.FuncDecl, name string) [][]string {
	var out [][]string
	if fd == nil {
		return out
	}
	ast.Inspect(fd.Body, func(n ast.Node) bool {
		c, ok := n.(*ast.CallExpr)
		if !ok {
			return true
		}
		s, ok := c.Fun.(*ast.SelectorExpr)
		if !ok || s.Sel.Name != name {
			return true
		}
		for _, a := range c.Args {
			var el []string
			if cl, ok := a.(*ast.CompositeLit); ok {
				for _, e := range cl.Elts {
					el = append(el, sel(e))
				}
			}
			out = append(out, el)
		}
		return false
	})
	return out
}

func runBls(repo string) (string, error) {
	_, bf, err := ex.Parse(filepath.Join(repo, "sign", "bls", "bls.go"))
	if err != nil {
		return "", err
	}
	_, pf, err := ex.Parse(filepath.Join(repo, "group", "bn256", "point.go"))
	if err != nil {
		return "", err
	}
	var b strings.Builder
	b.WriteString(ex.Header("BlsFacts", "sign/bls/bls.go, group/bn256/point.go (PairingCheck)"))
	b.WriteString("namespace Dos.Gen.Bls\n")
	for _, fn := range []string{"hashToPoint", "Verify", "Sign"} {
		fd := ex.FuncDecl(bf, "", fn)
		if fd == nil {
			return "", fmt.Errorf("bls.go: func %s not found", fn)
		}
		fmt.Fprintf(&b, "def %s_calls : List String := %s\n", fn, leanList(calls(fd)))
	}
	la := litArgs(ex.FuncDecl(bf, "", "Verify"), "PairingCheck")
	if len(la) != 2 {
		return "", fmt.Errorf("bls.go Verify: PairingCheck call with two slice literals not found")
	}
	fmt.Fprintf(&b, "def Verify_pairing_g1 : List String := %s\n", leanList(la[0]))
	fmt.Fprintf(&b, "def Verify_pairing_g2 : List String := %s\n", leanList(la[1]))
	pc := ex.FuncDecl(pf, "pointGT", "PairingCheck")
	if pc == nil {
		return "", fmt.Errorf("point.go: pointGT.PairingCheck not found")
	}
	fmt.Fprintf(&b, "def PairingCheck_calls : List String := %s\n", leanList(calls(pc)))
	// the skip: an `if` whose condition is `ap.IsInfinity() || bp.IsInfinity()` and whose body is `continue`
	skip := false
	ast.Inspect(pc.Body, func(n ast.Node) bool {
		if i, ok := n.(*ast.IfStmt); ok && len(i.Body.List) == 1 {
			if br, ok := i.Body.List[0].(*ast.BranchStmt); ok && br.Tok.String() == "continue" {
				if be, ok := i.Cond.(*ast.BinaryExpr); ok && be.Op.String() == "||" &&
					sel(be.X) == "ap.IsInfinity()" && sel(be.Y) == "bp.IsInfinity()" {
					skip = true
				}
			}
		}
		return true
	})
	fmt.Fprintf(&b, "def PairingCheck_skipsIdentityPairs : Bool := %s\n", leanBool(skip))
	b.WriteString("end Dos.Gen.Bls\n")
	return b.String(), nil
}

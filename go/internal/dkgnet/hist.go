package dkgnet

import (
	"fmt"
	"strings"
	"time"

	dkg "github.com/DOSNetwork/core/share/dkg/pedersen"
	vss "github.com/DOSNetwork/core/share/vss/pedersen"

	"verifharness/internal/h"
)

// Hist is a HISTORY of key generations run with the SAME long-term keys: S sessions of n members, each
// member with a real DistKeyGenerator per session, driven through the REAL pipeline stages
// (getAndProcessDeals, getAndProcessResponses, genGroup) on batches the case line spells out. It is the
// Go side of Model/DkgHist.lean.
//
// What the sessions give the adversary (Byzantine member b plus the network) is everything the honest
// members sign or seal in ANY of them: every recorded deal and response can be delivered into every
// session, at every position of a member's batch; on top of that, oracle queries hand an adversarial
// deal to a fresh real generator of an honest member (same long-term key) and record the signed
// approval or complaint it answers with. The sessions run concurrently (all dealing, then all deal
// stages, then all response stages), so material flows between them in both directions.
//
//	hist <seed> <n> <b> <S> <bspec> <queries> <script>
//
//	bspec    per session (";"), per recipient i != b ascending (","): what b deals to i: "g" (the deal of
//	         b's honest generator) or a variant of Sim.AdvDeal ("good7", "bad7", "xw3_4", ...)
//	queries  "-" or ";"-list  <member>:<claim>:<sealer>:<variant>   (query q = position in the list)
//	script   "-" or ","-list  <s>.<i>.<d|r>.<pos><+|=><ref>   in session s, member i's deal / response
//	         batch: before (+) or instead of (=) item <pos> of the DEFAULT batch (pos = length: at the end)
//	ref      d:<s2>:<j>:<i2>[:<claim>]   deal of j's generator for i2 in session s2
//	         B:<s2>:<i2>[:<claim>]       the deal b dealt to i2 in session s2 (its bspec entry)
//	         D:<claim>:<sealer>:<rcpt>:<variant>                  deal sealed with <sealer>'s key
//	         r:<s2>:<k>:<j>[:<j2>]       response of k about dealer j in session s2, Index := j2
//	         o:<q>[:<j2>]                response recorded by oracle query q
//	         R:<dealer>:<responder>:<sid>:<a|c>:<signer>          built from scratch; sid = p<sealer>_<p> |
//	                                     g<s2>_<j> (j's honest dealing in s2) | raw; signer = <k>|junk|none
//	         RN:<dealer>                 dkg.Response without a vss response
//
// Default batches of member i in session s: deals = for j != i ascending, j's deal for i (b's bspec entry
// for j = b); responses = for k != i ascending, k's responses in the order k emitted them.
// Output: per session "st=<stage per member> keys=<class per member>", joined by "|".
type Hist struct {
	N, T, B, S int
	tool       *Sim // keys, adversary polynomials and the sealing / signing toolbox
	Ses        []*HistSession
	oracle     []*dkg.Response
	dealsIn    [][]batchItem // [s*N+i]
	respsIn    [][]batchItem
	sid        string
}

type batchItem struct {
	deal       *dkg.Deal
	resp       *dkg.Response
	genuine    string // "r:<s>:<k>:<j>" of an unmodified genuine response of THIS session, else ""
	consistent bool   // deals: built consistent for this recipient under this claim
	known      bool   // deals: the harness knows whether it is consistent
}

type HistSession struct {
	Gens     []*dkg.DistKeyGenerator
	Deals    []map[int]*dkg.Deal
	BDeal    map[int]*dkg.Deal // what b dealt to i
	bCons    map[int]bool
	Resps    [][]*dkg.Response // what member k emitted after its deal stage
	Stage    []string
	Share    []*dkg.DistKeyShare
	Approved [][]int
	firstCons []map[int]batchItem // per member: first deal seen per claimed dealer index
	Complete bool                  // every response an honest member emitted reached every other honest member's stage
}

func ref(f []string, k int, def int) int {
	if len(f) > k {
		return h.Atoi(f[k])
	}
	return def
}

// RunHistLine executes a hist line; see Hist.
func RunHistLine(w []string) (string, *Hist) {
	seed, n, b, S := h.BigDec(w[1]).Uint64(), h.Atoi(w[2]), h.Atoi(w[3]), h.Atoi(w[4])
	hs := &Hist{N: n, T: n/2 + 1, B: b, S: S, tool: NewSim(seed, n), sid: fmt.Sprintf("%x", seed|1)}
	t := hs.tool
	bspec := strings.Split(w[5], ";")
	// phase 1: every generator of every session, and its dealing
	for s := 0; s < S; s++ {
		ses := &HistSession{BDeal: map[int]*dkg.Deal{}, bCons: map[int]bool{}}
		for k := 0; k < n; k++ {
			gen, err := dkg.VerifNewDistKeyGenerator(Suite, t.Secs[k], t.Pubs, hs.T, Scalar(NonZero(t.rng)))
			if err != nil {
				panic("hist: " + err.Error())
			}
			ds, err := gen.Deals()
			if err != nil {
				panic("hist Deals: " + err.Error())
			}
			ses.Gens = append(ses.Gens, gen)
			ses.Deals = append(ses.Deals, ds)
			ses.Resps = append(ses.Resps, nil)
			ses.Stage = append(ses.Stage, "d")
			ses.Share = append(ses.Share, nil)
			ses.Approved = append(ses.Approved, nil)
			ses.firstCons = append(ses.firstCons, map[int]batchItem{})
		}
		var vs []string
		if s < len(bspec) && bspec[s] != "" {
			vs = strings.Split(bspec[s], ",")
		}
		q := 0
		for i := 0; i < n; i++ {
			if i == b {
				continue
			}
			v := "g"
			if q < len(vs) {
				v = vs[q]
			}
			q++
			if v == "g" {
				ses.BDeal[i], ses.bCons[i] = CloneDeal(ses.Deals[b][i]), true
			} else {
				ses.BDeal[i] = t.AdvDeal(b, b, i, v)
				ses.bCons[i] = t.Sealed[len(t.Sealed)-1].Consistent
			}
		}
		hs.Ses = append(hs.Ses, ses)
	}
	// phase 2: oracle queries
	if w[6] != "-" {
		for _, qs := range strings.Split(w[6], ";") {
			f := strings.Split(qs, ":")
			m := h.Atoi(f[0])
			var rec *dkg.Response
			if m >= 0 && m < n {
				gen, err := dkg.VerifNewDistKeyGenerator(Suite, t.Secs[m], t.Pubs, hs.T, Scalar(NonZero(t.rng)))
				if err != nil {
					panic("hist oracle: " + err.Error())
				}
				d := t.AdvDeal(h.Atoi(f[1]), h.Atoi(f[2]), m, strings.Join(f[3:], ":"))
				func() {
					defer func() { recover() }()
					if r, err := gen.ProcessDeal(d); err == nil && r != nil {
						rec = r
					}
				}()
			}
			hs.oracle = append(hs.oracle, rec)
		}
	}
	// the injections, grouped by (session, member, kind)
	type inj struct {
		pos     int
		replace bool
		ref     string
	}
	injs := map[string][]inj{}
	if w[7] != "-" {
		for _, e := range strings.Split(w[7], ",") {
			f := strings.SplitN(e, ".", 4)
			rest := f[3]
			cut := strings.IndexAny(rest, "+=")
			key := f[0] + "." + f[1] + "." + f[2]
			injs[key] = append(injs[key], inj{h.Atoi(rest[:cut]), rest[cut] == '=', rest[cut+1:]})
		}
	}
	assemble := func(def []batchItem, key string, deal bool) []batchItem {
		var out []batchItem
		for p := 0; p <= len(def); p++ {
			keep := p < len(def)
			for _, in := range injs[key] {
				if in.pos != p {
					continue
				}
				if it, ok := hs.resolve(in.ref, deal); ok {
					out = append(out, it)
				}
				if in.replace {
					keep = false
				}
			}
			if keep {
				out = append(out, def[p])
			}
		}
		return out
	}
	// phase 3: the deal stage of every member of every session
	for s, ses := range hs.Ses {
		for i := 0; i < n; i++ {
			var def []batchItem
			for j := 0; j < n; j++ {
				if j == i {
					continue
				}
				if j == b {
					if d, ok := ses.BDeal[i]; ok {
						def = append(def, batchItem{deal: CloneDeal(d), consistent: ses.bCons[i], known: true})
					}
				} else if d, ok := ses.Deals[j][i]; ok {
					def = append(def, batchItem{deal: CloneDeal(d), consistent: true, known: true})
				}
			}
			items := assemble(def, fmt.Sprintf("%d.%d.d", s, i), true)
			var batch []interface{}
			for _, it := range items {
				if it.deal == nil {
					continue
				}
				c := int(it.deal.Index)
				if _, seen := ses.firstCons[i][c]; !seen {
					ses.firstCons[i][c] = it
				}
				batch = append(batch, it.deal)
			}
			resps, ok := RunDealsStage(ses.Gens[i], batch, hs.sid, 20*time.Second)
			if !ok {
				ses.Stage[i] = "F:noapproval"
				continue
			}
			ses.Stage[i] = "r"
			ses.Resps[i] = resps.Response
			for _, r := range resps.Response {
				ses.Approved[i] = append(ses.Approved[i], int(r.Index))
			}
		}
	}
	// phase 4: the response stage
	for s, ses := range hs.Ses {
		ses.Complete = true
		for i := 0; i < n; i++ {
			var def []batchItem
			for k := 0; k < n; k++ {
				if k == i {
					continue
				}
				for _, r := range ses.Resps[k] {
					def = append(def, batchItem{resp: CloneResp(r), genuine: fmt.Sprintf("r:%d:%d:%d", s, k, r.Index)})
				}
			}
			items := assemble(def, fmt.Sprintf("%d.%d.r", s, i), false)
			if i != b {
				got := map[string]bool{}
				for _, it := range items {
					got[it.genuine] = true
				}
				for k := 0; k < n; k++ {
					if k == i || k == b {
						continue
					}
					for _, r := range ses.Resps[k] {
						if !got[fmt.Sprintf("r:%d:%d:%d", s, k, r.Index)] {
							ses.Complete = false
						}
					}
				}
			}
			if ses.Stage[i] != "r" {
				continue
			}
			var batch []interface{}
			for _, it := range items {
				if it.resp != nil {
					batch = append(batch, it.resp)
				}
			}
			ses.Stage[i], ses.Share[i] = RunRespsStage(ses.Gens[i], batch, hs.sid, 20*time.Second)
		}
	}
	var parts []string
	for s := range hs.Ses {
		parts = append(parts, fmt.Sprintf("st=%s keys=%s", strings.Join(hs.Ses[s].Stage, ","), KeyClasses(hs.Outcomes(s))))
	}
	return strings.Join(parts, "|"), hs
}

func (hs *Hist) Outcomes(s int) []Outcome {
	ses := hs.Ses[s]
	outs := make([]Outcome, hs.N)
	for k := range outs {
		if ses.Stage[k] == "D" && ses.Share[k] != nil {
			outs[k] = Outcome{Finished: true, Share: ses.Share[k]}
		}
	}
	return outs
}

func (hs *Hist) inSes(s int) bool { return s >= 0 && s < len(hs.Ses) }
func (hs *Hist) inN(k int) bool   { return k >= 0 && k < hs.N }

// resolve turns a message reference into a batch item (ok=false: the message does not exist).
func (hs *Hist) resolve(r string, deal bool) (batchItem, bool) {
	f := strings.Split(r, ":")
	a := func(k int) int { return h.Atoi(f[k]) }
	t := hs.tool
	switch f[0] {
	case "d":
		if !deal || len(f) < 4 || !hs.inSes(a(1)) || !hs.inN(a(2)) {
			return batchItem{}, false
		}
		d, ok := hs.Ses[a(1)].Deals[a(2)][a(3)]
		if !ok {
			return batchItem{}, false
		}
		c := CloneDeal(d)
		c.Index = uint32(ref(f, 4, a(2)))
		return batchItem{deal: c}, true
	case "B":
		if !deal || len(f) < 3 || !hs.inSes(a(1)) {
			return batchItem{}, false
		}
		d, ok := hs.Ses[a(1)].BDeal[a(2)]
		if !ok {
			return batchItem{}, false
		}
		c := CloneDeal(d)
		c.Index = uint32(ref(f, 3, hs.B))
		return batchItem{deal: c}, true
	case "D":
		if !deal || len(f) < 5 || !hs.inN(a(2)) {
			return batchItem{}, false
		}
		d := t.AdvDeal(a(1), a(2), a(3), strings.Join(f[4:], ":"))
		info := t.Sealed[len(t.Sealed)-1]
		return batchItem{deal: d, consistent: info.Consistent, known: true}, true
	case "r":
		if deal || len(f) < 4 || !hs.inSes(a(1)) || !hs.inN(a(2)) {
			return batchItem{}, false
		}
		for _, x := range hs.Ses[a(1)].Resps[a(2)] {
			if int(x.Index) == a(3) {
				c := CloneResp(x)
				c.Index = uint32(ref(f, 4, a(3)))
				return batchItem{resp: c}, true
			}
		}
		return batchItem{}, false
	case "o":
		if deal || len(f) < 2 || a(1) < 0 || a(1) >= len(hs.oracle) || hs.oracle[a(1)] == nil {
			return batchItem{}, false
		}
		c := CloneResp(hs.oracle[a(1)])
		c.Index = uint32(ref(f, 2, int(c.Index)))
		return batchItem{resp: c}, true
	case "R":
		if deal || len(f) < 6 {
			return batchItem{}, false
		}
		var sid []byte
		switch {
		case strings.HasPrefix(f[3], "g"):
			p := strings.Split(f[3][1:], "_")
			if s2, j := h.Atoi(p[0]), h.Atoi(p[1]); hs.inSes(s2) && hs.inN(j) {
				sid = hs.Ses[s2].Gens[j].VerifDealer().SessionID()
			}
		case strings.HasPrefix(f[3], "p"):
			p := strings.Split(f[3][1:], "_")
			sealer, pn := h.Atoi(p[0]), h.Atoi(p[1])
			sid, _ = vss.VerifSessionID(Suite, t.Pubs[sealer], t.Pubs, Commit(t.Poly(sealer, pn, hs.T)), hs.T)
		default:
			sid = t.rng.Bytes(32)
		}
		rr := &vss.Response{SessionID: sid, Index: uint32(a(2)), Status: f[4] == "a"}
		switch f[5] {
		case "junk":
			rr.Signature = t.rng.Bytes(161)
		case "none":
		default:
			rr.Signature = SchnorrSign(t.Secs[a(5)], rr.Hash(Suite))
		}
		return batchItem{resp: &dkg.Response{SessionId: hs.sid, Index: uint32(a(1)), Response: rr}}, true
	case "RN":
		if deal {
			return batchItem{}, false
		}
		return batchItem{resp: &dkg.Response{SessionId: hs.sid, Index: uint32(a(1))}}, true
	}
	panic("bad hist reference " + r)
}

// Oracle judges every session of the history: the joint outcome of the honest members (when every
// response an honest member emitted reached every other honest member's stage: reliable delivery
// between honest members is what the protocol assumes of its broadcast channel), no approval of a deal
// the harness built inconsistent, no finish without n-1 approvals.
func (hs *Hist) Oracle() string {
	for s, ses := range hs.Ses {
		var members []int
		var houts []Outcome
		outs := hs.Outcomes(s)
		for k := 0; k < hs.N; k++ {
			if k != hs.B {
				members = append(members, k)
				houts = append(houts, outs[k])
			}
		}
		if ses.Complete {
			if o := JointOracle(members, houts, hs.T, nil, nil, h.NewRng(1)); o != "" {
				return fmt.Sprintf("%s [session %d of a history of %d]", o, s, hs.S)
			}
		} else {
			// without reliable delivery agreement is not promised; each finisher's own share must still be sound
			for q, k := range members {
				if o := JointOracle([]int{k}, []Outcome{houts[q]}, hs.T, nil, nil, h.NewRng(1)); o != "" {
					return fmt.Sprintf("%s [session %d of a history of %d]", o, s, hs.S)
				}
			}
		}
		for _, k := range members {
			for _, j := range ses.Approved[k] {
				if it, seen := ses.firstCons[k][j]; seen && it.known && !it.consistent {
					return fmt.Sprintf("approved-inconsistent: member %d approved in session %d the deal it got under index %d although its threshold, index, session id or share do not fit its commitments", k, s, j)
				}
			}
			if outs[k].Finished && len(ses.Approved[k]) != hs.N-1 {
				return fmt.Sprintf("finished-without-approval: member %d finished session %d having approved %d of %d deals", k, s, len(ses.Approved[k]), hs.N-1)
			}
		}
	}
	return ""
}

// HonestFinishers counts, per session, the honest members that finished.
func (hs *Hist) HonestFinishers() []int {
	var out []int
	for s := range hs.Ses {
		c := 0
		for k, o := range hs.Outcomes(s) {
			if k != hs.B && o.Finished {
				c++
			}
		}
		out = append(out, c)
	}
	return out
}

/-
C10 round 5 — Frobenius = p-power, and what the final exponentiation computes. Until now "Frobenius = p-power" was
an ASSUMPTION (differential only). Here it is a theorem about the code's constants:
* `frobenius_is_power_generic`: over every field K of characteristic q with c^q = c on K, q ≡ 3 mod 4, q ≡ 1 mod 6,
  if the three constants are ξ^((q−1)/6), ξ^((q−1)/3), ξ^((2q−2)/3), then gfP12.Frobenius (gfp12.go, gfp6.go) is x ↦ x^q;
* `frobenius_constants_are_powers`: the regenerated constants, decoded, ARE those powers of ξ = i + 9 in F_p²
  (square-and-multiply evaluated by the kernel in Montgomery arithmetic, carried along the decoding);
* `frobenius_maps_are_powers`: over F_p: Frobenius = (·)^p, FrobeniusP2 = (·)^(p²) (= Frobenius∘Frobenius, three norm
  relations of the constants), Conjugate = (·)^(p⁶) (= FrobeniusP2³), x^(p¹²) = x;
* `finalExponentiation_is_power`: the translated finalExponentiation over F_p is x ↦ x^((p¹²−1)/r) on x ≠ 0 — the
  easy part, the addition chain of the hard part with its three exponentiations by u, and the numeric identity
  (p⁶−1)·E ≡ (p¹²−1)/r (mod p¹²−1) on the regenerated p, u, Order — hence its values have order dividing r;
* the same on the implemented Montgomery representation (`*_implemented`), and for `Pair` at kyber level
  (`kyber_pair_order`): every pairing value a satisfies a^r = 1, so `Mul(s, a) = Mul(s mod r, a)` on ALL pairing
  values, not only on powers of the generator.
Still NOT proved: bilinearity and non-degeneracy of the Miller function (meta "partial").
-/
import DosModel.Proofs.Bn256FinalExpPow
import DosModel.Props.C10GT

set_option linter.unusedSectionVars false

namespace Dos.Props.C10Frob
open Dos Dos.Bn256 Dos.Gen Dos.Gen.Bn256Code Dos.Props.C10Kyber

/-- **gfP12.Frobenius is the q-power map**, generically -/
theorem frobenius_is_power_generic {K : Type} [Field K] (q : Nat) [Fact q.Prime] [CharP K q]
    (hK : ∀ c : K, c ^ q = c) (h4 : q % 4 = 3) (h6 : q % 6 = 1) (cs : FrobConsts K)
    (hc1 : cs.xiToPMinus1Over3 = Fp2.xi ^ ((q - 1) / 3)) (hc2 : cs.xiTo2PMinus2Over3 = Fp2.xi ^ ((2 * q - 2) / 3))
    (hc6 : cs.xiToPMinus1Over6 = Fp2.xi ^ ((q - 1) / 6)) (a : Fp12 K) (b : Fp6 K) (c : Fp2 K) :
    Fp12.frobeniusG cs a = a ^ q ∧ Fp6.frobeniusG cs b = b ^ q ∧ Fp2.conjugate c = c ^ q :=
  ⟨Fp12.frobeniusG_eq_pow q hK h4 h6 cs hc1 hc2 hc6 a,
   Fp6.frobeniusG_eq_pow q hK h4 (by omega) cs hc1 hc2 b, (Fp2.pow_char q hK h4 c).symm⟩

/-- **the code's constants are the powers of ξ they are named after**, in F_p² (hypotheses of the generic theorem
for K = F_p, q = p) -/
theorem frobenius_constants_are_powers :
    frobConstsFp.xiToPMinus1Over6 = (Fp2.xi : Fp2 (ZMod Bn256.p)) ^ ((Bn256.p - 1) / 6) ∧
    frobConstsFp.xiToPMinus1Over3 = (Fp2.xi : Fp2 (ZMod Bn256.p)) ^ ((Bn256.p - 1) / 3) ∧
    frobConstsFp.xiTo2PMinus2Over3 = (Fp2.xi : Fp2 (ZMod Bn256.p)) ^ ((2 * Bn256.p - 2) / 3) ∧
    Bn256.p % 4 = 3 ∧ Bn256.p % 6 = 1 :=
  ⟨frobConstsFp_powers.1, frobConstsFp_powers.2.1, frobConstsFp_powers.2.2, by decide, by decide⟩

/-- **over F_p, with the code's constants: Frobenius = p-power, FrobeniusP2 = p²-power, Conjugate = p⁶-power** -/
theorem frobenius_maps_are_powers (a : Fp12 (ZMod Bn256.p)) :
    Fp12.frobeniusG frobConstsFp a = a ^ Bn256.p ∧
    Fp12.frobeniusP2G frobConstsFp a = a ^ (Bn256.p * Bn256.p) ∧
    Fp12.conjugate a = a ^ (Bn256.p ^ 6) ∧
    a ^ (Bn256.p ^ 12) = a ∧ (a ≠ 0 → a ^ (Bn256.p ^ 12 - 1) = 1) :=
  ⟨frobenius_is_p_power a, frobeniusP2_is_p2_power a, conjugate_is_p6_power a, pow_p12 a, pow_p12_sub_one a⟩

/-- non-vacuity: the decoded GT generator (≠ 0, ≠ 1) -/
example : Fp12.conjugate (dec12 gfP12Gen) = dec12 gfP12Gen ^ (Bn256.p ^ 6) :=
  (frobenius_maps_are_powers _).2.2.1

/-- **the final exponentiation over F_p is x ↦ x^((p¹²−1)/r)** (x ≠ 0), and r·((p¹²−1)/r) = p¹²−1, so its values
have order dividing r -/
theorem finalExponentiation_is_power (x : Fp12 (ZMod Bn256.p)) (hx : x ≠ 0) :
    finalExponentiationG frobConstsFp uParam x = x ^ ((Bn256.p ^ 12 - 1) / Gen.Bn256.Order) ∧
    (Bn256.p ^ 12 - 1) / Gen.Bn256.Order * Gen.Bn256.Order = Bn256.p ^ 12 - 1 ∧
    finalExponentiationG frobConstsFp uParam x ^ Gen.Bn256.Order = 1 :=
  ⟨finalExp_eq_pow x hx, finalExp_exponent.2.1, finalExp_pow_order x hx⟩

example : finalExponentiationG frobConstsFp uParam (dec12 gfP12Gen) ^ Gen.Bn256.Order = 1 :=
  (finalExponentiation_is_power _ (by
    intro h
    have hu := C10GT.gt_generator_unitary.1
    rw [h] at hu
    exact finalExp_zero_not_unitary hu)).2.2

/-! ### the implemented representation -/

theorem frob_dec (x : F12) (hx : Red12 x) :
    (Red12 (Fp12.frobeniusG frobConsts x) ∧
      dec12 (Fp12.frobeniusG frobConsts x) = Fp12.frobeniusG frobConstsFp (dec12 x)) ∧
    (Red12 (Fp12.frobeniusP2G frobConsts x) ∧
      dec12 (Fp12.frobeniusP2G frobConsts x) = Fp12.frobeniusP2G frobConstsFp (dec12 x)) := by
  have ex : x = val12 (lift12R x hx) := rfl
  constructor
  · rw [ex, ← frobConstsR_val, ← Fp12.map_frobeniusG valHom]
    refine ⟨red12_val _, ?_⟩
    rw [dec12_val, dec12_val]
    exact Fp12.map_frobeniusG decHom frobConstsR _
  · rw [ex, ← frobConstsR_val, ← Fp12.map_frobeniusP2G valHom]
    refine ⟨red12_val _, ?_⟩
    rw [dec12_val, dec12_val]
    exact Fp12.map_frobeniusP2G decHom frobConstsR _

/-- **gfP12.Frobenius / FrobeniusP2 / Conjugate as implemented** (Montgomery limbs, regenerated constants): on reduced
values the results are reduced and decode to the p-th, p²-th, p⁶-th power in F_p¹² -/
theorem frobenius_implemented (x : F12) (hx : Red12 x) :
    (Red12 (Bn256.Fp12.frobenius x) ∧ dec12 (Bn256.Fp12.frobenius x) = dec12 x ^ Bn256.p) ∧
    (Red12 (Bn256.Fp12.frobeniusP2 x) ∧ dec12 (Bn256.Fp12.frobeniusP2 x) = dec12 x ^ (Bn256.p * Bn256.p)) ∧
    (Red12 (Fp12.conjugate x) ∧ dec12 (Fp12.conjugate x) = dec12 x ^ (Bn256.p ^ 6)) := by
  obtain ⟨⟨r1, d1⟩, ⟨r2, d2⟩⟩ := frob_dec x hx
  obtain ⟨r3, d3⟩ := conj_dec x hx
  exact ⟨⟨r1, d1.trans (frobenius_is_p_power _)⟩, ⟨r2, d2.trans (frobeniusP2_is_p2_power _)⟩,
    ⟨r3, d3.trans (conjugate_is_p6_power _)⟩⟩

example : dec12 (Bn256.Fp12.frobenius gfP12Gen) = dec12 gfP12Gen ^ Bn256.p :=
  (frobenius_implemented gfP12Gen C10GT.gt_generator_order.2.2.1).1.2

/-- **finalExponentiation as implemented**: for every reduced non-zero gfP12 value the result decodes to
x^((p¹²−1)/r), and its r-th power through the implemented gfP12.Exp is one, limb for limb -/
theorem finalExponentiation_implemented_is_power (x : F12) (hx : Red12 x) (h0 : x ≠ Fp12.zero) :
    dec12 (Bn256.finalExponentiation x) = dec12 x ^ ((Bn256.p ^ 12 - 1) / Gen.Bn256.Order) ∧
    dec12 (Bn256.finalExponentiation x) ^ Gen.Bn256.Order = 1 ∧
    Fp12.exp (Bn256.finalExponentiation x) Gen.Bn256.Order = Fp12.one := by
  obtain ⟨rf, df⟩ := finalExp_dec x hx
  have hne : dec12 x ≠ 0 := by
    intro h
    exact h0 (dec12_inj _ _ hx TowerField.zero12_dec.1 (h.trans TowerField.zero12_dec.2.symm))
  have ho : dec12 (Bn256.finalExponentiation x) ^ Gen.Bn256.Order = 1 := by
    rw [df]; exact finalExp_pow_order _ hne
  exact ⟨df.trans (finalExp_eq_pow _ hne), ho, (exp_one_dec_iff _ rf _).mpr ho⟩

/-- **every value of Pair has order dividing r** (reduced input points; either one the identity or the Miller value
non-zero): r·a = Null through the translated Mul, and the scalar may be reduced modulo the group order on ALL
pairing values -/
theorem kyber_pair_order (p1 : G1J) (p2 : G2J) (h1 : Jac.Reduced p1) (h2 : Jac.Reduced2 p2)
    (hm : (p2.isInfinity || p1.isInfinity) = true ∨ miller p2 p1 ≠ Fp12.zero) (s : Nat) :
    dec12 (pointGT_pair frobConsts uParam p1 p2) ^ Gen.Bn256.Order = 1 ∧
    pointGT_mul Gen.Bn256.Order (pointGT_pair frobConsts uParam p1 p2) = pointGT_null gfP12Inf ∧
    pointGT_mul s (pointGT_pair frobConsts uParam p1 p2) =
      pointGT_mul (s % Gen.Bn256.Order) (pointGT_pair frobConsts uParam p1 p2) := by
  have hred := (kyber_pair_reduced p1 p2 h1 h2).1
  have ho : dec12 (pointGT_pair frobConsts uParam p1 p2) ^ Gen.Bn256.Order = 1 := by
    rw [(gen_pointGT_pair_eq_model_gfp p1 p2).2]
    by_cases hi : (p2.isInfinity || p1.isInfinity) = true
    · have : optimalAte p2 p1 = Fp12.one := by simp only [Dos.Bn256.optimalAte, hi, if_true]
      rw [this, one_dec.2, one_pow]
    · have : optimalAte p2 p1 = Bn256.finalExponentiation (miller p2 p1) := by
        simp only [Dos.Bn256.optimalAte, hi, Bool.false_eq_true, if_false]
      rw [this]
      exact (finalExponentiation_implemented_is_power _ (C10Miller.miller_reduced p2 p1 h2 h1)
        (hm.resolve_left hi)).2.1
  refine ⟨ho, ?_, (C10GT.kyber_gt_implemented _ _ hred hred s).2.2.2.2.2 ho⟩
  rw [gen_pointGT_mul_eq_model, gen_pointGT_null_eq_model, C10GT.gt_generator_order.2.2.2.2]
  exact (exp_one_dec_iff _ hred _).mpr ho

/-- non-trivial instance: the pairing of the generators (its order is exactly r: it is ≠ 1 and r is prime) -/
example : pointGT_mul Gen.Bn256.Order (pointGT_pair frobConsts uParam curveGen twistGen) = pointGT_null gfP12Inf := by
  rw [C10GT.kyber_pair_generators_inverse.1, gen_pointGT_mul_eq_model, gen_pointGT_null_eq_model,
    C10GT.gt_generator_order.2.2.2.2]
  exact C10GT.gt_generator_order.1

end Dos.Props.C10Frob

/-
C08 driver: maps a case line of go/props/c08 to the symbolic model's output line.
The universe is the discrete-log instance `Zr` with fixed, pairwise distinct keys; the
real run uses random keys – only the classification (status / error kind / certified)
is compared, and that does not depend on the key values.
-/
import DosModel.Model.VssZr

open Dos Dos.Vss

namespace Dos.C08Drv

abbrev S := Zr
abbrev P := Zr
def g : P := Zr.g

structure Univ where
  n : Nat
  t : Nat
  secs : List S
  pubs : List P
  dlong : S
  olong : S
  fresh : S
  f : List S

def mkUniv (n t : Nat) : Univ :=
  let secs := (List.range n).map (fun k => Zr.ofNat (1000 + 7 * k))
  { n := n, t := t, secs := secs, pubs := secs.map (fun s => s • g),
    dlong := Zr.ofNat 501, olong := Zr.ofNat 502, fresh := Zr.ofNat 503,
    f := (List.range t).map (fun m => Zr.ofNat (11 + 3 * m)) }

/-- a field of the encrypted deal under byte-level mutation: the term it started from and, per
byte position, whether the byte still is the original one (`0`) -/
structure Fld (α : Type) where
  base : α
  diff : List Nat

def Fld.fresh {α : Type} (a : α) (len : Nat) : Fld α := ⟨a, List.replicate len 0⟩
def Fld.changed {α : Type} (f : Fld α) (len : Nat) : Bool := f.diff != List.replicate len 0

def xorAt (l : List Nat) (pos mask : Nat) : List Nat :=
  if l.length = 0 then l else l.modify (pos % l.length) (fun b => Nat.xor b mask)

structure MutState where
  dh : Fld (DhBytes P)
  sig : Fld (DhSig S P)
  nonce : Bytes
  cipher : Fld (Cipher S P)

def cipherLen (t : Nat) : Nat := 354 + (t - 2) * 132

def initState (t : Nat) (e : EncDeal S P) : MutState :=
  { dh := Fld.fresh e.dh 129, sig := Fld.fresh e.sig 161, nonce := e.nonce, cipher := Fld.fresh e.cipher (cipherLen t) }

def finish (t : Nat) (s : MutState) : EncDeal S P :=
  { dh := if s.dh.changed 129 then .other none 77 else s.dh.base
    sig := if s.sig.changed 161 then .junk 77 else s.sig.base
    nonce := s.nonce
    cipher := if s.cipher.changed (cipherLen t) then .junk 77 else s.cipher.base }

def parseNat (s : String) : Nat := s.toNat?.getD 0

def applyMut (u : Univ) (i : Nat) (eSecond : EncDeal S P) (st : MutState) (m : String) : MutState :=
  let p := m.splitOn ":"
  let fld := p.getD 1 ""
  match p.getD 0 "" with
  | "xor" =>
    let pos := parseNat (p.getD 2 ""); let mask := parseNat (p.getD 3 "")
    match fld with
    | "dh" => { st with dh := { st.dh with diff := xorAt st.dh.diff pos mask } }
    | "sig" => { st with sig := { st.sig with diff := xorAt st.sig.diff pos mask } }
    | "cipher" => { st with cipher := { st.cipher with diff := xorAt st.cipher.diff pos mask } }
    | _ =>
      if st.nonce.length = 0 then st
      else { st with nonce := st.nonce.modify (pos % st.nonce.length) (fun b => b ^^^ UInt8.ofNat mask) }
  | "addp" =>   -- a coordinate of the leading point made non-reduced: other bytes (rejected since 1d47f6b)
    match fld with
    | "dh" => { st with dh := { st.dh with diff := xorAt st.dh.diff 1 255 } }
    | _ => { st with sig := { st.sig with diff := xorAt st.sig.diff 1 255 } }
  | "trunc" =>
    let k := parseNat (p.getD 2 "")
    match fld with
    | "dh" => { st with dh := { st.dh with diff := st.dh.diff.take (st.dh.diff.length - k) } }
    | "sig" => { st with sig := { st.sig with diff := st.sig.diff.take (st.sig.diff.length - k) } }
    | "cipher" => { st with cipher := { st.cipher with diff := st.cipher.diff.take (st.cipher.diff.length - k) } }
    | _ => { st with nonce := st.nonce.take (st.nonce.length - k) }
  | "ext" =>
    let k := parseNat (p.getD 2 "")
    match fld with
    | "dh" => { st with dh := { st.dh with diff := st.dh.diff ++ List.replicate k 256 } }
    | "sig" => { st with sig := { st.sig with diff := st.sig.diff ++ List.replicate k 256 } }
    | "cipher" => { st with cipher := { st.cipher with diff := st.cipher.diff ++ List.replicate k 256 } }
    | _ => { st with nonce := st.nonce ++ List.replicate k 0 }
  | "swap" =>
    let src := p.getD 2 ""
    let e2 : Option (EncDeal S P) :=
      if src = "c" then some eSecond
      else if src = "d" then
        sealDeal g u.olong u.pubs i (Zr.ofNat 9004) 4 (.deal (honestDeal g u.olong u.pubs u.f i))
      else
        let i2 := parseNat (src.drop 1).toString % u.n
        sealDeal g u.dlong u.pubs i2 (Zr.ofNat (9010 + i2)) 5 (.deal (honestDeal g u.dlong u.pubs u.f i2))
    match e2 with
    | none => st
    | some e2 =>
      (fld.splitOn "+").foldl (fun st fn =>
        match fn with
        | "dh" => { st with dh := Fld.fresh e2.dh 129 }
        | "sig" => { st with sig := Fld.fresh e2.sig 161 }
        | "cipher" => { st with cipher := Fld.fresh e2.cipher (cipherLen u.t) }
        | _ => { st with nonce := e2.nonce }) st
  | _ => st

def applyList (u : Univ) (ls : String) : List P × List S :=
  let p := ls.splitOn ":"
  let n := u.n
  match p.getD 0 "" with
  | "swap" =>
    let a := parseNat (p.getD 1 "") % n; let b := parseNat (p.getD 2 "") % n
    let sw {α : Type} (l : List α) : List α :=
      match l[a]?, l[b]? with
      | some x, some y => (l.set a y).set b x
      | _, _ => l
    (sw u.pubs, sw u.secs)
  | "repl" =>
    let m := parseNat (p.getD 1 "") % n
    (u.pubs.set m (u.fresh • g), u.secs.set m u.fresh)
  | "drop" => (u.pubs.take (n - 1), u.secs.take (n - 1))
  | "add" => (u.pubs ++ [u.fresh • g], u.secs ++ [u.fresh])
  | "neg" =>
    let m := parseNat (p.getD 1 "") % n
    match u.secs[m]? with
    | some s => (u.pubs.set m ((-s) • g), u.secs.set m (-s))
    | none => (u.pubs, u.secs)
  | "dup" =>
    let a := parseNat (p.getD 1 "") % n; let b := parseNat (p.getD 2 "") % n
    match u.pubs[b]?, u.secs[b]? with
    | some pb, some sb => (u.pubs.set a pb, u.secs.set a sb)
    | _, _ => (u.pubs, u.secs)
  | _ => (u.pubs, u.secs)

/-- `ProcessEncryptedDeal`, then every other member's signed approval, then `Deal() != nil` -/
def processAndFeed (v : Verifier S P) (e : EncDeal S P) (secs : List S) : String × Verifier S P :=
  let (v1, r) := processEncryptedDeal g v e
  let res := match r with
    | .error err => "err " ++ err.name
    | .ok resp => if resp.status then "ok approve" else "ok complaint"
  let v2 := match v1.agg with
    | none => v1
    | some a =>
      (List.range secs.length).foldl (fun (v : Verifier S P) k =>
        if k = v.index then v else
        match secs[k]? with
        | none => v
        | some sk =>
          let r : Response S P := { sid := a.sid, index := k, status := true, sig := .sign sk a.sid k true 0 }
          (v.processResponse g r).1) v1
  (res, v2)

def certOf (v : Verifier S P) : Nat :=
  match v.dealOut with
  | some (some _) => 1
  | _ => 0

def runEnc (w : List String) : String :=
  match w with
  | [_, _seed, n, t, i, j, dl, ls, mu] =>
    let n := parseNat n; let t := parseNat t; let i := parseNat i; let j := parseNat j
    let u := mkUniv n t
    if validT t n = false then "err newdealer" else
    match sealDeal g u.dlong u.pubs i (Zr.ofNat 9001) 1 (.deal (honestDeal g u.dlong u.pubs u.f i)),
          sealDeal g u.dlong u.pubs i (Zr.ofNat 9002) 2 (.deal (honestDeal g u.dlong u.pubs u.f i)) with
    | some e0, some eSecond =>
      let st := if mu = "-" then initState t e0 else (mu.splitOn ";").foldl (applyMut u i eSecond) (initState t e0)
      let e := finish t st
      let dpub : P :=
        if dl = "same" then u.dlong • g
        else if dl = "other" then u.olong • g
        else (u.pubs[parseNat (dl.drop 3).toString % n]?).getD (u.olong • g)
      let (lp, lsecs) := applyList u ls
      match u.secs[j]? with
      | none => "bad-op"
      | some xj =>
        match newVerifier g xj dpub lp with
        | .error _ => "err notmember cert=0"
        | .ok v =>
          let (res, v2) := processAndFeed v e lsecs
          s!"{res} cert={certOf v2} fresh=1"
    | _, _ => "bad-op"
  | _ => "bad-op"

def parseInt (s : String) : Int := s.toInt?.getD 0

def runPl (w : List String) : String :=
  match w with
  | [_, _seed, n, t, i, dev] =>
    let n := parseNat n; let t := parseNat t; let i := parseNat i
    let u := mkUniv n t
    let dpub := u.dlong • g
    let p := dev.splitOn ":"
    let arg := p.getD 1 ""
    let kind := p.getD 0 ""
    let f := u.f
    let base : Deal S P := honestDeal g u.dlong u.pubs f i
    let pad (l : Nat) (fs : List S) : List S := (fs ++ (List.range l).map (fun m => Zr.ofNat (777 + m))).take l
    let sidOf (dealer : P) (commits : List P) (tt : Nat) : Sid P := .h dealer u.pubs commits tt
    let d : Deal S P :=
      match kind with
      | "badshare" => { base with share := some ⟨(i : Int), some (priEval f (i : Int) + 1)⟩ }
      | "T" => let v := parseNat arg % 4294967296; { base with t := v, sid := sidOf dpub base.commits v }
      | "Tx" => { base with t := parseNat arg % 4294967296 }
      | "Tc" =>
        let v := parseNat arg
        let f2 := pad v f
        { base with t := v, commits := commit g f2, sid := sidOf dpub (commit g f2) v,
                    share := some ⟨(i : Int), some (priEval f2 (i : Int))⟩ }
      | "idx" => let k := parseInt arg; { base with share := some ⟨k, some (priEval f k)⟩ }
      | "nilshare" => { base with share := none }
      | "nilv" => { base with share := some ⟨(i : Int), none⟩ }
      | "noplain" => { sid := .raw 0, share := none, t := 0, commits := [] }
      | "clen" =>
        let l := parseNat arg
        let cs := ((base.commits ++ (List.range l).map (fun m => Zr.ofNat (555 + m) • g)).take l)
        { base with commits := cs, sid := sidOf dpub cs t }
      | "clenc" =>
        let f2 := pad (parseNat arg) f
        { base with commits := commit g f2, sid := sidOf dpub (commit g f2) t,
                    share := some ⟨(i : Int), some (priEval f2 (i : Int))⟩ }
      | "sid" =>
        match arg with
        | "othert" => { base with sid := sidOf dpub base.commits (t + 1) }
        | "otherc" => { base with sid := sidOf dpub (commit g (Zr.ofNat 999 :: f.drop 1)) t }
        | "otherd" => { base with sid := sidOf (u.olong • g) base.commits t }
        | "raw" => { base with sid := .raw 1 }
        | "zero" => { base with sid := .raw 2 }
        | _ => { base with sid := .raw 0 }
      | _ => base
    match sealDeal g u.dlong u.pubs i (Zr.ofNat 9001) 1 (.deal d), u.secs[i]? with
    | some e, some xi =>
      match newVerifier g xi dpub u.pubs with
      | .error _ => "err notmember cert=0"
      | .ok v =>
        let v := if kind = "twice" then (processEncryptedDeal g v e).1 else v
        let (res, v2) := processAndFeed v e u.secs
        s!"{res} cert={certOf v2}"
    | _, _ => "bad-op"
  | _ => "bad-op"

/-- `ses <seed> <n> <t> <i> <ls>`: three sessions over one member slice (go/props/c08 execSes). The code as it is
carries nothing from one session to the next, so each session is an `enc` case of its own: the list the deal was
made for, the edited list, the original list again. -/
def runSes (w : List String) : String :=
  match w with
  | [_, seed, n, t, i, ls] =>
    let one (l : String) : String := ((runEnc ["enc", seed, n, t, i, i, "same", l, "-"]).splitOn " fresh=").headD ""
    s!"s1=[{one "same"}] s2=[{one ls}] s3=[{one "same"}]"
  | _ => "bad-op"

def step (line : String) : String :=
  let w := words line
  match w.head? with
  | some "enc" => runEnc w
  | some "ses" => runSes w
  | some "pl" => runPl w
  | _ => "bad-op"

end Dos.C08Drv

def main : IO Unit := Dos.lineLoop Dos.C08Drv.step

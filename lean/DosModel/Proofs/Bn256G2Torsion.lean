/-
C10 — the G2 generator of the code is a VALID point of E'(F_p²) : y² = x³ + b', b' = 3/ξ (helper lemmas for
Props/C10G2.lean). The curve equation is evaluated by the kernel in Montgomery gfP2 arithmetic on the
regenerated literals (closed terms only), the values are reduced, so the relation lifts to `Fp2 GFpR`
(forgetting reducedness is injective and commutes with the operations) and is carried to `Fp2 (ZMod p)` along
the decoding homomorphism `Fp2.mapHom decHom`, as in `frobConsts_relations_mont` → `frobConstsFp_good`.
Nonsingularity on y² = x³ + b' (a = 0, characteristic ≠ 2) follows from y ≠ 0, and y ≠ 0 after decoding
follows from y ≠ 0 in Montgomery form because decoding is injective on reduced values.
-/
import DosModel.Proofs.Bn256FinalExpConcrete

namespace Dos.Bn256
open Dos.Mont WeierstrassCurve WeierstrassCurve.Affine

/-- the twist coefficient of the code, decoded into F_p² -/
def twistBFp : Fp2 (ZMod p) := Fp2.map dec twistB

/-- all eight coordinates of the G2 generator and both of twistB are reduced -/
theorem twistGen_reduced : Jac.Reduced2 twistGen := by unfold Jac.Reduced2; decide

theorem twistB_reduced : Red2 twistB := by unfold Red2; decide

theorem twistGen_xy_reduced : Red2 twistGen.x ∧ Red2 twistGen.y := by unfold Red2; decide

set_option maxRecDepth 1000000 in
/-- kernel evaluation on the regenerated literals, in Montgomery gfP2 arithmetic: the generator is
(x, y, 1, 1) with y² = x³ + twistB and y ≠ 0; ξ·twistB = 3 -/
theorem twistGen_relations_mont :
    Fp2.square twistGen.y = Fp2.add (Fp2.mul (Fp2.square twistGen.x) twistGen.x) twistB ∧
    twistGen.z = Fp2.one ∧ twistGen.y ≠ Fp2.zero ∧
    Fp2.mul (Fp2.map valF xiR) twistB = (⟨0, GFp.newGFp 3⟩ : Fp2 GFp) := by
  decide +kernel

/-- decoding of a reduced gfP2 value through its lift -/
theorem dec_lift2R (a : F2) (h : Red2 a) : Fp2.map decR (lift2R a h) = Fp2.map dec a := rfl

theorem val_lift2R (a : F2) (h : Red2 a) : Fp2.map valF (lift2R a h) = a := rfl

/-- decoding is injective on reduced gfP2 values; in particular a reduced non-zero value decodes to a
non-zero element of F_p² -/
theorem dec2_ne_zero (a : F2) (h : Red2 a) (ha : a ≠ Fp2.zero) : Fp2.map dec a ≠ (0 : Fp2 (ZMod p)) := by
  intro h0
  apply ha
  have e : Fp2.map decR (lift2R a h) = Fp2.map decR (Fp2.zero : Fp2 GFpR) := by
    rw [dec_lift2R, Fp2.map_zero' decHom]; exact h0
  have := congrArg (Fp2.map valF) (Fp2.map_inj decHom e)
  rw [val_lift2R, Fp2.map_zero' valHom] at this
  exact this

/-- **the curve equation of the G2 generator in F_p²** (decoded coordinates, field operations of
`instFieldFp2`, which ARE the transcribed gfP2 functions) -/
theorem twistGen_equation_Fp2 :
    Fp2.map dec twistGen.y * Fp2.map dec twistGen.y =
      Fp2.map dec twistGen.x * Fp2.map dec twistGen.x * Fp2.map dec twistGen.x + twistBFp := by
  obtain ⟨r, _, _, _⟩ := twistGen_relations_mont
  obtain ⟨hx, hy⟩ := twistGen_xy_reduced
  have hv := Fp2.map_inj valHom
  have R : Fp2.square (lift2R twistGen.y hy) =
      Fp2.add (Fp2.mul (Fp2.square (lift2R twistGen.x hx)) (lift2R twistGen.x hx))
        (lift2R twistB twistB_reduced) :=
    hv (by rw [Fp2.map_square valHom, Fp2.map_add' valHom, Fp2.map_mul' valHom, Fp2.map_square valHom]; exact r)
  have D := congrArg (Fp2.map decR) R
  rw [Fp2.map_square decHom, Fp2.map_add' decHom, Fp2.map_mul' decHom, Fp2.map_square decHom] at D
  have D' : Fp2.square (Fp2.map dec twistGen.y) =
      Fp2.add (Fp2.mul (Fp2.square (Fp2.map dec twistGen.x)) (Fp2.map dec twistGen.x)) (Fp2.map dec twistB) := D
  rw [Fp2.square_eq, Fp2.square_eq, Fp2.mul_eq, Fp2.add_eq] at D'
  exact D'

/-- **b' = 3/ξ**: the decoded twist coefficient times ξ = i + 9 is 3 -/
theorem twistBFp_xi : (Fp2.xi : Fp2 (ZMod p)) * twistBFp = Fp2.ofBase 3 := by
  obtain ⟨_, _, _, r⟩ := twistGen_relations_mont
  have hv := Fp2.map_inj valHom
  have h3 : (GFp.newGFp 3).v < p := by decide
  have R : Fp2.mul xiR (lift2R twistB twistB_reduced) = (⟨0, ⟨GFp.newGFp 3, h3⟩⟩ : Fp2 GFpR) :=
    hv (by rw [Fp2.map_mul' valHom]; exact r)
  have D := congrArg (Fp2.map decR) R
  rw [Fp2.map_mul' decHom, dec_xiR, dec_lift2R, Fp2.mul_eq] at D
  rw [show twistBFp = Fp2.map dec twistB from rfl, D]
  have d3 : dec (GFp.newGFp 3) = 3 := by
    have h : (GFp.newGFp 3).v * GFp.rN1.v ≡ 3 [MOD p] := by decide
    have := (ZMod.natCast_eq_natCast_iff _ _ _).mpr h
    simpa [dec] using this
  show (⟨dec 0, dec (GFp.newGFp 3)⟩ : Fp2 (ZMod p)) = ⟨0, 3⟩
  rw [dec_zero, d3]

theorem xi_ne_zero_Fp2 : (Fp2.xi : Fp2 (ZMod p)) ≠ 0 := by
  intro h
  have : (Fp2.xi : Fp2 (ZMod p)).x = (0 : Fp2 (ZMod p)).x := congrArg Fp2.x h
  exact one_ne_zero this

theorem twistBFp_eq : twistBFp = Fp2.ofBase 3 / (Fp2.xi : Fp2 (ZMod p)) := by
  rw [eq_div_iff xi_ne_zero_Fp2, mul_comm]; exact twistBFp_xi

/-- on y² = x³ + b over a field of characteristic ≠ 2, a point satisfying the equation with y ≠ 0 is
nonsingular -/
theorem shortW_nonsingular_of_y_ne_zero {K : Type} [Field K] (h2 : (2 : K) ≠ 0) (b x y : K)
    (he : y * y = x * x * x + b) (hy : y ≠ 0) : (shortW b).Nonsingular x y := by
  rw [nonsingular_iff, equation_iff]
  simp only [shortW]
  refine ⟨by linear_combination he, Or.inr ?_⟩
  intro h
  have h' : (2 : K) * y = 0 := by linear_combination h
  rcases mul_eq_zero.mp h' with h0 | h0
  · exact h2 h0
  · exact hy h0

/-- the decoded generator has z = 1, hence its affine image is (x, y) -/
theorem twistGen_dec_z : (Jac.decJ2 twistGen).z = 1 := by
  obtain ⟨_, hz, _, _⟩ := twistGen_relations_mont
  show Fp2.map dec twistGen.z = 1
  rw [hz]
  show (⟨dec 0, dec 1⟩ : Fp2 (ZMod p)) = ⟨0, 1⟩
  rw [dec_zero, dec_one.2]

/-- **the G2 generator is a valid (finite, nonsingular) point of E'(F_p²) : y² = x³ + b'** -/
theorem twistGen_valid : Valid twistBFp (Jac.decJ2 twistGen) := by
  obtain ⟨_, _, hy, _⟩ := twistGen_relations_mont
  right
  have hx' : Jac.ax (Jac.decJ2 twistGen) = Fp2.map dec twistGen.x := by
    show (Jac.decJ2 twistGen).x / (Jac.decJ2 twistGen).z ^ 2 = _
    rw [twistGen_dec_z, one_pow, div_one]; rfl
  have hy' : Jac.ay (Jac.decJ2 twistGen) = Fp2.map dec twistGen.y := by
    show (Jac.decJ2 twistGen).y / (Jac.decJ2 twistGen).z ^ 3 = _
    rw [twistGen_dec_z, one_pow, div_one]; rfl
  rw [hx', hy']
  exact shortW_nonsingular_of_y_ne_zero two_ne_zero_Fp2 _ _ _ twistGen_equation_Fp2
    (dec2_ne_zero _ twistGen_xy_reduced.2 hy)

end Dos.Bn256

package dkgnet

import (
	"context"
	"fmt"
	"math/big"
	"strings"
	"time"

	"github.com/golang/protobuf/proto"

	"github.com/DOSNetwork/core/share"
	dkg "github.com/DOSNetwork/core/share/dkg/pedersen"
	vss "github.com/DOSNetwork/core/share/vss/pedersen"
	"github.com/dedis/kyber"

	"verifharness/internal/h"
)

// Sim drives the REAL session layer (handlePeerMsg / handleRequest through dkg.VerifSession)
// and the REAL pipeline stages (genDistKeyGenerator, Deals, getAndProcessDeals,
// getAndProcessResponses, genGroup through the Verif* hooks) of n members, one event at a
// time, so that a schedule is replayed exactly. It is the Go side of Model/DkgSession.lean.
type Sim struct {
	N, T   int
	Sid    string
	Secs   []kyber.Scalar
	Pubs   []kyber.Point
	Ids    [][]byte // group ids = transport identities of the members
	M      []*SimMember
	Prev   *Sim // a finished earlier session with the same keys (source of replayed messages)
	PrevF  *Sim // a finished earlier session with FRESH keys, the way genPub draws them per Grouping call
	rng    *h.Rng
	polys  map[string][]*big.Int
	Sealed []SealedInfo // what the adversary sealed (for the oracle)
	// Effective records the events that actually delivered something (the message existed already)
	Effective map[string]bool
	advKeys   []kyber.Scalar
	timeout   time.Duration
}

type dealSeen struct {
	claim      int
	consistent bool
}

type SealedInfo struct {
	Rcpt       int
	Claim      int
	Consistent bool // threshold valid, index = rcpt, session id bound, share on the commitments
}

type SimMember struct {
	idx      int
	pk, dl   *dkg.VerifSession
	rs       *dkg.VerifSession
	box      [3]chan []interface{}
	stage    string // i p d r D F:<why>
	gen      *dkg.DistKeyGenerator
	pkMsg    *dkg.PublicKey
	deals    map[int]*dkg.Deal
	resps    *dkg.Responses
	share    *dkg.DistKeyShare
	Approved []int // dealers whose deal this member answered with an approval
	dealLog  []dealSeen
	keyLog   map[uint32]keySeen // first PublicKey message per claimed index that arrived before the key exchange ended
}

type keySeen struct {
	sender int
	key    []byte
}

func NewSim(seed uint64, n int) *Sim { return NewSimDup(seed, n, nil) }

// NewSimDup: the members listed in dup all use the long-term key of the first of them.
func NewSimDup(seed uint64, n int, dup []int) *Sim {
	InitLog()
	Quiet()
	s := &Sim{N: n, T: n/2 + 1, rng: h.NewRng(seed), polys: map[string][]*big.Int{}, timeout: 20 * time.Second, Effective: map[string]bool{}}
	s.Sid = fmt.Sprintf("%x", seed|1)
	for k := 0; k < n; k++ {
		sc := Scalar(NonZero(s.rng))
		s.Secs = append(s.Secs, sc)
		s.Pubs = append(s.Pubs, Pub(sc))
		s.Ids = append(s.Ids, []byte(fmt.Sprintf("member-%02d", k)))
	}
	for _, k := range dup {
		s.Secs[k], s.Pubs[k] = s.Secs[dup[0]], s.Pubs[dup[0]]
	}
	s.reset()
	return s
}

func (s *Sim) reset() {
	s.M = nil
	for k := 0; k < s.N; k++ {
		m := &SimMember{idx: k, pk: dkg.VerifNewSession(), dl: dkg.VerifNewSession(), rs: dkg.VerifNewSession(), stage: "i"}
		for b := range m.box {
			m.box[b] = make(chan []interface{}, 1)
		}
		s.M = append(s.M, m)
	}
}

// WithPrev runs a complete honest session first (same keys, other polynomials) and keeps it for replays.
func (s *Sim) WithPrev() {
	p := &Sim{N: s.N, T: s.T, Sid: s.Sid, Secs: s.Secs, Pubs: s.Pubs, Ids: s.Ids, rng: s.rng, polys: map[string][]*big.Int{}, timeout: s.timeout, Effective: map[string]bool{}}
	p.reset()
	for i := 0; i < p.N; i++ {
		p.Start(i)
	}
	for i := 0; i < p.N; i++ {
		for j := 0; j < p.N; j++ {
			if j != i {
				p.DeliverPk(j, i)
			}
		}
	}
	for i := 0; i < p.N; i++ {
		for j := 0; j < p.N; j++ {
			if j != i {
				p.DeliverDeal(j, i)
			}
		}
	}
	for i := 0; i < p.N; i++ {
		for k := 0; k < p.N; k++ {
			if k != i {
				p.DeliverResps(k, i)
			}
		}
	}
	s.Prev = p
}

// WithPrevFresh runs a complete honest session first in which every member uses a key of that session only:
// what an earlier Grouping call of the real pipeline looks like (genPub draws the key per call).
func (s *Sim) WithPrevFresh() {
	p := &Sim{N: s.N, T: s.T, Sid: s.Sid, Ids: s.Ids, rng: s.rng, polys: map[string][]*big.Int{}, timeout: s.timeout, Effective: map[string]bool{}}
	for k := 0; k < s.N; k++ {
		sc := Scalar(NonZero(s.rng))
		p.Secs = append(p.Secs, sc)
		p.Pubs = append(p.Pubs, Pub(sc))
	}
	p.reset()
	p.runHonest()
	s.PrevF = p
}

func (p *Sim) runHonest() {
	for i := 0; i < p.N; i++ {
		p.Start(i)
	}
	for i := 0; i < p.N; i++ {
		for j := 0; j < p.N; j++ {
			if j != i {
				p.DeliverPk(j, i)
			}
		}
	}
	for i := 0; i < p.N; i++ {
		for j := 0; j < p.N; j++ {
			if j != i {
				p.DeliverDeal(j, i)
			}
		}
	}
	for i := 0; i < p.N; i++ {
		for k := 0; k < p.N; k++ {
			if k != i {
				p.DeliverResps(k, i)
			}
		}
	}
}

// OracleAnswer hands the adversarial deal D.<claim>.<sealer>.<member>.<variant> to a FRESH real generator of
// `member` with the member's long-term key of this Sim (another run with the same key) and returns the signed
// response ProcessDeal answers with (nil: error).
func (s *Sim) OracleAnswer(member, claim, sealer int, variant string) *dkg.Response {
	gen, err := dkg.VerifNewDistKeyGenerator(Suite, s.Secs[member], s.Pubs, s.T, Scalar(NonZero(s.rng)))
	if err != nil {
		return nil
	}
	d := s.AdvDeal(claim, sealer, member, variant)
	var out *dkg.Response
	func() {
		defer func() { recover() }()
		if r, err := gen.ProcessDeal(d); err == nil {
			out = r
		}
	}()
	return out
}

func drain(errc chan error) chan string {
	out := make(chan string, 1)
	go func() {
		first := ""
		for e := range errc {
			if first == "" && e != nil {
				first = e.Error()
			}
		}
		out <- first
	}()
	return out
}

func (s *Sim) ctx() (context.Context, context.CancelFunc) {
	return context.WithTimeout(context.Background(), s.timeout)
}

// advance runs every stage whose predecessor finished and whose batch has been handed over.
func (s *Sim) advance(m *SimMember) {
	for {
		switch m.stage {
		case "p":
			var batch []interface{}
			select {
			case batch = <-m.box[0]:
			default:
				return
			}
			// the real exchangePub: own key first, then the batch, each key checked against its announcer
			ectx, ecancel := s.ctx()
			selfc := make(chan interface{}, 1)
			peerc := make(chan []interface{}, 1)
			selfc <- m.pkMsg
			peerc <- batch
			pout, perrc := dkg.VerifPExchangePub(ectx, selfc, peerc, s.Ids, s.Sid)
			pec := drain(perrc)
			pubs, pok := <-pout
			<-pec
			ecancel()
			if !pok || pubs == nil {
				m.stage = "F:gen"
				return
			}
			ctx, cancel := s.ctx()
			secrc := make(chan kyber.Scalar, 1)
			pubc := make(chan []*dkg.PublicKey, 1)
			secrc <- s.Secs[m.idx]
			pubc <- pubs
			out, errc := dkg.VerifGenDistKeyGenerator(ctx, secrc, pubc, s.N, Suite, s.Sid)
			ec := drain(errc)
			gen, ok := <-out
			<-ec
			cancel()
			if !ok || gen == nil {
				m.stage = "F:gen"
				return
			}
			m.gen = gen
			func() {
				defer func() {
					if r := recover(); r != nil {
						m.stage = "F:owndeal"
					}
				}()
				ds, err := gen.Deals()
				if err != nil {
					m.stage = "F:owndeal"
					return
				}
				for _, d := range ds {
					d.SessionId = s.Sid
				}
				m.deals = ds
				m.stage = "d"
			}()
		case "d":
			var batch []interface{}
			select {
			case batch = <-m.box[1]:
			default:
				return
			}
			resps, ok := RunDealsStage(m.gen, batch, s.Sid, s.timeout)
			if !ok {
				m.stage = "F:noapproval"
				return
			}
			m.resps = resps
			for _, r := range m.resps.Response {
				m.Approved = append(m.Approved, int(r.Index))
			}
			m.stage = "r"
		case "r":
			var batch []interface{}
			select {
			case batch = <-m.box[2]:
			default:
				return
			}
			m.stage, m.share = RunRespsStage(m.gen, batch, s.Sid, s.timeout)
			return
		default:
			return
		}
	}
}

// RunDealsStage runs the REAL getAndProcessDeals on one batch: the Responses message the stage emits, or
// ok=false when it stopped (a non-approval, or nothing handed on).
func RunDealsStage(gen *dkg.DistKeyGenerator, batch []interface{}, sid string, timeout time.Duration) (*dkg.Responses, bool) {
	ctx, cancel := context.WithTimeout(context.Background(), timeout)
	defer cancel()
	dkgc := make(chan *dkg.DistKeyGenerator, 1)
	dealsc := make(chan []interface{}, 1)
	dkgc <- gen
	dealsc <- batch
	dkgOut, out, errc := dkg.VerifGetAndProcessDeals(ctx, dkgc, dealsc, sid)
	ec := drain(errc)
	o, ok := <-out
	var g2 *dkg.DistKeyGenerator
	if ok {
		g2 = <-dkgOut
	}
	<-ec
	if !ok || g2 == nil {
		return nil, false
	}
	return o.(*dkg.Responses), true
}

// RunRespsStage runs the REAL getAndProcessResponses and genGroup on one batch: the member's final stage
// ("D" or "F:<why>") and, when it finished, its key share.
func RunRespsStage(gen *dkg.DistKeyGenerator, batch []interface{}, sid string, timeout time.Duration) (string, *dkg.DistKeyShare) {
	ctx, cancel := context.WithTimeout(context.Background(), timeout)
	defer cancel()
	dkgc := make(chan *dkg.DistKeyGenerator, 1)
	respsc := make(chan []interface{}, 1)
	dkgc <- gen
	respsc <- batch
	out, errc := dkg.VerifGetAndProcessResponses(ctx, dkgc, respsc, sid)
	ec := drain(errc)
	g2, ok := <-out
	<-ec
	if !ok || g2 == nil {
		return "F:response", nil
	}
	gc := make(chan *dkg.DistKeyGenerator, 1)
	gc <- g2
	gout, gerrc, get := dkg.VerifGenGroup(ctx, Suite, gc, sid)
	gec := drain(gerrc)
	_, gok := <-gout
	why := <-gec
	if !gok {
		switch {
		case strings.Contains(why, "not certified"):
			return "F:notcertified", nil
		case strings.Contains(why, "different number of coefficients"):
			return "F:coeffs", nil
		default:
			return "F:other:" + h.OneLine(why), nil
		}
	}
	return "D", get()
}

func (s *Sim) Start(i int) {
	m := s.M[i]
	if m.stage != "i" {
		return
	}
	bin, _ := s.Pubs[i].MarshalBinary()
	m.pkMsg = &dkg.PublicKey{SessionId: s.Sid, Index: uint32(i), Publickey: &vss.PublicKey{Binary: bin}}
	ctx := context.Background()
	m.pk.Request(ctx, 0, s.Sid, s.N-1, m.box[0])
	m.dl.Request(ctx, 1, s.Sid, s.N-1, m.box[1])
	m.rs.Request(ctx, 2, s.Sid, (s.N-1)*(s.N-1), m.box[2])
	m.stage = "p"
	s.advance(m)
}

// DeliverPk etc. return false when the sender has not produced the message yet.
func (s *Sim) DeliverPk(j, i int) bool {
	if s.M[j].pkMsg == nil {
		return false
	}
	s.InjectPk(i, s.M[j].pkMsg, j)
	return true
}

func (s *Sim) DeliverDeal(j, i int) bool {
	d, ok := s.M[j].deals[i]
	if !ok {
		return false
	}
	s.InjectDealInfo(i, CloneDeal(d), true)
	return true
}

func (s *Sim) InjectDeal(i int, d *dkg.Deal) {
	s.InjectDealInfo(i, d, false)
}

// InjectDealInfo delivers a deal and records, for the oracle, whether the harness built it consistent.
func (s *Sim) InjectDealInfo(i int, d *dkg.Deal, consistent bool) {
	s.M[i].dealLog = append(s.M[i].dealLog, dealSeen{int(d.Index), consistent})
	s.M[i].dl.PeerMsg(s.Sid, d)
	s.advance(s.M[i])
}

func (s *Sim) DeliverResps(k, i int) bool {
	if s.M[k].resps == nil {
		return false
	}
	for _, r := range s.M[k].resps.Response {
		s.InjectResp(i, CloneResp(r))
	}
	return true
}

func (s *Sim) InjectResp(i int, r *dkg.Response) {
	s.M[i].rs.PeerMsg(s.Sid, r)
	s.advance(s.M[i])
}

func (s *Sim) Stage(i int) string { return s.M[i].stage }

func (s *Sim) Outcomes() []Outcome {
	outs := make([]Outcome, s.N)
	for k, m := range s.M {
		if m.stage == "D" && m.share != nil {
			outs[k] = Outcome{Finished: true, Share: m.share}
		}
	}
	return outs
}

// GenuineResp is member k's response about dealer j (nil if not produced).
func (s *Sim) GenuineResp(k, j int) *dkg.Response {
	if s.M[k].resps == nil {
		return nil
	}
	for _, r := range s.M[k].resps.Response {
		if int(r.Index) == j {
			return r
		}
	}
	return nil
}

// Poly is the adversary's polynomial number p of length l for the given sealer (deterministic per Sim).
func (s *Sim) Poly(sealer, p, l int) []*big.Int {
	key := fmt.Sprintf("%d/%d", sealer, p)
	c := s.polys[key]
	for len(c) < l {
		c = append(c, NonZero(s.rng))
	}
	s.polys[key] = c
	return c[:l]
}

// CurSid is the session id of member j's own (honest) dealing in this session (nil before it exists).
func (s *Sim) CurSid(j int) []byte {
	if s.M[j].gen == nil {
		return nil
	}
	return s.M[j].gen.VerifDealer().SessionID()
}

// AdvPlain builds the PLAINTEXT of the adversarial deal variant (everything but "junk" / "nil"): what AdvDeal seals,
// and what an adversarial justification carries in the clear.
func (s *Sim) AdvPlain(sealer, rcpt int, variant string) *vss.Deal {
	t := s.T
	num := func(x string) int { return h.Atoi(x) }
	mk := func(p, l int) ([]*big.Int, []kyber.Point) {
		c := s.Poly(sealer, p, l)
		return c, Commit(c)
	}
	sidOf := func(commits []kyber.Point, tt int) []byte {
		b, _ := vss.VerifSessionID(Suite, s.Pubs[sealer], s.Pubs, commits, tt)
		return b
	}
	var deal *vss.Deal
	switch {
	case strings.HasPrefix(variant, "good"), strings.HasPrefix(variant, "bad"), strings.HasPrefix(variant, "nilshare"), strings.HasPrefix(variant, "nilv"), strings.HasPrefix(variant, "sidraw"):
		p := 1
		for _, pre := range []string{"good", "bad", "nilshare", "nilv", "sidraw"} {
			if strings.HasPrefix(variant, pre) && len(variant) > len(pre) {
				p = num(variant[len(pre):])
			}
		}
		c, C := mk(p, t)
		v := Eval(c, int64(rcpt)+1)
		deal = &vss.Deal{SessionID: sidOf(C, t), SecShare: &share.PriShare{I: rcpt, V: Scalar(v)}, T: uint32(t), Commitments: C}
		switch {
		case strings.HasPrefix(variant, "bad"):
			deal.SecShare.V = Scalar(new(big.Int).Add(v, big.NewInt(1)))
		case strings.HasPrefix(variant, "nilshare"):
			deal.SecShare = nil
		case strings.HasPrefix(variant, "nilv"):
			deal.SecShare = &share.PriShare{I: rcpt}
		case strings.HasPrefix(variant, "sidraw"):
			deal.SessionID = s.rng.Bytes(32)
		}
	case strings.HasPrefix(variant, "Tc"): // self-consistent deal of threshold v: v commitments, fitting share and session id
		parts := strings.Split(variant[2:], "p")
		tv := num(parts[0])
		c, C := mk(num(parts[1]), tv)
		deal = &vss.Deal{SessionID: sidOf(C, tv), SecShare: &share.PriShare{I: rcpt, V: Scalar(Eval(c, int64(rcpt)+1))}, T: uint32(tv), Commitments: C}
	case strings.HasPrefix(variant, "Tx"), strings.HasPrefix(variant, "T"):
		bind := !strings.HasPrefix(variant, "Tx")
		body := strings.TrimPrefix(strings.TrimPrefix(variant, "Tx"), "T")
		parts := strings.Split(body, "p")
		tv := uint32(h.BigDec(parts[0]).Uint64())
		c, C := mk(num(parts[1]), t)
		sid := sidOf(C, t)
		if bind {
			sid = sidOf(C, int(tv))
		}
		deal = &vss.Deal{SessionID: sid, SecShare: &share.PriShare{I: rcpt, V: Scalar(Eval(c, int64(rcpt)+1))}, T: tv, Commitments: C}
	case strings.HasPrefix(variant, "idx"):
		parts := strings.Split(variant[3:], "p")
		k := num(parts[0])
		c, C := mk(num(parts[1]), t)
		deal = &vss.Deal{SessionID: sidOf(C, t), SecShare: &share.PriShare{I: k, V: Scalar(Eval(c, int64(k)+1))}, T: uint32(t), Commitments: C}
	case strings.HasPrefix(variant, "clen"):
		parts := strings.Split(variant[4:], "p")
		c, C := mk(num(parts[1]), num(parts[0]))
		deal = &vss.Deal{SessionID: sidOf(C, t), SecShare: &share.PriShare{I: rcpt, V: Scalar(Eval(c, int64(rcpt)+1))}, T: uint32(t), Commitments: C}
	case strings.HasPrefix(variant, "xw"):
		parts := strings.Split(variant[2:], "_")
		c, C := mk(num(parts[0]), t)
		_, C2 := mk(num(parts[1]), t)
		deal = &vss.Deal{SessionID: sidOf(C2, t), SecShare: &share.PriShare{I: rcpt, V: Scalar(Eval(c, int64(rcpt)+1))}, T: uint32(t), Commitments: C}
	default:
		panic("bad deal variant " + variant)
	}
	return deal
}

// AdvDeal builds the adversarial deal message "D.<claim>.<sealer>.<rcpt>.<variant>".
func (s *Sim) AdvDeal(claim, sealer, rcpt int, variant string) *dkg.Deal {
	switch {
	case variant == "junk":
		s.Sealed = append(s.Sealed, SealedInfo{Rcpt: rcpt, Claim: claim})
		return &dkg.Deal{SessionId: s.Sid, Index: uint32(claim), Deal: &vss.EncryptedDeal{DHKey: s.rng.Bytes(129), Signature: s.rng.Bytes(161), Nonce: make([]byte, 12), Cipher: s.rng.Bytes(200)}}
	case variant == "nil":
		s.Sealed = append(s.Sealed, SealedInfo{Rcpt: rcpt, Claim: claim})
		return &dkg.Deal{SessionId: s.Sid, Index: uint32(claim)}
	}
	deal := s.AdvPlain(sealer, rcpt, variant)
	var e *vss.EncryptedDeal
	var err error
	if deal.SecShare != nil && deal.SecShare.V == nil {
		full := *deal
		full.SecShare = &share.PriShare{I: deal.SecShare.I, V: Scalar(big.NewInt(1))}
		raw, merr := full.MarshalBinary()
		if merr != nil {
			panic(merr)
		}
		e, err = vss.VerifSealBytes(Suite, s.Secs[sealer], s.Pubs, rcpt, DropShareValue(raw))
	} else {
		e, err = vss.VerifSeal(Suite, s.Secs[sealer], s.Pubs, rcpt, deal)
	}
	if err != nil {
		panic("sealing hook: " + err.Error())
	}
	cons := false
	sameKey := claim >= 0 && claim < s.N && string(PointBytes(s.Pubs[claim])) == string(PointBytes(s.Pubs[sealer]))
	if deal.SecShare != nil && deal.SecShare.V != nil && sameKey {
		want, _ := vss.VerifSessionID(Suite, s.Pubs[sealer], s.Pubs, deal.Commitments, int(deal.T))
		cons = int(deal.T) >= 2 && int(deal.T) <= s.N && deal.SecShare.I == rcpt && string(want) == string(deal.SessionID) &&
			string(PointBytes(Pub(deal.SecShare.V))) == string(PointBytes(PubEval(deal.Commitments, int64(rcpt)+1)))
	}
	s.Sealed = append(s.Sealed, SealedInfo{Rcpt: rcpt, Claim: claim, Consistent: cons})
	return &dkg.Deal{SessionId: s.Sid, Index: uint32(claim), Deal: e}
}

// AdvResp builds "R.<dealer>.<responder>.<sidspec>.<a|c>.<signer|junk|none>".
func (s *Sim) AdvResp(dealer, responder int, sidspec string, approve bool, signer string) *dkg.Response {
	var sid []byte
	switch {
	case strings.HasPrefix(sidspec, "cur"):
		sid = s.CurSid(h.Atoi(sidspec[3:]))
	case strings.HasPrefix(sidspec, "prev"):
		if s.Prev != nil {
			sid = s.Prev.CurSid(h.Atoi(sidspec[4:]))
		}
	case strings.HasPrefix(sidspec, "p"):
		parts := strings.Split(sidspec[1:], "_")
		sealer, p := h.Atoi(parts[0]), h.Atoi(parts[1])
		sid, _ = vss.VerifSessionID(Suite, s.Pubs[sealer], s.Pubs, Commit(s.Poly(sealer, p, s.T)), s.T)
	case sidspec == "raw":
		sid = s.rng.Bytes(32)
	default:
		panic("bad sid spec " + sidspec)
	}
	r := &vss.Response{SessionID: sid, Index: uint32(responder), Status: approve}
	switch signer {
	case "junk":
		r.Signature = s.rng.Bytes(161)
	case "none":
	default:
		r.Signature = SchnorrSign(s.Secs[h.Atoi(signer)], r.Hash(Suite))
	}
	return &dkg.Response{SessionId: s.Sid, Index: uint32(dealer), Response: r}
}

// DropShareValue removes field 2 (V) from the embedded SecShare message (field 2 of Deal).
func DropShareValue(raw []byte) []byte {
	var out []byte
	buf := raw
	for len(buf) > 0 {
		key, n := uvarint(buf)
		start := buf
		buf = buf[n:]
		switch key & 7 {
		case 0:
			_, m := uvarint(buf)
			buf = buf[m:]
			out = append(out, start[:n+m]...)
		case 2:
			l, m := uvarint(buf)
			body := buf[m : m+int(l)]
			buf = buf[m+int(l):]
			if key>>3 == 2 {
				ik, a := uvarint(body)
				var inner []byte
				if ik&7 == 0 {
					_, b := uvarint(body[a:])
					inner = body[:a+b]
				}
				out = append(out, start[:n]...)
				out = append(out, byte(len(inner)))
				out = append(out, inner...)
			} else {
				out = append(out, start[:n+m+int(l)]...)
			}
		default:
			panic("DropShareValue: unexpected wire type")
		}
	}
	return out
}

func uvarint(b []byte) (uint64, int) {
	var x uint64
	var s uint
	for i, c := range b {
		if c < 0x80 {
			return x | uint64(c)<<s, i + 1
		}
		x |= uint64(c&0x7f) << s
		s += 7
	}
	panic("bad varint")
}

// Complete reports whether every member was started and every message of the honest protocol was
// delivered to its addressee at least once after it existed.
func (s *Sim) Complete() bool {
	for i := 0; i < s.N; i++ {
		if !s.Effective[fmt.Sprintf("s%d", i)] {
			return false
		}
		for j := 0; j < s.N; j++ {
			if j == i {
				continue
			}
			for _, k := range []string{"p", "d", "r"} {
				if !s.Effective[fmt.Sprintf("%s%d.%d", k, j, i)] {
					return false
				}
			}
		}
	}
	return true
}

// HonestSecrets returns the dealer polynomials of all members that reached the dealing stage.
func (s *Sim) Coeffs(k int) []*big.Int {
	if s.M[k].gen == nil {
		return nil
	}
	var out []*big.Int
	for _, c := range s.M[k].gen.VerifDealer().PrivatePoly().Coefficients() {
		out = append(out, Big(c))
	}
	return out
}

// ApprovedBy lists the dealers member k answered with an approval (empty until its deals stage finished).
func (s *Sim) ApprovedBy(k int) []int { return s.M[k].Approved }

// FirstDealConsistent: the first deal that reached member k under dealer index j (the one the
// session layer keeps) was built consistent by the harness / is a genuine deal for k.
func (s *Sim) FirstDealConsistent(k, j int) (consistent, known bool) {
	for _, d := range s.M[k].dealLog {
		if d.claim == j {
			return d.consistent, true
		}
	}
	return false, false
}

// InjectPk hands member i a PublicKey message coming from the transport identity of member `sender`,
// as pdkg.Loop does: the authenticated sender is recorded in the message before it is buffered.
func (s *Sim) InjectPk(i int, m *dkg.PublicKey, sender int) {
	c := proto.Clone(m).(*dkg.PublicKey)
	if mm := s.M[i]; mm.stage == "i" || mm.stage == "p" {
		if mm.keyLog == nil {
			mm.keyLog = map[uint32]keySeen{}
		}
		if _, dup := mm.keyLog[c.Index]; !dup {
			var kb []byte
			if c.Publickey != nil {
				kb = append(kb, c.Publickey.Binary...)
			}
			mm.keyLog[c.Index] = keySeen{sender, kb}
		}
	}
	var id []byte = []byte("outsider")
	if sender >= 0 && sender < len(s.Ids) {
		id = s.Ids[sender]
	}
	dkg.VerifStampSender(c, id)
	s.M[i].pk.PeerMsg(s.Sid, c)
	s.advance(s.M[i])
}

// AdvPk builds "K.<claim>.<sender>.<keyowner>": a PublicKey message claiming index <claim>, carrying the
// key of member <keyowner> (or, "x<N>", a key of the adversary's own), sent by <sender>.
func (s *Sim) AdvPk(claim int, keyowner string) *dkg.PublicKey {
	var pt kyber.Point
	if strings.HasPrefix(keyowner, "x") {
		pt = Pub(s.AdvKey(h.Atoi(keyowner[1:])))
	} else {
		pt = s.Pubs[h.Atoi(keyowner)]
	}
	bin, _ := pt.MarshalBinary()
	return &dkg.PublicKey{SessionId: s.Sid, Index: uint32(claim), Publickey: &vss.PublicKey{Binary: bin}}
}

// AdvKey is the adversary's own long-term secret number k (deterministic per Sim).
func (s *Sim) AdvKey(k int) kyber.Scalar {
	for len(s.advKeys) <= k {
		s.advKeys = append(s.advKeys, Scalar(NonZero(s.rng)))
	}
	return s.advKeys[k]
}

// DealOf / RespsOf expose what member j has produced (copies).
func (s *Sim) DealOf(j, i int) *dkg.Deal {
	d, ok := s.M[j].deals[i]
	if !ok {
		return &dkg.Deal{SessionId: s.Sid, Index: uint32(j)}
	}
	return CloneDeal(d)
}
func (s *Sim) RespsOf(k int) []*dkg.Response {
	var out []*dkg.Response
	if s.M[k].resps != nil {
		for _, r := range s.M[k].resps.Response {
			out = append(out, CloneResp(r))
		}
	}
	return out
}

// KeyOracle states the key-exchange part of the property for member k directly: a member that got past
// the key exchange holds, for every index, a key announced by the group member with that index, and no
// key (its own included) under two indices. "" = fine.
func (s *Sim) KeyOracle(k int) string {
	m := s.M[k]
	switch m.stage {
	case "i", "p", "F:gen":
		return ""
	}
	seen := map[string]int{string(PointBytes(s.Pubs[k])): k}
	for idx := uint32(0); idx < uint32(s.N); idx++ {
		e, ok := m.keyLog[idx]
		if !ok || int(idx) == k {
			continue
		}
		if e.sender != int(idx) {
			return fmt.Sprintf("accepted-foreign-key: member %d went on with a key for index %d that was announced by %d", k, idx, e.sender)
		}
		if o, dup := seen[string(e.key)]; dup {
			return fmt.Sprintf("accepted-duplicate-key: member %d went on with one key under the indices %d and %d", k, o, idx)
		}
		seen[string(e.key)] = int(idx)
	}
	return ""
}

// Package c19: state-changing calls of the onchain adaptor (eth_set.go request loop,
// argument marshalling) against scripted in-process JSON-RPC endpoints.
//
// Case lines
//
//	hr <o1,o2,…>                               handleReq alone through the hook; outcomes
//	                                            acc|closed|nonce|revert|funds|other|done|op
//	seq <gasLimit> <gasPrice> <chainId> <call>…  a real adaptor (its own Connect) against one endpoint per
//	                                            outcome column; call = name/args/outcomes, name in
//	                                            ur|dr|rg|rn|cm|rv, args ';'-separated, outcomes
//	                                            acc|conn|nonce|revert|funds|other|closed|hdr|connsend|lost
//	sig <sighex>                                Signature.ToBigInt
//	pk <marshalled G2 hex> [k]                  decodePubKey (k: the point is k·G2, checked against go-ethereum's bn256)
//	cfg <gasLimit> <gasPrice> <chainId> <op>…   history of gp:<v> | gl:<v> | re | tx:<outcomes> on one adaptor
//	cr <randSeed> <cid>                         dosnode handleCR (hook) on a real adaptor: commit hash vs revealed secret
//	race <n>                                    two callers on the real adaptor: B queues behind A, A's failures cancel all n endpoints
//	sel                                         4-byte selectors of the ten queue methods: binding ABI (method.ID) vs reference signatures
//
// seq call names: ur UpdateRandomness, dr DataReturn, rg RegisterGroupPubKey, rn RegisterNewNode, cm Commit, rv Reveal
// (the six of the property) and sg SetGroupSize, un UnRegisterNode, su SignalUnregister, sc StartCommitReveal (the other
// four that go through the request queue).  Every recorded raw transaction is printed with its call data
// (tx.Data()); the Lean driver prints selector ++ Abi.encodeRaw of the model for the same case line, so the two are
// compared byte for byte.  An endpoint that accepts a transaction reports a pending nonce one higher afterwards.
package c19

import (
	"bytes"
	"context"
	"errors"
	"fmt"
	"hash/adler32"
	"math/big"
	"os"
	"runtime"
	"sort"
	"strconv"
	"strings"
	"sync"
	"time"

	"github.com/DOSNetwork/core/dosnode"
	replog "github.com/DOSNetwork/core/log"
	"github.com/DOSNetwork/core/onchain"
	"github.com/DOSNetwork/core/onchain/commitreveal"
	"github.com/DOSNetwork/core/onchain/dosproxy"
	dkg "github.com/DOSNetwork/core/share/dkg/pedersen"
	vss "github.com/DOSNetwork/core/share/vss/pedersen"
	"github.com/DOSNetwork/core/suites"
	"github.com/ethereum/go-ethereum/accounts/abi"
	"github.com/ethereum/go-ethereum/common"
	"github.com/ethereum/go-ethereum/core/types"
	"github.com/ethereum/go-ethereum/crypto"
	ethbn "github.com/ethereum/go-ethereum/crypto/bn256/cloudflare"

	"verifharness/internal/chaindouble"
	"verifharness/internal/h"
)

func init() {
	h.Register(&h.Prop{
		ID: "C19",
		Rule: "cases: hr (handleReq through the hook: EVERY assignment of the 7 endpoint outcomes to 1..4 endpoints, operation-context cancellation at every position), " +
			"seq (real adaptor connected by its own Connect to 1..3 scripted JSON-RPC endpoints: EVERY assignment of the 6 property outcomes to 1..3 endpoints x each of the six calls, with boundary arguments; " +
			"all six calls x boundary arguments on a healthy endpoint; 2-3 call sequences so that earlier failures leave cancelled endpoints), cfg (histories of SetGasPrice / SetGasLimit / DisconnectAll+Connect / calls with failing endpoints: every transaction must carry the current configuration), sig/pk (marshalling incl. leading zeros); " +
			"non-trivial = at least one endpoint does not simply accept, or an argument has a leading zero byte / boundary size; distinct = distinct case line",
		Gen:        gen,
		Exec:       exec,
		Exhaustive: func(tier string) bool { return true },
	})
}

var quiet sync.Once

// The repository prints progress with fmt.Println; keep it out of the harness' stdout protocol.
func silence() {
	quiet.Do(func() {
		if f, err := os.OpenFile(os.DevNull, os.O_WRONLY, 0); err == nil {
			os.Stdout = f
		}
	})
}

// ---------------------------------------------------------------------------
// hr: handleReq through the hook

var hrMsg = map[string]string{
	"closed": `Post "http://10.0.0.1:8545": write tcp 10.0.0.2:51234->10.0.0.1:8545: use of closed network connection`,
	"nonce":  `failed to retrieve account nonce: Post "http://10.0.0.1:8545": dial tcp 10.0.0.1:8545: connect: connection refused`,
	"revert": "transaction failed",
	"funds":  "insufficient funds for gas * price + value",
	"other":  "nonce too low",
}

func errKind(err error) string {
	if err == nil {
		return "nil"
	}
	s := err.Error()
	switch {
	case strings.Contains(s, "use of closed network connection"):
		return "closed"
	case strings.Contains(s, "failed to retrieve account nonce"):
		return "nonce"
	case strings.Contains(s, "transaction failed"):
		return "revert"
	case strings.Contains(s, "insufficient funds for gas * price + value"):
		return "funds"
	case strings.Contains(s, "no live endpoint"):
		return "noendpoint"
	case strings.Contains(s, "not connecting to geth"):
		return "notconn"
	case errors.Is(err, context.Canceled) || errors.Is(err, context.DeadlineExceeded):
		return "opctx"
	}
	return "other"
}

func csvInts(v []int) string {
	if len(v) == 0 {
		return "-"
	}
	s := make([]string, len(v))
	for i, x := range v {
		s[i] = strconv.Itoa(x)
	}
	return strings.Join(s, ",")
}

func execHR(w []string) (res h.Result) {
	outs := []string{}
	if w[1] != "-" {
		outs = strings.Split(w[1], ",")
	}
	n := len(outs)
	opCtx, opCancel := context.WithCancel(context.Background())
	defer opCancel()
	var mu sync.Mutex
	var called, cancelled []int
	ctxs := make([]context.Context, n)
	cancels := make([]context.CancelFunc, n)
	for i := range outs {
		c, cf := context.WithCancel(context.Background())
		i := i
		ctxs[i] = context.WithValue(c, "index", i)
		cancels[i] = func() {
			mu.Lock()
			cancelled = append(cancelled, i)
			mu.Unlock()
			cf()
		}
		defer cf()
		if outs[i] == "done" {
			cf()
		}
	}
	// the operation context is found done at the first "op" endpoint: it is cancelled by the
	// last call made before it (or before the request is handled at all)
	opAt := -1
	for i, o := range outs {
		if o == "op" {
			opAt = i
			break
		}
	}
	lastBeforeOp := -1
	for i := 0; i < opAt; i++ {
		if outs[i] != "done" {
			lastBeforeOp = i
		}
	}
	if opAt >= 0 && lastBeforeOp < 0 {
		opCancel()
	}
	f := func(ctx context.Context) (*types.Transaction, error) {
		i, _ := ctx.Value("index").(int)
		mu.Lock()
		called = append(called, i)
		mu.Unlock()
		if i == lastBeforeOp {
			defer opCancel()
		}
		switch outs[i] {
		case "acc":
			return types.NewTransaction(uint64(i), common.Address{}, big.NewInt(0), 21000, big.NewInt(1), nil), nil
		case "closed", "nonce", "revert", "funds", "other":
			return nil, onchain.VerifOnchainError(i, fmt.Errorf(": %w", errors.New(hrMsg[outs[i]])))
		}
		panic("f called on endpoint with outcome " + outs[i])
	}
	idx, tx, err, replied := onchain.VerifHandleReq(opCtx, ctxs, cancels, f)
	mu.Lock()
	defer mu.Unlock()
	rep := "none"
	if replied {
		t := "notx"
		if tx != nil {
			t = "tx"
		}
		rep = fmt.Sprintf("%d:%s:%s", idx, t, errKind(err))
	}
	res.Impl = fmt.Sprintf("called=%s cancelled=%s reply=%s", csvInts(called), csvInts(cancelled), rep)
	res.Class = fmt.Sprintf("hr-n%d", n)
	for _, o := range outs {
		if o != "acc" {
			res.Nontrivial = true
		}
	}
	res.Oracle = failoverOracle(outs, called, cancelled, replied, tx != nil, err, nil)
	return
}

// failoverOracle states the property directly: which endpoints must / must not have been contacted and what the
// caller is told, given what each endpoint does.  `dead` = endpoints already cancelled before the call.
func failoverOracle(outs []string, called, cancelled []int, replied, hasTx bool, err error, dead map[int]bool) string {
	was := map[int]bool{}
	for i, c := range called {
		if was[c] {
			return fmt.Sprintf("endpoint-contacted-twice: endpoint %d", c)
		}
		was[c] = true
		if i > 0 && called[i-1] > c {
			return "endpoints-out-of-order"
		}
	}
	stop := "" // why no further endpoint may be contacted
	accepted := 0
	opdone := false
	for i, o := range outs {
		if dead[i] {
			o = "done"
		}
		if stop != "" || opdone {
			if was[i] {
				if opdone {
					return fmt.Sprintf("sent-after-caller-gave-up: endpoint %d", i)
				}
				return fmt.Sprintf("sent-after-%s: endpoint %d contacted", stop, i)
			}
			continue
		}
		switch o {
		case "op":
			opdone = true
			if was[i] {
				return fmt.Sprintf("sent-after-caller-gave-up: endpoint %d", i)
			}
		case "done":
			if was[i] {
				return fmt.Sprintf("cancelled-endpoint-contacted: endpoint %d", i)
			}
		default:
			if !was[i] {
				return fmt.Sprintf("no-failover: live endpoint %d was not tried", i)
			}
			switch o {
			case "acc":
				accepted++
				stop = "accept"
			case "revert":
				stop = "revert"
			case "funds":
				stop = "insufficient-funds"
			}
		}
	}
	if accepted > 1 {
		return "accepted-twice"
	}
	if opdone {
		if replied && cancelled != nil { // hook level: no reply expected
			return "reply-after-caller-gave-up"
		}
		return ""
	}
	if !replied {
		return "no-reply"
	}
	if accepted == 1 && (err != nil || !hasTx) {
		return "error-despite-accept: " + h.OneLine(fmt.Sprint(err))
	}
	if accepted == 0 && err == nil {
		if len(called) == 0 {
			return "nil-error-nothing-sent: every endpoint context is done, reply has err == nil and no transaction"
		}
		return "nil-error-without-accept"
	}
	if cancelled != nil {
		want := []int{}
		for _, c := range called {
			if outs[c] == "closed" || outs[c] == "nonce" {
				want = append(want, c)
			}
		}
		got := append([]int(nil), cancelled...)
		sort.Ints(got)
		if csvInts(got) != csvInts(want) {
			return fmt.Sprintf("failed-connection-not-cancelled: cancelled %s want %s", csvInts(got), csvInts(want))
		}
	}
	return ""
}

// ---------------------------------------------------------------------------
// seq: the real adaptor

func syn(n, a, b int) []byte {
	p := make([]byte, n)
	for i := range p {
		p[i] = byte((a*i + b) % 256)
	}
	return p
}

func content(s string) []byte {
	if strings.HasPrefix(s, "syn.") {
		p := strings.Split(s, ".")
		return syn(h.Atoi(p[1]), h.Atoi(p[2]), h.Atoi(p[3]))
	}
	return h.UnHex(s)
}

var (
	proxyABI, crABI abi.ABI
	abiOnce         sync.Once
)

func abis() {
	abiOnce.Do(func() {
		var err error
		if proxyABI, err = abi.JSON(strings.NewReader(dosproxy.DosproxyABI)); err != nil {
			panic(err)
		}
		if crABI, err = abi.JSON(strings.NewReader(commitreveal.CommitrevealABI)); err != nil {
			panic(err)
		}
	})
}

func script(e *chaindouble.Endpoint, o string) {
	e.ClearScript()
	switch o {
	case "acc":
	case "conn":
		e.Script("eth_getTransactionCount", chaindouble.Outcome{Drop: true})
	case "nonce":
		e.Script("eth_getTransactionCount", chaindouble.Outcome{Err: "nonce lookup failed: database closed"})
	case "revert":
		e.Script("eth_sendRawTransaction", chaindouble.Outcome{Err: "transaction failed"})
	case "funds":
		e.Script("eth_sendRawTransaction", chaindouble.Outcome{Err: "insufficient funds for gas * price + value"})
	case "other":
		e.Script("eth_sendRawTransaction", chaindouble.Outcome{Err: "nonce too low"})
	case "closed":
		e.Script("eth_sendRawTransaction", chaindouble.Outcome{Err: "write tcp 127.0.0.1:1->127.0.0.1:2: use of closed network connection"})
	case "hdr":
		e.Script("eth_getBlockByNumber", chaindouble.Outcome{Err: "header not found"})
	case "connsend":
		e.Script("eth_sendRawTransaction", chaindouble.Outcome{Drop: true})
	case "lost": // the endpoint processes and ACCEPTS the transaction, the connection is cut before the reply
		e.Script("eth_sendRawTransaction", chaindouble.Outcome{DropAfter: true})
	default:
		panic("bad outcome " + o)
	}
}

func u256(v *big.Int) string { return v.String() }

// describeTx decodes a recorded raw transaction with the contract ABI and recovers its sender.
func describeTx(raw []byte, s *chaindouble.Stack) (string, *types.Transaction, []interface{}, string) {
	tx := new(types.Transaction)
	if err := tx.UnmarshalBinary(raw); err != nil {
		return "undecodable", nil, nil, ""
	}
	to := "other"
	var ab abi.ABI
	if tx.To() != nil && *tx.To() == s.Proxy {
		to, ab = "proxy", proxyABI
	} else if tx.To() != nil && *tx.To() == s.CR {
		to, ab = "cr", crABI
	}
	from := "other"
	if snd, err := types.Sender(types.LatestSignerForChainID(tx.ChainId()), tx); err == nil && snd == s.Key.Address {
		from = "key"
	}
	name, argstr := "?", "?"
	var args []interface{}
	if to != "other" && len(tx.Data()) >= 4 {
		if m, err := ab.MethodById(tx.Data()[:4]); err == nil {
			name = m.Name
			if args, err = m.Inputs.Unpack(tx.Data()[4:]); err == nil {
				// the encoding must be canonical: re-packing the decoded values gives the same bytes
				if re, err := m.Inputs.Pack(args...); err != nil || !bytes.Equal(re, tx.Data()[4:]) {
					name += "(non-canonical-encoding)"
				}
				var parts []string
				for _, a := range args {
					switch v := a.(type) {
					case *big.Int:
						parts = append(parts, u256(v))
					case uint8:
						parts = append(parts, strconv.Itoa(int(v)))
					case []byte:
						parts = append(parts, fmt.Sprintf("%d:%d", len(v), adler32.Checksum(v)))
					case [2]*big.Int:
						parts = append(parts, u256(v[0]), u256(v[1]))
					case [4]*big.Int:
						parts = append(parts, u256(v[0]), u256(v[1]), u256(v[2]), u256(v[3]))
					case [32]byte:
						parts = append(parts, h.Hex(v[:]))
					case common.Address:
						parts = append(parts, h.Hex(v[:]))
					default:
						parts = append(parts, fmt.Sprintf("?%T", a))
					}
				}
				argstr = strings.Join(parts, ",")
				if len(parts) == 0 {
					argstr = "-"
				}
			}
		}
	}
	d := fmt.Sprintf("to=%s m=%s args=%s data=%s nonce=%d gas=%d price=%s chain=%s from=%s", to, name, argstr, dataText(tx.Data()), tx.Nonce(), tx.Gas(), tx.GasPrice(), tx.ChainId(), from)
	if tx.Value().Sign() != 0 {
		d += " value=" + tx.Value().String()
	}
	return d, tx, args, name
}

// dataText prints call data: in full up to 2 KiB, else length, Adler-32, the first 512 and the last 64 bytes.
func dataText(b []byte) string {
	if len(b) <= 2048 {
		return h.Hex(b)
	}
	return fmt.Sprintf("%d:%d:%s:%s", len(b), adler32.Checksum(b), h.Hex(b[:512]), h.Hex(b[len(b)-64:]))
}

// refABI: what the deployed contracts declare for the ten methods of the request queue (DOSProxy.sol,
// CommitReveal.sol) — the harness' own statement of "the intended method", independent of the bindings under test.
const refABIJSON = `[
{"type":"function","name":"setGroupSize","inputs":[{"name":"newSize","type":"uint256"}]},
{"type":"function","name":"updateRandomness","inputs":[{"name":"sig","type":"uint256[2]"}]},
{"type":"function","name":"triggerCallback","inputs":[{"name":"requestId","type":"uint256"},{"name":"trafficType","type":"uint8"},{"name":"result","type":"bytes"},{"name":"sig","type":"uint256[2]"}]},
{"type":"function","name":"registerGroupPubKey","inputs":[{"name":"groupId","type":"uint256"},{"name":"suggestedPubKey","type":"uint256[4]"}]},
{"type":"function","name":"registerNewNode","inputs":[]},
{"type":"function","name":"unregisterNode","inputs":[]},
{"type":"function","name":"signalUnregister","inputs":[{"name":"member","type":"address"}]},
{"type":"function","name":"startCommitReveal","inputs":[{"name":"_startBlock","type":"uint256"},{"name":"_commitDuration","type":"uint256"},{"name":"_revealDuration","type":"uint256"},{"name":"_revealThreshold","type":"uint256"}]},
{"type":"function","name":"commit","inputs":[{"name":"_cid","type":"uint256"},{"name":"_secretHash","type":"bytes32"}]},
{"type":"function","name":"reveal","inputs":[{"name":"_cid","type":"uint256"},{"name":"_secret","type":"uint256"}]}
]`

var (
	refABI  abi.ABI
	refOnce sync.Once
)

func ref() abi.ABI {
	refOnce.Do(func() {
		var err error
		if refABI, err = abi.JSON(strings.NewReader(refABIJSON)); err != nil {
			panic(err)
		}
	})
	return refABI
}

var refOrder = []string{"setGroupSize", "updateRandomness", "triggerCallback", "registerGroupPubKey", "registerNewNode",
	"unregisterNode", "signalUnregister", "startCommitReveal", "commit", "reveal"}

// wantData: the call data the PROPERTY demands: reference method, intended values (math/big from the case line),
// packed by go-ethereum against the reference ABI.
func wantData(c callSpec) []byte {
	be := func(b []byte) *big.Int { return new(big.Int).SetBytes(b) }
	sig2 := func(s []byte) [2]*big.Int {
		if len(s) < 64 {
			panic("case line: signature shorter than 64 bytes")
		}
		return [2]*big.Int{be(s[:32]), be(s[32:64])}
	}
	var name string
	var vals []interface{}
	switch c.name {
	case "sg":
		name, vals = "setGroupSize", []interface{}{h.BigDec(c.args[0])}
	case "ur":
		name, vals = "updateRandomness", []interface{}{sig2(h.UnHex(c.args[0]))}
	case "dr":
		blob := content(c.args[3])
		if blob == nil {
			blob = []byte{}
		}
		name, vals = "triggerCallback", []interface{}{be(h.UnHex(c.args[1])), uint8(h.Atoi(c.args[2]) % 256), blob, sig2(h.UnHex(c.args[0]))}
	case "rg":
		var k [4]*big.Int
		for i := range k {
			k[i] = h.BigDec(c.args[i+1])
		}
		name, vals = "registerGroupPubKey", []interface{}{h.BigDec(c.args[0]), k}
	case "rn":
		name = "registerNewNode"
	case "un":
		name = "unregisterNode"
	case "su":
		name, vals = "signalUnregister", []interface{}{common.BytesToAddress(h.UnHex(c.args[0]))}
	case "sc":
		for _, a := range c.args {
			vals = append(vals, h.BigDec(a)) // negative values: two's complement, as the EVM reads an int64 widened to 256 bits
		}
		name = "startCommitReveal"
	case "cm":
		var b [32]byte
		copy(b[:], h.UnHex(c.args[1]))
		name, vals = "commit", []interface{}{h.BigDec(c.args[0]), b}
	case "rv":
		name, vals = "reveal", []interface{}{h.BigDec(c.args[0]), h.BigDec(c.args[1])}
	default:
		panic("bad call " + c.name)
	}
	d, err := ref().Pack(name, vals...)
	if err != nil {
		panic(err)
	}
	return d
}

func firstDiffByte(a, b []byte) int {
	for i := 0; i < len(a) && i < len(b); i++ {
		if a[i] != b[i] {
			return i
		}
	}
	if len(a) != len(b) {
		if len(a) < len(b) {
			return len(a)
		}
		return len(b)
	}
	return -1
}

type callSpec struct {
	name string
	args []string
	outs []string
}

// intended returns the method name and argument values the PROPERTY demands for a call (computed with math/big only).
func intended(c callSpec) (to, method string, want []*big.Int, blob []byte, b32 []byte) {
	be := func(b []byte) *big.Int { return new(big.Int).SetBytes(b) }
	switch c.name {
	case "ur":
		s := h.UnHex(c.args[0])
		return "proxy", "updateRandomness", []*big.Int{be(s[:32]), be(s[32:64])}, nil, nil
	case "dr":
		s := h.UnHex(c.args[0])
		return "proxy", "triggerCallback", []*big.Int{be(h.UnHex(c.args[1])), big.NewInt(int64(h.Atoi(c.args[2]) % 256)), be(s[:32]), be(s[32:64])}, content(c.args[3]), nil
	case "rg":
		var w []*big.Int
		for _, a := range c.args {
			w = append(w, h.BigDec(a))
		}
		return "proxy", "registerGroupPubKey", w, nil, nil
	case "rn":
		return "proxy", "registerNewNode", nil, nil, nil
	case "un":
		return "proxy", "unregisterNode", nil, nil, nil
	case "sg":
		return "proxy", "setGroupSize", []*big.Int{h.BigDec(c.args[0])}, nil, nil
	case "su":
		return "proxy", "signalUnregister", []*big.Int{be(h.UnHex(c.args[0]))}, nil, nil
	case "sc":
		var w []*big.Int
		two256 := new(big.Int).Lsh(big.NewInt(1), 256)
		for _, a := range c.args {
			w = append(w, new(big.Int).Mod(h.BigDec(a), two256))
		}
		return "cr", "startCommitReveal", w, nil, nil
	case "cm":
		return "cr", "commit", []*big.Int{h.BigDec(c.args[0])}, nil, h.UnHex(c.args[1])
	case "rv":
		return "cr", "reveal", []*big.Int{h.BigDec(c.args[0]), h.BigDec(c.args[1])}, nil, nil
	}
	panic("bad call " + c.name)
}

func flatArgs(args []interface{}) (nums []*big.Int, blob []byte, b32 []byte) {
	for _, a := range args {
		switch v := a.(type) {
		case *big.Int:
			nums = append(nums, v)
		case uint8:
			nums = append(nums, big.NewInt(int64(v)))
		case []byte:
			blob = v
		case [2]*big.Int:
			nums = append(nums, v[0], v[1])
		case [4]*big.Int:
			nums = append(nums, v[0], v[1], v[2], v[3])
		case [32]byte:
			b32 = append([]byte(nil), v[:]...)
		case common.Address:
			nums = append(nums, new(big.Int).SetBytes(v[:]))
		}
	}
	return
}

func invoke(a onchain.ProxyAdapter, c callSpec) error {
	switch c.name {
	case "ur":
		return a.UpdateRandomness(&vss.Signature{Signature: h.UnHex(c.args[0])})
	case "dr":
		return a.DataReturn(&vss.Signature{Signature: h.UnHex(c.args[0]), RequestId: h.UnHex(c.args[1]), Index: uint32(h.Atoi(c.args[2])), Content: content(c.args[3])})
	case "rg":
		var v [5]*big.Int
		for i := range v {
			v[i] = h.BigDec(c.args[i])
		}
		return a.RegisterGroupPubKey(v)
	case "rn":
		return a.RegisterNewNode()
	case "un":
		return a.UnRegisterNode()
	case "sg":
		return a.SetGroupSize(h.BigDec(c.args[0]).Uint64())
	case "su":
		return a.SignalUnregister(common.BytesToAddress(h.UnHex(c.args[0])))
	case "sc":
		return a.StartCommitReveal(h.BigDec(c.args[0]).Int64(), h.BigDec(c.args[1]).Int64(), h.BigDec(c.args[2]).Int64(), h.BigDec(c.args[3]).Int64())
	case "cm":
		var b [32]byte
		copy(b[:], h.UnHex(c.args[1]))
		return a.Commit(h.BigDec(c.args[0]), b)
	case "rv":
		return a.Reveal(h.BigDec(c.args[0]), h.BigDec(c.args[1]))
	}
	panic("bad call " + c.name)
}

func execSeq(w []string) (res h.Result) {
	abis()
	gl, gp, cid := uint64(h.Atoi(w[1])), uint64(h.Atoi(w[2])), h.BigDec(w[3])
	var calls []callSpec
	for _, tok := range w[4:] {
		p := strings.Split(tok, "/")
		calls = append(calls, callSpec{p[0], strings.Split(p[1], ";"), strings.Split(p[2], ",")})
	}
	n := len(calls[0].outs)
	st, err := chaindouble.NewStack(n, 1, cid, gl, gp, nil)
	if err != nil {
		res.Impl = "connect-failed " + h.OneLine(err.Error())
		res.Oracle = "harness-connect-failed: " + h.OneLine(err.Error())
		return
	}
	defer st.Close()
	// pending[i]: what endpoint i answers to eth_getTransactionCount(pending): 7+i at the start, one more after
	// every transaction it has accepted (a chain node counts an accepted transaction as pending)
	pending := make([]uint64, n)
	for i, e := range st.RPC {
		pending[i] = uint64(7 + i)
		e.SetNonce(pending[i])
		e.SetGasPrice(big.NewInt(int64(2000000000 + i)))
	}
	dead := map[int]bool{}
	var lines []string
	for _, c := range calls {
		for i, e := range st.RPC {
			script(e, c.outs[i])
			e.ResetCalls()
			e.ResetRawTxs()
		}
		cerr := invoke(st.Adaptor, c)
		var contacted, raw []int
		var txs []string
		wantTo, wantM, wantNums, wantBlob, wantB32 := intended(c)
		wantCD := wantData(c)
		for i, e := range st.RPC {
			if len(e.Calls()) > 0 {
				contacted = append(contacted, i)
			}
			rts := e.RawTxs()
			if len(rts) > 1 && res.Oracle == "" {
				res.Oracle = fmt.Sprintf("sent-twice-to-one-endpoint: endpoint %d received %d raw transactions", i, len(rts))
			}
			if len(rts) > 0 {
				raw = append(raw, i)
				d, tx, args, name := describeTx(rts[0], st)
				txs = append(txs, fmt.Sprintf("%d:%s", i, d))
				// the property, field by field, against values computed here with math/big
				if res.Oracle == "" {
					nums, blob, b32 := flatArgs(args)
					switch {
					case tx == nil:
						res.Oracle = "tx-undecodable"
					case !strings.Contains(d, "to="+wantTo+" "):
						res.Oracle = "tx-wrong-contract: " + d
					case name != wantM:
						res.Oracle = "tx-wrong-method: " + name + " want " + wantM
					case !strings.Contains(d, "from=key"):
						res.Oracle = "tx-wrong-signer"
					case tx.ChainId().Cmp(cid) != 0:
						res.Oracle = "tx-wrong-chain-id: " + tx.ChainId().String()
					case tx.Gas() != gl:
						res.Oracle = fmt.Sprintf("tx-wrong-gas-limit: %d", tx.Gas())
					case gp != 0 && tx.GasPrice().Cmp(new(big.Int).SetUint64(gp)) != 0:
						res.Oracle = "tx-wrong-gas-price: " + tx.GasPrice().String()
					case tx.Nonce() != pending[i]:
						res.Oracle = fmt.Sprintf("tx-wrong-nonce: %d, endpoint %d reports %d pending", tx.Nonce(), i, pending[i])
					case tx.Value().Sign() != 0:
						res.Oracle = "tx-carries-value: " + tx.Value().String()
					case tx.Type() != types.LegacyTxType:
						res.Oracle = fmt.Sprintf("tx-not-legacy: type %d", tx.Type())
					case len(nums) != len(wantNums):
						res.Oracle = "tx-wrong-arity"
					case !bytes.Equal(blob, wantBlob):
						res.Oracle = "tx-result-bytes-differ"
					case !bytes.Equal(b32, wantB32):
						res.Oracle = "tx-bytes32-differs"
					default:
						for k := range nums {
							if nums[k].Cmp(wantNums[k]) != 0 {
								res.Oracle = fmt.Sprintf("tx-argument-%d-differs: got %s want %s (%s)", k, nums[k], wantNums[k], wantM)
								break
							}
						}
						// byte for byte: selector of the reference method ++ reference packing of the intended values
						if res.Oracle == "" && !bytes.Equal(tx.Data(), wantCD) {
							k := firstDiffByte(tx.Data(), wantCD)
							res.Oracle = fmt.Sprintf("tx-calldata-differs: %s: %d bytes, intended %d bytes, first difference at byte %d", wantM, len(tx.Data()), len(wantCD), k)
						}
					}
				}
			}
		}
		tx := "-"
		if len(txs) > 0 {
			tx = strings.Join(txs, ";")
		}
		lines = append(lines, fmt.Sprintf("err=%s contacted=%s raw=%s tx=%s", errKind(cerr), csvInts(contacted), csvInts(raw), tx))
		// failover / at-most-once, stated on what the endpoints saw
		if res.Oracle == "" {
			alive := false
			for i := range c.outs {
				if !dead[i] {
					alive = true
				}
			}
			if !alive {
				if len(contacted) > 0 {
					res.Oracle = "cancelled-endpoint-contacted"
				} else if cerr == nil {
					res.Oracle = "nil-error-nothing-sent: no live endpoint, call returned nil"
				}
			} else {
				outs := make([]string, len(c.outs))
				for i, o := range c.outs {
					switch o {
					case "conn":
						o = "nonce"
					case "hdr", "connsend", "lost":
						o = "other"
					}
					outs[i] = o
				}
				res.Oracle = failoverOracle(outs, contacted, nil, true, cerr == nil, cerr, dead)
			}
			// "exactly one transaction … never sent again once an endpoint has accepted it": the endpoints that TOOK the
			// transaction of this one call (accepted it, whether or not the reply reached the client)
			if res.Oracle == "" {
				var takers []string
				lostSeen := false
				for _, i := range raw {
					if c.outs[i] == "acc" || c.outs[i] == "lost" {
						d, tx, _, _ := describeTx(st.RPC[i].RawTxs()[0], st)
						_ = d
						takers = append(takers, fmt.Sprintf("endpoint %d nonce %d hash %x", i, tx.Nonce(), tx.Hash().Bytes()[:6]))
						lostSeen = lostSeen || c.outs[i] == "lost"
					}
				}
				switch {
				case len(takers) > 1 && lostSeen:
					res.Oracle = fmt.Sprintf("accepted-reply-lost-resent: one %s call, %d endpoints accepted a transaction: %s", c.name, len(takers), strings.Join(takers, "; "))
				case len(takers) > 1:
					res.Oracle = fmt.Sprintf("sent-again-after-accept: %s", strings.Join(takers, "; "))
				case len(takers) == 1 && lostSeen && cerr != nil:
					res.Oracle = fmt.Sprintf("accepted-reply-lost-reported-as-failure: %s took the transaction, the caller got %q", takers[0], errKind(cerr))
				}
			}
			// exactly one transaction reaches the chain on success
			if res.Oracle == "" && cerr == nil {
				nacc := 0
				for _, i := range raw {
					if c.outs[i] == "acc" {
						nacc++
					}
				}
				if nacc != 1 {
					res.Oracle = fmt.Sprintf("success-reported-but-%d-endpoints-accepted", nacc)
				}
			}
		}
		for _, i := range contacted {
			switch c.outs[i] {
			case "conn", "nonce", "closed":
				dead[i] = true
			}
		}
		for _, i := range raw {
			if c.outs[i] == "acc" || c.outs[i] == "lost" {
				pending[i]++
				st.RPC[i].SetNonce(pending[i])
			}
		}
		for _, o := range c.outs {
			if o != "acc" {
				res.Nontrivial = true
			}
		}
	}
	res.Impl = strings.Join(lines, " | ")
	res.Class = fmt.Sprintf("seq-n%d-calls%d-%s", n, len(calls), calls[0].name)
	if !res.Nontrivial {
		res.Nontrivial = boundaryArgs(calls)
	}
	return
}

// cc <k> <n0>: k state-changing calls issued CONCURRENTLY (k goroutines) on one real adaptor with one endpoint that
// counts every accepted transaction as pending (start: n0).  The request queue serialises them (ReqLoop → handleReq,
// one at a time): the accepted nonces must be n0 … n0+k-1, none reused, none skipped (review E #10: "serialised" was
// only ever seen as a model disagreement of a case written for F8).
func execCC(w []string) (res h.Result) {
	abis()
	k, n0 := h.Atoi(w[1]), uint64(h.Atoi(w[2]))
	res.Class = "cc"
	res.Nontrivial = k > 1
	st, err := chaindouble.NewStack(1, 1, big.NewInt(1), 5000000, 20000000000, nil)
	if err != nil {
		res.Impl = "connect-failed " + h.OneLine(err.Error())
		res.Oracle = "harness-connect-failed: " + h.OneLine(err.Error())
		return
	}
	defer st.Close()
	e := st.RPC[0]
	e.SetNonce(n0)
	e.SetAutoNonce(true)
	e.ResetRawTxs()
	var wg sync.WaitGroup
	var mu sync.Mutex
	nerr := 0
	start := make(chan struct{})
	for i := 0; i < k; i++ {
		wg.Add(1)
		go func(i int) {
			defer wg.Done()
			<-start
			var err error
			switch i % 3 {
			case 0:
				err = st.Adaptor.RegisterNewNode()
			case 1:
				err = st.Adaptor.SetGroupSize(uint64(3 + i))
			default:
				err = st.Adaptor.Commit(big.NewInt(int64(i)), [32]byte{byte(i)})
			}
			if err != nil {
				mu.Lock()
				nerr++
				mu.Unlock()
			}
		}(i)
	}
	close(start)
	wg.Wait()
	var nonces []int
	seen := map[uint64]int{}
	for _, raw := range e.RawTxs() {
		tx := new(types.Transaction)
		if err := tx.UnmarshalBinary(raw); err != nil {
			res.Oracle = "tx-undecodable"
			continue
		}
		nonces = append(nonces, int(tx.Nonce()))
		seen[tx.Nonce()]++
	}
	sort.Ints(nonces)
	res.Impl = fmt.Sprintf("nonces=%s errs=%d", csvInts(nonces), nerr)
	if res.Oracle == "" {
		for i := 0; i < k; i++ {
			n := n0 + uint64(i)
			switch {
			case seen[n] > 1:
				res.Oracle = fmt.Sprintf("concurrent-calls-nonce-reused: nonce %d carried by %d transactions of %d concurrent calls (%s)", n, seen[n], k, csvInts(nonces))
			case seen[n] == 0:
				res.Oracle = fmt.Sprintf("concurrent-calls-nonce-skipped: no transaction with nonce %d among %d concurrent calls (%s)", n, k, csvInts(nonces))
			}
			if res.Oracle != "" {
				break
			}
		}
		if res.Oracle == "" && (len(nonces) != k || nerr != 0) {
			res.Oracle = fmt.Sprintf("concurrent-calls-lost: %d calls, %d transactions, %d errors", k, len(nonces), nerr)
		}
	}
	return
}

func boundaryArgs(calls []callSpec) bool {
	for _, c := range calls {
		for _, a := range c.args {
			if strings.HasPrefix(a, "00") || strings.HasPrefix(a, "syn.") || a == "0" || a == "-" || len(a) >= 64 {
				return true
			}
		}
	}
	return false
}

// ---------------------------------------------------------------------------
// marshalling

func execSig(w []string) (res h.Result) {
	sig := h.UnHex(w[1])
	res.Class = "sig"
	res.Nontrivial = len(sig) >= 64 && (sig[0] == 0 || sig[32] == 0)
	func() {
		defer func() {
			if e := recover(); e != nil {
				res.Impl = "panic"
				if len(sig) >= 32 {
					res.Oracle = "toBigInt-panic: " + h.OneLine(fmt.Sprint(e))
				}
			}
		}()
		x, y := (&vss.Signature{Signature: sig}).ToBigInt()
		res.Impl = fmt.Sprintf("ok %s %s", x, y)
		if len(sig) == 64 {
			// round trip: the 32-byte big-endian words of x and y are the signature again
			var buf [64]byte
			xb, yb := x.Bytes(), y.Bytes()
			copy(buf[32-len(xb):32], xb)
			copy(buf[64-len(yb):], yb)
			if !bytes.Equal(buf[:], sig) {
				res.Oracle = "sig-roundtrip-differs"
			}
		}
	}()
	return
}

func execPK(w []string) (res h.Result) {
	mar := h.UnHex(w[1])
	res.Class = "pk"
	suite := suites.MustFind("bn256")
	p := suite.G2().Point()
	if err := p.UnmarshalBinary(mar); err != nil {
		res.Impl = "bad-point " + h.OneLine(err.Error())
		res.Class = "pk-badpoint"
		return
	}
	func() {
		defer func() {
			if e := recover(); e != nil {
				res.Impl = "panic"
			}
		}()
		c, err := dkg.VerifDecodePubKey(p)
		if err != nil {
			res.Impl = "err"
			return
		}
		res.Impl = fmt.Sprintf("ok %s %s %s %s", c[0], c[1], c[2], c[3])
		var got []byte
		for i := 0; i < 4; i++ {
			b := c[i].Bytes()
			got = append(got, make([]byte, 32-len(b))...)
			got = append(got, b...)
			if len(b) < 32 {
				res.Nontrivial = true
			}
		}
		// contract order (x.i, x.r, y.i, y.r) = the EVM pairing precompile's G2 encoding, which go-ethereum's bn256 implements
		if len(w) > 2 {
			k := h.BigDec(w[2])
			ref := new(ethbn.G2).ScalarBaseMult(k).Marshal()
			if !bytes.Equal(ref, got) {
				res.Oracle = "g2-coordinate-order-or-value-differs-from-evm-encoding"
			}
		}
		g := new(ethbn.G2)
		if _, err := g.Unmarshal(got); err != nil {
			res.Oracle = "g2-coordinates-not-a-valid-evm-point: " + err.Error()
		}
	}()
	return
}

// cfg <gasLimit> <gasPrice> <chainId> <op>…: a history on one real adaptor.  ops: gp:<v> SetGasPrice(v), gl:<v>
// SetGasLimit(v), re (DisconnectAll + Connect, what the node does when the chain connection is lost),
// tx:<outcomes> (RegisterNewNode with the endpoints scripted as in seq).  Every recorded raw transaction must
// carry the CURRENT configuration: the gas limit and gas price last set (price 0: the endpoint's suggestion),
// the configured chain id, the node key.
func execCfg(w []string) (res h.Result) {
	abis()
	gl, gp, cid := uint64(h.Atoi(w[1])), h.BigDec(w[2]), h.BigDec(w[3])
	n := 1
	for _, tok := range w[4:] {
		if strings.HasPrefix(tok, "tx:") {
			n = len(strings.Split(tok[3:], ","))
			break
		}
	}
	st, err := chaindouble.NewStack(n, 1, cid, gl, gp.Uint64(), nil)
	if err != nil {
		res.Impl = "connect-failed " + h.OneLine(err.Error())
		res.Oracle = "harness-connect-failed: " + h.OneLine(err.Error())
		return
	}
	defer st.Close()
	place := func() {
		for i, e := range st.RPC {
			e.SetNonce(uint64(7 + i))
			e.SetGasPrice(big.NewInt(int64(2000000000 + i)))
		}
	}
	place()
	// the configuration the operator has set, tracked here independently of adaptor and model
	curLimit, curPrice := gl, new(big.Int).Set(gp)
	dead := map[int]bool{}
	var lines []string
	ntx, nre := 0, 0
	for _, tok := range w[4:] {
		p := strings.SplitN(tok, ":", 2)
		switch p[0] {
		case "gp":
			v := h.BigDec(p[1])
			st.Adaptor.SetGasPrice(v)
			curPrice = v
		case "gl":
			v := h.BigDec(p[1])
			st.Adaptor.SetGasLimit(v)
			curLimit = v.Uint64()
		case "re":
			nre++
			if err := st.Reconnect(); err != nil {
				res.Impl = "reconnect-failed " + h.OneLine(err.Error())
				res.Oracle = "harness-reconnect-failed: " + h.OneLine(err.Error())
				return
			}
			place()
			dead = map[int]bool{}
		case "tx":
			ntx++
			outs := strings.Split(p[1], ",")
			for i, e := range st.RPC {
				script(e, outs[i])
				e.ResetCalls()
				e.ResetRawTxs()
			}
			cerr := st.Adaptor.RegisterNewNode()
			var contacted, raw []int
			var txs []string
			for i, e := range st.RPC {
				if len(e.Calls()) > 0 {
					contacted = append(contacted, i)
				}
				rts := e.RawTxs()
				if len(rts) == 0 {
					continue
				}
				raw = append(raw, i)
				tx := new(types.Transaction)
				if err := tx.UnmarshalBinary(rts[0]); err != nil {
					txs = append(txs, fmt.Sprintf("%d:undecodable", i))
					if res.Oracle == "" {
						res.Oracle = "tx-undecodable"
					}
					continue
				}
				from := "other"
				if snd, err := types.Sender(types.LatestSignerForChainID(tx.ChainId()), tx); err == nil && snd == st.Key.Address {
					from = "key"
				}
				txs = append(txs, fmt.Sprintf("%d:nonce=%d gas=%d price=%s chain=%s from=%s", i, tx.Nonce(), tx.Gas(), tx.GasPrice(), tx.ChainId(), from))
				if res.Oracle == "" {
					wantPrice := curPrice
					if curPrice.Sign() == 0 {
						wantPrice = big.NewInt(int64(2000000000 + i)) // what this endpoint suggests
					}
					switch {
					case tx.Gas() != curLimit:
						res.Oracle = fmt.Sprintf("tx-stale-gas-limit: transaction carries gas limit %d, the configured one is %d", tx.Gas(), curLimit)
					case tx.GasPrice().Cmp(wantPrice) != 0:
						res.Oracle = fmt.Sprintf("tx-stale-gas-price: transaction carries gas price %s, the configured one is %s (0 = endpoint-suggested, here %s)", tx.GasPrice(), curPrice, wantPrice)
					case tx.ChainId().Cmp(cid) != 0:
						res.Oracle = "tx-wrong-chain-id: " + tx.ChainId().String()
					case from != "key":
						res.Oracle = "tx-wrong-signer"
					case tx.To() == nil || *tx.To() != st.Proxy:
						res.Oracle = "tx-wrong-contract"
					}
				}
			}
			t := "-"
			if len(txs) > 0 {
				t = strings.Join(txs, ";")
			}
			lines = append(lines, fmt.Sprintf("err=%s contacted=%s raw=%s tx=%s", errKind(cerr), csvInts(contacted), csvInts(raw), t))
			if res.Oracle == "" {
				alive := false
				for i := range outs {
					if !dead[i] {
						alive = true
					}
				}
				if !alive {
					if len(contacted) > 0 {
						res.Oracle = "cancelled-endpoint-contacted"
					} else if cerr == nil {
						res.Oracle = "nil-error-nothing-sent: no live endpoint, call returned nil"
					}
				} else {
					norm := make([]string, len(outs))
					for i, o := range outs {
						switch o {
						case "conn":
							o = "nonce"
						case "hdr", "connsend":
							o = "other"
						}
						norm[i] = o
					}
					res.Oracle = failoverOracle(norm, contacted, nil, true, cerr == nil, cerr, dead)
				}
			}
			for _, i := range contacted {
				switch outs[i] {
				case "conn", "nonce", "closed":
					dead[i] = true
				}
			}
		default:
			panic("bad cfg op " + tok)
		}
	}
	res.Impl = strings.Join(lines, " | ")
	res.Class = fmt.Sprintf("cfg-n%d-re%d-tx%d", n, nre, ntx)
	res.Nontrivial = true
	return
}

type nullLogger struct{}

func (nullLogger) New(string, interface{}) replog.Logger               { return nullLogger{} }
func (nullLogger) AddField(string, interface{})                        {}
func (nullLogger) Debug(string)                                        {}
func (nullLogger) Info(string)                                         {}
func (nullLogger) Warn(string)                                         {}
func (nullLogger) Error(error)                                         {}
func (nullLogger) Fatal(error)                                         {}
func (nullLogger) TimeTrack(time.Time, string, map[string]interface{}) {}
func (nullLogger) Event(string, map[string]interface{})                {}

// cr <randSeed> <cid>: the node's commit-reveal glue (dosnode handleCR, through the hook VerifPHandleCR) on a real
// adaptor: it draws a secret below randSeed, commits a hash and reveals the secret.  On the two recorded raw
// transactions: commit before reveal, same cid, and commitment == keccak256(32-byte big-endian word of the secret
// the reveal carries) — what the contract will check.  (CommitDuration 2^64-1 makes the code's wait
// `CommitDuration.Uint64()+1` blocks equal 0.)
func execCR(w []string) (res h.Result) {
	abis()
	seed, cid := h.BigDec(w[1]), h.BigDec(w[2])
	res.Class = "cr"
	res.Nontrivial = true
	st, err := chaindouble.NewStack(1, 1, big.NewInt(1), 5000000, 1000000000, nil)
	if err != nil {
		res.Impl = "connect-failed " + h.OneLine(err.Error())
		res.Oracle = "harness-connect-failed: " + h.OneLine(err.Error())
		return
	}
	defer st.Close()
	node := dosnode.VerifNewNode(nil, nil, st.Adaptor, nil, 0, nullLogger{})
	ev := &onchain.LogStartCommitReveal{Cid: cid, StartBlock: big.NewInt(99), // the double's head is block 100
		CommitDuration: new(big.Int).SetUint64(^uint64(0)), RevealDuration: big.NewInt(0), RevealThreshold: big.NewInt(1)}
	node.VerifPHandleCR(ev, seed)
	raws := st.RPC[0].RawTxs()
	var names, cids []string
	var commitment []byte
	var secret *big.Int
	for _, raw := range raws {
		_, tx, args, name := describeTx(raw, st)
		if tx == nil {
			names = append(names, "undecodable")
			continue
		}
		if tx.To() == nil || *tx.To() != st.CR {
			name = "notcr:" + name
		}
		names = append(names, name)
		nums, _, b32 := flatArgs(args)
		if len(nums) > 0 {
			cids = append(cids, nums[0].String())
		}
		switch name {
		case "commit":
			commitment = b32
		case "reveal":
			if len(nums) > 1 {
				secret = nums[1]
			}
		}
	}
	match := false
	lz := 0
	if secret != nil && commitment != nil {
		word := make([]byte, 32)
		sb := secret.Bytes()
		copy(word[32-len(sb):], sb)
		lz = 32 - len(sb)
		match = bytes.Equal(crypto.Keccak256(word), commitment)
	}
	res.Impl = fmt.Sprintf("txs=%s cid=%s match=%v", strings.Join(names, ","), strings.Join(cids, ","), match)
	if seed.Cmp(big.NewInt(1)) == 0 {
		res.Impl += " commitment=" + h.Hex(commitment)
	}
	want := new(big.Int).Mod(cid, new(big.Int).Lsh(big.NewInt(1), 256)).String()
	switch {
	case strings.Join(names, ",") != "commit,reveal":
		res.Oracle = "commit-reveal-sequence: transactions sent: " + strings.Join(names, ",")
	case len(cids) != 2 || cids[0] != want || cids[1] != want:
		res.Oracle = "commit-reveal-cid-differs: " + strings.Join(cids, ",") + " want " + want
	case !match:
		res.Oracle = fmt.Sprintf("commit-hash-not-of-reveal-word: commitment %s is not keccak256 of the 32-byte word of the secret %s the reveal carries (%d leading zero bytes)", h.Hex(commitment), secret, lz)
	}
	res.Class = fmt.Sprintf("cr-lz%d", lz/8*8)
	return
}

// race <n>: the F8 situation through the public API.  Request A is being handled (endpoint 0 holds its
// nonce lookup), request B passes the isConnecting check and queues; A then fails on every endpoint with a
// nonce error, which cancels them all; B is handled with every endpoint context done.
func execRace(w []string) (res h.Result) {
	n := h.Atoi(w[1])
	st, err := chaindouble.NewStack(n, 1, big.NewInt(1), 5000000, 1000000000, nil)
	if err != nil {
		res.Impl = "connect-failed"
		res.Oracle = "harness-connect-failed: " + h.OneLine(err.Error())
		return
	}
	defer st.Close()
	hold := make(chan struct{})
	for i, e := range st.RPC {
		o := chaindouble.Outcome{Err: "nonce lookup failed: database closed"}
		if i == 0 {
			o.Hold = hold
		}
		e.Script("eth_getTransactionCount", o)
		e.ResetCalls()
		e.ResetRawTxs()
	}
	ra, rb := make(chan error, 1), make(chan error, 1)
	go func() { ra <- st.Adaptor.RegisterNewNode() }()
	st.RPC[0].WaitCall("eth_getTransactionCount", 1) // A is inside handleReq
	go func() { rb <- st.Adaptor.RegisterNewNode() }()
	buf := make([]byte, 1<<20)
	for { // until both callers are inside waitForReply (B has passed isConnecting and waits for the queue)
		k := runtime.Stack(buf, true)
		if strings.Count(string(buf[:k]), "onchain.(*ethAdaptor).waitForReply") >= 2 {
			break
		}
		runtime.Gosched()
	}
	close(hold)
	ea, eb := <-ra, <-rb
	sent := 0
	for _, e := range st.RPC {
		sent += len(e.RawTxs())
	}
	res.Impl = fmt.Sprintf("A=%s B=%s sent=%d", errKind(ea), errKind(eb), sent)
	if eb == nil {
		res.Oracle = "nil-error-nothing-sent: request queued behind the one that cancelled the last endpoint returned nil, no transaction was sent"
	} else if ea == nil {
		res.Oracle = "nil-error-without-accept"
	}
	res.Class = "race"
	res.Nontrivial = true
	return
}

// sel: the 4-byte selector go-ethereum derives from the binding's embedded ABI for each of the ten queue methods;
// oracle: it is keccak256(reference signature)[:4].
func execSel() (res h.Result) {
	abis()
	var parts []string
	for _, name := range refOrder {
		m, ok := proxyABI.Methods[name]
		if !ok {
			m, ok = crABI.Methods[name]
		}
		if !ok {
			parts = append(parts, name+"=missing")
			if res.Oracle == "" {
				res.Oracle = "binding-lacks-method: " + name
			}
			continue
		}
		parts = append(parts, name+"="+h.Hex(m.ID))
		want := crypto.Keccak256([]byte(ref().Methods[name].Sig))[:4]
		if !bytes.Equal(m.ID, want) && res.Oracle == "" {
			res.Oracle = fmt.Sprintf("binding-selector-differs: %s: binding %s (%s), contract %s (%s)", name, h.Hex(m.ID), m.Sig, h.Hex(want), ref().Methods[name].Sig)
		}
	}
	res.Impl = strings.Join(parts, " ")
	res.Class = "sel"
	res.Nontrivial = true
	return
}

func exec(line string) (res h.Result) {
	silence()
	w := strings.Fields(line)
	switch w[0] {
	case "sel":
		return execSel()
	case "hr":
		return execHR(w)
	case "seq":
		return execSeq(w)
	case "cc":
		return execCC(w)
	case "grp":
		return execGrp(w)
	case "rgk":
		return execRgk(w)
	case "sig":
		return execSig(w)
	case "pk":
		return execPK(w)
	case "race":
		return execRace(w)
	case "cfg":
		return execCfg(w)
	case "cr":
		return execCR(w)
	}
	panic("bad case line")
}

/-
C20 (round 4) — table selection of ge.go: cached / precomputed Zero, Neg, CMove (per-method specs in the style of
Proofs/GeSpec3.lean: multiplier analysis decided on the regenerated body, limb run vs field run of the SAME body),
the bit tricks `equal`, `negative`, `bAbs`, and `selectCached` / `selectPreComputed`: for a digit b ∈ [−8, 8] the
constant-time selection returns (a representation of) b • A.
-/
import Mathlib.Algebra.Order.Group.Abs
import Mathlib.Algebra.Order.Ring.Abs
import Mathlib.Algebra.Order.Ring.Int
import Mathlib.Tactic.IntervalCases
import DosModel.Proofs.GeSpec3

set_option exponentiation.threshold 600

namespace Dos.Ge
open Dos Dos.Ed25519 Dos.FeProg Dos.FeOps Dos.GeProg Dos.Ed25519Prime Dos.Edwards Dos.Gen.Ed25519Ge

theorem pre3_fields (r : List L10) (o : Nat) : (pre3 r o).yPlusX = r.getD o zero10
    ∧ (pre3 r o).yMinusX = r.getD (o + 1) zero10 ∧ (pre3 r o).xy2d = r.getD (o + 2) zero10 := ⟨rfl, rfl, rfl⟩

theorem cachedRel {q : Cached} {Q : Pt} (hq : GoodCached q Q) :
    RegRel [some 3, some 3, some 1, some 1] q.regs [val q.yPlusX, val q.yMinusX, val q.Z, val q.T2d] :=
  regRel_some (R_val hq.bP) (regRel_some (R_val hq.bM) (regRel_some (R_val hq.bZ) (regRel_some (R_val hq.bT) regRel_nil)))

theorem preRelV {q : Pre} {Q : Pt} (hq : GoodPre q Q) :
    RegRel [some 1, some 1, some 1] q.regs [val q.yPlusX, val q.yMinusX, val q.xy2d] :=
  regRel_some (R_val hq.bP) (regRel_some (R_val hq.bM) (regRel_some (R_val hq.bD) regRel_nil))

/-- a cached element whose four limb vectors stand for the same field elements as those of a good one is good -/
theorem goodCached_of_R {c q : Cached} {Q : Pt} (hq : GoodCached q Q) (h0 : R 3 c.yPlusX (val q.yPlusX))
    (h1 : R 3 c.yMinusX (val q.yMinusX)) (h2 : R 1 c.Z (val q.Z)) (h3 : R 1 c.T2d (val q.T2d)) : GoodCached c Q := by
  obtain ⟨X, Y, T, e1, e2, e3, hz, hxy, hx, hy⟩ := hq.rep
  exact
    { bP := h0.1, bM := h1.1, bZ := h2.1, bT := h3.1
      rep := ⟨X, Y, T, by rw [h0.2]; exact e1, by rw [h1.2]; exact e2, by rw [h3.2]; exact e3,
        by rw [h2.2]; exact hz, by rw [h2.2]; exact hxy, by rw [h2.2]; exact hx, by rw [h2.2]; exact hy⟩ }

theorem goodPre_of_R {c q : Pre} {Q : Pt} (hq : GoodPre q Q) (h0 : R 1 c.yPlusX (val q.yPlusX))
    (h1 : R 1 c.yMinusX (val q.yMinusX)) (h2 : R 1 c.xy2d (val q.xy2d)) : GoodPre c Q :=
  { bP := h0.1, bM := h1.1, bD := h2.1
    hp := by rw [h0.2]; exact hq.hp
    hm := by rw [h1.2]; exact hq.hm
    hd := by rw [h2.2]; exact hq.hd }

/-! ### cached: Zero, Neg, CMove -/

theorem cachedZero_spec : GoodCached cachedZero (0 : Pt) := by
  have hrel := junk4Rel 0 0 0 0
  rw [← flatten1 junk4] at hrel
  obtain ⟨_, _, hget⟩ := call_refines cached_Zero [junk4] 0 0 (Or.inl rfl) hrel
    (M1 := [some 1, some 1, some 1, some 1, some 1, some 1, some 1]) (by decide)
  generalize hX : runBody fieldAlg 0 (seqBases cached_Zero.objs 0) 0 cached_Zero.body _ = X1 at hget
  have v0 : X1.getD 0 0 = 1 := by rw [← hX]; rfl
  have v1 : X1.getD 1 0 = 1 := by rw [← hX]; rfl
  have v2 : X1.getD 2 0 = 1 := by rw [← hX]; rfl
  have v3 : X1.getD 3 0 = 0 := by rw [← hX]; rfl
  have r0 := hget 0 1 (by decide)
  have r1 := hget 1 1 (by decide)
  have r2 := hget 2 1 (by decide)
  have r3 := hget 3 1 (by decide)
  rw [v0] at r0; rw [v1] at r1; rw [v2] at r2; rw [v3] at r3
  obtain ⟨eX, eY, eZ, eT⟩ := cached4_fields (call cached_Zero [junk4] 0 0) 0
  unfold cachedZero
  rw [← eX] at r0; rw [← eY] at r1; rw [← eZ] at r2; rw [← eT] at r3
  exact
    { bP := b3 r0 (by omega), bM := b3 r1 (by omega), bZ := r2.1, bT := r3.1
      rep := ⟨0, 1, 0, by rw [r0.2]; ring, by rw [r1.2]; ring, by rw [r3.2]; ring, by rw [r2.2]; exact one_ne_zero,
        by rw [r2.2]; ring, by rw [r2.2]; simp, by rw [r2.2]; simp⟩ }

theorem cachedNeg_spec {t : Cached} {P : Pt} (ht : GoodCached t P) : GoodCached (cachedNeg t) (-P) := by
  have hrel := RegRel.append (junk4Rel 0 0 0 0) (cachedRel ht)
  rw [← flatten2] at hrel
  obtain ⟨_, _, hget⟩ := call_refines cached_Neg [junk4, t.regs] 0 0 (Or.inl rfl) hrel
    (M1 := [some 3, some 3, some 1, some 1, some 3, some 3, some 1, some 1, some 1, some 1, some 1]) (by decide)
  generalize hX : runBody fieldAlg 0 (seqBases cached_Neg.objs 0) 0 cached_Neg.body _ = X1 at hget
  have v0 : X1.getD 0 0 = val t.yMinusX := by rw [← hX]; rfl
  have v1 : X1.getD 1 0 = val t.yPlusX := by rw [← hX]; rfl
  have v2 : X1.getD 2 0 = val t.Z := by rw [← hX]; rfl
  have v3 : X1.getD 3 0 = -val t.T2d := by rw [← hX]; rfl
  have r0 := hget 0 3 (by decide)
  have r1 := hget 1 3 (by decide)
  have r2 := hget 2 1 (by decide)
  have r3 := hget 3 1 (by decide)
  rw [v0] at r0; rw [v1] at r1; rw [v2] at r2; rw [v3] at r3
  obtain ⟨eX, eY, eZ, eT⟩ := cached4_fields (call cached_Neg [junk4, t.regs] 0 0) 0
  unfold cachedNeg
  rw [← eX] at r0; rw [← eY] at r1; rw [← eZ] at r2; rw [← eT] at r3
  obtain ⟨X, Y, T, e1, e2, e3, hz, hxy, hx, hy⟩ := ht.rep
  obtain ⟨f1, f2, f3⟩ := neg_rep hz hxy hx hy
  exact
    { bP := r0.1, bM := r1.1, bZ := r2.1, bT := r3.1
      rep := ⟨-X, Y, -T, by rw [r0.2, e2]; ring, by rw [r1.2, e1]; ring, by rw [r3.2, e3]; ring,
        by rw [r2.2]; exact hz, by rw [r2.2]; exact f1, by rw [r2.2]; exact f2, by rw [r2.2]; exact f3⟩ }

theorem cachedCMove_spec {r u : Cached} {P Q : Pt} (hr : GoodCached r P) (hu : GoodCached u Q) {b : Int}
    (hb : b = 0 ∨ b = 1) : GoodCached (cachedCMove r u b) (if b = 1 then Q else P) := by
  have hrel := RegRel.append (cachedRel hr) (cachedRel hu)
  rw [← flatten2] at hrel
  obtain ⟨_, _, hget⟩ := call_refines cached_CMove [r.regs, u.regs] 0 b hb hrel
    (M1 := [some 3, some 3, some 1, some 1, some 3, some 3, some 1, some 1, some 1, some 1, some 1]) (by decide)
  generalize hX : runBody fieldAlg 0 (seqBases cached_CMove.objs 0) b cached_CMove.body _ = X1 at hget
  have v0 : X1.getD 0 0 = if b = 1 then val u.yPlusX else val r.yPlusX := by rw [← hX]; rfl
  have v1 : X1.getD 1 0 = if b = 1 then val u.yMinusX else val r.yMinusX := by rw [← hX]; rfl
  have v2 : X1.getD 2 0 = if b = 1 then val u.Z else val r.Z := by rw [← hX]; rfl
  have v3 : X1.getD 3 0 = if b = 1 then val u.T2d else val r.T2d := by rw [← hX]; rfl
  have r0 := hget 0 3 (by decide)
  have r1 := hget 1 3 (by decide)
  have r2 := hget 2 1 (by decide)
  have r3 := hget 3 1 (by decide)
  rw [v0] at r0; rw [v1] at r1; rw [v2] at r2; rw [v3] at r3
  obtain ⟨eX, eY, eZ, eT⟩ := cached4_fields (call cached_CMove [r.regs, u.regs] 0 b) 0
  unfold cachedCMove
  rw [← eX] at r0; rw [← eY] at r1; rw [← eZ] at r2; rw [← eT] at r3
  by_cases h1 : b = 1
  · rw [if_pos h1] at r0 r1 r2 r3 ⊢
    exact goodCached_of_R hu r0 r1 r2 r3
  · rw [if_neg h1] at r0 r1 r2 r3 ⊢
    exact goodCached_of_R hr r0 r1 r2 r3

/-! ### precomputed: Zero, Neg, CMove -/

theorem preZero_spec : GoodPre preZero (0 : Pt) := by
  have hrel := junk3Rel 0 0 0
  rw [← flatten1 junk3] at hrel
  obtain ⟨_, _, hget⟩ := call_refines precomp_Zero [junk3] 0 0 (Or.inl rfl) hrel
    (M1 := [some 1, some 1, some 1, some 1, some 1, some 1]) (by decide)
  generalize hX : runBody fieldAlg 0 (seqBases precomp_Zero.objs 0) 0 precomp_Zero.body _ = X1 at hget
  have v0 : X1.getD 0 0 = 1 := by rw [← hX]; rfl
  have v1 : X1.getD 1 0 = 1 := by rw [← hX]; rfl
  have v2 : X1.getD 2 0 = 0 := by rw [← hX]; rfl
  have r0 := hget 0 1 (by decide)
  have r1 := hget 1 1 (by decide)
  have r2 := hget 2 1 (by decide)
  rw [v0] at r0; rw [v1] at r1; rw [v2] at r2
  obtain ⟨eX, eY, eZ⟩ := pre3_fields (call precomp_Zero [junk3] 0 0) 0
  unfold preZero
  rw [← eX] at r0; rw [← eY] at r1; rw [← eZ] at r2
  exact
    { bP := r0.1, bM := r1.1, bD := r2.1
      hp := by rw [r0.2]; simp
      hm := by rw [r1.2]; simp
      hd := by rw [r2.2]; simp }

theorem preNeg_spec {t : Pre} {P : Pt} (ht : GoodPre t P) : GoodPre (preNeg t) (-P) := by
  have hrel := RegRel.append (junk3Rel 0 0 0) (preRelV ht)
  rw [← flatten2] at hrel
  obtain ⟨_, _, hget⟩ := call_refines precomp_Neg [junk3, t.regs] 0 0 (Or.inl rfl) hrel
    (M1 := [some 1, some 1, some 1, some 1, some 1, some 1, some 1, some 1, some 1]) (by decide)
  generalize hX : runBody fieldAlg 0 (seqBases precomp_Neg.objs 0) 0 precomp_Neg.body _ = X1 at hget
  have v0 : X1.getD 0 0 = val t.yMinusX := by rw [← hX]; rfl
  have v1 : X1.getD 1 0 = val t.yPlusX := by rw [← hX]; rfl
  have v2 : X1.getD 2 0 = -val t.xy2d := by rw [← hX]; rfl
  have r0 := hget 0 1 (by decide)
  have r1 := hget 1 1 (by decide)
  have r2 := hget 2 1 (by decide)
  rw [v0] at r0; rw [v1] at r1; rw [v2] at r2
  obtain ⟨eX, eY, eZ⟩ := pre3_fields (call precomp_Neg [junk3, t.regs] 0 0) 0
  unfold preNeg
  rw [← eX] at r0; rw [← eY] at r1; rw [← eZ] at r2
  exact
    { bP := r0.1, bM := r1.1, bD := r2.1
      hp := by rw [r0.2, ht.hm, neg_x, neg_y]; ring
      hm := by rw [r1.2, ht.hp, neg_x, neg_y]; ring
      hd := by rw [r2.2, ht.hd, neg_x, neg_y]; ring }

theorem preCMove_spec {r u : Pre} {P Q : Pt} (hr : GoodPre r P) (hu : GoodPre u Q) {b : Int}
    (hb : b = 0 ∨ b = 1) : GoodPre (preCMove r u b) (if b = 1 then Q else P) := by
  have hrel := RegRel.append (preRelV hr) (preRelV hu)
  rw [← flatten2] at hrel
  obtain ⟨_, _, hget⟩ := call_refines precomp_CMove [r.regs, u.regs] 0 b hb hrel
    (M1 := [some 1, some 1, some 1, some 1, some 1, some 1, some 1, some 1, some 1]) (by decide)
  generalize hX : runBody fieldAlg 0 (seqBases precomp_CMove.objs 0) b precomp_CMove.body _ = X1 at hget
  have v0 : X1.getD 0 0 = if b = 1 then val u.yPlusX else val r.yPlusX := by rw [← hX]; rfl
  have v1 : X1.getD 1 0 = if b = 1 then val u.yMinusX else val r.yMinusX := by rw [← hX]; rfl
  have v2 : X1.getD 2 0 = if b = 1 then val u.xy2d else val r.xy2d := by rw [← hX]; rfl
  have r0 := hget 0 1 (by decide)
  have r1 := hget 1 1 (by decide)
  have r2 := hget 2 1 (by decide)
  rw [v0] at r0; rw [v1] at r1; rw [v2] at r2
  obtain ⟨eX, eY, eZ⟩ := pre3_fields (call precomp_CMove [r.regs, u.regs] 0 b) 0
  unfold preCMove
  rw [← eX] at r0; rw [← eY] at r1; rw [← eZ] at r2
  by_cases h1 : b = 1
  · rw [if_pos h1] at r0 r1 r2 ⊢
    exact goodPre_of_R hu r0 r1 r2
  · rw [if_neg h1] at r0 r1 r2 ⊢
    exact goodPre_of_R hr r0 r1 r2

/-! ### the bit tricks -/

theorem u32_inj {b c : Int} (hb : I32 b) (hc : I32 c) (h : u32 b = u32 c) : b = c := by
  rw [← s32_u32 b hb, ← s32_u32 c hc, h]

theorem nat_eq_of_xor_eq_zero {x y : Nat} (h : x ^^^ y = 0) : x = y := by
  have h1 : x ^^^ (x ^^^ y) = y := by rw [← Nat.xor_assoc, Nat.xor_self, Nat.zero_xor]
  rw [h, Nat.xor_zero] at h1
  exact h1

/-- `equal(b, c)` = 1 if b = c, else 0 — for all NON-NEGATIVE int32 (the code calls it on 0 ≤ bAbs ≤ 8 and 1 … 8).
(For operands of different sign `b ^ c` has its top bit set and the Go function returns 1: e.g. equal(−1, 0) = 1.) -/
theorem equal_spec31 (b c : Int) (hb : 0 ≤ b ∧ b ≤ 2147483647) (hc : 0 ≤ c ∧ c ≤ 2147483647) :
    equal b c = if b = c then 1 else 0 := by
  unfold equal xor32
  have hb' : u32 b < 2147483648 := by unfold u32; omega
  have hc' : u32 c < 2147483648 := by unfold u32; omega
  have hx : u32 b ^^^ u32 c < 2147483648 := Nat.xor_lt_two_pow (n := 31) hb' hc'
  simp only [u32_s32 _ (by omega : u32 b ^^^ u32 c < 4294967296)]
  by_cases h : b = c
  · subst h
    rw [Nat.xor_self, if_pos rfl]
    rfl
  · rw [if_neg h]
    have hne : u32 b ^^^ u32 c ≠ 0 := by
      intro h0
      exact h (u32_inj (by unfold I32; omega) (by unfold I32; omega) (nat_eq_of_xor_eq_zero h0))
    have : ((u32 b ^^^ u32 c) + 4294967295) % 4294967296 / 2147483648 = 0 := by omega
    rw [this]
    rfl

theorem equal_spec (b c : Int) (hb : 0 ≤ b ∧ b ≤ 255) (hc : 0 ≤ c ∧ c ≤ 255) : equal b c = if b = c then 1 else 0 :=
  equal_spec31 b c (by omega) (by omega)

/-- the Go `equal` is NOT equality on operands of different sign -/
theorem equal_mixed_sign : equal (-1) 0 = 1 := by decide

theorem shrI_31 (b : Int) (h : I32 b) : shrI b 31 = if b < 0 then -1 else 0 := by
  unfold shrI I32 at *
  rw [Int.shiftRight_eq_div_pow]
  split <;> omega

theorem negative_spec (b : Int) (h : -2147483648 ≤ b ∧ b ≤ 2147483647) : negative b = if b < 0 then 1 else 0 := by
  unfold negative
  rw [shrI_31 b h]
  split
  · decide
  · decide

/-- `bAbs := b − (((−bNegative) & b) << 1)` is |b| — for all int32 in the unbounded model of `<<` -/
theorem absOf_spec32 (b : Int) (h : I32 b) : absOf b = |b| := by
  unfold absOf
  rw [negative_spec b h]
  unfold and32 shl
  by_cases hneg : b < 0
  · rw [if_pos hneg]
    have h1 : u32 (-1) = 4294967295 := by decide
    have ha : 4294967295 &&& u32 b = u32 b := by
      rw [Nat.and_comm]
      have : (4294967295 : Nat) = 2 ^ 32 - 1 := by decide
      rw [this, Nat.and_two_pow_sub_one_eq_mod]
      exact Nat.mod_eq_of_lt (u32_lt b)
    rw [h1, ha, s32_u32 b h, abs_of_neg hneg]
    ring
  · rw [if_neg hneg]
    have h0 : u32 (-0) = 0 := by decide
    have hs : s32 0 = 0 := by decide
    rw [h0, Nat.zero_and, hs, abs_of_nonneg (by omega)]
    ring

theorem absOf_spec (b : Int) (h : -128 ≤ b ∧ b ≤ 127) : absOf b = |b| :=
  absOf_spec32 b (by unfold I32; omega)

/-! ### selection -/

/-- the selection loop: after the first `n` table entries the accumulator is m • A if 1 ≤ m ≤ n, the identity
otherwise (m = bAbs) -/
theorem selectCached_loop (ai : List Cached) (A : Pt)
    (h : ∀ i, i < 8 → GoodCached (ai.getD i default) ((i + 1) • A)) (m : Nat) (hm8 : m ≤ 8) (n : Nat) (hn : n ≤ 8) :
    GoodCached ((List.range n).foldl (fun c i => cachedCMove c (ai.getD i default) (equal (m : Int) (i + 1))) cachedZero)
      (if m ≤ n then m • A else 0) := by
  induction n with
  | zero =>
    simp only [List.range_zero, List.foldl_nil]
    by_cases hm : m ≤ 0
    · rw [if_pos hm]
      have : m = 0 := by omega
      subst this
      rw [zero_smul]; exact cachedZero_spec
    · rw [if_neg hm]; exact cachedZero_spec
  | succ n ih =>
    have ih := ih (by omega)
    rw [List.range_succ, List.foldl_append]
    simp only [List.foldl_cons, List.foldl_nil]
    have he : equal (m : Int) ((n : Int) + 1) = if (m : Int) = (n : Int) + 1 then 1 else 0 :=
      equal_spec _ _ (by omega) (by omega)
    have hb : equal (m : Int) ((n : Int) + 1) = 0 ∨ equal (m : Int) ((n : Int) + 1) = 1 := by
      rw [he]; split <;> simp
    have := cachedCMove_spec ih (h n (by omega)) hb
    rw [he] at this ⊢
    by_cases hmn1 : m = n + 1
    · have e1 : (m : Int) = (n : Int) + 1 := by omega
      rw [if_pos e1, if_pos rfl] at this
      have hmA : m • A = (n + 1) • A := by rw [hmn1]
      rw [if_pos e1, if_pos (by omega), hmA]
      exact this
    · have e1 : ¬ (m : Int) = (n : Int) + 1 := by omega
      rw [if_neg e1, if_neg (by decide)] at this
      rw [if_neg e1]
      by_cases hle : m ≤ n
      · rw [if_pos hle] at this; rw [if_pos (by omega)]; exact this
      · rw [if_neg hle] at this; rw [if_neg (by omega)]; exact this

/-- the digit as sign and magnitude -/
theorem digit_cases (b : Int) (hb : -8 ≤ b ∧ b ≤ 8) :
    ∃ m : Nat, m ≤ 8 ∧ absOf b = (m : Int) ∧ ((b < 0 ∧ b = -(m : Int)) ∨ (¬ b < 0 ∧ b = (m : Int))) := by
  refine ⟨b.natAbs, by omega, ?_, by omega⟩
  rw [absOf_spec b (by omega)]
  exact Int.abs_eq_natAbs b

/-- **selectCached**: for a digit b ∈ [−8, 8] and the table [1A, …, 8A] the result represents b • A -/
theorem selectCached_spec (ai : List Cached) (A : Pt) (hai : ai.length = 8)
    (h : ∀ i, i < 8 → GoodCached (ai.getD i default) ((i + 1) • A)) (b : Int) (hb : -8 ≤ b ∧ b ≤ 8) :
    GoodCached (selectCached ai b) (b • A) := by
  have _ := hai
  obtain ⟨m, hm8, habs, hsign⟩ := digit_cases b hb
  unfold selectCached
  simp only
  rw [habs, negative_spec b (by omega)]
  have hc := selectCached_loop ai A h m hm8 8 (le_refl 8)
  rw [if_pos hm8] at hc
  rcases hsign with ⟨hneg, e⟩ | ⟨hneg, e⟩
  · rw [if_pos hneg]
    have := cachedCMove_spec hc (cachedNeg_spec hc) (b := 1) (Or.inr rfl)
    rw [if_pos rfl] at this
    rw [e, neg_smul, natCast_zsmul]
    exact this
  · rw [if_neg hneg]
    have := cachedCMove_spec hc (cachedNeg_spec hc) (b := 0) (Or.inl rfl)
    rw [if_neg (by decide)] at this
    rw [e, natCast_zsmul]
    exact this

theorem selectPre_loop (pos : Nat) (Q : Pt)
    (hrow : ∀ j, j < 8 → GoodPre (preOf ((Gen.Ed25519GeTable.c_base.getD pos []).getD j [])) ((j + 1) • Q))
    (m : Nat) (hm8 : m ≤ 8) (n : Nat) (hn : n ≤ 8) :
    GoodPre ((List.range n).foldl (fun t i => preCMove t (preOf ((Gen.Ed25519GeTable.c_base.getD pos []).getD i []))
        (equal (m : Int) (i + 1))) preZero)
      (if m ≤ n then m • Q else 0) := by
  induction n with
  | zero =>
    simp only [List.range_zero, List.foldl_nil]
    by_cases hm : m ≤ 0
    · rw [if_pos hm]
      have : m = 0 := by omega
      subst this
      rw [zero_smul]; exact preZero_spec
    · rw [if_neg hm]; exact preZero_spec
  | succ n ih =>
    have ih := ih (by omega)
    rw [List.range_succ, List.foldl_append]
    simp only [List.foldl_cons, List.foldl_nil]
    have he : equal (m : Int) ((n : Int) + 1) = if (m : Int) = (n : Int) + 1 then 1 else 0 :=
      equal_spec _ _ (by omega) (by omega)
    have hb : equal (m : Int) ((n : Int) + 1) = 0 ∨ equal (m : Int) ((n : Int) + 1) = 1 := by
      rw [he]; split <;> simp
    have := preCMove_spec ih (hrow n (by omega)) hb
    rw [he] at this ⊢
    by_cases hmn1 : m = n + 1
    · have e1 : (m : Int) = (n : Int) + 1 := by omega
      rw [if_pos e1, if_pos rfl] at this
      have hmA : m • Q = (n + 1) • Q := by rw [hmn1]
      rw [if_pos e1, if_pos (by omega), hmA]
      exact this
    · have e1 : ¬ (m : Int) = (n : Int) + 1 := by omega
      rw [if_neg e1, if_neg (by decide)] at this
      rw [if_neg e1]
      by_cases hle : m ≤ n
      · rw [if_pos hle] at this; rw [if_pos (by omega)]; exact this
      · rw [if_neg hle] at this; rw [if_neg (by omega)]; exact this

/-- **selectPreComputed**: for a digit b ∈ [−8, 8] and a table row [1Q, …, 8Q] the result represents b • Q -/
theorem selectPreComputed_spec (pos : Nat) (Q : Pt)
    (hrow : ∀ j, j < 8 → GoodPre (preOf ((Gen.Ed25519GeTable.c_base.getD pos []).getD j [])) ((j + 1) • Q))
    (b : Int) (hb : -8 ≤ b ∧ b ≤ 8) : GoodPre (selectPreComputed pos b) (b • Q) := by
  obtain ⟨m, hm8, habs, hsign⟩ := digit_cases b hb
  unfold selectPreComputed
  simp only
  rw [habs, negative_spec b (by omega)]
  have hc := selectPre_loop pos Q hrow m hm8 8 (le_refl 8)
  rw [if_pos hm8] at hc
  rcases hsign with ⟨hneg, e⟩ | ⟨hneg, e⟩
  · rw [if_pos hneg]
    have := preCMove_spec hc (preNeg_spec hc) (b := 1) (Or.inr rfl)
    rw [if_pos rfl] at this
    rw [e, neg_smul, natCast_zsmul]
    exact this
  · rw [if_neg hneg]
    have := preCMove_spec hc (preNeg_spec hc) (b := 0) (Or.inl rfl)
    rw [if_neg (by decide)] at this
    rw [e, natCast_zsmul]
    exact this

end Dos.Ge

/-
C16, "the key presented in the handshake" — what the handshake of p2p/client.go binds (round 5).

Property theorems only.  Model `Model/P2PHandshake.lean` (ideal Diffie–Hellman: a point is computable
exactly by the holders of one of its two secrets).  The property is stated relative to "the key
presented in the handshake", so an adversary ACTIVE during the handshake is outside it; these theorems
say precisely what that phrase buys and what it does not:

* the session key is shared with the holder of the PRESENTED key's secret and with nobody else;
* the announced id is bound to NOTHING (not to the key, not to the address): whoever has any key pair
  can announce any id but the receiver's own — also the id of another member, also the empty id;
* a man in the middle who substitutes the two public keys completes both handshakes, knows both
  session keys, and each end attributes the connection to the other's id.
-/
import DosModel.Model.P2PHandshake

namespace Dos.Props.C16Handshake
open Dos Dos.P2PHandshake

/-- **both ends derive the same point** (hence the same AES key and the same GCM nonce, in both
directions, for the whole connection) when each receives the other's honest ID frame -/
theorem handshake_agrees (idA idB : Bytes) (a b : Nat) (hne : idA ≠ idB) :
    ∃ p, receiveID idA a (sendID idB b) = .ok { remoteID := idB, remotePub := b, point := p } ∧
         receiveID idB b (sendID idA a) = .ok { remoteID := idA, remotePub := a, point := p } := by
  refine ⟨dh a b, ?_, ?_⟩
  · simp [receiveID, sendID, hne.symm]
  · have : dh b a = dh a b := by
      unfold dh
      by_cases h1 : a ≤ b
      · by_cases h2 : b ≤ a
        · have hab : a = b := Nat.le_antisymm h1 h2
          subst hab; rfl
        · simp [h1, h2]
      · have h2 : b ≤ a := by omega
        simp [h1, h2]
    simp [receiveID, sendID, hne, this]

example : receiveID [0x41] 1 (sendID [0x42] 2) = .ok { remoteID := [0x42], remotePub := 2, point := ⟨1, 2⟩ } ∧
    receiveID [0x42] 2 (sendID [0x41] 1) = .ok { remoteID := [0x41], remotePub := 1, point := ⟨1, 2⟩ } := by decide

/-- **the session key is bound to the presented key**: whenever receiveID accepts, the point it cuts key
and nonce from is computable by exactly those who hold the receiver's own secret or the secret of the
key that was PRESENTED — and later packets are verified under that same presented key. -/
theorem session_key_shared_only_with_presenter (localID : Bytes) (localSec : Nat) (f : First) (s : Session)
    (h : receiveID localID localSec f = .ok s) (secrets : List Nat) :
    Knows secrets s.point ↔ (localSec ∈ secrets ∨ s.remotePub ∈ secrets) := by
  cases f with
  | malformed => simp [receiveID] at h
  | notID => simp [receiveID] at h
  | id pres rid =>
    unfold receiveID at h
    by_cases hd : rid = localID
    · simp [hd] at h
    · simp only [hd, if_false] at h
      cases pres with
      | garbage => simp at h
      | identity => simp at h
      | key sk =>
        simp only [Outcome.ok.injEq] at h
        subst h
        unfold Knows dh
        by_cases hle : localSec ≤ sk <;> simp [hle, or_comm]

example : Knows [9] (dh 2 9) ∧ ¬ Knows [5, 6] (dh 2 9) := by decide

/-- a passive observer (holding neither secret) cannot compute it -/
theorem passive_observer_cannot_derive (a b : Nat) (secrets : List Nat) (ha : a ∉ secrets) (hb : b ∉ secrets) :
    ¬ Knows secrets (dh a b) := by
  unfold Knows dh
  by_cases h : a ≤ b <;> simp [h, ha, hb]

/-- **the announced id is bound to nothing**: for ANY id other than the receiver's own — the id of another
member, an id nobody has, the empty id — and ANY key pair, the handshake is accepted and the connection is
attributed to that id (receiveHandler's table, P2PMessage.Sender, Reply routing all go by it). -/
theorem announced_id_is_unbound (localID rid : Bytes) (localSec sk : Nat) (hne : rid ≠ localID) :
    receiveID localID localSec (.id (.key sk) rid) =
      .ok { remoteID := rid, remotePub := sk, point := dh localSec sk } := by
  simp [receiveID, hne]

/-- Observation (the code as it is): an EMPTY / absent id is accepted too — `if c.remoteID == nil` assigns
an error that is neither reported nor returned (ErrNoRemoteID never leaves receiveID). -/
theorem empty_id_is_accepted (localID : Bytes) (localSec sk : Nat) (hne : localID ≠ []) :
    receiveID localID localSec (.id (.key sk) []) = .ok { remoteID := [], remotePub := sk, point := dh localSec sk } := by
  have : ([] : Bytes) ≠ localID := fun h => hne h.symm
  simp [receiveID, this]

example : receiveID [0x42] 2 (.id (.key 9) []) = .ok { remoteID := [], remotePub := 9, point := ⟨2, 9⟩ } := by decide

/-- what IS refused: the receiver's own id, an undecodable key, the point at infinity, anything that is
not an ID frame -/
theorem refused_handshakes (localID : Bytes) (localSec : Nat) (pres : Presented) (rid : Bytes) :
    receiveID localID localSec (.id pres localID) = .err .duplicateID ∧
    (rid ≠ localID → receiveID localID localSec (.id .garbage rid) = .err .badKey) ∧
    (rid ≠ localID → receiveID localID localSec (.id .identity rid) = .err .identityKey) ∧
    receiveID localID localSec .notID = .err .casting ∧ receiveID localID localSec .malformed = .err .read := by
  refine ⟨by simp [receiveID], ?_, ?_, rfl, rfl⟩ <;> intro h <;> simp [receiveID, h]

/-- **an adversary active during the handshake owns the connection** (outside C16 as stated: "the key
presented in the handshake" is then HIS): substituting his own key pairs `e` (towards A) and `e'`
(towards B) in the two plaintext ID frames, both ends accept, each attributes the connection to the
other's id, the two session points differ from the honest one, and he can compute both. -/
theorem active_mitm_owns_both_sessions (idA idB : Bytes) (a b e e' : Nat) (hne : idA ≠ idB)
    (ha : e ≠ b) (hb : e' ≠ a) (hab : a ≠ b) :
    ∃ sa sb, receiveID idA a (.id (.key e) idB) = .ok sa ∧ receiveID idB b (.id (.key e') idA) = .ok sb ∧
      sa.remoteID = idB ∧ sb.remoteID = idA ∧ Knows [e, e'] sa.point ∧ Knows [e, e'] sb.point ∧
      sa.point ≠ dh a b ∧ sb.point ≠ dh a b := by
  refine ⟨_, _, announced_id_is_unbound idA idB a e hne.symm, announced_id_is_unbound idB idA b e' hne, rfl, rfl, ?_, ?_, ?_, ?_⟩
  · unfold Knows dh; by_cases h : a ≤ e <;> simp [h]
  · unfold Knows dh; by_cases h : b ≤ e' <;> simp [h]
  · unfold dh
    by_cases h1 : a ≤ e <;> by_cases h2 : a ≤ b <;> simp [h1, h2] <;> omega
  · unfold dh
    by_cases h1 : b ≤ e' <;> by_cases h2 : a ≤ b <;> simp [h1, h2] <;> omega

example : ∃ sa sb, receiveID [0x41] 1 (.id (.key 5) [0x42]) = .ok sa ∧ receiveID [0x42] 2 (.id (.key 6) [0x41]) = .ok sb ∧
    Knows [5, 6] sa.point ∧ Knows [5, 6] sb.point := ⟨_, _, rfl, rfl, by decide, by decide⟩

end Dos.Props.C16Handshake

// Package c02: tbls.Recover (threshold BLS recovery) on raw share byte strings, against
//   - the Lean model driver (own bn256 G1 codec/arithmetic, byte level), and
//   - an oracle that shares no code with the unit under test: x·H(m) from the secret the harness
//     dealt, computed with math/big + go-ethereum's bn256 (google), accepted by the EVM pairing
//     precompile 0x08 and by the library's own bls.Verify under the group key.
//
// Exported helpers are reused by props/c03.
package c02

import (
	"bytes"
	"encoding/hex"
	"fmt"
	"math/big"
	"runtime"
	"strconv"
	"strings"
	"sync"

	"github.com/DOSNetwork/core/share"
	"github.com/DOSNetwork/core/sign/bls"
	"github.com/DOSNetwork/core/sign/tbls"
	"github.com/DOSNetwork/core/suites"
	"github.com/dedis/kyber"
	"github.com/ethereum/go-ethereum/common"
	"github.com/ethereum/go-ethereum/core/vm"
	gbn "github.com/ethereum/go-ethereum/crypto/bn256/google"
	"golang.org/x/crypto/sha3"

	"verifharness/internal/h"
)

func init() {
	h.Register(&h.Prop{
		ID: "C02",
		Rule: "cases: rec = tbls.Recover on a list of raw entries for a dealt (t,n) key: EVERY subset of valid shares for all 1<=t<=n<=8 (quick; thorough: n<=12) and EVERY ORDER of every subset for n<=5 (thorough: n<=6) - that is the exhaustive space of the flag, larger n (the mix goes to n=64, t<=33) is sampled; " +
			"permutations, multisets (exact duplicates), re-encodings of the same share (1..3 trailing bytes and tails of 62..131, 200, 513 bytes), public polynomials with more coefficients than t, members whose share key is the identity (root of the polynomial at their point), junk catalogue (len 0,1,2,65,66+k, off-curve, identity, " +
			"x+p / y+p coordinates, wrong index, index>=n incl. a genuine evaluation there, other message, foreign polynomial), messages empty/1B/1MiB, secrets 0,1,r-1,random, " +
			"degenerate polynomials; large groups n in {65,100,255,256,257,300} with t<=4 and members at indices 63..66, 254..257, n-1 replayed under several encodings; " +
			"hist = a sequence of sign/verify/recover calls in one process sharing a message buffer that is overwritten in place between calls, and sequences of 2..7 Recover calls over different member sequences in arrival order (n in 11..160, index lists whose decimal digits concatenate identically), verdict after each call; sign/blssign = the signing side; non-trivial = anything but the first t shares in index order; distinct = distinct case line",
		Gen:  gen,
		Exec: Exec,
		// the exhaustive space is stated in Rule (tier-specific); everything beyond it is sampled
		Exhaustive: func(tier string) bool { return tier == "quick" || tier == "thorough" },
	})
}

var (
	R, _  = new(big.Int).SetString("21888242871839275222246405745257275088548364400416034343698204186575808495617", 10)
	P, _  = new(big.Int).SetString("21888242871839275222246405745257275088696311157297823662689037894645226208583", 10)
	suite suites.Suite
)

func Suite() suites.Suite {
	if suite == nil {
		suite = suites.MustFind("bn256")
	}
	return suite
}

// ---- line pieces ---------------------------------------------------------------------------

// Msg decodes the message token: "-" | hex | rep:<n>:<bb>
func Msg(tok string) []byte {
	if strings.HasPrefix(tok, "rep:") {
		w := strings.Split(tok, ":")
		n := h.Atoi(w[1])
		b := h.UnHex(w[2])
		return bytes.Repeat(b, n)
	}
	return h.UnHex(tok)
}

// HashScalar = keccak256(msg) mod r, what bls.hashToPoint multiplies the G1 base with.
func HashScalar(msg []byte) *big.Int {
	k := sha3.NewLegacyKeccak256()
	k.Write(msg)
	return new(big.Int).Mod(new(big.Int).SetBytes(k.Sum(nil)), R)
}

func CSV(s string) []*big.Int {
	if s == "-" {
		return nil
	}
	var r []*big.Int
	for _, w := range strings.Split(s, ",") {
		r = append(r, h.BigDec(w))
	}
	return r
}
func CSVOf(v []*big.Int) string {
	if len(v) == 0 {
		return "-"
	}
	s := make([]string, len(v))
	for i, x := range v {
		s[i] = x.String()
	}
	return strings.Join(s, ",")
}

// Entries: "none" = empty list; otherwise ';'-separated hex, "-" = empty byte string
func Entries(tok string) [][]byte {
	if tok == "none" {
		return nil
	}
	var r [][]byte
	for _, w := range strings.Split(tok, ";") {
		b := h.UnHex(w)
		if b == nil {
			b = []byte{}
		}
		r = append(r, b)
	}
	return r
}
func EntriesOf(es [][]byte) string {
	if len(es) == 0 {
		return "none"
	}
	s := make([]string, len(es))
	for i, e := range es {
		s[i] = h.Hex(e)
	}
	return strings.Join(s, ";")
}

func Scalar(v *big.Int) kyber.Scalar {
	return Suite().G2().Scalar().SetBytes(new(big.Int).Mod(v, R).Bytes())
}

// PriPoly / PubPoly exactly as sign/tbls's own test builds them
func Polys(coeffs []*big.Int) (*share.PriPoly, *share.PubPoly) {
	cs := make([]kyber.Scalar, len(coeffs))
	for i, c := range coeffs {
		cs[i] = Scalar(c)
	}
	pri := share.CoefficientsToPriPoly(Suite(), cs)
	return pri, pri.Commit(Suite().Point().Base())
}

func RefEval(c []*big.Int, i int) *big.Int {
	x := big.NewInt(int64(i) + 1)
	v := new(big.Int)
	for j := len(c) - 1; j >= 0; j-- {
		v.Mul(v, x).Add(v, c[j]).Mod(v, R)
	}
	return v
}

// G1Bytes = 64-byte encoding of k·G1base by go-ethereum's pure-Go bn256
func G1Bytes(k *big.Int) []byte {
	k = new(big.Int).Mod(k, R)
	key := k.String()
	g1mu.Lock()
	b, ok := g1memo[key]
	g1mu.Unlock()
	if ok {
		return append([]byte{}, b...)
	}
	b = new(gbn.G1).ScalarBaseMult(k).Marshal()
	g1mu.Lock()
	if len(g1memo) > 1<<16 {
		g1memo = map[string][]byte{}
	}
	g1memo[key] = append([]byte{}, b...)
	g1mu.Unlock()
	return b
}

var g1mu sync.Mutex
var g1memo = map[string][]byte{}

// ValidShare builds index ‖ x_i·H(m) without the library
func ValidShare(coeffs []*big.Int, hs *big.Int, i int) []byte {
	k := new(big.Int).Mul(RefEval(coeffs, i), hs)
	return append([]byte{byte(i >> 8), byte(i)}, G1Bytes(k)...)
}

// Classify one entry independently of the code under test.
//
//	"valid"      canonical coordinates, equals x_i·H(m) for its own index i < n   (any trailing bytes)
//	"ambiguous"  same point but a coordinate written as v+k·p (decoders may or may not take it)
//	"oor"        genuine evaluation but index >= n
//	"invalid"    anything else
func Classify(coeffs []*big.Int, hs *big.Int, n int, e []byte) (string, int) {
	if len(e) < 66 {
		return "invalid", -1
	}
	i := int(e[0])<<8 | int(e[1])
	x, y := new(big.Int).SetBytes(e[2:34]), new(big.Int).SetBytes(e[34:66])
	want := G1Bytes(new(big.Int).Mul(RefEval(coeffs, i), hs))
	wx, wy := new(big.Int).SetBytes(want[:32]), new(big.Int).SetBytes(want[32:])
	canon := x.Cmp(P) < 0 && y.Cmp(P) < 0
	same := new(big.Int).Mod(x, P).Cmp(wx) == 0 && new(big.Int).Mod(y, P).Cmp(wy) == 0
	switch {
	case !same:
		return "invalid", i
	case i >= n:
		return "oor", i
	case !canon:
		return "ambiguous", i
	}
	return "valid", i
}

// ---- oracle pieces -------------------------------------------------------------------------

// EVMPairingOK evaluates e(sig, -B2)·e(H, X) == 1 with precompile 0x08, X = secret·B2 and all
// points produced by go-ethereum code / math/big (nothing from the repository).
func EVMPairingOK(sig []byte, hs, secret *big.Int) (bool, error) {
	if len(sig) != 64 {
		return false, fmt.Errorf("signature is %d bytes", len(sig))
	}
	negB2 := new(gbn.G2).ScalarBaseMult(new(big.Int).Sub(R, big.NewInt(1))).Marshal()
	X := new(gbn.G2).ScalarBaseMult(new(big.Int).Mod(secret, R)).Marshal()
	in := append(append(append(append([]byte{}, sig...), negB2...), G1Bytes(hs)...), X...)
	if new(big.Int).Mod(secret, R).Sign() == 0 { // X is infinity: google marshals it as zeros already
	}
	out, err := vm.PrecompiledContractsIstanbul[common.BytesToAddress([]byte{8})].Run(in)
	if err != nil {
		return false, err
	}
	return len(out) == 32 && out[31] == 1, nil
}

func ErrKind(err error) string {
	s := err.Error()
	switch {
	case s == "EOF" || s == "unexpected EOF":
		return "eof"
	case strings.Contains(s, "not enough good public shares"):
		return "few"
	case strings.Contains(s, "threshold smaller than the threshold of the public polynomial"):
		return "threshold"
	case strings.Contains(s, "bn256.G1"):
		return "decode"
	case strings.Contains(s, "invalid signature"):
		return "invalid"
	}
	return "other:" + h.OneLine(s)
}

func catch(f func() string) (out string) {
	defer func() {
		if e := recover(); e != nil {
			s := fmt.Sprint(e)
			switch {
			case strings.Contains(s, "nil pointer dereference"):
				out = "panic div0"
			case strings.Contains(s, "index out of range"), strings.Contains(s, "slice bounds out of range"):
				out = "panic index"
			default:
				out = "panic other:" + h.OneLine(s)
			}
		}
	}()
	return f()
}

// Recover runs the real tbls.Recover on a private copy of the entries (it reorders its argument).
func Recover(pub *share.PubPoly, msg []byte, es [][]byte, t, n int) string {
	cp := make([][]byte, len(es))
	for i, e := range es {
		cp[i] = append([]byte{}, e...)
	}
	return catch(func() string {
		sig, err := tbls.Recover(Suite(), pub, msg, cp, t, n)
		if err != nil {
			return "err " + ErrKind(err)
		}
		return "ok " + h.Hex(sig)
	})
}

// Verdict evaluates the property on one Recover outcome. strict = distinct indices with an
// unambiguously valid entry; lenient also counts ambiguous re-encodings.
func Verdict(impl string, coeffs []*big.Int, hs *big.Int, msg []byte, pub *share.PubPoly, es [][]byte, t, n int) (oracle string, strict, lenient int) {
	sv, lv := map[int]bool{}, map[int]bool{}
	for _, e := range es {
		c, i := Classify(coeffs, hs, n, e)
		switch c {
		case "valid":
			sv[i], lv[i] = true, true
		case "ambiguous":
			lv[i] = true
		}
	}
	strict, lenient = len(sv), len(lv)
	var secret *big.Int
	if len(coeffs) > 0 {
		secret = coeffs[0]
	} else {
		secret = new(big.Int)
	}
	want := "ok " + h.Hex(G1Bytes(new(big.Int).Mul(secret, hs)))
	switch {
	case strings.HasPrefix(impl, "panic"):
		return "recover-panics: " + impl + fmt.Sprintf(" (%d valid distinct members, t=%d)", strict, t), strict, lenient
	case strict >= t && len(coeffs) <= t:
		if strings.HasPrefix(impl, "err") {
			return fmt.Sprintf("recover-errors-with-threshold-present: %q although %d >= t=%d distinct members have a valid share in the list", impl, strict, t), strict, lenient
		}
		if impl != want {
			return fmt.Sprintf("recover-wrong-signature: got %q want %q", impl, want), strict, lenient
		}
	case lenient < t:
		if !strings.HasPrefix(impl, "err") {
			return fmt.Sprintf("recover-below-threshold-accepted: %q with only %d < t=%d distinct valid members", impl, lenient, t), strict, lenient
		}
	}
	if strings.HasPrefix(impl, "ok ") {
		sig := h.UnHex(impl[3:])
		if len(coeffs) <= t && impl != want {
			return fmt.Sprintf("recover-wrong-signature: got %q want %q", impl, want), strict, lenient
		}
		if err := bls.Verify(Suite(), pub.Commit(), msg, sig); err != nil {
			return "recovered-signature-fails-bls-verify: " + err.Error(), strict, lenient
		}
		if ok, err := EVMPairingOK(sig, hs, secret); !ok {
			return fmt.Sprintf("recovered-signature-fails-evm-pairing: %v", err), strict, lenient
		}
	}
	return "", strict, lenient
}

// ---- exec ----------------------------------------------------------------------------------

// Prefetch executes the given case lines on all cores (every case still runs the real code, once)
// and parks the results for the sequential emit loop of the framework; a line that was not
// prefetched (corpus, replay) is executed on demand.
func Prefetch(lines []string, exec func(string) h.Result, memo *sync.Map) {
	var wg sync.WaitGroup
	ch := make(chan string, 256)
	for k := 0; k < runtime.NumCPU(); k++ {
		wg.Add(1)
		go func() {
			defer wg.Done()
			for l := range ch {
				memo.Store(l, h.SafeExec(&h.Prop{Exec: exec}, l))
			}
		}()
	}
	for _, l := range lines {
		if strings.HasPrefix(l, "hist ") {
			continue // run alone, in the sequential loop: the calls of a history must not interleave with others
		}
		ch <- l
	}
	close(ch)
	wg.Wait()
}

var memo sync.Map

func Exec(line string) h.Result {
	if r, ok := memo.Load(line); ok {
		memo.Delete(line)
		res := r.(h.Result)
		if res.PanicMsg != "" {
			panic(res.PanicMsg)
		}
		return res
	}
	return ExecLine(line)
}

// ExecLine runs one case on the real code (no memo).
func ExecLine(line string) (res h.Result) {
	w := strings.Fields(line)
	switch w[0] {
	case "hist":
		return execHist(w)
	case "rec": // rec <t> <n> <h> <pubcoeffs> <msg> <entries>
		t, n, hs, coeffs, msg, es := h.Atoi(w[1]), h.Atoi(w[2]), h.BigDec(w[3]), CSV(w[4]), Msg(w[5]), Entries(w[6])
		if HashScalar(msg).Cmp(hs) != 0 {
			panic("bad case line: h is not keccak256(msg) mod r")
		}
		_, pub := Polys(coeffs)
		res.Impl = Recover(pub, msg, es, t, n)
		var strict int
		res.Oracle, strict, _ = Verdict(res.Impl, coeffs, hs, msg, pub, es, t, n)
		res.Class = "rec-" + strings.Fields(res.Impl)[0]
		if strict >= t {
			res.Class += "-qualifying"
		} else {
			res.Class += "-below"
		}
		// trivial = exactly the first t shares in index order, nothing else
		res.Nontrivial = len(es) != t
		for k, e := range es {
			if len(e) != 66 || int(e[0])<<8|int(e[1]) != k {
				res.Nontrivial = true
			}
		}
	case "sign": // sign <h> <coeffs> <msg> <i>   → tbls.Sign with the share of member i
		hs, coeffs, msg, i := h.BigDec(w[1]), CSV(w[2]), Msg(w[3]), h.Atoi(w[4])
		if HashScalar(msg).Cmp(hs) != 0 {
			panic("bad case line: h is not keccak256(msg) mod r")
		}
		pri, pub := Polys(coeffs)
		sig, err := tbls.Sign(Suite(), pri.Eval(i), msg)
		if err != nil {
			res.Impl = "err " + ErrKind(err)
			res.Oracle = "sign-failed: " + err.Error()
		} else {
			res.Impl = "ok " + h.Hex(sig)
			verr := tbls.Verify(Suite(), pub, msg, sig)
			switch {
			case !bytes.Equal(sig, ValidShare(coeffs, hs, i)):
				res.Oracle = "sign-wrong-share: not (index mod 2^16) ‖ x_i·H(m)"
			case i < 1<<16 && verr != nil:
				res.Oracle = "own-share-rejected: " + verr.Error()
			case i >= 1<<16 && verr == nil && RefEval(coeffs, i).Cmp(RefEval(coeffs, i%(1<<16))) != 0:
				// beyond the 2-byte index format (a declared limit of the wire format): the share carries another
				// member's number and must be treated like any share under a wrong index
				res.Oracle = "invalid-share-accepted: a share of member >= 2^16 (labelled i mod 2^16) verified"
			}
		}
		res.Class, res.Nontrivial = "sign", true
		if i >= 1<<16 {
			res.Class = "sign-index-beyond-format"
		}
	case "blssign": // blssign <h> <x> <msg>
		hs, x, msg := h.BigDec(w[1]), h.BigDec(w[2]), Msg(w[3])
		if HashScalar(msg).Cmp(hs) != 0 {
			panic("bad case line: h is not keccak256(msg) mod r")
		}
		sig, err := bls.Sign(Suite(), Scalar(x), msg)
		if err != nil {
			res.Impl = "err " + ErrKind(err)
			res.Oracle = "blssign-failed"
		} else {
			res.Impl = "ok " + h.Hex(sig)
			if !bytes.Equal(sig, G1Bytes(new(big.Int).Mul(x, hs))) {
				res.Oracle = "blssign-wrong: not x·H(m)"
			} else if ok, err := EVMPairingOK(sig, hs, x); !ok {
				res.Oracle = fmt.Sprintf("blssign-fails-evm-pairing: %v", err)
			}
		}
		res.Class, res.Nontrivial = "blssign", true
	default:
		panic("bad case line")
	}
	return
}

// ---- generation ----------------------------------------------------------------------------

func MsgTok(b []byte) string { return h.Hex(b) }

func RandPoly(rng *h.Rng, t, kind int) []*big.Int {
	c := make([]*big.Int, t)
	for i := range c {
		c[i] = rng.Big(R)
	}
	switch kind % 6 {
	case 0:
		c[0] = big.NewInt(0)
	case 1:
		c[0] = big.NewInt(1)
	case 2:
		c[0] = new(big.Int).Sub(R, big.NewInt(1))
	case 3: // degenerate: constant polynomial written with t coefficients (every member holds the secret)
		for i := 1; i < t; i++ {
			c[i] = big.NewInt(0)
		}
	}
	return c
}

// RootPoly: a polynomial with t >= 2 coefficients and a ROOT at member i's point (f(i+1) = 0): that
// member's share key is the identity of G2 and its share the identity of G1 (review B #2)
func RootPoly(rng *h.Rng, t, i int) []*big.Int {
	c := make([]*big.Int, t)
	for j := range c {
		c[j] = rng.Big(R)
	}
	if t == 2 && c[1].Sign() == 0 {
		c[1] = big.NewInt(1)
	}
	c[0] = big.NewInt(0)
	c[0] = new(big.Int).Mod(new(big.Int).Neg(RefEval(c, i)), R)
	return c
}

// Tail: trailing bytes of an alternative encoding of a share: 1..3 bytes, or lengths around one and two
// point sizes (64, 128) and beyond (review B #9: "alternative byte encodings of the same share")
func Tail(rng *h.Rng) []byte {
	n := 1 + rng.Intn(3)
	if rng.Intn(3) == 0 {
		n = []int{62, 63, 64, 65, 66, 127, 128, 129, 130, 131, 200, 513}[rng.Intn(12)]
	}
	return rng.Bytes(n)
}

// permutations of a small list
func perms(a []int) [][]int {
	if len(a) <= 1 {
		return [][]int{append([]int{}, a...)}
	}
	var r [][]int
	for i := range a {
		rest := append(append([]int{}, a[:i]...), a[i+1:]...)
		for _, p := range perms(rest) {
			r = append(r, append([]int{a[i]}, p...))
		}
	}
	return r
}

func addP(b []byte) []byte { // 32-byte big-endian v -> v+p if it still fits 32 bytes, else unchanged
	v := new(big.Int).Add(new(big.Int).SetBytes(b), P)
	if v.BitLen() > 256 {
		return append([]byte{}, b...)
	}
	o := make([]byte, 32)
	v.FillBytes(o)
	return o
}

// Junk builds entry number `kind` of the junk catalogue for member i.
func Junk(rng *h.Rng, kind int, coeffs []*big.Int, hs *big.Int, n, i int) []byte {
	v := ValidShare(coeffs, hs, i)
	switch kind {
	case 0:
		return []byte{}
	case 1:
		return []byte{byte(rng.Intn(256))}
	case 2:
		return v[:2]
	case 3:
		return v[:65]
	case 4:
		return v[:3+rng.Intn(60)]
	case 5: // off-curve: one coordinate bit flipped
		o := append([]byte{}, v...)
		o[2+rng.Intn(64)] ^= 1 << uint(rng.Intn(8))
		return o
	case 6: // identity
		return append([]byte{byte(i >> 8), byte(i)}, make([]byte, 64)...)
	case 7: // (x+p, y)
		return append(append(append([]byte{}, v[:2]...), addP(v[2:34])...), v[34:]...)
	case 8: // (x, y+p)
		return append(append(append([]byte{}, v[:34]...), addP(v[34:66])...), v[66:]...)
	case 9: // wrong index i -> j (another member's number on this member's point)
		j := (i + 1 + rng.Intn(n)) % (n + 1)
		o := append([]byte{}, v...)
		o[0], o[1] = byte(j>>8), byte(j)
		return o
	case 10: // index >= n with a member's point
		o := append([]byte{}, v...)
		j := n + rng.Intn(4)
		o[0], o[1] = byte(j>>8), byte(j)
		return o
	case 11: // index >= n, GENUINE evaluation of the polynomial there
		return ValidShare(coeffs, hs, n+rng.Intn(3))
	case 12: // other message
		return ValidShare(coeffs, HashScalar(rng.Bytes(5)), i)
	case 13: // foreign polynomial
		return ValidShare(RandPoly(rng, len(coeffs), 5), hs, i)
	case 14: // -P (negated y)
		o := append([]byte{}, v...)
		y := new(big.Int).Sub(P, new(big.Int).SetBytes(v[34:66]))
		y.Mod(y, P)
		y.FillBytes(o[34:66])
		return o
	case 15: // random 66 bytes
		return rng.Bytes(66)
	case 16: // index 0xffff
		o := append([]byte{}, v...)
		o[0], o[1] = 0xff, 0xff
		return o
	}
	return []byte{}
}

const NJunk = 17

func recLine(t, n int, coeffs []*big.Int, msgTok string, es [][]byte) string {
	return fmt.Sprintf("rec %d %d %s %s %s %s", t, n, HashScalar(Msg(msgTok)), CSVOf(coeffs), msgTok, EntriesOf(es))
}

func gen(tier string, rng *h.Rng, emit0 func(string)) {
	var lines []string
	emit := func(l string) { lines = append(lines, l) }
	defer func() {
		Prefetch(lines, ExecLine, &memo)
		for _, l := range lines {
			emit0(l)
		}
	}()
	thorough := tier == "thorough"
	// 1. EXHAUSTIVE: every subset of the n valid shares, all 1 <= t <= n <= 8 (thorough: n <= 12)
	kind := 0
	maxN := 8
	if thorough {
		maxN = 12
	}
	for n := 1; n <= maxN; n++ {
		for t := 1; t <= n; t++ {
			coeffs := RandPoly(rng, t, kind)
			kind++
			msgTok := MsgTok(rng.Bytes(rng.Intn(40)))
			hs := HashScalar(Msg(msgTok))
			for mask := 0; mask < 1<<uint(n); mask++ {
				var es [][]byte
				for i := 0; i < n; i++ {
					if mask>>uint(i)&1 == 1 {
						es = append(es, ValidShare(coeffs, hs, i))
					}
				}
				emit(recLine(t, n, coeffs, msgTok, es))
			}
		}
	}
	// 1b. EVERY ORDER of every non-empty subset, all 1 <= t <= n <= 5 (thorough: n <= 6)
	maxP := 5
	if thorough {
		maxP = 6
	}
	for n := 1; n <= maxP; n++ {
		for t := 1; t <= n; t++ {
			coeffs := RandPoly(rng, t, kind)
			kind++
			msgTok := MsgTok(rng.Bytes(rng.Intn(40)))
			hs := HashScalar(Msg(msgTok))
			for mask := 1; mask < 1<<uint(n); mask++ {
				var sub []int
				for i := 0; i < n; i++ {
					if mask>>uint(i)&1 == 1 {
						sub = append(sub, i)
					}
				}
				for _, pm := range perms(sub) {
					ascending := true
					for a := 1; a < len(pm); a++ {
						ascending = ascending && pm[a-1] < pm[a]
					}
					if ascending {
						continue // section 1 has it
					}
					var es [][]byte
					for _, i := range pm {
						es = append(es, ValidShare(coeffs, hs, i))
					}
					emit(recLine(t, n, coeffs, msgTok, es))
				}
			}
		}
	}
	// 2. permutations, multisets, re-encodings, junk
	nmix := 500
	if thorough {
		nmix = 8000
	}
	for k := 0; k < nmix; k++ {
		n := 1 + rng.Intn(9)
		if k%23 == 0 {
			n = 9 + rng.Intn(56) // up to 64 members, t up to 33
		}
		t := n/2 + 1
		if rng.Intn(3) == 0 {
			t = 1 + rng.Intn(n)
		}
		coeffs := RandPoly(rng, t, rng.Intn(12))
		msgTok := MsgTok(rng.Bytes(rng.Intn(64)))
		switch k % 40 {
		case 0:
			msgTok = "-"
		case 1:
			msgTok = MsgTok(rng.Bytes(1))
		case 2:
			msgTok = fmt.Sprintf("rep:%d:%s", 1<<20, hex.EncodeToString(rng.Bytes(1)))
		}
		hs := HashScalar(Msg(msgTok))
		perm := rng.Perm(n)
		take := t + rng.Intn(n-t+1)
		switch rng.Intn(5) {
		case 0:
			take = t
		case 1:
			if t > 1 {
				take = t - 1
			}
		case 2:
			take = rng.Intn(n + 1)
		}
		var es [][]byte
		for _, i := range perm[:take] {
			v := ValidShare(coeffs, hs, i)
			switch rng.Intn(8) {
			case 0: // exact duplicate
				es = append(es, v, append([]byte{}, v...))
			case 1: // re-encoding with trailing bytes, before or after the plain one
				re := append(append([]byte{}, v...), Tail(rng)...)
				if rng.Bool() {
					es = append(es, re, v)
				} else {
					es = append(es, v, re)
				}
			case 2: // only the re-encoding
				es = append(es, append(append([]byte{}, v...), Tail(rng)...))
			default:
				es = append(es, v)
			}
			if rng.Intn(3) == 0 {
				es = append(es, Junk(rng, rng.Intn(NJunk), coeffs, hs, n, i))
			}
		}
		if rng.Intn(2) == 0 { // junk in front
			j := Junk(rng, rng.Intn(NJunk), coeffs, hs, n, rng.Intn(n))
			es = append([][]byte{j}, es...)
		}
		if rng.Intn(4) == 0 { // shuffle everything
			p := rng.Perm(len(es))
			sh := make([][]byte, len(es))
			for a, b := range p {
				sh[a] = es[b]
			}
			es = sh
		}
		emit(recLine(t, n, coeffs, msgTok, es))
	}
	// 2b. a public polynomial with MORE than t coefficients (review B #3; /repo 3cdfff8): t, t+1, all
	// valid shares of it, in order and shuffled, with and without junk: an error or a verifying result
	nlong := 60
	if thorough {
		nlong = 600
	}
	for k := 0; k < nlong; k++ {
		n := 2 + rng.Intn(7)
		t := 1 + rng.Intn(n)
		coeffs := RandPoly(rng, t+1+rng.Intn(3), rng.Intn(12))
		if k%5 == 0 {
			for j := t; j < len(coeffs); j++ { // the extra coefficients are zero: the value IS determined
				coeffs[j] = big.NewInt(0)
			}
		}
		msgTok := MsgTok(rng.Bytes(rng.Intn(20)))
		hs := HashScalar(Msg(msgTok))
		take := []int{t, t + 1, n, len(coeffs)}[k%4]
		if take > n {
			take = n
		}
		var es [][]byte
		for _, i := range rng.Perm(n)[:take] {
			es = append(es, ValidShare(coeffs, hs, i))
			if rng.Intn(4) == 0 {
				es = append(es, Junk(rng, rng.Intn(NJunk), coeffs, hs, n, i))
			}
		}
		emit(recLine(t, n, coeffs, msgTok, es))
	}
	// 2c. a member whose share key is the identity (the polynomial has a root at its point), t >= 2:
	// its true share is the identity of G1; anything else under its index must not count
	nroot := 40
	if thorough {
		nroot = 400
	}
	for k := 0; k < nroot; k++ {
		n := 2 + rng.Intn(6)
		t := 2 + rng.Intn(n-1)
		i := rng.Intn(n)
		coeffs := RootPoly(rng, t, i)
		msgTok := MsgTok(rng.Bytes(rng.Intn(20)))
		hs := HashScalar(Msg(msgTok))
		var others []int
		for _, j := range rng.Perm(n) {
			if j != i {
				others = append(others, j)
			}
		}
		var es [][]byte
		for _, j := range others[:t-1] {
			es = append(es, ValidShare(coeffs, hs, j))
		}
		forged := append([]byte{byte(i >> 8), byte(i)}, G1Bytes(rng.Big(R))...) // some curve point under index i
		switch k % 4 {
		case 0: // t-1 valid + a curve point under the root member's index: below threshold
			es = append(es, forged)
		case 1: // … + the true (identity) share: qualifies
			es = append(es, forged, ValidShare(coeffs, hs, i))
		case 2: // identity share first
			es = append([][]byte{ValidShare(coeffs, hs, i), forged}, es...)
		case 3: // every junk kind under that index
			for kindJ := 0; kindJ < NJunk; kindJ++ {
				if kindJ != 6 && kindJ != 11 {
					es = append(es, Junk(rng, kindJ, coeffs, hs, n, i))
				}
			}
		}
		emit(recLine(t, n, coeffs, msgTok, es))
	}
	// 3. each junk kind in front of / inside / behind exactly t valid shares
	for kindJ := 0; kindJ < NJunk; kindJ++ {
		reps := 2
		if thorough {
			reps = 10
		}
		for rep := 0; rep < reps; rep++ {
			n := 3 + rng.Intn(5)
			t := n/2 + 1
			coeffs := RandPoly(rng, t, rng.Intn(12))
			msgTok := MsgTok(rng.Bytes(8))
			hs := HashScalar(Msg(msgTok))
			var valid [][]byte
			for _, i := range rng.Perm(n)[:t] {
				valid = append(valid, ValidShare(coeffs, hs, i))
			}
			for pos := 0; pos <= t; pos += t / 2 {
				j := Junk(rng, kindJ, coeffs, hs, n, int(valid[rng.Intn(t)][1]))
				es := append(append(append([][]byte{}, valid[:pos]...), j), valid[pos:]...)
				emit(recLine(t, n, coeffs, msgTok, es))
				if t/2 == 0 {
					break
				}
			}
		}
	}
	// 3b. large groups with a small threshold: members around index 64 and 256, re-encoded replays
	nlg := 60
	if thorough {
		nlg = 600
	}
	for k := 0; k < nlg; k++ {
		emit(LargeGroup(rng, k%3 != 0))
	}
	// 3c. histories: calls that share a mutable message buffer
	nh := 24
	if thorough {
		nh = 200
	}
	for k := 0; k < nh; k++ {
		emit(History(rng, k))
	}
	// 3d. histories of Recover calls over different member sequences (n > 10, arrival order, digit-colliding
	// index lists): the verdict is taken after EACH call
	nrh := 40
	if thorough {
		nrh = 400
	}
	for k := 0; k < nrh; k++ {
		emit(RecoverHistory(rng, k))
	}
	// 4. the signing side
	nsig := 40
	if thorough {
		nsig = 400
	}
	for k := 0; k < nsig; k++ {
		t := 1 + rng.Intn(6)
		coeffs := RandPoly(rng, t, rng.Intn(12))
		msgTok := MsgTok(rng.Bytes(rng.Intn(50)))
		hs := HashScalar(Msg(msgTok))
		emit(fmt.Sprintf("sign %s %s %s %d", hs, CSVOf(coeffs), msgTok, rng.Intn(300)))
		if k%4 == 0 { // around and beyond the 2-byte index format
			for _, i := range []int{65535, 65536, 65537, 65536 + rng.Intn(300), 1<<20 + 3} {
				emit(fmt.Sprintf("sign %s %s %s %d", hs, CSVOf(coeffs), msgTok, i))
			}
		}
		x := []*big.Int{big.NewInt(0), big.NewInt(1), new(big.Int).Sub(R, big.NewInt(1)), rng.Big(R)}[k%4]
		emit(fmt.Sprintf("blssign %s %s %s", hs, x, msgTok))
	}
	_ = strconv.Itoa
}

/-
C20 (round 5, follow-up) — group/edwards25519/point.go (and `extended.Double` of ge.go) as DATA: the bodies of the
`point` methods are sequences of calls of ge.go methods on struct values, pointer rebinding, three kinds of `if` and
one byte-comparison loop.  `go/extract/ed25519ge` (ptprog.go) translates them statement by statement into `PtFn`s
(`Gen/Ed25519Pt.lean`); this file is the interpreter.  Core Lean only.

* A Go identifier is a SLOT; a slot designates a REGISTER (an object).  Formals are bound to registers by the caller, so
  aliased arguments (`P.Add(P, Q)`, `P.Neg(P)`) share a register as they share memory.  `E1 := P1.(*point)`,
  `a := &s.(*scalar).v`, `a = &red` rebind a slot; `var t2 cachedGroupElement` makes a fresh object.
* `x.ge` of a `*point` designates the point's register (a `point` is its `ge` plus the flag `varTime`).
* A callee (`Fn`) is a method of ge.go chosen by the STATIC type of the receiver expression, or one of the functions
  geScalarMult / geScalarMultBase / geScalarMultVartime / scReduce / copy.  Its meaning is the model function of
  Model/Ed25519Ge.lean — the translated straight-line methods (complAdd, extToCached, …) and, for ToBytes / FromBytes /
  geScalarMult / geScalarMultBase, the hand models over the translated segments.  The only callee of point.go that can
  be reached with receiver = argument is `extended.Neg` (`P.Neg(P)`): the interpreter runs it on shared registers then.
Theorems (Props/C20Point.lean): for every aliasing pattern of the formals each translated method IS the hand model
`ptAdd … ptEqual` the group theorems are about.
-/
import DosModel.Model.Ed25519Ge

namespace Dos.PtProg
open Dos Dos.Ed25519 Dos.Ge

/-- an object -/
inductive Val where
  /-- an `extendedGroupElement`, or a `point` (its `ge` and `varTime`) -/
  | ext (e : Ext) (varTime : Bool)
  | cached (c : Cached)
  | compl (c : Compl)
  | proj (p : Proj)
  /-- `[32]byte`, `[64]byte`, `[]byte`, `scalar.v` -/
  | bytes (b : Bytes)
  /-- a nil `kyber.Point` argument -/
  | nil
  | unset
  deriving Inhabited

inductive Ty where
  | cached | compl | proj | ext | bytes (n : Nat)
  deriving Repr, DecidableEq

/-- the zero value of a declared local -/
def Ty.zero : Ty → Val
  | .cached => .cached ⟨z10, z10, z10, z10⟩
  | .compl => .compl ⟨z10, z10, z10, z10⟩
  | .proj => .proj ⟨z10, z10, z10⟩
  | .ext => .ext ⟨z10, z10, z10, z10⟩ false
  | .bytes n => .bytes (List.replicate n 0)

/-- callees: `<receiver type>_<Method>` of ge.go, package functions, and the two struct assignments of point.go -/
inductive Fn where
  | extended_ToCached | extended_ToProjective | extended_Neg | extended_Zero | extended_ToBytes
  | extended_FromBytes | extended_Double
  | completed_Add | completed_Sub | completed_ToExtended | completed_ToProjective
  | projective_Double
  | geScalarMult | geScalarMultBase | geScalarMultVartime | scReduce
  /-- `copy(dst[:], src[:])` -/
  | copy
  /-- `P.ge = baseext` -/
  | setBaseext
  /-- `P.ge = P2.(*point).ge` -/
  | copyGe
  deriving Repr, DecidableEq

inductive Ret where
  /-- `return P` (the receiver) -/
  | recv
  | bool (b : Bool)
  | int (n : Nat)
  /-- `return b[:], nil` -/
  | bytesOf (slot : Nat)
  /-- `return errors.New(…)` -/
  | err
  /-- `return nil` (no error) -/
  | ok
  /-- `return &point{ge: P.ge}` -/
  | clone (slot : Nat)
  deriving Repr, DecidableEq

inductive Stmt where
  /-- slot `name` now designates the object slot `src` designates -/
  | bind (name src : Nat)
  /-- `var name T` -/
  | decl (name : Nat) (ty : Ty)
  /-- a call; the arguments are slots, receiver first, in source order -/
  | call (f : Fn) (args : List Nat)
  /-- `if x[idx] > k { … }` -/
  | ifByteGt (name idx k : Nat) (thn : List Stmt)
  /-- `if X == nil { … } else { … }` -/
  | ifNil (name : Nat) (thn els : List Stmt)
  /-- `if P.varTime { … } else { … }` -/
  | ifVarTime (name : Nat) (thn els : List Stmt)
  /-- `if !<the call just made> { … }` -/
  | ifNotFlag (thn : List Stmt)
  /-- `for i := range a { if a[i] != b[i] { … } }` -/
  | rangeNe (a b : Nat) (thn : List Stmt)
  | ret (r : Ret)

structure PtFn where
  /-- number of slots (formals first: receiver, then the parameters) -/
  slots : Nat
  body : List Stmt

/-- what a method returned -/
inductive Res where
  | recv | bool (b : Bool) | int (n : Nat) | bytes (b : Bytes) | err | ok | point (e : Ext) | none
  deriving Inhabited

structure St where
  names : List Nat
  regs : List Val
  flag : Bool := true
  res : Res := .none
  done : Bool := false
  panicked : Bool := false

def St.reg (st : St) (slot : Nat) : Nat := st.names.getD slot 0
def St.val (st : St) (slot : Nat) : Val := st.regs.getD (st.reg slot) .unset
def St.setVal (st : St) (slot : Nat) (v : Val) : St := { st with regs := st.regs.set (st.reg slot) v }

def geOf : Val → Ext
  | .ext e _ => e
  | _ => default
def vtOf : Val → Bool
  | .ext _ vt => vt
  | _ => false
def cachedOf : Val → Cached
  | .cached c => c
  | _ => default
def complOf : Val → Compl
  | .compl c => c
  | _ => default
def projOf : Val → Proj
  | .proj p => p
  | _ => default
def bytesOf : Val → Bytes
  | .bytes b => b
  | _ => []

/-- write the `ge` of an object, keeping its `varTime` -/
def St.setGe (st : St) (slot : Nat) (e : Ext) : St := st.setVal slot (.ext e (vtOf (st.val slot)))

/-- `copy(dst, src)` -/
def copyInto (dst src : Bytes) : Bytes := src.take dst.length ++ dst.drop src.length

def arg (args : List Nat) (i : Nat) : Nat := args.getD i 0

/-- one call -/
def applyFn (st : St) (f : Fn) (a : List Nat) : St :=
  match f with
  | .extended_ToCached => st.setVal (arg a 1) (.cached (extToCached (geOf (st.val (arg a 0)))))
  | .extended_ToProjective => st.setVal (arg a 1) (.proj (extToProj (geOf (st.val (arg a 0)))))
  | .extended_Neg =>
    if st.reg (arg a 0) = st.reg (arg a 1) then st.setGe (arg a 0) (extNegInPlace (geOf (st.val (arg a 1))))
    else st.setGe (arg a 0) (extNeg (geOf (st.val (arg a 1))))
  | .extended_Zero => st.setGe (arg a 0) extZero
  | .extended_ToBytes => st.setVal (arg a 1) (.bytes (extToBytes (geOf (st.val (arg a 0)))))
  | .extended_FromBytes =>
    match extFromBytes (bytesOf (st.val (arg a 1))) with
    | some e => { st.setGe (arg a 0) e with flag := true }
    | none => { st.setVal (arg a 0) .unset with flag := false }
  | .extended_Double => st.setVal (arg a 1) (.compl (extDouble (geOf (st.val (arg a 0)))))
  | .completed_Add => st.setVal (arg a 0) (.compl (complAdd (geOf (st.val (arg a 1))) (cachedOf (st.val (arg a 2)))))
  | .completed_Sub => st.setVal (arg a 0) (.compl (complSub (geOf (st.val (arg a 1))) (cachedOf (st.val (arg a 2)))))
  | .completed_ToExtended => st.setGe (arg a 1) (complToExt (complOf (st.val (arg a 0))))
  | .completed_ToProjective => st.setVal (arg a 1) (.proj (complToProj (complOf (st.val (arg a 0)))))
  | .projective_Double => st.setVal (arg a 1) (.compl (projDouble (projOf (st.val (arg a 0)))))
  | .geScalarMult =>
    st.setGe (arg a 0) (Ge.geScalarMult (bytesOf (st.val (arg a 1))) (geOf (st.val (arg a 2))))
  | .geScalarMultBase => st.setGe (arg a 0) (Ge.geScalarMultBase (bytesOf (st.val (arg a 1))))
  | .geScalarMultVartime => { st with panicked := true, done := true }
  | .scReduce => st.setVal (arg a 0) (.bytes (Gen.Ed25519Sc.scReduce shrI (bytesOf (st.val (arg a 1)))))
  | .copy => st.setVal (arg a 0) (.bytes (copyInto (bytesOf (st.val (arg a 0))) (bytesOf (st.val (arg a 1)))))
  | .setBaseext => st.setGe (arg a 0) baseExt
  | .copyGe => st.setGe (arg a 0) (geOf (st.val (arg a 1)))

def evalRet (st : St) : Ret → Res
  | .recv => .recv
  | .bool b => .bool b
  | .int n => .int n
  | .bytesOf s => .bytes (bytesOf (st.val s))
  | .err => .err
  | .ok => .ok
  | .clone s => .point (geOf (st.val s))

/-- the first index at which two byte arrays differ, over the indices of the first -/
def firstNe (a b : Bytes) : Bool := (List.range a.length).any (fun i => a.getD i 0 != b.getD i 0)

mutual
  def runStmt (st : St) : Stmt → St
    | .bind name src => if st.done then st else { st with names := st.names.set name (st.reg src) }
    | .decl name ty =>
      if st.done then st else { st with names := st.names.set name st.regs.length, regs := st.regs ++ [ty.zero] }
    | .call f args => if st.done then st else applyFn st f args
    | .ifByteGt name idx k thn =>
      if st.done then st else
      if ((bytesOf (st.val name)).getD idx 0).toNat > k then runBlock st thn else st
    | .ifNil name thn els =>
      if st.done then st else
      match st.val name with
      | .nil => runBlock st thn
      | _ => runBlock st els
    | .ifVarTime name thn els =>
      if st.done then st else
      if vtOf (st.val name) then runBlock st thn else runBlock st els
    | .ifNotFlag thn => if st.done then st else if st.flag then st else runBlock st thn
    | .rangeNe a b thn =>
      -- the body only ever returns: the loop ends at the first differing index, or runs through
      if st.done then st else
      if firstNe (bytesOf (st.val a)) (bytesOf (st.val b)) then runBlock st thn else st
    | .ret r => if st.done then st else { st with res := evalRet st r, done := true }
  def runBlock (st : St) : List Stmt → St
    | [] => st
    | s :: rest => runBlock (runStmt st s) rest
end

/-- run a method: `actuals` are the registers of the receiver and the parameters -/
def PtFn.run (f : PtFn) (actuals : List Nat) (regs : List Val) : St :=
  runBlock { names := actuals ++ List.replicate (f.slots - actuals.length) 0, regs := regs } f.body

end Dos.PtProg

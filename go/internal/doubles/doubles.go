// Package doubles: small in-memory stand-ins for the three dependencies a
// dosnode.DosNode is built around (dosnode.VerifNewNode, build tag verif):
//
//	P2P    – p2p.P2PInterface for ONE node: the harness owns the subscription
//	         channel (it decides which message the node sees next) and gets a
//	         call-back / record for every Request the node makes;
//	Chain  – onchain.ProxyAdapter that records UpdateRandomness / DataReturn and hands the
//	         harness' chain events to onchainLoop;
//	DKG    – dkg.PDKGInterface with a pre-loaded group table;
//	Logger – log.Logger that counts Event names, so a harness can wait for
//	         "the stage has received its k-th input" without sleeping.
//
// Methods that are not overridden here panic with a nil dereference (the
// embedded interface is nil): an unexpected use is loud, not silent.
package doubles

import (
	"context"
	"math/big"
	"net"
	"sync"
	"time"

	"github.com/DOSNetwork/core/log"
	"github.com/DOSNetwork/core/onchain"
	"github.com/DOSNetwork/core/p2p"
	"github.com/DOSNetwork/core/p2p/discover"
	"github.com/DOSNetwork/core/share"
	dkg "github.com/DOSNetwork/core/share/dkg/pedersen"
	vss "github.com/DOSNetwork/core/share/vss/pedersen"
	"github.com/ethereum/go-ethereum/common"
	"github.com/golang/protobuf/proto"
	"github.com/golang/protobuf/ptypes"
)

// ---------------------------------------------------------------- P2P

// Sent is one Request made by the node.
type Sent struct {
	To  []byte
	Msg proto.Message
}

// P2P is the p2p.P2PInterface of one node.
type P2P struct {
	p2p.VerifBase
	ID []byte
	// MsgCh is what every SubscribeMsg returns. Make it unbuffered to serialise
	// the node's loop: a send completes only when the loop took the message.
	MsgCh chan p2p.P2PMessage
	// OnRequest, if set, is called (on the caller's goroutine) for every Request
	// and provides its result; otherwise Request succeeds with an empty reply.
	OnRequest func(ctx context.Context, from, to []byte, m proto.Message) (p2p.P2PMessage, error)

	mu         sync.Mutex
	sent       []Sent
	subscribed int
}

func NewP2P(id []byte, msgBuf int) *P2P {
	return &P2P{ID: id, MsgCh: make(chan p2p.P2PMessage, msgBuf)}
}

func (p *P2P) GetID() []byte   { return p.ID }
func (p *P2P) GetIP() net.IP   { return net.IPv4(127, 0, 0, 1) }
func (p *P2P) GetPort() string { return "0" }
func (p *P2P) SetPort(string)  {}
func (p *P2P) Listen() error   { return nil }
func (p *P2P) Leave()          {}
func (p *P2P) Join([]string) (int, error) {
	return 1, nil
}
func (p *P2P) DisConnectTo([]byte) error { return nil }
func (p *P2P) NumOfMembers() int         { return 1 }
func (p *P2P) MembersID() [][]byte       { return [][]byte{p.ID} }
func (p *P2P) RandomPeerIP() []string    { return nil }
func (p *P2P) SubscribeEvent() (int, chan discover.P2PEvent, error) {
	return 0, make(chan discover.P2PEvent), nil
}
func (p *P2P) UnSubscribeEvent(int) {}
func (p *P2P) SubscribeMsg(chanBuffer int, messages ...interface{}) (chan p2p.P2PMessage, error) {
	p.mu.Lock()
	p.subscribed++
	p.mu.Unlock()
	return p.MsgCh, nil
}
func (p *P2P) UnSubscribeMsg(messages ...interface{}) {}
func (p *P2P) Request(ctx context.Context, id []byte, m proto.Message) (p2p.P2PMessage, error) {
	p.mu.Lock()
	p.sent = append(p.sent, Sent{To: append([]byte(nil), id...), Msg: proto.Clone(m)})
	p.mu.Unlock()
	if p.OnRequest != nil {
		return p.OnRequest(ctx, p.ID, id, m)
	}
	return p2p.P2PMessage{}, nil
}
func (p *P2P) Reply(ctx context.Context, id []byte, nonce uint64, m proto.Message) error {
	return nil
}

// Sent returns a copy of the Requests made so far.
func (p *P2P) Sent() []Sent {
	p.mu.Lock()
	defer p.mu.Unlock()
	return append([]Sent(nil), p.sent...)
}

// Wrap builds the P2PMessage the real network would hand to a subscriber.
func Wrap(from []byte, m proto.Message) p2p.P2PMessage {
	return p2p.P2PMessage{Msg: ptypes.DynamicAny{Message: m}, Sender: from}
}

// Deliver hands m to the node's subscription channel (blocks until taken if MsgCh is unbuffered).
func (p *P2P) Deliver(from []byte, m proto.Message) { p.MsgCh <- Wrap(from, m) }

// DeliverTimeout is Deliver that gives up; false = the node did not take the message.
func (p *P2P) DeliverTimeout(from []byte, m proto.Message, d time.Duration) bool {
	t := time.NewTimer(d)
	defer t.Stop()
	select {
	case p.MsgCh <- Wrap(from, m):
		return true
	case <-t.C:
		return false
	}
}

// ---------------------------------------------------------------- Chain

// Report is one call of UpdateRandomness ("rand") or DataReturn ("data"); Sig is a deep copy.
type Report struct {
	Kind string
	Sig  *vss.Signature
}

// Chain is a recording onchain.ProxyAdapter.
type Chain struct {
	onchain.ProxyAdapter
	Addr      common.Address
	BlockTime uint64 // handleQuery's timeout is 60*BlockTime seconds
	Err       error  // returned by the two report calls
	// Events / EventErrs are what SubscribeEvent returns (onchainLoop reads chain events from
	// them): the harness injects *onchain.LogUpdateRandom etc. Make Events unbuffered to know
	// when the loop took an event. nil = created on first use.
	Events    chan interface{}
	EventErrs chan error
	// Notify (optional, buffered by the caller) receives one value per report.
	Notify chan struct{}

	mu      sync.Mutex
	reports []Report
}

func (c *Chain) record(kind string, s *vss.Signature) error {
	r := Report{Kind: kind}
	if s != nil {
		r.Sig = proto.Clone(s).(*vss.Signature)
	}
	c.mu.Lock()
	c.reports = append(c.reports, r)
	c.mu.Unlock()
	if c.Notify != nil {
		select {
		case c.Notify <- struct{}{}:
		default:
		}
	}
	return c.Err
}
func (c *Chain) UpdateRandomness(s *vss.Signature) error { return c.record("rand", s) }
func (c *Chain) DataReturn(s *vss.Signature) error       { return c.record("data", s) }
func (c *Chain) GetBlockTime() uint64                    { return c.BlockTime }
func (c *Chain) SubscribeEvent([]int) (chan interface{}, chan error) {
	c.mu.Lock()
	defer c.mu.Unlock()
	if c.Events == nil {
		c.Events = make(chan interface{})
	}
	if c.EventErrs == nil {
		c.EventErrs = make(chan error)
	}
	return c.Events, c.EventErrs
}
func (c *Chain) RegisterNewNode() error            { return nil }
func (c *Chain) UnRegisterNode() error             { return nil }
func (c *Chain) Balance() (*big.Float, error)      { return big.NewFloat(100), nil }
func (c *Chain) DisconnectAll()                    {}
func (c *Chain) DisconnectWs(int)                  {}
func (c *Chain) Connect([]string, time.Time) error { return nil }
func (c *Chain) Address() common.Address           { return c.Addr }
func (c *Chain) Reports() []Report {
	c.mu.Lock()
	defer c.mu.Unlock()
	return append([]Report(nil), c.reports...)
}

// ---------------------------------------------------------------- DKG

// Group is one entry of the node's group table (what pdkg holds after a key generation).
type Group struct {
	IDs [][]byte
	Pub *share.PubPoly
	Sec *share.PriShare
}

// DKG is a dkg.PDKGInterface whose group table is pre-loaded by the harness, keyed by the group id
// string the node uses (lower-case hex of the on-chain group id, no leading zeros).
type DKG struct {
	dkg.PDKGInterface
	mu     sync.Mutex
	Groups map[string]Group
}

func (d *DKG) get(id string) (Group, bool) {
	d.mu.Lock()
	defer d.mu.Unlock()
	g, ok := d.Groups[id]
	return g, ok
}
func (d *DKG) Loop() {}
func (d *DKG) GetGroupPublicPoly(id string) *share.PubPoly {
	g, _ := d.get(id)
	return g.Pub
}
func (d *DKG) GetShareSecurity(id string) *share.PriShare {
	g, _ := d.get(id)
	return g.Sec
}
func (d *DKG) GetGroupIDs(id string) [][]byte {
	g, _ := d.get(id)
	return g.IDs
}
func (d *DKG) GetGroupNumber() int {
	d.mu.Lock()
	defer d.mu.Unlock()
	return len(d.Groups)
}
func (d *DKG) GroupDissolve(id string) {
	d.mu.Lock()
	delete(d.Groups, id)
	d.mu.Unlock()
}

// ---------------------------------------------------------------- Logger

// Logger counts Event names and Error calls; everything else is discarded.
type Logger struct {
	mu     sync.Mutex
	events map[string]int
	errs   []string
	tick   chan struct{}
}

func NewLogger() *Logger { return &Logger{events: map[string]int{}, tick: make(chan struct{}, 1)} }

var _ log.Logger = (*Logger)(nil)

func (l *Logger) New(string, interface{}) log.Logger { return l }
func (l *Logger) AddField(string, interface{})       {}
func (l *Logger) Debug(string)                       {}
func (l *Logger) Info(string)                        {}
func (l *Logger) Warn(string)                        {}
func (l *Logger) Fatal(error)                        {}
func (l *Logger) TimeTrack(time.Time, string, map[string]interface{}) {
}
func (l *Logger) bump() {
	select {
	case l.tick <- struct{}{}:
	default:
	}
}
func (l *Logger) Error(err error) {
	l.mu.Lock()
	if err != nil {
		l.errs = append(l.errs, err.Error())
	} else {
		l.errs = append(l.errs, "<nil>")
	}
	l.mu.Unlock()
	l.bump()
}
func (l *Logger) Event(e string, f map[string]interface{}) {
	l.mu.Lock()
	l.events[e]++
	l.mu.Unlock()
	l.bump()
}
func (l *Logger) Count(e string) int {
	l.mu.Lock()
	defer l.mu.Unlock()
	return l.events[e]
}
func (l *Logger) Errors() []string {
	l.mu.Lock()
	defer l.mu.Unlock()
	return append([]string(nil), l.errs...)
}

// WaitCount blocks until Event e has been logged at least n times, or stop()
// reports true, or the timeout passes. It returns whether the count was reached.
func (l *Logger) WaitCount(e string, n int, stop func() bool, d time.Duration) bool {
	deadline := time.Now().Add(d)
	for {
		if l.Count(e) >= n {
			return true
		}
		if stop != nil && stop() {
			return l.Count(e) >= n
		}
		left := time.Until(deadline)
		if left <= 0 {
			return false
		}
		if left > 2*time.Millisecond {
			left = 2 * time.Millisecond
		}
		t := time.NewTimer(left)
		select {
		case <-l.tick:
		case <-t.C:
		}
		t.Stop()
	}
}

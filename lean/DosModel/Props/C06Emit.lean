/-
C06 — "every signature and public key the library emits is a canonical EVM encoding", for ALL secret
scalars (0, 1, r−1, values ≥ r), and the source text the hand model transcribes.

Property theorems only (helpers: `Proofs/BlsKeys.lean`, `Proofs/BlsEval.lean`).
  * `sign_emits_canonical_words`: for every scalar x ∈ ℕ and every message, `Sign` emits exactly 64 bytes
    `be32 wx ‖ be32 wy` with wx, wy < p, (wx, wy) a point of y² = x³ + 3 or (0, 0) for the identity, which
    parses back; `sign_zero_key`: x ≡ 0 emits 64 zero bytes; `sign_scalar_mod_r`: the signature depends on x
    only through x mod r — the scalar object holds x mod r (`SetBytes` reduces), so nothing is lost;
  * `pubkey_emits_canonical_words`: for every x, the key x·g₂ is a valid G2 element (on the twist, in the
    order-r subgroup) and encodes as the single byte 0x00 (identity, x ≡ 0 mod r) or as 129 bytes
    0x01 ‖ x.im ‖ x.re ‖ y.im ‖ y.re, every word < p, IMAGINARY PART FIRST, and parses back;
    `pubkey_scalar_mod_r`;
  * `gen_bls_source_pinned`: the function bodies `Model/Bls.lean` / `Model/BlsHist.lean` transcribe
    (bls.Sign/Verify/hashToPoint, pointGT.PairingCheck, the Suite glue G1()/G2()/GT()/PairingCheck/NewSuite,
    the point wrappers Mul/Neg/Base, groupG*.Point, common.Scalar, tbls.Verify, SigShare.Index/Value,
    PubPoly.Eval) are, statement by statement, the text they were written from;
  * `gen_no_package_state`: sign/bls and sign/tbls declare no package-level variable, import nothing that
    could hold one (no sync, no bytes in bls), and consist of exactly the known functions — the static side
    of `C06Hist.hist_is_pointwise`.
-/
import DosModel.Proofs.BlsKeys
import DosModel.Gen.BlsFacts

namespace Dos.Props.C06Emit
open Dos Dos.Bn256 Dos.Codec Dos.CodecBytes Dos.Bls

/-- **every signature `Sign` emits, for every scalar and message, is two canonical 32-byte words of a curve
point** -/
theorem sign_emits_canonical_words (x : Nat) (msg : Bytes) :
    ∃ wx wy, wx < p ∧ wy < p ∧ sign evalOps x msg = be32 wx ++ be32 wy ∧
      (be32 wx).length = 32 ∧ (be32 wy).length = 32 ∧ beNat (be32 wx) = wx ∧ beNat (be32 wy) = wy ∧
      ((wx = 0 ∧ wy = 0) ∨ G1.onCurve (.aff wx wy) = true) ∧
      ∃ S, unmarshalG1 (sign evalOps x msg) = .ok S ∧ G1.valid S = true ∧
        S = G1.smul x (G1.smul (keccakScalar msg) g1gen) := by
  have hr : G1.Reachable (G1.smul x (G1.smul (keccakScalar msg) g1gen)) := .smul _ (.smul _ .base)
  have hv := reachable_valid hr
  obtain ⟨wx, wy, hx, hy, hm, hs⟩ := marshalG1_words _ hv
  refine ⟨wx, wy, hx, hy, hm, be32_length _, be32_length _, beNat_be32 _ hx,
    beNat_be32 _ hy, ?_, _, ?_, hv, rfl⟩
  · rcases hs with ⟨_, h1, h2⟩ | ⟨_, h⟩
    · exact .inl ⟨h1, h2⟩
    · exact .inr h
  · have := unmarshalG1_marshalG1 _ hv []
    simpa [sign, evalOps, hashToPoint] using this

example : ∃ wx wy, wx < p ∧ wy < p ∧ sign evalOps (2 ^ 300 + 7) [1, 2, 3] = be32 wx ++ be32 wy :=
  let ⟨wx, wy, h1, h2, h3, _⟩ := sign_emits_canonical_words (2 ^ 300 + 7) [1, 2, 3]
  ⟨wx, wy, h1, h2, h3⟩

/-- the secret 0 (and every multiple of r) emits the identity: 64 zero bytes -/
theorem sign_zero_key (msg : Bytes) : sign evalOps 0 msg = List.replicate 64 0 := rfl

/-- **values ≥ r**: the signature is a function of x mod r -/
theorem sign_scalar_mod_r (x : Nat) (msg : Bytes) :
    sign evalOps x msg = sign evalOps (x % r) msg := by
  show marshalG1 (G1.smul x (G1.smul (keccakScalar msg) g1gen)) =
    marshalG1 (G1.smul (x % r) (G1.smul (keccakScalar msg) g1gen))
  rw [g1_smul_mod_r x _ (.smul _ .base)]

example (msg : Bytes) : sign evalOps r msg = List.replicate 64 0 := by
  rw [sign_scalar_mod_r, Nat.mod_self]; rfl
example (msg : Bytes) : sign evalOps (r + 1) msg = sign evalOps 1 msg := by
  rw [sign_scalar_mod_r]; rfl

/-- **every public key x·g₂, for every scalar**: a valid G2 element whose encoding is 0x00 (identity) or
0x01 followed by four canonical words, imaginary parts first; it parses back to the same element -/
theorem pubkey_emits_canonical_words (x : Nat) :
    G2.valid (G2.smul x g2gen) = true ∧
    ((G2.smul x g2gen = .inf ∧ marshalG2 (G2.smul x g2gen) = [0]) ∨
      ∃ a b c d, a < p ∧ b < p ∧ c < p ∧ d < p ∧ G2.smul x g2gen = .aff ⟨a, b⟩ ⟨c, d⟩ ∧
        marshalG2 (G2.smul x g2gen) = [1] ++ be32 a ++ be32 b ++ be32 c ++ be32 d ∧
        (marshalG2 (G2.smul x g2gen)).length = 129 ∧ G2.onCurve (G2.smul x g2gen) = true) ∧
    unmarshalG2 (marshalG2 (G2.smul x g2gen)) = .ok (G2.smul x g2gen) := by
  have hv := pubkey_valid x
  refine ⟨hv, marshalG2_words _ hv, ?_⟩
  have := unmarshalG2_marshalG2 _ hv []
  simpa using this

/-- the key is a function of x mod r; x ≡ 0 gives the identity key (the 1-byte encoding) -/
theorem pubkey_scalar_mod_r (x : Nat) :
    G2.smul x g2gen = G2.smul (x % r) g2gen ∧ G2.smul 0 g2gen = .inf ∧ marshalG2 (G2.smul 0 g2gen) = [0] :=
  ⟨pubkey_mod_r x, rfl, rfl⟩

example : G2.smul r g2gen = .inf := by rw [(pubkey_scalar_mod_r r).1, Nat.mod_self]; rfl
example : G2.valid (G2.smul (2 ^ 300 + 5) g2gen) = true := (pubkey_emits_canonical_words _).1
set_option maxRecDepth 100000 in
example : (marshalG2 (G2.smul 1 g2gen)).length = 129 := by decide +kernel

/-! ## regenerated source text -/

/-- the statements of `sign/bls/bls.go` and `pointGT.PairingCheck` that `Model/Bls.lean` transcribes -/
theorem gen_bls_source_pinned :
    Gen.Bls.bls_hashToPoint_src = ["func hashToPoint(suite suites.Suite, msg []byte) kyber.Point {",
      "hash := sha3.NewLegacyKeccak256()", "var buf []byte", "hash.Write(msg)", "buf = hash.Sum(buf)",
      "x := suite.G1().Scalar().SetBytes(buf)", "point := suite.G1().Point().Mul(x, nil)", "return point", "}"] ∧
    Gen.Bls.bls_Verify_src = ["func Verify(suite suites.Suite, X kyber.Point, msg, sig []byte) error {",
      "HM := hashToPoint(suite, msg)", "s := suite.G1().Point()",
      "if err := s.UnmarshalBinary(sig); err != nil {", "return err", "}", "s.Neg(s)",
      "if !suite.PairingCheck([]kyber.Point{s, HM}, []kyber.Point{suite.G2().Point().Base(), X}) {",
      "return errors.New(\"bls: invalid signature\")", "}", "return nil", "}"] ∧
    Gen.Bls.bls_Sign_src = ["func Sign(suite suites.Suite, x kyber.Scalar, msg []byte) ([]byte, error) {",
      "HM := hashToPoint(suite, msg)", "xHM := HM.Mul(x, HM)", "s, err := xHM.MarshalBinary()",
      "if err != nil {", "return nil, err", "}", "return s, nil", "}"] ∧
    Gen.Bls.pointGT_PairingCheck_src = ["func (p *pointGT) PairingCheck(a []kyber.Point, b []kyber.Point) bool {",
      "acc := new(gfP12)", "acc.SetOne()", "for i := 0; i < len(a); i++ {", "ap := a[i].(*pointG1).g",
      "bp := b[i].(*pointG2).g", "if ap.IsInfinity() || bp.IsInfinity() {", "continue", "}",
      "acc.Mul(acc, miller(bp, ap))", "}", "return finalExponentiation(acc).IsOne()", "}"] := by decide

/-- the bn256 suite glue and the point wrappers `bls.go` goes through: `suite.G1()/G2()/GT()` hand out the
group objects `NewSuite` made, their `Point()`/`Scalar()` make fresh values (scalars mod `Order`),
`Suite.PairingCheck` is `pointGT.PairingCheck`, `Mul(s, nil)` multiplies the generator (`curveGen`,
`twistGen`), `Neg` negates -/
theorem gen_suite_glue_pinned :
    Gen.Bls.Suite_G1_src = ["func (s *Suite) G1() kyber.Group {", "return s.g1", "}"] ∧
    Gen.Bls.Suite_G2_src = ["func (s *Suite) G2() kyber.Group {", "return s.g2", "}"] ∧
    Gen.Bls.Suite_GT_src = ["func (s *Suite) GT() kyber.Group {", "return s.gt", "}"] ∧
    Gen.Bls.Suite_PairingCheck_src = ["func (s *Suite) PairingCheck(a []kyber.Point, b []kyber.Point) bool {",
      "return s.GT().Point().(*pointGT).PairingCheck(a, b)", "}"] ∧
    Gen.Bls.NewSuite_src = ["func NewSuite() *Suite {", "s := &Suite{commonSuite: &commonSuite{}}",
      "s.g1 = &groupG1{commonSuite: s.commonSuite}", "s.g2 = &groupG2{commonSuite: s.commonSuite}",
      "s.gt = &groupGT{commonSuite: s.commonSuite}", "return s", "}"] ∧
    Gen.Bls.groupG1_Point_src = ["func (g *groupG1) Point() kyber.Point {", "return newPointG1()", "}"] ∧
    Gen.Bls.groupG2_Point_src = ["func (g *groupG2) Point() kyber.Point {", "return newPointG2()", "}"] ∧
    Gen.Bls.common_Scalar_src = ["func (c *common) Scalar() kyber.Scalar {", "return mod.NewInt64(0, Order)", "}"] ∧
    Gen.Bls.pointG1_Mul_src = ["func (p *pointG1) Mul(s kyber.Scalar, q kyber.Point) kyber.Point {",
      "if q == nil {", "q = newPointG1().Base()", "}", "t := s.(*mod.Int).V", "r := q.(*pointG1).g",
      "p.g.Mul(r, &t)", "return p", "}"] ∧
    Gen.Bls.pointG2_Mul_src = ["func (p *pointG2) Mul(s kyber.Scalar, q kyber.Point) kyber.Point {",
      "if q == nil {", "q = newPointG2().Base()", "}", "t := s.(*mod.Int).V", "r := q.(*pointG2).g",
      "p.g.Mul(r, &t)", "return p", "}"] ∧
    Gen.Bls.pointG1_Neg_src = ["func (p *pointG1) Neg(q kyber.Point) kyber.Point {", "x := q.(*pointG1).g",
      "p.g.Neg(x)", "return p", "}"] ∧
    Gen.Bls.pointG1_Base_src = ["func (p *pointG1) Base() kyber.Point {", "p.g.Set(curveGen)", "return p", "}"] ∧
    Gen.Bls.pointG2_Base_src = ["func (p *pointG2) Base() kyber.Point {", "p.g.Set(twistGen)", "return p", "}"] := by
  decide

/-- what `Model/BlsHist.lean` transcribes of the threshold layer: `tbls.Verify` = index (2 bytes big-endian),
`bls.Verify` with the key `PubPoly.Eval(i)` (Horner at i+1) on `sig[2:]` -/
theorem gen_tbls_source_pinned :
    Gen.Bls.tbls_Verify_src = ["func Verify(suite suites.Suite, public *share.PubPoly, msg, sig []byte) error {",
      "s := SigShare(sig)", "i, err := s.Index()", "if err != nil {", "return err", "}",
      "return bls.Verify(suite, public.Eval(i).V, msg, s.Value())", "}"] ∧
    Gen.Bls.SigShare_Index_src = ["func (s SigShare) Index() (int, error) {", "var index uint16",
      "buf := bytes.NewReader(s)", "err := binary.Read(buf, binary.BigEndian, &index)", "if err != nil {",
      "return -1, err", "}", "return int(index), nil", "}"] ∧
    Gen.Bls.SigShare_Value_src = ["func (s *SigShare) Value() []byte {", "return []byte(*s)[2:]", "}"] ∧
    Gen.Bls.PubPoly_Eval_src = ["func (p *PubPoly) Eval(i int) *PubShare {",
      "xi := p.g.Scalar().SetInt64(1 + int64(i))", "v := p.g.Point().Null()",
      "for j := p.Threshold() - 1; j >= 0; j-- {", "v.Mul(xi, v)", "v.Add(v, p.commits[j])", "}",
      "return &PubShare{i, v}", "}"] := by decide

/-- **no package-level state**: neither package declares a variable; `bls` imports no `sync`/`bytes`/…;
the packages consist of exactly these functions -/
theorem gen_no_package_state :
    Gen.Bls.bls_package_vars = [] ∧ Gen.Bls.tbls_package_vars = [] ∧
    Gen.Bls.bls_imports = ["crypto/cipher", "errors", "github.com/DOSNetwork/core/suites",
      "github.com/dedis/kyber", "golang.org/x/crypto/sha3"] ∧
    Gen.Bls.tbls_imports = ["bytes", "encoding/binary", "errors", "github.com/DOSNetwork/core/share",
      "github.com/DOSNetwork/core/sign/bls", "github.com/DOSNetwork/core/suites"] ∧
    Gen.Bls.bls_funcs = ["NewKeyPair", "Sign", "Verify", "hashToPoint"] ∧
    Gen.Bls.tbls_funcs = ["Recover", "SigShare.Index", "SigShare.Value", "Sign", "Verify", "sliceUniqMap"] := by
  decide

/-- the other emitter and the two coordinate splitters the contract calls go through, as `Model/Codec.lean`
(`decodePubKey`, `sigToBigInt`) and the `kp` cases transcribe them: `NewKeyPair` = (x, x·G2 base) with x picked
from the stream; `decodePubKey` answers with an ERROR below 129 bytes (the identity marshals to one byte) and
else reads the words at 1, 33, 65, 97; `ToBigInt` leaves (0, 0) below 32 bytes, else `[0:32]` and `[32:]` -/
theorem gen_splitters_pinned :
    Gen.Bls.bls_NewKeyPair_src = ["func NewKeyPair(suite suites.Suite, random cipher.Stream) (kyber.Scalar, kyber.Point) {",
      "x := suite.G2().Scalar().Pick(random)", "X := suite.G2().Point().Mul(x, nil)", "return x, X", "}"] ∧
    Gen.Bls.dkg_decodePubKey_src = ["func decodePubKey(pubKey kyber.Point) (pubKeyCoor [4]*big.Int, err error) {",
      "pubKeyMar, err := pubKey.MarshalBinary()", "if err != nil {", "return", "}",
      "if len(pubKeyMar) < 32*4+1 {", "err = errors.New(\"public key is the point at infinity\")", "return", "}",
      "for i := 0; i < 4; i++ {", "pubKeyCoor[i] = new(big.Int).SetBytes(pubKeyMar[32*i+1 : 32*i+33])", "}",
      "return", "}"] ∧
    Gen.Bls.Signature_ToBigInt_src = ["func (m *Signature) ToBigInt() (x, y *big.Int) {", "x = new(big.Int)",
      "y = new(big.Int)", "if len(m.Signature) < 32 {", "return", "}", "x.SetBytes(m.Signature[0:32])",
      "y.SetBytes(m.Signature[32:])", "return", "}"] := by decide

/-- **group/bn256 keeps no mutable package-level state**: the complete list of its package-level variables
(file, name, written outside `init` — assigned, `++`, address taken, a method called on it) is exactly the
constants, generators and reflect types below; only `hasBMI2` (CPU feature flag, set by the C10 hook) counts as
written.  A cache / pool / memo table / counter added to the package (`var g1EqualBuf = sync.Pool{…}`,
`var g2Checked = struct{…}`, `var millerCalls uint32`) changes this list -/
theorem gen_bn256_package_state :
    Gen.Bls.bn256_package_vars = [("constants.go", "u", false), ("constants.go", "Order", false),
      ("constants.go", "P", false), ("constants.go", "p2", false), ("constants.go", "np", false),
      ("constants.go", "rN1", false), ("constants.go", "r2", false), ("constants.go", "r3", false),
      ("constants.go", "xiToPMinus1Over6", false), ("constants.go", "xiToPMinus1Over3", false),
      ("constants.go", "xiToPMinus1Over2", false), ("constants.go", "xiToPSquaredMinus1Over3", false),
      ("constants.go", "xiTo2PSquaredMinus2Over3", false), ("constants.go", "xiToPSquaredMinus1Over6", false),
      ("constants.go", "xiTo2PMinus2Over3", false), ("curve.go", "curveB", false), ("curve.go", "curveGen", false),
      ("gfp.go", "hasBMI2", true), ("gfp12.go", "gfP12Gen", false), ("gfp12.go", "gfP12Inf", false),
      ("optate.go", "sixuPlus2NAF", false), ("suite.go", "aScalar", false), ("suite.go", "aPoint", false),
      ("suite.go", "aPointG1", false), ("suite.go", "aPointG2", false), ("suite.go", "aPointGT", false),
      ("suite.go", "tScalar", false), ("suite.go", "tPoint", false), ("suite.go", "tPointG1", false),
      ("suite.go", "tPointG2", false), ("suite.go", "tPointGT", false), ("twist.go", "twistB", false),
      ("twist.go", "twistGen", false)] := by decide

end Dos.Props.C06Emit

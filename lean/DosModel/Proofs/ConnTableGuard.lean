import DosModel.Proofs.ConnTableServe

/-! What the duplicate-connection guard of receiveHandler buys: at a node, an accepted connection that is
still running IS the table entry of its peer — so a Reply, which picks the connection by peer id, goes
back on the connection the request came in on.  (Configuration of the code, `Cfg.good`.) -/
set_option linter.unusedSimpArgs false
namespace Dos.ConnTable
open Dos

theorem not_mem_eraseIdx_of_count_le_one {α : Type} [BEq α] [LawfulBEq α] :
    ∀ (l : List α) (k : Nat) (x : α), l.count x ≤ 1 → l[k]? = some x → x ∉ l.eraseIdx k
  | [], _, _, _, h => by simp at h
  | a :: l, 0, x, hc, h => by
    simp only [List.getElem?_cons_zero, Option.some.injEq] at h
    subst h
    simp only [List.count_cons, beq_self_eq_true, if_true] at hc
    simp only [List.eraseIdx_zero, List.tail_cons]
    exact List.count_eq_zero.mp (by omega)
  | a :: l, k + 1, x, hc, h => by
    simp only [List.getElem?_cons_succ] at h
    have hx : x ∈ l := List.mem_of_getElem? h
    have h1 : 1 ≤ l.count x := List.one_le_count_iff.mpr hx
    simp only [List.count_cons] at hc
    have hax : (a == x) = false := by
      cases hb : (a == x)
      · rfl
      · simp [hb] at hc; omega
    simp only [hax, Bool.false_eq_true, if_false, Nat.add_zero] at hc
    simp only [List.eraseIdx_cons_succ, List.mem_cons, not_or]
    refine ⟨fun e => by rw [e] at hax; simp at hax, not_mem_eraseIdx_of_count_le_one l k x hc h⟩

structure GuardInv (s : Net) : Prop where
  /-- an accepted connection that still runs is its peer's entry -/
  u : ∀ c, c < s.nconn → (s.conns c).regA = true → (s.conns c).retA = false → s.ideal (s.conns c).a = false →
        (s.nodes (s.conns c).a).inb (s.conns c).d = some c
  /-- while a removal for `id` is on the way, no accepted connection from `id` runs -/
  v : ∀ n id, s.ideal n = false → (false, id) ∈ (s.nodes n).rm →
        ∀ c, c < s.nconn → (s.conns c).a = n → (s.conns c).d = id → (s.conns c).regA = true → (s.conns c).retA = true
  /-- … and the entry it is going to delete is still there (so the guard keeps new ones out) -/
  v' : ∀ n id, s.ideal n = false → (false, id) ∈ (s.nodes n).rm → (s.nodes n).inb id ≠ none
  /-- at most one removal per peer is on the way -/
  v'' : ∀ n id, s.ideal n = false → (s.nodes n).rm.count (false, id) ≤ 1
  /-- a held message remembers the connection it came in on -/
  hc : ∀ n h, h ∈ (s.nodes n).held → h.conn < s.nconn ∧ (s.conns h.conn).a = n ∧ (s.conns h.conn).d = h.sender ∧
        (s.conns h.conn).regA = true

theorem GuardInv.init (ideal : Nat → Bool) : GuardInv (init ideal) where
  u := by intro c h; simp [ConnTable.init] at h
  v := by intro n id _ h; simp [ConnTable.init] at h
  v' := by intro n id _ h; simp [ConnTable.init] at h
  v'' := by intro n id _; simp [ConnTable.init]
  hc := by intro n h hh; simp [ConnTable.init] at hh

/-- an event that opens no connection, leaves every `retA`, every inbound table and the removals reported
to receiveHandler alone -/
theorem GuardInv.frame {s s' : Net} (hG : GuardInv s)
    (hn : s'.nconn = s.nconn) (hideal : s'.ideal = s.ideal)
    (hid : ∀ c, SameId (s.conns c) (s'.conns c))
    (hret : ∀ c, (s'.conns c).retA = (s.conns c).retA)
    (hinb : ∀ n, (s'.nodes n).inb = (s.nodes n).inb)
    (hrm : ∀ n id, ((false, id) ∈ (s'.nodes n).rm ↔ (false, id) ∈ (s.nodes n).rm) ∧
        (s'.nodes n).rm.count (false, id) = (s.nodes n).rm.count (false, id))
    (hheld : ∀ n h, h ∈ (s'.nodes n).held → h ∈ (s.nodes n).held ∨
        (h.conn < s.nconn ∧ (s.conns h.conn).a = n ∧ (s.conns h.conn).d = h.sender ∧ (s.conns h.conn).regA = true)) :
    GuardInv s' where
  u := by
    intro c hc hr hra hi
    obtain ⟨e1, e2, _, e4⟩ := hid c
    rw [hn] at hc; rw [e4] at hr; rw [hret] at hra; rw [hideal, e2] at hi
    rw [e2, e1, hinb]; exact hG.u c hc hr hra hi
  v := by
    intro n id hi hm c hc ha hd hr
    obtain ⟨e1, e2, _, e4⟩ := hid c
    rw [hideal] at hi; rw [hn] at hc; rw [e2] at ha; rw [e1] at hd; rw [e4] at hr
    rw [hret]; exact hG.v n id hi ((hrm n id).1.mp hm) c hc ha hd hr
  v' := by
    intro n id hi hm; rw [hideal] at hi; rw [hinb]; exact hG.v' n id hi ((hrm n id).1.mp hm)
  v'' := by intro n id hi; rw [hideal] at hi; rw [(hrm n id).2]; exact hG.v'' n id hi
  hc := by
    intro n h hh
    have key : h.conn < s.nconn ∧ (s.conns h.conn).a = n ∧ (s.conns h.conn).d = h.sender ∧ (s.conns h.conn).regA = true := by
      rcases hheld n h hh with h1 | h1
      · exact hG.hc n h h1
      · exact h1
    obtain ⟨e1, e2, _, e4⟩ := hid h.conn
    rw [hn, e1, e2, e4]; exact key

theorem GuardInv.retAtD {s : Net} (hG : GuardInv s) (c : Nat) : GuardInv (retAtD Cfg.good s c) := by
  refine hG.frame (by simp) (by simp) ?_ ?_ ?_ ?_ ?_
  · intro e; rw [retAtD_conns]; split <;> exact ⟨rfl, rfl, rfl, rfl⟩
  · intro e; rw [retAtD_conns]; split <;> rfl
  · intro n; exact (retAtD_tabs _ _ _ n).2
  · intro n id; rw [retAtD_nodes]; split
    · simp [reportD_good, List.count_append]
    · exact ⟨Iff.rfl, rfl⟩
  · intro n h hh; left; rw [retAtD_nodes] at hh; split at hh <;> exact hh

theorem GuardInv.setConn_same {s : Net} (hG : GuardInv s) (c : Nat) (f : Conn → Conn)
    (hid : SameId (s.conns c) (f (s.conns c))) (hA : (f (s.conns c)).retA = (s.conns c).retA) :
    GuardInv (s.setConn c f) := by
  refine hG.frame (by simp) (by simp) ?_ ?_ (by intro n; simp) (by intro n id; simp) (by intro n h hh; left; simpa using hh)
  · intro e; rw [setConn_conns]; split
    · rename_i h; subst h; exact hid
    · exact ⟨rfl, rfl, rfl, rfl⟩
  · intro e; rw [setConn_conns]; split
    · rename_i h; subst h; exact hA
    · rfl

theorem GuardInv.setReqs {s : Net} (hG : GuardInv s) (rq : Nat → Req) : GuardInv { s with reqs := rq } :=
  ⟨hG.u, hG.v, hG.v', hG.v'', hG.hc⟩

theorem GuardInv.setNreq {s : Net} (hG : GuardInv s) (k : Nat) (rq : Nat → Req) : GuardInv { s with nreq := k, reqs := rq } :=
  ⟨hG.u, hG.v, hG.v', hG.v'', hG.hc⟩

theorem GuardInv.hand {s : Net} (hG : GuardInv s) (i c : Nat) : GuardInv (hand Cfg.good s i c) := by
  cases hcl : (s.conns c).clD
  · rw [hand_open _ s i c hcl]
    have := hG.setConn_same c (handF Cfg.good s i c) ⟨rfl, rfl, rfl, rfl⟩ rfl
    exact ⟨this.u, this.v, this.v', this.v'', this.hc⟩
  · rw [hand_closed _ s i c hcl]; exact hG

/-- the accepting end of `c` stops running: its removal is reported -/
theorem GuardInv.retAtA {s : Net} (hG : GuardInv s) (c : Nat) (hc : c < s.nconn) : GuardInv (retAtA Cfg.good s c) := by
  by_cases hact : (s.conns c).retA = false ∧ (s.conns c).regA = true
  case neg =>
    -- nothing happens
    have hconns : ∀ e, (ConnTable.retAtA Cfg.good s c).conns e = s.conns e := by
      intro e; rw [retAtA_conns]; split
      · rename_i h; exact absurd h.2 hact
      · rfl
    have hnodes : ∀ m, (ConnTable.retAtA Cfg.good s c).nodes m = s.nodes m := by
      intro m; rw [retAtA_nodes]; split
      · rename_i h; exact absurd h.2 hact
      · rfl
    exact hG.frame (by simp) (by simp) (fun e => by rw [hconns]; exact ⟨rfl, rfl, rfl, rfl⟩) (fun e => by rw [hconns])
      (fun n => by rw [hnodes]) (fun n id => by rw [hnodes]; exact ⟨Iff.rfl, rfl⟩) (fun n h hh => by rw [hnodes] at hh; exact Or.inl hh)
  case pos =>
  obtain ⟨hrA, hrg⟩ := hact
  have hconns : ∀ e, (ConnTable.retAtA Cfg.good s c).conns e = if e = c then { s.conns e with retA := true } else s.conns e := by
    intro e; rw [retAtA_conns]
    by_cases he : e = c
    · rw [if_pos ⟨he, hrA, hrg⟩, if_pos he]
    · rw [if_neg (fun h => he h.1), if_neg he]
  have hnodes : ∀ m, (ConnTable.retAtA Cfg.good s c).nodes m =
      if m = (s.conns c).a then { s.nodes m with rm := (s.nodes m).rm ++ [(false, (s.conns c).d)] } else s.nodes m := by
    intro m; rw [retAtA_nodes]
    by_cases hm : m = (s.conns c).a
    · rw [if_pos ⟨hm, hrA, hrg⟩, if_pos hm, reportA_good]
    · rw [if_neg (fun h => hm h.1), if_neg hm]
  have hid : ∀ e, SameId (s.conns e) ((ConnTable.retAtA Cfg.good s c).conns e) := by
    intro e; rw [hconns]; split <;> exact ⟨rfl, rfl, rfl, rfl⟩
  have hinb : ∀ m, ((ConnTable.retAtA Cfg.good s c).nodes m).inb = (s.nodes m).inb := fun m => (retAtA_tabs _ _ _ m).2
  have hretA : ∀ e, ((ConnTable.retAtA Cfg.good s c).conns e).retA = true → e = c ∨ (s.conns e).retA = true := by
    intro e h; rw [hconns] at h; split at h
    · left; assumption
    · right; exact h
  constructor
  · intro e he hr hra hi
    simp only [retAtA_nconn, retAtA_ideal] at he hi
    obtain ⟨e1, e2, _, e4⟩ := hid e
    rw [e4] at hr; rw [e2] at hi
    have hne : e ≠ c := by
      intro h; subst h; rw [hconns, if_pos rfl] at hra; simp at hra
    rw [hconns, if_neg hne] at hra
    rw [e2, e1, hinb]; exact hG.u e he hr hra hi
  · intro n id hi hm e he ha hd hr
    simp only [retAtA_nconn, retAtA_ideal] at he hi
    obtain ⟨e1, e2, _, e4⟩ := hid e
    rw [e2] at ha; rw [e1] at hd; rw [e4] at hr
    by_cases hec : e = c
    · subst hec; rw [hconns, if_pos rfl]
    · rw [hconns, if_neg hec]
      rw [hnodes] at hm
      split at hm
      · rename_i hna
        simp only [List.mem_append, List.mem_singleton, Prod.mk.injEq, true_and] at hm
        rcases hm with hm | hm
        · exact hG.v n id hi hm e he ha hd hr
        · -- the new report: `c` was its peer's entry, so `e`, if it still ran, would be `c`
          cases hre : (s.conns e).retA
          · exfalso
            have h1 := hG.u e he hr hre (by rw [ha]; exact hi)
            have h2 := hG.u c hc hrg hrA (by rw [← hna]; exact hi)
            rw [ha, hd, hm] at h1; rw [← hna] at h2
            rw [h1] at h2; simp only [Option.some.injEq] at h2; exact hec h2
          · rfl
      · exact hG.v n id hi hm e he ha hd hr
  · intro n id hi hm
    simp only [retAtA_ideal] at hi
    rw [hinb]; rw [hnodes] at hm
    split at hm
    · rename_i hna
      simp only [List.mem_append, List.mem_singleton, Prod.mk.injEq, true_and] at hm
      rcases hm with hm | hm
      · exact hG.v' n id hi hm
      · have h2 := hG.u c hc hrg hrA (by rw [← hna]; exact hi)
        rw [← hna, ← hm] at h2; rw [h2]; simp
    · exact hG.v' n id hi hm
  · intro n id hi
    simp only [retAtA_ideal] at hi
    rw [hnodes]; split
    · rename_i hna
      simp only [List.count_append, List.count_singleton]
      split
      · rename_i hb
        have hidd : (s.conns c).d = id := by simpa using hb
        -- nothing was on the way for this peer: `c` still ran
        have : (s.nodes n).rm.count (false, id) = 0 := by
          rw [List.count_eq_zero]
          intro hm
          have := hG.v n id hi hm c hc hna.symm hidd hrg
          rw [hrA] at this; simp at this
        omega
      · have := hG.v'' n id hi; omega
    · exact hG.v'' n id hi
  · intro n h hh
    simp only [retAtA_nconn]
    rw [hnodes] at hh
    have hh' : h ∈ (s.nodes n).held := by split at hh <;> exact hh
    obtain ⟨e1, e2, _, e4⟩ := hid h.conn
    rw [e1, e2, e4]; exact hG.hc n h hh'

theorem GuardInv.setHeld {s : Net} (hG : GuardInv s) (n : Nat) (f : Node → Node)
    (hi : (f (s.nodes n)).inb = (s.nodes n).inb) (hr : (f (s.nodes n)).rm = (s.nodes n).rm)
    (hh : ∀ h, h ∈ (f (s.nodes n)).held → h ∈ (s.nodes n).held ∨
      (h.conn < s.nconn ∧ (s.conns h.conn).a = n ∧ (s.conns h.conn).d = h.sender ∧ (s.conns h.conn).regA = true)) :
    GuardInv (s.setNode n f) := by
  refine hG.frame (by simp) (by simp) (fun c => ⟨rfl, rfl, rfl, rfl⟩) (fun c => rfl) ?_ ?_ ?_
  · intro m; rw [setNode_nodes]; split
    · rename_i h; subst h; exact hi
    · rfl
  · intro m id; rw [setNode_nodes]; split
    · rename_i h; subst h; rw [hr]; exact ⟨Iff.rfl, rfl⟩
    · exact ⟨Iff.rfl, rfl⟩
  · intro m h hm; rw [setNode_nodes] at hm; split at hm
    · rename_i h'; subst h'; exact hh h hm
    · exact Or.inl hm

theorem GuardInv.openConn {s : Net} (hG : GuardInv s) (a x : Nat) : GuardInv (openConn Cfg.good s a x x) := by
  have hcn : ∀ e, e < s.nconn → (ConnTable.openConn Cfg.good s a x x).conns e = s.conns e := by
    intro e he; rw [openConn_conns]; simp [Nat.ne_of_lt he]
  have hnew : (ConnTable.openConn Cfg.good s a x x).conns s.nconn = mkConn Cfg.good s a x x := by
    rw [openConn_conns]; simp
  -- what the guard saw
  have href : refused Cfg.good s a x = (!s.ideal x && ((s.nodes x).inb a).isSome) := by
    simp [refused, Cfg.good, keyVal]
  constructor
  · intro c hc hr hra hi
    simp only [openConn_nconn, openConn_ideal] at hc hi
    by_cases hcn' : c = s.nconn
    · subst hcn'
      rw [hnew] at hr hra hi ⊢
      simp only [mkConn] at hr hi ⊢
      rw [openConn_good_inb]
      have hnr : refused Cfg.good s a x = false := by
        cases h : refused Cfg.good s a x
        · rfl
        · simp [h] at hr
      rw [if_pos ⟨rfl, by simp [hi, hnr]⟩]; simp [setTab]
    · have hlt : c < s.nconn := by omega
      rw [hcn c hlt] at hr hra hi ⊢
      rw [openConn_good_inb]
      have old := hG.u c hlt hr hra hi
      split
      · rename_i hcond
        obtain ⟨hax, hnr⟩ := hcond
        simp only [setTab]
        split
        · -- the stored key is this connection's peer: then the guard would have fired
          rename_i hda
          exfalso
          rw [hax, hda] at old
          have : refused Cfg.good s a x = true := by rw [href]; simp [old]; rw [← hax]; exact hi
          simp [this] at hnr
        · exact old
      · exact old
  · intro n id hi hm c hc ha hd hr
    simp only [openConn_nconn, openConn_ideal] at hc hi
    rw [openConn_rm] at hm
    by_cases hcn' : c = s.nconn
    · subst hcn'
      exfalso
      rw [hnew] at ha hd hr
      simp only [mkConn] at ha hd hr
      -- a connection from `id` was just accepted at `n` although a removal for `id` is on the way
      have hne := hG.v' n id hi hm
      have hnr : refused Cfg.good s a x = false := by
        cases h : refused Cfg.good s a x
        · rfl
        · simp [h] at hr
      rw [href] at hnr
      subst ha hd
      cases hin : (s.nodes x).inb a with
      | none => exact hne hin
      | some c' => simp [hin, hi] at hnr
    · have hlt : c < s.nconn := by omega
      rw [hcn c hlt] at ha hd hr ⊢
      exact hG.v n id hi hm c hlt ha hd hr
  · intro n id hi hm
    simp only [openConn_ideal] at hi
    rw [openConn_rm] at hm
    rw [openConn_good_inb]
    split
    · simp only [setTab]; split
      · simp
      · exact hG.v' n id hi hm
    · exact hG.v' n id hi hm
  · intro n id hi
    simp only [openConn_ideal] at hi
    rw [openConn_rm]; exact hG.v'' n id hi
  · intro n h hh
    rw [openConn_held] at hh
    obtain ⟨h1, h2, h3, h4⟩ := hG.hc n h hh
    simp only [openConn_nconn]
    rw [hcn _ h1]; exact ⟨Nat.lt_succ_of_lt h1, h2, h3, h4⟩

theorem count_false_eraseIdx_true (l : List (Bool × Nat)) (k id id' : Nat) (hk : l[k]? = some (true, id')) :
    ((false, id) ∈ l.eraseIdx k ↔ (false, id) ∈ l) ∧ (l.eraseIdx k).count (false, id) = l.count (false, id) := by
  have hlt : k < l.length := by
    rcases List.getElem?_eq_some_iff.mp hk with ⟨h, _⟩; exact h
  have hsplit : l = l.take k ++ (true, id') :: l.drop (k + 1) := by
    have := List.getElem?_eq_some_iff.mp hk
    obtain ⟨_, hget⟩ := this
    rw [← hget]
    exact (List.take_append_drop k l).symm.trans (by rw [List.drop_eq_getElem_cons hlt])
  rw [List.eraseIdx_eq_take_drop_succ]
  constructor
  · constructor
    · intro h; rw [hsplit]; simp only [List.mem_append, List.mem_cons] at h ⊢
      rcases h with h | h
      · exact Or.inl h
      · exact Or.inr (Or.inr h)
    · intro h; rw [hsplit] at h; simp only [List.mem_append, List.mem_cons, Prod.mk.injEq, Bool.false_eq_true, false_and, false_or] at h
      simp only [List.mem_append]
      rcases h with h | h
      · left
        have : (l.take k ++ (true, id') :: l.drop (k + 1)).take k = l.take k := by rw [← hsplit]
        exact h
      · right; exact h
  · conv => rhs; rw [hsplit]
    simp [List.count_append, List.count_cons]

theorem step_guardInv {s : Net} (_hT : TabInv s) (hG : GuardInv s) (e : Ev) : GuardInv (step Cfg.good s e) := by
  cases e <;> simp only [step]
  case request a b dial =>
    have h0 : GuardInv (newReq s a b) := hG.setNreq _ _
    split
    · exact h0.hand _ _
    · split
      · exact h0.setReqs _
      · rename_i x
        split
        · exact h0.setReqs _
        · rename_i hx
          have hxb : x = b := by
            simp only [Cfg.good, Bool.true_and, bne_iff_ne, ne_eq, Decidable.not_not] at hx; exact hx
          subst hxb
          have h2 := (h0.openConn a x).hand s.nreq s.nconn
          split
          · exact h2.retAtD _
          · exact h2
  case deliverReq c =>
    split
    · rename_i hc
      split
      · exact hG
      · have h1 := hG.setConn_same c (fun x => { x with reqQ := ‹List (Nonce × Nat)› }) ⟨rfl, rfl, rfl, rfl⟩ rfl
        split
        · rename_i hlive
          refine h1.setHeld _ _ rfl rfl ?_
          intro h hh
          simp only [List.mem_append, List.mem_singleton] at hh
          rcases hh with hh | hh
          · exact Or.inl hh
          · right; subst hh
            simp only [setConn_nconn, setConn_conns_same]
            have : (s.conns c).regA = true := by
              simp only [Bool.and_eq_true] at hlive; exact hlive.1
            refine ⟨hc, ?_, ?_, this⟩ <;> first | rfl | trivial
        · exact h1
    · exact hG
  case appReply b k =>
    split
    · exact hG
    · have h1 : GuardInv (s.setNode b (fun n => { n with held := n.held.eraseIdx k })) :=
        hG.setHeld _ _ rfl rfl (fun h hh => Or.inl (List.mem_of_mem_eraseIdx hh))
      split
      · exact h1
      · split
        · exact h1
        · exact h1.setConn_same _ _ ⟨rfl, rfl, rfl, rfl⟩ rfl
  case deliverReply c =>
    split
    · split
      · exact hG
      · have h1 := hG.setConn_same c (fun x => { x with repQ := ‹List (Nonce × Nat)› }) ⟨rfl, rfl, rfl, rfl⟩ rfl
        split
        · exact h1
        · split
          · exact h1
          · have h2 := h1.setConn_same c (fun x => { x with pend := eraseN x.pend ‹Nonce› }) ⟨rfl, rfl, rfl, rfl⟩ rfl
            split
            · exact ⟨h2.u, h2.v, h2.v', h2.v'', h2.hc⟩
            · exact h2
    · exact hG
  case cut c =>
    split
    · rename_i hc
      have h1 := hG.setConn_same c (fun x => { x with up := false, reqQ := [], repQ := [] }) ⟨rfl, rfl, rfl, rfl⟩ rfl
      exact (h1.retAtD c).retAtA c (by simpa using hc)
    · exact hG
  case reject c atD =>
    split
    · rename_i hc
      split
      · split
        · exact hG
        · exact hG.retAtD c
      · split
        · exact hG
        · exact hG.retAtA c hc
    · exact hG
  case close c atD =>
    split
    · rename_i hc
      split
      · split
        · exact hG
        · have h1 : GuardInv { s with reqs := failAll (s.conns c).pend s.reqs } := hG.setReqs _
          have h2 := h1.setConn_same c (fun x => { x with clD := true, pend := [] }) ⟨rfl, rfl, rfl, rfl⟩ rfl
          exact h2.retAtD c
      · split
        · exact hG
        · have h1 := hG.setConn_same c (fun x => { x with clA := true }) ⟨rfl, rfl, rfl, rfl⟩ rfl
          exact h1.retAtA c (by simpa using hc)
    · exact hG
  case procRm n k =>
    split
    · exact hG
    · rename_i isCall id hk
      cases hic : isCall
      · -- a removal reported to receiveHandler is taken: the entry of `id` goes
        subst hic
        simp only [Bool.false_eq_true, if_false]
        have hnode : ∀ m, ((s.setNode n fun nd => { nd with rm := nd.rm.eraseIdx k, inb := setTab nd.inb id none }).nodes m) =
            if m = n then { s.nodes m with rm := (s.nodes m).rm.eraseIdx k, inb := setTab (s.nodes m).inb id none } else s.nodes m := by
          intro m; rw [setNode_nodes]
        have hmem : (false, id) ∈ (s.nodes n).rm := List.mem_of_getElem? hk
        constructor
        · intro c hc hr hra hi
          simp only [setNode_conns, setNode_nconn, setNode_ideal] at hc hr hra hi ⊢
          have old := hG.u c hc hr hra hi
          rw [hnode]
          by_cases han : (s.conns c).a = n
          · rw [if_pos han]
            simp only [setTab]; split
            · rename_i hd
              exfalso
              have := hG.v n id (by rw [← han]; exact hi) hmem c hc han hd hr
              rw [hra] at this; simp at this
            · exact old
          · rw [if_neg han]; exact old
        · intro m id' hi hm c hc ha hd hr
          simp only [setNode_conns, setNode_nconn, setNode_ideal] at hc ha hd hr hi ⊢
          rw [hnode] at hm
          have hm' : (false, id') ∈ (s.nodes m).rm := by
            split at hm
            · exact List.mem_of_mem_eraseIdx hm
            · exact hm
          exact hG.v m id' hi hm' c hc ha hd hr
        · intro m id' hi hm
          simp only [setNode_ideal] at hi
          rw [hnode] at hm ⊢
          split
          · rename_i hmn
            simp only [hmn, if_true] at hm
            subst hmn
            have hne : id' ≠ id := by
              intro he; subst he
              exact not_mem_eraseIdx_of_count_le_one _ k _ (hG.v'' m id' hi) hk hm
            simp only [setTab, hne, if_false]
            exact hG.v' m id' hi (List.mem_of_mem_eraseIdx hm)
          · rename_i hmn; simp only [hmn, if_false] at hm; exact hG.v' m id' hi hm
        · intro m id' hi
          simp only [setNode_ideal] at hi
          rw [hnode]; split
          · exact Nat.le_trans (List.Sublist.count_le _ (List.eraseIdx_sublist _ _)) (hG.v'' m id' hi)
          · exact hG.v'' m id' hi
        · intro m h hh
          simp only [setNode_conns, setNode_nconn]
          rw [hnode] at hh
          apply hG.hc m h
          split at hh <;> exact hh
      · -- a removal reported to callHandler: receiveHandler's side is untouched
        subst hic
        simp only [if_true]
        refine hG.frame (by simp) (by simp) (fun c => ⟨rfl, rfl, rfl, rfl⟩) (fun c => rfl) ?_ ?_ ?_
        · intro m; rw [setNode_nodes]; split <;> rfl
        · intro m id'; rw [setNode_nodes]; split
          · rename_i hmn; subst hmn; exact count_false_eraseIdx_true _ k id' id hk
          · exact ⟨Iff.rfl, rfl⟩
        · intro m h hh; left; rw [setNode_nodes] at hh; split at hh <;> exact hh
  case disconnect a b =>
    refine hG.frame (by simp) (by simp) (fun c => ⟨rfl, rfl, rfl, rfl⟩) (fun c => rfl) ?_ ?_ ?_
    · intro m; rw [setNode_nodes]; split <;> rfl
    · intro m id'; rw [setNode_nodes]; split <;> exact ⟨Iff.rfl, rfl⟩
    · intro m h hh; left; rw [setNode_nodes] at hh; split at hh <;> exact hh
  case expire i =>
    split
    · exact hG.setReqs _
    · exact hG
  case reset n =>
    have hid : ∀ c, SameId (s.conns c) ((step Cfg.good s (.reset n)).conns c) := by
      intro c; simp only [step]; split <;> exact ⟨rfl, rfl, rfl, rfl⟩
    simp only [step] at hid
    constructor
    · intro c hc hr hra hi
      simp only [] at hc hr hra hi ⊢
      obtain ⟨e1, e2, _, e4⟩ := hid c
      have hraw : (s.conns c).retA = false ∧ (s.conns c).a ≠ n := by
        split at hra
        · simp only [Bool.or_eq_false_iff, decide_eq_false_iff_not] at hra; exact hra
        · rename_i hno; exact ⟨hra, fun h => hno (Or.inr h)⟩
      rw [e4] at hr; rw [e2] at hi ⊢; rw [e1]
      rw [if_neg hraw.2]; exact hG.u c hc hr hraw.1 hi
    · intro m id hi hm c hc ha hd hr
      simp only [] at hm hc ha hd hr hi ⊢
      obtain ⟨e1, e2, _, e4⟩ := hid c
      split at hm
      · simp at hm
      · rename_i hmn
        rw [e2] at ha; rw [e1] at hd; rw [e4] at hr
        have := hG.v m id hi hm c hc ha hd hr
        split
        · simp [this]
        · exact this
    · intro m id hi hm
      simp only [] at hm hi ⊢
      split at hm
      · simp at hm
      · rename_i hmn; simp only [hmn, if_false]; exact hG.v' m id hi hm
    · intro m id hi
      simp only [] at hi ⊢
      split
      · simp
      · exact hG.v'' m id hi
    · intro m h hh
      simp only [] at hh ⊢
      split at hh
      · simp at hh
      · obtain ⟨h1, h2, h3, h4⟩ := hG.hc m h hh
        obtain ⟨e1, e2, _, e4⟩ := hid h.conn
        exact ⟨h1, by rw [e2]; exact h2, by rw [e1]; exact h3, by rw [e4]; exact h4⟩

theorem run_guardInv {s : Net} (hT : TabInv s) (hG : GuardInv s) (evs : List Ev) :
    TabInv (run Cfg.good s evs) ∧ GuardInv (run Cfg.good s evs) := by
  induction evs generalizing s with
  | nil => exact ⟨hT, hG⟩
  | cons e es ih => exact ih (step_tabInv hT e) (step_guardInv hT hG e)

/-- the Reply to a held message goes to the connection the message came in on, as long as that connection's
accepting end still runs (`client.run` has not returned there) -/
theorem reply_target_is_arrival_connection {s : Net} (hG : GuardInv s) (b : Nat) (h : Held) (hh : h ∈ (s.nodes b).held)
    (hib : s.ideal b = false) (hrun : (s.conns h.conn).retA = false) :
    (s.nodes b).inb h.sender = some h.conn := by
  obtain ⟨h1, h2, h3, h4⟩ := hG.hc b h hh
  have := hG.u h.conn h1 h4 hrun (by rw [h2]; exact hib)
  rw [h2, h3] at this; exact this

theorem step_ideal (cfg : Cfg) (s : Net) (e : Ev) : (step cfg s e).ideal = s.ideal := by
  cases e <;> simp only [step]
  case request a b dial =>
    split
    · simp
    · split
      · simp
      · split
        · simp
        · split <;> simp
  case deliverReq c => split <;> (try split) <;> (try split) <;> simp
  case appReply b k => split <;> (try split) <;> (try split) <;> simp
  case deliverReply c =>
    split
    · split
      · rfl
      · split
        · simp
        · split
          · simp
          · split <;> simp
    · rfl
  case cut c => split <;> simp
  case reject c atD => split <;> (try split) <;> (try split) <;> simp
  case close c atD => split <;> (try split) <;> (try split) <;> simp
  case procRm n k => split <;> simp
  case disconnect a b => simp
  case expire i => split <;> simp

theorem run_ideal (cfg : Cfg) (s : Net) (evs : List Ev) : (run cfg s evs).ideal = s.ideal := by
  induction evs generalizing s with
  | nil => rfl
  | cons e es ih => exact (ih (step cfg s e)).trans (step_ideal cfg s e)

/-- … and so the reply frame is put on that very connection (if its wire is up and its accepting end not closed) -/
theorem appReply_on_arrival_connection {s : Net} (hG : GuardInv s) (b k : Nat) (h : Held)
    (hk : (s.nodes b).held[k]? = some h) (hib : s.ideal b = false)
    (hrun : (s.conns h.conn).retA = false) (hcl : (s.conns h.conn).clA = false) (hup : (s.conns h.conn).up = true) :
    ((step Cfg.good s (.appReply b k)).conns h.conn).repQ = (s.conns h.conn).repQ ++ [(h.nonce, h.g)] := by
  have ht := reply_target_is_arrival_connection hG b h (List.mem_of_getElem? hk) hib hrun
  simp only [step, hk, hib, Bool.false_eq_true, if_false, ht, hcl, hup, Bool.not_true, Bool.or_self]
  simp

end Dos.ConnTable

/-
Helper for `Props/C08.lean` (`share_not_derivable`): every term derivable from the wire and the other
members' secrets is `Good` – no name outside the attacker's own, no point that has BOTH the ephemeral
secret and the recipient's long-term secret in its exponent, no key derived from such a point, and a
ciphertext under such a key only if it is the one on the wire.
-/
import DosModel.Model.VssKnows
import Mathlib.Data.List.Perm.Basic

namespace Dos.Vss.Knows

def Good (s : Scene) : T → Prop
  | .name n => n ∈ s.others
  | .pt es => ¬ (s.eph ∈ es ∧ s.long ∈ es)
  | .kdf p _ => Good s p
  | .seal k m => (k = s.key ∧ m = .name s.v) ∨ (Good s k ∧ Good s m)
  | .hash _ => True
  | .pair a b => Good s a ∧ Good s b

theorem key_not_good (s : Scene) : ¬ Good s s.key := by
  simp [Scene.key, Good]

theorem knows_good (s : Scene) (he : s.eph ∉ s.others) (hl : s.long ∉ s.others) (hne : s.eph ≠ s.long)
    {t : T} (h : Knows s.wire t) : Good s t := by
  induction h with
  | init hk =>
    rcases hk with ⟨n, hn, rfl⟩ | ⟨n, _, rfl⟩ | rfl | rfl | rfl | rfl
    · exact hn
    · simp only [Good, List.mem_singleton]; rintro ⟨h1, h2⟩; exact hne (h1.trans h2.symm)
    · simp only [Good, List.mem_singleton]; rintro ⟨h1, h2⟩; exact hne (h1.trans h2.symm)
    · simp only [Good, List.mem_singleton]; rintro ⟨h1, _⟩; exact hne h1
    · simp only [Good, List.mem_singleton]; rintro ⟨_, h2⟩; exact hne h2.symm
    · exact Or.inl ⟨rfl, rfl⟩
  | base => simp [Good]
  | exp _ _ iha ihp =>
    simp only [Good, List.mem_cons] at iha ihp ⊢
    rintro ⟨h1 | h1, h2 | h2⟩
    · exact he (h1 ▸ iha)
    · exact he (h1 ▸ iha)
    · exact hl (h2 ▸ iha)
    · exact ihp ⟨h1, h2⟩
  | perm _ hp ih =>
    simp only [Good] at ih ⊢
    rintro ⟨h1, h2⟩; exact ih ⟨hp.mem_iff.2 h1, hp.mem_iff.2 h2⟩
  | kdf c _ ih => exact ih
  | hash _ _ => trivial
  | enc _ _ ihk ihm => exact Or.inr ⟨ihk, ihm⟩
  | open_ _ _ ihs ihk =>
    rcases ihs with ⟨rfl, _⟩ | ⟨_, hm⟩
    · exact absurd ihk (key_not_good s)
    · exact hm
  | pair _ _ iha ihb => exact ⟨iha, ihb⟩
  | fst _ ih => exact ih.1
  | snd _ ih => exact ih.2

end Dos.Vss.Knows

// Package c03: nothing below threshold / not signed by the group is accepted.
// tbls.Verify and bls.Verify on raw bytes (every single-bit modification of a valid share, of the
// message, of one commitment; the junk catalogue) and tbls.Recover on lists with k < t valid
// distinct members padded with invalid, replayed, re-indexed and foreign entries, against the
// Lean model driver and the independent oracle of props/c02 (math/big + go-ethereum bn256 +
// EVM pairing precompile).
package c03

import (
	"bytes"
	"fmt"
	"math/big"
	"strings"
	"sync"

	"github.com/DOSNetwork/core/sign/bls"
	"github.com/DOSNetwork/core/sign/tbls"

	"verifharness/internal/h"
	"verifharness/props/c02"
)

func init() {
	h.Register(&h.Prop{
		ID: "C03",
		Rule: "cases: ver = tbls.Verify of one entry (valid shares; EVERY single-bit modification of a valid 66-byte share; message and commitment modified; junk catalogue), " +
			"blsver = bls.Verify of a plain signature (valid, every bit of it flipped, wrong key, wrong message, non-identity signatures under the identity key), " +
			"root = polynomials with a root at a member's point (identity share key, t>=2): every junk kind and curve points under that index through ver and rec, " +
			"rec = tbls.Recover with k valid distinct members for EVERY subset of size < t of all 1<=t<=n<=8 (the exhaustive space of the flag, both tiers) and sampled k<t up to n=32, padded with replays in other encodings, " +
			"re-indexed, out-of-range, other-message and foreign-polynomial entries, large groups (n up to 300, member indices around 64 and 256) below threshold with re-encoded replays; " +
			"hist = call sequences sharing a mutable message buffer (m1 shares/signatures offered again after the buffer was overwritten with m2); non-trivial = every case; distinct = distinct case line",
		Gen:        gen,
		Exec:       exec,
		Exhaustive: func(tier string) bool { return true },
	})
}

var memo sync.Map

func exec(line string) h.Result {
	if r, ok := memo.Load(line); ok {
		memo.Delete(line)
		res := r.(h.Result)
		if res.PanicMsg != "" {
			panic(res.PanicMsg)
		}
		return res
	}
	return execLine(line)
}

func catch(f func() string) (out string) {
	defer func() {
		if e := recover(); e != nil {
			out = "panic other:" + h.OneLine(fmt.Sprint(e))
		}
	}()
	return f()
}

// verdict for one verification: want = "ok", "reject" or "" (encoding the decoders may disagree on)
func expectShare(coeffs []*big.Int, hs *big.Int, sig []byte) string {
	c, _ := c02.Classify(coeffs, hs, 1<<16, sig) // no range restriction in Verify
	switch c {
	case "valid":
		return "ok"
	case "ambiguous":
		return ""
	}
	return "reject"
}

func execLine(line string) (res h.Result) {
	w := strings.Fields(line)
	res.Nontrivial = true
	switch w[0] {
	case "rec", "hist":
		res = c02.ExecLine(line)
		res.Nontrivial = true
	case "ver": // ver <h> <pubcoeffs> <msg> <sig>
		hs, coeffs, msg, sig := h.BigDec(w[1]), c02.CSV(w[2]), c02.Msg(w[3]), h.UnHex(w[4])
		if c02.HashScalar(msg).Cmp(hs) != 0 {
			panic("bad case line: h is not keccak256(msg) mod r")
		}
		_, pub := c02.Polys(coeffs)
		res.Impl = catch(func() string {
			if err := tbls.Verify(c02.Suite(), pub, msg, sig); err != nil {
				return "err " + c02.ErrKind(err)
			}
			return "ok"
		})
		want := expectShare(coeffs, hs, sig)
		switch {
		case strings.HasPrefix(res.Impl, "panic"):
			res.Oracle = "verify-panics: " + res.Impl
		case want == "ok" && res.Impl != "ok":
			res.Oracle = "valid-share-rejected: " + res.Impl
		case want == "reject" && res.Impl == "ok":
			res.Oracle = "invalid-share-accepted: tbls.Verify accepted an entry that is not index ‖ x_i·H(m)"
		}
		res.Class = "ver-" + strings.Fields(res.Impl)[len(strings.Fields(res.Impl))-1]
	case "blsver": // blsver <h> <x> <msg> <sig>    key X = x·B2
		hs, x, msg, sig := h.BigDec(w[1]), h.BigDec(w[2]), c02.Msg(w[3]), h.UnHex(w[4])
		if c02.HashScalar(msg).Cmp(hs) != 0 {
			panic("bad case line: h is not keccak256(msg) mod r")
		}
		X := c02.Suite().G2().Point().Mul(c02.Scalar(x), nil)
		res.Impl = catch(func() string {
			if err := bls.Verify(c02.Suite(), X, msg, sig); err != nil {
				return "err " + c02.ErrKind(err)
			}
			return "ok"
		})
		good := c02.G1Bytes(new(big.Int).Mul(x, hs))
		isGood := len(sig) >= 64 && bytes.Equal(sig[:64], good)
		canon := len(sig) >= 64 && new(big.Int).SetBytes(sig[:32]).Cmp(c02.P) < 0 && new(big.Int).SetBytes(sig[32:64]).Cmp(c02.P) < 0
		switch {
		case strings.HasPrefix(res.Impl, "panic"):
			res.Oracle = "verify-panics: " + res.Impl
		case isGood && res.Impl != "ok":
			res.Oracle = "valid-signature-rejected: " + res.Impl
		case !isGood && canon && res.Impl == "ok":
			res.Oracle = "forged-signature-accepted: bls.Verify accepted bytes that are not x·H(m)"
		case res.Impl == "ok" && len(sig) == 64:
			if ok, err := c02.EVMPairingOK(sig, hs, x); !ok {
				res.Oracle = fmt.Sprintf("accepted-signature-fails-evm-pairing: %v", err)
			}
		}
		res.Class = "blsver-" + strings.Fields(res.Impl)[len(strings.Fields(res.Impl))-1]
	default:
		panic("bad case line")
	}
	return
}

func recLine(t, n int, coeffs []*big.Int, msgTok string, es [][]byte) string {
	return fmt.Sprintf("rec %d %d %s %s %s %s", t, n, c02.HashScalar(c02.Msg(msgTok)), c02.CSVOf(coeffs), msgTok, c02.EntriesOf(es))
}

func gen(tier string, rng *h.Rng, emit0 func(string)) {
	var lines []string
	emit := func(l string) { lines = append(lines, l) }
	defer func() {
		c02.Prefetch(lines, execLine, &memo)
		for _, l := range lines {
			emit0(l)
		}
	}()
	thorough := tier == "thorough"

	// 1. every single-bit modification of a valid share, of the message, of one commitment
	nshare := 2
	if thorough {
		nshare = 8
	}
	for k := 0; k < nshare; k++ {
		t := 2 + rng.Intn(4)
		coeffs := c02.RandPoly(rng, t, 4+rng.Intn(2))
		msg := rng.Bytes(1 + rng.Intn(20))
		msgTok := h.Hex(msg)
		hs := c02.HashScalar(msg)
		i := rng.Intn(6)
		v := c02.ValidShare(coeffs, hs, i)
		emit(fmt.Sprintf("ver %s %s %s %s", hs, c02.CSVOf(coeffs), msgTok, h.Hex(v)))
		for bit := 0; bit < len(v)*8; bit++ {
			o := append([]byte{}, v...)
			o[bit/8] ^= 1 << uint(bit%8)
			emit(fmt.Sprintf("ver %s %s %s %s", hs, c02.CSVOf(coeffs), msgTok, h.Hex(o)))
		}
		for bit := 0; bit < len(msg)*8; bit++ {
			m := append([]byte{}, msg...)
			m[bit/8] ^= 1 << uint(bit%8)
			emit(fmt.Sprintf("ver %s %s %s %s", c02.HashScalar(m), c02.CSVOf(coeffs), h.Hex(m), h.Hex(v)))
		}
		for j := range coeffs { // one commitment replaced (public polynomial differs from the signing one)
			for _, d := range []int64{1, -1, 1 << 20} {
				pc := append([]*big.Int{}, coeffs...)
				pc[j] = new(big.Int).Mod(new(big.Int).Add(pc[j], big.NewInt(d)), c02.R)
				emit(fmt.Sprintf("ver %s %s %s %s", hs, c02.CSVOf(pc), msgTok, h.Hex(v)))
			}
		}
		// plain BLS under the group key: every bit of the signature
		x := coeffs[0]
		sig := c02.G1Bytes(new(big.Int).Mul(x, hs))
		emit(fmt.Sprintf("blsver %s %s %s %s", hs, x, msgTok, h.Hex(sig)))
		for bit := 0; bit < len(sig)*8; bit += 1 {
			o := append([]byte{}, sig...)
			o[bit/8] ^= 1 << uint(bit%8)
			emit(fmt.Sprintf("blsver %s %s %s %s", hs, x, msgTok, h.Hex(o)))
		}
		emit(fmt.Sprintf("blsver %s %s %s %s", hs, new(big.Int).Add(x, big.NewInt(1)), msgTok, h.Hex(sig)))
		emit(fmt.Sprintf("blsver %s %s %s %s", hs, x, msgTok, h.Hex(append(append([]byte{}, sig...), 7))))
		emit(fmt.Sprintf("blsver %s %s %s %s", hs, x, msgTok, h.Hex(sig[:63])))
		emit(fmt.Sprintf("blsver %s %s %s -", hs, x, msgTok))
		emit(fmt.Sprintf("blsver %s 0 %s %s", hs, msgTok, h.Hex(make([]byte, 64))))
	}
	// 1b. identity share keys (review B #2): the polynomial has a ROOT at member i's point, t >= 2, so
	// public.Eval(i) is the identity of G2 and the only share that may verify under index i is the
	// identity of G1. A verifier that lets anything pass under an identity key is caught here.
	nroot := 12
	if thorough {
		nroot = 120
	}
	for k := 0; k < nroot; k++ {
		n := 2 + rng.Intn(6)
		t := 2 + rng.Intn(n-1)
		i := rng.Intn(n)
		coeffs := c02.RootPoly(rng, t, i)
		msgTok := h.Hex(rng.Bytes(rng.Intn(20)))
		hs := c02.HashScalar(c02.Msg(msgTok))
		idx := []byte{byte(i >> 8), byte(i)}
		// the true share (identity) and alternative encodings of it
		v := c02.ValidShare(coeffs, hs, i)
		emit(fmt.Sprintf("ver %s %s %s %s", hs, c02.CSVOf(coeffs), msgTok, h.Hex(v)))
		emit(fmt.Sprintf("ver %s %s %s %s", hs, c02.CSVOf(coeffs), msgTok, h.Hex(append(append([]byte{}, v...), c02.Tail(rng)...))))
		// curve points under that index: the base point, random multiples, H(m) itself, another member's share
		for _, kk := range []*big.Int{big.NewInt(1), hs, rng.Big(c02.R), new(big.Int).Sub(c02.R, big.NewInt(1))} {
			emit(fmt.Sprintf("ver %s %s %s %s", hs, c02.CSVOf(coeffs), msgTok, h.Hex(append(append([]byte{}, idx...), c02.G1Bytes(kk)...))))
		}
		o := c02.ValidShare(coeffs, hs, (i+1)%n)
		o[0], o[1] = idx[0], idx[1]
		emit(fmt.Sprintf("ver %s %s %s %s", hs, c02.CSVOf(coeffs), msgTok, h.Hex(o)))
		for kind := 0; kind < c02.NJunk; kind++ {
			emit(fmt.Sprintf("ver %s %s %s %s", hs, c02.CSVOf(coeffs), msgTok, h.Hex(c02.Junk(rng, kind, coeffs, hs, n, i))))
		}
		// plain BLS under the key 0 (identity of G2): only the identity signature verifies
		for _, kk := range []*big.Int{big.NewInt(1), hs, rng.Big(c02.R)} {
			emit(fmt.Sprintf("blsver %s 0 %s %s", hs, msgTok, h.Hex(c02.G1Bytes(kk))))
		}
		emit(fmt.Sprintf("blsver %s 0 %s %s", hs, msgTok, h.Hex(make([]byte, 64))))
		// Recover: t-1 valid members + curve points under the root member's index stay below threshold …
		var others []int
		for _, j := range rng.Perm(n) {
			if j != i {
				others = append(others, j)
			}
		}
		var es [][]byte
		for _, j := range others[:t-1] {
			es = append(es, c02.ValidShare(coeffs, hs, j))
		}
		forged := append(append([]byte{}, idx...), c02.G1Bytes(rng.Big(c02.R))...)
		below := append(append([][]byte{}, es...), forged, o)
		emit(recLine(t, n, coeffs, msgTok, below))
		emit(recLine(t, n, coeffs, msgTok, append([][]byte{forged}, es...)))
		// … and with the identity share they qualify
		emit(recLine(t, n, coeffs, msgTok, append(append([][]byte{forged}, es...), v)))
	}
	// 2. the junk catalogue and valid shares through tbls.Verify
	nj := 6
	if thorough {
		nj = 40
	}
	for k := 0; k < nj; k++ {
		n := 3 + rng.Intn(6)
		t := n/2 + 1
		coeffs := c02.RandPoly(rng, t, rng.Intn(12))
		msgTok := h.Hex(rng.Bytes(rng.Intn(30)))
		hs := c02.HashScalar(c02.Msg(msgTok))
		for kind := 0; kind < c02.NJunk; kind++ {
			e := c02.Junk(rng, kind, coeffs, hs, n, rng.Intn(n))
			emit(fmt.Sprintf("ver %s %s %s %s", hs, c02.CSVOf(coeffs), msgTok, h.Hex(e)))
		}
		for _, i := range []int{0, 1, n - 1, n, 255, 256, 65535} {
			v := c02.ValidShare(coeffs, hs, i)
			emit(fmt.Sprintf("ver %s %s %s %s", hs, c02.CSVOf(coeffs), msgTok, h.Hex(v)))
			emit(fmt.Sprintf("ver %s %s %s %s", hs, c02.CSVOf(coeffs), msgTok, h.Hex(append(v, c02.Tail(rng)...))))
		}
	}
	// 3. EXHAUSTIVE below threshold: every subset of size < t, all 1 <= t <= n <= 8, each with a padding
	kind := 0
	for n := 1; n <= 8; n++ {
		for t := 1; t <= n; t++ {
			coeffs := c02.RandPoly(rng, t, kind)
			kind++
			msgTok := h.Hex(rng.Bytes(rng.Intn(24)))
			hs := c02.HashScalar(c02.Msg(msgTok))
			other := c02.HashScalar(rng.Bytes(6))
			foreign := c02.RandPoly(rng, t, 5)
			for mask := 0; mask < 1<<uint(n); mask++ {
				var es [][]byte
				var in, out []int
				for i := 0; i < n; i++ {
					if mask>>uint(i)&1 == 1 {
						in = append(in, i)
					} else {
						out = append(out, i)
					}
				}
				if len(in) >= t {
					continue
				}
				for _, i := range in {
					es = append(es, c02.ValidShare(coeffs, hs, i))
				}
				// padding: replays of the valid ones (exact and re-encoded), absent members' shares made for
				// another message / another polynomial / under a wrong index, out-of-range evaluations, junk
				pad := rng.Intn(2*t + 2)
				for j := 0; j < pad; j++ {
					switch rng.Intn(8) {
					case 0:
						if len(in) > 0 {
							es = append(es, c02.ValidShare(coeffs, hs, in[rng.Intn(len(in))]))
						}
					case 1:
						if len(in) > 0 {
							es = append(es, append(c02.ValidShare(coeffs, hs, in[rng.Intn(len(in))]), c02.Tail(rng)...))
						}
					case 2:
						if len(out) > 0 {
							es = append(es, c02.ValidShare(coeffs, other, out[rng.Intn(len(out))]))
						}
					case 3:
						if len(out) > 0 {
							es = append(es, c02.ValidShare(foreign, hs, out[rng.Intn(len(out))]))
						}
					case 4: // a present member's point under an absent member's number
						if len(in) > 0 && len(out) > 0 {
							v := c02.ValidShare(coeffs, hs, in[rng.Intn(len(in))])
							o := out[rng.Intn(len(out))]
							v[0], v[1] = byte(o>>8), byte(o)
							es = append(es, v)
						}
					case 5:
						es = append(es, c02.ValidShare(coeffs, hs, n+rng.Intn(4)))
					default:
						es = append(es, c02.Junk(rng, rng.Intn(c02.NJunk), coeffs, hs, n, rng.Intn(n)))
					}
				}
				if rng.Intn(3) == 0 {
					p := rng.Perm(len(es))
					sh := make([][]byte, len(es))
					for a, b := range p {
						sh[a] = es[b]
					}
					es = sh
				}
				emit(recLine(t, n, coeffs, msgTok, es))
			}
		}
	}
	// 3b. directed re-indexing: t-1 valid members plus neighbours' points relabelled by -1 / +1 / to an
	// absent member (a verifier that evaluates the public polynomial at a shifted index would count them),
	// and the same lists completed to a qualifying one (must then succeed)
	nre := 120
	if thorough {
		nre = 1500
	}
	for k := 0; k < nre; k++ {
		n := 2 + rng.Intn(8)
		t := 1 + rng.Intn(n)
		if t < 2 {
			t = 2
		}
		if t > n {
			continue
		}
		coeffs := c02.RandPoly(rng, t, 4+rng.Intn(2))
		msgTok := h.Hex(rng.Bytes(rng.Intn(24)))
		hs := c02.HashScalar(c02.Msg(msgTok))
		perm := rng.Perm(n)
		var es [][]byte
		for _, i := range perm[:t-1] {
			es = append(es, c02.ValidShare(coeffs, hs, i))
		}
		for _, j := range perm[t-1:] {
			for _, d := range []int{-1, 1} {
				if j+d < 0 {
					continue
				}
				v := c02.ValidShare(coeffs, hs, j)
				v[0], v[1] = byte((j+d)>>8), byte(j+d)
				es = append(es, v)
			}
		}
		if k%3 == 0 {
			es = append(es, c02.ValidShare(coeffs, hs, perm[t-1]))
		}
		if k%2 == 0 {
			p := rng.Perm(len(es))
			sh := make([][]byte, len(es))
			for a, b := range p {
				sh[a] = es[b]
			}
			es = sh
		}
		emit(recLine(t, n, coeffs, msgTok, es))
	}
	// 3c. large groups (n up to 300, members around index 64 / 256) below threshold with re-encoded replays
	nlg := 90
	if thorough {
		nlg = 900
	}
	for k := 0; k < nlg; k++ {
		emit(c02.LargeGroup(rng, k%4 == 0))
	}
	// 3d. histories sharing a mutable message buffer: nothing made for m1 counts for m2
	nh := 32
	if thorough {
		nh = 300
	}
	for k := 0; k < nh; k++ {
		emit(c02.History(rng, k))
	}
	// 4. k = t-1 valid members and a long tail of junk, larger n
	nl := 60
	if thorough {
		nl = 800
	}
	for k := 0; k < nl; k++ {
		n := 2 + rng.Intn(31)
		t := n/2 + 1
		coeffs := c02.RandPoly(rng, t, rng.Intn(12))
		msgTok := h.Hex(rng.Bytes(rng.Intn(24)))
		hs := c02.HashScalar(c02.Msg(msgTok))
		perm := rng.Perm(n)
		kk := t - 1
		if rng.Intn(3) == 0 {
			kk = rng.Intn(t)
		}
		var es [][]byte
		for _, i := range perm[:kk] {
			es = append(es, c02.ValidShare(coeffs, hs, i))
		}
		m := rng.Intn(40)
		for j := 0; j < m; j++ {
			var e []byte
			switch rng.Intn(4) {
			case 0:
				if kk > 0 {
					e = append(c02.ValidShare(coeffs, hs, perm[rng.Intn(kk)]), rng.Bytes(rng.Intn(3))...)
				} else {
					e = []byte{}
				}
			case 1:
				e = c02.ValidShare(coeffs, hs, n+rng.Intn(8))
			default:
				e = c02.Junk(rng, rng.Intn(c02.NJunk), coeffs, hs, n, perm[kk+rng.Intn(n-kk)])
			}
			at := rng.Intn(len(es) + 1)
			es = append(es[:at], append([][]byte{e}, es[at:]...)...)
		}
		emit(recLine(t, n, coeffs, msgTok, es))
	}
}

/-
C20 (round 5, follow-up) — group/edwards25519/point.go TRANSLATED (tie T), not only pinned as text.

`go/extract/ed25519ge` (ptprog.go) translates, on every run, the bodies of the `point` methods MarshalSize, MarshalBinary,
UnmarshalBinary, Equal, Set, Clone, Null, Base, Add, Sub, Neg, Mul and of `extendedGroupElement.Double` (ge.go) statement by
statement into method-call programs (`Gen/Ed25519Pt.lean`); `Model/PtProg.lean` interprets them: slots rebinding
(`E1 := P1.(*point)`, `a = &red`), fresh locals, calls of ge.go methods named by the static type of the receiver, the three
`if` forms of point.go and the byte-comparison loop of `Equal`.  The theorems below say that, FOR EVERY ALIASING PATTERN OF
THE FORMALS (the partitions of {receiver, parameters} — `P.Add(P, Q)`, `P.Add(Q, P)`, `P.Add(Q, Q)`, `P.Add(P, P)`, …), the
translated method computes exactly the hand model `ptAdd / ptSub / ptNeg / ptMul / ptMarshal / ptUnmarshal / ptEqual / ptNull /
ptBase / extDouble` of Model/Ed25519Ge.lean that the group theorems (Props/C20Group, C20Mult, C20Lawful) are about, leaves
the other objects alone, and returns what the Go method returns.  So for point.go the chain is: source —(go/ast, regenerated)→
program —(these theorems)→ hand model —(round 4)→ group law.  The callees' meaning (`PtProg.applyFn`: which model function
a ge.go method name denotes) is the remaining reading; the callees themselves are the translated straight-line methods,
except ToBytes / FromBytes (translated segments under a hand skeleton) and geScalarMult / geScalarMultBase (hand-modelled
loops, pinned as text in Props/C20Pins.lean).
-/
import DosModel.Proofs.PtProg

namespace Dos.Props.C20Point
open Dos Dos.Ed25519 Dos.Ge Dos.PtProg Dos.Gen.Ed25519Pt

/-- the result register and the return value of a run -/
abbrev out (st : St) (r : Nat) : Val := st.regs.getD r .unset

/-- the flag `varTime` is never written in the default build: points made by `new(point)` / `&point{ge: …}` have it false -/
theorem varTime_never_set : varTimeWrites = [] := rfl

example : varTimeWrites.length = 0 := rfl

/-- **point.Add** for the five aliasing patterns: receiver, P1, P2 distinct / receiver = P1 / receiver = P2 / P1 = P2 / all one
object.  The receiver ends as `ptAdd` of the values the arguments held at entry; an argument that is not the receiver is
unchanged; `varTime` is kept. -/
theorem point_Add_translated (p q r : Ext) (v0 v1 v2 : Bool) :
    (out (point_Add.run [0, 1, 2] [.ext r v0, .ext p v1, .ext q v2]) 0 = .ext (ptAdd p q) v0
      ∧ out (point_Add.run [0, 1, 2] [.ext r v0, .ext p v1, .ext q v2]) 1 = .ext p v1
      ∧ out (point_Add.run [0, 1, 2] [.ext r v0, .ext p v1, .ext q v2]) 2 = .ext q v2)
    ∧ (out (point_Add.run [0, 0, 1] [.ext p v0, .ext q v1]) 0 = .ext (ptAdd p q) v0
      ∧ out (point_Add.run [0, 0, 1] [.ext p v0, .ext q v1]) 1 = .ext q v1)
    ∧ (out (point_Add.run [0, 1, 0] [.ext q v0, .ext p v1]) 0 = .ext (ptAdd p q) v0
      ∧ out (point_Add.run [0, 1, 0] [.ext q v0, .ext p v1]) 1 = .ext p v1)
    ∧ out (point_Add.run [0, 1, 1] [.ext r v0, .ext p v1]) 0 = .ext (ptAdd p p) v0
    ∧ out (point_Add.run [0, 0, 0] [.ext p v0]) 0 = .ext (ptAdd p p) v0 := by
  refine ⟨⟨?_, ?_, ?_⟩, ⟨?_, ?_⟩, ⟨?_, ?_⟩, ?_, ?_⟩ <;> pt_kernel_refl

example : (point_Add.run [0, 0, 0] [.ext baseExt false]).res matches .recv := by decide

/-- **point.Sub**, the same five patterns -/
theorem point_Sub_translated (p q r : Ext) (v0 v1 v2 : Bool) :
    (out (point_Sub.run [0, 1, 2] [.ext r v0, .ext p v1, .ext q v2]) 0 = .ext (ptSub p q) v0
      ∧ out (point_Sub.run [0, 1, 2] [.ext r v0, .ext p v1, .ext q v2]) 1 = .ext p v1
      ∧ out (point_Sub.run [0, 1, 2] [.ext r v0, .ext p v1, .ext q v2]) 2 = .ext q v2)
    ∧ (out (point_Sub.run [0, 0, 1] [.ext p v0, .ext q v1]) 0 = .ext (ptSub p q) v0
      ∧ out (point_Sub.run [0, 0, 1] [.ext p v0, .ext q v1]) 1 = .ext q v1)
    ∧ (out (point_Sub.run [0, 1, 0] [.ext q v0, .ext p v1]) 0 = .ext (ptSub p q) v0
      ∧ out (point_Sub.run [0, 1, 0] [.ext q v0, .ext p v1]) 1 = .ext p v1)
    ∧ out (point_Sub.run [0, 1, 1] [.ext r v0, .ext p v1]) 0 = .ext (ptSub p p) v0
    ∧ out (point_Sub.run [0, 0, 0] [.ext p v0]) 0 = .ext (ptSub p p) v0 := by
  refine ⟨⟨?_, ?_, ?_⟩, ⟨?_, ?_⟩, ⟨?_, ?_⟩, ?_, ?_⟩ <;> pt_kernel_refl

example : out (point_Sub.run [0, 0, 0] [.ext baseExt true]) 0 = .ext (ptSub baseExt baseExt) true :=
  (point_Sub_translated baseExt baseExt baseExt true true true).2.2.2.2

/-- **point.Neg**: a fresh receiver gets `ptNeg`; `P.Neg(P)` runs `extended.Neg` on shared registers (`extNegInPlace`, proved
to represent the same point: C20Group.point_neg_aliased) -/
theorem point_Neg_translated (p r : Ext) (v0 v1 : Bool) :
    out (point_Neg.run [0, 1] [.ext r v0, .ext p v1]) 0 = .ext (ptNeg p) v0
    ∧ out (point_Neg.run [0, 1] [.ext r v0, .ext p v1]) 1 = .ext p v1
    ∧ out (point_Neg.run [0, 0] [.ext p v0]) 0 = .ext (extNegInPlace p) v0 := by
  refine ⟨?_, ?_, ?_⟩ <;> pt_kernel_refl

example : out (point_Neg.run [0, 0] [.ext baseExt false]) 0 = .ext (extNegInPlace baseExt) false :=
  (point_Neg_translated baseExt baseExt false false).2.2

/-- **Null, Base, Set, Clone, MarshalSize** -/
theorem point_plumbing_translated (p r : Ext) (v0 v1 : Bool) :
    out (point_Null.run [0] [.ext r v0]) 0 = .ext ptNull v0
    ∧ out (point_Base.run [0] [.ext r v0]) 0 = .ext ptBase v0
    ∧ out (point_Set.run [0, 1] [.ext r v0, .ext p v1]) 0 = .ext p v0
    ∧ out (point_Set.run [0, 1] [.ext r v0, .ext p v1]) 1 = .ext p v1
    ∧ out (point_Set.run [0, 0] [.ext p v0]) 0 = .ext p v0
    ∧ (point_Clone.run [0] [.ext p v0]).res = .point p
    ∧ out (point_Clone.run [0] [.ext p v0]) 0 = .ext p v0
    ∧ (point_MarshalSize.run [0] [.ext p v0]).res = .int 32 := by
  refine ⟨?_, ?_, ?_, ?_, ?_, ?_, ?_, ?_⟩ <;> pt_kernel_refl

example : (point_MarshalSize.run [0] [.ext baseExt false]).res = .int 32 :=
  (point_plumbing_translated baseExt baseExt false false).2.2.2.2.2.2.2

/-- **extended.Double** of ge.go (`var q projectiveGroupElement; p.ToProjective(&q); q.Double(r)`) is `extDouble` -/
theorem extended_Double_translated (p : Ext) (v0 : Bool) (c : Compl) :
    out (extended_Double.run [0, 1] [.ext p v0, .compl c]) 1 = .compl (extDouble p)
    ∧ out (extended_Double.run [0, 1] [.ext p v0, .compl c]) 0 = .ext p v0 := by
  refine ⟨?_, ?_⟩ <;> pt_kernel_refl

example : out (extended_Double.run [0, 1] [.ext baseExt false, .compl default]) 1 = .compl (extDouble baseExt) :=
  (extended_Double_translated baseExt false default).1

/-- **point.MarshalBinary** returns `ptMarshal` of the receiver and leaves it alone -/
theorem point_MarshalBinary_translated (p : Ext) (v0 : Bool) :
    (point_MarshalBinary.run [0] [.ext p v0]).res = .bytes (ptMarshal p)
    ∧ out (point_MarshalBinary.run [0] [.ext p v0]) 0 = .ext p v0 := by
  refine ⟨?_, ?_⟩ <;> pt_kernel_refl

example : (point_MarshalBinary.run [0] [.ext baseExt false]).res = .bytes (ptMarshal baseExt) :=
  (point_MarshalBinary_translated baseExt false).1

/-- **point.UnmarshalBinary**: `nil` and the decoded point when `ptUnmarshal` accepts, an error otherwise -/
theorem point_UnmarshalBinary_translated (b : Bytes) (r : Ext) (v0 : Bool) :
    (∀ e, ptUnmarshal b = some e →
      (point_UnmarshalBinary.run [0, 1] [.ext r v0, .bytes b]).res = .ok
      ∧ out (point_UnmarshalBinary.run [0, 1] [.ext r v0, .bytes b]) 0 = .ext e v0)
    ∧ (ptUnmarshal b = none → (point_UnmarshalBinary.run [0, 1] [.ext r v0, .bytes b]).res = .err) := by
  have e : point_UnmarshalBinary.run [0, 1] [.ext r v0, .bytes b] =
      runBlock (match extFromBytes b with
        | some e => { names := [0, 1], regs := [.ext e v0, .bytes b], flag := true }
        | none => { names := [0, 1], regs := [.unset, .bytes b], flag := false })
        [.ifNotFlag [.ret .err], .ret .ok] := by pt_kernel_refl
  rw [e]
  unfold ptUnmarshal
  cases extFromBytes b with
  | none => exact ⟨fun e h => (by cases h), fun _ => (by pt_kernel_refl)⟩
  | some e0 =>
    refine ⟨fun e h => ?_, fun h => (by cases h)⟩
    cases h
    exact ⟨(by pt_kernel_refl), (by pt_kernel_refl)⟩

example (r : Ext) : (point_UnmarshalBinary.run [0, 1] [.ext r false, .bytes []]).res = .err :=
  (point_UnmarshalBinary_translated [] r false).2 rfl

/-- **point.Equal**: the loop over the two 32-byte encodings answers `ptEqual` (all 32 bytes compared), also for
`P.Equal(P)`; both operands are unchanged -/
theorem point_Equal_translated (p q : Ext) (v0 v1 : Bool) :
    (point_Equal.run [0, 1] [.ext p v0, .ext q v1]).res = .bool (ptEqual p q)
    ∧ (point_Equal.run [0, 0] [.ext p v0]).res = .bool (ptEqual p p) := by
  constructor
  · have e : point_Equal.run [0, 1] [.ext p v0, .ext q v1] =
        runBlock (runStmt { names := [0, 1, 2, 3], regs := [.ext p v0, .ext q v1, .bytes (extToBytes p), .bytes (extToBytes q)] }
          (.rangeNe 2 3 [.ret (.bool false)])) [.ret (.bool true)] := by pt_kernel_refl
    rw [e, runStmt_rangeNe _ rfl]
    show (runBlock (if firstNe (extToBytes p) (extToBytes q) then _ else _) _).res = _
    rw [firstNe_eq _ _ (by rw [extToBytes_len, extToBytes_len])]
    unfold ptEqual
    cases (extToBytes p == extToBytes q) <;> pt_kernel_refl
  · have e : point_Equal.run [0, 0] [.ext p v0] =
        runBlock (runStmt { names := [0, 0, 1, 2], regs := [.ext p v0, .bytes (extToBytes p), .bytes (extToBytes p)] }
          (.rangeNe 2 3 [.ret (.bool false)])) [.ret (.bool true)] := by pt_kernel_refl
    rw [e, runStmt_rangeNe _ rfl]
    show (runBlock (if firstNe (extToBytes p) (extToBytes p) then _ else _) _).res = _
    rw [firstNe_eq _ _ rfl]
    unfold ptEqual
    cases (extToBytes p == extToBytes p) <;> pt_kernel_refl

example : (point_Equal.run [0, 0] [.ext baseExt false]).res = .bool (ptEqual baseExt baseExt) :=
  (point_Equal_translated baseExt baseExt false false).2

/-- **point.Mul** (default build: `varTime` false) for every 32-byte scalar: the guard `a[31] > 127` with the translated
scReduce, then geScalarMultBase when `A == nil`, geScalarMult otherwise — also with the receiver as the point argument -/
theorem point_Mul_translated (a : Bytes) (hl : a.length = 32) (q r : Ext) (v1 : Bool) :
    out (point_Mul.run [0, 1, 2] [.ext r false, .bytes a, .nil]) 0 = .ext (ptMul a none) false
    ∧ out (point_Mul.run [0, 1, 2] [.ext r false, .bytes a, .ext q v1]) 0 = .ext (ptMul a (some q)) false
    ∧ out (point_Mul.run [0, 1, 0] [.ext q false, .bytes a]) 0 = .ext (ptMul a (some q)) false := by
  refine ⟨?_, ?_, ?_⟩
  · have e : point_Mul.run [0, 1, 2] [.ext r false, .bytes a, .nil] =
        runBlock (runStmt { names := [0, 1, 2, 1, 0, 0], regs := [.ext r false, .bytes a, .nil] }
          (.ifByteGt 3 31 127 [.decl 4 (.bytes 64), .decl 5 (.bytes 32), .call .copy [4, 3], .call .scReduce [5, 4], .bind 3 5])) (point_Mul.body.drop 2) := by pt_kernel_refl
    rw [e, runStmt_ifByteGt _ rfl]
    show out (runBlock (if (a.getD 31 0).toNat > 127 then _ else _) _) 0 = _
    unfold ptMul mulScalar
    rw [← copy64 a hl]
    by_cases h : (a.getD 31 0).toNat > 127
    · simp only [if_pos h]; pt_kernel_refl
    · simp only [if_neg h]; pt_kernel_refl
  · have e : point_Mul.run [0, 1, 2] [.ext r false, .bytes a, .ext q v1] =
        runBlock (runStmt { names := [0, 1, 2, 1, 0, 0], regs := [.ext r false, .bytes a, .ext q v1] }
          (.ifByteGt 3 31 127 [.decl 4 (.bytes 64), .decl 5 (.bytes 32), .call .copy [4, 3], .call .scReduce [5, 4], .bind 3 5])) (point_Mul.body.drop 2) := by pt_kernel_refl
    rw [e, runStmt_ifByteGt _ rfl]
    show out (runBlock (if (a.getD 31 0).toNat > 127 then _ else _) _) 0 = _
    unfold ptMul mulScalar
    rw [← copy64 a hl]
    by_cases h : (a.getD 31 0).toNat > 127
    · simp only [if_pos h]; pt_kernel_refl
    · simp only [if_neg h]; pt_kernel_refl
  · have e : point_Mul.run [0, 1, 0] [.ext q false, .bytes a] =
        runBlock (runStmt { names := [0, 1, 0, 1, 0, 0], regs := [.ext q false, .bytes a] }
          (.ifByteGt 3 31 127 [.decl 4 (.bytes 64), .decl 5 (.bytes 32), .call .copy [4, 3], .call .scReduce [5, 4], .bind 3 5])) (point_Mul.body.drop 2) := by pt_kernel_refl
    rw [e, runStmt_ifByteGt _ rfl]
    show out (runBlock (if (a.getD 31 0).toNat > 127 then _ else _) _) 0 = _
    unfold ptMul mulScalar
    rw [← copy64 a hl]
    by_cases h : (a.getD 31 0).toNat > 127
    · simp only [if_pos h]; pt_kernel_refl
    · simp only [if_neg h]; pt_kernel_refl

example : out (point_Mul.run [0, 1, 2] [.ext baseExt false, .bytes (natLE 32 (2 ^ 256 - 1)), .nil]) 0
    = .ext (ptMul (natLE 32 (2 ^ 256 - 1)) none) false :=
  (point_Mul_translated _ (by decide) baseExt baseExt false).1

end Dos.Props.C20Point

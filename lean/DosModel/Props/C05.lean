/-
C05 — Byzantine participants can abort key generation but never corrupt it.

Theorems about the executable models `Model/VssSym.lean`, `Model/Dkg.lean`,
`Model/DkgSession.lean` (symbolic cryptography, DESIGN §4), for every field `F`, `F`-module `G`
with base point `g`, every group size, every member and EVERY sequence of messages a member
receives: the adversary is any function producing the messages – nothing is assumed about
them except, in `safety`, the idealised-cryptography / authenticated-transport facts that the
symbolic term model cannot express by itself and that are therefore explicit hypotheses:

* `AuthResp` (both directions) – a response that verifies under an honest member's key was signed
  by that member (it carries the session id of one of the responses that member holds);
* each of the two honest members lists the other's true key at the other's index: a key is accepted
  for index `k` only from the transport-authenticated group member `k` (`accepted_keys_are_bound`),
  and an honest member announces only its own key under its own index.

Everything else – that both hold the same participant list, that it has no key twice, that each
holds the commitments the other one dealt – is DERIVED (`safety`), or its failure provably aborts
the member (`forged_key_aborts`, `duplicate_key_aborts`).

The model is the tree with `fix:` 386c5d2 (the session id a verifier compares responses with is
bound to the commitments it saw), e9f475e (a PublicKey message is bound to its sender) and babf9f5
(no key under two indices).  Without any one of them `safety` is false: corpus/C05 holds the runs
in which two honest members finish on different keys.
Helper lemmas: `Proofs/DkgStep.lean`, `DkgResp.lean`, `DkgScript.lean`, `DkgFinish.lean`,
`DkgSafety.lean`, `DkgMember.lean`.
-/
import DosModel.Gen.VssFacts
import DosModel.Proofs.DkgMember
import DosModel.Model.DkgNet
import Mathlib.Algebra.Order.Field.Rat

set_option linter.unusedSectionVars false

namespace Dos.Props.C05
open Dos Dos.Vss Dos.Dkg

variable {F G : Type} [Field F] [AddCommGroup G] [Module F G] [DecidableEq F] [DecidableEq G]

/-- regenerated fact (`go/extract/vssfacts` → `Gen/VssFacts.lean`, on every check run): the ordered statement
skeletons of the code `Model/VssSym.lean`, `Model/Dkg.lean`, `Model/DkgSession.lean` transcribe for this property –
what a verifier checks before it approves (`ProcessEncryptedDeal`, `VerifyDeal`, `validT`, `sessionID`), the
signature check of `verifyResponse` BEFORE `addResponse`, dkg `ProcessDeal` / `ProcessResponse` / `DistKeyShare`
(the error of `pub.Add` is propagated), the stages `getAndProcessDeals` (`return` after `ErrResponseNoApproval`,
`continue` after a `ProcessDeal` error) and `getAndProcessResponses` (`return` after a `ProcessResponse` error),
the sender binding (`Loop` calls `stampSender` before `handlePeerMsg`; `exchangePub` compares `SenderId` with
`groupIds[Index]`) and the duplicate-key rejection of `genDistKeyGenerator`. A change to any of them must be
re-modelled. -/
theorem c05_code_shape :
    Gen.VssFacts.processEncryptedDeal = [
      "0| func ProcessEncryptedDeal(e *EncryptedDeal) (*Response, error)",
      "1| d, err := v.decryptDeal(e)",
      "1| if err != nil",
      "2| return nil, err",
      "1| if d.SecShare == nil || d.SecShare.V == nil",
      "2| return nil, errors.New(\"vss: deal without a share\")",
      "1| if d.SecShare.I != v.index",
      "2| return nil, errors.New(\"vss: verifier got wrong index from deal\")",
      "1| t := int(d.T)",
      "1| sid, err := sessionID(v.suite, v.dealer, v.verifiers, d.Commitments, t)",
      "1| if err != nil",
      "2| return nil, err",
      "1| if v.aggregator == nil",
      "2| v.aggregator = newAggregator(v.suite, v.dealer, v.verifiers, d.Commitments, t, d.SessionID)",
      "1| r := &Response{ SessionID: sid, Index: uint32(v.index), Status: StatusApproval, }",
      "1| if err = v.VerifyDeal(d, true); err != nil",
      "2| r.Status = StatusComplaint",
      "1| if err == errDealAlreadyProcessed",
      "2| return nil, err",
      "1| if r.Signature, err = schnorr.Sign(v.suite, v.longterm, r.Hash(v.suite)); err != nil",
      "2| return nil, err",
      "1| if err = v.aggregator.addResponse(r); err != nil",
      "2| return nil, err",
      "1| v.approved = r.Status == StatusApproval",
      "1| return r, nil"] ∧
    Gen.VssFacts.verifyDeal = [
      "0| func VerifyDeal(d *Deal, inclusion bool) error",
      "1| if d == nil || d.SecShare == nil || d.SecShare.V == nil",
      "2| return errors.New(\"vss: deal without a share value\")",
      "1| if a.deal != nil && inclusion",
      "2| return errDealAlreadyProcessed",
      "1| if a.deal == nil",
      "2| a.commits = d.Commitments",
      "2| a.sid = d.SessionID",
      "2| a.deal = d",
      "1| if !validT(int(d.T), a.verifiers)",
      "2| return errors.New(\"vss: invalid t received in Deal\")",
      "1| if !bytes.Equal(a.sid, d.SessionID)",
      "2| return errors.New(\"vss: find different sessionIDs from Deal\")",
      "1| sid, err := sessionID(a.suite, a.dealer, a.verifiers, d.Commitments, int(d.T))",
      "1| if err != nil",
      "2| return err",
      "1| if !bytes.Equal(sid, d.SessionID)",
      "2| return errors.New(\"vss: session id of the deal does not match its dealer, verifiers, commitments and threshold\")",
      "1| fi := d.SecShare",
      "1| if fi.I < 0 || fi.I >= len(a.verifiers)",
      "2| return errors.New(\"vss: index out of bounds in Deal\")",
      "1| fig := a.suite.Point().Base().Mul(fi.V, nil)",
      "1| commitPoly := share.NewPubPoly(a.suite, nil, d.Commitments)",
      "1| pubShare := commitPoly.Eval(fi.I)",
      "1| if !fig.Equal(pubShare.V)",
      "2| return errors.New(\"vss: share does not verify against commitments in Deal\")",
      "1| return nil"] ∧
    Gen.VssFacts.validT = [
      "0| func validT(t int, verifiers []kyber.Point) bool",
      "1| return t >= 2 && t <= len(verifiers) && int(uint32(t)) == t"] ∧
    Gen.VssFacts.sessionID = [
      "0| func sessionID(suite suites.Suite, dealer kyber.Point, verifiers, commitments []kyber.Point, t int) ([]byte, error)",
      "1| h := suite.Hash()",
      "1| _, _ = dealer.MarshalTo(h)",
      "1| for _, v := range verifiers",
      "2| _, _ = v.MarshalTo(h)",
      "1| for _, c := range commitments",
      "2| _, _ = c.MarshalTo(h)",
      "1| _ = binary.Write(h, binary.LittleEndian, uint32(t))",
      "1| return h.Sum(nil), nil"] ∧
    Gen.VssFacts.verifyResponse = [
      "0| func verifyResponse(r *Response) error",
      "1| if !bytes.Equal(r.SessionID, a.sid)",
      "2| return errors.New(\"vss: receiving inconsistent sessionID in response\")",
      "1| pub, ok := findPub(a.verifiers, r.Index)",
      "1| if !ok",
      "2| return errors.New(\"vss: index out of bounds in response\")",
      "1| if err := schnorr.Verify(a.suite, pub, r.Hash(a.suite), r.Signature); err != nil",
      "2| return err",
      "1| return a.addResponse(r)"] ∧
    Gen.VssFacts.addResponse = [
      "0| func addResponse(r *Response) error",
      "1| if _, ok := findPub(a.verifiers, r.Index); !ok",
      "2| return errors.New(\"vss: index out of bounds in Complaint\")",
      "1| if _, ok := a.responses[r.Index]; ok",
      "2| return errors.New(\"vss: already existing response from same origin\")",
      "1| a.responses[r.Index] = r",
      "1| return nil"] ∧
    Gen.VssFacts.dkgProcessDeal = [
      "0| func ProcessDeal(dd *Deal) (*Response, error)",
      "1| pub, ok := findPub(d.participants, dd.Index)",
      "1| if !ok",
      "2| return nil, errors.New(\"dkg: dist deal out of bounds index\")",
      "1| if _, ok := d.verifiers[dd.Index]; ok",
      "2| return nil, errors.New(\"dkg: already received dist deal from same index\")",
      "1| ver, err := vss.NewVerifier(d.suite, d.long, pub, d.participants)",
      "1| if err != nil",
      "2| return nil, err",
      "1| d.verifiers[dd.Index] = ver",
      "1| resp, err := ver.ProcessEncryptedDeal(dd.Deal)",
      "1| if err != nil",
      "2| return nil, err",
      "1| d.verifiers[dd.Index].UnsafeSetResponseDKG(dd.Index, vss.StatusApproval)",
      "1| return &Response{ Index: dd.Index, Response: resp, }, nil"] ∧
    Gen.VssFacts.dkgProcessResponse = [
      "0| func ProcessResponse(resp *Response) (*Justification, error)",
      "1| if resp == nil || resp.Response == nil",
      "2| return nil, errors.New(\"dkg: response message without a response\")",
      "1| v, ok := d.verifiers[resp.Index]",
      "1| if !ok",
      "2| return nil, errors.New(\"dkg: complaint received but no deal for it\")",
      "1| if err := v.ProcessResponse(resp.Response); err != nil",
      "2| return nil, err",
      "1| if resp.Index != uint32(d.index)",
      "2| return nil, nil",
      "1| j, err := d.dealer.ProcessResponse(resp.Response)",
      "1| if err != nil",
      "2| return nil, err",
      "1| if j == nil",
      "2| return nil, nil",
      "1| if err := v.ProcessJustification(j); err != nil",
      "2| return nil, err",
      "1| return &Justification{ Index: d.index, Justification: j, }, nil"] ∧
    Gen.VssFacts.distKeyShare = [
      "0| func DistKeyShare() (*DistKeyShare, error)",
      "1| if !d.Certified()",
      "2| return nil, errors.New(\"dkg: distributed key not certified\")",
      "1| sh := d.suite.Scalar().Zero()",
      "1| var pub *share.PubPoly",
      "1| var err error",
      "1| d.qualIter(func(i uint32, v *vss.Verifier) bool {…})",
      "2| func(i uint32, v *vss.Verifier) bool",
      "3| deal := v.Deal()",
      "3| s := deal.SecShare.V",
      "3| sh = sh.Add(sh, s)",
      "3| poly := share.NewPubPoly(d.suite, d.suite.Point().Base(), deal.Commitments)",
      "3| if pub == nil",
      "4| pub = poly",
      "4| return true",
      "3| pub, err = pub.Add(poly)",
      "3| return err == nil",
      "1| if err != nil",
      "2| return nil, err",
      "1| _, commits := pub.Info()",
      "1| return &DistKeyShare{ Commits: commits, Share: &share.PriShare{ I: int(d.index), V: sh, }, PrivatePoly: d.dealer.PrivatePoly().Coefficients(), }, nil"] ∧
    Gen.VssFacts.getAndProcessDeals = [
      "0| func getAndProcessDeals(ctx context.Context, logger log.Logger, dkgc chan *DistKeyGenerator, dealsc chan []interface{}, sessionID string) (dkgOut chan *DistKeyGenerator, out chan interface{}, errc chan error)",
      "1| dkgOut = make(chan *DistKeyGenerator)",
      "1| out = make(chan interface{})",
      "1| errc = make(chan error)",
      "1| go func() {…}()",
      "2| func()",
      "3| var dkg *DistKeyGenerator",
      "3| var ok bool",
      "3| defer close(dkgOut)",
      "3| defer close(out)",
      "3| defer close(errc)",
      "3| select",
      "4| case <-ctx.Done():",
      "4| case dkg, ok = <-dkgc:",
      "5| if !ok",
      "6| return",
      "3| if dkg == nil",
      "4| return",
      "3| select",
      "4| case <-ctx.Done():",
      "4| case deals, ok := <-dealsc:",
      "5| if ok",
      "6| var resps []*Response",
      "6| for _, d := range deals",
      "7| deal, ok := d.(*Deal)",
      "7| if !ok",
      "8| err := &DKGError{err: errors.Errorf(\"Casting Deal failed for GID %s : %w\", sessionID, ErrCasting)}",
      "8| reportErr(ctx, errc, err)",
      "8| return",
      "7| resp, err := dkg.ProcessDeal(deal)",
      "7| if err != nil",
      "8| err = &DKGError{err: errors.Errorf(\"ProcessDeal failed for GID %s : %w\", sessionID, err)}",
      "8| reportErr(ctx, errc, err)",
      "8| continue",
      "7| resp.SessionId = sessionID",
      "7| if vss.StatusApproval != resp.Response.Status",
      "8| err = &DKGError{err: errors.Errorf(\"ProcessDeal failed for GID %s : %w\", sessionID, ErrResponseNoApproval)}",
      "8| reportErr(ctx, errc, err)",
      "8| return",
      "7| resps = append(resps, resp)",
      "6| select",
      "7| case <-ctx.Done():",
      "8| return",
      "7| case out <- &Responses{SessionId: sessionID, Response: resps}:",
      "6| select",
      "7| case <-ctx.Done():",
      "7| case dkgOut <- dkg:",
      "1| return"] ∧
    Gen.VssFacts.getAndProcessResponses = [
      "0| func getAndProcessResponses(ctx context.Context, logger log.Logger, dkgc chan *DistKeyGenerator, respsc chan []interface{}, sessionID string) (out chan *DistKeyGenerator, errc chan error)",
      "1| out = make(chan *DistKeyGenerator)",
      "1| errc = make(chan error)",
      "1| go func() {…}()",
      "2| func()",
      "3| defer close(out)",
      "3| defer close(errc)",
      "3| var dkg *DistKeyGenerator",
      "3| var ok bool",
      "3| select",
      "4| case <-ctx.Done():",
      "4| case dkg, ok = <-dkgc:",
      "5| if !ok",
      "6| return",
      "3| if dkg == nil",
      "4| return",
      "3| select",
      "4| case <-ctx.Done():",
      "4| case resps, ok := <-respsc:",
      "5| if ok",
      "6| for _, r := range resps",
      "7| resp, ok := r.(*Response)",
      "7| if !ok",
      "8| err := &DKGError{err: errors.Errorf(\"getAndProcessResponses failed for GID %s : %w\", sessionID, ErrCasting)}",
      "8| reportErr(ctx, errc, err)",
      "8| return",
      "7| if _, err := dkg.ProcessResponse(resp); err != nil",
      "8| err := &DKGError{err: errors.Errorf(\"ProcessResponse failed for GID %s : %w\", sessionID, err)}",
      "8| reportErr(ctx, errc, err)",
      "8| return",
      "6| select",
      "7| case <-ctx.Done():",
      "7| case out <- dkg:",
      "1| return"] ∧
    Gen.VssFacts.stampSender = [
      "0| func stampSender(content *PublicKey, sender []byte)",
      "1| if content != nil && content.Publickey != nil",
      "2| content.Publickey.SenderId = sender"] ∧
    Gen.VssFacts.loopPeerMsg = [
      "0| func Loop()",
      "1| switch content := msg.Msg.Message.(type)",
      "2| case *PublicKey:",
      "3| err := d.p.Reply(context.Background(), msg.Sender, msg.RequestNonce, content)",
      "3| if err != nil",
      "3| stampSender(content, msg.Sender)",
      "3| handlePeerMsg(sessionPubKeys, sessionReqPubs, d.p, content.SessionId, content)",
      "2| case *Deal:",
      "3| err := d.p.Reply(context.Background(), msg.Sender, msg.RequestNonce, content)",
      "3| if err != nil",
      "3| handlePeerMsg(sessionDeals, sessionReqDeals, d.p, content.SessionId, content)",
      "2| case *Responses:",
      "3| err := d.p.Reply(context.Background(), msg.Sender, msg.RequestNonce, content)",
      "3| if err != nil",
      "3| resps := content.Response",
      "3| for _, resp := range resps",
      "4| handlePeerMsg(sessionResps, sessionReResps, d.p, content.SessionId, resp)"] ∧
    Gen.VssFacts.exchangePub = [
      "0| func exchangePub(ctx context.Context, logger log.Logger, selfPubc chan interface{}, peerPubc chan []interface{}, p p2p.P2PInterface, groupIds [][]byte, sessionID string) (out chan []*PublicKey, errc chan error)",
      "1| out = make(chan []*PublicKey)",
      "1| errc = make(chan error)",
      "1| go func() {…}()",
      "2| func()",
      "3| defer close(out)",
      "3| defer close(errc)",
      "3| var partPubs []*PublicKey",
      "3| select",
      "4| case <-ctx.Done():",
      "5| return",
      "4| case resp, ok := <-selfPubc:",
      "5| if !ok",
      "6| return",
      "5| pubkey, ok := resp.(*PublicKey)",
      "5| if !ok",
      "6| err := &DKGError{err: errors.Errorf(\"casting PublicKey failed for GID %s : %w\", sessionID, ErrCasting)}",
      "6| reportErr(ctx, errc, err)",
      "6| return",
      "5| partPubs = append(partPubs, pubkey)",
      "3| for",
      "4| select",
      "5| case <-ctx.Done():",
      "6| return",
      "5| case resps, ok := <-peerPubc:",
      "6| if !ok",
      "7| return",
      "6| for _, resp := range resps",
      "7| pubkey, ok := resp.(*PublicKey)",
      "7| if !ok",
      "8| err := &DKGError{err: errors.Errorf(\"casting PublicKey failed for GID %s : %w\", sessionID, ErrCasting)}",
      "8| reportErr(ctx, errc, err)",
      "8| return",
      "7| if pubkey == nil || pubkey.Publickey == nil || int(pubkey.Index) >= len(groupIds) || !bytes.Equal(pubkey.Publickey.SenderId, groupIds[pubkey.Index])",
      "8| err := &DKGError{err: errors.Errorf(\"exchangePub failed for GID %s : %w\", sessionID, ErrForeignPubKey)}",
      "8| reportErr(ctx, errc, err)",
      "8| return",
      "7| partPubs = append(partPubs, pubkey)",
      "4| if len(partPubs) == len(groupIds)",
      "5| select",
      "6| case <-ctx.Done():",
      "6| case out <- partPubs:",
      "5| return",
      "1| return"] ∧
    Gen.VssFacts.genDistKeyGenerator = [
      "0| func genDistKeyGenerator(ctx context.Context, logger log.Logger, secrc chan kyber.Scalar, partPubs chan []*PublicKey, numOfPubkeys int, suite suites.Suite, sessionID string) (out chan *DistKeyGenerator, errc chan error)",
      "1| out = make(chan *DistKeyGenerator)",
      "1| errc = make(chan error)",
      "1| go func() {…}()",
      "2| func()",
      "3| defer close(out)",
      "3| defer close(errc)",
      "3| select",
      "4| case <-ctx.Done():",
      "4| case sec, ok := <-secrc:",
      "5| if ok",
      "6| select",
      "7| case <-ctx.Done():",
      "7| case pubs, ok := <-partPubs:",
      "8| if ok",
      "9| pubPoints := make([]kyber.Point, numOfPubkeys)",
      "9| for _, pubkey := range pubs",
      "10| if pubkey == nil || pubkey.Publickey == nil || pubkey.Index >= uint32(len(pubPoints))",
      "11| err := &DKGError{err: errors.Errorf(\"genDistKeyGenerator failed for GID %s : %w\", sessionID, errors.New(\"public key message without key or with index out of range\"))}",
      "11| reportErr(ctx, errc, err)",
      "11| return",
      "10| if pubPoints[pubkey.Index] != nil",
      "11| err := &DKGError{err: errors.Errorf(\"genDistKeyGenerator failed for GID %s : %w\", sessionID, ErrDupPubKeyIndex)}",
      "11| reportErr(ctx, errc, err)",
      "11| return",
      "10| pubPoints[pubkey.Index] = suite.Point()",
      "10| if err := pubPoints[pubkey.Index].UnmarshalBinary(pubkey.Publickey.Binary); err != nil",
      "11| err := &DKGError{err: errors.Errorf(\"UnmarshalBinary failed for GID %s : %w\", sessionID, err)}",
      "11| reportErr(ctx, errc, err)",
      "11| return",
      "10| for k, other := range pubPoints",
      "11| if other != nil && uint32(k) != pubkey.Index && other.Equal(pubPoints[pubkey.Index])",
      "12| err := &DKGError{err: errors.Errorf(\"genDistKeyGenerator failed for GID %s : %w\", sessionID, ErrDupPubKey)}",
      "12| reportErr(ctx, errc, err)",
      "12| return",
      "9| dkg, err := NewDistKeyGenerator(suite, sec, pubPoints, numOfPubkeys/2+1)",
      "9| if err != nil",
      "10| err := &DKGError{err: errors.Errorf(\"NewDistKeyGenerator failed for GID %s : %w\", sessionID, err)}",
      "10| reportErr(ctx, errc, err)",
      "10| return",
      "9| select",
      "10| case <-ctx.Done():",
      "10| case out <- dkg:",
      "9| return",
      "1| return"] ∧
    Gen.VssFacts.verifierDealCertified = [
      "0| func DealCertified() bool",
      "1| return v.approved && v.aggregator.DealCertified()"] ∧
    Gen.VssFacts.aggDealCertified = [
      "0| func DealCertified() bool",
      "1| var verifiersUnstable int",
      "1| if a == nil",
      "2| return false",
      "1| for i := range a.verifiers",
      "2| if _, ok := a.responses[uint32(i)]; !ok",
      "3| verifiersUnstable++",
      "1| tooMuchComplaints := verifiersUnstable > 0 || a.badDealer",
      "1| return a.EnoughApprovals() && !tooMuchComplaints"] ∧
    Gen.VssFacts.enoughApprovals = [
      "0| func EnoughApprovals() bool",
      "1| var app int",
      "1| for _, r := range a.responses",
      "2| if r.Status == StatusApproval",
      "3| app++",
      "1| return app >= a.t"] ∧
    Gen.VssFacts.verifierDeal = [
      "0| func Deal() *Deal",
      "1| if !v.EnoughApprovals() || !v.DealCertified()",
      "2| return nil",
      "1| return v.deal"] ∧
    Gen.VssFacts.verifyJustification = [
      "0| func verifyJustification(j *Justification) error",
      "1| if _, ok := findPub(a.verifiers, j.Index); !ok",
      "2| return errors.New(\"vss: index out of bounds in justification\")",
      "1| r, ok := a.responses[j.Index]",
      "1| if !ok",
      "2| return errors.New(\"vss: no complaints received for this justification\")",
      "1| if r.Status != StatusComplaint",
      "2| return errors.New(\"vss: justification received for an approval\")",
      "1| if err := a.VerifyDeal(j.Deal, false); err != nil",
      "2| a.badDealer = true",
      "2| return err",
      "1| r.Status = StatusApproval",
      "1| return nil"] ∧
    Gen.VssFacts.verifierProcessJustification = [
      "0| func ProcessJustification(dr *Justification) error",
      "1| return v.aggregator.verifyJustification(dr)"] ∧
    Gen.VssFacts.unsafeSetResponseDKG = [
      "0| func UnsafeSetResponseDKG(idx uint32, approval bool)",
      "1| r := &Response{ SessionID: v.aggregator.sid, Index: uint32(idx), Status: approval, }",
      "1| v.aggregator.addResponse(r)"] ∧
    Gen.VssFacts.newAggregator = [
      "0| func newAggregator(suite suites.Suite, dealer kyber.Point, verifiers, commitments []kyber.Point, t int, sid []byte) *aggregator",
      "1| agg := &aggregator{ suite: suite, dealer: dealer, verifiers: verifiers, commits: commitments, t: t, sid: sid, responses: make(map[uint32]*Response), }",
      "1| return agg"] ∧
    Gen.VssFacts.dkgCertified = [
      "0| func Certified() bool",
      "1| return len(d.QUAL()) >= len(d.participants)"] ∧
    Gen.VssFacts.dkgQUAL = [
      "0| func QUAL() []int",
      "1| var good []int",
      "1| d.qualIter(func(i uint32, v *vss.Verifier) bool {…})",
      "2| func(i uint32, v *vss.Verifier) bool",
      "3| good = append(good, int(i))",
      "3| return true",
      "1| return good"] ∧
    Gen.VssFacts.dkgQualIter = [
      "0| func qualIter(fn func(idx uint32, v *vss.Verifier) bool)",
      "1| for i, v := range d.verifiers",
      "2| if v.DealCertified()",
      "3| if !fn(i, v)",
      "4| break"] ∧
    Gen.VssFacts.dkgProcessJustification = [
      "0| func ProcessJustification(j *Justification) error",
      "1| v, ok := d.verifiers[j.Index]",
      "1| if !ok",
      "2| return errors.New(\"dkg: Justification received but no deal for it\")",
      "1| return v.ProcessJustification(j.Justification)"] ∧
    Gen.VssFacts.dkgDeals = [
      "0| func Deals() (map[int]*Deal, error)",
      "1| deals, err := d.dealer.EncryptedDeals()",
      "1| if err != nil",
      "2| return nil, err",
      "1| dd := make(map[int]*Deal)",
      "1| for i := range d.participants",
      "2| distd := &Deal{ Index: d.index, Deal: deals[i], }",
      "2| if i == int(d.index)",
      "3| if _, ok := d.verifiers[d.index]; ok",
      "4| continue",
      "3| if resp, err := d.ProcessDeal(distd); err != nil",
      "4| panic(\"dkg: cannot process own deal: \" + err.Error())",
      "3| else",
      "4| if resp.Response.Status != vss.StatusApproval",
      "5| panic(\"dkg: own deal gave a complaint\")",
      "3| continue",
      "2| dd[i] = distd",
      "1| return dd, nil"] :=
  ⟨rfl, rfl, rfl, rfl, rfl, rfl, rfl, rfl, rfl, rfl, rfl, rfl, rfl, rfl, rfl, rfl, rfl, rfl, rfl, rfl, rfl, rfl, rfl, rfl, rfl, rfl, rfl, rfl⟩


/-- **1. `inconsistent_never_approved`.**  A verifier that has not yet received a deal answers an
encrypted deal with an approval only if the deal it opened has a valid threshold, the session id
of what it carries, the verifier's own index, and a share on the committed polynomial at that
index: `share • g = Σ Cₖ (i+1)ᵏ`. -/
theorem inconsistent_never_approved (g : G) (v v' : Verifier F G) (e : EncDeal F G) (rnd : Nat)
    (r : Response F G) (hv : v.agg = none) (hidx : v.index < v.vs.length)
    (h : processEncryptedDeal g v e rnd = (v', .ok r)) (hs : r.status = true) :
    ∃ d val, decryptDeal g v e = .ok d ∧ validT d.t v.vs.length = true ∧
      d.sid = Sid.h v.dealer v.vs d.commits d.t ∧ d.share = some ⟨(v.index : Int), some val⟩ ∧
      val • g = pubEval (S := F) d.commits (v.index : Int) := by
  rcases pe_fresh g v e rnd hv hidx with ⟨err, herr⟩ | ⟨d, r0, a, hdec, hpe, _, _, _, hst, hshare, _⟩
  · rw [herr] at h; cases h
  · rw [hpe] at h
    injection h with _ h; injection h with h; subst h
    obtain ⟨i, val, hsh, hT, hsid, _, _, hchk⟩ := hst.1 hs
    have hi := hshare _ hsh
    simp only at hi; subst hi
    exact ⟨d, val, hdec, hT, hsid.symm, hsh, hchk⟩

/-- **2a. `no_approval_no_finish` (stage level).**  `getAndProcessDeals` stops – no `Responses`
message, nothing handed to the next stage – as soon as one processed deal is answered with a
complaint. -/
theorem complaint_stops_pipeline (g : G) (d d1 : Gen F G) (m : DkgDeal F G) (ms : List (DkgDeal F G))
    (acc : List (DkgResp F G)) (resp : DkgResp F G) (r : Response F G)
    (h : processDeal g d m = (d1, .ok resp)) (hr : resp.resp = some r) (hs : r.status = false) :
    runDeals g d (m :: ms) acc = (d1, none) := by
  simp [runDeals, h, hr, hs]

/-- **2b. the member machine then never finishes**: a stopped member stays stopped whatever arrives. -/
theorem failed_absorbing (g : G) (m : Member F G) (why : String) (h : m.stage = .failed why) :
    (Member.start g m).stage = .failed why ∧
    (∀ x, (m.recvPk g x).stage = .failed why) ∧ (∀ x, (m.recvDeal g x).stage = .failed why) ∧
    (∀ x, (m.recvResp g x).stage = .failed why) := by
  have adv : ∀ (m' : Member F G), m'.stage = .failed why → (Member.advance g 4 m').stage = .failed why := by
    intro m' h'; unfold Member.advance; simp [h']
  refine ⟨by simp [Member.start, h], fun x => ?_, fun x => ?_, fun x => ?_⟩
  · unfold Member.recvPk; exact adv _ (by simpa using h)
  · unfold Member.recvDeal; exact adv _ (by simpa using h)
  · unfold Member.recvResp; exact adv _ (by simpa using h)

/-- **2c. `no_approval_no_finish` (state level).**  In EVERY reachable state of a member (`MemberInv`
holds initially and is preserved by every event: `member_inv_*`), a finished member has, for every
dealer of the group, a stored own response that is an approval, and the stored deal of that dealer
is consistent with its commitments.  Hence a member whose own response to some deal is not an
approval has not finished. -/
theorem finished_approved_all (g : G) (m : Member F G) (d : Gen F G) (ks : KeyShare F G)
    (hm : MemberInv g m) (hst : m.stage = .done d ks) :
    ∀ j, j < d.participants.length → ∃ v a r dl, getVerifier d j = some v ∧ v.agg = some a ∧
      getResponse a d.index = some r ∧ r.status = true ∧ a.deal = some dl ∧
      Consistent g v.dealer d.participants dl := by
  simp only [MemberInv, hst] at hm
  obtain ⟨hg, ha, _, _, hks⟩ := hm
  obtain ⟨_, hslots, _⟩ := distKeyShare_spec d ks hg.len hks
  intro j hj
  obtain ⟨v, a, dl, _, _, hv, hagg, hdl, _, _⟩ := hslots j hj
  obtain ⟨r, hr, _, _, himp⟩ := ((hg.good j v hv).hagg a hagg).ownResp
  have hs := ha j v a r hv hagg hr
  obtain ⟨dl', _, h1, _, _, hcons, _⟩ := himp hs
  rw [hdl] at h1; injection h1 with h1; subst h1
  exact ⟨v, a, r, dl, hv, hagg, hr, hs, hdl, hcons⟩

/-- reachable states: the invariant holds at the start and after every event, for every message -/
theorem reachable_invariant (g : G) :
    (∀ n index long f ephs, MemberInv g (Member.init (S := F) (P := G) n index long f ephs)) ∧
    (∀ m : Member F G, MemberInv g m → MemberInv g (Member.start g m)) ∧
    (∀ (m : Member F G) x, MemberInv g m → MemberInv g (m.recvPk g x)) ∧
    (∀ (m : Member F G) x, MemberInv g m → MemberInv g (m.recvDeal g x)) ∧
    (∀ (m : Member F G) x, MemberInv g m → MemberInv g (m.recvResp g x)) :=
  ⟨member_inv_init g, member_inv_start g, fun m x => member_inv_recvPk g m x,
    fun m x => member_inv_recvDeal g m x, fun m x => member_inv_recvResp g m x⟩

/-- **3a. `accepted_keys_are_bound`.**  If `exchangePub`/`genDistKeyGenerator` accept a batch of
PublicKey messages – ANY batch – then no key sits at two indices of the participant list, and every
message was sent by the group member whose index it claims and its key is the participant at that
index. -/
theorem accepted_keys_are_bound (g : G) (n : Nat) (long : F) (f : List F) (own : PkMsg G) (batch : List (PkMsg G))
    (d : Gen F G) (h : buildGen g n long f own batch = some d) :
    d.participants.Nodup ∧
    ∀ x ∈ own :: batch, x.sender = x.index ∧ ∃ k, x.key = some k ∧ d.participants[x.index]? = some k :=
  (buildGen_good h).2.2.2.2

/-- **3b. `forged_key_aborts`.**  A member whose key batch contains a message not sent by the member
whose index it claims fails (stage `failed "gen"`): it does not finish. -/
theorem forged_key_aborts (g : G) (fuel : Nat) (m : Member F G) (batch : List (PkMsg G))
    (hs : m.stage = .waitPk) (hb : m.pkBox = some batch) (x : PkMsg G) (hx : x ∈ batch) (hf : x.sender ≠ x.index) :
    (Member.advance g (fuel + 1) m).stage = .failed "gen" := by
  have hnone : buildGen g m.n m.long m.f ⟨m.index, some (m.long • g), m.index⟩ batch = none := by
    rcases hbg : buildGen g m.n m.long m.f ⟨m.index, some (m.long • g), m.index⟩ batch with _ | d
    · rfl
    · exact absurd ((accepted_keys_are_bound g _ _ _ _ _ d hbg).2 x (by simp [hx])).1 hf
  rw [Member.advance]
  simp only [hs, hb, hnone]

/-- **3a′. `stamp_overwrites_claim`.**  The `SenderId` a PublicKey message carries on the wire is an
ordinary field the sending process fills in as it likes; `Loop` overwrites it UNCONDITIONALLY with the
transport-authenticated sender before the message is buffered: the stamped message carries the
transport sender whatever was claimed, and what a member does with a message from transport peer
`sender` does not depend on the claimed value. -/
theorem stamp_overwrites_claim (g : G) (m : Member F G) (sender claimed : Nat) (x : PkMsg G) :
    (stampSender x sender).sender = sender ∧
    stampSender { x with sender := claimed } sender = stampSender x sender ∧
    m.loopPk g sender { x with sender := claimed } = m.loopPk g sender x :=
  ⟨rfl, rfl, rfl⟩

/-- **3a″. a key announced by the wrong member aborts, whatever it claims**: if a member's key batch
contains a message that came through `Loop` from a transport peer other than the member whose index
it claims – with ANY `SenderId` filled in – the member fails. -/
theorem claimed_sender_does_not_help (g : G) (fuel : Nat) (m : Member F G) (batch : List (PkMsg G))
    (hs : m.stage = .waitPk) (hb : m.pkBox = some batch) (x : PkMsg G) (sender claimed : Nat)
    (hx : stampSender { x with sender := claimed } sender ∈ batch) (hf : sender ≠ x.index) :
    (Member.advance g (fuel + 1) m).stage = .failed "gen" :=
  forged_key_aborts g fuel m batch hs hb _ hx hf

/-- **3c. `duplicate_key_aborts`.**  A member whose key batch (with its own key) carries one key under
two indices fails: it does not finish. -/
theorem duplicate_key_aborts (g : G) (fuel : Nat) (m : Member F G) (batch : List (PkMsg G))
    (hs : m.stage = .waitPk) (hb : m.pkBox = some batch) (x y : PkMsg G)
    (hx : x ∈ (⟨m.index, some (m.long • g), m.index⟩ : PkMsg G) :: batch)
    (hy : y ∈ (⟨m.index, some (m.long • g), m.index⟩ : PkMsg G) :: batch)
    (hxy : x.index ≠ y.index) (hk : x.key = y.key) :
    (Member.advance g (fuel + 1) m).stage = .failed "gen" := by
  have hnone : buildGen g m.n m.long m.f ⟨m.index, some (m.long • g), m.index⟩ batch = none := by
    rcases hbg : buildGen g m.n m.long m.f ⟨m.index, some (m.long • g), m.index⟩ batch with _ | d
    · rfl
    · exfalso
      obtain ⟨hnd, hall⟩ := accepted_keys_are_bound g _ _ _ _ _ d hbg
      obtain ⟨_, k, hk1, hp1⟩ := hall x hx
      obtain ⟨_, k', hk2, hp2⟩ := hall y hy
      rw [hk, hk2] at hk1; injection hk1 with hk1; subst hk1
      have hxl : x.index < d.participants.length := by
        rcases Nat.lt_or_ge x.index d.participants.length with h | h
        · exact h
        · rw [List.getElem?_eq_none h] at hp1; cases hp1
      have hyl : y.index < d.participants.length := by
        rcases Nat.lt_or_ge y.index d.participants.length with h | h
        · exact h
        · rw [List.getElem?_eq_none h] at hp2; cases hp2
      rw [List.getElem?_eq_getElem hxl] at hp1
      rw [List.getElem?_eq_getElem hyl] at hp2
      injection hp1 with e1; injection hp2 with e2
      exact hxy (hnd.getElem_inj_iff.1 (by rw [e1, e2]))
  rw [Member.advance]
  simp only [hs, hb, hnone]

/-- **3. `safety`.**  Take ANY two member machines `m`, `m'` in ANY reachable states (`MemberInv`:
whatever messages arrived, in whatever order) in which both have finished, with key shares `ks`, `ks'`,
at different indices.  Hypotheses the adversary cannot influence: each lists the other's own key
`long • g` at the other's index (authenticated transport + 3a: an honest member announces only its
own key under its own index, and a key is accepted for an index only from that member) and responses
are unforgeable in both directions (`AuthResp`).  Then both hold the SAME participant list, each holds
the commitments the other one dealt, both output the SAME public polynomial – one group key – and
each one's private share lies on it at its own index. -/
theorem safety (g : G) (m m' : Member F G) (d d' : Gen F G) (ks ks' : KeyShare F G)
    (hm : MemberInv g m) (hm' : MemberInv g m') (hst : m.stage = .done d ks) (hst' : m'.stage = .done d' ks')
    (hne : d'.index ≠ d.index)
    (hpub' : d.participants[d'.index]? = some (d'.long • g)) (hpub : d'.participants[d.index]? = some (d.long • g))
    (hauth : AuthResp g (d'.long • g) d d') (hauth' : AuthResp g (d.long • g) d' d) :
    d'.participants = d.participants ∧ commitsAt d' d'.index = commitsAt d d'.index ∧
    ks'.commits = ks.commits ∧
    ks.shareV • g = pubEval (S := F) ks.commits (d.index : Int) ∧
    ks'.shareV • g = pubEval (S := F) ks'.commits (d'.index : Int) ∧
    ks.shareI = d.index ∧ ks'.shareI = d'.index := by
  simp only [MemberInv, hst] at hm
  simp only [MemberInv, hst'] at hm'
  obtain ⟨hg, ha, _, hnd, hks⟩ := hm
  obtain ⟨hg', ha', _, hnd', hks'⟩ := hm'
  obtain ⟨h1, h2, h3⟩ := finishers_agree_auth g d d' ks ks' hg hg' ha ha' hnd hnd' hne _ _ hpub' hpub hauth hauth' hks hks'
  refine ⟨h1, h2, h3, finished_share_on_poly g d ks hg ha hks, finished_share_on_poly g d' ks' hg' ha' hks', ?_, ?_⟩
  · exact (distKeyShare_spec d ks hg.len hks).2.2.2.2.2.1
  · exact (distKeyShare_spec d' ks' hg'.len hks').2.2.2.2.2.1

/-- **3′. the former statement of `safety`** (kept as a lemma): with the agreement of the two views and
of the commitments of `m'`'s own dealing as hypotheses. -/
theorem safety_of_agreeing_views (g : G) (m m' : Member F G) (d d' : Gen F G) (ks ks' : KeyShare F G)
    (hm : MemberInv g m) (hm' : MemberInv g m') (hst : m.stage = .done d ks) (hst' : m'.stage = .done d' ks')
    (hp : d'.participants = d.participants) (hne : d'.index ≠ d.index)
    (pub' : G) (hpub' : d.participants[d'.index]? = some pub')
    (hauth : AuthResp g pub' d d')
    (hdeal : commitsAt d' d'.index = commitsAt d d'.index) :
    ks'.commits = ks.commits := by
  simp only [MemberInv, hst] at hm
  simp only [MemberInv, hst'] at hm'
  obtain ⟨hg, ha, _, hnd, hks⟩ := hm
  obtain ⟨hg', ha', _, _, hks'⟩ := hm'
  exact finishers_agree g d d' ks ks' hg hg' ha ha' hp hnd hne pub' hpub' hauth hdeal hks hks'

/-! ### non-vacuity (ℚ, `g = 1`): three members with keys 5, 7, 9 -/

section Examples
def exL : List ℚ := [5, 7, 9]
/-- member 1's verifier for dealer 0 (key 5), and dealer 0's deal for member 1 with a bad share -/
def exV : Option (Verifier ℚ ℚ) := (newVerifier (1 : ℚ) 7 5 exL).toOption
def exBad : Option (EncDeal ℚ ℚ) :=
  sealDeal (1 : ℚ) 5 exL 1 11 0
    (.deal { (honestDeal (1 : ℚ) (5 : ℚ) exL ([4, 2] : List ℚ) 1 : Deal ℚ ℚ) with share := some ⟨1, some (9 : ℚ)⟩ })
def exGood : Option (EncDeal ℚ ℚ) := sealDeal (1 : ℚ) 5 exL 1 11 0 (.deal (honestDeal (1 : ℚ) 5 exL [4, 2] 1))

-- 1: a good deal is approved (the hypotheses hold), a bad share gets a complaint
example : (do let v ← exV; let e ← exGood; pure ((processEncryptedDeal 1 v e).2.toOption.map (·.status))) = some (some true) := by
  decide +kernel
example : (do let v ← exV; let e ← exBad; pure ((processEncryptedDeal 1 v e).2.toOption.map (·.status))) = some (some false) := by
  decide +kernel

/-- three member machines, started, keys exchanged -/
def exMember (k : Nat) (long : ℚ) (f : List ℚ) : Member ℚ ℚ := Member.init 3 k long f [11 + k, 21 + k, 31 + k]
def exRun : List (Member ℚ ℚ) :=
  let ms := [exMember 0 5 [4, 2], exMember 1 7 [6, 1], exMember 2 9 [3, 8]].map (Member.start (1 : ℚ))
  let pk (k : Nat) (long : ℚ) : PkMsg ℚ := ⟨k, some long, k⟩
  ms.map (fun m => ([pk 0 5, pk 1 7, pk 2 9].filter (fun x => x.index ≠ m.index)).foldl (fun m x => m.recvPk 1 x) m)

-- 2a/2c/3: the machines reach the dealing stage (the invariant's non-trivial branch is inhabited)
example : exRun.map (fun m => match m.stage with | .waitDeals _ => true | _ => false) = [true, true, true] := by
  decide +kernel
-- 3a′: member 0 is sent, by member 2, a key under member 1's index with SenderId pre-filled "1": still fails
example : ([(⟨1, some 99, 1⟩ : PkMsg ℚ), ⟨2, some 9, 0⟩].foldl (fun m x => m.loopPk 1 2 x)
    (Member.start (1 : ℚ) (exMember 0 5 [4, 2]))).stage matches .failed "gen" := by decide +kernel
-- 3b/3c: member 0 is sent, by member 2, a key under member 1's index / member 2 announces member 1's key: member 0 fails
example : ([(⟨1, some 99, 2⟩ : PkMsg ℚ), ⟨2, some 9, 2⟩].foldl (fun m x => m.recvPk 1 x)
    (Member.start (1 : ℚ) (exMember 0 5 [4, 2]))).stage matches .failed "gen" := by decide +kernel
example : ([(⟨1, some 7, 1⟩ : PkMsg ℚ), ⟨2, some 7, 2⟩].foldl (fun m x => m.recvPk 1 x)
    (Member.start (1 : ℚ) (exMember 0 5 [4, 2]))).stage matches .failed "gen" := by decide +kernel
-- 3: a complete run of the three machines: all finish, in states to which `safety` applies, with one key
def exCfg : Cfg ℚ ℚ := { g := 1, longs := [5, 7, 9], polys := [[4, 2], [6, 1], [3, 8]] }
def exSched : List Ev :=
  let pairs := [(0, 1), (0, 2), (1, 0), (1, 2), (2, 0), (2, 1)]
  [.start 0, .start 1, .start 2] ++ pairs.map (fun p => Ev.pk p.1 p.2) ++ pairs.map (fun p => Ev.deal p.1 p.2) ++
    pairs.map (fun p => Ev.resps p.1 p.2)
example : (runEvents exCfg [[11, 12, 13], [21, 22, 23], [31, 32, 33]] exSched).ms.map
    (fun m => match m.stage with | .done _ ks => some ks.commits | _ => none) = [some [13, 11], some [13, 11], some [13, 11]] := by
  decide +kernel
-- 3: … and each finisher lists every member's own key `long • g` at that member's index (hypotheses `hpub`, `hpub'`)
example : (runEvents exCfg [[11, 12, 13], [21, 22, 23], [31, 32, 33]] exSched).ms.map
    (fun m => match m.stage with | .done d _ => some (d.participants, d.index, d.long • (1 : ℚ)) | _ => none) =
    [some ([5, 7, 9], 0, 5), some ([5, 7, 9], 1, 7), some ([5, 7, 9], 2, 9)] := by
  decide +kernel
end Examples

end Dos.Props.C05

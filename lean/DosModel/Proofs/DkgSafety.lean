/-
Agreement of two finishing members (C05 `safety`, C04 `agree`): what one member's final state
records about the other member's responses pins the commitments down.
-/
import DosModel.Proofs.DkgFinish
import Mathlib.Data.List.Nodup

set_option linter.unusedSectionVars false

namespace Dos.Dkg
open Dos Dos.Vss

variable {F G : Type} [Field F] [AddCommGroup G] [Module F G] [DecidableEq F] [DecidableEq G]

theorem certified_slots (a : Agg F G) (h : a.certified = true) (k : Nat) (hk : k < a.vs.length) :
    ∃ r, getResponse a k = some r := by
  unfold Agg.certified at h
  simp only [Bool.and_eq_true, List.all_eq_true, List.mem_range] at h
  have := h.1.1 k hk
  unfold hasResponse at this
  exact Option.isSome_iff_exists.1 this

/-- **unforgeability of responses, as an assumption on a run**: every response that member `d`
stored under member `dk`'s index and that verifies under `dk`'s key (up to the status an accepted
justification may have flipped) carries the session id of one of the own responses `dk` holds,
i.e. of a response `dk` signed itself (Schnorr signatures under an honest key are not forged;
honest members sign responses only in `ProcessEncryptedDeal`). -/
def AuthResp (g : G) (pubk : G) (d dk : Gen F G) : Prop :=
  ∀ j v a (r : Response F G) (st : Bool), getVerifier d j = some v → v.agg = some a →
    getResponse a dk.index = some r → verifyRespSig g pubk { r with status := st } = true →
    ∃ j2 v2 a2 r2, getVerifier dk j2 = some v2 ∧ v2.agg = some a2 ∧ getResponse a2 dk.index = some r2 ∧ r2.sid = r.sid

/-- the stored deal of a slot whose own response is an approval, with the session id the slot compares with -/
theorem approved_slot (g : G) (d : Gen F G) (hg : GoodGen g d) (ha : AllApproved d) (j : Nat) (v : Verifier F G)
    (a : Agg F G) (hv : getVerifier d j = some v) (hagg : v.agg = some a) :
    ∃ dl, a.deal = some dl ∧ dealAt d j = some dl ∧ a.sid = Sid.h v.dealer d.participants dl.commits dl.t ∧
      d.participants[j]? = some v.dealer ∧
      ∃ r, getResponse a d.index = some r ∧ r.sid = Sid.h v.dealer d.participants dl.commits dl.t := by
  have hgv := hg.good j v hv
  have hga := hgv.hagg a hagg
  obtain ⟨r, hr, _, _, himp⟩ := hga.ownResp
  obtain ⟨dl, val, h1, h2, h3, hcons, _⟩ := himp (ha j v a r hv hagg hr)
  obtain ⟨_, _, _, _, hsid, _⟩ := hcons
  refine ⟨dl, h1, by simp [dealAt, hv, hagg, h1], by rw [h2, ← hsid], hgv.hdealer, r, hr, h3⟩

/-- **two finishers hold the same commitments for every dealer other than themselves** -/
theorem commits_agree_of_response (g : G) (d d' : Gen F G) (hg : GoodGen g d) (hg' : GoodGen g d')
    (ha : AllApproved d) (ha' : AllApproved d') (hp : d'.participants = d.participants)
    (hnd : d.participants.Nodup) (hne : d'.index ≠ d.index) (hlt' : d'.index < d.participants.length)
    (pub' : G) (hpub' : d.participants[d'.index]? = some pub')
    (hauth : AuthResp g pub' d d')
    (j : Nat) (hj : j ≠ d'.index) (v : Verifier F G) (a : Agg F G)
    (hv : getVerifier d j = some v) (hagg : v.agg = some a) (hcert : a.certified = true) :
    commitsAt d' j = commitsAt d j := by
  obtain ⟨dl, hdl, hda, hsid, hdealer, _⟩ := approved_slot g d hg ha j v a hv hagg
  have hga := (hg.good j v hv).hagg a hagg
  obtain ⟨r, hr⟩ := certified_slots a hcert d'.index (by rw [hga.hvs]; exact hlt')
  obtain ⟨hri, hrs, pub, st, hpub, hsig⟩ := hga.others d'.index hne (Ne.symm hj) r hr
  rw [hpub'] at hpub; injection hpub with hpub; subst hpub
  obtain ⟨j2, v2, a2, r2, hv2, hagg2, hr2, hsid2⟩ := hauth j v a r st hv hagg hr hsig
  obtain ⟨dl2, _, hda2, _, hdealer2, r2', hr2', hsid2'⟩ := approved_slot g d' hg' ha' j2 v2 a2 hv2 hagg2
  rw [hr2] at hr2'; injection hr2' with hr2'; subst hr2'
  -- Sid.h of slot j2 at d' = session id of slot j at d
  have heq : Sid.h v2.dealer d'.participants dl2.commits dl2.t = Sid.h v.dealer d.participants dl.commits dl.t := by
    rw [← hsid2', hsid2, hrs, hsid]
  injection heq with h1 _ h3 _
  -- same dealer key ⇒ same slot (keys are pairwise distinct)
  have hjj : j2 = j := by
    rw [hp] at hdealer2
    rw [h1] at hdealer2
    have hj2lt : j2 < d.participants.length := by
      rcases Nat.lt_or_ge j2 d.participants.length with h | h
      · exact h
      · rw [List.getElem?_eq_none h] at hdealer2; cases hdealer2
    have hjlt : j < d.participants.length := by
      rcases Nat.lt_or_ge j d.participants.length with h | h
      · exact h
      · rw [List.getElem?_eq_none h] at hdealer; cases hdealer
    rw [List.getElem?_eq_getElem hj2lt] at hdealer2
    rw [List.getElem?_eq_getElem hjlt] at hdealer
    injection hdealer2 with e2; injection hdealer with e1
    exact hnd.getElem_inj_iff.1 (by rw [e2, e1])
  subst hjj
  simp only [commitsAt, hda, hda2, h3]

/-- **agreement**: two members that both finish, each holding the other's genuine deal, and with
unforgeable responses, output the same public polynomial. -/
theorem finishers_agree (g : G) (d d' : Gen F G) (ks ks' : KeyShare F G) (hg : GoodGen g d) (hg' : GoodGen g d')
    (ha : AllApproved d) (ha' : AllApproved d') (hp : d'.participants = d.participants)
    (hnd : d.participants.Nodup) (hne : d'.index ≠ d.index)
    (pub' : G) (hpub' : d.participants[d'.index]? = some pub') (hauth : AuthResp g pub' d d')
    (hown : commitsAt d' d'.index = commitsAt d d'.index)
    (h : distKeyShare d = .ok ks) (h' : distKeyShare d' = .ok ks') :
    ks'.commits = ks.commits := by
  obtain ⟨_, hslots, hcom, _, _, _, _⟩ := distKeyShare_spec d ks hg.len h
  obtain ⟨_, _, hcom', _, _, _, _⟩ := distKeyShare_spec d' ks' hg'.len h'
  have hlt' : d'.index < d.participants.length := by rw [← hp]; exact hg'.lt
  rw [hcom, hcom', hp]
  congr 1
  apply List.map_congr_left
  intro j hj
  have hjlt := List.mem_range.1 hj
  by_cases hjd : j = d'.index
  · rw [hjd]; exact hown
  · obtain ⟨v, a, _, _, _, hv, hagg, _, hcert, _⟩ := hslots j hjlt
    exact commits_agree_of_response g d d' hg hg' ha ha' hp hnd hne hlt' pub' hpub' hauth j hjd v a hv hagg hcert

/-- **two finishers hold the same participant list**: the session id of the response of `d'` that `d`
stored in its OWN slot is, by `AuthResp`, the session id of a slot of `d'`, and a session id names
the whole participant list. -/
theorem participants_agree_of_response (g : G) (d d' : Gen F G) (hg : GoodGen g d) (hg' : GoodGen g d')
    (ha : AllApproved d) (ha' : AllApproved d') (hne : d'.index ≠ d.index)
    (pub' : G) (hpub' : d.participants[d'.index]? = some pub') (hauth : AuthResp g pub' d d')
    (v : Verifier F G) (a : Agg F G) (hv : getVerifier d d.index = some v) (hagg : v.agg = some a)
    (hcert : a.certified = true) : d'.participants = d.participants := by
  have hlt' : d'.index < d.participants.length := by
    rcases Nat.lt_or_ge d'.index d.participants.length with h | h
    · exact h
    · rw [List.getElem?_eq_none h] at hpub'; cases hpub'
  obtain ⟨dl, _, _, hsid, _, _⟩ := approved_slot g d hg ha d.index v a hv hagg
  have hga := (hg.good d.index v hv).hagg a hagg
  obtain ⟨r, hr⟩ := certified_slots a hcert d'.index (by rw [hga.hvs]; exact hlt')
  obtain ⟨_, hrs, pub, st, hpub, hsig⟩ := hga.others d'.index hne hne r hr
  rw [hpub'] at hpub; injection hpub with hpub; subst hpub
  obtain ⟨j2, v2, a2, r2, hv2, hagg2, hr2, hsid2⟩ := hauth d.index v a r st hv hagg hr hsig
  obtain ⟨dl2, _, _, _, _, r2', hr2', hsid2'⟩ := approved_slot g d' hg' ha' j2 v2 a2 hv2 hagg2
  rw [hr2] at hr2'; injection hr2' with hr2'; subst hr2'
  have heq : Sid.h v2.dealer d'.participants dl2.commits dl2.t = Sid.h v.dealer d.participants dl.commits dl.t := by
    rw [← hsid2', hsid2, hrs, hsid]
  injection heq

/-- **agreement without assumptions on the members' views**: two members that both finish, each
listing the other's key at the other's index, with unforgeable responses in both directions and no
key twice in either list, output the same public polynomial.  That the lists coincide and that each
holds the commitments the other dealt is DERIVED (session ids name the list and the commitments). -/
theorem finishers_agree_auth (g : G) (d d' : Gen F G) (ks ks' : KeyShare F G) (hg : GoodGen g d) (hg' : GoodGen g d')
    (ha : AllApproved d) (ha' : AllApproved d') (hnd : d.participants.Nodup) (hnd' : d'.participants.Nodup)
    (hne : d'.index ≠ d.index)
    (pub pub' : G) (hpub' : d.participants[d'.index]? = some pub') (hpub : d'.participants[d.index]? = some pub)
    (hauth : AuthResp g pub' d d') (hauth' : AuthResp g pub d' d)
    (h : distKeyShare d = .ok ks) (h' : distKeyShare d' = .ok ks') :
    d'.participants = d.participants ∧ commitsAt d' d'.index = commitsAt d d'.index ∧ ks'.commits = ks.commits := by
  obtain ⟨_, hslots, _⟩ := distKeyShare_spec d ks hg.len h
  obtain ⟨_, hslots', _⟩ := distKeyShare_spec d' ks' hg'.len h'
  obtain ⟨v, a, _, _, _, hv, hagg, _, hcert, _⟩ := hslots d.index hg.lt
  have hp := participants_agree_of_response g d d' hg hg' ha ha' hne pub' hpub' hauth v a hv hagg hcert
  obtain ⟨v', a', _, _, _, hv', hagg', _, hcert', _⟩ := hslots' d'.index hg'.lt
  have hown : commitsAt d d'.index = commitsAt d' d'.index :=
    commits_agree_of_response g d' d hg' hg ha' ha hp.symm hnd' (Ne.symm hne) (by rw [hp]; exact hg.lt) pub hpub hauth'
      d'.index hne v' a' hv' hagg' hcert'
  exact ⟨hp, hown.symm, finishers_agree g d d' ks ks' hg hg' ha ha' hp hnd hne pub' hpub' hauth hown.symm h h'⟩

end Dos.Dkg

/-
C06 — the hash: `Model/Keccak.lean` (written from the Keccak reference) is the sponge construction with the
LEGACY padding, its tables are those of golang.org/x/crypto/sha3 (the library `hashToPoint` calls), and it
takes the known values.

Property theorems only (helpers: `Proofs/Keccak.lean`, `Proofs/KeccakKat.lean`, `Proofs/KeccakKat2.lean`).
  * `keccak_is_sponge`: for every message, keccak256 msg = squeeze (fold absorbBlock over the 136-byte blocks
    of msg ‖ pad), the padded message is a whole number of blocks, pad = 0x01 0…0 0x80 (0x81 when one byte
    is missing) — `keccak_padding_is_legacy` ties the two pad bytes to the library's `dsbyte` and final bit;
  * `keccak_output_length`: 32 bytes, hence `hash_to_scalar`: the scalar is the big-endian value mod r, < r;
  * `gen_keccak_tables`: round constants = the library's table (generic Go AND amd64 assembly), ρ offsets per
    lane = the library's (round 1 of the unrolled code; the multiset of the assembly's ROLQ constants),
    rate 136, 32 output bytes, domain byte 0x01 (not SHA-3's 0x06), final bit 0x80 — facts regenerated from
    the module cache at every run;
  * `keccak_known_answers`: empty, "abc", 135 / 136 / 137 bytes (block boundary) by kernel evaluation.
NOT proved: that the permutation as written is Keccak-f[1600] of the specification (there is no Lean
specification to compare with); the tables + the known answers + the comparison with the library on every
message of every run are the evidence.
-/
import DosModel.Proofs.Keccak
import DosModel.Proofs.KeccakKat2
import DosModel.Model.Bls
import DosModel.Proofs.CodecBytes
import DosModel.Gen.KeccakFacts

namespace Dos.Props.C06Keccak
open Dos Dos.Keccak

/-- **keccak256 is the sponge over the padded message's 136-byte blocks** -/
theorem keccak_is_sponge (msg : Bytes) :
    keccak256 msg = squeeze ((paddedBlocks msg).foldl absorbBlock (Array.replicate 25 0)) ∧
    (∀ b ∈ paddedBlocks msg, b.length = rate) ∧
    (paddedBlocks msg).flatten = msg ++ padSuffix (rate - msg.length % rate) ∧
    (paddedBlocks msg).length = msg.length / rate + 1 ∧
    (msg ++ padSuffix (rate - msg.length % rate)).length = (msg.length / rate + 1) * rate :=
  ⟨keccak256_eq_sponge msg, paddedBlocks_spec msg⟩

set_option maxRecDepth 100000 in
example : paddedBlocks (katMsg 136) = [katMsg 136, 0x01 :: List.replicate 134 0 ++ [0x80]] := by
  decide +kernel
set_option maxRecDepth 100000 in
example : (paddedBlocks (katMsg 135)).flatten = katMsg 135 ++ [0x81] := by decide +kernel

/-- the digest has 32 bytes, whatever the message -/
theorem keccak_output_length (msg : Bytes) : (keccak256 msg).length = 32 := by
  rw [keccak256_eq_sponge]; exact squeeze_length _

example : (keccak256 (katMsg 1000)).length = 32 := keccak_output_length _

/-- **the padding is the legacy Keccak one**: `q` bytes (1 ≤ q ≤ 136 in `keccak_is_sponge`), the first is the
library's `dsbyte` for `NewLegacyKeccak256` (0x01: the pad bit alone, no SHA-3 domain bits), the last carries
the library's final bit 0x80, zeros in between; both in one byte when q = 1 -/
theorem keccak_padding_is_legacy (q : Nat) (hq : 1 ≤ q) :
    (padSuffix q).length = q ∧
    padSuffix 1 = [UInt8.ofNat (Gen.Keccak.legacyDsbyte ^^^ Gen.Keccak.padLastXor)] ∧
    padSuffix (q + 1) = [UInt8.ofNat Gen.Keccak.legacyDsbyte] ++ List.replicate (q - 1) 0
      ++ [UInt8.ofNat Gen.Keccak.padLastXor] ∧
    Gen.Keccak.padLastXorIndex = "d.rate-1" := by
  refine ⟨padSuffix_length q hq, by decide, ?_, by decide⟩
  have h1 : ¬ q + 1 = 1 := by omega
  have h2 : q + 1 - 2 = q - 1 := by omega
  simp only [padSuffix, h1, if_false, h2]
  rfl

example : padSuffix 3 = [0x01, 0x00, 0x80] := by decide

/-- **the tables are the library's** (regenerated from golang.org/x/crypto/sha3 in the module cache) -/
theorem gen_keccak_tables :
    roundConstants.toList.map UInt64.toNat = Gen.Keccak.rcGo ∧
    Gen.Keccak.rcAsm = Gen.Keccak.rcGo ∧
    -- ρ: in round 1 of the unrolled code lane i (= x + 5y) is rotated by the model's offset for lane i …
    ((Gen.Keccak.rhoLanes.take 24).zip (Gen.Keccak.rhoRots.take 24)).all
      (fun ln => rotc.getD ln.1 0 == ln.2) = true ∧
    -- … these are all lanes but lane 0, which is not rotated
    (List.range 25).all (fun i => i == 0 || (Gen.Keccak.rhoLanes.take 24).contains i) = true ∧
    rotc.getD 0 0 = 0 ∧ rotc.size = 25 ∧
    -- the four unrolled rounds use the same offsets in the same order
    Gen.Keccak.rhoRots = (List.replicate 4 (Gen.Keccak.rhoRots.take 24)).flatten ∧
    -- the assembly round rotates by the same multiset (plus θ's five rotations by 1)
    (List.range 65).all (fun n => Gen.Keccak.rolAsm.count n ==
      (rotc.toList.filter (· != 0)).count n + (if n == 1 then 5 else 0)) = true ∧
    rate = Gen.Keccak.legacyRate ∧ Gen.Keccak.legacyOutputLen = 32 ∧ Gen.Keccak.legacyDsbyte = 1 ∧
    Gen.Keccak.padLastXor = 0x80 := by decide

/-- **known answers**, evaluated by the kernel: the empty string, "abc", and messages of 135, 136 and 137
bytes 00 01 02 … (one byte short of the rate: single pad byte 0x81; exactly the rate: a block of padding;
one byte more) -/
theorem keccak_known_answers :
    toHex (keccak256 []) = "c5d2460186f7233c927e7db2dcc703c0e500b653ca82273b7bfad8045d85a470" ∧
    toHex (keccak256 [0x61, 0x62, 0x63]) = "4e03657aea45a94fc7d47ba826c8d667c0d1e6e33a64a036ec44f58fa12d6c45" ∧
    toHex (keccak256 (katMsg 135)) = "cbdfd9dee5faad3818d6b06f95a219fd290b0e1706f6a82e5a595b9ce9faca62" ∧
    toHex (keccak256 (katMsg 136)) = "7ce759f1ab7f9ce437719970c26b0a66ff11fe3e38e17df89cf5d29c7d7f807e" ∧
    toHex (keccak256 (katMsg 137)) = "ac73d4fae68b8453f764007c1a20ce95994187861f0c3227a3a8e99a73a3b1db" :=
  ⟨kat_empty, kat_abc, kat_135, kat_136, kat_137⟩

example : katMsg 3 = [0, 1, 2] := by decide

/-- **hash → scalar**: `Scalar().SetBytes(keccak256(msg))` is the 256-bit big-endian value reduced mod r:
below r for every message, and the reduction is a real one (the digest itself is < 2^256, and ≥ r for most
messages — e.g. the empty one) -/
theorem hash_to_scalar (msg : Bytes) :
    Bls.keccakScalar msg = beNat (keccak256 msg) % Bn256.r ∧ Bls.keccakScalar msg < Bn256.r ∧
    beNat (keccak256 msg) < 2 ^ 256 := by
  refine ⟨rfl, Nat.mod_lt _ (by decide), ?_⟩
  have h := Dos.CodecBytes.beNat_lt (keccak256 msg)
  rw [keccak_output_length] at h
  exact Nat.lt_of_lt_of_eq h (by decide)

example : Bls.keccakScalar [] =
    0xc5d2460186f7233c927e7db2dcc703c0e500b653ca82273b7bfad8045d85a470 % Bn256.r ∧
    Bn256.r ≤ 0xc5d2460186f7233c927e7db2dcc703c0e500b653ca82273b7bfad8045d85a470 := by
  refine ⟨?_, by decide⟩
  have h : keccak256 [] = (ofHex "c5d2460186f7233c927e7db2dcc703c0e500b653ca82273b7bfad8045d85a470").getD [] := by
    decide +kernel
  rw [(hash_to_scalar []).1, h]; decide

end Dos.Props.C06Keccak

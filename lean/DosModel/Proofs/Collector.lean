/-
Helper lemmas for C13 (share collector).  Core Lean only.
-/
import DosModel.Model.Collector

namespace Dos.Collector
open Dos

/-- projection of a list of sends on one instance -/
def deliv (o : List (Nat × Share)) (h : Nat) : List Share :=
  (o.filter (fun p => p.1 == h)).map (·.2)

theorem deliv_append (a b : List (Nat × Share)) (h : Nat) :
    deliv (a ++ b) h = deliv a h ++ deliv b h := by
  simp [deliv]

@[simp] theorem deliv_nil (h : Nat) : deliv [] h = [] := rfl

theorem deliv_map_self (l : List Share) (h : Nat) : deliv (l.map (fun s => (h, s))) h = l := by
  induction l with
  | nil => rfl
  | cons a l ih => simp only [deliv] at ih; simp [deliv, ih]

theorem deliveries_eq (es : List Ev) (h : Nat) : deliveries es h = deliv (run init es).2 h := rfl

theorem run_cons (st : St) (e : Ev) (es : List Ev) :
    run st (e :: es) = ((run (step st e).1 es).1, (step st e).2 ++ (run (step st e).1 es).2) := by
  simp [run]

theorem run_append (st : St) (a b : List Ev) :
    run st (a ++ b) = ((run (run st a).1 b).1, (run st a).2 ++ (run (run st a).1 b).2) := by
  induction a generalizing st with
  | nil => simp [run]
  | cons e a ih => simp [run_cons, ih, List.append_assoc]

theorem arrivalsFor_append (r : Rid) (a b : List Ev) :
    arrivalsFor r (a ++ b) = arrivalsFor r a ++ arrivalsFor r b := by
  induction a with
  | nil => rfl
  | cons e a ih =>
    cases e with
    | arrive s => by_cases hs : s.rid = r <;> simp [arrivalsFor, hs, ih]
    | register h r' => simp [arrivalsFor, ih]
    | cancel h => simp [arrivalsFor, ih]
    | watchdog => simp [arrivalsFor, ih]
    | other => simp [arrivalsFor, ih]

theorem step_arrive_done {st : St} {s : Share} {h0 : Nat} (hr : st.reg s.rid = some h0)
    (hd : st.done h0 = true) : step st (.arrive s) = (st, []) := by simp [step, hr, hd]

theorem step_arrive_live {st : St} {s : Share} {h0 : Nat} (hr : st.reg s.rid = some h0)
    (hd : ¬ st.done h0 = true) : step st (.arrive s) = (st, [(h0, s)]) := by simp [step, hr, hd]

theorem step_arrive_none {st : St} {s : Share} (hr : st.reg s.rid = none) :
    step st (.arrive s) = ({ st with buf := upd st.buf s.rid (st.buf s.rid ++ [s]) }, []) := by
  simp [step, hr]

/-- state invariant: a registered request has an empty buffer, and buffers are keyed correctly -/
structure Good (st : St) : Prop where
  regEmpty : ∀ r, st.reg r ≠ none → st.buf r = []
  keyed : ∀ r s, s ∈ st.buf r → s.rid = r

theorem good_init : Good init := ⟨fun _ _ => rfl, fun _ _ h => by simp [init] at h⟩

theorem good_step (st : St) (e : Ev) (g : Good st) : Good (step st e).1 := by
  cases e with
  | arrive s =>
    cases hr : st.reg s.rid with
    | some h =>
      by_cases hd : st.done h <;> simp [step, hr, hd] <;> exact g
    | none =>
      simp only [step, hr]
      constructor
      · intro r hne
        by_cases hrr : r = s.rid
        · subst hrr; simp [hr] at hne
        · simp [upd, hrr]; exact g.regEmpty r hne
      · intro r x hx
        by_cases hrr : r = s.rid
        · subst hrr
          simp [upd] at hx
          rcases hx with hx | hx
          · exact g.keyed _ _ hx
          · rw [hx]
        · simp [upd, hrr] at hx; exact g.keyed _ _ hx
  | register h r' =>
    simp only [step]
    constructor
    · intro r hne
      by_cases hrr : r = r'
      · simp [upd, hrr]
      · simp [upd, hrr] at hne ⊢; exact g.regEmpty r hne
    · intro r x hx
      by_cases hrr : r = r'
      · simp [upd, hrr] at hx
      · simp [upd, hrr] at hx; exact g.keyed _ _ hx
  | cancel h => exact ⟨g.regEmpty, g.keyed⟩
  | watchdog =>
    simp only [step]
    constructor
    · intro r hne
      by_cases hg : gone st r = true
      · simp [hg] at hne
      · simp [hg] at hne ⊢; exact g.regEmpty r hne
    · intro r x hx
      by_cases hg : gone st r = true
      · simp [hg] at hx
      · simp [hg] at hx; exact g.keyed _ _ hx
  | other => exact g

theorem good_run (es : List Ev) : ∀ st, Good st → Good (run st es).1 := by
  induction es with
  | nil => intro st g; exact g
  | cons e es ih => intro st g; rw [run_cons]; exact ih _ (good_step st e g)

/-! ### every send goes to an instance that registered under the share's request id -/

theorem run_out_mem (es : List Ev) : ∀ (st : St) (pre : List Ev),
    (∀ r h, st.reg r = some h → Ev.register h r ∈ pre) → (∀ r s, s ∈ st.buf r → s.rid = r) →
    ∀ p ∈ (run st es).2, Ev.register p.1 p.2.rid ∈ pre ++ es := by
  induction es with
  | nil => intro st pre _ _ p hp; simp [run] at hp
  | cons e es ih =>
    intro st pre hreg hkey p hp
    rw [run_cons] at hp
    have hpre : pre ++ e :: es = (pre ++ [e]) ++ es := by simp
    rw [hpre]
    simp only [List.mem_append] at hp
    -- invariants of the next state
    have hreg' : ∀ r h, (step st e).1.reg r = some h → Ev.register h r ∈ pre ++ [e] := by
      intro r h hh
      cases e with
      | arrive s =>
        cases hr : st.reg s.rid with
        | some h0 =>
          by_cases hd : st.done h0 <;> simp [step, hr, hd] at hh <;>
            exact List.mem_append_left _ (hreg r h hh)
        | none => simp [step, hr] at hh; exact List.mem_append_left _ (hreg r h hh)
      | register h0 r0 =>
        by_cases hrr : r = r0
        · simp [step, upd, hrr] at hh; subst hh; subst hrr; simp
        · simp [step, upd, hrr] at hh; exact List.mem_append_left _ (hreg r h hh)
      | cancel h0 => simp [step] at hh; exact List.mem_append_left _ (hreg r h hh)
      | watchdog =>
        simp only [step] at hh
        by_cases hg : gone st r = true
        · simp [hg] at hh
        · simp [hg] at hh; exact List.mem_append_left _ (hreg r h hh)
      | other => simp [step] at hh; exact List.mem_append_left _ (hreg r h hh)
    have hkey' : ∀ r s, s ∈ (step st e).1.buf r → s.rid = r := by
      intro r x hx
      cases e with
      | arrive s =>
        cases hr : st.reg s.rid with
        | some h0 =>
          by_cases hd : st.done h0 <;> simp [step, hr, hd] at hx <;> exact hkey _ _ hx
        | none =>
          simp only [step, hr] at hx
          by_cases hrr : r = s.rid
          · subst hrr
            simp [upd] at hx
            rcases hx with hx | hx
            · exact hkey _ _ hx
            · rw [hx]
          · simp [upd, hrr] at hx; exact hkey _ _ hx
      | register h0 r0 =>
        by_cases hrr : r = r0
        · simp [step, upd, hrr] at hx
        · simp [step, upd, hrr] at hx; exact hkey _ _ hx
      | cancel h0 => simp [step] at hx; exact hkey _ _ hx
      | watchdog =>
        simp only [step] at hx
        by_cases hg : gone st r = true
        · simp [hg] at hx
        · simp [hg] at hx; exact hkey _ _ hx
      | other => simp [step] at hx; exact hkey _ _ hx
    rcases hp with hp | hp
    · -- produced by this very step
      apply List.mem_append_left
      cases e with
      | arrive s =>
        cases hr : st.reg s.rid with
        | some h0 =>
          by_cases hd : st.done h0
          · simp [step, hr, hd] at hp
          · simp [step, hr, hd] at hp; subst hp
            exact List.mem_append_left _ (hreg _ _ hr)
        | none => simp [step, hr] at hp
      | register h0 r0 =>
        by_cases hd : st.done h0
        · simp [step, hd] at hp
        · simp [step, hd] at hp
          obtain ⟨s, hs, rfl⟩ := hp
          have := hkey _ _ hs
          simp [this]
      | cancel h0 => simp [step] at hp
      | watchdog => simp [step] at hp
      | other => simp [step] at hp
    · exact ih _ _ hreg' hkey' p hp

/-! ### never duplicated, never reordered, never invented -/

theorem run_sublist (r : Rid) (es : List Ev) : ∀ st, Good st →
    (((run st es).2.map (·.2)).filter (fun s => s.rid = r)).Sublist (st.buf r ++ arrivalsFor r es) := by
  induction es with
  | nil => intro st _; simp [run]
  | cons e es ih =>
    intro st g
    have g' := good_step st e g
    have ih' := ih _ g'
    rw [run_cons]
    simp only [List.map_append, List.filter_append]
    cases e with
    | arrive s =>
      cases hr : st.reg s.rid with
      | some h0 =>
        have hb : st.buf s.rid = [] := g.regEmpty _ (by simp [hr])
        by_cases hd : st.done h0
        · rw [step_arrive_done hr hd] at ih' ⊢
          simp only [List.map_nil, List.filter_nil, List.nil_append]
          by_cases hs : s.rid = r
          · simp only [arrivalsFor, hs, if_true]
            exact ih'.trans (List.Sublist.append (List.Sublist.refl _) (List.sublist_cons_self _ _))
          · simp only [arrivalsFor, hs, if_false]; exact ih'
        · rw [step_arrive_live hr hd] at ih' ⊢
          by_cases hs : s.rid = r
          · subst hs
            simp only [hb, List.nil_append] at ih' ⊢
            simpa [arrivalsFor] using ih'
          · simpa [arrivalsFor, hs] using ih'
      | none =>
        rw [step_arrive_none hr] at ih' ⊢
        simp only [List.map_nil, List.filter_nil, List.nil_append]
        by_cases hs : s.rid = r
        · subst hs
          simp only [arrivalsFor, if_true, upd] at ih' ⊢
          simpa [List.append_assoc] using ih'
        · have : r ≠ s.rid := fun h => hs h.symm
          simp only [arrivalsFor, hs, if_false, upd, this] at ih' ⊢
          exact ih'
    | register h0 r0 =>
      simp only [step, arrivalsFor] at ih' ⊢
      by_cases hrr : r = r0
      · subst hrr
        simp only [upd, if_true, List.nil_append] at ih'
        by_cases hd : st.done h0
        · simp only [hd, if_true, List.map_nil, List.filter_nil, List.nil_append]
          exact ih'.trans (List.sublist_append_right _ _)
        · simp only [hd, Bool.false_eq_true, if_false, List.map_map]
          have hall : ((st.buf r).map ((fun x => x.2) ∘ fun s => (h0, s))).filter (fun s => s.rid = r) = st.buf r := by
            have : ((fun x : Nat × Share => x.2) ∘ fun s => (h0, s)) = id := rfl
            rw [this, List.map_id, List.filter_eq_self]
            intro a ha; simp [g.keyed _ _ ha]
          rw [hall]
          exact List.Sublist.append (List.Sublist.refl _) ih'
      · simp only [upd, hrr, if_false] at ih'
        have hnone : (((if st.done h0 = true then [] else (st.buf r0).map fun s => (h0, s)).map (·.2)).filter
            (fun s => s.rid = r)) = [] := by
          by_cases hd : st.done h0
          · simp [hd]
          · simp only [hd, Bool.false_eq_true, if_false, List.map_map, List.filter_eq_nil_iff]
            intro a ha
            simp only [List.mem_map, Function.comp] at ha
            obtain ⟨b, hb, rfl⟩ := ha
            have := g.keyed _ _ hb
            simp [this]; exact fun h => hrr h.symm
        rw [hnone]; exact ih'
    | cancel h0 =>
      simp only [step, arrivalsFor, List.map_nil, List.filter_nil, List.nil_append] at ih' ⊢
      exact ih'
    | watchdog =>
      simp only [step, arrivalsFor, List.map_nil, List.filter_nil, List.nil_append] at ih' ⊢
      refine ih'.trans (List.Sublist.append ?_ (List.Sublist.refl _))
      by_cases hg : gone st r = true
      · simp [hg]
      · simp [hg]
    | other =>
      simp only [step, arrivalsFor, List.map_nil, List.filter_nil, List.nil_append] at ih' ⊢
      exact ih'

/-! ### the three phases of a request registered once -/

/-- events that neither register request id `r`, nor register instance `h`, nor cancel `h` -/
def Quiet (h : Nat) (r : Rid) (es : List Ev) : Prop :=
  (∀ h' r', Ev.register h' r' ∈ es → r' ≠ r ∧ h' ≠ h) ∧ Ev.cancel h ∉ es

theorem quiet_cons {h : Nat} {r : Rid} {e : Ev} {es : List Ev} (q : Quiet h r (e :: es)) :
    Quiet h r es :=
  ⟨fun h' r' hm => q.1 h' r' (List.mem_cons_of_mem _ hm), fun hm => q.2 (List.mem_cons_of_mem _ hm)⟩

/-- before the registration: every arrival for `r` is buffered, nothing reaches `h` -/
theorem phase_before (h : Nat) (r : Rid) (es : List Ev) : ∀ st, Good st →
    st.reg r = none → (∀ r', st.reg r' ≠ some h) → st.done h = false → Quiet h r es →
    (run st es).1.reg r = none ∧ (∀ r', (run st es).1.reg r' ≠ some h) ∧ (run st es).1.done h = false ∧
    (run st es).1.buf r = st.buf r ++ arrivalsFor r es ∧ deliv (run st es).2 h = [] := by
  induction es with
  | nil => intro st _ h1 h2 h3 _; simp [run, arrivalsFor, h1, h2, h3]
  | cons e es ih =>
    intro st g h1 h2 h3 q
    have g' := good_step st e g
    rw [run_cons]
    simp only [deliv_append]
    cases e with
    | arrive s =>
      cases hr : st.reg s.rid with
      | some h0 =>
        have hne : h0 ≠ h := fun hh => h2 s.rid (hh ▸ hr)
        have hsr : s.rid ≠ r := fun hh => by rw [hh, h1] at hr; cases hr
        have hst : (step st (.arrive s)).1 = st := by by_cases hd : st.done h0 <;> simp [step, hr, hd]
        have ho : deliv (step st (.arrive s)).2 h = [] := by
          by_cases hd : st.done h0 <;> simp [step, hr, hd, deliv, hne]
        have := ih st g h1 h2 h3 (quiet_cons q)
        rw [hst, ho]
        simp only [arrivalsFor, hsr, if_false, List.nil_append]
        exact this
      | none =>
        have hst : (step st (.arrive s)).1 = { st with buf := upd st.buf s.rid (st.buf s.rid ++ [s]) } := by
          simp [step, hr]
        have ho : (step st (.arrive s)).2 = [] := by simp [step, hr]
        rw [hst] at g' ⊢
        have := ih _ g' h1 h2 h3 (quiet_cons q)
        rw [ho]
        simp only [deliv_nil, List.nil_append]
        refine ⟨this.1, this.2.1, this.2.2.1, ?_, this.2.2.2.2⟩
        rw [this.2.2.2.1]
        by_cases hs : s.rid = r
        · subst hs; simp [arrivalsFor, upd]
        · have : r ≠ s.rid := fun h => hs h.symm
          simp [arrivalsFor, hs, upd, this]
    | register h0 r0 =>
      have hq := q.1 h0 r0 (by simp)
      have hrr : r ≠ r0 := fun hh => hq.1 hh.symm
      have ho : deliv (step st (.register h0 r0)).2 h = [] := by
        by_cases hd : st.done h0
        · simp [step, hd]
        · simp [step, hd, deliv, List.filter_eq_nil_iff, hq.2]
      have := ih _ g' (by simp [step, upd, hrr, h1])
        (by intro r'; by_cases hr' : r' = r0
            · simp [step, upd, hr']; exact hq.2
            · simp [step, upd, hr']; exact h2 r')
        (by simp [step, h3]) (quiet_cons q)
      rw [ho]
      simp only [arrivalsFor, List.nil_append]
      refine ⟨this.1, this.2.1, this.2.2.1, ?_, this.2.2.2.2⟩
      rw [this.2.2.2.1]; simp [step, upd, hrr]
    | cancel h0 =>
      have hne : h ≠ h0 := fun hh => q.2 (by simp [hh])
      have := ih _ g' (by simp [step, h1]) (by simp [step]; exact h2) (by simp [step, hne, h3]) (quiet_cons q)
      simp only [step, deliv_nil, arrivalsFor, List.nil_append] at this ⊢
      exact this
    | watchdog =>
      have := ih _ g' (by simp [step, gone, h1])
        (by intro r'; simp only [step]
            by_cases hg : gone st r' = true
            · simp [hg]
            · simp [hg]; exact h2 r')
        (by simp [step, h3]) (quiet_cons q)
      simp only [arrivalsFor]
      refine ⟨this.1, this.2.1, this.2.2.1, ?_, this.2.2.2.2⟩
      rw [this.2.2.2.1]; simp [step, gone, h1]
    | other =>
      have := ih st g h1 h2 h3 (quiet_cons q)
      simp only [step, deliv_nil, arrivalsFor, List.nil_append] at this ⊢
      exact this

/-- after the registration: every arrival for `r` is forwarded to `h`, nothing else is -/
theorem phase_after (h : Nat) (r : Rid) (es : List Ev) : ∀ st,
    st.reg r = some h → (∀ r', st.reg r' = some h → r' = r) → st.done h = false → Quiet h r es →
    deliv (run st es).2 h = arrivalsFor r es := by
  induction es with
  | nil => intro st _ _ _ _; simp [run, arrivalsFor]
  | cons e es ih =>
    intro st h1 h2 h3 q
    rw [run_cons]
    simp only [deliv_append]
    cases e with
    | arrive s =>
      by_cases hs : s.rid = r
      · have hst : (step st (.arrive s)) = (st, [(h, s)]) := by simp [step, hs, h1, h3]
        rw [hst, ih st h1 h2 h3 (quiet_cons q)]
        simp [arrivalsFor, hs, deliv]
      · cases hr : st.reg s.rid with
        | some h0 =>
          have hne : h0 ≠ h := fun hh => hs (h2 _ (hh ▸ hr))
          have hst : (step st (.arrive s)).1 = st := by by_cases hd : st.done h0 <;> simp [step, hr, hd]
          have ho : deliv (step st (.arrive s)).2 h = [] := by
            by_cases hd : st.done h0 <;> simp [step, hr, hd, deliv, hne]
          rw [hst, ho]; simp [arrivalsFor, hs, ih st h1 h2 h3 (quiet_cons q)]
        | none =>
          have hrs : r ≠ s.rid := fun hh => hs hh.symm
          have := ih { st with buf := upd st.buf s.rid (st.buf s.rid ++ [s]) } h1 h2 h3 (quiet_cons q)
          simp [step, hr, arrivalsFor, hs, this]
    | register h0 r0 =>
      have hq := q.1 h0 r0 (by simp)
      have hrr : r ≠ r0 := fun hh => hq.1 hh.symm
      have ho : deliv (step st (.register h0 r0)).2 h = [] := by
        by_cases hd : st.done h0
        · simp [step, hd]
        · simp [step, hd, deliv, List.filter_eq_nil_iff, hq.2]
      have := ih (step st (.register h0 r0)).1 (by simp [step, upd, hrr, h1])
        (by intro r' hr'
            by_cases hr0 : r' = r0
            · simp [step, upd, hr0] at hr'; exact absurd hr' hq.2
            · simp [step, upd, hr0] at hr'; exact h2 r' hr')
        (by simp [step, h3]) (quiet_cons q)
      rw [ho]; simp [arrivalsFor, this]
    | cancel h0 =>
      have hne : h ≠ h0 := fun hh => q.2 (by simp [hh])
      have := ih (step st (.cancel h0)).1 (by simp [step, h1]) (by simp [step]; exact h2)
        (by simp [step, hne, h3]) (quiet_cons q)
      simp [step, arrivalsFor] at this ⊢; exact this
    | watchdog =>
      have := ih (step st .watchdog).1 (by simp [step, gone, h1, h3])
        (by intro r' hr'
            simp only [step] at hr'
            by_cases hg : gone st r' = true
            · simp [hg] at hr'
            · simp [hg] at hr'; exact h2 r' hr')
        (by simp [step, h3]) (quiet_cons q)
      simp [step, arrivalsFor] at this ⊢; exact this
    | other =>
      have := ih st h1 h2 h3 (quiet_cons q)
      simp [step, arrivalsFor] at this ⊢; exact this

/-! ### cancellation -/

theorem done_mono (h : Nat) (es : List Ev) : ∀ st, st.done h = true →
    (run st es).1.done h = true ∧ deliv (run st es).2 h = [] := by
  induction es with
  | nil => intro st hd; simp [run, hd]
  | cons e es ih =>
    intro st hd
    rw [run_cons]
    simp only [deliv_append]
    have hd' : (step st e).1.done h = true := by
      cases e with
      | arrive s =>
        cases hr : st.reg s.rid with
        | some h0 => by_cases hd0 : st.done h0 <;> simp [step, hr, hd0, hd]
        | none => simp [step, hr, hd]
      | register h0 r0 => simp [step, hd]
      | cancel h0 => by_cases hh : h = h0 <;> simp [step, hh, hd]
      | watchdog => simp [step, hd]
      | other => simp [step, hd]
    have ho : deliv (step st e).2 h = [] := by
      cases e with
      | arrive s =>
        cases hr : st.reg s.rid with
        | some h0 =>
          by_cases hd0 : st.done h0
          · simp [step, hr, hd0]
          · have : h0 ≠ h := fun hh => by rw [hh] at hd0; exact hd0 hd
            simp [step, hr, hd0, deliv, this]
        | none => simp [step, hr]
      | register h0 r0 =>
        by_cases hd0 : st.done h0
        · simp [step, hd0]
        · have : h0 ≠ h := fun hh => by rw [hh] at hd0; exact hd0 hd
          simp [step, hd0, deliv, List.filter_eq_nil_iff, this]
      | cancel h0 => simp [step]
      | watchdog => simp [step]
      | other => simp [step]
    have := ih _ hd'
    rw [ho, this.2]; exact ⟨this.1, rfl⟩

/-- simulation between the run with and the run without the cancellation of `h`;
`R` = the request ids instance `h` uses; `h'` never uses one of them -/
structure Rel (R : Rid → Prop) (h h' : Nat) (s1 s2 : St) : Prop where
  doneEq : ∀ x, x ≠ h → s1.done x = s2.done x
  same : ∀ r, ¬ R r → s1.reg r = s2.reg r ∧ s1.buf r = s2.buf r
  notH : ∀ r, ¬ R r → s1.reg r ≠ some h
  notH' : ∀ r, R r → s1.reg r ≠ some h' ∧ s2.reg r ≠ some h'

theorem rel_run (R : Rid → Prop) (h h' : Nat) (es : List Ev)
    (hR : ∀ r, Ev.register h r ∈ es → R r) (hR' : ∀ r, Ev.register h' r ∈ es → ¬ R r) :
    ∀ s1 s2, Rel R h h' s1 s2 →
      Rel R h h' (run s1 es).1 (run s2 es).1 ∧ deliv (run s1 es).2 h' = deliv (run s2 es).2 h' := by
  induction es with
  | nil => intro s1 s2 rel; exact ⟨rel, rfl⟩
  | cons e es ih =>
    intro s1 s2 rel
    rw [run_cons, run_cons]
    simp only [deliv_append]
    have ih' := ih (fun r hm => hR r (List.mem_cons_of_mem _ hm)) (fun r hm => hR' r (List.mem_cons_of_mem _ hm))
    suffices hs : Rel R h h' (step s1 e).1 (step s2 e).1 ∧ deliv (step s1 e).2 h' = deliv (step s2 e).2 h' by
      have := ih' _ _ hs.1
      exact ⟨this.1, by rw [hs.2, this.2]⟩
    cases e with
    | arrive s =>
      by_cases hRr : R s.rid
      · -- touches only a request id of `h`
        have n1 := (rel.notH' _ hRr).1
        have n2 := (rel.notH' _ hRr).2
        have o1 : deliv (step s1 (.arrive s)).2 h' = [] := by
          cases hr : s1.reg s.rid with
          | some h0 =>
            have : h0 ≠ h' := fun hh => n1 (hh ▸ hr)
            by_cases hd : s1.done h0 <;> simp [step, hr, hd, deliv, this]
          | none => simp [step, hr]
        have o2 : deliv (step s2 (.arrive s)).2 h' = [] := by
          cases hr : s2.reg s.rid with
          | some h0 =>
            have : h0 ≠ h' := fun hh => n2 (hh ▸ hr)
            by_cases hd : s2.done h0 <;> simp [step, hr, hd, deliv, this]
          | none => simp [step, hr]
        refine ⟨?_, by rw [o1, o2]⟩
        have e1 : (step s1 (.arrive s)).1.reg = s1.reg ∧ (step s1 (.arrive s)).1.done = s1.done ∧
            ∀ r, r ≠ s.rid → (step s1 (.arrive s)).1.buf r = s1.buf r := by
          cases hr : s1.reg s.rid with
          | some h0 => by_cases hd : s1.done h0 <;> simp [step, hr, hd]
          | none => simp [step, hr, upd]; intro r hr'; simp [hr']
        have e2 : (step s2 (.arrive s)).1.reg = s2.reg ∧ (step s2 (.arrive s)).1.done = s2.done ∧
            ∀ r, r ≠ s.rid → (step s2 (.arrive s)).1.buf r = s2.buf r := by
          cases hr : s2.reg s.rid with
          | some h0 => by_cases hd : s2.done h0 <;> simp [step, hr, hd]
          | none => simp [step, hr, upd]; intro r hr'; simp [hr']
        constructor
        · intro x hx; rw [e1.2.1, e2.2.1]; exact rel.doneEq x hx
        · intro r hr
          have hrs : r ≠ s.rid := fun hh => hr (hh ▸ hRr)
          rw [e1.1, e2.1, e1.2.2 r hrs, e2.2.2 r hrs]; exact rel.same r hr
        · intro r hr; rw [e1.1]; exact rel.notH r hr
        · intro r hr; rw [e1.1, e2.1]; exact rel.notH' r hr
      · -- both runs are in the same situation for this request id
        have hs := rel.same _ hRr
        have hnh := rel.notH _ hRr
        cases hr : s1.reg s.rid with
        | some h0 =>
          have hr2 : s2.reg s.rid = some h0 := by rw [← hs.1, hr]
          have h0h : h0 ≠ h := fun hh => hnh (hh ▸ hr)
          have hd12 := rel.doneEq h0 h0h
          by_cases hd : s1.done h0
          · have hd2 : s2.done h0 = true := by rw [← hd12, hd]
            rw [step_arrive_done hr hd, step_arrive_done hr2 hd2]
            exact ⟨rel, rfl⟩
          · have hd2 : ¬ s2.done h0 = true := by rw [← hd12]; exact hd
            rw [step_arrive_live hr hd, step_arrive_live hr2 hd2]
            exact ⟨rel, rfl⟩
        | none =>
          have hr2 : s2.reg s.rid = none := by rw [← hs.1, hr]
          rw [step_arrive_none hr, step_arrive_none hr2]
          refine ⟨?_, rfl⟩
          constructor
          · exact rel.doneEq
          · intro r hr'
            refine ⟨(rel.same r hr').1, ?_⟩
            by_cases hrs : r = s.rid
            · subst hrs; simp [upd, hs.2]
            · simp [upd, hrs, (rel.same r hr').2]
          · exact rel.notH
          · exact rel.notH'
    | register h0 r0 =>
      by_cases hRr : R r0
      · have hh' : h0 ≠ h' := fun hh => hR' r0 (by simp [hh]) hRr
        have o1 : deliv (step s1 (.register h0 r0)).2 h' = [] := by
          by_cases hd : s1.done h0 <;> simp [step, hd, deliv, List.filter_eq_nil_iff, hh']
        have o2 : deliv (step s2 (.register h0 r0)).2 h' = [] := by
          by_cases hd : s2.done h0 <;> simp [step, hd, deliv, List.filter_eq_nil_iff, hh']
        refine ⟨?_, by rw [o1, o2]⟩
        constructor
        · intro x hx; simp [step]; exact rel.doneEq x hx
        · intro r hr
          have hrr : r ≠ r0 := fun hh => hr (hh ▸ hRr)
          simp [step, upd, hrr]; exact rel.same r hr
        · intro r hr
          have hrr : r ≠ r0 := fun hh => hr (hh ▸ hRr)
          simp [step, upd, hrr]; exact rel.notH r hr
        · intro r hr
          by_cases hrr : r = r0
          · simp [step, upd, hrr, hh']
          · simp [step, upd, hrr]; exact rel.notH' r hr
      · have h0h : h0 ≠ h := fun hh => hRr (hR r0 (by simp [hh]))
        have hd12 := rel.doneEq h0 h0h
        have hs := rel.same _ hRr
        have ho : (step s1 (.register h0 r0)).2 = (step s2 (.register h0 r0)).2 := by
          simp [step, hd12, hs.2]
        refine ⟨?_, by rw [ho]⟩
        constructor
        · intro x hx; simp [step]; exact rel.doneEq x hx
        · intro r hr
          by_cases hrr : r = r0
          · simp [step, upd, hrr]
          · simp [step, upd, hrr]; exact rel.same r hr
        · intro r hr
          by_cases hrr : r = r0
          · simp [step, upd, hrr, h0h]
          · simp [step, upd, hrr]; exact rel.notH r hr
        · intro r hr
          have hrr : r ≠ r0 := fun hh => hRr (hh ▸ hr)
          simp [step, upd, hrr]; exact rel.notH' r hr
    | cancel h0 =>
      refine ⟨?_, by simp [step]⟩
      constructor
      · intro x hx
        by_cases hx0 : x = h0
        · simp [step, hx0]
        · simp [step, hx0]; exact rel.doneEq x hx
      · exact rel.same
      · exact rel.notH
      · exact rel.notH'
    | watchdog =>
      refine ⟨?_, by simp [step]⟩
      have gone_eq : ∀ r, ¬ R r → gone s1 r = gone s2 r := by
        intro r hr
        have hs := rel.same r hr
        unfold gone
        cases h1 : s1.reg r with
        | none => rw [← hs.1, h1]
        | some h0 =>
          have h0h : h0 ≠ h := fun hh => rel.notH r hr (hh ▸ h1)
          rw [← hs.1, h1]; exact rel.doneEq h0 h0h
      constructor
      · intro x hx; simp [step]; exact rel.doneEq x hx
      · intro r hr
        have hs := rel.same r hr
        have ge := gone_eq r hr
        simp only [step]
        rw [ge, hs.1, hs.2]; exact ⟨rfl, rfl⟩
      · intro r hr
        simp only [step]
        by_cases hg : gone s1 r = true
        · simp [hg]
        · simp [hg]; exact rel.notH r hr
      · intro r hr
        simp only [step]
        constructor
        · by_cases hg : gone s1 r = true
          · simp [hg]
          · simp [hg]; exact (rel.notH' r hr).1
        · by_cases hg : gone s2 r = true
          · simp [hg]
          · simp [hg]; exact (rel.notH' r hr).2
    | other => exact ⟨rel, rfl⟩

theorem rel_refl_of (R : Rid → Prop) (h h' : Nat) (st : St)
    (n1 : ∀ r, ¬ R r → st.reg r ≠ some h) (n2 : ∀ r, R r → st.reg r ≠ some h') : Rel R h h' st st :=
  ⟨fun _ _ => rfl, fun _ _ => ⟨rfl, rfl⟩, n1, fun r hr => ⟨n2 r hr, n2 r hr⟩⟩


/-! ### blocking semantics (finding F20) -/

@[simp] theorem stuck_drain (sb : StB) (h : Nat) : stuck true sb h = false := by simp [stuck]

/-- with the drain (the code since /repo 3a1c0bc) every send completes: one blocking step = one `step` -/
theorem stepB_drain (sb : StB) (e : Ev) :
    stepB true sb (.ev e) = .ok { sb with st := (step sb.st e).1 } (step sb.st e).2 := by
  cases e with
  | arrive s =>
    simp only [stepB]
    cases sb.st.reg s.rid <;> simp
  | register h r =>
    simp only [stepB]
    cases sb.st.buf r <;> simp
  | cancel h => rfl
  | watchdog => rfl
  | other => rfl

theorem runB_drain (es : List EvB) : ∀ sb : StB,
    ∃ sb', runB true sb es = .ok sb' (run sb.st (toEvs es)).2 ∧ sb'.st = (run sb.st (toEvs es)).1 := by
  induction es with
  | nil => intro sb; exact ⟨sb, rfl, rfl⟩
  | cons e es ih =>
    intro sb
    cases e with
    | finish h =>
      obtain ⟨sb', h1, h2⟩ := ih { sb with fin := fun x => if x = h then true else sb.fin x }
      refine ⟨sb', ?_, ?_⟩
      · simp only [runB, stepB, toEvs, h1, List.nil_append]
      · simpa [toEvs] using h2
    | ev e0 =>
      obtain ⟨sb', h1, h2⟩ := ih { sb with st := (step sb.st e0).1 }
      refine ⟨sb', ?_, ?_⟩
      · simp only [runB, stepB_drain, toEvs, h1, run_cons]
      · simpa [toEvs, run_cons] using h2

/-- without `finish` marks nothing blocks either way: the stages are all receiving -/
theorem stuck_of_no_fin (drain : Bool) (sb : StB) (hf : ∀ h, sb.fin h = false) (h : Nat) :
    stuck drain sb h = false := by simp [stuck, hf]

/-- whatever the variant: a run that is not blocked performed exactly the sends of `run` -/
theorem runB_ok_sends (drain : Bool) (es : List EvB) : ∀ (sb sb' : StB) (o : List (Nat × Share)),
    runB drain sb es = .ok sb' o → o = (run sb.st (toEvs es)).2 ∧ sb'.st = (run sb.st (toEvs es)).1 := by
  induction es with
  | nil => intro sb sb' o h; simp only [runB, OutB.ok.injEq] at h; obtain ⟨rfl, rfl⟩ := h; exact ⟨rfl, rfl⟩
  | cons e es ih =>
    intro sb sb' o h
    simp only [runB] at h
    cases hs : stepB drain sb e with
    | blocked h0 s0 => simp [hs] at h
    | ok sb1 o1 =>
      simp only [hs] at h
      cases hr : runB drain sb1 es with
      | blocked h0 s0 => simp [hr] at h
      | ok sb2 o2 =>
        simp only [hr, OutB.ok.injEq] at h
        obtain ⟨rfl, rfl⟩ := h
        obtain ⟨i1, i2⟩ := ih sb1 sb2 o2 hr
        -- one step: either a `finish` mark (state of the loop unchanged) or exactly `step`
        have key : (∃ h0, e = .finish h0 ∧ sb1.st = sb.st ∧ o1 = []) ∨
            (∃ e0, e = .ev e0 ∧ sb1.st = (step sb.st e0).1 ∧ o1 = (step sb.st e0).2) := by
          cases e with
          | finish h0 =>
            left
            simp only [stepB, OutB.ok.injEq] at hs
            obtain ⟨rfl, rfl⟩ := hs
            exact ⟨h0, rfl, rfl, rfl⟩
          | ev e0 =>
            right
            refine ⟨e0, rfl, ?_⟩
            cases e0 with
            | arrive s =>
              simp only [stepB] at hs
              split at hs
              · split at hs
                · cases hs
                · simp only [OutB.ok.injEq] at hs; obtain ⟨rfl, rfl⟩ := hs; exact ⟨rfl, rfl⟩
              · simp only [OutB.ok.injEq] at hs; obtain ⟨rfl, rfl⟩ := hs; exact ⟨rfl, rfl⟩
            | register h1 r =>
              simp only [stepB] at hs
              split at hs
              · split at hs
                · cases hs
                · simp only [OutB.ok.injEq] at hs; obtain ⟨rfl, rfl⟩ := hs; exact ⟨rfl, rfl⟩
              · simp only [OutB.ok.injEq] at hs; obtain ⟨rfl, rfl⟩ := hs; exact ⟨rfl, rfl⟩
            | cancel h1 => simp only [stepB, OutB.ok.injEq] at hs; obtain ⟨rfl, rfl⟩ := hs; exact ⟨rfl, rfl⟩
            | watchdog => simp only [stepB, OutB.ok.injEq] at hs; obtain ⟨rfl, rfl⟩ := hs; exact ⟨rfl, rfl⟩
            | other => simp only [stepB, OutB.ok.injEq] at hs; obtain ⟨rfl, rfl⟩ := hs; exact ⟨rfl, rfl⟩
        rcases key with ⟨h0, rfl, k1, rfl⟩ | ⟨e0, rfl, k1, rfl⟩
        · rw [k1] at i1 i2
          exact ⟨by simpa [toEvs] using i1, by simpa [toEvs] using i2⟩
        · rw [k1] at i1 i2
          refine ⟨?_, ?_⟩
          · simp only [toEvs, run_cons]; rw [i1]
          · simp only [toEvs, run_cons]; exact i2

/-! ### incarnations of one request id -/

/-- an instance that neither registers nor is cancelled in `es` stays unregistered, live, and receives nothing -/
theorem fresh_phase (h : Nat) (es : List Ev) : ∀ st,
    (∀ r', st.reg r' ≠ some h) → st.done h = false → (∀ r', Ev.register h r' ∉ es) → Ev.cancel h ∉ es →
    (∀ r', (run st es).1.reg r' ≠ some h) ∧ (run st es).1.done h = false ∧ deliv (run st es).2 h = [] := by
  induction es with
  | nil => intro st h1 h2 _ _; simp [run, h1, h2]
  | cons e es ih =>
    intro st h1 h2 h3 h4
    have h3' : ∀ r', Ev.register h r' ∉ es := fun r' hm => h3 r' (List.mem_cons_of_mem _ hm)
    have h4' : Ev.cancel h ∉ es := fun hm => h4 (List.mem_cons_of_mem _ hm)
    rw [run_cons]
    simp only [deliv_append]
    cases e with
    | arrive s =>
      cases hr : st.reg s.rid with
      | some h0 =>
        have hne : h0 ≠ h := fun hh => h1 s.rid (by rw [hr, hh])
        by_cases hd : st.done h0 = true
        · rw [step_arrive_done hr hd]; simpa using ih st h1 h2 h3' h4'
        · rw [step_arrive_live hr hd]
          have := ih st h1 h2 h3' h4'
          refine ⟨this.1, this.2.1, ?_⟩
          rw [this.2.2]
          simp [deliv, hne]
      | none =>
        rw [step_arrive_none hr]
        simpa using ih { st with buf := upd st.buf s.rid (st.buf s.rid ++ [s]) } h1 h2 h3' h4'
    | register h0 r0 =>
      have hne : h0 ≠ h := fun hh => h3 r0 (by rw [hh]; simp)
      have := ih (step st (.register h0 r0)).1
        (by intro r'; by_cases hrr : r' = r0
            · simp [step, upd, hrr]; exact hne
            · simp [step, upd, hrr]; exact h1 r')
        (by simp [step, h2]) h3' h4'
      refine ⟨this.1, this.2.1, ?_⟩
      rw [this.2.2]
      by_cases hd : st.done h0 = true
      · simp [step, hd]
      · simp only [step, hd, Bool.false_eq_true, if_false, List.append_nil]
        induction st.buf r0 with
        | nil => rfl
        | cons a l ihl => simp [deliv, hne] at ihl ⊢
    | cancel h0 =>
      have hne : h0 ≠ h := fun hh => h4 (by rw [hh]; simp)
      have hne' : h ≠ h0 := fun hh => hne hh.symm
      simpa [step] using ih (step st (.cancel h0)).1 (by simpa [step] using h1) (by simp [step, hne', h2]) h3' h4'
    | watchdog =>
      simpa [step] using ih (step st .watchdog).1
        (by intro r'; simp only [step]; by_cases hg : gone st r' = true
            · simp [hg]
            · simp [hg]; exact h1 r')
        (by simp [step, h2]) h3' h4'
    | other => simpa [step] using ih st h1 h2 h3' h4'

/-- whatever happens, the buffer of a request id holds only shares that arrived for it, in arrival order -/
theorem buf_sublist (r : Rid) (es : List Ev) : ∀ st,
    ((run st es).1.buf r).Sublist (st.buf r ++ arrivalsFor r es) := by
  induction es with
  | nil => intro st; simp [run, arrivalsFor]
  | cons e es ih =>
    intro st
    rw [run_cons]
    cases e with
    | arrive s =>
      cases hr : st.reg s.rid with
      | some h0 =>
        have hst : (step st (.arrive s)).1 = st := by by_cases hd : st.done h0 <;> simp [step, hr, hd]
        rw [hst]
        refine (ih st).trans ?_
        by_cases hs : s.rid = r
        · simp only [arrivalsFor, hs, if_true]
          exact List.Sublist.append_left (List.sublist_cons_self _ _) _
        · simp [arrivalsFor, hs]
      | none =>
        rw [step_arrive_none hr]
        refine (ih _).trans ?_
        by_cases hs : s.rid = r
        · subst hs; simp [arrivalsFor, upd]
        · have : r ≠ s.rid := fun hh => hs hh.symm
          simp [arrivalsFor, hs, upd, this]
    | register h0 r0 =>
      refine (ih _).trans ?_
      by_cases hrr : r = r0
      · subst hrr; simp [step, upd, arrivalsFor]
      · simp [step, upd, hrr, arrivalsFor]
    | cancel h0 => simpa [step, arrivalsFor] using ih (step st (.cancel h0)).1
    | watchdog =>
      refine (ih _).trans ?_
      simp only [step, arrivalsFor]
      by_cases hg : gone st r = true
      · simp [hg]
      · simp [hg]
    | other => simpa [step, arrivalsFor] using ih st

end Dos.Collector

#!/bin/sh
# seedsave.sh <id> <srcdir> <property> "<needs>" "<demo cmd>" "<result of my checks>"
ID=$1; SRC=$2; P=$3; NEEDS=$4; DEMO=$5; RES=$6
D=/verif/seeded/$ID
mkdir -p $D && cp $SRC/patch.diff $D/ && cp -r $SRC/demo $D/ 2>/dev/null; cp $SRC/README.md $D/README.md 2>/dev/null
python3 - "$ID" "$P" "$NEEDS" "$DEMO" "$RES" <<'PY'
import json,sys,subprocess
i,p,needs,demo,res=sys.argv[1:6]
head=subprocess.run(["git","-C","/repo","rev-parse","--short","HEAD"],capture_output=True,text=True).stdout.strip()
json.dump({"id":i,"breaks_property":p,"needs_to_manifest":needs,"written_by":"independent sub-agent given only the property text and its own worktree","confirmed":{"against_repo_head":head,"what_i_ran":"seedtest.sh: scratch worktree of /repo HEAD; demo on clean tree (pass); git apply patch.diff; go build ./... ; go test -vet=off -count=1 ./group/... ./share ./share/vss/... ./sign/... (pass); demo with change (fail); VERIF_REPO=<worktree> ./check "+p+" quick","demo_cmd":demo},"check_result":res},open("/verif/seeded/%s/meta.json"%i,"w"),indent=1)
PY

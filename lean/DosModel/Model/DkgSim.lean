/-
Line-protocol interpreter shared by the C04 (`mem`) and C05 (`adv`) drivers: a group of
member machines (`Model/DkgSession.lean`) on the discrete-log instance `Zr`, driven by the
event list of a case line, with the adversarial message language of
go/internal/dkgnet/simline.go.  Keys and polynomials are fixed small numbers; the real run
uses random ones – only stages and equality classes of keys are compared.
-/
import DosModel.Model.DkgSession
import DosModel.Model.VssZr
import DosModel.Model.DkgAdv

namespace Dos.DkgSim
open Dos Dos.Vss Dos.Dkg

abbrev S := Zr
abbrev P := Zr
def g : P := Zr.g

def parseNat (s : String) : Nat := s.toNat?.getD 0
def parseInt (s : String) : Int := s.toInt?.getD 0

def longOf0 (k : Nat) : S := Zr.ofNat (1000 + 7 * k)
/-- `DUP=a.b…`: the listed members all use member `a`'s long-term key -/
def longOf (dup : List Nat) (k : Nat) : S := if dup.contains k then longOf0 (dup.headD 0) else longOf0 k
/-- the adversary's own long-term secret number `k` ("x<k>") -/
def advKey (k : Nat) : S := Zr.ofNat (3001 + 11 * k)
def polyOf (off t k : Nat) : List S := (List.range t).map (fun m => Zr.ofNat (100 * k + off + 3 * m))
def ephsOf (off n j : Nat) : List S := (List.range n).map (fun i => Zr.ofNat (off + 10 * j + i))
/-- the adversary's polynomial number `p` for `sealer`, first `l` coefficients -/
def advPoly (sealer p l : Nat) : List S := (List.range l).map (fun m => Zr.ofNat (5000 + 97 * sealer + 13 * p + 7 * m))

structure World where
  n : Nat
  dup : List Nat
  ms : List (Member S P)
  prev : Option (List (Member S P))
  prevF : Option (List (Member S P)) := none   -- an earlier session run with FRESH keys (`genPub` draws a key per call)

def pubs (dup : List Nat) (n : Nat) : List P := (List.range n).map (fun k => longOf dup k • g)

def freshMembers (dup : List Nat) (n polyOff ephOff : Nat) : List (Member S P) :=
  (List.range n).map (fun k => Member.init n k (longOf dup k) (polyOf polyOff (n / 2 + 1) k) (ephsOf ephOff n k))

def getM (ms : List (Member S P)) (i : Nat) : Option (Member S P) := ms[i]?
def updM (ms : List (Member S P)) (i : Nat) (f : Member S P → Member S P) : List (Member S P) := ms.modify i f

def sentPk (m : Member S P) : Option (PkMsg P) :=
  m.sent.findSome? (fun s => match s with | .pk x => some x | _ => none)
def sentDeal (m : Member S P) (to : Nat) : Option (DkgDeal S P) :=
  m.sent.findSome? (fun s => match s with | .deal t x => if t = to then some x else none | _ => none)
def sentResps (m : Member S P) : Option (List (DkgResp S P)) :=
  m.sent.findSome? (fun s => match s with | .resps x => some x | _ => none)

def doStart (ms : List (Member S P)) (i : Nat) : List (Member S P) := updM ms i (Member.start g)
def doPk (ms : List (Member S P)) (j i : Nat) : List (Member S P) :=
  match (getM ms j).bind sentPk with
  | some x => updM ms i (fun m => m.loopPk g j x)     -- `Loop` stamps the transport sender
  | none => ms
def doDeal (ms : List (Member S P)) (j i : Nat) : List (Member S P) :=
  match (getM ms j).bind (fun m => sentDeal m i) with
  | some x => updM ms i (fun m => m.recvDeal g x)
  | none => ms
def doResps (ms : List (Member S P)) (k i : Nat) : List (Member S P) :=
  match (getM ms k).bind sentResps with
  | some xs => updM ms i (fun m => m.recvResps g xs)
  | none => ms

/-- a complete honest session in canonical order (the source of replayed messages) -/
def runPrev (dup : List Nat) (n : Nat) : List (Member S P) :=
  let ms := freshMembers dup n 61 19000
  let r := List.range n
  let ms := r.foldl doStart ms
  let pairs := r.flatMap (fun i => (r.filter (· ≠ i)).map (fun j => (j, i)))
  let ms := pairs.foldl (fun ms x => doPk ms x.1 x.2) ms
  let ms := pairs.foldl (fun ms x => doDeal ms x.1 x.2) ms
  pairs.foldl (fun ms x => doResps ms x.1 x.2) ms

/-- a complete honest session in which every member uses a key of that session only -/
def runPrevFresh (n : Nat) : List (Member S P) :=
  let ms := (List.range n).map (fun k =>
    Member.init n k (Zr.ofNat (2000 + 7 * k)) (polyOf 71 (n / 2 + 1) k) (ephsOf 29000 n k))
  let r := List.range n
  let ms := r.foldl doStart ms
  let pairs := r.flatMap (fun i => (r.filter (· ≠ i)).map (fun j => (j, i)))
  let ms := pairs.foldl (fun ms x => doPk ms x.1 x.2) ms
  let ms := pairs.foldl (fun ms x => doDeal ms x.1 x.2) ms
  pairs.foldl (fun ms x => doResps ms x.1 x.2) ms

def genOf (m : Member S P) : Option (Gen S P) := m.lastGen

/-- `Dealer.SessionID()` of member `j`'s own dealing; empty bytes before the generator exists -/
def curSid (ms : List (Member S P)) (j : Nat) : Sid P :=
  match (getM ms j).bind genOf with
  | some d => d.dealer.sid
  | none => .raw 0

def genuineResp (ms : List (Member S P)) (k j : Nat) : Option (DkgResp S P) :=
  ((getM ms k).bind sentResps).bind (fun rs => rs.find? (fun r => r.index = j))

/-- "D.<claim>.<sealer>.<rcpt>.<variant>" (go/internal/dkgnet Sim.AdvDeal) -/
def advDeal (dup : List Nat) (n claim sealer rcpt : Nat) (variant : String) : DkgDeal S P :=
  let t := n / 2 + 1
  let L := pubs dup n
  let longOf := longOf dup
  let spub := longOf sealer • g
  let sidOf (commits : List P) (tt : Nat) : Sid P := .h spub L commits tt
  let mk (p l : Nat) : List S × List P := (advPoly sealer p l, commit g (advPoly sealer p l))
  let after (pre : String) : String := (variant.drop pre.length).toString
  let sealed (d : Deal S P) : DkgDeal S P :=
    ⟨claim, sealDeal g (longOf sealer) L rcpt (Zr.ofNat (7001 + rcpt)) 0 (.deal d)⟩
  let plain (p : Nat) : Deal S P :=
    let (c, C) := mk p t
    { sid := sidOf C t, share := some ⟨(rcpt : Int), some (priEval c (rcpt : Int))⟩, t := t, commits := C }
  let pnum (s : String) : Nat := if s.isEmpty then 1 else parseNat s
  if variant = "junk" then ⟨claim, some ⟨.other none 1, .junk 1, List.replicate 12 0, .junk 1⟩⟩
  else if variant = "nil" then ⟨claim, none⟩
  else if variant.startsWith "good" then sealed (plain (pnum (after "good")))
  else if variant.startsWith "bad" then
    let d := plain (pnum (after "bad"))
    sealed { d with share := d.share.map (fun sh => { sh with v := sh.v.map (· + 1) }) }
  else if variant.startsWith "nilshare" then sealed { plain (pnum (after "nilshare")) with share := none }
  else if variant.startsWith "nilv" then sealed { plain (pnum (after "nilv")) with share := some ⟨(rcpt : Int), none⟩ }
  else if variant.startsWith "sidraw" then sealed { plain (pnum (after "sidraw")) with sid := .raw 9 }
  else if variant.startsWith "Tc" then
    let parts := (after "Tc").splitOn "p"
    let tv := parseNat (parts.getD 0 "")
    let (c, C) := mk (parseNat (parts.getD 1 "")) tv
    sealed { sid := sidOf C tv, share := some ⟨(rcpt : Int), some (priEval c (rcpt : Int))⟩, t := tv, commits := C }
  else if variant.startsWith "Tx" then
    let parts := (after "Tx").splitOn "p"
    sealed { plain (parseNat (parts.getD 1 "")) with t := parseNat (parts.getD 0 "") % 4294967296 }
  else if variant.startsWith "T" then
    let parts := (after "T").splitOn "p"
    let tv := parseNat (parts.getD 0 "") % 4294967296
    let d := plain (parseNat (parts.getD 1 ""))
    sealed { d with t := tv, sid := sidOf d.commits tv }
  else if variant.startsWith "idx" then
    let parts := (after "idx").splitOn "p"
    let k := parseInt (parts.getD 0 "")
    let (c, C) := mk (parseNat (parts.getD 1 "")) t
    sealed { sid := sidOf C t, share := some ⟨k, some (priEval c k)⟩, t := t, commits := C }
  else if variant.startsWith "clen" then
    let parts := (after "clen").splitOn "p"
    let (c, C) := mk (parseNat (parts.getD 1 "")) (parseNat (parts.getD 0 ""))
    sealed { sid := sidOf C t, share := some ⟨(rcpt : Int), some (priEval c (rcpt : Int))⟩, t := t, commits := C }
  else if variant.startsWith "xw" then
    let parts := (after "xw").splitOn "_"
    let (c, C) := mk (parseNat (parts.getD 0 "")) t
    let (_, C2) := mk (parseNat (parts.getD 1 "")) t
    sealed { sid := sidOf C2 t, share := some ⟨(rcpt : Int), some (priEval c (rcpt : Int))⟩, t := t, commits := C }
  else ⟨claim, none⟩

/-- "R.<dealer>.<responder>.<sidspec>.<a|c>.<signer>" (Sim.AdvResp) -/
def advResp (w : World) (dealer responder : Nat) (sidspec : String) (approve : Bool) (signer : String) : DkgResp S P :=
  let n := w.n
  let sid : Sid P :=
    if sidspec.startsWith "cur" then curSid w.ms (parseNat (sidspec.drop 3).toString)
    else if sidspec.startsWith "prev" then
      match w.prev with
      | some pm => curSid pm (parseNat (sidspec.drop 4).toString)
      | none => .raw 0
    else if sidspec.startsWith "p" then
      let parts := ((sidspec.drop 1).toString).splitOn "_"
      let sealer := parseNat (parts.getD 0 ""); let p := parseNat (parts.getD 1 "")
      .h (longOf w.dup sealer • g) (pubs w.dup n) (commit g (advPoly sealer p (n / 2 + 1))) (n / 2 + 1)
    else .raw 7
  let sig : RespSig S P :=
    if signer = "junk" then .junk 1
    else if signer = "none" then .junk 0
    else .sign (longOf w.dup (parseNat signer)) sid responder approve 0
  ⟨dealer, some { sid := sid, index := responder, status := approve, sig := sig }⟩

def injectSpec (w : World) (spec : String) (to : Nat) : World :=
  let f := spec.splitOn "."
  let a (k : Nat) : Nat := parseNat (f.getD k "")
  let deliverDeal (x : DkgDeal S P) : World := { w with ms := updM w.ms to (fun m => m.recvDeal g x) }
  let deliverResp (x : DkgResp S P) : World := { w with ms := updM w.ms to (fun m => m.recvResp g x) }
  match f.head? with
  | some "K" =>
    let ko := f.getD 3 ""
    let key : P := if ko.startsWith "x" then advKey (parseNat (ko.drop 1).toString) • g else longOf w.dup (parseNat ko) • g
    -- SenderId as the forger filled it in ("-"/absent empty, "g" garbage, <k> the id of member k)
    let pre := f.getD 4 "-"
    let claimed : Nat := if pre = "-" then w.n + 1000 else if pre = "g" then w.n + 1001 else parseNat pre
    { w with ms := updM w.ms to (fun m => m.loopPk g (a 2) ⟨a 1, some key, claimed⟩) }
  | some "D" => deliverDeal (advDeal w.dup w.n (a 1) (a 2) (a 3) (String.intercalate "." (f.drop 4)))
  | some "GD" =>
    match (getM w.ms (a 1)).bind (fun m => sentDeal m (a 2)) with
    | some d => deliverDeal { d with index := a 3 }
    | none => w
  | some "PD" =>
    match w.prev.bind (fun pm => (getM pm (a 1)).bind (fun m => sentDeal m (a 2))) with
    | some d => deliverDeal { d with index := a 3 }
    | none => w
  | some "FD" =>
    match w.prevF.bind (fun pm => (getM pm (a 1)).bind (fun m => sentDeal m (a 2))) with
    | some d => deliverDeal { d with index := a 3 }
    | none => w
  | some "FR" =>
    match w.prevF.bind (fun pm => genuineResp pm (a 1) (a 2)) with
    | some r => deliverResp { r with index := a 3 }
    | none => w
  | some "O" =>
    -- oracle answer: another run of member `a 1` with the same long-term key (`Model/DkgAdv.lean`)
    match oracleAnswer g (longOf w.dup (a 1)) (pubs w.dup w.n) (polyOf 7777 (w.n / 2 + 1) (a 1))
        (advDeal w.dup w.n (a 2) (a 3) (a 1) (f.getD 4 "")) with
    | some r => deliverResp (if f.length > 5 then { r with index := a 5 } else r)
    | none => w
  | some "R" => deliverResp (advResp w (a 1) (a 2) (f.getD 3 "") (f.getD 4 "" = "a") (f.getD 5 ""))
  | some "GR" =>
    match genuineResp w.ms (a 1) (a 2) with
    | some r => deliverResp { r with index := a 3 }
    | none => w
  | some "PR" =>
    match w.prev.bind (fun pm => genuineResp pm (a 1) (a 2)) with
    | some r => deliverResp { r with index := a 3 }
    | none => w
  | some "RN" => deliverResp ⟨a 1, none⟩
  | _ => w

def stepEvent (defs : List (String × String)) (w : World) (ev : String) : World :=
  let kind := (ev.take 1).toString
  let p := ((ev.drop 1).toString).splitOn "."
  let a (k : Nat) : Nat := parseNat (p.getD k "")
  match kind with
  | "s" => { w with ms := doStart w.ms (a 0) }
  | "p" => { w with ms := doPk w.ms (a 0) (a 1) }
  | "d" => { w with ms := doDeal w.ms (a 0) (a 1) }
  | "r" => { w with ms := doResps w.ms (a 0) (a 1) }
  | "x" =>
    match defs.find? (fun d => d.1 = "X" ++ p.getD 0 "") with
    | some d => injectSpec w d.2 (a 1)
    | none => w
  | _ => w

def stageCode (m : Member S P) : String :=
  match m.stage with
  | .idle => "i" | .waitPk => "p" | .waitDeals _ => "d" | .waitResps _ => "r"
  | .done _ _ => "D" | .failed why => "F:" ++ why

def keyClasses (outs : List (Option (KeyShare S P))) : String :=
  let step := fun (acc : List (List P) × String) (o : Option (KeyShare S P)) =>
    match o with
    | none => (acc.1, acc.2 ++ "-")
    | some ks =>
      match acc.1.findIdx? (fun c => c = ks.commits) with
      | some k => (acc.1, acc.2 ++ toString k)
      | none => (acc.1 ++ [ks.commits], acc.2 ++ toString acc.1.length)
  (outs.foldl step ([], "")).2

/-- the world after the events of a case line -/
def runWorld (n : Nat) (defs evs : String) : World :=
  let dl : List (String × String) :=
    if defs = "-" then [] else (defs.splitOn ";").map (fun d =>
      match d.splitOn "=" with
      | k :: rest => (k, String.intercalate "=" rest)
      | [] => ("", ""))
  let dup : List Nat := match dl.find? (fun d => d.1 = "DUP") with
    | some d => (d.2.splitOn ".").map parseNat
    | none => []
  let needPrev := dl.any (fun d => d.2.startsWith "P" || (d.2.splitOn ".prev").length > 1)
  let needPrevF := dl.any (fun d => d.2.startsWith "F")
  let w0 : World := { n := n, dup := dup, ms := freshMembers dup n 11 9000, prev := if needPrev then some (runPrev dup n) else none,
                      prevF := if needPrevF then some (runPrevFresh n) else none }
  if evs = "-" then w0 else (evs.splitOn ",").foldl (stepEvent dl) w0

/-- "<kind> <seed> <n> <defs|-> <events>" → "st=… keys=…" -/
def runLine (w : List String) : String :=
  match w with
  | [_, _seed, n, defs, evs] =>
    let w1 := runWorld (parseNat n) defs evs
    let outs := w1.ms.map (fun m => match m.stage with | .done _ ks => some ks | _ => none)
    s!"st={String.intercalate "," (w1.ms.map stageCode)} keys={keyClasses outs}"
  | _ => "bad-op"

/-- "netadv <seed> <n> <byz a.b> <order> <defs> <events>" (go/internal/dkgnet/netadv.go): the same events on the
member machines; the real run shows, per honest member, only finished / failed why / still waiting, and the
Byzantine seats are not members at all (`x`) -/
def runLineNet (w : List String) : String :=
  match w with
  | [_, _seed, n, byz, _order, defs, evs] =>
    let n := parseNat n
    let bz : List Nat := (byz.splitOn ".").map parseNat
    let w1 := runWorld n defs evs
    let code (m : Member S P) : String :=
      match m.stage with
      | .done _ _ => "D"
      | .failed why => "F:" ++ why
      | _ => "w"
    let idx := List.range w1.ms.length
    let sts := (idx.zip w1.ms).map (fun (k, m) => if bz.contains k then "x" else code m)
    let honest := (idx.zip w1.ms).filter (fun (k, _) => !bz.contains k)
    let hk := (keyClasses (honest.map (fun (_, m) => match m.stage with | .done _ ks => some ks | _ => none))).toList
    let keys := (idx.foldl (fun (acc : String × List Char) k =>
      if bz.contains k then (acc.1 ++ "x", acc.2)
      else match acc.2 with
        | c :: r => (acc.1.push c, r)
        | [] => (acc.1 ++ "-", [])) ("", hk)).1
    s!"st={String.intercalate "," sts} keys={keys}"
  | _ => "bad-op"

end Dos.DkgSim

/-
The instance `Bls.evalOps` the C06 driver evaluates (G1 = the concrete affine model, a public key
= its discrete log, e(P, x) = x•P) IS an instance of the generic statements of `Proofs/Bls.lean`:
`evalOps_isPairing`.  The group structure is that of Mathlib's `E(F_p) : y² = x³ + 3`, transported
along `Compose.pt1` (`Proofs/ComposeBn256Group.lean`); validity = `G1.valid`.
-/
import DosModel.Proofs.Bls
import DosModel.Proofs.CodecChar
import DosModel.Proofs.ComposeBn256Group

namespace Dos.Bls
open Dos Dos.Bn256 Dos.Codec Dos.Compose Dos.Compose.Curve

/-- the group E(F_p) the concrete G1 values denote points of -/
abbrev E1 := (sw (3 : ZMod Bn256.p)).Point

theorem pt1_inf : pt1 .inf = 0 := rfl

theorem pt1_eq_zero_iff (P : G1) (hP : G1.valid P = true) : pt1 P = 0 ↔ P = .inf :=
  ⟨fun h => pt1_inj hP rfl (h.trans pt1_inf.symm), fun h => by rw [h]; rfl⟩

/-- e(A, n) = n•A, written multiplicatively -/
noncomputable def eEval (A : E1) (n : ℤ) : Multiplicative E1 := Multiplicative.ofAdd (n • A)

noncomputable def feEval (P : G1) : Multiplicative E1 := Multiplicative.ofAdd (pt1 P)

theorem ofAdd_eq_one_iff (A : E1) : Multiplicative.ofAdd A = 1 ↔ A = 0 :=
  ⟨fun h => by simpa using congrArg Multiplicative.toAdd h, fun h => by rw [h]; rfl⟩

theorem evalOps_isPairing :
    IsPairing evalOps.toPairingOps (fun P : G1 => G1.valid P = true) (fun _ : Nat => True)
      (fun P : G1 => G1.valid P = true) pt1 (fun n : Nat => (n : ℤ)) eEval feEval where
  inf1 := by
    intro a ha
    simp only [evalOps, beq_iff_eq]
    exact (pt1_eq_zero_iff a ha).symm
  inf2 := by
    intro b _
    simp only [evalOps, beq_iff_eq]
    exact Int.natCast_eq_zero.symm
  one_valid := rfl
  fe_one := rfl
  mul_valid := fun x y hx hy => valid_add x y hx hy
  fe_mul := by
    intro x y hx hy
    show Multiplicative.ofAdd (pt1 (G1.add x y)) = _
    rw [pt1_add x y hx hy]; rfl
  miller_valid := fun a b ha _ => valid_smul b a ha
  fe_miller := by
    intro a b ha _ _ _
    show Multiplicative.ofAdd (pt1 (G1.smul b a)) = Multiplicative.ofAdd (((b : ℤ)) • pt1 a)
    rw [pt1_smul b a ha, natCast_zsmul]
  final := by
    intro x hx
    simp only [evalOps, beq_iff_eq]
    rw [feEval, ofAdd_eq_one_iff]
    exact (pt1_eq_zero_iff x hx).symm
  add_left := by
    intro a a' b
    show Multiplicative.ofAdd (b • (a + a')) = Multiplicative.ofAdd (b • a + b • a')
    rw [zsmul_add]
  add_right := by
    intro a b b'
    show Multiplicative.ofAdd ((b + b') • a) = Multiplicative.ofAdd (b • a + b' • a)
    rw [add_zsmul]

/-- the side conditions of the generic theorems, for `evalOps` -/
theorem evalOps_neg (s : G1) (hs : G1.valid s = true) :
    G1.valid (evalOps.neg1 s) = true ∧ pt1 (evalOps.neg1 s) = -pt1 s :=
  ⟨valid_neg s hs, pt1_neg s hs⟩

theorem evalOps_parse_valid (sig : Bytes) (s : G1) (h : evalOps.unmarshal1 sig = .ok s) :
    G1.valid s = true := (unmarshalG1_ok sig s h).2.1

theorem evalOps_hash_valid (msg : Bytes) : G1.valid (hashToPoint evalOps msg) = true :=
  valid_smul _ g1gen (by decide)

theorem evalOps_mul (k : Nat) (a : G1) (ha : G1.valid a = true) :
    G1.valid (evalOps.mul1 k a) = true ∧ pt1 (evalOps.mul1 k a) = k • pt1 a :=
  ⟨valid_smul k a ha, pt1_smul k a ha⟩

theorem evalOps_roundtrip (a : G1) (ha : G1.valid a = true) :
    evalOps.unmarshal1 (evalOps.marshal1 a) = .ok a := by
  have := unmarshalG1_marshalG1 a ha []
  simpa [evalOps] using this

theorem evalOps_nondegenerate (A : E1) (h : eEval A ((evalOps.base2 : Nat) : ℤ) = 1) : A = 0 := by
  have : ((1 : Nat) : ℤ) • A = 0 := (ofAdd_eq_one_iff _).mp h
  simpa using this

end Dos.Bls

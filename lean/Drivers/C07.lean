import DosModel.Model.Content
import DosModel.Model.Eval
import DosModel.Gen.DosnodeConsts
def main : IO Unit := Dos.lineLoop (fun l =>
  match Dos.Eval.stepLine Dos.Gen.padSize Dos.Gen.stripLen l with
  | some o => o
  | none => Dos.Content.stepLine Dos.Gen.padSize Dos.Gen.stripLen l)

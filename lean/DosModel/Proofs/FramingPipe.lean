/-
Helper lemmas for `Props/C15Pipe.lean`: the scripted write loop, the `sendPipe` / `readPipe` pair,
the width of `int`, two writers on one connection.
-/
import DosModel.Model.FramingPipe
import DosModel.Props.C15

namespace Dos.Framing
open Dos Dos.Props.C15

/-! ### the write loop over a scripted transport -/

/-- whatever each `Write` does, what the transport has accepted is a prefix of the buffer, and the whole
buffer when the loop ended without an error -/
theorem writeLoopX_prefix : ∀ (as : List WAct) (bs : Bytes),
    ∃ t, (writeLoopX bs as).pieces.flatten ++ t = bs ∧ ((writeLoopX bs as).err = false → t = []) := by
  intro as
  induction as with
  | nil =>
    intro bs
    cases bs with
    | nil => exact ⟨[], by simp [writeLoopX]⟩
    | cons b bs => exact ⟨[], by simp [writeLoopX]⟩
  | cons a as ih =>
    intro bs
    cases bs with
    | nil => exact ⟨[], by simp [writeLoopX]⟩
    | cons b bs =>
      cases a with
      | acc k =>
        obtain ⟨t, h1, h2⟩ := ih ((b :: bs).drop k)
        refine ⟨t, ?_, ?_⟩
        · simp only [writeLoopX, List.isEmpty_cons, Bool.false_eq_true, if_false, List.flatten_cons,
            List.append_assoc, h1]
          exact List.take_append_drop k (b :: bs)
        · simpa only [writeLoopX, List.isEmpty_cons, Bool.false_eq_true, if_false] using h2
      | fail k =>
        refine ⟨(b :: bs).drop k, ?_, ?_⟩
        · simp only [writeLoopX, List.isEmpty_cons, Bool.false_eq_true, if_false, List.flatten_cons,
            List.flatten_nil, List.append_nil]
          exact List.take_append_drop k (b :: bs)
        · simp [writeLoopX]

/-- a script without a failing `Write` never makes the loop fail -/
theorem writeLoopX_noerr : ∀ (as : List WAct) (bs : Bytes), (∀ a ∈ as, ∃ k, a = WAct.acc k) →
    (writeLoopX bs as).err = false := by
  intro as
  induction as with
  | nil => intro bs _; cases bs <;> simp [writeLoopX]
  | cons a as ih =>
    intro bs h
    cases bs with
    | nil => simp [writeLoopX]
    | cons b bs =>
      obtain ⟨k, hk⟩ := h a (by simp)
      subst hk
      simp only [writeLoopX, List.isEmpty_cons, Bool.false_eq_true, if_false]
      exact ih _ (fun a ha => h a (by simp [ha]))

/-- a failing loop has handed the transport exactly one piece per `Write` and stops at the failing one:
nothing is written after the error -/
theorem writeLoopX_err_has_fail : ∀ (as : List WAct) (bs : Bytes), (writeLoopX bs as).err = true →
    ∃ k, WAct.fail k ∈ as := by
  intro as
  induction as with
  | nil => intro bs h; cases bs <;> simp [writeLoopX] at h
  | cons a as ih =>
    intro bs h
    cases bs with
    | nil => simp [writeLoopX] at h
    | cons b bs =>
      cases a with
      | acc k =>
        simp only [writeLoopX, List.isEmpty_cons, Bool.false_eq_true, if_false] at h
        obtain ⟨k', hk'⟩ := ih _ h
        exact ⟨k', by simp [hk']⟩
      | fail k => exact ⟨k, by simp⟩

/-! ### `sendPipe` on a transport whose first failure is final -/

/-- once the connection is broken nothing reaches the wire any more -/
theorem sendPipe_broken (L : Nat) (sticky : Bool) : ∀ (ps : List Bytes) (as : List WAct),
    (sendPipe L sticky true ps as).1 = [] := by
  intro ps
  induction ps with
  | nil => intro as; rfl
  | cons p ps ih =>
    intro as
    cases hw : writeFrame L p with
    | none => simp [sendPipe, hw, ih]
    | some s => simp [sendPipe, hw, ih]

/-- frames written without an error before the first failing `writeTo` -/
def okCount : List Bool → Nat
  | [] => 0
  | true :: _ => 0
  | false :: es => okCount es + 1

/-- `pre` is nothing, or a frame cut short -/
def Trunc (L : Nat) (pre : Bytes) : Prop :=
  pre = [] ∨ ∃ p t, 1 ≤ p.length ∧ p.length ≤ L ∧ t ≠ [] ∧ pre ++ t = natBE 4 p.length ++ p

theorem wire_append (qs : List Bytes) (p : Bytes) (pre : Bytes) :
    natBE 4 p.length ++ p ++ wire qs pre = wire (p :: qs) pre := rfl

/-- what `sendPipe` puts on a sticky transport: whole frames of a prefix `qs` of the payloads, then
nothing or a frame cut short; `qs` holds every frame written without error before the first failure
and at most one more (the frame whose last `Write` took all its bytes and still reported an error) -/
theorem sendPipe_wire_shape (L : Nat) : ∀ (ps : List Bytes) (as : List WAct),
    (∀ p ∈ ps, 1 ≤ p.length ∧ p.length ≤ L) →
    ∃ qs pre, qs <+: ps ∧ (sendPipe L true false ps as).1.flatten = wire qs pre ∧ Trunc L pre ∧
      okCount (sendPipe L true false ps as).2 ≤ qs.length ∧
      qs.length ≤ okCount (sendPipe L true false ps as).2 + 1 := by
  intro ps
  induction ps with
  | nil => intro as _; exact ⟨[], [], List.prefix_refl _, rfl, Or.inl rfl, by simp [sendPipe, okCount]⟩
  | cons p ps ih =>
    intro as hv
    have hp := hv p (by simp)
    have hw : writeFrame L p = some (natBE 4 p.length ++ p) := (write_limit L p).2 hp.2
    obtain ⟨t, ht, hte⟩ := writeLoopX_prefix as (natBE 4 p.length ++ p)
    cases he : (writeLoopX (natBE 4 p.length ++ p) as).err with
    | false =>
      have htn := hte he
      subst htn
      obtain ⟨qs, pre, hq, hwq, htr, h1, h2⟩ := ih (writeLoopX (natBE 4 p.length ++ p) as).rest
        (fun q hq => hv q (by simp [hq]))
      refine ⟨p :: qs, pre, ?_, ?_, htr, ?_, ?_⟩
      · exact List.prefix_cons_inj p |>.mpr hq
      · simp only [sendPipe, hw, he, Bool.false_and, Bool.false_eq_true, if_false, List.flatten_append,
          hwq]
        rw [← wire_append]; simp only [List.append_nil] at ht; rw [ht]
      · simp only [sendPipe, hw, he, Bool.false_and, Bool.false_eq_true, if_false, okCount,
          List.length_cons]; omega
      · simp only [sendPipe, hw, he, Bool.false_and, Bool.false_eq_true, if_false, okCount,
          List.length_cons]; omega
    | true =>
      have hb := sendPipe_broken L true ps (writeLoopX (natBE 4 p.length ++ p) as).rest
      by_cases htn : t = []
      · subst htn
        refine ⟨[p], [], ?_, ?_, Or.inl rfl, ?_, ?_⟩
        · exact List.prefix_cons_inj p |>.mpr (List.nil_prefix)
        · simp only [sendPipe, hw, he, Bool.and_self, if_false, Bool.false_eq_true, hb,
            List.append_nil, wire]
          simp only [List.append_nil] at ht; rw [ht]
        · simp [sendPipe, hw, he, okCount]
        · simp [sendPipe, hw, he, okCount]
      · refine ⟨[], (writeLoopX (natBE 4 p.length ++ p) as).pieces.flatten, List.nil_prefix, ?_,
          Or.inr ⟨p, t, hp.1, hp.2, htn, ht⟩, ?_, ?_⟩
        · simp only [sendPipe, hw, he, Bool.and_self, if_false, Bool.false_eq_true, hb,
            List.append_nil, wire]
        · simp [sendPipe, hw, he, okCount]
        · simp [sendPipe, hw, he, okCount]

/-! ### `readPipe` on whole frames followed by nothing or a frame cut short -/

theorem readFrame_trunc_errors (L : Nat) (hL : L < 2 ^ 32) (pre : Bytes) (h : Trunc L pre)
    (cs : List Bytes) (hcs : cs.flatten = pre) : ∃ e, (readFrame L cs).out = .error e := by
  rcases h with h | ⟨p, t, hp1, hpL, htn, ht⟩
  · exact ⟨.header, truncated_header_errors L cs (by rw [hcs, h]; simp)⟩
  · have hlen : (natBE 4 p.length).length = 4 := natBE_length 4 _
    by_cases h4 : pre.length < 4
    · exact ⟨.header, truncated_header_errors L cs (by rw [hcs]; exact h4)⟩
    · -- pre = header ++ a strict prefix of the payload
      have htl : 0 < t.length := List.length_pos_iff.mpr htn
      have hlen2 : pre.length + t.length = 4 + p.length := by
        have := congrArg List.length ht; simpa [hlen] using this
      have hpre : pre = natBE 4 p.length ++ p.take (pre.length - 4) := by
        have h1 : pre = (pre ++ t).take pre.length := by simp
        rw [ht] at h1
        rw [List.take_append] at h1
        rw [List.take_of_length_le (by omega : (natBE 4 p.length).length ≤ pre.length), hlen] at h1
        exact h1
      refine truncated_body_errors L cs (natBE 4 p.length) (p.take (pre.length - 4)) hlen
        (by rw [hcs]; exact hpre) ?_
      rw [beNat_natBE4 _ (by omega), List.length_take]; omega

theorem wire_length_ge : ∀ (qs : List Bytes) (pre : Bytes), qs.length ≤ (wire qs pre).length := by
  intro qs
  induction qs with
  | nil => intro pre; simp
  | cons p qs ih =>
    intro pre
    have := ih pre
    simp only [wire, List.length_append, natBE_length, List.length_cons]; omega

theorem readFrames_frames_then_trunc (L : Nat) (hL : L < 2 ^ 32) : ∀ (qs : List Bytes) (pre : Bytes),
    (∀ p ∈ qs, 1 ≤ p.length ∧ p.length ≤ L) → Trunc L pre →
    ∀ (k : Nat) (cs : List Bytes), qs.length < k → cs.flatten = wire qs pre →
      ∃ e, (readFrames L k cs).1 = qs.map .ok ++ [.error e] := by
  intro qs
  induction qs with
  | nil =>
    intro pre _ htr k cs hk hcs
    cases k with
    | zero => simp at hk
    | succ k =>
      obtain ⟨e, he⟩ := readFrame_trunc_errors L hL pre htr cs (by simpa [wire] using hcs)
      exact ⟨e, by simp [readFrames, he]⟩
  | cons p qs ih =>
    intro pre hv htr k cs hk hcs
    cases k with
    | zero => simp at hk
    | succ k =>
      have hp := hv p (by simp)
      obtain ⟨ho, hr, _⟩ := roundtrip_any_chunking L hL p (wire qs pre) hp.1 hp.2 cs (by simpa [wire] using hcs)
      obtain ⟨e, he⟩ := ih pre (fun q hq => hv q (by simp [hq])) htr k (readFrame L cs).rest
        (by simpa using hk) hr
      exact ⟨e, by simp only [readFrames, ho, he, List.map_cons, List.cons_append]⟩

/-- nothing cut short at the end: the one error is the end of the stream where a header should start -/
theorem readFrames_frames_then_end (L : Nat) (hL : L < 2 ^ 32) : ∀ (qs : List Bytes),
    (∀ p ∈ qs, 1 ≤ p.length ∧ p.length ≤ L) →
    ∀ (k : Nat) (cs : List Bytes), qs.length < k → cs.flatten = wire qs [] →
      (readFrames L k cs).1 = qs.map .ok ++ [.error .header] := by
  intro qs
  induction qs with
  | nil =>
    intro _ k cs hk h
    cases k with
    | zero => simp at hk
    | succ k =>
      have := truncated_header_errors L cs (by rw [h]; simp [wire])
      simp [readFrames, this]
  | cons p qs ih =>
    intro hv k cs hk h
    cases k with
    | zero => simp at hk
    | succ k =>
      have hp := hv p (by simp)
      obtain ⟨ho, hr, _⟩ := roundtrip_any_chunking L hL p (wire qs []) hp.1 hp.2 cs (by simpa [wire] using h)
      have := ih (fun q hq => hv q (by simp [hq])) k (readFrame L cs).rest (by simpa using hk) hr
      simp only [readFrames, ho, this, List.map_cons, List.cons_append]

/-- when every `writeTo` succeeded the wire is exactly the frames of all payloads -/
theorem sendPipe_all_ok (L : Nat) : ∀ (ps : List Bytes) (as : List WAct),
    (∀ p ∈ ps, 1 ≤ p.length ∧ p.length ≤ L) →
    okCount (sendPipe L true false ps as).2 = ps.length →
    (sendPipe L true false ps as).1.flatten = wire ps [] := by
  intro ps
  induction ps with
  | nil => intro as _ _; rfl
  | cons p ps ih =>
    intro as hv hok
    have hp := hv p (by simp)
    have hw : writeFrame L p = some (natBE 4 p.length ++ p) := (write_limit L p).2 hp.2
    obtain ⟨t, ht, hte⟩ := writeLoopX_prefix as (natBE 4 p.length ++ p)
    cases he : (writeLoopX (natBE 4 p.length ++ p) as).err with
    | false =>
      have htn := hte he
      subst htn
      simp only [List.append_nil] at ht
      simp only [sendPipe, hw, he, Bool.false_and, Bool.false_eq_true, if_false, okCount,
        List.length_cons, Nat.add_right_cancel_iff] at hok
      have := ih (writeLoopX (natBE 4 p.length ++ p) as).rest (fun q hq => hv q (by simp [hq])) hok
      simp only [sendPipe, hw, he, Bool.false_and, Bool.false_eq_true, if_false, List.flatten_append,
        this, ht, wire]
    | true =>
      simp [sendPipe, hw, he, okCount] at hok

/-! ### the width of `int` -/

theorem readN_length : ∀ (cs : List Bytes) (n : Nat) (b : Bytes) (r : List Bytes),
    readN n cs = some (b, r) → b.length = n := by
  intro cs n b r h
  by_cases hn : n ≤ cs.flatten.length
  · obtain ⟨cs', h1, _⟩ := readN_spec cs n hn
    rw [h1] at h; injection h with h; injection h with h _
    rw [← h, List.length_take]; omega
  · rw [readN_none cs n (by omega)] at h; cases h

theorem beNat_four_lt (h : Bytes) (hl : h.length = 4) : beNat h < 2 ^ 32 := by
  match h, hl with
  | [a, b, c, d], _ =>
    have := a.toNat_lt; have := b.toNat_lt; have := c.toNat_lt; have := d.toNat_lt
    simp only [beNat, List.foldl_cons, List.foldl_nil]
    omega

/-- `int(size)` is exact on every platform whose `int` has at least 32 bits, as long as `size < 2^31` -/
theorem intOfU32_exact (w : Nat) (hw : 32 ≤ w) (x : BitVec 32) (hx : x.toNat < 2 ^ 31) :
    intOfU32 w x = x.toNat := by
  unfold intOfU32
  have h32 : (2 : Nat) ^ 32 ≤ 2 ^ w := Nat.pow_le_pow_right (by omega) hw
  have hn : (x.setWidth w).toNat = x.toNat := by
    rw [BitVec.toNat_setWidth]; exact Nat.mod_eq_of_lt (by omega)
  rw [BitVec.toInt_eq_toNat_cond, hn]
  have : 2 * x.toNat < 2 ^ w := by omega
  simp [this]

theorem readFrameW_eq (w : Nat) (hw : 32 ≤ w) (L : Nat) (hL : L < 2 ^ 31) (cs : List Bytes) :
    readFrameW w L cs = readFrame L cs := by
  unfold readFrameW readFrame
  cases h1 : readN headerSize cs with
  | none => rfl
  | some x =>
    obtain ⟨h, cs1⟩ := x
    have hl : h.length = 4 := readN_length cs 4 h cs1 h1
    have hlt : beNat h < 2 ^ 32 := beNat_four_lt h hl
    have hsz : (BitVec.ofNat 32 (beNat h)).toNat = beNat h := by
      rw [BitVec.toNat_ofNat]; exact Nat.mod_eq_of_lt hlt
    have hLn : (BitVec.ofNat 32 L).toNat = L := by
      rw [BitVec.toNat_ofNat]; exact Nat.mod_eq_of_lt (by omega)
    have hcond : (BitVec.ofNat 32 (beNat h) > BitVec.ofNat 32 L ∨ BitVec.ofNat 32 (beNat h) ≤ 0#32) ↔
        (beNat h > L ∨ beNat h = 0) := by
      rw [gt_iff_lt, BitVec.lt_def, BitVec.le_def, hsz, hLn]; simp
    by_cases hc : beNat h > L ∨ beNat h = 0
    · simp only []
      rw [if_pos (hcond.mpr hc), if_pos hc]
    · have hc' : ¬ (BitVec.ofNat 32 (beNat h) > BitVec.ofNat 32 L ∨ BitVec.ofNat 32 (beNat h) ≤ 0#32) :=
        fun x => hc (hcond.mp x)
      simp only []
      rw [if_neg hc', if_neg hc]
      have hint : (intOfU32 w (BitVec.ofNat 32 (beNat h))).toNat = beNat h := by
        rw [intOfU32_exact w hw _ (by rw [hsz]; omega), hsz]; simp
      rw [hint, hsz]
      cases h2 : readN (beNat h) cs1 with
      | none => rfl
      | some y =>
        obtain ⟨b, cs2⟩ := y
        have hb := readN_length cs1 _ b cs2 h2
        simp [hb]

/-! ### two writers on one connection -/

/-- when each writer hands its whole frame to the transport in ONE `Write` (what `writeTo` does on a
transport that takes everything: header and payload are one buffer), any order of the two `Write`s
leaves one whole frame after the other on the wire -/
theorem mergeWrites_single : ∀ (sch : List Bool) (fa fb : Bytes),
    (mergeWrites sch [fa] [fb]).flatten = fa ++ fb ∨ (mergeWrites sch [fa] [fb]).flatten = fb ++ fa := by
  intro sch fa fb
  have hE : ∀ sch : List Bool, mergeWrites sch ([] : List Bytes) [] = [] := by
    intro sch; induction sch with
    | nil => rfl
    | cons s sch ih => cases s <;> simpa [mergeWrites] using ih
  have hA : ∀ sch : List Bool, (mergeWrites sch [fa] []).flatten = fa := by
    intro sch; induction sch with
    | nil => simp [mergeWrites]
    | cons s sch ih =>
      cases s with
      | true => simp [mergeWrites, hE]
      | false => simpa [mergeWrites] using ih
  have hB : ∀ sch : List Bool, (mergeWrites sch [] [fb]).flatten = fb := by
    intro sch; induction sch with
    | nil => simp [mergeWrites]
    | cons s sch ih =>
      cases s with
      | true => simpa [mergeWrites] using ih
      | false => simp [mergeWrites, hE]
  induction sch with
  | nil => left; simp [mergeWrites]
  | cons s sch ih =>
    cases s with
    | true => left; simp [mergeWrites, hB]
    | false => right; simp [mergeWrites, hA]

end Dos.Framing

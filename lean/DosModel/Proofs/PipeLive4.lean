/-
C14 liveness, part 4: progress and `drain`.
-/
import DosModel.Proofs.PipeLive3
import DosModel.Model.PipeRun

namespace Dos.Pipe

-- `Running`, `Quiet`: Model/PipeRun.lean

theorem exists_min_of {α : Type} (P : α → Prop) (f : α → Nat) (h : ∃ x, P x) :
    ∃ x, P x ∧ ∀ y, P y → f x ≤ f y := by
  obtain ⟨x, hx⟩ := h
  generalize hn : f x = n
  induction n using Nat.strongRecOn generalizing x with
  | _ n ih =>
    by_cases h : ∃ y, P y ∧ f y < f x
    · obtain ⟨y, hy, hlt⟩ := h
      exact ih (f y) (by omega) y hy rfl
    · refine ⟨x, hx, fun y hy => ?_⟩
      by_cases hle : f x ≤ f y
      · exact hle
      · exact absurd ⟨y, hy, by omega⟩ h

/-- the pipeline goroutines of smaller rank than a minimal running one have all exited -/
theorem lower_done {p : Pipeline} {s : State} (hr : Reach p s) {g : Gi}
    (hmin : ∀ g', Running p s g' → rankOf p g ≤ rankOf p g') :
    ∀ g' gr', p.gs[g']? = some gr' → gr'.static = true → gr'.daemon = false →
      rankOf p g' < rankOf p g → s.gs[g']? = some .done := by
  intro g' gr' hg' hst hdm hrk
  have hlt : g' < s.gs.length := by
    rw [(shape s hr).gs]; exact (List.getElem?_eq_some_iff.mp hg').1
  have hsome : s.gs[g']? = some s.gs[g'] := by simp [hlt]
  cases hst' : s.gs[g'] with
  | idle => rw [hst'] at hsome; exact absurd hsome (static_not_idle hg' hst s hr)
  | «at» pc' =>
    rw [hst'] at hsome
    have := hmin g' ⟨gr', pc', hg', hdm, hsome⟩
    omega
  | done => rw [hst'] at hsome; exact hsome

/-- **progress**: while a pipeline goroutine is running after cancellation, some step
decreases the measure -/
theorem progress {p : Pipeline} (hlive : LiveOk p = true) (hsafe : NoCrash p) {s : State}
    (hr : Reach p s) (hc : s.ctxDone 0 = true) (hnq : ¬ Quiet p s) :
    ∃ e s1, Step p s e (.run s1) ∧ Dec p s s1 := by
  obtain ⟨h0, hgs⟩ := liveOk_parts hlive
  have hex : ∃ g, Running p s g := by
    unfold Quiet at hnq
    exact Classical.not_forall_not.mp hnq
  obtain ⟨g, ⟨gr, pc, hg, hd, hat⟩, hmin⟩ := exists_min_of (Running p s) (rankOf p) hex
  obtain ⟨hnodes, hw4⟩ := hgs g gr hg hd
  have hpc := at_in_range h0 hg s hr pc hat
  have hn : gr.nodes[pc]? = some gr.nodes[pc] := by simp [hpc]
  generalize gr.nodes[pc] = nd at hn
  have L : LiveAt p s g gr pc nd :=
    ⟨hr, hc, hg, hn, hat, lower_done hr hmin, hnodes nd (List.mem_of_getElem? hn)⟩
  cases hex' : nd.isExit with
  | true =>
    have : nd = .exit := by cases nd <;> simp [Node.isExit] at hex' <;> rfl
    subst this
    exact ⟨_, _, Step.exit g pc hat (node_of hg hn), exit_dec hg hd hat⟩
  | false =>
    obtain ⟨l, n, he, hlt⟩ := W4g_edge hw4 hn hex'
    rcases escape_step h0 hsafe L he with hstep | ⟨c, n', _, hpos, _, hstep⟩
    · exact ⟨_, _, hstep, moved_dec hg hd hat (esc_quiet he) hlt⟩
    · have hin : c < s.chs.length := by
        unfold State.len at hpos
        cases hh : s.chs[c]? with
        | none => simp [hh] at hpos
        | some y => exact (List.getElem?_eq_some_iff.mp hh).1
      exact ⟨_, _, hstep, recvOk_dec hin hpos⟩

theorem dec_lex {p : Pipeline} {s s1 : State} (h : Dec p s s1) :
    Prod.Lex (· < ·) (Prod.Lex (· < ·) (· < ·))
      (totalLen s1, idleCount s1, weightSum p s1) (totalLen s, idleCount s, weightSum p s) := by
  rcases h with h | ⟨h1, h | ⟨h2, h3⟩⟩
  · exact Prod.Lex.left _ _ h
  · rw [h1]; exact Prod.Lex.right _ (Prod.Lex.left _ _ h)
  · rw [h1, h2]; exact Prod.Lex.right _ (Prod.Lex.right _ h3)

/-- **drain**: from every reachable state in which the pipeline context is done there is a
schedule to a state in which no pipeline goroutine is running. -/
theorem drain {p : Pipeline} (hlive : LiveOk p = true) (hsafe : NoCrash p) (s : State)
    (hr : Reach p s) (hc : s.ctxDone 0 = true) : ∃ s', Path p s s' ∧ Quiet p s' := by
  by_cases hq : Quiet p s
  · exact ⟨s, Path.refl s, hq⟩
  · have hp := progress hlive hsafe hr hc hq
    obtain ⟨e, s1, hstep, hdec⟩ := hp
    obtain ⟨s', hpath, hq'⟩ := drain hlive hsafe s1 (Reach.step hr hstep) (ctxDone_mono hstep 0 hc)
    exact ⟨s', Path.step hstep hpath, hq'⟩
termination_by (totalLen s, idleCount s, weightSum p s)
decreasing_by exact dec_lex hdec

/-- in a quiet state every channel with a pipeline closer is closed -/
theorem quiet_closed {p : Pipeline} {s : State} (hr : Reach p s) (hq : Quiet p s)
    {h : Gi} {gr : Goroutine} {c : Ch} (hg : p.gs[h]? = some gr) (hst : gr.static = true)
    (hdm : gr.daemon = false) (hcl : closesOnAllPaths gr c = true) (hin : c < p.chans.length) :
    s.closed c = true := by
  apply closer_closed hg hcl hin s hr
  left
  have hlt : h < s.gs.length := by
    rw [(shape s hr).gs]; exact (List.getElem?_eq_some_iff.mp hg).1
  have hsome : s.gs[h]? = some s.gs[h] := by simp [hlt]
  cases hst' : s.gs[h] with
  | idle => rw [hst'] at hsome; exact absurd hsome (static_not_idle hg hst s hr)
  | «at» pc' => rw [hst'] at hsome; exact absurd ⟨gr, pc', hg, hdm, hsome⟩ (hq h)
  | done => rw [hst'] at hsome; exact hsome

/-- **not stuck**: after cancellation the running pipeline goroutine of least rank has an
enabled step of its own -/
theorem min_running_steps {p : Pipeline} (hlive : LiveOk p = true) (hsafe : NoCrash p) {s : State}
    (hr : Reach p s) (hc : s.ctxDone 0 = true) {g : Gi} (hrun : Running p s g)
    (hmin : ∀ g', Running p s g' → rankOf p g ≤ rankOf p g') :
    (∃ l s1, Step p s (.act g l) (.run s1)) ∨ (∃ s1, Step p s (.exit g) (.run s1)) := by
  obtain ⟨h0, hgs⟩ := liveOk_parts hlive
  obtain ⟨gr, pc, hg, hd, hat⟩ := hrun
  obtain ⟨hnodes, hw4⟩ := hgs g gr hg hd
  have hpc := at_in_range h0 hg s hr pc hat
  have hn : gr.nodes[pc]? = some gr.nodes[pc] := by simp [hpc]
  generalize gr.nodes[pc] = nd at hn
  have L : LiveAt p s g gr pc nd :=
    ⟨hr, hc, hg, hn, hat, lower_done hr hmin, hnodes nd (List.mem_of_getElem? hn)⟩
  cases hex' : nd.isExit with
  | true =>
    have : nd = .exit := by cases nd <;> simp [Node.isExit] at hex' <;> rfl
    subst this
    exact Or.inr ⟨_, Step.exit g pc hat (node_of hg hn)⟩
  | false =>
    obtain ⟨l, n, he, _⟩ := W4g_edge hw4 hn hex'
    rcases escape_step h0 hsafe L he with hstep | ⟨c, n', _, _, _, hstep⟩
    · exact Or.inl ⟨_, _, hstep⟩
    · exact Or.inl ⟨_, _, hstep⟩

end Dos.Pipe

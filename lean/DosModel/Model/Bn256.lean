/-
Concrete, executable model of the alt_bn128 / bn256 groups as `group/bn256` uses them.
Core Lean only (no Mathlib): importable by every driver.

STABLE API (namespace `Dos.Bn256`) — other models import this file
------------------------------------------------------------------
constants   `p` (base-field prime), `r` (group order, `Order` in constants.go), `R = 2^256`,
            `np`, `r2`, `rInv` (Montgomery constants of constants.go as numbers)
Fp          a field element is a `Nat` that callers keep `< p`; every operation reduces `% p`:
            `fadd fsub fneg fmul fsq fpow finv` (`finv a = a^(p-2)`, as `gfP.Invert`; `finv 0 = 0`)
Fr          `radd rsub rneg rmul` (scalars mod `r`)
Montgomery  `redc T`, `montEncode a = redc (a * r2)`, `montDecode a = redc a`  (numbers, not limbs)
Fp2         `structure Fp2 (im re : Nat)`, value `im·i + re`, `i² = −1`  (Go: `gfP2{x,y}` is `x·i+y`,
            so `im = .x`, `re = .y`): `Fp2.zero one add sub neg mul sq inv isZero smulFp`
G1          `inductive G1 | inf | aff (x y : Nat)`  — affine point of y² = x³ + 3 or the identity.
            `G1.onCurve : G1 → Bool`, `G1.neg`, `G1.double`, `G1.add`, `G1.smul (k : Nat) (P)`,
            `g1gen = aff 1 2`, `G1.valid P` (coordinates `< p` ∧ on curve) : Bool
G2          `inductive G2 | inf | aff (x y : Fp2)` — affine point of the twist y² = x³ + 3/ξ, ξ = i+9.
            `G2.onCurve`, `G2.neg`, `G2.double`, `G2.add`, `G2.smul`, `g2gen`, `G2.valid`,
            `G2.inSubgroup P := (G2.smul r P == inf)`   (what twist.go `IsOnCurve` tests after the equation)
All group operations expect reduced coordinates (`< p`) and return reduced coordinates.
`smul k P` is MSB-first double-and-add, i.e. the loop of `curvePoint.Mul`/`twistPoint.Mul`, on affine
points (the Jacobian arithmetic of curve.go/twist.go is C10's subject; the two are tied by the
correspondence runs of C10/C11/C06).  `k` is NOT reduced mod `r` (Go does not reduce it either).
-/
import DosModel.Model.Util

namespace Dos.Bn256

/-- the base-field prime `P` of constants.go -/
def p : Nat := 21888242871839275222246405745257275088696311157297823662689037894645226208583
/-- the group order `Order` of constants.go -/
def r : Nat := 21888242871839275222246405745257275088548364400416034343698204186575808495617
/-- Montgomery radix -/
def R : Nat := 2 ^ 256
/-- `np = −p⁻¹ mod 2^256` -/
def np : Nat := 111032442853175714102588374283752698368366046808579839647964533820976443843465
/-- `r2 = R² mod p` -/
def r2 : Nat := 3096616502983703923843567936837374451735540968419076528771170197431451843209
/-- `rN1 = R⁻¹ mod p` -/
def rInv : Nat := 20988524275117001072002809824448087578619730785600314334253784976379291040311

/-! ### Fp -/
def fadd (a b : Nat) : Nat := (a + b) % p
def fsub (a b : Nat) : Nat := (a + (p - b % p)) % p
def fneg (a : Nat) : Nat := (p - a % p) % p
def fmul (a b : Nat) : Nat := (a * b) % p
def fsq (a : Nat) : Nat := (a * a) % p

/-- square-and-multiply, LSB first (the loop of `gfP.Invert`); `fuel` ≥ e suffices (it halves) -/
def powAux (m : Nat) : Nat → Nat → Nat → Nat → Nat
  | 0, _, _, acc => acc
  | fuel + 1, b, e, acc =>
    if e = 0 then acc
    else powAux m fuel (b * b % m) (e / 2) (if e % 2 = 1 then acc * b % m else acc)

def powMod (b e m : Nat) : Nat := powAux m e (b % m) e (1 % m)
def fpow (b e : Nat) : Nat := powMod b e p
/-- `a^(p−2)`: the inverse for `a ≢ 0`, and `0` for `a ≡ 0` -/
def finv (a : Nat) : Nat := fpow a (p - 2)

/-! ### Fr (scalars) -/
def radd (a b : Nat) : Nat := (a + b) % r
def rsub (a b : Nat) : Nat := (a + (r - b % r)) % r
def rneg (a : Nat) : Nat := (r - a % r) % r
def rmul (a b : Nat) : Nat := (a * b) % r

/-! ### Montgomery reduction on numbers (what `gfpMul` computes for the product `T = a·b`) -/
def redc (T : Nat) : Nat :=
  let m := (T % R) * np % R
  let u := (T + m * p) / R
  if u ≥ p then u - p else u
/-- `montEncode(c, a) = gfpMul(c, a, r2)` -/
def montEncode (a : Nat) : Nat := redc (a * r2)
/-- `montDecode(c, a) = gfpMul(c, a, 1)` -/
def montDecode (a : Nat) : Nat := redc (a * 1)

/-! ### Fp2 = Fp[i]/(i²+1) -/
structure Fp2 where
  im : Nat
  re : Nat
  deriving DecidableEq, Repr, Inhabited

namespace Fp2
def zero : Fp2 := ⟨0, 0⟩
def one : Fp2 := ⟨0, 1⟩
def isZero (a : Fp2) : Bool := a.im == 0 && a.re == 0
def reduce (a : Fp2) : Fp2 := ⟨a.im % p, a.re % p⟩
def add (a b : Fp2) : Fp2 := ⟨fadd a.im b.im, fadd a.re b.re⟩
def sub (a b : Fp2) : Fp2 := ⟨fsub a.im b.im, fsub a.re b.re⟩
def neg (a : Fp2) : Fp2 := ⟨fneg a.im, fneg a.re⟩
/-- (a.im·i + a.re)(b.im·i + b.re) -/
def mul (a b : Fp2) : Fp2 :=
  ⟨fadd (fmul a.im b.re) (fmul b.im a.re), fsub (fmul a.re b.re) (fmul a.im b.im)⟩
def sq (a : Fp2) : Fp2 := mul a a
def smulFp (k : Nat) (a : Fp2) : Fp2 := ⟨fmul k a.im, fmul k a.re⟩
/-- `gfP2.Invert`: conj(a) / (im² + re²) -/
def inv (a : Fp2) : Fp2 :=
  let n := finv (fadd (fsq a.im) (fsq a.re))
  ⟨fmul (fneg a.im) n, fmul a.re n⟩
end Fp2

/-! ### G1: y² = x³ + 3 over Fp -/
inductive G1 where
  | inf
  | aff (x y : Nat)
  deriving DecidableEq, Repr, Inhabited

def curveB : Nat := 3
def g1gen : G1 := .aff 1 2

namespace G1
def onCurve : G1 → Bool
  | inf => true
  | aff x y => fsq y == fadd (fmul (fsq x) x) curveB

def valid : G1 → Bool
  | inf => true
  | aff x y => decide (x < p) && decide (y < p) && onCurve (aff x y)

def neg : G1 → G1
  | inf => inf
  | aff x y => aff x (fneg y)

def double : G1 → G1
  | inf => inf
  | aff x y =>
    if y % p = 0 then inf
    else
      let l := fmul (fmul 3 (fsq x)) (finv (fadd y y))
      let x3 := fsub (fsq l) (fadd x x)
      aff x3 (fsub (fmul l (fsub x x3)) y)

def add : G1 → G1 → G1
  | inf, q => q
  | q, inf => q
  | aff x1 y1, aff x2 y2 =>
    if x1 % p = x2 % p then
      if y1 % p = y2 % p then double (aff x1 y1) else inf
    else
      let l := fmul (fsub y2 y1) (finv (fsub x2 x1))
      let x3 := fsub (fsub (fsq l) x1) x2
      aff x3 (fsub (fmul l (fsub x1 x3)) y1)

/-- MSB-first double-and-add; `fuel ≥ k` suffices (`k` halves at every step) -/
def smulAux (P : G1) : Nat → Nat → G1
  | 0, _ => inf
  | fuel + 1, k =>
    if k = 0 then inf
    else
      let d := double (smulAux P fuel (k / 2))
      if k % 2 = 1 then add d P else d

def smul (k : Nat) (P : G1) : G1 := smulAux P k k
end G1

/-! ### G2: y² = x³ + 3/ξ over Fp2 -/
inductive G2 where
  | inf
  | aff (x y : Fp2)
  deriving DecidableEq, Repr, Inhabited

/-- `twistB = 3/ξ`, ξ = i + 9 (constants.go keeps it in Montgomery form) -/
def twistB : Fp2 :=
  ⟨266929791119991161246907387137283842545076965332900288569378510910307636690,
   19485874751759354771024239261021720505790618469301721065564631296452457478373⟩

/-- `twistGen` (twist.go, Montgomery form there) = the EVM's G2 generator -/
def g2gen : G2 :=
  .aff ⟨11559732032986387107991004021392285783925812861821192530917403151452391805634,
        10857046999023057135944570762232829481370756359578518086990519993285655852781⟩
       ⟨4082367875863433681332203403145435568316851327593401208105741076214120093531,
        8495653923123431417604973247489272438418190587263600148770280649306958101930⟩

namespace G2
def onCurve : G2 → Bool
  | inf => true
  | aff x y => Fp2.sq y == Fp2.add (Fp2.mul (Fp2.sq x) x) twistB

def double : G2 → G2
  | inf => inf
  | aff x y =>
    if (Fp2.reduce y).isZero then inf
    else
      let l := Fp2.mul (Fp2.smulFp 3 (Fp2.sq x)) (Fp2.inv (Fp2.add y y))
      let x3 := Fp2.sub (Fp2.sq l) (Fp2.add x x)
      aff x3 (Fp2.sub (Fp2.mul l (Fp2.sub x x3)) y)

def neg : G2 → G2
  | inf => inf
  | aff x y => aff x (Fp2.neg y)

def add : G2 → G2 → G2
  | inf, q => q
  | q, inf => q
  | aff x1 y1, aff x2 y2 =>
    if Fp2.reduce x1 = Fp2.reduce x2 then
      if Fp2.reduce y1 = Fp2.reduce y2 then double (aff x1 y1) else inf
    else
      let l := Fp2.mul (Fp2.sub y2 y1) (Fp2.inv (Fp2.sub x2 x1))
      let x3 := Fp2.sub (Fp2.sub (Fp2.sq l) x1) x2
      aff x3 (Fp2.sub (Fp2.mul l (Fp2.sub x1 x3)) y1)

def smulAux (P : G2) : Nat → Nat → G2
  | 0, _ => inf
  | fuel + 1, k =>
    if k = 0 then inf
    else
      let d := double (smulAux P fuel (k / 2))
      if k % 2 = 1 then add d P else d

def smul (k : Nat) (P : G2) : G2 := smulAux P k k

/-- the test `cneg.Mul(c, Order); cneg.z.IsZero()` of twist.go `IsOnCurve` -/
def inSubgroup (P : G2) : Bool := smul r P == inf

def valid : G2 → Bool
  | inf => true
  | aff x y => decide (x.im < p) && decide (x.re < p) && decide (y.im < p) && decide (y.re < p)
      && onCurve (aff x y) && inSubgroup (aff x y)
end G2

end Dos.Bn256

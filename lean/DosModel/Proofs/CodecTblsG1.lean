/-
ONE G1 codec: `pointG1.UnmarshalBinary / MarshalBinary` of group/bn256/point.go is modelled twice —
`Model/TblsG1.lean` (`G1.decode`, `G1.encode`: what the C02/C03 drivers and `C02ComposeG1` execute) and
`Model/Codec.lean` (`unmarshalG1`, `marshalG1`: C11/C06).  This file joins the copies (review 4-B,
findings 7/14): the two decoders accept exactly the same byte strings and return the same point, the two
encoders write the same bytes.  Every C11 theorem about `unmarshalG1` (`g1_unmarshal_ok_iff`,
`unmarshal_total`, the regenerated code facts of `Props/C11Code.lean`) therefore speaks about the decoder
C02/C03 run as well.  Core Lean only (both sides are core-only models).
-/
import DosModel.Model.TblsG1
import DosModel.Proofs.CodecChar

namespace Dos.CodecTblsG1
open Dos Dos.Codec

/-- the same point in the other model's type -/
def conv : G1.Pt → Bn256.G1
  | .inf => .inf
  | .aff x y => .aff x y

def back : Bn256.G1 → G1.Pt
  | .inf => .inf
  | .aff x y => .aff x y

theorem back_conv (P : G1.Pt) : back (conv P) = P := by cases P <;> rfl
theorem conv_back (P : Bn256.G1) : conv (back P) = P := by cases P <;> rfl
theorem conv_inj {P Q : G1.Pt} (h : conv P = conv Q) : P = Q := by
  rw [← back_conv P, ← back_conv Q, h]

/-- the two models use the same prime (one regenerated from constants.go by `tblsfacts`, one a literal
pinned to the regenerated `constP` by C11 `gen_sizes_and_moduli`) -/
theorem p_eq : G1.p = Bn256.p := by decide

/-- the curve test is the same function of the two coordinates -/
theorem onCurve_eq (x y : Nat) : G1.onCurve x y = Bn256.G1.onCurve (.aff x y) := by
  simp only [G1.onCurve, Bn256.G1.onCurve, G1.fmul, G1.fadd, Bn256.fsq, Bn256.fmul, Bn256.fadd,
    Bn256.curveB, p_eq]

/-- the outcome of the C11 decoder, forgetting the error kind (what `G1.decode : Option` can express) -/
def outToOption : Out Bn256.G1 → Option Bn256.G1
  | .ok P => some P
  | _ => none

/-- **the decoders agree on every byte string** -/
theorem decode_eq (b : Bytes) : (G1.decode b).map conv = outToOption (unmarshalG1 b) := by
  by_cases hl : b.length < 64
  · rw [unmarshalG1_short b hl]; simp [G1.decode, hl, outToOption]
  · rw [unmarshalG1_long b (by omega)]
    simp only [G1.decode, hl, if_false, g1OfCoords, p_eq]
    split
    · rfl
    · split
      · rfl
      · rw [onCurve_eq]
        split <;> rfl

/-- iff form: `G1.decode` returns `P` exactly when `unmarshalG1` returns the same point -/
theorem decode_some_iff (b : Bytes) (P : G1.Pt) :
    G1.decode b = some P ↔ unmarshalG1 b = .ok (conv P) := by
  have h := decode_eq b
  constructor
  · intro hd
    rw [hd] at h
    cases hu : unmarshalG1 b with
    | ok Q => rw [hu] at h; simp only [Option.map_some, outToOption, Option.some.injEq] at h; rw [h]
    | err e => rw [hu] at h; simp [outToOption] at h
    | panic s => rw [hu] at h; simp [outToOption] at h
  · intro hu
    rw [hu] at h
    cases hd : G1.decode b with
    | none => rw [hd] at h; simp [outToOption] at h
    | some Q =>
      rw [hd] at h
      simp only [Option.map_some, outToOption, Option.some.injEq] at h
      rw [conv_inj h]

/-- `G1.decode` fails exactly when `unmarshalG1` answers with an error (it never panics) -/
theorem decode_none_iff (b : Bytes) : G1.decode b = none ↔ ∃ e, unmarshalG1 b = .err e := by
  have h := decode_eq b
  have hp := unmarshalG1_not_panic b
  cases hu : unmarshalG1 b with
  | ok Q =>
    rw [hu] at h
    constructor
    · intro hd; rw [hd] at h; simp [outToOption] at h
    · rintro ⟨e, he⟩; cases he
  | err e =>
    rw [hu] at h
    constructor
    · intro _; exact ⟨e, rfl⟩
    · intro _
      cases hd : G1.decode b with
      | none => rfl
      | some Q => rw [hd] at h; simp [outToOption] at h
  | panic s => rw [hu] at hp; simp [Out.isPanic] at hp

/-- **the encoders write the same bytes** -/
theorem encode_eq (P : G1.Pt) : G1.encode P = marshalG1 (conv P) := by
  cases P <;> rfl

end Dos.CodecTblsG1

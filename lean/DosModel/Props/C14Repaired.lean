/-
C14, continued — on the regenerated IR of the repaired tree the scenarios of the repaired defects
(corpus/C14) end clean.
-/
import DosModel.Props.C14
import DosModel.Proofs.PipeExploreSound
import DosModel.Proofs.PipeWitness

namespace Dos.Props.C14
open Dos Dos.Pipe Dos.Gen.Pipes

/-- the scenarios below really are scenarios of the REGENERATED pipelines: every goroutine, channel
and data decision they name exists there (otherwise `Wit.scOf` would be the empty scenario and
`repaired_scenarios_end_clean` vacuous; a rename in /repo breaks THIS theorem) -/
theorem repaired_scenarios_resolve :
    Wit.resolves helper_dosnode_mergeErrors (Wit.faninSpec "dosnode.mergeErrors" "dosnode.mergeErrors.out") = true ∧
    Wit.resolves query_sys Wit.recoverSpec = true ∧ Wit.resolves query_sys Wit.dispatchSpec = true ∧
    Wit.resolves grouping Wit.askSpec = true := by decide +kernel

/-- …and they are not trivial: the explorations visit more than the initial state -/
theorem repaired_scenarios_explored :
    10 ≤ ((Wit.scOf helper_dosnode_mergeErrors (Wit.faninSpec "dosnode.mergeErrors" "dosnode.mergeErrors.out")).reachSet 400).length ∧
    10 ≤ ((Wit.scOf query_sys Wit.recoverSpec).reachSet 400).length := by decide +kernel

/-- on the repaired tree the same scenarios end with everything closed and nothing left: every
state of the exploration in which nothing can move has no goroutine of the code under test left -/
theorem repaired_scenarios_end_clean :
    (let sc := Wit.scOf helper_dosnode_mergeErrors (Wit.faninSpec "dosnode.mergeErrors" "dosnode.mergeErrors.out")
     (sc.reachSet 400).all fun s => !Wit.Scenario.stuck sc s || (!Wit.Scenario.leaked sc s && !Wit.Scenario.firstOpen sc s)) = true ∧
    (let sc := Wit.scOf query_sys Wit.recoverSpec
     (sc.reachSet 400).all fun s => !Wit.Scenario.stuck sc s || !Wit.Scenario.leaked sc s) = true ∧
    (let sc := Wit.scOf query_sys Wit.dispatchSpec
     (sc.reachSet 2000).all fun s => (sc.crashes s).isEmpty) = true := by
  refine ⟨by decide +kernel, by decide +kernel, by decide +kernel⟩

end Dos.Props.C14

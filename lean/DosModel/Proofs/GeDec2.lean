/-
C20 (round 4) — point DECOMPRESSION, part 2: the middle stage (both `feIsNonZero` tests, segments B and C) and the
tail (`feIsNegative`, segment D, segment E) of `Ge.extFromBytes`, and the characterisation of the whole model in
terms of the field: with y = the encoded y, u = y² − 1, v = d y² + 1, c = cand u v,
  * if v c² = u or v c² = −u the model returns limbs (X ≤ 2 ×, Y, Z, T ≤ 1 ×) standing for (x', y, 1, x' y) with
    v x'² = u and (x' ≠ 0 → parity of x' = bit 255);
  * otherwise it returns `none`.
-/
import DosModel.Proofs.GeDec

set_option exponentiation.threshold 600

namespace Dos.Ge
open Dos Dos.Ed25519 Dos.FeProg Dos.FeOps Dos.GeProg Dos.Ed25519Prime Dos.Edwards Dos.Gen.Ed25519Ge

/-! ### middle -/

theorem fbMid_eq (r : List L10) :
    fbMid r =
      if (FeOps.feIsNonZero (r.getD 8 z10)).1 = 1 then
        if (FeOps.feIsNonZero ((fbRun extended_FromBytes_B (r.set 8 (FeOps.feIsNonZero (r.getD 8 z10)).2)).getD 8 z10)).1 = 1
        then none
        else some (fbRun extended_FromBytes_C
          ((fbRun extended_FromBytes_B (r.set 8 (FeOps.feIsNonZero (r.getD 8 z10)).2)).set 8
            (FeOps.feIsNonZero ((fbRun extended_FromBytes_B (r.set 8 (FeOps.feIsNonZero (r.getD 8 z10)).2)).getD 8 z10)).2))
      else some (r.set 8 (FeOps.feIsNonZero (r.getD 8 z10)).2) := rfl

theorem segB_run (A : FeAlg F) (x y z t u v w q c d d2 i : F) :
    runBody A 0 fbBases 0 extended_FromBytes_B.body [x, y, z, t, u, v, w, q, c, d, d2, i] =
      [x, y, z, t, u, v, w, q, A.add q u, d, d2, i] := rfl

theorem segC_run (A : FeAlg F) (x y z t u v w q c d d2 i : F) :
    runBody A 0 fbBases 0 extended_FromBytes_C.body [x, y, z, t, u, v, w, q, c, d, d2, i] =
      [A.mul x i, y, z, t, u, v, w, q, c, d, d2, i] := rfl

theorem segD_run (A : FeAlg F) (x y z t u v w q c d d2 i : F) :
    runBody A 0 fbBases 0 extended_FromBytes_D.body [x, y, z, t, u, v, w, q, c, d, d2, i] =
      [A.neg x, y, z, t, u, v, w, q, c, d, d2, i] := rfl

theorem segE_run (A : FeAlg F) (x y z t u v w q c d d2 i : F) :
    runBody A 0 fbBases 0 extended_FromBytes_E.body [x, y, z, t, u, v, w, q, c, d, d2, i] =
      [x, y, z, A.mul x y, u, v, w, q, c, d, d2, i] := rfl

/-- **middle**: check = vxx − u is tested; if non-zero, check = vxx + u is tested and X is multiplied by sqrt(−1) -/
theorem mid_spec {r : List L10} {x y z t u v w q d d2 i : F}
    (h : RegRel fbMA r [x, y, z, t, u, v, w, q, q - u, d, d2, i]) :
    (q - u = 0 → ∃ r', fbMid r = some r' ∧ RegRel fbMT r' [x, y, z, t, u, v, w, q, q - u, d, d2, i]) ∧
    (q - u ≠ 0 → q + u = 0 → ∃ r', fbMid r = some r' ∧ RegRel fbMT r' [x * i, y, z, t, u, v, w, q, q + u, d, d2, i]) ∧
    (q - u ≠ 0 → q + u ≠ 0 → fbMid r = none) := by
  have h8 : R 3 (r.getD 8 z10) (q - u) := h.2.2 8 3 rfl
  obtain ⟨n1, m1⟩ := nonZero_R h8 (le_refl 3)
  have hset : RegRel fbMT (r.set 8 (FeOps.feIsNonZero (r.getD 8 z10)).2) [x, y, z, t, u, v, w, q, q - u, d, d2, i] :=
    h.set 8 (by decide) m1
  rw [fbMid_eq, n1]
  by_cases h0 : q - u = 0
  · refine ⟨fun _ => ?_, fun hn => absurd h0 hn, fun hn => absurd h0 hn⟩
    rw [if_pos h0, if_neg (by decide)]
    exact ⟨_, rfl, hset⟩
  · rw [if_neg h0, if_pos rfl]
    have hB := body_refines (b := 0) (Or.inl rfl) extended_FromBytes_B.body hset (bases := fbBases)
      (M' := fbMA) (by decide)
    rw [segB_run fieldAlg] at hB
    have hB' : RegRel fbMA (fbRun extended_FromBytes_B (r.set 8 (FeOps.feIsNonZero (r.getD 8 z10)).2))
        [x, y, z, t, u, v, w, q, q + u, d, d2, i] := hB
    generalize fbRun extended_FromBytes_B (r.set 8 (FeOps.feIsNonZero (r.getD 8 z10)).2) = rB at hB' ⊢
    have h8' : R 3 (rB.getD 8 z10) (q + u) := hB'.2.2 8 3 rfl
    obtain ⟨n2, m2⟩ := nonZero_R h8' (le_refl 3)
    have hset2 : RegRel fbMT (rB.set 8 (FeOps.feIsNonZero (rB.getD 8 z10)).2) [x, y, z, t, u, v, w, q, q + u, d, d2, i] :=
      hB'.set 8 (by decide) m2
    rw [n2]
    by_cases h1 : q + u = 0
    · refine ⟨fun hn => absurd hn h0, fun _ _ => ?_, fun _ hn => absurd h1 hn⟩
      rw [if_pos h1, if_neg (by decide)]
      have hC := body_refines (b := 0) (Or.inl rfl) extended_FromBytes_C.body hset2 (bases := fbBases)
        (M' := fbMT) (by decide)
      rw [segC_run fieldAlg] at hC
      exact ⟨_, rfl, hC⟩
    · refine ⟨fun hn => absurd hn h0, fun _ hn => absurd hn h1, fun _ _ => ?_⟩
      rw [if_neg h1, if_pos rfl]

/-! ### tail -/

/-- multipliers after `feIsNegative(&p.X)` (and after segments D, E) -/
def fbMN : List Mult :=
  [some 2, some 1, some 1, some 1, some 2, some 2, some 1, some 1, some 2, some 1, some 1, some 1]

theorem neg_parity (x : F) (b : Nat) (hb : b ≤ 1) (hne : x.val % 2 ≠ b) (hx : -x ≠ 0) : (-x).val % 2 = b := by
  have hx0 : x ≠ 0 := fun h => hx (by rw [h, neg_zero])
  rw [ZMod.neg_val, if_neg hx0]
  have hlt := ZMod.val_lt x
  have hpos : 0 < x.val := Nat.pos_of_ne_zero (fun hz => hx0 ((ZMod.val_eq_zero _).1 hz))
  have hodd : Dos.Ed.p % 2 = 1 := by decide
  omega

theorem fbTail_eq (s : Bytes) (r : List L10) :
    fbTail s r = ext4 (fbRun extended_FromBytes_E
      (if (FeOps.feIsNegative (r.getD 0 z10)).1 ≠ ((s.getD 31 0) >>> 7)
        then fbRun extended_FromBytes_D (r.set 0 (FeOps.feIsNegative (r.getD 0 z10)).2)
        else r.set 0 (FeOps.feIsNegative (r.getD 0 z10)).2)) 0 := rfl

/-- **tail**: the sign of X is made to agree with bit 255 of the input, T = X Y -/
theorem tail_spec (s : Bytes) (hs : s.length = 32) {r : List L10} {x y z t u v w q c d d2 i : F}
    (h : RegRel fbMT r [x, y, z, t, u, v, w, q, c, d, d2, i]) :
    ∃ x' : F, (x' = x ∨ x' = -x) ∧ (x' ≠ 0 → x'.val % 2 = leNat s / 2 ^ 255) ∧
      R 2 (fbTail s r).X x' ∧ R 1 (fbTail s r).Y y ∧ R 1 (fbTail s r).Z z ∧ R 1 (fbTail s r).T (x' * y) := by
  have h0 : R 1 (r.getD 0 z10) x := h.2.2 0 1 rfl
  obtain ⟨n1, m1⟩ := negative_R h0 (by omega)
  have hset : RegRel fbMN (r.set 0 (FeOps.feIsNegative (r.getD 0 z10)).2) [x, y, z, t, u, v, w, q, c, d, d2, i] :=
    h.set 0 (by decide) m1
  -- whichever branch: some x' with the right sign in register X
  have key : ∃ x' : F, (x' = x ∨ x' = -x) ∧ (x' ≠ 0 → x'.val % 2 = leNat s / 2 ^ 255) ∧
      RegRel fbMN (if (FeOps.feIsNegative (r.getD 0 z10)).1 ≠ ((s.getD 31 0) >>> 7)
        then fbRun extended_FromBytes_D (r.set 0 (FeOps.feIsNegative (r.getD 0 z10)).2)
        else r.set 0 (FeOps.feIsNegative (r.getD 0 z10)).2) [x', y, z, t, u, v, w, q, c, d, d2, i] := by
    by_cases hne : (FeOps.feIsNegative (r.getD 0 z10)).1 ≠ ((s.getD 31 0) >>> 7)
    · rw [if_pos hne]
      have hD := body_refines (b := 0) (Or.inl rfl) extended_FromBytes_D.body hset (bases := fbBases)
        (M' := fbMN) (by decide)
      rw [segD_run fieldAlg] at hD
      refine ⟨-x, Or.inr rfl, ?_, hD⟩
      intro hx
      apply neg_parity x _ (sign_le s hs) _ hx
      intro hp
      apply hne
      apply UInt8.toNat_inj.1
      rw [n1, sign_bit s hs, hp]
    · rw [if_neg hne]
      refine ⟨x, Or.inl rfl, ?_, hset⟩
      intro _
      have := not_not.1 hne
      rw [← n1, this, sign_bit s hs]
  obtain ⟨x', hx1, hx2, hrel⟩ := key
  refine ⟨x', hx1, hx2, ?_⟩
  rw [fbTail_eq]
  generalize (if (FeOps.feIsNegative (r.getD 0 z10)).1 ≠ ((s.getD 31 0) >>> 7)
        then fbRun extended_FromBytes_D (r.set 0 (FeOps.feIsNegative (r.getD 0 z10)).2)
        else r.set 0 (FeOps.feIsNegative (r.getD 0 z10)).2) = r1 at hrel ⊢
  have hE := body_refines (b := 0) (Or.inl rfl) extended_FromBytes_E.body hrel (bases := fbBases)
    (M' := fbMN) (by decide)
  rw [segE_run fieldAlg] at hE
  have hE' : RegRel fbMN (fbRun extended_FromBytes_E r1) [x', y, z, x' * y, u, v, w, q, c, d, d2, i] := hE
  obtain ⟨eX, eY, eZ, eT⟩ := ext4_fields (fbRun extended_FromBytes_E r1) 0
  rw [eX, eY, eZ, eT]
  exact ⟨hE'.2.2 0 2 rfl, hE'.2.2 1 1 rfl, hE'.2.2 2 1 rfl, hE'.2.2 3 1 rfl⟩

/-! ### the whole model -/

/-- **characterisation of `extFromBytes` in the field** -/
theorem extFromBytes_char (s : Bytes) (hs : s.length = 32) :
    ∃ u v : F, u = (((leNat s % 2 ^ 255 : ℕ) : ℕ) : F) ^ 2 - 1 ∧ v = E25519.d * (((leNat s % 2 ^ 255 : ℕ) : ℕ) : F) ^ 2 + 1 ∧
      ((v * (cand u v) ^ 2 = u ∨ v * (cand u v) ^ 2 = -u) →
        ∃ (e : Ext) (x' : F), extFromBytes s = some e ∧ v * x' ^ 2 = u ∧ (x' ≠ 0 → x'.val % 2 = leNat s / 2 ^ 255) ∧
          R 2 e.X x' ∧ R 1 e.Y (((leNat s % 2 ^ 255 : ℕ) : ℕ) : F) ∧ R 1 e.Z 1 ∧
          R 1 e.T (x' * (((leNat s % 2 ^ 255 : ℕ) : ℕ) : F))) ∧
      (¬ (v * (cand u v) ^ 2 = u ∨ v * (cand u v) ^ 2 = -u) → extFromBytes s = none) := by
  obtain ⟨u, v, v3, hu, hv, hrel⟩ := head_spec s hs
  refine ⟨u, v, hu, hv, ?_⟩
  generalize (((leNat s % 2 ^ 255 : ℕ) : ℕ) : F) = y at hrel ⊢
  rw [extFromBytes_staged s hs]
  obtain ⟨m1, m2, m3⟩ := mid_spec hrel
  have tl : ∀ {r' : List L10} {x1 c1 : F}, v * x1 ^ 2 = u →
      fbMid (fbRun extended_FromBytes_A (fbRegs0 s)) = some r' →
      RegRel fbMT r' [x1, y, 1, 0, u, v, v3, v * cand u v ^ 2, c1, E25519.d, 2 * E25519.d, E25519.i] →
      ∃ (e : Ext) (x' : F), (fbMid (fbRun extended_FromBytes_A (fbRegs0 s))).map (fbTail s) = some e ∧ v * x' ^ 2 = u ∧
        (x' ≠ 0 → x'.val % 2 = leNat s / 2 ^ 255) ∧ R 2 e.X x' ∧ R 1 e.Y y ∧ R 1 e.Z 1 ∧ R 1 e.T (x' * y) := by
    intro r' x1 c1 hx1 hm hr
    obtain ⟨x', hx', hpar, rX, rY, rZ, rT⟩ := tail_spec s hs hr
    refine ⟨fbTail s r', x', by rw [hm]; rfl, ?_, hpar, rX, rY, rZ, rT⟩
    rcases hx' with e | e <;> rw [e]
    · exact hx1
    · rw [neg_sq]; exact hx1
  constructor
  · intro hsq
    by_cases h0 : v * cand u v ^ 2 - u = 0
    · obtain ⟨r', hm, hr⟩ := m1 h0
      exact tl (sub_eq_zero.1 h0) hm hr
    · have h1 : v * cand u v ^ 2 + u = 0 := by
        rcases hsq with e | e
        · exact absurd (sub_eq_zero.2 e) h0
        · rw [e]; ring
      obtain ⟨r', hm, hr⟩ := m2 h0 h1
      have hv0 : v ≠ 0 := by
        intro hz
        apply h0
        have : u = 0 := by
          have := h1
          rw [hz] at this
          simpa using this
        rw [hz, this]; ring
      exact tl (sqrt_fix u v hv0 (eq_neg_of_add_eq_zero_left h1)) hm hr
  · intro hn
    have h0 : v * cand u v ^ 2 - u ≠ 0 := fun h => hn (Or.inl (sub_eq_zero.1 h))
    have h1 : v * cand u v ^ 2 + u ≠ 0 := fun h => hn (Or.inr (eq_neg_of_add_eq_zero_left h))
    rw [m3 h0 h1]
    rfl

end Dos.Ge

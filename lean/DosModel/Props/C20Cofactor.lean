/-
C20 (follow-up; seeded C20g-1) — the bundled `Verify` is the COFACTORLESS check S•B = R + h•A in the full curve group
(`C20Lawful.verify_sound_code`), as crypto/ed25519's is.  A verifier that multiplies both sides by the cofactor accepts
more: the key holder's signature with a torsion point T added to the commitment, R′ = k•B + T, h′ = H(R′‖A‖m),
S = k + h′·x, satisfies c•(S•B) = c•(R′ + h′•A) whenever c•T = 0, but NOT S•B = R′ + h′•A unless T = 0.  So for every lawful
group record with a non-trivial c-torsion element the model's `verify` rejects that signature while the cofactored equation
holds — the two verifiers would disagree exactly on the `vfy r<j>` cases of the correspondence run (go/props/c20/torsion.go).
-/
import Mathlib.Tactic.Abel
import DosModel.Props.C20
import DosModel.Model.SchnorrHist
import DosModel.Proofs.ComposePrimes

namespace Dos.Props.C20Cofactor
open Dos Dos.Ed25519 Dos.Schnorr Dos.SchnorrHist

variable {G : Type} [AddCommGroup G]

/-- **cofactorless rejects, cofactored would accept**: for T ≠ 0 with c•T = 0 the repaired `Verify` does not accept the
shifted signature, although the verification equation multiplied by c holds -/
theorem torsion_shift_separates_the_verifiers {g : Grp G} (L : Lawful g) (H : Bytes → Bytes) (x k c : ℕ) (T : G)
    (hT : T ≠ 0) (hc : c • T = 0) (msg : Bytes) :
    verify g H (g.smul x g.base) msg (shiftedSign g H x k T msg) ≠ .ok ()
    ∧ ∃ R, g.dec ((shiftedSign g H x k T msg).take 32) = some R
        ∧ c • (leNat ((shiftedSign g H x k T msg).drop 32) • g.base)
            = c • (R + challenge g H (g.smul x g.base) R msg • g.smul x g.base) := by
  have hadd : g.add (g.smul k g.base) T = g.smul k g.base + T := L.add_eq _ _
  have hs : shiftedSign g H x k T msg = g.enc (g.smul k g.base + T) ++
      natLE 32 ((k + x * challenge g H (g.smul x g.base) (g.smul k g.base + T) msg % ell) % ell) := by
    unfold shiftedSign; simp only [hadd]
  rw [hs]
  set R := g.smul k g.base + T with hR
  set h := challenge g H (g.smul x g.base) R msg with hh
  have hS : (k + x * h % ell) % ell < ell := Nat.mod_lt _ (by decide)
  have htake : (g.enc R ++ natLE 32 ((k + x * h % ell) % ell)).take 32 = g.enc R := take_enc_append L _ _
  have hdrop : (g.enc R ++ natLE 32 ((k + x * h % ell) % ell)).drop 32 = natLE 32 ((k + x * h % ell) % ell) := drop_enc_append L _ _
  have hle : leNat ((g.enc R ++ natLE 32 ((k + x * h % ell) % ell)).drop 32) = (k + x * h % ell) % ell := by
    rw [hdrop, leNat_natLE_of_lt 32 _ (Nat.lt_trans hS ell_lt)]
  have heq : ((k + x * h % ell) % ell) • g.base = g.smul k g.base + h • g.smul x g.base := by
    rw [L.smul_eq, L.smul_eq]
    exact response_eq g.base L.order k x _
  constructor
  · intro hv
    rw [Props.C20.verify_sound L] at hv
    obtain ⟨_, R', hdec, _, he⟩ := hv
    rw [htake, L.dec_enc] at hdec
    cases hdec
    rw [hle, heq, ← hh, hR] at he
    apply hT
    have e3 : (g.smul k g.base + h • g.smul x g.base) + T = (g.smul k g.base + h • g.smul x g.base) + 0 := by
      rw [add_zero]
      calc (g.smul k g.base + h • g.smul x g.base) + T = g.smul k g.base + T + h • g.smul x g.base := by abel
        _ = g.smul k g.base + h • g.smul x g.base := he.symm
    exact add_left_cancel e3
  · refine ⟨R, by rw [htake, L.dec_enc], ?_⟩
    rw [hle, heq, ← hh, hR, smul_add, smul_add, smul_add, hc]
    abel

/-- non-vacuity: Z/ℓ with B = 1, the shift T = 1 is killed by c = ℓ and is not zero -/
example (H : Bytes → Bytes) (msg : Bytes) :
    verify dlogGrp H (dlogGrp.smul 5 dlogGrp.base) msg (shiftedSign dlogGrp H 5 7 (1 : ZMod ell) msg) ≠ .ok () := by
  have := Dos.Compose.fact_ell
  exact (torsion_shift_separates_the_verifiers dlogGrp_lawful H 5 7 ell (1 : ZMod ell) one_ne_zero (by simp) msg).1

end Dos.Props.C20Cofactor

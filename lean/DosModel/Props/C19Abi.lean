/-
C19, ABI layer — "sent … with exactly the intended method and arguments (signature as big-endian x, y
coordinates, group key as the four G2 coordinates in contract order, request id and traffic type preserved)"
down to the BYTES of the transaction's `Data`.

`Abi.encodeRaw` / `Abi.decodeArgs` model go-ethereum's `abi.Arguments.Pack` / `UnpackValues` for the types that
occur (Model/Abi.lean); `CallData.Call.data` is the call data of each state-changing call of the request queue
(Model/CallData.lean).  Theorems for ALL values: decoding an encoding gives the values back, encodings are a
multiple of 32 bytes long, static arguments sit at their head offsets, distinct argument lists give distinct call
data; the concrete layout of the call data of each method, linked to the marshalling theorems of Props/C19.lean;
4-byte selectors computed by a Keccak-256 the kernel evaluates; and `decide` theorems that tie the model's
assumptions to facts regenerated from the bindings and the call sites on every run (Gen/AbiFacts.lean).
The tie to the real bytes: every `seq` case of the correspondence run compares `tx.Data()` of the raw transaction
the real adaptor produced with `Call.data` byte for byte.  Helper lemmas: Proofs/Abi*.lean.
-/
import DosModel.Proofs.Abi
import DosModel.Proofs.AbiLayout
import DosModel.Proofs.AbiDecode
import DosModel.Proofs.AbiFacts
import DosModel.Proofs.Nonce
import DosModel.Props.C19

namespace Dos.Props.C19Abi
open Dos Dos.Abi Dos.CallData Dos.ReqLoop Dos.AbiCheck

/-! ### the encoding, for all types of the fragment and all values -/

/-- **decode ∘ encode = id.** For every list of well-formed types and every well-typed argument list whose encoding
fits a Go slice, go-ethereum's decoder applied to the encoding returns exactly the arguments. -/
theorem abi_roundtrip (tys : List AbiType) (vs : List AbiVal) (hw : tysWf tys = true) (hv : wtArgs tys vs = true)
    (hB : (encodeRaw tys vs).length < 2 ^ 63) : decodeArgs tys (encodeRaw tys vs) = .ok vs :=
  decode_encode tys vs hw hv hB

example : decodeArgs [.elem (.uint 256), .elem (.uint 8), .bytes, .sarray (.uint 256) 2]
    (encodeRaw [.elem (.uint 256), .elem (.uint 8), .bytes, .sarray (.uint 256) 2]
      [.elem (.num (2 ^ 256 - 1)), .elem (.num 255), .blob [1, 2, 3], .arr [.num 0, .num (2 ^ 255)]])
    = .ok [.elem (.num (2 ^ 256 - 1)), .elem (.num 255), .blob [1, 2, 3], .arr [.num 0, .num (2 ^ 255)]] := by decide +kernel

/-- the same through `Arguments.Pack`'s own error check -/
theorem abi_encodeArgs_roundtrip (tys : List AbiType) (vs : List AbiVal) (bs : Bytes) (hw : tysWf tys = true)
    (h : encodeArgs tys vs = some bs) (hB : bs.length < 2 ^ 63) : decodeArgs tys bs = .ok vs := by
  simp only [encodeArgs] at h
  split at h
  · rename_i hv
    cases h
    exact decode_encode tys vs hw hv hB
  · cases h

example : encodeArgs [.elem .address, .darray .address] [.elem (.num 7), .arr [.num 1, .num (2 ^ 160 - 1)]] ≠ none := by
  decide +kernel

/-- **length.** Every encoding is a whole number of 32-byte words. -/
theorem abi_length_multiple_of_32 (tys : List AbiType) (vs : List AbiVal) (hw : tysWf tys = true)
    (hv : wtArgs tys vs = true) : (encodeRaw tys vs).length % 32 = 0 :=
  encodeRaw_length_mod tys vs hw hv

example : (encodeRaw [.string, .elem .bool] [.blob [104, 105], .elem (.num 1)]).length = 128 := by decide +kernel

/-- **head offsets.** A static argument occupies exactly the bytes from the sum of the head sizes before it
(`headOffset`), whatever dynamic arguments surround it: its words, in order. -/
theorem abi_static_argument_at_head_offset (tys : List AbiType) (vs : List AbiVal) (k : Nat) (t : AbiType)
    (v : AbiVal) (hw : tysWf tys = true) (hv : wtArgs tys vs = true) (ht : tys[k]? = some t) (hvk : vs[k]? = some v)
    (hs : t.isDynamic = false) :
    ((encodeRaw tys vs).drop (headOffset tys k)).take t.headSize = encStatic v :=
  encodeRaw_static_slot tys vs k t v hw hv ht hvk hs

example : ((encodeRaw [.bytes, .sarray (.uint 256) 2] [.blob [9], .arr [.num 5, .num 6]]).drop 32).take 64
    = natBE 32 5 ++ natBE 32 6 := by decide +kernel

/-- **injectivity.** Two well-typed argument lists with the same encoding are the same list. -/
theorem abi_injective (tys : List AbiType) (vs ws : List AbiVal) (hw : tysWf tys = true)
    (hv : wtArgs tys vs = true) (hv' : wtArgs tys ws = true) (hB : (encodeRaw tys vs).length < 2 ^ 63)
    (h : encodeRaw tys vs = encodeRaw tys ws) : vs = ws := by
  have h1 := decode_encode tys vs hw hv hB
  have h2 := decode_encode tys ws hw hv' (by rw [← h]; exact hB)
  rw [h, h2] at h1
  cases h1; rfl

example : encodeRaw [.elem (.uint 256), .elem (.uint 256)] [.elem (.num 1), .elem (.num 2)]
    ≠ encodeRaw [.elem (.uint 256), .elem (.uint 256)] [.elem (.num 2), .elem (.num 1)] := by decide +kernel

/-- distinct argument lists of one method give distinct call data (any hash) -/
theorem calldata_injective (hash : Bytes → Bytes) (name : String) (tys : List AbiType) (vs ws : List AbiVal)
    (hw : tysWf tys = true) (hv : wtArgs tys vs = true) (hv' : wtArgs tys ws = true)
    (hB : (encodeRaw tys vs).length < 2 ^ 63) (h : callData hash name tys vs = callData hash name tys ws) :
    vs = ws := by
  simp only [callData, encodeArgs, hv, hv', if_true, Option.map_some, Option.some.injEq] at h
  exact abi_injective tys vs ws hw hv hv' hB (List.append_cancel_left h)

example : callData (fun _ => [1, 2, 3, 4]) "reveal" CallData.reveal.types [.elem (.num 1), .elem (.num 2)]
    = some ([1, 2, 3, 4] ++ natBE 32 1 ++ natBE 32 2) := by decide +kernel

/-! ### the call data of each call -/

/-- **updateRandomness.** The call data is the selector followed by the 64 signature bytes, unchanged:
x big-endian in bytes 4..35, y big-endian in bytes 36..67, leading zeros included. -/
theorem updateRandomness_data (hash : Bytes → Bytes) (sig : Bytes) (h : sig.length = 64) :
    (Call.updateRandomness sig).data hash
      = selector hash "updateRandomness" [.sarray (.uint 256) 2] ++ sig := by
  obtain ⟨x, y, hxy, hw⟩ := Props.C19.signature_bytes_preserved sig h
  simp only [Call.data, Call.method, Call.args, CallData.updateRandomness, Method.types, List.map_cons, List.map_nil,
    hxy, encodeRaw, encGo, AbiType.isDynamic, Bool.false_eq_true, if_false, encStatic, encWords, encEVal,
    List.flatten_cons, List.flatten_nil, List.append_nil]
  simp only [abiWord] at hw
  rw [hw]

example : (Call.updateRandomness (natBE 32 1 ++ natBE 32 (2 ^ 255))).data (fun _ => [9, 9, 9, 9])
    = [9, 9, 9, 9] ++ natBE 32 1 ++ natBE 32 (2 ^ 255) := by decide +kernel

/-- **registerGroupPubKey.** Selector, group id, then the four coordinates in the order handed in. -/
theorem registerGroupPubKey_data (hash : Bytes → Bytes) (id k0 k1 k2 k3 : Nat) :
    (Call.registerGroupPubKey id k0 k1 k2 k3).data hash
      = selector hash "registerGroupPubKey" [.elem (.uint 256), .sarray (.uint 256) 4]
        ++ natBE 32 id ++ natBE 32 k0 ++ natBE 32 k1 ++ natBE 32 k2 ++ natBE 32 k3 := by
  simp [Call.data, Call.method, Call.args, CallData.registerGroupPubKey, Method.types, CallData.u256, CallData.n,
    encodeRaw, encGo, AbiType.isDynamic, encStatic, encWords, encEVal]

example : (Call.registerGroupPubKey 7 1 2 3 4).data (fun _ => [0, 0, 0, 0])
    = [0, 0, 0, 0] ++ natBE 32 7 ++ natBE 32 1 ++ natBE 32 2 ++ natBE 32 3 ++ natBE 32 4 := by decide +kernel

/-- … and with the coordinates `decodePubKey` reads from the marshalled group key `0x01 ‖ x.i ‖ x.r ‖ y.i ‖ y.r`:
the call data after the group id is the 128 coordinate bytes of the marshalled point, in the contract's order. -/
theorem registerGroupPubKey_data_of_marshalled_key (hash : Bytes → Bytes) (id xi xr yi yr : Nat)
    (h1 : xi < 2 ^ 256) (h2 : xr < 2 ^ 256) (h3 : yi < 2 ^ 256) (h4 : yr < 2 ^ 256) :
    ∃ k0 k1 k2 k3, decodePubKey (marshalG2 xi xr yi yr) = some [k0, k1, k2, k3] ∧
      (Call.registerGroupPubKey id k0 k1 k2 k3).data hash
        = selector hash "registerGroupPubKey" [.elem (.uint 256), .sarray (.uint 256) 4]
          ++ natBE 32 id ++ (marshalG2 xi xr yi yr).drop 1 := by
  refine ⟨xi, xr, yi, yr, Props.C19.marshal_roundtrip_pubkey xi xr yi yr h1 h2 h3 h4, ?_⟩
  rw [registerGroupPubKey_data]
  simp [marshalG2, List.append_assoc]

example : ((Call.registerGroupPubKey 7 1 2 3 4).data (fun _ => [0, 0, 0, 0])).length = 4 + 5 * 32 := by decide +kernel

/-- **triggerCallback (DataReturn).** Selector; request id; traffic type (the low byte of `Index`); the offset
160 of the result; x; y; then the result: its length and its bytes padded with zeros to a multiple of 32. -/
theorem triggerCallback_data (hash : Bytes → Bytes) (sig rid content : Bytes) (index : Nat) :
    (Call.dataReturn sig rid index content).data hash
      = selector hash "triggerCallback" [.elem (.uint 256), .elem (.uint 8), .bytes, .sarray (.uint 256) 2]
        ++ natBE 32 (requestId rid) ++ natBE 32 (index % 256) ++ natBE 32 160
        ++ natBE 32 (toBigInt sig).1 ++ natBE 32 (toBigInt sig).2
        ++ natBE 32 content.length ++ pad32 content := by
  simp [Call.data, Call.method, Call.args, CallData.triggerCallback, Method.types, CallData.u256, CallData.n,
    encodeRaw, encGo, AbiType.isDynamic, encStatic, encWords, encEVal, encTail, headLen, AbiType.headSize,
    trafficType, List.append_assoc]

example : ((Call.dataReturn [] [] 0 []).data (fun _ => [0, 0, 0, 0])).length = 4 + 6 * 32 := by decide +kernel

/-- … with a 64-byte signature and a request id of at most 32 bytes: the signature bytes sit unchanged at bytes
100..163 of the call data and the request id is the first argument word, left-padded -/
theorem triggerCallback_data_signature (hash : Bytes → Bytes) (sig rid content : Bytes) (index : Nat)
    (h : sig.length = 64) :
    ∃ pre post, (Call.dataReturn sig rid index content).data hash = pre ++ sig ++ post ∧
      pre.length = (selector hash "triggerCallback" [.elem (.uint 256), .elem (.uint 8), .bytes, .sarray (.uint 256) 2]).length + 96 := by
  obtain ⟨x, y, hxy, hw⟩ := Props.C19.signature_bytes_preserved sig h
  refine ⟨selector hash "triggerCallback" [.elem (.uint 256), .elem (.uint 8), .bytes, .sarray (.uint 256) 2]
      ++ natBE 32 (requestId rid) ++ natBE 32 (index % 256) ++ natBE 32 160,
    natBE 32 content.length ++ pad32 content, ?_, ?_⟩
  · rw [triggerCallback_data, hxy]
    simp only [abiWord] at hw
    simp only [List.append_assoc]
    rw [← hw]
    simp only [List.append_assoc]
  · simp [natBE_len]

example : (Call.dataReturn (natBE 32 5 ++ natBE 32 6) [0xab] 257 [1, 2, 3]).data (fun _ => [0, 0, 0, 0])
    = [0, 0, 0, 0] ++ natBE 32 0xab ++ natBE 32 1 ++ natBE 32 160 ++ natBE 32 5 ++ natBE 32 6 ++ natBE 32 3
      ++ ([1, 2, 3] ++ List.replicate 29 0) := by decide +kernel

/-- **commit.** Selector, campaign id, the 32 commitment bytes unchanged. -/
theorem commit_data (hash : Bytes → Bytes) (cid : Nat) (h : Bytes) (hl : h.length = 32) :
    (Call.commit cid h).data hash
      = selector hash "commit" [.elem (.uint 256), .elem (.fixedBytes 32)] ++ natBE 32 cid ++ h := by
  simp [Call.data, Call.method, Call.args, CallData.commit, Method.types, CallData.u256, CallData.n,
    encodeRaw, encGo, AbiType.isDynamic, encStatic, encEVal, hl]

example : (Call.commit 1 (natBE 32 (2 ^ 255))).data (fun _ => [5, 5, 5, 5])
    = [5, 5, 5, 5] ++ natBE 32 1 ++ natBE 32 (2 ^ 255) := by decide +kernel

/-- **reveal.** Selector, campaign id, the secret as one big-endian word — the word whose hash `commit` carried
(`commit_matches_reveal` of Props/C19.lean). -/
theorem reveal_data (hash : Bytes → Bytes) (cid secret : Nat) :
    (Call.reveal cid secret).data hash
      = selector hash "reveal" [.elem (.uint 256), .elem (.uint 256)] ++ natBE 32 cid ++ u256Bytes secret := by
  simp [Call.data, Call.method, Call.args, CallData.reveal, Method.types, CallData.u256, CallData.n,
    encodeRaw, encGo, AbiType.isDynamic, encStatic, encEVal, u256Bytes]

example : (Call.reveal 3 1).data (fun _ => [7, 7, 7, 7]) = [7, 7, 7, 7] ++ natBE 32 3 ++ natBE 32 1 := by decide +kernel

/-- calls without arguments are the bare selector -/
theorem registerNewNode_data (hash : Bytes → Bytes) :
    Call.registerNewNode.data hash = selector hash "registerNewNode" [] := by
  simp [Call.data, Call.method, Call.args, CallData.registerNewNode, Method.types, encodeRaw, encGo, headLen]

example : Call.registerNewNode.data (fun _ => [1, 2, 3, 4, 5]) = [1, 2, 3, 4] := by decide

/-- a negative `int64` handed to `StartCommitReveal` is packed as its 256-bit two's complement -/
theorem startCommitReveal_negative_is_twos_complement : intWord (-1) = 2 ^ 256 - 1 ∧ intWord (-(2 ^ 63)) = 2 ^ 256 - 2 ^ 63 := by
  decide +kernel

example : (Call.startCommitReveal (-1) 0 1 2).args = [n (2 ^ 256 - 1), n 0, n 1, n 2] := by decide +kernel

/-! ### selectors -/

/-- **selectors.** The first four bytes of Keccak-256 of the model's signature of each of the ten queue methods,
computed by the kernel, are the ids abigen quoted in the bindings' doc comments (regenerated), and pairwise
different. -/
theorem selectors_match_bindings :
    queueMethods.map selectorHex = queueMethods.map docSelector ∧ (queueMethods.map selectorHex).Nodup := by
  decide +kernel

example : selectorHex CallData.updateRandomness = "09ac86d3" ∧ selectorHex CallData.triggerCallback = "74ad3a06" := by
  decide +kernel

/-! ### regenerated facts (Gen/AbiFacts.lean, Gen/ReqLoopFacts.lean) -/

/-- the ABI embedded in the bindings declares each of the ten methods exactly as the model assumes: input names,
types, order; once; non-payable -/
theorem abi_methods_match_model : queueMethods.all methodMatches = true := by decide +kernel

example : methodMatches CallData.triggerCallback = true := by decide +kernel

/-- the Transactor and Session methods of the bindings hand their parameters on in order, each of the Go type of
the ABI input in its position, under the ABI method name of the model -/
theorem bindings_forward_arguments_in_order : queueMethods.all bindingForwards = true := by decide +kernel

example : (transactorOf CallData.triggerCallback).map (·.passed) = some ["requestId", "trafficType", "result", "sig"] := by
  decide +kernel

/-- each adaptor method has one call site, on the session of the right contract at the request's endpoint index,
and feeds every ABI slot from the Go expression the model assumes (`Call.args`) -/
theorem call_sites_match_model : queueMethods.all callSiteMatches = true := by decide +kernel

example : slotSources CallData.triggerCallback
    = [("requestId", "requestId"), ("trafficType", "trafficType"), ("result", "result"), ("sig", "sig")] := by decide +kernel

/-- … and those expressions are computed as `Call.args` says: `sig = [2]*big.Int{x, y}` with
`x, y := sign.ToBigInt()`, `requestId = SetBytes(sign.RequestId)`, `trafficType = uint8(sign.Index)`,
`result = sign.Content`, `groupId = idPubkey[0]`, `pubKey = idPubkey[1:]` -/
theorem call_site_arguments_computed_as_modelled :
    prepOf "UpdateRandomness" = ["proxies := e.proxies", "x, y := sign.ToBigInt()", "sig := [2]*big.Int{x, y}"] ∧
    prepOf "DataReturn" = ["proxies := e.proxies", "requestId := new(big.Int).SetBytes(sign.RequestId)",
      "trafficType := uint8(sign.Index)", "result := sign.Content", "x, y := sign.ToBigInt()", "sig := [2]*big.Int{x, y}"] ∧
    prepOf "RegisterGroupPubKey" = ["proxies := e.proxies", "groupId := idPubkey[0]", "var pubKey [4]*big.Int",
      "copy(pubKey[:], idPubkey[1:])"] ∧
    prepOf "SetGroupSize" = ["proxies := e.proxies", "groupSize := new(big.Int).SetUint64(g)"] ∧
    prepOf "Commit" = ["crs := e.crs"] ∧ prepOf "Reveal" = ["crs := e.crs"] := by decide +kernel

example : prepOf "RegisterNewNode" = ["proxies := e.proxies"] := by decide +kernel

/-! ### the rest of the transaction -/

/-- **envelope.** What `BoundContract.transact` puts around the call data with the session options `Connect`
builds: no value; the nonce the contacted endpoint reports as pending; the configured gas limit; the configured
gas price or, if none is configured, the endpoint's suggestion; the configured chain id; addressed to the
contract the method belongs to. -/
theorem envelope_fields (m : Method) (cfg : Config) (ep : EndpointView) :
    (envelope m cfg ep).value = 0 ∧ (envelope m cfg ep).nonce = ep.pendingNonce ∧
    (envelope m cfg ep).gas = cfg.gasLimit ∧ (envelope m cfg ep).chainId = cfg.chainId ∧
    (cfg.gasPrice ≠ 0 → (envelope m cfg ep).price = cfg.gasPrice) ∧
    (cfg.gasPrice = 0 → (envelope m cfg ep).price = ep.suggestedPrice) ∧
    ((envelope m cfg ep).toProxy = true ↔ m.contract = .proxy) := by
  refine ⟨rfl, rfl, rfl, rfl, ?_, ?_, ?_⟩
  · intro h; simp [envelope, h]
  · intro h; simp [envelope, h]
  · simp [envelope]

example : envelope CallData.commit ⟨5000000, 0, 56⟩ ⟨7, 2000000000⟩
    = { toProxy := false, value := 0, nonce := 7, gas := 5000000, price := 2000000000, chainId := 56 } := by decide

/-- **nonces across the queue.** The adaptor never chooses a nonce: each send asks the contacted endpoint for its
pending count.  With an endpoint that counts an accepted transaction as pending (and nothing else), for ANY history
of calls on one adaptor — refused sends, failover, cancelled endpoints in between — the nonces of the transactions
endpoint `i` accepted are consecutive from the count it reported first: none reused, none skipped. -/
theorem accepted_nonces_consecutive (cfg : Config) (hist : List (Method × List Outcome)) (dead : List Nat)
    (views : List EndpointView) (i : Nat) (v : EndpointView) (hv : views[i]? = some v) :
    ∃ k, acceptedNonces cfg dead views hist i = List.range' v.pendingNonce k :=
  acceptedNonces_consecutive cfg hist dead views i v hv

example : acceptedNonces ⟨5000000, 1, 1⟩ [] [⟨7, 1⟩, ⟨8, 1⟩]
    [(CallData.registerNewNode, [.revert, .accept]), (CallData.registerNewNode, [.accept, .accept]),
     (CallData.reveal, [.otherErr, .accept]), (CallData.commit, [.accept, .accept])] 0 = [7, 8] ∧
  acceptedNonces ⟨5000000, 1, 1⟩ [] [⟨7, 1⟩, ⟨8, 1⟩]
    [(CallData.registerNewNode, [.revert, .accept]), (CallData.registerNewNode, [.accept, .accept]),
     (CallData.reveal, [.otherErr, .accept]), (CallData.commit, [.accept, .accept])] 1 = [8] := by decide

/-- the transaction an endpoint accepted is one the loop sent to it, and a send that is refused (or not made)
leaves that endpoint's pending count where it was -/
theorem nonce_moves_only_when_accepted (r : CallResult) (os : List Outcome) (views : List EndpointView) (i : Nat) :
    (acceptedBy r os = some i → i ∈ r.contacted ∧ os[i]? = some Outcome.accept) ∧
    (∀ j, acceptedBy r os = some j → j ≠ i → (bumpNonce views j)[i]? = views[i]?) := by
  refine ⟨acceptedBy_contacted, ?_⟩
  intro j _ hji
  exact bumpNonce_other views i j (Ne.symm hji)

example : (sendSeq ⟨800000, 0, 56⟩ [] [⟨7, 100⟩, ⟨9, 200⟩]
    [(CallData.registerNewNode, [.nonceErr, .accept]), (CallData.registerNewNode, [.accept, .accept])]).map
      (fun p => p.2.map (fun t => (t.1, t.2.nonce, t.2.price)))
    = [[(0, 7, 100), (1, 9, 200)], [(1, 10, 200)]] := by decide

/-- `Connect` (regenerated): the session options are built from the key and the configured chain id, get the gas
limit, optionally the gas price and a context — and nothing else: no statement sets a nonce, a value or fee caps
(so `transact` asks the endpoint for the pending nonce and sends value 0 as a legacy transaction); the bindings are
built on the addresses the bridge contract returns -/
theorem connect_leaves_nonce_and_value_to_the_endpoint :
    Dos.Gen.ReqLoopFacts.connectTransactor =
      ["auth, err := bind.NewKeyedTransactorWithChainID(e.key.PrivateKey, e.chainID)", "auth.GasLimit = e.gasLimit",
       "if e.gasPrice != 0", "auth.GasPrice = new(big.Int).SetUint64(e.gasPrice)", "auth.Context = ctx",
       "auth, err := bind.NewKeyedTransactorWithChainID(e.key.PrivateKey, e.chainID)", "auth.GasLimit = e.gasLimit",
       "if e.gasPrice != 0", "auth.GasPrice = new(big.Int).SetUint64(e.gasPrice)", "auth.Context = ctx"] ∧
    Dos.Gen.AbiFacts.connectBindings =
      ["bridge, err := dosbridge.NewDosbridge(e.bridgeAddr, rpcClient)",
       "proxyAddr, err := bridge.GetProxyAddress(&bind.CallOpts{Context: dialCtx})",
       "commitRevealAddr, err := bridge.GetCommitRevealAddress(&bind.CallOpts{Context: dialCtx})",
       "p, err := dosproxy.NewDosproxy(proxyAddr, rpcClient)",
       "cr, err := commitreveal.NewCommitreveal(commitRevealAddr, rpcClient)",
       "ws_p, err := dosproxy.NewDosproxy(proxyAddr, wsClient)",
       "ws_cr, err := commitreveal.NewCommitreveal(commitRevealAddr, wsClient)"] := by decide +kernel

example : Dos.Gen.ReqLoopFacts.connectTransactor.length = 10 ∧ Dos.Gen.AbiFacts.connectBindings.length = 7 := by decide

end Dos.Props.C19Abi

/-
C20 (round 5) — the public `kyber.Scalar` wrappers of group/edwards25519/scalar.go (Add, Sub, Neg, Mul, Inv, Div, Set,
Equal, setInt, SetBytes, MarshalBinary, UnmarshalBinary), as THEOREMS over the translated limb routines
(`Model/Ed25519ScalarApi.lean`: each wrapper is its method body over Gen.Ed25519Sc.scAdd / scSub / scMul; the bodies are
pinned as source text by `C20Pins.scalar_wrappers_source_pinned`).  Until round 5 the wrappers were checked
differentially only (`api`, `ali`, `apx` cases).

For ALL 32-byte operands — raw bytes as `UnmarshalBinary` stores them, reduced or not:
  * Add / Sub / Neg / Mul return the canonical 32-byte encoding of (a ± b) mod ℓ, −a mod ℓ, a·b mod ℓ;
  * Inv returns a^(ℓ−2) mod ℓ (the 256 square-and-multiply rounds over the bits of lMinus2, by induction), which is the
    inverse whenever ℓ ∤ a (Fermat, ℓ prime is proved) and 0 for a ≡ 0;
  * Div returns a·b^(ℓ−2) mod ℓ, hence (a / b)·b ≡ a when ℓ ∤ b;
  * every result is canonical: MarshalBinary returns the stored bytes unchanged and UnmarshalBinary reads them back.
-/
import Mathlib.FieldTheory.Finite.Basic
import DosModel.Proofs.Ed25519Api
import DosModel.Proofs.Ed25519Enc
import DosModel.Proofs.ComposePrimes

namespace Dos.Props.C20Api
open Dos Dos.Ed25519 Dos.Ed25519.Api Dos.Gen.Ed25519Sc

theorem canonical_of (r : Bytes) (hl : r.length = 32) (hlt : leNat r < ell) :
    marshal r = r ∧ unmarshal (marshal r) = .ok r := by
  have h : scMarshal r = r := (scMarshal_eq_self_iff r).mpr ⟨hl, hlt⟩
  refine ⟨h, ?_⟩
  show scUnmarshal (scMarshal r) = .ok r
  rw [h]; simp [scUnmarshal, hl]

example : marshal one = one := (canonical_of one (by decide) (by decide)).1

/-- **Add, Mul**: canonical encodings of (a + b) mod ℓ and a·b mod ℓ -/
theorem scalar_add_mul_correct (a b : Bytes) (ha : a.length = 32) (hb : b.length = 32) :
    ((add a b).length = 32 ∧ leNat (add a b) = (leNat a + leNat b) % ell ∧ marshal (add a b) = add a b)
    ∧ ((mul a b).length = 32 ∧ leNat (mul a b) = (leNat a * leNat b) % ell ∧ marshal (mul a b) = mul a b) := by
  have hadd : leNat (add a b) = (leNat a + leNat b) % ell := by
    have h := scAdd_full a b ha hb
    exact_mod_cast h
  have hmul : leNat (mul a b) = (leNat a * leNat b) % ell := scMul_val a b ha hb
  have hpos : 0 < ell := by decide
  exact ⟨⟨scAdd_length a b, hadd, (canonical_of _ (scAdd_length a b) (hadd ▸ Nat.mod_lt _ hpos)).1⟩,
    ⟨scMul_length a b, hmul, (canonical_of _ (scMul_length a b) (hmul ▸ Nat.mod_lt _ hpos)).1⟩⟩

example : leNat (add one one) = (leNat one + leNat one) % ell :=
  (scalar_add_mul_correct one one (by decide) (by decide)).1.2.1

theorem scSub_lt (x y : Bytes) (hx : x.length = 32) (hy : y.length = 32) : leNat (scSub shrI x y) < ell := by
  have h := scSub_full x y hx hy
  have hp : (0 : Int) < (ell : Int) := by exact_mod_cast (by decide : 0 < ell)
  have h2 := Int.emod_lt_of_pos ((leNat x : Int) - leNat y) hp
  rw [← h] at h2
  exact_mod_cast h2

example : leNat (scSub shrI one one) < ell := scSub_lt one one (by decide) (by decide)

/-- **Sub, Neg**: canonical encodings of (a − b) mod ℓ and −a mod ℓ (the non-negative representatives) -/
theorem scalar_sub_neg_correct (a b : Bytes) (ha : a.length = 32) (hb : b.length = 32) :
    ((sub a b).length = 32 ∧ (leNat (sub a b) : Int) = ((leNat a : Int) - leNat b) % (ell : Int)
      ∧ marshal (sub a b) = sub a b)
    ∧ ((neg a).length = 32 ∧ (leNat (neg a) : Int) = (-(leNat a : Int)) % (ell : Int) ∧ marshal (neg a) = neg a) := by
  have hz : zero.length = 32 := List.length_replicate
  have hn : (leNat (scSub shrI zero a) : Int) = (-(leNat a : Int)) % (ell : Int) := by
    have h := scSub_full zero a hz ha
    rw [zero_val, Nat.cast_zero, zero_sub] at h
    exact h
  exact ⟨⟨scSub_length a b, scSub_full a b ha hb, (canonical_of _ (scSub_length a b) (scSub_lt a b ha hb)).1⟩,
    ⟨scSub_length zero a, hn, (canonical_of _ (scSub_length zero a) (scSub_lt zero a hz ha)).1⟩⟩

example : (leNat (neg one) : Int) = (-(leNat one : Int)) % (ell : Int) :=
  (scalar_sub_neg_correct one one (by decide) (by decide)).2.2.1


theorem fermat_inv (x n : ℕ) (hn : n + 2 = ell) (hnd : ¬ ell ∣ x) : (x ^ n % ell * x) % ell = 1 := by
  have := Dos.Compose.fact_ell
  have hne : ((x : ℕ) : ZMod ell) ≠ 0 := by
    rw [Ne, ZMod.natCast_eq_zero_iff]; exact hnd
  have h1 : (((x ^ n % ell * x : ℕ)) : ZMod ell) = ((1 : ℕ) : ZMod ell) := by
    push_cast
    rw [ZMod.natCast_mod, Nat.cast_pow, ← pow_succ]
    have h := ZMod.pow_card_sub_one_eq_one hne
    have e : ell - 1 = n + 1 := by omega
    rw [e] at h
    simpa using h
  have h2 := (ZMod.natCast_eq_natCast_iff' _ _ _).1 h1
  rw [h2]
  exact Nat.mod_eq_of_lt (by omega)

example : ¬ ell ∣ 2 := by decide

theorem pow_of_multiple (c n : ℕ) (hn : n ≠ 0) : (ell * c) ^ n % ell = 0 := by
  rw [Nat.pow_mod, Nat.mul_mod_right, zero_pow hn, Nat.zero_mod]

example : (ell * 3) ^ 2 % ell = 0 := pow_of_multiple 3 2 (by decide)

/-- **Inv**: a^(ℓ−2) mod ℓ by the loop over the bits of `lMinus2`; the multiplicative inverse whenever ℓ ∤ a -/
theorem scalar_inv_correct (a : Bytes) (ha : a.length = 32) :
    (inv a).length = 32 ∧ leNat (inv a) = leNat a ^ (ell - 2) % ell ∧ marshal (inv a) = inv a
    ∧ (¬ ell ∣ leNat a → (leNat (inv a) * leNat a) % ell = 1)
    ∧ (ell ∣ leNat a → leNat (inv a) = 0) := by
  obtain ⟨hl, hv⟩ := inv_spec a ha
  have hpos : 0 < ell := by decide
  refine ⟨hl, hv, (canonical_of _ hl (by rw [hv]; exact Nat.mod_lt _ hpos)).1, ?_, ?_⟩
  · intro hnd
    rw [hv]
    exact fermat_inv (leNat a) (ell - 2) (by decide) hnd
  · intro hd
    rw [hv]
    obtain ⟨c, hc⟩ := hd
    rw [hc]
    exact pow_of_multiple c (ell - 2) (by decide)

example : (inv one).length = 32 := (scalar_inv_correct one (by decide)).1

/-- **Div**: a·b^(ℓ−2) mod ℓ; multiplied back by b it is a (mod ℓ) whenever ℓ ∤ b -/
theorem scalar_div_correct (a b : Bytes) (ha : a.length = 32) (hb : b.length = 32) :
    (div a b).length = 32 ∧ leNat (div a b) = (leNat a * (leNat b ^ (ell - 2) % ell)) % ell
    ∧ marshal (div a b) = div a b
    ∧ (¬ ell ∣ leNat b → (leNat (div a b) * leNat b) % ell = leNat a % ell) := by
  obtain ⟨hil, hiv, _, hinv, _⟩ := scalar_inv_correct b hb
  have hv : leNat (div a b) = (leNat a * (leNat b ^ (ell - 2) % ell)) % ell := by
    show leNat (scMul shrI a (inv b)) = _
    rw [scMul_val a (inv b) ha hil, hiv]
  have hpos : 0 < ell := by decide
  refine ⟨scMul_length _ _, hv, (canonical_of _ (scMul_length _ _) (hv ▸ Nat.mod_lt _ hpos)).1, ?_⟩
  intro hnd
  have h1 := hinv hnd
  rw [hiv] at h1
  rw [hv, Nat.mod_mul_mod, mul_assoc, Nat.mul_mod, h1, Nat.mul_one, Nat.mod_mod]

example : (div one one).length = 32 := (scalar_div_correct one one (by decide) (by decide)).1

/-- Set / Clone copy the bytes; Equal compares the RAW bytes (so ℓ and 0, two encodings of one value, are unequal);
setInt / SetBytes store canonical encodings -/
theorem scalar_plumbing_correct (a : Bytes) (n : Nat) (b : Bytes) :
    set a = a ∧ equal a a = true
    ∧ equal (natLE 32 ell) (natLE 32 0) = false
    ∧ marshal (setInt n) = setInt n ∧ leNat (setInt n) = n % ell
    ∧ marshal (setBytes b) = setBytes b ∧ leNat (setBytes b) = leNat b % ell := by
  have hpos : 0 < ell := by decide
  have hlt : ∀ m, leNat (natLE 32 (m % ell)) = m % ell := fun m =>
    leNat_natLE_of_lt 32 _ (Nat.lt_trans (Nat.mod_lt _ hpos) ell_lt)
  refine ⟨rfl, by simp [equal], by decide, ?_, hlt n, ?_, hlt (leNat b)⟩
  · exact (canonical_of _ (natLE_length _ _) (by rw [hlt]; exact Nat.mod_lt _ hpos)).1
  · exact (canonical_of _ (natLE_length _ _) (by rw [hlt]; exact Nat.mod_lt _ hpos)).1

example : leNat (setInt (ell + 5)) = 5 := by
  rw [(scalar_plumbing_correct [] (ell + 5) []).2.2.2.2.1]; decide

/-- **SetInt64, Pick, MarshalTo, UnmarshalFrom** (over the modelled external `mod.NewInt64` / `random.Int`): SetInt64 stores
the canonical encoding of v mod ℓ; whatever Pick stores is canonical, non-zero and below ℓ, and is the first acceptable block
of the stream; MarshalTo writes the canonical 32 bytes and UnmarshalFrom reads them back, consuming exactly 32 -/
theorem scalar_io_correct (v : Int) (draws : List Bytes) (a rest : Bytes) :
    (marshal (setInt64 v) = setInt64 v ∧ (leNat (setInt64 v) : Int) = v % (ell : Int))
    ∧ (∀ r, pick draws = some r → marshal r = r ∧ 0 < leNat r ∧ leNat r < ell)
    ∧ (marshalTo a).length = 32
    ∧ unmarshalFrom (marshalTo a ++ rest) = (32, .ok (marshal a)) := by
  have hpos : 0 < ell := by decide
  have hposI : (0 : Int) < (ell : Int) := by exact_mod_cast hpos
  have hlt : ∀ m, m < ell → leNat (natLE 32 m) = m := fun m hm => leNat_natLE_of_lt 32 _ (Nat.lt_trans hm ell_lt)
  have hml : (marshalTo a).length = 32 := natLE_length _ _
  refine ⟨⟨?_, ?_⟩, ?_, hml, ?_⟩
  · have h1 : (v % (ell : Int)).toNat < ell := by
      have := Int.emod_lt_of_pos v hposI
      have h0 := Int.emod_nonneg v (ne_of_gt hposI)
      omega
    exact (canonical_of _ (natLE_length _ _) (by show leNat (natLE 32 _) < ell; rw [hlt _ h1]; exact h1)).1
  · have h0 := Int.emod_nonneg v (ne_of_gt hposI)
    have h1 : (v % (ell : Int)).toNat < ell := by
      have := Int.emod_lt_of_pos v hposI
      omega
    show (leNat (natLE 32 _) : Int) = _
    rw [hlt _ h1]
    exact Int.toNat_of_nonneg h0
  · intro r hr
    unfold pick at hr
    have key : ∀ ds k, randomInt ds = some k → 0 < k ∧ k < ell := by
      intro ds
      induction ds with
      | nil => intro k h; cases h
      | cons b t ih =>
        intro k h
        unfold randomInt at h
        dsimp only at h
        split at h
        · cases h; assumption
        · exact ih k h
    cases hk : randomInt draws with
    | none => rw [hk] at hr; cases hr
    | some k =>
      rw [hk] at hr
      obtain ⟨k0, k1⟩ := key draws k hk
      cases hr
      have hm : k % ell = k := Nat.mod_eq_of_lt k1
      show marshal (natLE 32 (k % ell)) = natLE 32 (k % ell) ∧ 0 < leNat (natLE 32 (k % ell)) ∧ leNat (natLE 32 (k % ell)) < ell
      rw [hm]
      exact ⟨(canonical_of _ (natLE_length _ _) (by rw [hlt k k1]; exact k1)).1, by rw [hlt k k1]; exact k0,
        by rw [hlt k k1]; exact k1⟩
  · unfold unmarshalFrom
    have hlen : ¬ (marshalTo a ++ rest).length < 32 := by rw [List.length_append, hml]; omega
    rw [if_neg hlen, List.take_append_of_le_length (by rw [hml]), List.take_of_length_le (by rw [hml])]
    show (32, scUnmarshal (scMarshal a)) = _
    simp [scUnmarshal, marshal, show (scMarshal a).length = 32 from natLE_length _ _]

example : pick [List.replicate 32 0, List.replicate 31 0 ++ [5]] = some (natLE 32 5) := by decide

end Dos.Props.C20Api

/-
Model of `p2p/client.go` `writeTo` / `readFrom` (length-prefixed framing).

A connection is the list of chunks the transport will hand out, in order; a
`Read` into a buffer of `k` bytes returns `min k |head chunk|` bytes (what
`net.Conn.Read` may do: any non-empty prefix of what is available), and an
error (EOF / reset) once the chunks are exhausted.  Empty chunks are skipped
(a `Read` that returns `0, nil` just makes the Go loop call `Read` again).
-/
import DosModel.Model.Util

namespace Dos.Framing
open Dos

/-- The loop `for total < n && err == nil { k, err = conn.Read(buf[total:]) … }`.
`none` = the connection returned an error before `n` bytes arrived.
One recursion step = one `Read` call. -/
def readN : Nat → List Bytes → Option (Bytes × List Bytes)
  | 0, cs => some ([], cs)
  | _ + 1, [] => none
  | n + 1, ch :: cs =>
    if ch.length = 0 then readN (n + 1) cs
    else if ch.length ≤ n + 1 then
      match readN (n + 1 - ch.length) cs with
      | none => none
      | some (b, r) => some (ch ++ b, r)
    else some (ch.take (n + 1), ch.drop (n + 1) :: cs)

inductive Err where
  | header   -- connection failed inside the 4-byte header
  | size     -- header announces 0 or more than the limit
  | body     -- connection failed inside the payload
  deriving DecidableEq, Repr

structure ReadResult where
  out  : Except Err Bytes
  rest : List Bytes          -- what is left on the connection
  req  : Nat                 -- largest buffer allocated / largest read requested
  deriving Repr

def headerSize : Nat := 4

/-- `readFrom` -/
def readFrame (limit : Nat) (cs : List Bytes) : ReadResult :=
  match readN headerSize cs with
  | none => { out := .error .header, rest := [], req := headerSize }
  | some (h, cs1) =>
    let size := beNat h
    if size > limit ∨ size = 0 then { out := .error .size, rest := cs1, req := headerSize }
    else
      match readN size cs1 with
      | none => { out := .error .body, rest := [], req := max headerSize size }
      | some (b, cs2) => { out := .ok b, rest := cs2, req := max headerSize size }

/-! ### a transport that returns its last bytes TOGETHER with the error

The `io.Reader` contract allows `Read` to return `n > 0` and a non-nil error (`io.EOF`) in the same
call. Go's TCP connections never do (data first, then `0, io.EOF`), other `net.Conn`s may. The loops
of `readFrom` test `err != nil` before they count the bytes of that call, so the bytes are dropped and
`readFrom` fails — also when they would have completed the frame. `readNE` / `readFrameE` are
`readN` / `readFrame` over such a transport: the `Read` that empties the transport reports the error. -/

def readNE : Nat → List Bytes → Option (Bytes × List Bytes)
  | 0, cs => some ([], cs)
  | _ + 1, [] => none
  | n + 1, ch :: cs =>
    if ch.length = 0 then readNE (n + 1) cs
    else if ch.length ≤ n + 1 then
      if cs.flatten.length = 0 then none        -- this `Read` returns (|ch|, EOF): dropped by the loop
      else match readNE (n + 1 - ch.length) cs with
        | none => none
        | some (b, r) => some (ch ++ b, r)
    else some (ch.take (n + 1), ch.drop (n + 1) :: cs)

/-- `readFrom` over a transport that pairs its last bytes with the error -/
def readFrameE (limit : Nat) (cs : List Bytes) : ReadResult :=
  match readNE headerSize cs with
  | none => { out := .error .header, rest := [], req := headerSize }
  | some (h, cs1) =>
    let size := beNat h
    if size > limit ∨ size = 0 then { out := .error .size, rest := cs1, req := headerSize }
    else
      match readNE size cs1 with
      | none => { out := .error .body, rest := [], req := max headerSize size }
      | some (b, cs2) => { out := .ok b, rest := cs2, req := max headerSize size }

/-- `writeTo`: `none` = refused (over the limit); otherwise the byte stream put on the wire
(the Go loop over partial `Write`s emits exactly these bytes, in order). -/
def writeFrame (limit : Nat) (p : Bytes) : Option Bytes :=
  if p.length > limit then none else some (natBE 4 p.length ++ p)

/-- The loop `for total < len(bytes) { n, err = conn.Write(bytes[total:]) … }` of `writeTo`
over a connection whose i-th `Write` accepts `ks[i]` bytes (at least 1, at most what is
offered; everything once `ks` is exhausted). Returns the pieces handed to the transport. -/
def writeLoop : Nat → Bytes → List Nat → List Bytes
  | 0, _, _ => []
  | fuel + 1, bs, ks =>
    if bs.isEmpty then []
    else match ks with
      | [] => [bs]
      | k :: ks' =>
        let k' := if k = 0 then 1 else k        -- `take` stops at the end: min k' |bs| bytes go out
        bs.take k' :: writeLoop fuel (bs.drop k') ks'

/-- `writeTo` on such a connection: the pieces put on the wire -/
def writeFrameTo (limit : Nat) (p : Bytes) (ks : List Nat) : Option (List Bytes) :=
  match writeFrame limit p with
  | none => none
  | some s => some (writeLoop s.length s ks)

/-- read `k` frames one after the other (the `readPipe` loop); stops at the first error -/
def readFrames (limit : Nat) : Nat → List Bytes → List (Except Err Bytes) × List Bytes
  | 0, cs => ([], cs)
  | k + 1, cs =>
    let r := readFrame limit cs
    match r.out with
    | .error e => ([.error e], r.rest)
    | .ok b =>
      let (rs, rest) := readFrames limit k r.rest
      (.ok b :: rs, rest)

/-! ### `readFrom` as a step machine (one `conn.Read` per step), and interleaved readers

Several connections are read concurrently, one `readPipe` goroutine each. The machine below is
`readFrom` cut at its `conn.Read` calls; `Proofs/FramingInterleave.lean` shows that running it to
completion is `readFrame`, and that two readers interleaved by ANY schedule end exactly where each
would end alone – true of the model because a reader's state is its own (header buffer, counters);
the correspondence run checks that the code has no state shared between connections either. -/

inductive Phase where
  | hdr  (need : Nat) (acc : Bytes)                -- inside the header loop
  | body (size need : Nat) (acc : Bytes)           -- inside the content loop
  | fin  (r : Except Err Bytes) (req : Nat)        -- returned
  deriving Repr

structure Reader where
  ph : Phase
  cs : List Bytes

/-- one loop iteration of `readFrom` (at most one `conn.Read`) -/
def stepReader (limit : Nat) (r : Reader) : Reader :=
  match r.ph with
  | .fin _ _ => r
  | .hdr 0 acc =>
    let size := beNat acc
    if size > limit ∨ size = 0 then { r with ph := .fin (.error .size) headerSize }
    else { r with ph := .body size size [] }
  | .hdr (need + 1) acc =>
    match r.cs with
    | [] => { ph := .fin (.error .header) headerSize, cs := [] }
    | ch :: cs =>
      if ch.length = 0 then { r with cs := cs }
      else if ch.length ≤ need + 1 then { ph := .hdr (need + 1 - ch.length) (acc ++ ch), cs := cs }
      else { ph := .hdr 0 (acc ++ ch.take (need + 1)), cs := ch.drop (need + 1) :: cs }
  | .body size 0 acc => { r with ph := .fin (.ok acc) (max headerSize size) }
  | .body size (need + 1) acc =>
    match r.cs with
    | [] => { ph := .fin (.error .body) (max headerSize size), cs := [] }
    | ch :: cs =>
      if ch.length = 0 then { r with cs := cs }
      else if ch.length ≤ need + 1 then { ph := .body size (need + 1 - ch.length) (acc ++ ch), cs := cs }
      else { ph := .body size 0 (acc ++ ch.take (need + 1)), cs := ch.drop (need + 1) :: cs }

def initReader (cs : List Bytes) : Reader := { ph := .hdr headerSize [], cs := cs }

def iterReader (limit : Nat) : Nat → Reader → Reader
  | 0, r => r
  | k + 1, r => iterReader limit k (stepReader limit r)

/-- two readers on two connections, stepped in the order a schedule dictates (`true` = first reader) -/
def runInter (limit : Nat) : List Bool → Reader × Reader → Reader × Reader
  | [], s => s
  | true :: sch, (a, b) => runInter limit sch (stepReader limit a, b)
  | false :: sch, (a, b) => runInter limit sch (a, stepReader limit b)

def readerResult (r : Reader) : Option ReadResult :=
  match r.ph with
  | .fin out req => some { out := out, rest := r.cs, req := req }
  | _ => none

/-! ### helpers for the driver -/

/-- split a stream into chunks of the given sizes (cycled); size 0 entries are treated as 1 -/
def chunkBy : Nat → List Nat → List Nat → Bytes → List Bytes
  | 0, _, _, _ => []
  | _ + 1, _, _, [] => []
  | fuel + 1, all, [], bs => if all.isEmpty then [bs] else chunkBy fuel all all bs
  | fuel + 1, all, s :: ss, bs =>
    let k := if s = 0 then 1 else s
    bs.take k :: chunkBy fuel all ss (bs.drop k)

/-- like `chunkBy`, but a size 0 is an EMPTY chunk (a `Read` that returns `0, nil`); sizes that are all 0
mean one chunk -/
def chunkByZ : Nat → List Nat → List Nat → Bytes → List Bytes
  | 0, _, _, _ => []
  | _ + 1, _, _, [] => []
  | fuel + 1, all, [], bs => if all.all (· == 0) then [bs] else chunkByZ fuel all all bs
  | fuel + 1, all, s :: ss, bs => bs.take s :: chunkByZ fuel all ss (bs.drop s)

def synPayload (n a b : Nat) : Bytes :=
  (List.range n).map (fun i => UInt8.ofNat ((a * i + b) % 256))

def adler32 (bs : Bytes) : Nat :=
  let (s1, s2) := bs.foldl (fun (p : Nat × Nat) x =>
    let s1 := (p.1 + x.toNat) % 65521
    (s1, (p.2 + s1) % 65521)) (1, 0)
  s2 * 65536 + s1

def errName : Err → String
  | .header => "header" | .size => "size" | .body => "body"

def showRead (long : Bool) (r : ReadResult) : String :=
  let rest := r.rest.flatten
  match r.out with
  | .error e => s!"err {errName e} req={r.req}"
  | .ok b =>
    if long then s!"ok len={b.length} adler={adler32 b} rest={toHex rest} req={r.req}"
    else s!"ok {toHex b} rest={toHex rest} req={r.req}"

def stepWr (limit : Nat) (n a b sizes : String) : String :=
  match n.toNat?, a.toNat?, b.toNat?, csvNat sizes with
  | some n, some a, some b, some ks =>
    -- the harness cycles its accept sizes: unroll them far enough
    let ks' := if ks.isEmpty then [] else (List.replicate (n / ks.length + 5) ks).flatten
    match writeFrameTo limit (synPayload n a b) ks' with
    | none => "err oversize"
    | some pieces =>
      let s := pieces.flatten
      s!"ok len={s.length} adler={adler32 s} hdr={toHex (s.take 4)} calls={pieces.length}"
  | _, _, _, _ => "bad-op"

def step (limit : Nat) (line : String) : String :=
  let wr := stepWr limit
  match words line with
  | ["rd", hs, sizes] =>
    match ofHex hs, csvNat sizes with
    | some bs, some sz => showRead false (readFrame limit (chunkBy (2 * bs.length + 2) sz sz bs))
    | _, _ => "bad-op"
  | ["rdz", hs, sizes] =>
    match ofHex hs, csvNat sizes with
    | some bs, some sz =>
      showRead false (readFrame limit (chunkByZ ((bs.length + 2) * (sz.length + 2)) sz sz bs))
    | _, _ => "bad-op"
  | ["rde", hs, sizes] =>
    -- the transport hands out its last bytes together with io.EOF
    match ofHex hs, csvNat sizes with
    | some bs, some sz => showRead false (readFrameE limit (chunkBy (2 * bs.length + 2) sz sz bs))
    | _, _ => "bad-op"
  | ["rdseq", k, hs, sizes] =>
    match k.toNat?, ofHex hs, csvNat sizes with
    | some k, some bs, some sz =>
      let (rs, rest) := readFrames limit k (chunkBy (2 * bs.length + 2) sz sz bs)
      let shown := rs.map (fun r => match r with
        | .ok b => "ok:" ++ toHex b
        | .error e => "err:" ++ errName e)
      s!"{String.intercalate ";" shown} rest={toHex rest.flatten}"
    | _, _, _ => "bad-op"
  | ["syn", hdr, n, a, b, extra, sizes] =>
    match hdr.toNat?, n.toNat?, a.toNat?, b.toNat?, ofHex extra, csvNat sizes with
    | some hdr, some n, some a, some b, some ex, some sz =>
      let bs := natBE 4 hdr ++ synPayload n a b ++ ex
      showRead true (readFrame limit (chunkBy (2 * bs.length + 2) sz sz bs))
    | _, _, _, _, _, _ => "bad-op"
  | ["inter", ha, sa, hb, sb, order] =>
    -- two connections read concurrently under a scripted interleaving: each reader ends where it
    -- would end alone (Props.C15.interleaving_independent), so the prediction ignores `order`
    match ofHex ha, csvNat sa, ofHex hb, csvNat sb with
    | some a, some za, some b, some zb =>
      let ra := readFrame limit (chunkBy (2 * a.length + 2) za za a)
      let rb := readFrame limit (chunkBy (2 * b.length + 2) zb zb b)
      -- cross-check inside the driver: the step machine under this very schedule agrees
      let sch := order.toList.map (fun c => c == 'a')
      let fuel := 2 * (a.length + b.length) + 20
      let full := sch ++ (List.replicate fuel true) ++ (List.replicate fuel false)
      let (ma, mb) := runInter limit full (initReader (chunkBy (2 * a.length + 2) za za a),
                                           initReader (chunkBy (2 * b.length + 2) zb zb b))
      let agree := match readerResult ma, readerResult mb with
        | some x, some y => showRead false x == showRead false ra && showRead false y == showRead false rb
        | _, _ => false
      if agree then s!"A:{showRead false ra} B:{showRead false rb}" else "model-internal-mismatch"
    | _, _, _, _ => "bad-op"
  | ["wr", n, a, b] => wr n a b "-"
  | ["wr", n, a, b, ks] => wr n a b ks
  | _ => "bad-op"

end Dos.Framing

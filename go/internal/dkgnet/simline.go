package dkgnet

import (
	"fmt"
	"strings"

	dkg "github.com/DOSNetwork/core/share/dkg/pedersen"

	"verifharness/internal/h"
)

// RunSimLine executes "<kind> <seed> <n> <defs|-> <events>" on a fresh Sim:
//
//	events: s<i> start | p<j>.<i> public key of j to i | d<j>.<i> deal of j to i |
//	        r<k>.<i> Responses message of k to i | x<id>.<i> adversarial message <id> to i
//	defs:   DUP=<a>.<b>...                                the listed members all use member a's long-term key
//	        X<id>=<spec>;...  with spec one of
//	        K.<claim>.<sender>.<keyowner|x<N>>[.<pre>]    PublicKey claiming index <claim>, sent by <sender>; SenderId
//	                                                      field pre-filled: "-" empty (default), "g" garbage, <k> id of k
//	        D.<claim>.<sealer>.<rcpt>.<variant>           sealed by <sealer>'s key for <rcpt> (see Sim.AdvDeal)
//	        GD.<j>.<i>.<claim> / PD.<j>.<i>.<claim>       genuine / previous-session deal of j for i, Index := claim
//	        R.<dealer>.<responder>.<sid>.<a|c>.<signer>   response built from scratch (see Sim.AdvResp)
//	        GR.<k>.<j>.<j2> / PR.<k>.<j>.<j2>             genuine / previous-session response of k about j, Index := j2
//	        RN.<dealer>                                   dkg.Response without a vss response
//	        FD.<j>.<i>.<claim> / FR.<k>.<j>.<j2>          deal / response of an earlier session run with FRESH keys (the
//	                                                      way genPub draws a key per Grouping call)
//	        O.<member>.<claim>.<sealer>.<variant>[.<j2>]  ORACLE answer: the response a fresh real generator of <member>
//	                                                      with the SAME long-term key gives to the deal D.<claim>.<sealer>.
//	                                                      <member>.<variant>. Keys re-used across runs are outside the
//	                                                      pipeline's key discipline (genPub): such a line demonstrates
//	                                                      Props/C05Other.lean session_layer_needs_fresh_keys on the real
//	                                                      code; the joint oracle is not applied to it (c05.go)
//
// Output "st=<stage per member> keys=<class per member>".
func RunSimLine(w []string) (string, *Sim) {
	seed, n := h.BigDec(w[1]).Uint64(), h.Atoi(w[2])
	var dup []int
	if w[3] != "-" {
		for _, d := range strings.Split(w[3], ";") {
			if strings.HasPrefix(d, "DUP=") {
				for _, x := range strings.Split(d[4:], ".") {
					dup = append(dup, h.Atoi(x))
				}
			}
		}
	}
	s := NewSimDup(seed, n, dup)
	defs := map[string]string{}
	if w[3] != "-" {
		for _, d := range strings.Split(w[3], ";") {
			kv := strings.SplitN(d, "=", 2)
			defs[kv[0]] = kv[1]
			if strings.HasPrefix(kv[1], "P") || strings.Contains(kv[1], ".prev") {
				if s.Prev == nil {
					s.WithPrev()
				}
			}
			if strings.HasPrefix(kv[1], "F") && s.PrevF == nil {
				s.WithPrevFresh()
			}
		}
	}
	if w[4] != "-" {
		for _, ev := range strings.Split(w[4], ",") {
			p := strings.Split(ev[1:], ".")
			switch ev[0] {
			case 's':
				s.Start(h.Atoi(p[0]))
				s.Effective[ev] = true
			case 'p':
				if s.DeliverPk(h.Atoi(p[0]), h.Atoi(p[1])) {
					s.Effective[ev] = true
				}
			case 'd':
				if s.DeliverDeal(h.Atoi(p[0]), h.Atoi(p[1])) {
					s.Effective[ev] = true
				}
			case 'r':
				if s.DeliverResps(h.Atoi(p[0]), h.Atoi(p[1])) {
					s.Effective[ev] = true
				}
			case 'x':
				spec, ok := defs["X"+p[0]]
				if !ok {
					panic("undefined adversarial message " + ev)
				}
				s.injectSpec(spec, h.Atoi(p[1]))
			default:
				panic("bad event " + ev)
			}
		}
	}
	var st []string
	for i := 0; i < n; i++ {
		st = append(st, s.Stage(i))
	}
	return fmt.Sprintf("st=%s keys=%s", strings.Join(st, ","), KeyClasses(s.Outcomes())), s
}

func (s *Sim) injectSpec(spec string, to int) {
	f := strings.Split(spec, ".")
	a := func(k int) int { return h.Atoi(f[k]) }
	switch f[0] {
	case "K":
		m := s.AdvPk(a(1), f[3])
		if len(f) > 4 { // SenderId as the forger filled it in: "-" empty, "g" garbage, <k> the id of member k
			switch f[4] {
			case "-":
			case "g":
				m.Publickey.SenderId = []byte("no-such-member")
			default:
				if k := a(4); k >= 0 && k < len(s.Ids) {
					m.Publickey.SenderId = append([]byte{}, s.Ids[k]...)
				}
			}
		}
		s.InjectPk(to, m, a(2))
	case "D":
		d := s.AdvDeal(a(1), a(2), a(3), strings.Join(f[4:], "."))
		info := s.Sealed[len(s.Sealed)-1]
		s.InjectDealInfo(to, d, info.Consistent && info.Rcpt == to)
	case "GD", "PD", "FD":
		src := s
		if f[0] == "PD" {
			src = s.Prev
		}
		if f[0] == "FD" {
			src = s.PrevF
		}
		d, ok := src.M[a(1)].deals[a(2)]
		if !ok {
			return
		}
		c := CloneDeal(d)
		c.Index = uint32(a(3))
		c.SessionId = s.Sid
		// a genuine (current or earlier) deal of dealer a(1) for member a(2) is a consistent deal when it
		// is presented to that member under that dealer's index
		s.InjectDealInfo(to, c, a(2) == to && a(3) == a(1) && f[0] != "FD")
	case "R":
		s.InjectResp(to, s.AdvResp(a(1), a(2), f[3], f[4] == "a", f[5]))
	case "O": // O.<member>.<claim>.<sealer>.<variant>[.<j2>]: oracle answer (another run with the same key)
		r := s.OracleAnswer(a(1), a(2), a(3), f[4])
		if r == nil {
			return
		}
		r.SessionId = s.Sid
		if len(f) > 5 {
			r.Index = uint32(a(5))
		}
		s.InjectResp(to, r)
	case "GR", "PR", "FR":
		src := s
		if f[0] == "PR" {
			src = s.Prev
		}
		if f[0] == "FR" {
			src = s.PrevF
		}
		r := src.GenuineResp(a(1), a(2))
		if r == nil {
			return
		}
		c := CloneResp(r)
		c.Index = uint32(a(3))
		c.SessionId = s.Sid
		s.InjectResp(to, c)
	case "RN":
		s.InjectResp(to, &dkg.Response{SessionId: s.Sid, Index: uint32(a(1))})
	default:
		panic("bad adversarial spec " + spec)
	}
}

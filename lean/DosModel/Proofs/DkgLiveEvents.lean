/-
Liveness of honest key generation: every event at a member machine (its start, the arrival of a
genuine public key / deal / response) preserves the member invariant; a member that was started and
has received every message at least once is done.
-/
import DosModel.Proofs.DkgLiveLocal

set_option linter.unusedSectionVars false

namespace Dos.Dkg
open Dos Dos.Vss

variable {F G : Type} [Field F] [AddCommGroup G] [Module F G] [DecidableEq F] [DecidableEq G]

/-- the member invariant between events -/
def LocalInv (c : Cfg F G) (ephs : List (List F)) (i : Nat) (m : Member F G) (st : Bool) (sp sd : List Nat)
    (sr : List (Nat × Nat)) : Prop :=
  ∃ gpk gdl grs, LocalPre c ephs i m st sp sd sr gpk gdl grs ∧ Quiescent m

theorem handlePeerMsg_noreq {M : Type} (dup : M → M → Bool) (p : Pair M) (x : M) (h : p.req = none) :
    (handlePeerMsg dup p x).2 = none ∧ (handlePeerMsg dup p x).1.req = none := by
  unfold handlePeerMsg
  by_cases hd : (p.buf.any fun y => dup y x) = true
  · simp [hd, h]
  · simp [hd, h]

theorem orElse_none {α : Type} (b : Option α) : orElse none b = b := by cases b <;> rfl
theorem orElse_some {α : Type} (a : α) (b : Option α) : orElse (some a) b = some a := rfl

/-- finishing an event: `advance`, then the invariant and quiescence -/
theorem finish_event (c : Cfg F G) (ephs : List (List F)) (hw : WellFormed c ephs) (i : Nat) (hi : i < c.n)
    (m : Member F G) (st : Bool) (sp sd : List Nat) (sr : List (Nat × Nat)) (gpk gdl grs)
    (h : LocalPre c ephs i m st sp sd sr gpk gdl grs) :
    LocalInv c ephs i (Member.advance c.g 4 m) st sp sd sr := by
  obtain ⟨h1, h2⟩ := advance_local c ephs hw i hi st sp sd sr gpk gdl grs 4 m h
  refine ⟨gpk, gdl, grs, h1, ?_⟩
  by_cases hr : stageRank m.stage = 0
  · have hidle : m.stage = .idle := by cases hs : m.stage <;> simp_all [stageRank]
    have : Member.advance c.g 4 m = m := by rw [Member.advance]; simp [hidle]
    rw [this]
    exact ⟨fun hh => by omega, fun hh => by omega, fun hh => by omega⟩
  · exact h2 (by omega)

def setPk (m : Member F G) (p : Pair (PkMsg G)) (b : Option (List (PkMsg G))) : Member F G := { m with pkP := p, pkBox := b }
def setDl (m : Member F G) (p : Pair (DkgDeal F G)) (b : Option (List (DkgDeal F G))) : Member F G := { m with dlP := p, dlBox := b }
def setRs (m : Member F G) (p : Pair (DkgResp F G)) (b : Option (List (DkgResp F G))) : Member F G := { m with rsP := p, rsBox := b }

theorem recvPk_eq (g : G) (m : Member F G) (x : PkMsg G) :
    m.recvPk g x = Member.advance g 4 (setPk m (handlePeerMsg dupPk m.pkP x).1 (orElse m.pkBox (handlePeerMsg dupPk m.pkP x).2)) := rfl
theorem recvDeal_eq (g : G) (m : Member F G) (x : DkgDeal F G) :
    m.recvDeal g x = Member.advance g 4 (setDl m (handlePeerMsg dupDeal m.dlP x).1 (orElse m.dlBox (handlePeerMsg dupDeal m.dlP x).2)) := rfl
theorem recvResp_eq (g : G) (m : Member F G) (x : DkgResp F G) :
    m.recvResp g x = Member.advance g 4 (setRs m (handlePeerMsg dupResp m.rsP x).1 (orElse m.rsBox (handlePeerMsg dupResp m.rsP x).2)) := rfl

theorem step_pk (c : Cfg F G) (ephs : List (List F)) (hw : WellFormed c ephs) (i : Nat) (hi : i < c.n)
    (m : Member F G) (st : Bool) (sp sd : List Nat) (sr : List (Nat × Nat))
    (h : LocalInv c ephs i m st sp sd sr) (x : PkMsg G) (hx : GPk c i x) :
    LocalInv c ephs i (m.recvPk c.g x) st (keyPk x :: sp) sd sr := by
  obtain ⟨gpk, gdl, grs, h, _⟩ := h
  have hkey : keyPk x ∈ others c.n i := (mem_others c.n i _).2 ⟨hx.1, hx.2.1⟩
  have hstep := pair_step_inv (GPk c i) dupPk keyPk (fun a b _ _ => dupPk_eq a b) (others c.n i) (c.n - 1)
    (length_others c.n i hi) sp st (m.pkP, gpk) h.hsp h.ppk (.msg x) ⟨hkey, hx⟩
  simp only [pairStep] at hstep
  rw [recvPk_eq]
  apply finish_event c ephs hw i hi _ st (keyPk x :: sp) sd sr (orElse gpk (handlePeerMsg dupPk m.pkP x).2) gdl grs
  refine ⟨h.hn, h.hidx, h.hlong, h.hf, h.hephs, hstep, h.pdl, h.prs, ?_, h.hsd, h.hsr, h.hfail, h.hst, ?_, h.hdl, h.hrs,
    h.hwd, h.hwr, h.hsent, h.hreach⟩
  · intro y hy; rcases List.mem_cons.1 hy with hy | hy
    · rw [hy]; exact hkey
    · exact h.hsp y hy
  · refine ⟨fun hr => ?_, fun hr => ?_⟩
    · show orElse m.pkBox _ = _; rw [h.hpk.1 hr]
    · obtain ⟨hnone, hsome⟩ := h.hpk.2 hr
      obtain ⟨b, hb⟩ := Option.isSome_iff_exists.1 hsome
      have hreq := (h.ppk.fired b hb).2.2.2.2.2
      have hno := (handlePeerMsg_noreq dupPk m.pkP x hreq).1
      exact ⟨by show orElse m.pkBox _ = none; rw [hnone, hno]; rfl, by rw [hb]; rfl⟩

theorem step_dl (c : Cfg F G) (ephs : List (List F)) (hw : WellFormed c ephs) (i : Nat) (hi : i < c.n)
    (m : Member F G) (st : Bool) (sp sd : List Nat) (sr : List (Nat × Nat))
    (h : LocalInv c ephs i m st sp sd sr) (x : DkgDeal F G) (hx : GDl c i x) :
    LocalInv c ephs i (m.recvDeal c.g x) st sp (keyDl x :: sd) sr := by
  obtain ⟨gpk, gdl, grs, h, _⟩ := h
  have hlt : x.index < c.n := by obtain ⟨_, _, _, h1, _⟩ := hx.1; exact h1
  have hkey : keyDl x ∈ others c.n i := (mem_others c.n i _).2 ⟨hlt, hx.2⟩
  have hstep := pair_step_inv (GDl c i) dupDeal keyDl (fun a b _ _ => dupDeal_eq a b) (others c.n i) (c.n - 1)
    (length_others c.n i hi) sd st (m.dlP, gdl) h.hsd h.pdl (.msg x) ⟨hkey, hx⟩
  simp only [pairStep] at hstep
  rw [recvDeal_eq]
  apply finish_event c ephs hw i hi _ st sp (keyDl x :: sd) sr gpk (orElse gdl (handlePeerMsg dupDeal m.dlP x).2) grs
  refine ⟨h.hn, h.hidx, h.hlong, h.hf, h.hephs, h.ppk, hstep, h.prs, h.hsp, ?_, h.hsr, h.hfail, h.hst, h.hpk, ?_, h.hrs,
    h.hwd, h.hwr, h.hsent, h.hreach⟩
  · intro y hy; rcases List.mem_cons.1 hy with hy | hy
    · rw [hy]; exact hkey
    · exact h.hsd y hy
  · refine ⟨fun hr => ?_, fun hr => ?_⟩
    · show orElse m.dlBox _ = _; rw [h.hdl.1 hr]
    · obtain ⟨hnone, hsome⟩ := h.hdl.2 hr
      obtain ⟨b, hb⟩ := Option.isSome_iff_exists.1 hsome
      have hreq := (h.pdl.fired b hb).2.2.2.2.2
      have hno := (handlePeerMsg_noreq dupDeal m.dlP x hreq).1
      exact ⟨by show orElse m.dlBox _ = none; rw [hnone, hno]; rfl, by rw [hb]; rfl⟩

theorem step_rs (c : Cfg F G) (ephs : List (List F)) (hw : WellFormed c ephs) (i : Nat) (hi : i < c.n)
    (m : Member F G) (st : Bool) (sp sd : List Nat) (sr : List (Nat × Nat))
    (h : LocalInv c ephs i m st sp sd sr) (x : DkgResp F G) (hx : GRs c i x) :
    LocalInv c ephs i (m.recvResp c.g x) st sp sd (keyRs x :: sr) := by
  obtain ⟨gpk, gdl, grs, h, _⟩ := h
  have hkey : keyRs x ∈ respKeys c.n i := by
    obtain ⟨j, k, rnd, h1, h2, h3, h4, rfl⟩ := hx
    rw [keyRs_genuine]
    exact (mem_respKeys c.n i (j, k)).2 ⟨h2, h3, h1, fun he => h4 he.symm⟩
  have hstep := pair_step_inv (GRs c i) dupResp keyRs (fun a b ha hb => dupResp_eq c i a b ha hb) (respKeys c.n i)
    ((c.n - 1) * (c.n - 1)) (length_respKeys c.n i hi) sr st (m.rsP, grs) h.hsr h.prs (.msg x) ⟨hkey, hx⟩
  simp only [pairStep] at hstep
  rw [recvResp_eq]
  apply finish_event c ephs hw i hi _ st sp sd (keyRs x :: sr) gpk gdl (orElse grs (handlePeerMsg dupResp m.rsP x).2)
  refine ⟨h.hn, h.hidx, h.hlong, h.hf, h.hephs, h.ppk, h.pdl, hstep, h.hsp, h.hsd, ?_, h.hfail, h.hst, h.hpk, h.hdl, ?_,
    h.hwd, h.hwr, h.hsent, h.hreach⟩
  · intro y hy; rcases List.mem_cons.1 hy with hy | hy
    · rw [hy]; exact hkey
    · exact h.hsr y hy
  · refine ⟨fun hr => ?_, fun hr => ?_⟩
    · show orElse m.rsBox _ = _; rw [h.hrs.1 hr]
    · obtain ⟨hnone, hsome⟩ := h.hrs.2 hr
      obtain ⟨b, hb⟩ := Option.isSome_iff_exists.1 hsome
      have hreq := (h.prs.fired b hb).2.2.2.2.2
      have hno := (handlePeerMsg_noreq dupResp m.rsP x hreq).1
      exact ⟨by show orElse m.rsBox _ = none; rw [hnone, hno]; rfl, by rw [hb]; rfl⟩

/-- a whole `Responses` message -/
theorem step_rss (c : Cfg F G) (ephs : List (List F)) (hw : WellFormed c ephs) (i : Nat) (hi : i < c.n) :
    ∀ (xs : List (DkgResp F G)) (m : Member F G) (st : Bool) (sp sd : List Nat) (sr : List (Nat × Nat)),
      LocalInv c ephs i m st sp sd sr → (∀ x ∈ xs, GRs c i x) →
      LocalInv c ephs i (m.recvResps c.g xs) st sp sd ((xs.map keyRs).reverse ++ sr) := by
  intro xs
  induction xs with
  | nil => intro m st sp sd sr h _; simpa [Member.recvResps] using h
  | cons x xs ih =>
    intro m st sp sd sr h hx
    have h1 := step_rs c ephs hw i hi m st sp sd sr h x (hx x (by simp))
    have h2 := ih (m.recvResp c.g x) st sp sd (keyRs x :: sr) h1 (fun y hy => hx y (by simp [hy]))
    simpa [Member.recvResps, List.reverse_cons, List.append_assoc] using h2

def afterStart (m : Member F G) (p0 : Pair (PkMsg G)) (p1 : Pair (DkgDeal F G)) (p2 : Pair (DkgResp F G))
    (b0 : Option (List (PkMsg G))) (b1 : Option (List (DkgDeal F G))) (b2 : Option (List (DkgResp F G)))
    (pk : PkMsg G) : Member F G :=
  { m with pkP := p0, dlP := p1, rsP := p2, pkBox := b0, dlBox := b1, rsBox := b2, stage := .waitPk, sent := m.sent ++ [Sent.pk pk] }

theorem start_eq (g : G) (m : Member F G) (h : m.stage = .idle) :
    Member.start g m = Member.advance g 4 (afterStart m (handleRequest m.pkP (m.n - 1)).1 (handleRequest m.dlP (m.n - 1)).1
      (handleRequest m.rsP ((m.n - 1) * (m.n - 1))).1 (handleRequest m.pkP (m.n - 1)).2 (handleRequest m.dlP (m.n - 1)).2
      (handleRequest m.rsP ((m.n - 1) * (m.n - 1))).2 ⟨m.index, some (m.long • g), m.index⟩) := by
  unfold Member.start
  simp only [h]
  rfl

theorem start_noop (g : G) (m : Member F G) (h : m.stage ≠ .idle) : Member.start g m = m := by
  unfold Member.start
  cases hs : m.stage <;> simp_all

theorem step_start (c : Cfg F G) (ephs : List (List F)) (hw : WellFormed c ephs) (i : Nat) (hi : i < c.n)
    (m : Member F G) (st : Bool) (sp sd : List Nat) (sr : List (Nat × Nat))
    (h : LocalInv c ephs i m st sp sd sr) : LocalInv c ephs i (Member.start c.g m) true sp sd sr := by
  by_cases hidle : m.stage = .idle
  · obtain ⟨gpk, gdl, grs, h, _⟩ := h
    have hrank : stageRank m.stage = 0 := by rw [hidle]; rfl
    have hst : st = false := h.hst.2 hrank
    subst hst
    -- nothing was handed over before the registration
    have hg0 : gpk = none := by
      rcases hg : gpk with _ | b
      · rfl
      · have := (h.ppk.fired b hg).2.2.2.1; cases this
    have hg1 : gdl = none := by
      rcases hg : gdl with _ | b
      · rfl
      · have := (h.pdl.fired b hg).2.2.2.1; cases this
    have hg2 : grs = none := by
      rcases hg : grs with _ | b
      · rfl
      · have := (h.prs.fired b hg).2.2.2.1; cases this
    subst hg0; subst hg1; subst hg2
    have s0 := pair_step_inv (GPk c i) dupPk keyPk (fun a b _ _ => dupPk_eq a b) (others c.n i) (c.n - 1)
      (length_others c.n i hi) sp false (m.pkP, none) h.hsp h.ppk (.reg (c.n - 1)) ⟨rfl, rfl⟩
    have s1 := pair_step_inv (GDl c i) dupDeal keyDl (fun a b _ _ => dupDeal_eq a b) (others c.n i) (c.n - 1)
      (length_others c.n i hi) sd false (m.dlP, none) h.hsd h.pdl (.reg (c.n - 1)) ⟨rfl, rfl⟩
    have s2 := pair_step_inv (GRs c i) dupResp keyRs (fun a b ha hb => dupResp_eq c i a b ha hb) (respKeys c.n i)
      ((c.n - 1) * (c.n - 1)) (length_respKeys c.n i hi) sr false (m.rsP, none) h.hsr h.prs (.reg ((c.n - 1) * (c.n - 1))) ⟨rfl, rfl⟩
    simp only [pairStep, orElse_none] at s0 s1 s2
    rw [start_eq c.g m hidle, h.hn]
    apply finish_event c ephs hw i hi _ true sp sd sr _ _ _
    refine ⟨h.hn, h.hidx, h.hlong, h.hf, h.hephs, s0, s1, s2, h.hsp, h.hsd, h.hsr, by simp [afterStart, stageRank],
      by simp [afterStart, stageRank], ?_, ?_, ?_, ?_, ?_, ?_,
      ⟨fun d hd => (by cases hd), fun d hd => (by cases hd), fun d ks hd => (by cases hd)⟩⟩
    · exact ⟨fun _ => rfl, fun hh => by simp [afterStart, stageRank] at hh⟩
    · exact ⟨fun _ => rfl, fun hh => by simp [afterStart, stageRank] at hh⟩
    · exact ⟨fun _ => rfl, fun hh => by simp [afterStart, stageRank] at hh⟩
    · intro d hd; cases hd
    · intro d hd; cases hd
    · refine ⟨fun hh => by simp [afterStart, stageRank] at hh, fun _ => ?_, fun hh => by simp [afterStart, stageRank] at hh,
        fun hh => by simp [afterStart, stageRank] at hh⟩
      show m.sent ++ [Sent.pk ⟨m.index, some (m.long • c.g), m.index⟩] = _
      rw [h.hsent.1 hrank, h.hidx, h.hlong]; rfl
  · rw [start_noop c.g m hidle]
    obtain ⟨gpk, gdl, grs, h, hq⟩ := h
    have hst : st = true := by
      cases st with
      | true => rfl
      | false =>
        have := h.hst.1 rfl
        exfalso; apply hidle
        cases hs : m.stage <;> simp_all [stageRank]
    subst hst
    exact ⟨gpk, gdl, grs, h, hq⟩

/-- **a member that was started and has received every message at least once is done** -/
theorem local_done (c : Cfg F G) (ephs : List (List F)) (i : Nat) (hi : i < c.n)
    (m : Member F G) (sp sd : List Nat) (sr : List (Nat × Nat)) (h : LocalInv c ephs i m true sp sd sr)
    (hp : ∀ j ∈ others c.n i, j ∈ sp) (hd : ∀ j ∈ others c.n i, j ∈ sd) (hr : ∀ p ∈ respKeys c.n i, p ∈ sr) :
    ∃ d ks, m.stage = .done d ks := by
  obtain ⟨gpk, gdl, grs, h, hq⟩ := h
  -- every request has fired: otherwise its buffer holds one message per key, which is the count it waits for
  have fired : ∀ {M κ : Type} [DecidableEq κ] (P : M → Prop) (key : M → κ) (K seen : List κ) (k : Nat) (st : Pair M × Option (List M)),
      K.Nodup → K.length = k → PairInv P key K k seen true st → (∀ x ∈ seen, x ∈ K) → (∀ x ∈ K, x ∈ seen) → st.2.isSome = true := by
    intro M κ _ P key K seen k st hnd hlen hinv hsub hall
    rcases hbox : st.2 with _ | b
    · exfalso
      obtain ⟨hnd', hmem, hreg, _, _⟩ := hinv.open_ hbox
      have hlt := (hreg rfl).2
      have h1 := nodup_subset_length_le hnd (fun x hx => (hmem x).2 (hall x hx))
      simp only [List.length_map] at h1
      omega
    · rfl
  have f0 := fired (GPk c i) keyPk (others c.n i) sp (c.n - 1) (m.pkP, gpk) (nodup_others c.n i) (length_others c.n i hi) h.ppk h.hsp hp
  have f1 := fired (GDl c i) keyDl (others c.n i) sd (c.n - 1) (m.dlP, gdl) (nodup_others c.n i) (length_others c.n i hi) h.pdl h.hsd hd
  have f2 := fired (GRs c i) keyRs (respKeys c.n i) sr ((c.n - 1) * (c.n - 1)) (m.rsP, grs) (nodup_respKeys c.n i)
    (length_respKeys c.n i hi) h.prs h.hsr hr
  simp only at f0 f1 f2
  rcases hs : m.stage with _ | _ | d | d | ⟨d, ks⟩ | why
  · have := h.hst.2 (by rw [hs]; rfl); cases this
  · exfalso
    have h1 := h.hpk.1 (by rw [hs]; simp [stageRank])
    have h2 := hq.1 (by rw [hs]; rfl)
    rw [h2] at h1; rw [← h1] at f0; cases f0
  · exfalso
    have h1 := h.hdl.1 (by rw [hs]; simp [stageRank])
    have h2 := hq.2.1 (by rw [hs]; rfl)
    rw [h2] at h1; rw [← h1] at f1; cases f1
  · exfalso
    have h1 := h.hrs.1 (by rw [hs]; simp [stageRank])
    have h2 := hq.2.2 (by rw [hs]; rfl)
    rw [h2] at h1; rw [← h1] at f2; cases f2
  · exact ⟨d, ks, rfl⟩
  · exact absurd (by rw [hs]; rfl) h.hfail

end Dos.Dkg

package pipeir

import (
	"fmt"
	"go/ast"
	"go/parser"
	"go/token"
	"io/ioutil"
	"path/filepath"
	"sort"
	"strings"
)

const modulePath = "github.com/DOSNetwork/core/"

type pkgInfo struct {
	dir     string // repo-relative directory
	name    string // Go package name
	fset    *token.FileSet
	files   []*ast.File
	funcs   map[string]*ast.FuncDecl
	methods map[string]map[string]*ast.FuncDecl // receiver type → method name → decl
	fileOf  map[*ast.FuncDecl]*ast.File
	imports map[*ast.File]map[string]string // alias → import path
}

type loader struct {
	repo string
	pkgs map[string]*pkgInfo
}

func (l *loader) load(dir string) (*pkgInfo, error) {
	if p, ok := l.pkgs[dir]; ok {
		return p, nil
	}
	names, err := filepath.Glob(filepath.Join(l.repo, dir, "*.go"))
	if err != nil || len(names) == 0 {
		return nil, fmt.Errorf("package %s: no Go files", dir)
	}
	sort.Strings(names)
	p := &pkgInfo{dir: dir, fset: token.NewFileSet(), funcs: map[string]*ast.FuncDecl{},
		methods: map[string]map[string]*ast.FuncDecl{}, fileOf: map[*ast.FuncDecl]*ast.File{},
		imports: map[*ast.File]map[string]string{}}
	for _, n := range names {
		if strings.HasSuffix(n, "_test.go") {
			continue
		}
		src, err := ioutil.ReadFile(n)
		if err != nil {
			return nil, err
		}
		// files behind a build tag (verification hooks) are not part of the product
		head := string(src)
		if i := strings.Index(head, "\npackage "); i >= 0 {
			head = head[:i]
		}
		if strings.Contains(head, "go:build") || strings.Contains(head, "+build") {
			continue
		}
		f, err := parser.ParseFile(p.fset, n, src, 0)
		if err != nil {
			return nil, err
		}
		p.name = f.Name.Name
		p.files = append(p.files, f)
		imp := map[string]string{}
		for _, is := range f.Imports {
			path := strings.Trim(is.Path.Value, "\"")
			alias := path[strings.LastIndex(path, "/")+1:]
			if is.Name != nil {
				alias = is.Name.Name
			}
			imp[alias] = path
		}
		p.imports[f] = imp
		for _, d := range f.Decls {
			fd, ok := d.(*ast.FuncDecl)
			if !ok || fd.Body == nil {
				continue
			}
			p.fileOf[fd] = f
			if fd.Recv == nil || len(fd.Recv.List) == 0 {
				p.funcs[fd.Name.Name] = fd
				continue
			}
			t := fd.Recv.List[0].Type
			if s, ok := t.(*ast.StarExpr); ok {
				t = s.X
			}
			if id, ok := t.(*ast.Ident); ok {
				if p.methods[id.Name] == nil {
					p.methods[id.Name] = map[string]*ast.FuncDecl{}
				}
				p.methods[id.Name][fd.Name.Name] = fd
			}
		}
	}
	l.pkgs[dir] = p
	return p, nil
}

// repo-relative directory of an import path of this module ("" if foreign)
func repoDir(importPath string) string {
	if strings.HasPrefix(importPath, modulePath) {
		return strings.TrimPrefix(importPath, modulePath)
	}
	return ""
}

func (p *pkgInfo) pos(n ast.Node) string {
	if n == nil {
		return p.dir
	}
	ps := p.fset.Position(n.Pos())
	return fmt.Sprintf("%s:%d", filepath.Base(ps.Filename), ps.Line)
}

func recvName(fd *ast.FuncDecl) string {
	if fd.Recv != nil && len(fd.Recv.List) > 0 && len(fd.Recv.List[0].Names) > 0 {
		return fd.Recv.List[0].Names[0].Name
	}
	return ""
}

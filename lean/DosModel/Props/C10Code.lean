/-
C10 / E7 — the tie between the CODE and the hand models of the tower fields, the curves and the
pairing. `Gen/Bn256Code.lean` is regenerated on every check run by `go/extract/bn256code`
(go/ast): each Go function of gfp2.go, gfp6.go, gfp12.go, curve.go, twist.go, optate.go is
evaluated symbolically (pointer destinations, the real evaluation order, receiver aliasing at
every call site) into a pure Lean function over an abstract base type.

Here: every generated function EQUALS the hand-written model function that the theorems of
Props/C10Tower, C10Curve, C10FinalExp, C10Concrete, C10Pairing are about — as functions, over
every base type with `+ - * neg 0 1 ⁻¹` (no ring axioms needed: the two sides perform the same
operations in the same order). So a change of the Go arithmetic (a sign, an operand, a
statement moved across a store) breaks an obligation below before any differential run, and every
theorem about the hand model is a theorem about the code-derived function (last section).
Only theorems; helper lemmas in Proofs/Bn256Code.lean.
-/
import DosModel.Proofs.Bn256Code
import DosModel.Model.Bn256CPairing
import DosModel.Props.C10Tower
import DosModel.Props.C10Curve
import DosModel.Props.C10FinalExp

set_option linter.unusedSectionVars false
set_option linter.unusedSimpArgs false

namespace Dos.Props.C10Code
open Dos.Bn256 Dos.Gen Dos.Gen.Bn256Code Dos.Bn256.CodeTie

/-! ## the translator's own facts -/

/-- the translator covered exactly these Go functions (a new method of the eight types or a new function
of optate.go / point.go / gfp.go appears here and has no tie yet; what is skipped is the table `skipped`,
pinned in Props/C10Kyber: formatting, sizes and the byte-level codec, which is property C11's) -/
theorem translated_functions :
    Bn256Code.translated.map (fun r => r.1) =
      -- in source order, file by file (gfp2, gfp6, gfp12, curve, twist, optate, point, gfp); point.go's `Mul` once per
      -- case of its optional point argument; the ties of point.go / gfp.go are in Props/C10Kyber
      ["gfP2.Set", "gfP2.SetZero", "gfP2.SetOne", "gfP2.IsZero", "gfP2.IsOne", "gfP2.Conjugate", "gfP2.Neg",
       "gfP2.Add", "gfP2.Sub", "gfP2.Mul", "gfP2.MulScalar", "gfP2.MulXi", "gfP2.Square", "gfP2.Invert",
       "gfP6.Set", "gfP6.SetZero", "gfP6.SetOne", "gfP6.IsZero", "gfP6.IsOne", "gfP6.Neg", "gfP6.Frobenius",
       "gfP6.FrobeniusP2", "gfP6.FrobeniusP4", "gfP6.Add", "gfP6.Sub", "gfP6.Mul", "gfP6.MulScalar",
       "gfP6.MulGFP", "gfP6.MulTau", "gfP6.Square", "gfP6.Invert", "gfP12.Set", "gfP12.SetZero",
       "gfP12.SetOne", "gfP12.IsZero", "gfP12.IsOne", "gfP12.Conjugate", "gfP12.Neg", "gfP12.Frobenius",
       "gfP12.FrobeniusP2", "gfP12.FrobeniusP4", "gfP12.Add", "gfP12.Sub", "gfP12.Mul", "gfP12.MulScalar",
       "gfP12.Exp", "gfP12.Square", "gfP12.Invert", "curvePoint.Set", "curvePoint.IsOnCurve",
       "curvePoint.SetInfinity", "curvePoint.IsInfinity", "curvePoint.Add", "curvePoint.Double",
       "curvePoint.Mul", "curvePoint.MakeAffine", "curvePoint.Neg", "twistPoint.Set", "twistPoint.IsOnCurve",
       "twistPoint.SetInfinity", "twistPoint.IsInfinity", "twistPoint.Add", "twistPoint.Double",
       "twistPoint.Mul", "twistPoint.MakeAffine", "twistPoint.Neg", "lineFunctionAdd", "lineFunctionDouble",
       "mulLine", "miller", "finalExponentiation", "optimalAte", "newPointG1", "pointG1.Null", "pointG1.Base",
       "pointG1.Pick", "pointG1.Set", "pointG1.Add", "pointG1.Sub", "pointG1.Neg", "pointG1.Mul",
       "pointG1.Mul[q=nil]", "newPointG2", "pointG2.Null", "pointG2.Base", "pointG2.Pick", "pointG2.Set",
       "pointG2.Add", "pointG2.Sub", "pointG2.Neg", "pointG2.Mul", "pointG2.Mul[q=nil]", "newPointGT",
       "pointGT.Null", "pointGT.Base", "pointGT.Pick", "pointGT.Set", "pointGT.Add", "pointGT.Sub",
       "pointGT.Neg", "pointGT.Mul", "pointGT.Mul[q=nil]", "pointGT.Finalize", "pointGT.Miller",
       "pointGT.Pair", "pointGT.PairingCheck", "newGFp", "gfP.Set", "gfP.Invert", "montEncode", "montDecode"] := by
  decide

/-- **alias safety of the code**: for every translated function and every identification of its same-typed
pointer parameters (receiver = argument, both arguments equal, all three equal), evaluating the Go body with
those pointers aliased gives textually the no-alias translation with the parameters identified. (This is the
obligation that the pre-5259913 `Double`, which read `a.y` after storing `c.y`, breaks.) -/
theorem code_alias_safe :
    Bn256Code.aliasTable.all (fun r => r.2.2) = true ∧ Bn256Code.aliasTable.length = 121 := by decide

/-- the loop of `miller` was unrolled over the digits of `sixuPlus2NAF` as E1 extracts them -/
theorem miller_unrolled_over_the_naf : Bn256Code.unrolledNAF = Dos.Gen.Bn256.sixuPlus2NAF := by decide

/-- the translator reads `*newGFp(0)` as 0 and `*newGFp(1)` as 1: in the Montgomery model `newGFp 0` is the zero
limbs and `1` IS `newGFp 1` -/
theorem newGFp_zero_one : GFp.newGFp 0 = 0 ∧ (1 : GFp) = GFp.newGFp 1 := ⟨by decide +kernel, rfl⟩

/-! ## gfp2.go -/
theorem gen_gfP2_set_eq_model {α : Type} : @gfP2_set α = fun a => a := rfl
theorem gen_gfP2_setZero_eq_model {α : Type} [Zero α] : @gfP2_setZero α _ = Fp2.zero := rfl
theorem gen_gfP2_setOne_eq_model {α : Type} [Zero α] [One α] : @gfP2_setOne α _ _ = Fp2.one := rfl
/-- IsZero / IsOne compare the two limb groups separately; the model compares the structure -/
theorem gen_gfP2_isZero_eq_model {α : Type} [Zero α] [DecidableEq α] :
    @gfP2_isZero α _ _ = fun e => decide (e = Fp2.zero) := by
  funext e; exact gfP2_isZero_eq e
theorem gen_gfP2_isOne_eq_model {α : Type} [Zero α] [One α] [DecidableEq α] :
    @gfP2_isOne α _ _ _ = fun e => decide (e = Fp2.one) := by
  funext e; exact gfP2_isOne_eq e
theorem gen_gfP2_conjugate_eq_model {α : Type} [Neg α] : @gfP2_conjugate α _ = Fp2.conjugate := rfl
theorem gen_gfP2_neg_eq_model {α : Type} [Neg α] : @gfP2_neg α _ = Fp2.neg := rfl
theorem gen_gfP2_add_eq_model {α : Type} [Add α] : @gfP2_add α _ = Fp2.add := rfl
theorem gen_gfP2_sub_eq_model {α : Type} [Sub α] : @gfP2_sub α _ = Fp2.sub := rfl
theorem gen_gfP2_mul_eq_model {α : Type} [Add α] [Sub α] [Mul α] : @gfP2_mul α _ _ _ = Fp2.mul := rfl
theorem gen_gfP2_mulScalar_eq_model {α : Type} [Mul α] : @gfP2_mulScalar α _ = Fp2.mulScalar := rfl
theorem gen_gfP2_mulXi_eq_model {α : Type} [Add α] [Sub α] : @gfP2_mulXi α _ _ = Fp2.mulXi := rfl
theorem gen_gfP2_square_eq_model {α : Type} [Add α] [Sub α] [Mul α] : @gfP2_square α _ _ _ = Fp2.square := rfl
theorem gen_gfP2_invert_eq_model {α : Type} [Add α] [Neg α] [Mul α] [Inv α] :
    @gfP2_invert α _ _ _ _ = Fp2.invert := rfl

example : gfP2_mul (⟨1, 2⟩ : Fp2 Int) ⟨3, 4⟩ = ⟨10, 5⟩ := by decide
example : gfP2_mulXi (⟨1, 2⟩ : Fp2 Int) = ⟨11, 17⟩ := by decide
example : gfP2_square (⟨1, 2⟩ : Fp2 Int) = gfP2_mul ⟨1, 2⟩ ⟨1, 2⟩ := by decide
example : gfP2_isZero (⟨0, 0⟩ : Fp2 Int) = true ∧ gfP2_isZero (⟨0, 1⟩ : Fp2 Int) = false ∧
    gfP2_isOne (⟨0, 1⟩ : Fp2 Int) = true := by decide

/-! ## gfp6.go -/
theorem gen_gfP6_set_eq_model {α : Type} : @gfP6_set α = fun a => a := rfl
theorem gen_gfP6_setZero_eq_model {α : Type} [Zero α] : @gfP6_setZero α _ = Fp6.zero := rfl
theorem gen_gfP6_setOne_eq_model {α : Type} [Zero α] [One α] : @gfP6_setOne α _ _ = Fp6.one := rfl
theorem gen_gfP6_isZero_eq_model {α : Type} [Zero α] [DecidableEq α] :
    @gfP6_isZero α _ _ = fun e => decide (e = Fp6.zero) := by
  funext e
  simp only [gfP6_isZero, gfP2_isZero_eq, fp6_eq_iff, Fp6.zero, Bool.decide_and, Bool.and_assoc]
theorem gen_gfP6_isOne_eq_model {α : Type} [Zero α] [One α] [DecidableEq α] :
    @gfP6_isOne α _ _ _ = fun e => decide (e = Fp6.one) := by
  funext e
  simp only [gfP6_isOne, gfP2_isZero_eq, gfP2_isOne_eq, fp6_eq_iff, Fp6.one, Bool.decide_and, Bool.and_assoc]
theorem gen_gfP6_neg_eq_model {α : Type} [Neg α] : @gfP6_neg α _ = Fp6.neg := rfl
theorem gen_gfP6_frobenius_eq_model {α : Type} [Add α] [Sub α] [Neg α] [Mul α] :
    @gfP6_frobenius α _ _ _ _ = Fp6.frobeniusG := rfl
theorem gen_gfP6_frobeniusP2_eq_model {α : Type} [Mul α] : @gfP6_frobeniusP2 α _ = Fp6.frobeniusP2G := rfl
theorem gen_gfP6_frobeniusP4_eq_model {α : Type} [Mul α] : @gfP6_frobeniusP4 α _ = Fp6.frobeniusP4G := rfl
theorem gen_gfP6_add_eq_model {α : Type} [Add α] : @gfP6_add α _ = Fp6.add := rfl
theorem gen_gfP6_sub_eq_model {α : Type} [Sub α] : @gfP6_sub α _ = Fp6.sub := rfl
theorem gen_gfP6_mul_eq_model {α : Type} [Add α] [Sub α] [Mul α] : @gfP6_mul α _ _ _ = Fp6.mul := rfl
theorem gen_gfP6_mulScalar_eq_model {α : Type} [Add α] [Sub α] [Mul α] :
    @gfP6_mulScalar α _ _ _ = Fp6.mulScalar := rfl
theorem gen_gfP6_mulGFP_eq_model {α : Type} [Mul α] : @gfP6_mulGFP α _ = Fp6.mulGFP := rfl
theorem gen_gfP6_mulTau_eq_model {α : Type} [Add α] [Sub α] : @gfP6_mulTau α _ _ = Fp6.mulTau := rfl
theorem gen_gfP6_square_eq_model {α : Type} [Add α] [Sub α] [Mul α] : @gfP6_square α _ _ _ = Fp6.square := rfl
theorem gen_gfP6_invert_eq_model {α : Type} [Add α] [Sub α] [Neg α] [Mul α] [Inv α] :
    @gfP6_invert α _ _ _ _ _ = Fp6.invert := rfl

example : gfP6_mul (⟨⟨1, 0⟩, ⟨0, 1⟩, ⟨2, 3⟩⟩ : Fp6 Int) ⟨⟨1, 0⟩, ⟨0, 1⟩, ⟨2, 3⟩⟩ =
    gfP6_square ⟨⟨1, 0⟩, ⟨0, 1⟩, ⟨2, 3⟩⟩ := by decide
example : gfP6_mulTau (⟨⟨1, 2⟩, ⟨3, 4⟩, ⟨5, 6⟩⟩ : Fp6 Int) = ⟨⟨3, 4⟩, ⟨5, 6⟩, ⟨11, 17⟩⟩ := by decide

/-! ## gfp12.go (proved from the ties of the callees, so that no tower is unfolded twice) -/
theorem gen_gfP12_set_eq_model {α : Type} : @gfP12_set α = fun a => a := rfl
theorem gen_gfP12_setZero_eq_model {α : Type} [Zero α] : @gfP12_setZero α _ = Fp12.zero := rfl
theorem gen_gfP12_setOne_eq_model {α : Type} [Zero α] [One α] : @gfP12_setOne α _ _ = Fp12.one := rfl
theorem gen_gfP12_isZero_eq_model {α : Type} [Zero α] [DecidableEq α] :
    @gfP12_isZero α _ _ = fun e => decide (e = Fp12.zero) := by
  funext e
  simp only [gfP12_isZero, gen_gfP6_isZero_eq_model, fp12_eq_iff, Fp12.zero, Bool.decide_and]
theorem gen_gfP12_isOne_eq_model {α : Type} [Zero α] [One α] [DecidableEq α] :
    @gfP12_isOne α _ _ _ = fun e => decide (e = Fp12.one) := by
  funext e
  simp only [gfP12_isOne, gen_gfP6_isZero_eq_model, gen_gfP6_isOne_eq_model, fp12_eq_iff, Fp12.one,
    Bool.decide_and]
theorem gen_gfP12_conjugate_eq_model {α : Type} [Neg α] : @gfP12_conjugate α _ = Fp12.conjugate := rfl
theorem gen_gfP12_neg_eq_model {α : Type} [Neg α] : @gfP12_neg α _ = Fp12.neg := rfl
theorem gen_gfP12_frobenius_eq_model {α : Type} [Add α] [Sub α] [Neg α] [Mul α] :
    @gfP12_frobenius α _ _ _ _ = Fp12.frobeniusG := by
  funext cs a
  simp only [gfP12_frobenius, gen_gfP6_frobenius_eq_model, gen_gfP6_mulScalar_eq_model]; rfl
theorem gen_gfP12_frobeniusP2_eq_model {α : Type} [Mul α] : @gfP12_frobeniusP2 α _ = Fp12.frobeniusP2G := by
  funext cs a
  simp only [gfP12_frobeniusP2, gen_gfP6_frobeniusP2_eq_model, gen_gfP6_mulGFP_eq_model]; rfl
theorem gen_gfP12_frobeniusP4_eq_model {α : Type} [Mul α] : @gfP12_frobeniusP4 α _ = Fp12.frobeniusP4G := by
  funext cs a
  simp only [gfP12_frobeniusP4, gen_gfP6_frobeniusP4_eq_model, gen_gfP6_mulGFP_eq_model]; rfl
theorem gen_gfP12_add_eq_model {α : Type} [Add α] : @gfP12_add α _ = Fp12.add := rfl
theorem gen_gfP12_sub_eq_model {α : Type} [Sub α] : @gfP12_sub α _ = Fp12.sub := rfl
theorem gen_gfP12_mul_eq_model {α : Type} [Add α] [Sub α] [Mul α] : @gfP12_mul α _ _ _ = Fp12.mul := by
  funext a b
  simp only [gfP12_mul, gen_gfP6_mul_eq_model, gen_gfP6_add_eq_model, gen_gfP6_mulTau_eq_model,
    gen_gfP6_set_eq_model]; rfl
/-- `e.MulScalar(a, b)` multiplies the RECEIVER's halves: the translation has no parameter `a` at all -/
theorem gen_gfP12_mulScalar_eq_model {α : Type} [Add α] [Sub α] [Mul α] :
    @gfP12_mulScalar α _ _ _ = fun e b => Fp12.mulScalarRecv e e b := by
  funext e b
  simp only [gfP12_mulScalar, gen_gfP6_mul_eq_model]; rfl
theorem gen_gfP12_square_eq_model {α : Type} [Add α] [Sub α] [Mul α] :
    @gfP12_square α _ _ _ = Fp12.square := by
  funext a
  simp only [gfP12_square, gen_gfP6_mul_eq_model, gen_gfP6_add_eq_model, gen_gfP6_sub_eq_model,
    gen_gfP6_mulTau_eq_model, gen_gfP6_set_eq_model]; rfl
theorem gen_gfP12_invert_eq_model {α : Type} [Add α] [Sub α] [Neg α] [Mul α] [Inv α] :
    @gfP12_invert α _ _ _ _ _ = Fp12.invert := by
  funext a
  simp only [gfP12_invert, gen_gfP12_mulScalar_eq_model, gen_gfP6_square_eq_model, gen_gfP6_sub_eq_model,
    gen_gfP6_mulTau_eq_model, gen_gfP6_invert_eq_model, gen_gfP6_neg_eq_model, gen_gfP6_set_eq_model]; rfl
/-- Exp: the translated loop carries (sum, t) — the two objects the body writes —, the model only `sum` -/
theorem gen_gfP12_exp_eq_model {α : Type} [Add α] [Sub α] [Mul α] [Zero α] [One α] :
    @gfP12_exp α _ _ _ _ _ = Fp12.exp := by
  funext a power
  simp only [gfP12_exp, gen_gfP12_set_eq_model, gen_gfP12_setOne_eq_model, gen_gfP12_square_eq_model,
    gen_gfP12_mul_eq_model]
  rw [foldl_fst _ (fun sum i => if power.testBit i then (sum.square).mul a else sum.square)]
  · rfl
  · intro s i; exact ite_fst _ _ _ _

example : gfP12_exp (⟨⟨⟨0, 0⟩, ⟨0, 0⟩, ⟨0, 0⟩⟩, ⟨⟨0, 0⟩, ⟨0, 0⟩, ⟨0, 2⟩⟩⟩ : Fp12 Int) 10 =
    ⟨⟨⟨0, 0⟩, ⟨0, 0⟩, ⟨0, 0⟩⟩, ⟨⟨0, 0⟩, ⟨0, 0⟩, ⟨0, 1024⟩⟩⟩ := by decide +kernel

/-! ## curve.go: the hand model `Jac K` at K = α with squaring `a * a` (gfpMul(c, a, a): `sqMul`, which at
α = GFp is the model's `Sq GFp` instance) -/
section curve
attribute [local instance] sqMul

theorem gen_curvePoint_set_eq_model {α : Type} : @curvePoint_set α = fun a => a := rfl
theorem gen_curvePoint_setInfinity_eq_model {α : Type} [Zero α] [One α] :
    @curvePoint_setInfinity α _ _ = Jac.infinity := rfl
theorem gen_curvePoint_isInfinity_eq_model {α : Type} [Zero α] [DecidableEq α] :
    @curvePoint_isInfinity α _ _ = Jac.isInfinity := rfl
theorem gen_curvePoint_makeAffine_eq_model {α : Type} [Mul α] [Zero α] [One α] [Inv α] [DecidableEq α] :
    @curvePoint_makeAffine α _ _ _ _ _ = Jac.makeAffine := rfl
/-- the receiver's previous value is a parameter: its `t` survives -/
theorem gen_curvePoint_double_eq_model {α : Type} [Add α] [Sub α] [Mul α] :
    @curvePoint_double α _ _ _ = Jac.double := rfl
theorem gen_curvePoint_add_eq_model {α : Type} [Add α] [Sub α] [Mul α] [Zero α] [DecidableEq α] :
    @curvePoint_add α _ _ _ _ _ = Jac.add := rfl
theorem gen_curvePoint_neg_eq_model {α : Type} [Neg α] [Zero α] :
    @curvePoint_neg α _ _ = fun a => Jac.neg a 0 := rfl
theorem gen_curvePoint_mul_eq_model {α : Type} [Add α] [Sub α] [Mul α] [Zero α] [One α] [DecidableEq α] :
    @curvePoint_mul α _ _ _ _ _ _ = Jac.curveMul := by
  funext a scalar
  simp only [curvePoint_mul, gen_curvePoint_set_eq_model, gen_curvePoint_setInfinity_eq_model,
    gen_curvePoint_double_eq_model, gen_curvePoint_add_eq_model, ite_pair]
  rfl
/-- IsOnCurve normalises the receiver (first component) and tests y² = x³ + curveB -/
theorem gen_curvePoint_isOnCurve_eq_model {α : Type} [Add α] [Mul α] [Zero α] [One α] [Inv α] [DecidableEq α]
    (curveB : α) (c : Jac α) :
    curvePoint_isOnCurve curveB c =
      (Jac.makeAffine c, if (Jac.makeAffine c).isInfinity then true
        else decide ((Jac.makeAffine c).y * (Jac.makeAffine c).y =
          (Jac.makeAffine c).x * (Jac.makeAffine c).x * (Jac.makeAffine c).x + curveB)) := by
  have hi : curvePoint_isInfinity (curvePoint_makeAffine c) = (Jac.makeAffine c).isInfinity := rfl
  unfold curvePoint_isOnCurve
  cases h : (Jac.makeAffine c).isInfinity <;> simp only [hi, h] <;> rfl
theorem gen_curvePoint_isOnCurve_eq_model_gfp (c : G1J) :
    (curvePoint_isOnCurve (GFp.newGFp 3) c).2 = curveIsOnCurve c := by
  rw [gen_curvePoint_isOnCurve_eq_model]; rfl

/-- at the Montgomery gfP the two Neg translations are the driver's `curveNeg` / `twistNeg` -/
theorem gen_neg_eq_model_gfp : @curvePoint_neg GFp _ _ = curveNeg ∧ @twistPoint_neg GFp _ = twistNeg :=
  ⟨rfl, rfl⟩

example : curvePoint_add (⟨0, 0, 0, 0⟩ : Jac Int) ⟨1, 2, 1, 1⟩ ⟨4, 16, 2, 4⟩ =
    curvePoint_double ⟨0, 0, 0, 0⟩ ⟨1, 2, 1, 1⟩ := by decide
example : (curvePoint_double (⟨0, 0, 0, 7⟩ : Jac Int) ⟨1, 2, 1, 1⟩).t = 7 := by decide
end curve

/-! ## twist.go: the hand model `Jac K` at K = Fp2 α (the instances of Model/Bn256Tower.lean) -/
theorem gen_twistPoint_set_eq_model {α : Type} : @twistPoint_set α = fun a => a := rfl
theorem gen_twistPoint_setInfinity_eq_model {α : Type} [Zero α] [One α] :
    @twistPoint_setInfinity α _ _ = Jac.infinity := rfl
theorem gen_twistPoint_isInfinity_eq_model {α : Type} [Zero α] [DecidableEq α] :
    @twistPoint_isInfinity α _ _ = Jac.isInfinity := by
  funext c
  simp only [twistPoint_isInfinity, gfP2_isZero_eq]; rfl
theorem gen_twistPoint_makeAffine_eq_model {α : Type} [Add α] [Sub α] [Neg α] [Mul α] [Zero α] [One α] [Inv α] [DecidableEq α] :
    @twistPoint_makeAffine α _ _ _ _ _ _ _ _ = Jac.makeAffine := by
  funext c
  simp only [twistPoint_makeAffine, gfP2_isZero_eq, gfP2_isOne_eq, decide_eq_true_eq]
  rfl
theorem gen_twistPoint_double_eq_model {α : Type} [Add α] [Sub α] [Mul α] :
    @twistPoint_double α _ _ _ = Jac.double := rfl
theorem gen_twistPoint_add_eq_model {α : Type} [Add α] [Sub α] [Mul α] [Zero α] [DecidableEq α] :
    @twistPoint_add α _ _ _ _ _ = Jac.add := by
  funext c a b
  simp only [twistPoint_add, gen_twistPoint_isInfinity_eq_model, gen_twistPoint_double_eq_model, gfP2_isZero_eq]
  rfl
/-- after repo fix 4406972 Neg keeps `t` -/
theorem gen_twistPoint_neg_eq_model {α : Type} [Neg α] : @twistPoint_neg α _ = fun a => Jac.neg a a.t := rfl
theorem gen_twistPoint_mul_eq_model {α : Type} [Add α] [Sub α] [Mul α] [Zero α] [DecidableEq α] :
    @twistPoint_mul α _ _ _ _ _ = Jac.twistMul := by
  funext a scalar
  simp only [twistPoint_mul, gen_twistPoint_set_eq_model, gen_twistPoint_double_eq_model,
    gen_twistPoint_add_eq_model, ite_pair]
  rfl
theorem gen_twistPoint_isOnCurve_eq_model {α : Type} [Add α] [Sub α] [Neg α] [Mul α] [Zero α] [One α] [Inv α]
    [DecidableEq α] (order : Nat) (twistB : Fp2 α) (c : Jac (Fp2 α)) :
    twistPoint_isOnCurve order twistB c =
      (Jac.makeAffine c, if (Jac.makeAffine c).isInfinity then true
        else if (Jac.makeAffine c).y.square != ((Jac.makeAffine c).x.square.mul (Jac.makeAffine c).x).add twistB
          then false
        else decide ((Jac.twistMul (Jac.makeAffine c) order).z = Fp2.zero)) := by
  unfold twistPoint_isOnCurve
  simp only [gen_twistPoint_isInfinity_eq_model, gen_twistPoint_makeAffine_eq_model, gen_twistPoint_mul_eq_model,
    gfP2_isZero_eq, gen_gfP2_square_eq_model, gen_gfP2_mul_eq_model, gen_gfP2_add_eq_model]
  cases h : (Jac.makeAffine c).isInfinity
  · by_cases h2 : (Jac.makeAffine c).y.square = ((Jac.makeAffine c).x.square.mul (Jac.makeAffine c).x).add twistB
    · simp [h2]
    · simp [h2]
  · simp
theorem gen_twistPoint_isOnCurve_eq_model_gfp (c : G2J) :
    (twistPoint_isOnCurve Dos.Gen.Bn256.Order twistB c).2 = twistIsOnCurve c := by
  rw [gen_twistPoint_isOnCurve_eq_model]; rfl

/-! ## optate.go (the hand models of the line functions and the Miller loop are over the Montgomery gfP: the
proofs rewrite with the ties above and compare syntactically — a plain `rfl` on a MISMATCH would start to unfold
the Montgomery arithmetic on symbolic limbs) -/
theorem gen_finalExponentiation_eq_model {α : Type} [Add α] [Sub α] [Neg α] [Mul α] [Zero α] [One α] [Inv α] :
    @Bn256Code.finalExponentiation α _ _ _ _ _ _ _ = finalExponentiationG := by
  funext cs u inp
  simp only [Bn256Code.finalExponentiation, gen_gfP12_mul_eq_model, gen_gfP12_square_eq_model,
    gen_gfP12_invert_eq_model, gen_gfP12_conjugate_eq_model, gen_gfP12_exp_eq_model, gen_gfP12_frobenius_eq_model,
    gen_gfP12_frobeniusP2_eq_model, gen_gfP6_neg_eq_model, gen_gfP6_set_eq_model]
  rfl

theorem gen_lineFunctionAdd_eq_model (r p : G2J) (q : G1J) (r2 : F2) :
    Bn256Code.lineFunctionAdd r p q r2 =
      ((Dos.Bn256.lineFunctionAdd r p q r2).a, (Dos.Bn256.lineFunctionAdd r p q r2).b,
       (Dos.Bn256.lineFunctionAdd r p q r2).c, (Dos.Bn256.lineFunctionAdd r p q r2).rOut) := by
  simp only [Bn256Code.lineFunctionAdd, Dos.Bn256.lineFunctionAdd, gen_gfP2_mul_eq_model, gen_gfP2_add_eq_model,
    gen_gfP2_sub_eq_model, gen_gfP2_square_eq_model, gen_gfP2_neg_eq_model, gen_gfP2_mulScalar_eq_model]

theorem gen_lineFunctionDouble_eq_model (r : G2J) (q : G1J) :
    Bn256Code.lineFunctionDouble r q =
      ((Dos.Bn256.lineFunctionDouble r q).a, (Dos.Bn256.lineFunctionDouble r q).b,
       (Dos.Bn256.lineFunctionDouble r q).c, (Dos.Bn256.lineFunctionDouble r q).rOut) := by
  simp only [Bn256Code.lineFunctionDouble, Dos.Bn256.lineFunctionDouble, gen_gfP2_mul_eq_model, gen_gfP2_add_eq_model,
    gen_gfP2_sub_eq_model, gen_gfP2_square_eq_model, gen_gfP2_neg_eq_model, gen_gfP2_mulScalar_eq_model]

theorem gen_mulLine_eq_model : @Bn256Code.mulLine GFp _ _ _ _ = Dos.Bn256.mulLine := by
  funext ret a b c
  simp only [Bn256Code.mulLine, Dos.Bn256.mulLine, gen_gfP6_mul_eq_model, gen_gfP6_add_eq_model,
    gen_gfP6_sub_eq_model, gen_gfP6_mulTau_eq_model, gen_gfP6_mulScalar_eq_model, gen_gfP6_set_eq_model,
    gen_gfP2_set_eq_model, gen_gfP2_add_eq_model, Fp2.zero]

set_option maxRecDepth 100000 in
/-- the Miller loop: the translation is the loop UNROLLED over the 64 digits of sixuPlus2NAF (265 lets), the
model folds over the regenerated digit list; equal by evaluation of the fold -/
theorem gen_miller_eq_model : @Bn256Code.miller GFp _ _ _ _ _ _ _ _ frobConsts = Dos.Bn256.miller := by
  funext q p
  simp only [Bn256Code.miller, gen_gfP12_setOne_eq_model, gen_gfP12_square_eq_model, gen_twistPoint_set_eq_model,
    gen_twistPoint_makeAffine_eq_model, gen_curvePoint_set_eq_model, gen_curvePoint_makeAffine_eq_model,
    gen_twistPoint_neg_eq_model, gen_gfP2_square_eq_model, gen_gfP2_conjugate_eq_model, gen_gfP2_mul_eq_model,
    gen_gfP2_mulScalar_eq_model, gen_gfP2_set_eq_model, gen_gfP2_setOne_eq_model,
    gen_lineFunctionAdd_eq_model, gen_lineFunctionDouble_eq_model, gen_mulLine_eq_model]
  rfl

theorem gen_optimalAte_eq_model :
    @Bn256Code.optimalAte GFp _ _ _ _ _ _ _ _ frobConsts uParam = Dos.Bn256.optimalAte := by
  funext a b
  simp only [Bn256Code.optimalAte, gen_miller_eq_model, gen_finalExponentiation_eq_model,
    gen_twistPoint_isInfinity_eq_model, gen_curvePoint_isInfinity_eq_model, gen_gfP12_setOne_eq_model,
    Dos.Bn256.optimalAte, Dos.Bn256.finalExponentiation]

/-! ## consequences: the theorems about the hand models are theorems about the code-derived functions -/

/-- the tower multiplications derived from the code are the multiplications of α[i]/(i²+1), its cubic extension
by τ³ = ξ and the quadratic extension by ω² = τ, over every commutative ring -/
theorem code_tower_mul_is_extension {R : Type} [CommRing R] (a b : Fp2 R) (a6 b6 : Fp6 R) (a12 b12 : Fp12 R) :
    gfP2_mul a b = ⟨a.x * b.y + a.y * b.x, a.y * b.y - a.x * b.x⟩ ∧
    gfP6_mul a6 b6 = ⟨a6.x * b6.z + a6.y * b6.y + a6.z * b6.x,
                      a6.y * b6.z + a6.z * b6.y + Fp2.xi * (a6.x * b6.x),
                      a6.z * b6.z + Fp2.xi * (a6.x * b6.y + a6.y * b6.x)⟩ ∧
    gfP12_mul a12 b12 = ⟨a12.x * b12.y + a12.y * b12.x, a12.y * b12.y + Fp6.tau * (a12.x * b12.x)⟩ ∧
    gfP2_square a = gfP2_mul a a ∧ gfP6_square a6 = gfP6_mul a6 a6 ∧ gfP12_square a12 = gfP12_mul a12 a12 := by
  rw [gen_gfP2_mul_eq_model, gen_gfP6_mul_eq_model, gen_gfP12_mul_eq_model, gen_gfP2_square_eq_model,
    gen_gfP6_square_eq_model, gen_gfP12_square_eq_model]
  exact ⟨(C10Tower.gfP2_mul_is_quadratic_extension a b 0).1, (C10Tower.gfP6_mul_is_cubic_extension a6 b6 0 0).1,
    (C10Tower.gfP12_mul_is_quadratic_extension a12 b12).1, (C10Tower.gfP2_mul_is_quadratic_extension a b 0).2.1,
    (C10Tower.gfP6_mul_is_cubic_extension a6 b6 0 0).2.1, (C10Tower.gfP12_mul_is_quadratic_extension a12 b12).2.1⟩

/-- the code-derived gfP12.Exp is the k-th power for every k -/
theorem code_exp_is_power {R : Type} [CommRing R] (a : Fp12 R) (k : Nat) : gfP12_exp a k = a ^ k := by
  rw [gen_gfP12_exp_eq_model]; exact C10Tower.gfP12_exp_is_power a k

section
attribute [local instance] sqMul
/-- **the code-derived G1 arithmetic is the group law**: over every field of characteristic ≠ 2, on y² = x³ + b,
for valid Jacobian triples, every receiver and every branch, the translations of curvePoint.Add / Double / Mul
compute the sum, the double and the k-multiple in Mathlib's `WeierstrassCurve.Affine.Point` -/
theorem code_curve_is_group_law {K : Type} [Field K] [DecidableEq K] (h2 : (2 : K) ≠ 0) (bb : K)
    (c a b : Jac K) (ha : Valid bb a) (hb : Valid bb b) (k : Nat) :
    Valid bb (curvePoint_add c a b) ∧
    toPoint bb (curvePoint_add c a b) = toPoint bb a + toPoint bb b ∧
    toPoint bb (curvePoint_double c a) = toPoint bb a + toPoint bb a ∧
    toPoint bb (curvePoint_mul a k) = k • toPoint bb a := by
  have hsq : ∀ x : K, Sq.sq x = x * x := fun _ => rfl
  rw [gen_curvePoint_add_eq_model, gen_curvePoint_double_eq_model, gen_curvePoint_mul_eq_model]
  have h := C10Curve.add_is_group_addition hsq h2 bb c a b ha hb
  exact ⟨h.1, h.2.1, h.2.2.2, (C10Curve.mul_is_scalar_multiple hsq h2 bb a ha k 0 (zero_nsmul _)).1⟩
end

/-- **the code-derived final exponentiation is multiplicative** over every field whose Frobenius constants satisfy
their relations (`consts_frobenius_relations` for the regenerated ones) -/
theorem code_finalExponentiation_multiplicative {K : Type} [Field K] (cs : FrobConsts K) (hg : cs.Good) (u : Nat)
    (x y : Fp12 K) :
    Bn256Code.finalExponentiation cs u (gfP12_mul x y) =
      gfP12_mul (Bn256Code.finalExponentiation cs u x) (Bn256Code.finalExponentiation cs u y) ∧
    Bn256Code.finalExponentiation cs u gfP12_setOne = gfP12_setOne := by
  rw [gen_finalExponentiation_eq_model, gen_gfP12_mul_eq_model, gen_gfP12_setOne_eq_model]
  exact C10FinalExp.finalExponentiation_multiplicative cs hg u x y

example : gfP12_exp (⟨⟨⟨0, 0⟩, ⟨0, 0⟩, ⟨0, 0⟩⟩, ⟨⟨0, 0⟩, ⟨0, 0⟩, ⟨0, 3⟩⟩⟩ : Fp12 Int) 4 =
    ⟨⟨⟨0, 0⟩, ⟨0, 0⟩, ⟨0, 0⟩⟩, ⟨⟨0, 0⟩, ⟨0, 0⟩, ⟨0, 81⟩⟩⟩ := by decide +kernel

end Dos.Props.C10Code

import DosModel.Model.P2PSym
import DosModel.Model.ConnSym
import DosModel.Model.ConnTableCfg
import DosModel.Gen.P2PFlow
def c16Step (line : String) : String :=
  match Dos.words line with
  | ["hist", script] =>
    Dos.ConnSym.stepHist ⟨Dos.ConnTable.Cfg.code, Dos.Gen.decodeChecksAnything, Dos.Gen.runKeepsDrainingErrors⟩ script
  | _ => Dos.P2PSym.driverStep Dos.Gen.decodeChecksAnything Dos.Gen.runKeepsDrainingErrors line
def main : IO Unit := Dos.lineLoop c16Step

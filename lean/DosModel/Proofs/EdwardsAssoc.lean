/-
C20 — associativity of the a = −1 twisted Edwards addition law (`EdwardsCurve.lean`), for ALL
triples of curve points (the law is complete, so there are no exceptional cases).

After clearing the four inner and two outer denominators (all non-zero by `denom_ne_zero`
applied to P,Q / Q,R / P+Q,R / P,Q+R) each coordinate equality is a polynomial identity that lies
in the ideal of the three curve equations; the cofactors below were computed by reducing with
d·x²·y² ↦ y² − x² − 1 and are checked by `ring` inside `linear_combination`.

Consequences: `assocLaw E : AssocLaw E` and `instance : AddCommGroup (Point E)`.
-/
import DosModel.Proofs.EdwardsCurve

namespace Dos.Edwards

variable {K : Type*} [Field K]

/-- the x-coordinate of (P+Q)+R = P+(Q+R), denominators cleared -/
theorem assoc_x_poly {d x1 y1 x2 y2 x3 y3 : K} (h1 : OnCurve d x1 y1) (h2 : OnCurve d x2 y2)
    (h3 : OnCurve d x3 y3) :
    (((x1*y2 + y1*x2) * (1 - d*x1*x2*y1*y2) * y3 + (y1*y2 + x1*x2) * (1 + d*x1*x2*y1*y2) * x3)
      * ((1 + d*x2*x3*y2*y3) * (1 - d*x2*x3*y2*y3) + d*x1*y1*(x2*y3 + y2*x3)*(y2*y3 + x2*x3)))
    = (x1*(y2*y3 + x2*x3)*(1 + d*x2*x3*y2*y3) + y1*(x2*y3 + y2*x3)*(1 - d*x2*x3*y2*y3))
      * ((1 + d*x1*x2*y1*y2) * (1 - d*x1*x2*y1*y2) + d*(x1*y2 + y1*x2)*(y1*y2 + x1*x2)*x3*y3) := by
  unfold OnCurve at h1 h2 h3
  linear_combination
    (- d*y1*x2*y2^4*x3^2*y3 - d*y1*x2^2*y2^3*x3 - d*y1*x2^2*y2^3*x3^3 - d*y1*x2^3*y2^2*y3 +
      d*y1*x2^3*y2^2*y3^3 + d*y1*x2^4*y2*x3*y3^2 + d*x1*x2*y2^4*x3*y3^2 - d*x1*x2^2*y2^3*y3 +
      d*x1*x2^2*y2^3*y3^3 - d*x1*x2^3*y2^2*x3 - d*x1*x2^3*y2^2*x3^3 - d*x1*x2^4*y2*x3^2*y3 +
      d^2*y1*x2^3*y2^4*x3^2*y3 + d^2*y1*x2^4*y2^3*x3*y3^2 - d^2*x1*x2^3*y2^4*x3*y3^2 -
      d^2*x1*x2^4*y2^3*x3^2*y3) * h1
    + (y1*y2*x3 - y1*y2*x3*y3^2 + y1*y2*x3^3 + y1*x2*y3 - y1*x2*y3^3 + y1*x2*x3^2*y3 - y1^3*y2*x3 +
      y1^3*y2*x3*y3^2 - y1^3*y2*x3^3 - y1^3*x2*y3 + y1^3*x2*y3^3 - y1^3*x2*x3^2*y3 + x1*y2*y3 -
      x1*y2*y3^3 + x1*y2*x3^2*y3 + x1*x2*x3 - x1*x2*x3*y3^2 + x1*x2*x3^3 - x1*y1^2*y2*y3 +
      x1*y1^2*y2*y3^3 - x1*y1^2*y2*x3^2*y3 - x1*y1^2*x2*x3 + x1*y1^2*x2*x3*y3^2 - x1*y1^2*x2*x3^3
      + x1^2*y1*y2*x3 - x1^2*y1*y2*x3*y3^2 + x1^2*y1*y2*x3^3 + x1^2*y1*x2*y3 - x1^2*y1*x2*y3^3 +
      x1^2*y1*x2*x3^2*y3 + x1^3*y2*y3 - x1^3*y2*y3^3 + x1^3*y2*x3^2*y3 + x1^3*x2*x3 -
      x1^3*x2*x3*y3^2 + x1^3*x2*x3^3 + d*y1*y2*x3^3*y3^2 + d*y1*x2*x3^2*y3^3 -
      d*y1*x2*y2^2*x3^2*y3 - d*y1*x2^2*y2*x3*y3^2 - d*y1^3*y2*x3^3*y3^2 - d*y1^3*x2*x3^2*y3^3 +
      d*y1^3*x2*y2^2*x3^2*y3 + d*y1^3*x2^2*y2*x3*y3^2 + d*x1*y2*x3^2*y3^3 + d*x1*x2*x3^3*y3^2 +
      d*x1*x2*y2^2*x3*y3^2 + d*x1*x2^2*y2*x3^2*y3 - d*x1*y1^2*y2*x3^2*y3^3 -
      d*x1*y1^2*x2*x3^3*y3^2 - d*x1*y1^2*x2*y2^2*x3*y3^2 - d*x1*y1^2*x2^2*y2*x3^2*y3 +
      d*x1^2*y1*y2*x3^3*y3^2 + d*x1^2*y1*x2*x3^2*y3^3 - d*x1^2*y1*x2*y2^2*x3^2*y3 -
      d*x1^2*y1*x2^2*y2*x3*y3^2 + d*x1^3*y2*x3^2*y3^3 + d*x1^3*x2*x3^3*y3^2 +
      d*x1^3*x2*y2^2*x3*y3^2 + d*x1^3*x2^2*y2*x3^2*y3 + d^2*x1*y1^2*x2*y2^2*x3^3*y3^2 -
      d^2*x1*y1^2*x2^2*y2*x3^2*y3^3 - d^2*x1^2*y1*x2*y2^2*x3^2*y3^3 +
      d^2*x1^2*y1*x2^2*y2*x3^3*y3^2) * h2
    + (- y1*y2*x3 + y1*y2^3*x3 - y1*x2*y3 + y1*x2*y2^2*y3 - y1*x2^2*y2*x3 - y1*x2^3*y3 + y1^3*y2*x3
      - y1^3*y2^3*x3 + y1^3*x2*y3 - y1^3*x2*y2^2*y3 + y1^3*x2^2*y2*x3 + y1^3*x2^3*y3 - x1*y2*y3 +
      x1*y2^3*y3 - x1*x2*x3 + x1*x2*y2^2*x3 - x1*x2^2*y2*y3 - x1*x2^3*x3 + x1*y1^2*y2*y3 -
      x1*y1^2*y2^3*y3 + x1*y1^2*x2*x3 - x1*y1^2*x2*y2^2*x3 + x1*y1^2*x2^2*y2*y3 + x1*y1^2*x2^3*x3
      - x1^2*y1*y2*x3 + x1^2*y1*y2^3*x3 - x1^2*y1*x2*y3 + x1^2*y1*x2*y2^2*y3 - x1^2*y1*x2^2*y2*x3
      - x1^2*y1*x2^3*y3 - x1^3*y2*y3 + x1^3*y2^3*y3 - x1^3*x2*x3 + x1^3*x2*y2^2*x3 -
      x1^3*x2^2*y2*y3 - x1^3*x2^3*x3 - d*x1*y1^2*x2*y2^2*x3 + d*x1*y1^2*x2^2*y2*y3 +
      d*x1^2*y1*x2*y2^2*y3 - d*x1^2*y1*x2^2*y2*x3) * h3

/-- the y-coordinate of (P+Q)+R = P+(Q+R), denominators cleared -/
theorem assoc_y_poly {d x1 y1 x2 y2 x3 y3 : K} (h1 : OnCurve d x1 y1) (h2 : OnCurve d x2 y2)
    (h3 : OnCurve d x3 y3) :
    (((y1*y2 + x1*x2) * (1 + d*x1*x2*y1*y2) * y3 + (x1*y2 + y1*x2) * (1 - d*x1*x2*y1*y2) * x3)
      * ((1 + d*x2*x3*y2*y3) * (1 - d*x2*x3*y2*y3) - d*x1*y1*(x2*y3 + y2*x3)*(y2*y3 + x2*x3)))
    = (y1*(y2*y3 + x2*x3)*(1 + d*x2*x3*y2*y3) + x1*(x2*y3 + y2*x3)*(1 - d*x2*x3*y2*y3))
      * ((1 + d*x1*x2*y1*y2) * (1 - d*x1*x2*y1*y2) - d*(x1*y2 + y1*x2)*(y1*y2 + x1*x2)*x3*y3) := by
  unfold OnCurve at h1 h2 h3
  linear_combination
    (d*y1*x2*y2^4*x3*y3^2 - d*y1*x2^2*y2^3*y3 + d*y1*x2^2*y2^3*y3^3 - d*y1*x2^3*y2^2*x3 -
      d*y1*x2^3*y2^2*x3^3 - d*y1*x2^4*y2*x3^2*y3 - d*x1*x2*y2^4*x3^2*y3 - d*x1*x2^2*y2^3*x3 -
      d*x1*x2^2*y2^3*x3^3 - d*x1*x2^3*y2^2*y3 + d*x1*x2^3*y2^2*y3^3 + d*x1*x2^4*y2*x3*y3^2 -
      d^2*y1*x2^3*y2^4*x3*y3^2 - d^2*y1*x2^4*y2^3*x3^2*y3 + d^2*x1*x2^3*y2^4*x3^2*y3 +
      d^2*x1*x2^4*y2^3*x3*y3^2) * h1
    + (y1*y2*y3 - y1*y2*y3^3 + y1*y2*x3^2*y3 + y1*x2*x3 - y1*x2*x3*y3^2 + y1*x2*x3^3 - y1^3*y2*y3 +
      y1^3*y2*y3^3 - y1^3*y2*x3^2*y3 - y1^3*x2*x3 + y1^3*x2*x3*y3^2 - y1^3*x2*x3^3 + x1*y2*x3 -
      x1*y2*x3*y3^2 + x1*y2*x3^3 + x1*x2*y3 - x1*x2*y3^3 + x1*x2*x3^2*y3 - x1*y1^2*y2*x3 +
      x1*y1^2*y2*x3*y3^2 - x1*y1^2*y2*x3^3 - x1*y1^2*x2*y3 + x1*y1^2*x2*y3^3 - x1*y1^2*x2*x3^2*y3
      + x1^2*y1*y2*y3 - x1^2*y1*y2*y3^3 + x1^2*y1*y2*x3^2*y3 + x1^2*y1*x2*x3 - x1^2*y1*x2*x3*y3^2
      + x1^2*y1*x2*x3^3 + x1^3*y2*x3 - x1^3*y2*x3*y3^2 + x1^3*y2*x3^3 + x1^3*x2*y3 - x1^3*x2*y3^3
      + x1^3*x2*x3^2*y3 + d*y1*y2*x3^2*y3^3 + d*y1*x2*x3^3*y3^2 + d*y1*x2*y2^2*x3*y3^2 +
      d*y1*x2^2*y2*x3^2*y3 - d*y1^3*y2*x3^2*y3^3 - d*y1^3*x2*x3^3*y3^2 - d*y1^3*x2*y2^2*x3*y3^2 -
      d*y1^3*x2^2*y2*x3^2*y3 + d*x1*y2*x3^3*y3^2 + d*x1*x2*x3^2*y3^3 - d*x1*x2*y2^2*x3^2*y3 -
      d*x1*x2^2*y2*x3*y3^2 - d*x1*y1^2*y2*x3^3*y3^2 - d*x1*y1^2*x2*x3^2*y3^3 +
      d*x1*y1^2*x2*y2^2*x3^2*y3 + d*x1*y1^2*x2^2*y2*x3*y3^2 + d*x1^2*y1*y2*x3^2*y3^3 +
      d*x1^2*y1*x2*x3^3*y3^2 + d*x1^2*y1*x2*y2^2*x3*y3^2 + d*x1^2*y1*x2^2*y2*x3^2*y3 +
      d*x1^3*y2*x3^3*y3^2 + d*x1^3*x2*x3^2*y3^3 - d*x1^3*x2*y2^2*x3^2*y3 - d*x1^3*x2^2*y2*x3*y3^2
      + d^2*x1*y1^2*x2*y2^2*x3^2*y3^3 - d^2*x1*y1^2*x2^2*y2*x3^3*y3^2 -
      d^2*x1^2*y1*x2*y2^2*x3^3*y3^2 + d^2*x1^2*y1*x2^2*y2*x3^2*y3^3) * h2
    + (- y1*y2*y3 + y1*y2^3*y3 - y1*x2*x3 + y1*x2*y2^2*x3 - y1*x2^2*y2*y3 - y1*x2^3*x3 + y1^3*y2*y3
      - y1^3*y2^3*y3 + y1^3*x2*x3 - y1^3*x2*y2^2*x3 + y1^3*x2^2*y2*y3 + y1^3*x2^3*x3 - x1*y2*x3 +
      x1*y2^3*x3 - x1*x2*y3 + x1*x2*y2^2*y3 - x1*x2^2*y2*x3 - x1*x2^3*y3 + x1*y1^2*y2*x3 -
      x1*y1^2*y2^3*x3 + x1*y1^2*x2*y3 - x1*y1^2*x2*y2^2*y3 + x1*y1^2*x2^2*y2*x3 + x1*y1^2*x2^3*y3
      - x1^2*y1*y2*y3 + x1^2*y1*y2^3*y3 - x1^2*y1*x2*x3 + x1^2*y1*x2*y2^2*x3 - x1^2*y1*x2^2*y2*y3
      - x1^2*y1*x2^3*x3 - x1^3*y2*x3 + x1^3*y2^3*x3 - x1^3*x2*y3 + x1^3*x2*y2^2*y3 -
      x1^3*x2^2*y2*x3 - x1^3*x2^3*y3 - d*x1*y1^2*x2*y2^2*y3 + d*x1*y1^2*x2^2*y2*x3 +
      d*x1^2*y1*x2*y2^2*x3 - d*x1^2*y1*x2^2*y2*y3) * h3

/-- the rational-function step for the x-coordinate: all atoms generalized -/
private theorem frac_x {d x1 y1 x3 y3 N1 M1 p m N2 M2 p' m' : K} (hp : p ≠ 0) (hm : m ≠ 0)
    (hp' : p' ≠ 0) (hm' : m' ≠ 0)
    (hL : 1 + d * (N1 / p) * x3 * (M1 / m) * y3 ≠ 0)
    (hR : 1 + d * x1 * (N2 / p') * y1 * (M2 / m') ≠ 0)
    (key : (N1 * m * y3 + M1 * p * x3) * (p' * m' + d * x1 * y1 * N2 * M2)
      = (x1 * M2 * p' + y1 * N2 * m') * (p * m + d * N1 * M1 * x3 * y3)) :
    (N1 / p * y3 + M1 / m * x3) / (1 + d * (N1 / p) * x3 * (M1 / m) * y3)
      = (x1 * (M2 / m') + y1 * (N2 / p')) / (1 + d * x1 * (N2 / p') * y1 * (M2 / m')) := by
  rw [div_eq_div_iff hL hR]
  field_simp
  linear_combination key

/-- the rational-function step for the y-coordinate -/
private theorem frac_y {d x1 y1 x3 y3 N1 M1 p m N2 M2 p' m' : K} (hp : p ≠ 0) (hm : m ≠ 0)
    (hp' : p' ≠ 0) (hm' : m' ≠ 0)
    (hL : 1 - d * (N1 / p) * x3 * (M1 / m) * y3 ≠ 0)
    (hR : 1 - d * x1 * (N2 / p') * y1 * (M2 / m') ≠ 0)
    (key : (M1 * p * y3 + N1 * m * x3) * (p' * m' - d * x1 * y1 * N2 * M2)
      = (y1 * M2 * p' + x1 * N2 * m') * (p * m - d * N1 * M1 * x3 * y3)) :
    (M1 / m * y3 + N1 / p * x3) / (1 - d * (N1 / p) * x3 * (M1 / m) * y3)
      = (y1 * (M2 / m') + x1 * (N2 / p')) / (1 - d * x1 * (N2 / p') * y1 * (M2 / m')) := by
  rw [div_eq_div_iff hL hR]
  field_simp
  linear_combination key

variable {E : Params K}

/-- ASSOCIATIVITY of the Edwards addition law, for all curve points. -/
theorem add_assoc' (P Q R : Point E) : P + Q + R = P + (Q + R) := by
  obtain ⟨hLp, hLm⟩ := Point.denom_ne_zero (P + Q) R
  obtain ⟨hRp, hRm⟩ := Point.denom_ne_zero P (Q + R)
  obtain ⟨h12p, h12m⟩ := Point.denom_ne_zero P Q
  obtain ⟨h23p, h23m⟩ := Point.denom_ne_zero Q R
  have kx := assoc_x_poly P.on Q.on R.on
  have ky := assoc_y_poly P.on Q.on R.on
  ext
  · simp only [add_x, add_y] at hLp hRp ⊢
    exact frac_x h12p h12m h23p h23m hLp hRp kx
  · simp only [add_x, add_y] at hLm hRm ⊢
    exact frac_y h12p h12m h23p h23m hLm hRm ky

/-- the associativity hypothesis of `addCommGroup` holds -/
theorem assocLaw (E : Params K) : AssocLaw E := add_assoc'

/-- the curve points form a commutative group under the Edwards addition law -/
instance instAddCommGroup : AddCommGroup (Point E) := addCommGroup E (assocLaw E)

example (P Q : Point E) : (instAddCommGroup.toAdd.add P Q) = P + Q := rfl
example (P : Point E) : (instAddCommGroup.toNeg.neg P) = -P := rfl
example : (instAddCommGroup.toZero.zero : Point E) = 0 := rfl

end Dos.Edwards

/-
C10 layer 2/3 — the reduction half of gfpMul (MULQ path) at limb level and the final
composition: `redM` is (T mod 2^256)·np mod 2^256 although it only computes the ten partial
products that matter and drops every carry out of the fourth word; hence the limb model of
the whole function is `mulM` (Montgomery REDC of a·b), for ALL word operands and moduli.
-/
import Mathlib.Tactic.Ring
import DosModel.Proofs.MontMulSchool
import DosModel.Proofs.MontRedc

namespace Dos.Mont

theorem redA_tele {a0 a1 a2 a3 h00 l01 h01 l02 h02 l03 h03 c1 d1 c2 d2 c3 q00 q01 q02 q03 : Nat}
    (m0 : a0 + W * h00 = q00) (m1 : l01 + W * h01 = q01) (m2 : l02 + W * h02 = q02) (m3 : l03 + W * h03 = q03)
    (e1 : a1 + W * c1 = h00 + l01) (f1 : d1 = h01 + c1) (e2 : a2 + W * c2 = d1 + l02) (f2 : d2 = h02 + c2)
    (e3 : a3 + W * c3 = d2 + l03) :
    v4 a0 a1 a2 a3 + R * (c3 + h03) = q00 + W * q01 + W * W * q02 + W * W * W * q03 := by
  simp only [v4, W, R] at *; omega

theorem redB_tele {b0 b1 b2 h10 l11 h11 l12 h12 c1 d1 c2 q10 q11 q12 : Nat}
    (m0 : b0 + W * h10 = q10) (m1 : l11 + W * h11 = q11) (m2 : l12 + W * h12 = q12)
    (e1 : b1 + W * c1 = h10 + l11) (f1 : d1 = h11 + c1) (e2 : b2 + W * c2 = d1 + l12) :
    b0 + W * b1 + W * W * b2 + W * W * W * (c2 + h12) = q10 + W * q11 + W * W * q12 := by
  simp only [W] at *; omega

theorem redC_tele {c0 c1 h20 l21 h21 k q20 q21 : Nat}
    (m0 : c0 + W * h20 = q20) (m1 : l21 + W * h21 = q21) (e1 : c1 + W * k = h20 + l21) :
    c0 + W * c1 + W * W * (k + h21) = q20 + W * q21 := by
  simp only [W] at *; omega

theorem redSum_tele {a1 a2 a3 b0 b1 b2 c0 c1 d0 m1 m2 m3 e2 e3 f3 k1 k2 k3 k4 k5 k6 : Nat}
    (s1 : m1 + W * k1 = a1 + b0) (s2 : e2 + W * k2 = a2 + b1 + k1) (s3 : e3 + W * k3 = a3 + b2 + k2)
    (s4 : m2 + W * k4 = e2 + c0) (s5 : f3 + W * k5 = e3 + c1 + k4) (s6 : m3 + W * k6 = f3 + d0) :
    W * m1 + W * W * m2 + W * W * W * m3 + R * (k3 + k5 + k6) =
      W * (a1 + W * a2 + W * W * a3) + W * (b0 + W * b1 + W * W * b2) + W * W * (c0 + W * c1)
        + W * W * W * d0 := by
  simp only [W, R] at *; omega

theorem redFinal_tele {a0 a1 a2 a3 b0 b1 b2 c0 c1 d0 m1 m2 m3 KA KS KB KC h30 QA QB QC Q30 : Nat}
    (TA : v4 a0 a1 a2 a3 + R * KA = QA)
    (TS : W * m1 + W * W * m2 + W * W * W * m3 + R * KS =
      W * (a1 + W * a2 + W * W * a3) + W * (b0 + W * b1 + W * W * b2) + W * W * (c0 + W * c1) + W * W * W * d0)
    (TB : b0 + W * b1 + W * W * b2 + W * W * W * KB = QB) (TC : c0 + W * c1 + W * W * KC = QC)
    (T3 : d0 + W * h30 = Q30) :
    v4 a0 m1 m2 m3 + R * (KA + KS + KB + KC + h30) = QA + W * QB + W * W * QC + W * W * W * Q30 := by
  simp only [v4, W, R] at *; omega

theorem red_agg {M K X Y : Nat} (hM : M < R) (h1 : M + R * K = X) (h2 : Y = X + R * 0 ∨ ∃ r, Y = X + R * r) :
    Y % R = M := by
  rcases h2 with h | ⟨r, h⟩
  · rw [h, Nat.mul_zero, Nat.add_zero, ← h1, Nat.add_mul_mod_self_left, Nat.mod_eq_of_lt hM]
  · rw [h, ← h1, Nat.add_assoc, ← Nat.mul_add, Nat.add_mul_mod_self_left, Nat.mod_eq_of_lt hM]

set_option maxHeartbeats 1000000 in
/-- **redM**: the four words are (t·np) mod 2^256 -/
theorem redM_val (np : L4) (t0 t1 t2 t3 : Nat) (hnp : np.ok) (h0 : t0 < W) (h1 : t1 < W) (h2 : t2 < W)
    (h3 : t3 < W) :
    (redM np t0 t1 t2 t3).val = (v4 t0 t1 t2 t3 * np.val) % R ∧ (redM np t0 t1 t2 t3).ok := by
  obtain ⟨n0, n1, n2, n3⟩ := np
  obtain ⟨hn0, hn1, hn2, hn3⟩ := hnp
  simp only at hn0 hn1 hn2 hn3
  simp only [redM, L4.val_eq, L4.ok]
  -- row np0
  obtain ⟨q00, l00, k00⟩ := mul_spec n0 t0 hn0 h0
  obtain ⟨q01, l01', k01⟩ := mul_spec n0 t1 hn0 h1
  obtain ⟨q02, l02', k02⟩ := mul_spec n0 t2 hn0 h2
  obtain ⟨q03, l03', _⟩ := mul_spec n0 t3 hn0 h3
  generalize mulLo n0 t0 = a0 at *
  generalize mulHi n0 t0 = h00 at *
  generalize mulLo n0 t1 = l01 at *
  generalize mulHi n0 t1 = h01 at *
  generalize mulLo n0 t2 = l02 at *
  generalize mulHi n0 t2 = h02 at *
  generalize mulLo n0 t3 = l03 at *
  generalize mulHi n0 t3 = h03 at *
  have hh00 : h00 < W := by simp only [W] at *; omega
  obtain ⟨ea1, na1, ja1⟩ := add_spec h00 l01 hh00 l01'
  generalize addLo h00 l01 = a1 at *
  generalize addC h00 l01 = ca1 at *
  have fa1 := adc0_exact h01 ca1 k01 ja1
  generalize adcLo h01 0 ca1 = da1 at *
  have hda1 : da1 < W := by simp only [W] at *; omega
  obtain ⟨ea2, na2, ja2⟩ := add_spec da1 l02 hda1 l02'
  generalize addLo da1 l02 = a2 at *
  generalize addC da1 l02 = ca2 at *
  have fa2 := adc0_exact h02 ca2 k02 ja2
  generalize adcLo h02 0 ca2 = da2 at *
  have hda2 : da2 < W := by simp only [W] at *; omega
  obtain ⟨ea3, na3, _⟩ := add_spec da2 l03 hda2 l03'
  generalize addLo da2 l03 = a3 at *
  generalize addC da2 l03 = ca3 at *
  have TA := redA_tele q00 q01 q02 q03 ea1 fa1 ea2 fa2 ea3
  -- row np1
  obtain ⟨q10, l10, k10⟩ := mul_spec n1 t0 hn1 h0
  obtain ⟨q11, l11', k11⟩ := mul_spec n1 t1 hn1 h1
  obtain ⟨q12, l12', _⟩ := mul_spec n1 t2 hn1 h2
  generalize mulLo n1 t0 = b0 at *
  generalize mulHi n1 t0 = h10 at *
  generalize mulLo n1 t1 = l11 at *
  generalize mulHi n1 t1 = h11 at *
  generalize mulLo n1 t2 = l12 at *
  generalize mulHi n1 t2 = h12 at *
  have hh10 : h10 < W := by simp only [W] at *; omega
  obtain ⟨eb1, nb1, jb1⟩ := add_spec h10 l11 hh10 l11'
  generalize addLo h10 l11 = b1 at *
  generalize addC h10 l11 = cb1 at *
  have fb1 := adc0_exact h11 cb1 k11 jb1
  generalize adcLo h11 0 cb1 = db1 at *
  have hdb1 : db1 < W := by simp only [W] at *; omega
  obtain ⟨eb2, nb2, _⟩ := add_spec db1 l12 hdb1 l12'
  generalize addLo db1 l12 = b2 at *
  generalize addC db1 l12 = cb2 at *
  have TB := redB_tele q10 q11 q12 eb1 fb1 eb2
  -- first sum
  obtain ⟨s1, nm1, js1⟩ := add_spec a1 b0 na1 l10
  generalize addLo a1 b0 = m1 at *
  generalize addC a1 b0 = k1 at *
  obtain ⟨s2, ne2, js2⟩ := adc_spec a2 b1 k1 na2 nb1 js1
  generalize adcLo a2 b1 k1 = e2 at *
  generalize adcC a2 b1 k1 = k2 at *
  obtain ⟨s3, ne3, _⟩ := adc_spec a3 b2 k2 na3 nb2 js2
  generalize adcLo a3 b2 k2 = e3 at *
  generalize adcC a3 b2 k2 = k3 at *
  -- row np2
  obtain ⟨q20, l20, k20⟩ := mul_spec n2 t0 hn2 h0
  obtain ⟨q21, l21', _⟩ := mul_spec n2 t1 hn2 h1
  generalize mulLo n2 t0 = c0 at *
  generalize mulHi n2 t0 = h20 at *
  generalize mulLo n2 t1 = l21 at *
  generalize mulHi n2 t1 = h21 at *
  have hh20 : h20 < W := by simp only [W] at *; omega
  obtain ⟨ec1, nc1, _⟩ := add_spec h20 l21 hh20 l21'
  generalize addLo h20 l21 = c1 at *
  generalize addC h20 l21 = kc at *
  have TC := redC_tele q20 q21 ec1
  -- second sum
  obtain ⟨s4, nm2, js4⟩ := add_spec e2 c0 ne2 l20
  generalize addLo e2 c0 = m2 at *
  generalize addC e2 c0 = k4 at *
  obtain ⟨s5, nf3, _⟩ := adc_spec e3 c1 k4 ne3 nc1 js4
  generalize adcLo e3 c1 k4 = f3 at *
  generalize adcC e3 c1 k4 = k5 at *
  -- row np3
  obtain ⟨q30, l30, _⟩ := mul_spec n3 t0 hn3 h0
  generalize mulLo n3 t0 = d0 at *
  generalize mulHi n3 t0 = h30 at *
  obtain ⟨s6, nm3, _⟩ := add_spec f3 d0 nf3 l30
  generalize addLo f3 d0 = m3 at *
  generalize addC f3 d0 = k6 at *
  have TS := redSum_tele s1 s2 s3 s4 s5 s6
  refine ⟨?_, l00, nm1, nm2, nm3⟩
  have TF := redFinal_tele TA TS TB TC q30
  symm
  apply red_agg (v4_lt l00 nm1 nm2 nm3) TF
  right
  refine ⟨n1 * t3 + n2 * t2 + n3 * t1 + W * (n2 * t3 + n3 * t2) + W * W * (n3 * t3), ?_⟩
  have hR : R = W * W * W * W := by decide
  rw [hR]; simp only [v4]; ring

theorem L8.lo_eq_mod (t : L8) (ht : t.ok) : v4 t.l0 t.l1 t.l2 t.l3 = t.val % R := by
  have hlt := v4_lt ht.1 ht.2.1 ht.2.2.1 ht.2.2.2.1
  simp only [L8.val]
  rw [Nat.add_mul_mod_self_left, Nat.mod_eq_of_lt hlt]

theorem L5.val_eq (u : L5) : u.val = v4 u.l0 u.l1 u.l2 u.l3 + R * u.l4 := by
  simp only [L5.val, v4, R, W]

/-- **gfpMul, MULQ path, limb-exact, all operands**: the composition of the macro blocks stores
`mulM p np a b` = REDC(a·b) with one conditional subtraction, truncated to four words -/
theorem mulStructMULQ_val (p np a b : L4) (hp : p.ok) (hnp : np.ok) (ha : a.ok) (hb : b.ok) :
    (mulStructMULQ p np a b).val = mulM p.val np.val a.val b.val ∧ (mulStructMULQ p np a b).ok := by
  obtain ⟨hT, oT⟩ := mul8_val a b ha hb
  obtain ⟨hm, om⟩ := redM_val np (mul8 a b).l0 (mul8 a b).l1 (mul8 a b).l2 (mul8 a b).l3 hnp
    oT.1 oT.2.1 oT.2.2.1 oT.2.2.2.1
  obtain ⟨hM, oM⟩ := mul8_val p _ hp om
  obtain ⟨hu, ou⟩ := hi5_val _ _ oM oT
  obtain ⟨hc, oc⟩ := carryLimbs_val p _ _ _ _ _ hp ou.1 ou.2.1 ou.2.2.1 ou.2.2.2.1 ou.2.2.2.2
  refine ⟨?_, oc⟩
  simp only [mulStructMULQ]
  rw [hc, ← L5.val_eq, hu, hM, hm, L8.lo_eq_mod _ oT, hT]
  simp only [mulM, redc, redcU]
  have e : (p.val * (a.val * b.val % R * np.val % R) + a.val * b.val) / R =
      (a.val * b.val + a.val * b.val % R * np.val % R * p.val) / R := by
    congr 1; ring
  rw [e]
  rfl

/-- the flat model generated from the listing, hence the interpreted assembly, computes `mulM` -/
theorem mulLimbsMULQ_val (p np a b : L4) (hp : p.ok) (hnp : np.ok) (ha : a.ok) (hb : b.ok) :
    (mulLimbsMULQ p np a b).val = mulM p.val np.val a.val b.val ∧ (mulLimbsMULQ p np a b).ok := by
  rw [mulLimbsMULQ_eq]; exact mulStructMULQ_val p np a b hp hnp ha hb

end Dos.Mont

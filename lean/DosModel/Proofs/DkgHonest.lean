/-
Honest key generation (C04): whatever sequence of GENUINE deals and responses a member's
`DistKeyGenerator` processes – any order, any repetition, any subset – every deal it stores is the
dealer's genuine deal for it; hence a finished member outputs the coefficient-wise sum of the
dealers' commitments and the sum of the dealers' polynomials at its own index.
-/
import DosModel.Proofs.DkgMember
import DosModel.Model.DkgNet
import DosModel.Proofs.Share

set_option linter.unusedSectionVars false

namespace Dos.Dkg
open Dos Dos.Vss

variable {F G : Type} [Field F] [AddCommGroup G] [Module F G] [DecidableEq F] [DecidableEq G]

/-- a genuine deal message: dealer `j`'s deal for some member `i'`, sealed by `j` -/
def GenuineDeal (c : Cfg F G) (m : DkgDeal F G) : Prop :=
  ∃ (j i' : Nat) (long eph : F) (f : List F) (rnd : Nat), c.longs[j]? = some long ∧ c.polys[j]? = some f ∧
    m = ⟨j, sealDeal c.g long c.pubs i' eph rnd (.deal (honestDeal c.g long c.pubs f i'))⟩

/-- every stored deal is the genuine one of that slot's dealer for this member -/
def StoredGenuine (c : Cfg F G) (d : Gen F G) : Prop :=
  ∀ j dl, dealAt d j = some dl → ∃ long f, c.longs[j]? = some long ∧ c.polys[j]? = some f ∧
    dl = honestDeal c.g long c.pubs f d.index

theorem sealed_plain {g : G} {long : F} {L : List G} {i : Nat} {eph : F} {rnd : Nat} {pt : Plain F G}
    {e : EncDeal F G} (h : sealDeal g long L i eph rnd pt = some e) (v : Verifier F G) (d : Deal F G)
    (hd : decryptDeal g v e = .ok d) : pt = .deal d := by
  obtain ⟨_, X, _, _, hc⟩ := (decryptDeal_ok_iff g v e d).1 hd
  unfold sealDeal at h
  split at h
  · cases h
  · injection h with h; subst h
    simp only [Cipher.seal.injEq] at hc
    exact hc.2.2.2

/-- `ProcessDeal` of a genuine deal keeps "all stored deals are genuine" -/
theorem processDeal_genuine (c : Cfg F G) (d : Gen F G) (m : DkgDeal F G) (hd : GoodGen0 c.g d)
    (hs : StoredGenuine c d) (hm : GenuineDeal c m) :
    StoredGenuine c (processDeal c.g d m).1 := by
  obtain ⟨j, i', long, eph, f, rnd, hlong, hf, hmeq⟩ := hm
  unfold processDeal
  rcases hp : d.participants[m.index]? with _ | pub
  · exact hs
  · have hjlt : m.index < d.participants.length := by
      rcases Nat.lt_or_ge m.index d.participants.length with h | h
      · exact h
      · rw [List.getElem?_eq_none h] at hp; cases hp
    simp only
    by_cases hex : (getVerifier d m.index).isSome = true
    · rw [if_pos hex]; exact hs
    · simp only [hex, if_false, Bool.false_eq_true]
      have hnone : getVerifier d m.index = none := by simpa using hex
      rcases hnv : newVerifier c.g d.long pub d.participants with err | ver
      · exact hs
      · obtain ⟨i, hi, hver⟩ := newVerifier_ok hnv
        have hii : i = d.index := by rw [hd.idx] at hi; injection hi with hi; exact hi.symm
        subst hii
        have hverf : ver.agg = none ∧ ver.index = d.index ∧ ver.vs = d.participants := by
          subst hver; exact ⟨rfl, rfl, rfl⟩
        obtain ⟨hva, hvi, hvv⟩ := hverf
        have hjv : m.index < d.verifiers.length := by rw [hd.len]; exact hjlt
        -- storing a verifier `w` in the empty slot: genuine as long as `w`'s deal is
        have key : ∀ w : Verifier F G, (∀ a dl, w.agg = some a → a.deal = some dl →
            dl = honestDeal c.g long c.pubs f d.index) → StoredGenuine c (setVerifier d m.index w) := by
          intro w hw k dl hk
          have hidx : (setVerifier d m.index w).index = d.index := (setVerifier_frame d m.index w).2.1
          rw [hidx]
          unfold dealAt at hk
          rw [getVerifier_set d m.index k w hjv] at hk
          by_cases hmk : m.index = k
          · simp only [hmk, if_true, Option.bind_some] at hk
            rcases hwa : w.agg with _ | a
            · simp [hwa] at hk
            · simp only [hwa, Option.bind_some] at hk
              have := hw a dl hwa hk
              have hjk : j = k := by rw [← hmk, hmeq]
              exact ⟨long, f, by rw [← hjk]; exact hlong, by rw [← hjk]; exact hf, this⟩
          · simp only [hmk, if_false] at hk
            exact hs k dl hk
        rcases hdeal : m.deal with _ | e
        · exact key ver (by intro a dl ha; rw [hva] at ha; cases ha)
        · simp only
          rcases pe_fresh c.g ver e 0 hva (by rw [hvi, hvv]; exact hd.lt) with ⟨err, herr⟩ | ⟨dl, r, a, hdec, hpe, _, _, _, _, hshare, _, _, _, _, _, h6, _, _⟩
          · rw [herr]; exact key ver (by intro a dl ha; rw [hva] at ha; cases ha)
          · rw [hpe]
            simp only
            -- the opened deal is the sealed plaintext, and its share index is this member's
            have hsealed : sealDeal c.g long c.pubs i' eph rnd (.deal (honestDeal c.g long c.pubs f i')) = some e := by
              rw [hmeq] at hdeal; exact hdeal
            have hpt := sealed_plain hsealed ver dl hdec
            injection hpt with hpt
            have hi' : (i' : Int) = (d.index : Int) := by
              have := hshare ⟨(i' : Int), some (priEval f (i' : Int))⟩ (by rw [← hpt]; rfl)
              simpa [hvi] using this
            have hi'' : i' = d.index := by exact_mod_cast hi'
            have hstored : ∀ a2 dl2, (({ ver with agg := some a, approved := r.status } : Verifier F G).unsafeSetResponse m.index true).agg = some a2 →
                a2.deal = some dl2 → dl2 = honestDeal c.g long c.pubs f d.index := by
              intro a2 dl2 ha2 hdl2
              rcases unsafeSet_agg ({ ver with agg := some a, approved := r.status } : Verifier F G) m.index a rfl with hu | ⟨a', hu, _, _, ha'⟩
              · rw [hu] at ha2; injection ha2 with ha2; subst ha2
                rcases h6 with h6 | h6
                · rw [h6] at hdl2; cases hdl2
                · rw [h6] at hdl2; injection hdl2 with hdl2; rw [← hdl2, ← hpt, hi'']
              · rw [hu] at ha2; injection ha2 with ha2; subst ha2
                rw [ha'] at hdl2
                rcases h6 with h6 | h6
                · rw [h6] at hdl2; cases hdl2
                · rw [h6] at hdl2; injection hdl2 with hdl2; rw [← hdl2, ← hpt, hi'']
            exact key _ hstored

/-- `ProcessResponse` never changes a stored deal -/
theorem processResponse_genuine (c : Cfg F G) (d : Gen F G) (m : DkgResp F G) (hd : GoodGen c.g d)
    (hs : StoredGenuine c d) : StoredGenuine c (processResponse c.g d m).1 := by
  intro j dl hj
  rw [(processResponse_frame c.g d m).2.1]
  rcases processResponse_rel c.g d m hd j with h | ⟨v, a, a2, hb, hva, haf, _, hdl, _, _, _⟩
  · apply hs j dl
    unfold dealAt at hj ⊢; rw [h] at hj; exact hj
  · apply hs j dl
    unfold dealAt at hj ⊢
    rw [haf] at hj
    simp only [Option.bind_some] at hj
    rw [hb]; simp only [Option.bind_some, hva]
    rw [← hdl]; exact hj

/-- **what a finished honest member outputs**: with all stored deals genuine, `DistKeyShare()` returns
the sum of all dealers' commitment vectors and the sum of all dealers' polynomials at the own index. -/
theorem finished_genuine (c : Cfg F G) (d : Gen F G) (ks : KeyShare F G) (hlen : d.verifiers.length = d.participants.length)
    (hn : d.participants.length = c.n) (hpl : c.polys.length = c.n) (hs : StoredGenuine c d)
    (h : distKeyShare d = .ok ks) :
    ks.commits = vecSum (c.polys.map (commit c.g)) ∧
    ks.shareV = (c.polys.map (fun f => priEval f (d.index : Int))).sum ∧ ks.shareI = d.index := by
  obtain ⟨_, hslots, hcom, _, hsh, hi, _⟩ := distKeyShare_spec d ks hlen h
  have hat : ∀ j, j < c.n → ∃ long f, c.polys[j]? = some f ∧ dealAt d j = some (honestDeal c.g long c.pubs f d.index) := by
    intro j hj
    obtain ⟨v, a, dl, _, _, hv, hagg, hdl, _, _⟩ := hslots j (by rw [hn]; exact hj)
    have hda : dealAt d j = some dl := by simp [dealAt, hv, hagg, hdl]
    obtain ⟨long, f, _, hf, hdeq⟩ := hs j dl hda
    exact ⟨long, f, hf, by rw [hda, hdeq]⟩
  have hrange : ∀ {α : Type} (φ : Nat → α) (ψ : List F → α), (∀ j f, c.polys[j]? = some f → j < c.n → φ j = ψ f) →
      (List.range c.n).map φ = c.polys.map ψ := by
    intro α φ ψ hφ
    apply List.ext_getElem
    · simp [hpl]
    · intro k h1 h2
      simp only [List.getElem_map, List.getElem_range]
      have hk : k < c.n := by simpa using h1
      have hk2 : k < c.polys.length := by rw [hpl]; exact hk
      exact hφ k c.polys[k] (List.getElem?_eq_getElem hk2) hk
  refine ⟨?_, ?_, hi⟩
  · rw [hcom, hn]
    congr 1
    apply hrange
    intro j f hf hj
    obtain ⟨long, f', hf', hda⟩ := hat j hj
    rw [hf] at hf'; injection hf' with hf'; subst hf'
    simp [commitsAt, hda, honestDeal]
  · rw [hsh, hn]
    congr 1
    apply hrange
    intro j f hf hj
    obtain ⟨long, f', hf', hda⟩ := hat j hj
    rw [hf] at hf'; injection hf' with hf'; subst hf'
    simp [valAt, hda, valOf, honestDeal]

/-! ### every generator state an honest run can reach -/

/-- States of member `i`'s `DistKeyGenerator` reachable in a run in which every deal is genuine:
`Deals()` on a fresh generator, then ANY sequence of `ProcessDeal` on genuine deals (any dealer, any
addressee, repeated, in any order) and `ProcessResponse` on arbitrary responses. Every schedule of
the networked protocol among honest members only produces such sequences. -/
inductive HonestReach (c : Cfg F G) (i : Nat) : Gen F G → Prop
  | init (long : F) (f ephs : List F) (d0 d1 : Gen F G) (ds : List (Nat × DkgDeal F G)) :
      c.longs[i]? = some long → c.polys[i]? = some f → newGen c.g long c.pubs f = .ok d0 →
      deals c.g d0 ephs = .ok (d1, ds) → HonestReach c i d1
  | deal (d : Gen F G) (m : DkgDeal F G) : HonestReach c i d → GenuineDeal c m →
      HonestReach c i (processDeal c.g d m).1
  | resp (d : Gen F G) (m : DkgResp F G) : HonestReach c i d → HonestReach c i (processResponse c.g d m).1

theorem findIndex_get (pub : G) : ∀ (l : List G) (k i : Nat), findIndex pub l k = some i → l[i - k]? = some pub
  | [], k, i, h => by simp [findIndex] at h
  | p :: ps, k, i, h => by
    unfold findIndex at h
    by_cases hp : p = pub
    · simp only [hp, if_true, Option.some.injEq] at h; subst h; simp [hp]
    · simp only [hp, if_false] at h
      have := findIndex_get pub ps (k + 1) i h
      have hlt := (findIndex_lt pub ps (k + 1) i h).1
      have : i - k = (i - (k + 1)) + 1 := by omega
      rw [this]; simpa using ‹ps[i - (k + 1)]? = some pub›

theorem honestReach_inv (c : Cfg F G) (i : Nat) (hg : c.g ≠ 0) (hnd : c.pubs.Nodup) (d : Gen F G)
    (h : HonestReach c i d) :
    GoodGen c.g d ∧ StoredGenuine c d ∧ d.participants = c.pubs ∧ d.index = i := by
  induction h with
  | init long f ephs d0 d1 ds hlong hf hng hdl =>
    obtain ⟨h0, hempty, hp, hl, hdf⟩ := newGen_good0 hng
    obtain ⟨i1, _, i3, i4, i5, i6⟩ := deals_good c.g d0 d1 ephs ds h0 hempty hdl
    have hidx : d0.index = i := by
      have h1 := findIndex_get (d0.long • c.g) d0.participants 0 d0.index h0.idx
      rw [hp, hl] at h1
      simp only [Nat.sub_zero] at h1
      have h2 : c.pubs[i]? = some (long • c.g) := by simp [Cfg.pubs, hlong]
      have hlt1 : d0.index < c.pubs.length := by rw [← hp]; exact h0.lt
      have hlt2 : i < c.pubs.length := by
        rcases Nat.lt_or_ge i c.pubs.length with h | h
        · exact h
        · rw [List.getElem?_eq_none h] at h2; cases h2
      rw [List.getElem?_eq_getElem hlt1] at h1
      rw [List.getElem?_eq_getElem hlt2] at h2
      injection h1 with h1; injection h2 with h2
      exact hnd.getElem_inj_iff.1 (by rw [h1, h2])
    refine ⟨i1, ?_, by rw [i5, hp], by rw [i3, hidx]⟩
    -- the own deal is the only stored one, and it is genuine
    unfold deals at hdl
    simp only [hempty d0.index, Option.isSome_none, Bool.false_eq_true, if_false] at hdl
    have hown : GenuineDeal c { index := d0.index, deal := ((encryptedDeals c.g d0.dealer ephs)[d0.index]?).join } := by
      have hdealer : d0.dealer.long = long ∧ d0.dealer.vs = c.pubs ∧
          d0.dealer.deals = (List.range c.pubs.length).map (fun k => honestDeal c.g long c.pubs f k) := by
        unfold newGen at hng
        split at hng
        · cases hng
        · split at hng
          · cases hng
          · rename_i dl hnd'
            injection hng with hng; subst hng
            unfold newDealer at hnd'
            simp only at hnd'
            split at hnd'
            · cases hnd'
            · injection hnd' with hnd'; subst hnd'; exact ⟨rfl, rfl, rfl⟩
      obtain ⟨hd1, hd2, hd3⟩ := hdealer
      have hlt : d0.index < c.pubs.length := by rw [← hp]; exact h0.lt
      unfold encryptedDeals
      rw [hd2, hd3]
      simp only [List.getElem?_map, List.getElem?_range hlt, Option.map_some, Option.join_some, hd1]
      rcases ephs[d0.index]? with _ | eph
      · -- no ephemeral secret: no encrypted deal (a deal nobody can process)
        refine ⟨i, c.pubs.length, long, 0, f, 0, hlong, hf, ?_⟩
        simp [sealDeal, hidx]
      · exact ⟨i, d0.index, long, eph, f, 0, hlong, hf, by simp [hidx]⟩
    have hsg0 : StoredGenuine c d0 := by
      intro j dl hj; simp [dealAt, hempty j] at hj
    have hsg1 := processDeal_genuine c d0 _ h0 hsg0 hown
    rcases hpd : processDeal c.g d0 { index := d0.index, deal := ((encryptedDeals c.g d0.dealer ephs)[d0.index]?).join } with ⟨d', res⟩
    rw [hpd] at hdl hsg1
    simp only at hdl hsg1
    rcases res with err | resp
    · cases hdl
    · simp only at hdl
      rcases hrr : resp.resp with _ | r
      · rw [hrr] at hdl; cases hdl
      · rw [hrr] at hdl
        simp only at hdl
        by_cases hs : r.status = true
        · simp only [hs, if_true] at hdl
          injection hdl with hdl; injection hdl with h1 _; subst h1
          exact hsg1
        · simp [hs] at hdl
  | deal d m _ hm ih =>
    obtain ⟨i1, i2, i3, i4⟩ := ih
    have hgood := processDeal_good c.g d m i1
    have hgen := processDeal_genuine c d m i1.toGoodGen0 i2 hm
    rcases processDeal_slots c.g d m with he | ⟨_, _, w, hw⟩
    · rw [he]; exact ⟨i1, i2, i3, i4⟩
    · refine ⟨hgood, hgen, ?_, ?_⟩
      · rw [hw]; exact (setVerifier_frame d m.index w).1.trans i3
      · rw [hw]; exact (setVerifier_frame d m.index w).2.1.trans i4
  | resp d m _ ih =>
    obtain ⟨i1, i2, i3, i4⟩ := ih
    have hfr := processResponse_frame c.g d m
    exact ⟨processResponse_good c.g d m i1, processResponse_genuine c d m i1 i2, by rw [hfr.1, i3], by rw [hfr.2.1, i4]⟩

/-! ### the secret behind the group key -/

theorem headD_zipWith_add (p q : List F) (h : p.length = q.length) :
    (List.zipWith (· + ·) p q).headD 0 = p.headD 0 + q.headD 0 := by
  cases p with
  | nil => cases q <;> simp_all
  | cons a p => cases q with
    | nil => simp at h
    | cons b q => simp

/-- the constant coefficient of the summed polynomial is the sum of the dealers' secrets -/
theorem headD_vecSum (L : Nat) (fs : List (List F)) (h : ∀ f ∈ fs, f.length = L) :
    (vecSum fs).headD 0 = (fs.map (fun f => f.headD 0)).sum := by
  cases fs with
  | nil => simp [vecSum]
  | cons f rest =>
    simp only [vecSum, List.map_cons, List.sum_cons]
    have hf := h f (by simp)
    have hr : ∀ y ∈ rest, y.length = L := fun y hy => h y (by simp [hy])
    clear h
    induction rest generalizing f with
    | nil => simp
    | cons y rest ih =>
      simp only [List.foldl_cons, List.map_cons, List.sum_cons]
      rw [ih (List.zipWith (· + ·) f y) (by simp [hf, hr y (by simp)]) (fun z hz => hr z (by simp [hz])),
        headD_zipWith_add f y (by rw [hf, hr y (by simp)])]
      ring

theorem headD_commit (g : G) (f : List F) : (commit g f).headD 0 = f.headD 0 • g := by
  cases f <;> simp [commit]

/-- this model's Horner evaluation is the one of the model of share/poly.go -/
theorem priEval_eq_share (f : List F) (i : Int) : priEval f i = Share.priEval f i := rfl

/-- Lagrange recovery (C09.1, `Props/C09.lean` `recoverSecret_correct`, restated over the lemmas of
`Proofs/Share.lean`): any slice whose usable entries are true shares of `f`, with `t` of them usable
and the first `t` usable ones at distinct indices, recovers `f(0)`. -/
theorem recoverSecret_of_shares (dp : Bool) (f : List F) (t n : Nat) (ht : 0 < t) (hf : f.length ≤ t)
    (hc : Share.CharGt F n) (shares : List (Option (Share.PriShare F)))
    (hval : ∀ iv ∈ shares.filterMap (Share.usablePri n), iv.2 = Share.priEval f iv.1)
    (hcnt : t ≤ (shares.filterMap (Share.usablePri n)).length)
    (hdist : (((shares.filterMap (Share.usablePri n)).take t).map (·.1)).Nodup) :
    Share.recoverSecret dp shares t n = .ok (f.headD 0) := by
  obtain ⟨hg, hlen⟩ := Share.xScalar_good f t n ht hc shares hval hcnt hdist
  have hdeg : (Share.toPoly f).degree < (Share.xScalar shares t n).length := by
    rw [hlen]; exact lt_of_lt_of_le (Share.degree_toPoly_lt f) (by exact_mod_cast hf)
  unfold Share.recoverSecret
  simp only [hlen, Nat.lt_irrefl, if_false]
  rw [Share.secret_fold_good dp _ _ hg hdeg, Share.eval_zero_toPoly]

/-! ### the stages of `Grouping` only make `HonestReach` steps -/

/-- `getAndProcessDeals` on a batch of genuine deals, however it ends -/
theorem runDeals_reach (c : Cfg F G) (i : Nat) : ∀ (batch : List (DkgDeal F G)) (d : Gen F G) (acc : List (DkgResp F G))
    (d' : Gen F G) (o : Option (List (DkgResp F G))), HonestReach c i d → (∀ m ∈ batch, GenuineDeal c m) →
    runDeals c.g d batch acc = (d', o) → HonestReach c i d' := by
  intro batch
  induction batch with
  | nil =>
    intro d acc d' o hr _ h
    simp only [runDeals, Prod.mk.injEq] at h
    rw [← h.1]; exact hr
  | cons m ms ih =>
    intro d acc d' o hr hb h
    have hr1 := HonestReach.deal d m hr (hb m (by simp))
    rw [runDeals] at h
    rcases hpd : processDeal c.g d m with ⟨d1, r⟩
    rw [hpd] at h hr1
    simp only at h hr1
    have hb' : ∀ x ∈ ms, GenuineDeal c x := fun x hx => hb x (by simp [hx])
    split at h
    · exact ih d1 acc d' o hr1 hb' h
    · split at h
      · split at h
        · exact ih d1 _ d' o hr1 hb' h
        · simp only [Prod.mk.injEq] at h; rw [← h.1]; exact hr1
      · simp only [Prod.mk.injEq] at h; rw [← h.1]; exact hr1

/-- `getAndProcessResponses` on any batch, however it ends -/
theorem runResps_reach (c : Cfg F G) (i : Nat) : ∀ (batch : List (DkgResp F G)) (d d' : Gen F G) (ok : Bool),
    HonestReach c i d → runResps c.g d batch = (d', ok) → HonestReach c i d' := by
  intro batch
  induction batch with
  | nil =>
    intro d d' ok hr h
    simp only [runResps, Prod.mk.injEq] at h
    rw [← h.1]; exact hr
  | cons m ms ih =>
    intro d d' ok hr h
    have hr1 := HonestReach.resp d m hr
    rw [runResps] at h
    rcases hpd : processResponse c.g d m with ⟨d1, r⟩
    rw [hpd] at h hr1
    simp only at h hr1
    split at h
    · simp only [Prod.mk.injEq] at h; rw [← h.1]; exact hr1
    · exact ih d1 d' ok hr1 h

end Dos.Dkg

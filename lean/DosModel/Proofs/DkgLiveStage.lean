/-
Liveness of honest key generation, stage level: the exact shape of an honest member's
`DistKeyGenerator` while it processes genuine deals and genuine responses – which slots exist and
which responses each holds – so that every genuine message that has not been processed yet is
processed WITHOUT error, and once every deal and every response has been processed
`DistKeyShare()` succeeds.
-/
import DosModel.Proofs.DkgLive

set_option linter.unusedSectionVars false

namespace Dos.Dkg
open Dos Dos.Vss

variable {F G : Type} [Field F] [AddCommGroup G] [Module F G] [DecidableEq F] [DecidableEq G]

def Cfg.t (c : Cfg F G) : Nat := c.n / 2 + 1

/-- session id of dealer `j`'s honest dealing -/
def Cfg.sid (c : Cfg F G) (j : Nat) : Sid G :=
  .h ((c.longs.getD j 0) • c.g) c.pubs (commit c.g (c.polys.getD j [])) c.t

/-- dealer `j`'s genuine plaintext deal for member `i` -/
def Cfg.deal (c : Cfg F G) (j i : Nat) : Deal F G :=
  honestDeal c.g (c.longs.getD j 0) c.pubs (c.polys.getD j []) i

/-- member `k`'s genuine (approving) response about dealer `j` -/
def Cfg.resp (c : Cfg F G) (j k rnd : Nat) : Response F G :=
  { sid := c.sid j, index := k, status := true, sig := .sign (c.longs.getD k 0) (c.sid j) k true rnd }

/-- an aggregator of the honest run: session id, member list, threshold of dealer `j`, no bad-dealer
flag, and approvals exactly in the slots `R` -/
structure HAgg (c : Cfg F G) (j : Nat) (R : Nat → Prop) (a : Agg F G) : Prop where
  hvs : a.vs = c.pubs
  hsid : a.sid = c.sid j
  ht : a.t = c.t
  hbad : a.badDealer = false
  hlen : a.responses.length = c.n
  hin : ∀ k, R k → ∃ r, getResponse a k = some r ∧ r.status = true
  hout : ∀ k, ¬ R k → getResponse a k = none

/-- the verifier member `i` keeps for dealer `j` in the honest run -/
structure HSlot (c : Cfg F G) (i j : Nat) (R : Nat → Prop) (v : Verifier F G) : Prop where
  hdealer : v.dealer = (c.longs.getD j 0) • c.g
  hvs : v.vs = c.pubs
  hlong : v.long = c.longs.getD i 0
  hindex : v.index = i
  hagg : ∃ a, v.agg = some a ∧ HAgg c j R a ∧ a.deal = some (c.deal j i) ∧ a.dealer = v.dealer
  happ : v.approved = true

/-- the generator of member `i` in the honest run: slots exactly for the dealers in `D`, slot `j`
holding approvals exactly from `R j`; the own dealer's aggregator holding approvals from `RD` -/
structure HState (c : Cfg F G) (i : Nat) (D : Nat → Prop) (R : Nat → Nat → Prop) (RD : Nat → Prop)
    (d : Gen F G) : Prop where
  hpart : d.participants = c.pubs
  hidx : d.index = i
  hlong : d.long = c.longs.getD i 0
  hlen : d.verifiers.length = c.n
  hfind : findIndex (d.long • c.g) d.participants 0 = some i
  hslot : ∀ j, D j → ∃ v, getVerifier d j = some v ∧ HSlot c i j (R j) v
  hnone : ∀ j, ¬ D j → getVerifier d j = none
  hdealer : HAgg c i RD d.dealer.agg ∧ d.dealer.agg.dealer = (c.longs.getD i 0) • c.g

theorem Cfg.pubs_get (c : Cfg F G) (j : Nat) (hj : j < c.n) : c.pubs[j]? = some ((c.longs.getD j 0) • c.g) := by
  have hj' : j < c.longs.length := hj
  simp [Cfg.pubs, List.getD_eq_getElem?_getD, List.getElem?_eq_getElem hj']

theorem Cfg.pubs_length (c : Cfg F G) : c.pubs.length = c.n := by simp [Cfg.pubs, Cfg.n]

theorem validT_t (c : Cfg F G) (h3 : 3 ≤ c.n) : validT c.t c.pubs.length = true := by
  have h1 : c.pubs.length = c.n := c.pubs_length
  have h2 : c.t = c.n / 2 + 1 := rfl
  rw [h1, h2]
  simp only [validT, Bool.and_eq_true, decide_eq_true_eq]
  omega

/-- a genuine response verifies in an honest aggregator of its dealer and lands in its empty slot -/
theorem verifyResponse_genuine (c : Cfg F G) (j k rnd : Nat) (R : Nat → Prop) (a : Agg F G)
    (ha : HAgg c j R a) (hk : k < c.n) (hnk : ¬ R k) :
    ∃ a', verifyResponse c.g a (c.resp j k rnd) = .ok a' ∧ HAgg c j (fun x => R x ∨ x = k) a' ∧
      a'.deal = a.deal ∧ a'.dealer = a.dealer := by
  have hpub : a.vs[k]? = some ((c.longs.getD k 0) • c.g) := by rw [ha.hvs]; exact c.pubs_get k hk
  have hsig : verifyRespSig c.g ((c.longs.getD k 0) • c.g) (c.resp j k rnd) = true := by
    simp [verifyRespSig, Cfg.resp]
  have hklen : k < a.responses.length := by rw [ha.hlen]; exact hk
  have hadd : addResponse a (c.resp j k rnd) =
      .ok { a with responses := a.responses.set k (some (c.resp j k rnd)) } := by
    have h1 : ¬ ((c.resp j k rnd).index ≥ a.vs.length) := by
      simp only [Cfg.resp, ha.hvs, c.pubs_length]; omega
    have h2 : hasResponse a (c.resp j k rnd).index = false := by
      simp only [hasResponse, Cfg.resp, ha.hout k hnk]; rfl
    simp only [addResponse, h1, if_false, h2, Bool.false_eq_true]
    rfl
  refine ⟨{ a with responses := a.responses.set k (some (c.resp j k rnd)) }, ?_, ?_, rfl, rfl⟩
  · simp only [verifyResponse]
    have h0 : ¬ ((c.resp j k rnd).sid ≠ a.sid) := by simp [Cfg.resp, ha.hsid]
    simp only [h0, if_false]
    have hidx : (c.resp j k rnd).index = k := rfl
    rw [hidx, hpub]
    simp only [hsig, Bool.true_eq_false, if_false]
    exact hadd
  · have hget : ∀ x, getResponse { a with responses := a.responses.set k (some (c.resp j k rnd)) } x =
        if k = x then some (c.resp j k rnd) else getResponse a x :=
      fun x => getResponse_set a k x _ hklen
    refine ⟨ha.hvs, ha.hsid, ha.ht, ha.hbad, by simp [ha.hlen], ?_, ?_⟩
    · intro x hx
      rw [hget]
      by_cases hkx : k = x
      · simp only [hkx, if_true]; exact ⟨_, rfl, rfl⟩
      · simp only [hkx, if_false]
        rcases hx with hx | hx
        · exact ha.hin x hx
        · exact absurd hx.symm hkx
    · intro x hx
      rw [hget]
      have hkx : k ≠ x := fun h => hx (Or.inr h.symm)
      simp only [hkx, if_false]
      exact ha.hout x (fun h => hx (Or.inl h))

/-- an honest dealer's deal is consistent -/
theorem consistent_genuine (c : Cfg F G) (ephs : List (List F)) (hw : WellFormed c ephs) (j i : Nat)
    (hj : j < c.n) (hi : i < c.n) :
    Consistent c.g ((c.longs.getD j 0) • c.g) c.pubs (c.deal j i) ∧ (c.deal j i).sid = c.sid j ∧
    (c.deal j i).t = c.t ∧ (c.deal j i).share = some ⟨(i : Int), some (priEval (c.polys.getD j []) (i : Int))⟩ := by
  have hfl : (c.polys.getD j []).length = c.t := by
    have hj' : j < c.polys.length := by rw [hw.polys_len]; exact hj
    have : c.polys.getD j [] = c.polys[j] := by simp [List.getD_eq_getElem?_getD, List.getElem?_eq_getElem hj']
    rw [this]; exact hw.poly_len _ (List.getElem_mem hj')
  have hfl' : (c.polys[j]?.getD []).length = c.t := by simpa [List.getD_eq_getElem?_getD] using hfl
  have hsid : (c.deal j i).sid = c.sid j := by simp [Cfg.deal, Cfg.sid, honestDeal, hfl']
  have ht : (c.deal j i).t = c.t := by simp [Cfg.deal, honestDeal, hfl']
  refine ⟨⟨(i : Int), priEval (c.polys.getD j []) (i : Int), rfl, ?_, ?_, by omega, ?_, ?_⟩, hsid, ht, rfl⟩
  · rw [ht]; exact validT_t c hw.three
  · simp [Cfg.deal, honestDeal]
  · rw [c.pubs_length]; exact_mod_cast hi
  · simp only [Cfg.deal, honestDeal]; rw [pubEval_commit]

/-- `ProcessEncryptedDeal` of the genuine deal of dealer `j` by member `i`'s fresh verifier -/
theorem pe_genuine (c : Cfg F G) (ephs : List (List F)) (hw : WellFormed c ephs) (j i : Nat) (hj : j < c.n) (hi : i < c.n)
    (eph : F) (rnd : Nat) (e : EncDeal F G)
    (hseal : sealDeal c.g (c.longs.getD j 0) c.pubs i eph rnd (.deal (c.deal j i)) = some e)
    (v : Verifier F G) (hv : v.agg = none) (hvd : v.dealer = (c.longs.getD j 0) • c.g) (hvv : v.vs = c.pubs)
    (hvl : v.long = c.longs.getD i 0) (hvi : v.index = i) :
    ∃ a, processEncryptedDeal c.g v e 0 = ({ v with agg := some a, approved := true }, .ok (c.resp j i 0)) ∧
      HAgg c j (fun x => x = i) a ∧ a.deal = some (c.deal j i) ∧ a.dealer = v.dealer := by
  have hidx : v.index < v.vs.length := by rw [hvi, hvv, c.pubs_length]; exact hi
  have hdec : decryptDeal c.g v e = .ok (c.deal j i) :=
    decrypt_addressee c.g _ eph c.pubs i rnd _ e hseal v hvd hvv (by rw [hvl]; exact c.pubs_get i hi)
  obtain ⟨hcons, hsid, ht, hshare⟩ := consistent_genuine c ephs hw j i hj hi
  rcases pe_fresh c.g v e 0 hv hidx with ⟨err, herr⟩ | ⟨d, r, a, hdec', hpe, hri, hrs, hsig, hst, _, h1, h2, h3, h5, h4, h6, h7, h8⟩
  · exfalso
    obtain ⟨_, _, _, hok⟩ := process_fresh c.g v e 0 (c.deal j i) hv hidx hdec
    obtain ⟨v', r, hp, _⟩ := hok _ hshare (by simp) (by simp [hvi])
    rw [herr] at hp; cases hp
  · rw [hdec] at hdec'; injection hdec' with hdd; subst hdd
    have hstat : r.status = true := hst.2 (by rw [hvd, hvv]; exact hcons)
    have hr : r = c.resp j i 0 := by
      cases r with
      | mk sid index status sig =>
        simp only at hri hrs hsig hstat
        subst hstat
        simp only [Cfg.resp, Response.mk.injEq]
        have hs : sid = c.sid j := by
          rw [hrs, hvd, hvv]
          have := hcons
          obtain ⟨_, _, _, _, hh, _⟩ := this
          rw [hh, hsid]
        refine ⟨hs, by rw [hri, hvi], trivial, ?_⟩
        rw [hsig, hvl, hvi, hs]
    subst hr
    refine ⟨a, hpe, ?_, h7 hstat, h2⟩
    have hget : ∀ k, getResponse a k = if i = k then some (c.resp j i 0) else none := by
      intro k
      have := getResponse_fresh_set a v.vs.length v.index k (c.resp j i 0) hidx h4
      rw [hvi] at this; exact this
    refine ⟨by rw [h1, hvv], by rw [h3, hsid], ?_, h5, by rw [h4]; simp [hvv, c.pubs_length], ?_, ?_⟩
    · rw [h8, ht]
    · intro k hk; subst hk; exact ⟨c.resp j k 0, by rw [hget]; simp, rfl⟩
    · intro k hk; rw [hget]; simp [Ne.symm hk]

/-- the dealer's unsigned auto-approval on top of the own approval -/
theorem unsafeSet_genuine (c : Cfg F G) (i j : Nat) (hj : j < c.n) (v : Verifier F G) (a : Agg F G)
    (ha : HAgg c j (fun x => x = i) a) :
    ∃ a', (({ v with agg := some a, approved := true } : Verifier F G).unsafeSetResponse j true).agg = some a' ∧
      HAgg c j (fun x => x = i ∨ x = j) a' ∧ a'.deal = a.deal ∧ a'.dealer = a.dealer := by
  unfold Verifier.unsafeSetResponse
  simp only
  by_cases hji : j = i
  · -- own deal: the slot is taken, `addResponse` refuses, nothing changes
    have hhas : hasResponse a j = true := by
      obtain ⟨r, hr, _⟩ := ha.hin j hji
      simp [hasResponse, hr]
    have h1 : ¬ (j ≥ a.vs.length) := by rw [ha.hvs, c.pubs_length]; omega
    simp only [addResponse, h1, if_false, hhas, if_true]
    refine ⟨a, rfl, ⟨ha.hvs, ha.hsid, ha.ht, ha.hbad, ha.hlen, ?_, ?_⟩, rfl, rfl⟩
    · intro k hk; exact ha.hin k (by rcases hk with hk | hk; exact hk; rw [hk, hji])
    · intro k hk; exact ha.hout k (fun h => hk (Or.inl h))
  · have hhas : hasResponse a j = false := by
      simp [hasResponse, ha.hout j hji]
    have h1 : ¬ (j ≥ a.vs.length) := by rw [ha.hvs, c.pubs_length]; omega
    have hjl : j < a.responses.length := by rw [ha.hlen]; exact hj
    simp only [addResponse, h1, if_false, hhas, Bool.false_eq_true]
    refine ⟨_, rfl, ⟨ha.hvs, ha.hsid, ha.ht, ha.hbad, by simp [ha.hlen], ?_, ?_⟩, rfl, rfl⟩
    · intro k hk
      rw [getResponse_set a j k _ hjl]
      by_cases hjk : j = k
      · simp only [hjk, if_true]; exact ⟨_, rfl, rfl⟩
      · simp only [hjk, if_false]
        rcases hk with hk | hk
        · exact ha.hin k hk
        · exact absurd hk.symm hjk
    · intro k hk
      rw [getResponse_set a j k _ hjl]
      have hjk : j ≠ k := fun h => hk (Or.inr h.symm)
      simp only [hjk, if_false]
      exact ha.hout k (fun h => hk (Or.inl h))

/-- the verifier `ProcessDeal` creates for a dealer key -/
def freshVer (g : G) (d : Gen F G) (pub : G) (i : Nat) : Verifier F G := ⟨d.long, d.long • g, pub, i, d.participants, none, false⟩

/-- **a genuine deal that has not been processed yet is processed without error and approved** -/
theorem processDeal_genuine_ok (c : Cfg F G) (ephs : List (List F)) (hw : WellFormed c ephs) (i : Nat) (hi : i < c.n)
    (D : Nat → Prop) (R : Nat → Nat → Prop) (RD : Nat → Prop) (d : Gen F G) (hd : HState c i D R RD d)
    (j : Nat) (hj : j < c.n) (hnD : ¬ D j) (eph : F) (rnd : Nat) (e : EncDeal F G)
    (hseal : sealDeal c.g (c.longs.getD j 0) c.pubs i eph rnd (.deal (c.deal j i)) = some e) :
    (processDeal c.g d ⟨j, some e⟩).2 = .ok ⟨j, some (c.resp j i 0)⟩ ∧
    HState c i (fun x => D x ∨ x = j) (fun x y => if x = j then (y = i ∨ y = j) else R x y) RD
      (processDeal c.g d ⟨j, some e⟩).1 := by
  have hpub : d.participants[j]? = some ((c.longs.getD j 0) • c.g) := by rw [hd.hpart]; exact c.pubs_get j hj
  have hnone : getVerifier d j = none := hd.hnone j hnD
  have hnv : newVerifier c.g d.long ((c.longs.getD j 0) • c.g) d.participants =
      .ok (freshVer c.g d ((c.longs.getD j 0) • c.g) i) := by
    simp [newVerifier, hd.hfind, freshVer]
  obtain ⟨a, hpe, hagg, hdeal, hadl⟩ := pe_genuine c ephs hw j i hj hi eph rnd e hseal
    (freshVer c.g d ((c.longs.getD j 0) • c.g) i) rfl rfl hd.hpart hd.hlong rfl
  obtain ⟨a', hu, hagg', hdeal', hadl'⟩ := unsafeSet_genuine c i j hj
    (freshVer c.g d ((c.longs.getD j 0) • c.g) i) a hagg
  have hwf := unsafeSet_frame ({ freshVer c.g d ((c.longs.getD j 0) • c.g) i with agg := some a, approved := true } : Verifier F G) j
  have hwa := unsafeSet_approved ({ freshVer c.g d ((c.longs.getD j 0) • c.g) i with agg := some a, approved := true } : Verifier F G) j
  generalize hw' : ({ freshVer c.g d ((c.longs.getD j 0) • c.g) i with agg := some a, approved := true } : Verifier F G).unsafeSetResponse j true = w at hu hwf hwa
  have hres : processDeal c.g d ⟨j, some e⟩ = (setVerifier d j w, .ok ⟨j, some (c.resp j i 0)⟩) := by
    simp only [processDeal, hpub, hnone, Option.isSome_none, Bool.false_eq_true, if_false, hnv, hpe, hw']
  rw [hres]
  refine ⟨rfl, ?_⟩
  have hjv : j < d.verifiers.length := by rw [hd.hlen]; exact hj
  have hfr := setVerifier_frame d j w
  simp only [freshVer] at hwf hadl
  refine ⟨by rw [hfr.1]; exact hd.hpart, by rw [hfr.2.1]; exact hd.hidx, by rw [hfr.2.2.1]; exact hd.hlong,
    by rw [hfr.2.2.2.1]; exact hd.hlen, by rw [hfr.2.2.1, hfr.1]; exact hd.hfind, ?_, ?_, by rw [hfr.2.2.2.2.1]; exact hd.hdealer⟩
  · intro x hx
    rw [getVerifier_set d j x _ hjv]
    by_cases hjx : j = x
    · subst hjx
      simp only [if_true]
      refine ⟨w, rfl, ⟨hwf.1, by rw [hwf.2.1]; exact hd.hpart, by rw [hwf.2.2.1]; exact hd.hlong,
        hwf.2.2.2, ⟨a', hu, hagg', by rw [hdeal', hdeal], by rw [hadl', hadl, hwf.1]⟩, hwa⟩⟩
    · simp only [hjx, if_false]
      have hDx : D x := by rcases hx with hx | hx; exact hx; exact absurd hx.symm hjx
      obtain ⟨v, hv, hs⟩ := hd.hslot x hDx
      have hxj : ¬ (x = j) := fun h => hjx h.symm
      exact ⟨v, hv, by simpa [hxj] using hs⟩
  · intro x hx
    rw [getVerifier_set d j x _ hjv]
    have hjx : j ≠ x := fun h => hx (Or.inr h.symm)
    simp only [hjx, if_false]
    exact hd.hnone x (fun h => hx (Or.inl h))

/-- **a genuine response that has not been processed yet is processed without error**, provided its
dealer's deal has been processed -/
theorem processResponse_genuine_ok (c : Cfg F G) (i : Nat) (D : Nat → Prop) (R : Nat → Nat → Prop) (RD : Nat → Prop)
    (d : Gen F G) (hd : HState c i D R RD d) (j k rnd : Nat) (hj : j < c.n) (hk : k < c.n) (hD : D j)
    (hnR : ¬ R j k) (hnRD : j = i → ¬ RD k) :
    (∃ x, (processResponse c.g d ⟨j, some (c.resp j k rnd)⟩).2 = .ok x) ∧
    HState c i D (fun x y => if x = j then (R x y ∨ y = k) else R x y) (fun y => if j = i then (RD y ∨ y = k) else RD y)
      (processResponse c.g d ⟨j, some (c.resp j k rnd)⟩).1 := by
  obtain ⟨v, hv, hs⟩ := hd.hslot j hD
  obtain ⟨a, hagg, hha, hdeal, hadl⟩ := hs.hagg
  obtain ⟨a', hvr, hha', hdeal', hadl'⟩ := verifyResponse_genuine c j k rnd (R j) a hha hk hnR
  have hjv : j < d.verifiers.length := by rw [hd.hlen]; exact hj
  -- the slot `j` after the step, and the generator with it
  have hslot' : HSlot c i j (fun y => R j y ∨ y = k) ({ v with agg := some a' } : Verifier F G) :=
    ⟨hs.hdealer, hs.hvs, hs.hlong, hs.hindex, ⟨a', rfl, hha', by rw [hdeal', hdeal], by rw [hadl', hadl]⟩, hs.happ⟩
  have hstate : ∀ (dl : Dealer F G) (RD' : Nat → Prop), HAgg c i RD' dl.agg → dl.agg.dealer = (c.longs.getD i 0) • c.g →
      HState c i D (fun x y => if x = j then (R x y ∨ y = k) else R x y) RD'
        { setVerifier d j { v with agg := some a' } with dealer := dl } := by
    intro dl RD' h1 h2
    have hget : ∀ x, getVerifier { setVerifier d j { v with agg := some a' } with dealer := dl } x =
        if j = x then some { v with agg := some a' } else getVerifier d x := by
      intro x
      have := getVerifier_set d j x { v with agg := some a' } hjv
      simpa [getVerifier, setVerifier] using this
    refine ⟨hd.hpart, hd.hidx, hd.hlong, by simp [setVerifier, hd.hlen], hd.hfind, ?_, ?_, ⟨h1, h2⟩⟩
    · intro x hx
      rw [hget]
      by_cases hjx : j = x
      · subst hjx; simp only [if_true]; exact ⟨_, rfl, hslot'⟩
      · simp only [hjx, if_false]
        obtain ⟨v2, hv2, hs2⟩ := hd.hslot x hx
        have hxj : ¬ (x = j) := fun h => hjx h.symm
        exact ⟨v2, hv2, by simpa [hxj] using hs2⟩
    · intro x hx
      rw [hget]
      have hjx : j ≠ x := by intro h; subst h; exact hx hD
      simp only [hjx, if_false]
      exact hd.hnone x hx
  have hstep : processResponse c.g d ⟨j, some (c.resp j k rnd)⟩ =
      (if j ≠ d.index then (setVerifier d j { v with agg := some a' }, .ok none)
       else ownResponse c.g (setVerifier d j { v with agg := some a' }) { v with agg := some a' } a' (c.resp j k rnd)) := by
    simp only [processResponse, hv, hagg, hvr]
  rw [hstep]
  by_cases hji : j ≠ d.index
  · rw [if_pos hji]
    have hji' : ¬ (j = i) := by rw [← hd.hidx]; exact hji
    refine ⟨⟨_, rfl⟩, ?_⟩
    have := hstate d.dealer RD hd.hdealer.1 hd.hdealer.2
    simpa [hji', setVerifier] using this
  · rw [if_neg hji]
    have hji' : j = i := by rw [← hd.hidx]; simpa using hji
    obtain ⟨da', hdvr, hdha', _, hddl'⟩ := verifyResponse_genuine c i k rnd RD d.dealer.agg hd.hdealer.1 hk (hnRD hji')
    have hdp : dealerProcessResponse c.g (setVerifier d j { v with agg := some a' }).dealer (c.resp j k rnd) =
        ({ d.dealer with agg := da' }, .ok none) := by
      have h1 : (setVerifier d j { v with agg := some a' }).dealer = d.dealer := rfl
      have h2 : c.resp j k rnd = c.resp i k rnd := by rw [hji']
      rw [h1, h2]
      simp only [dealerProcessResponse, hdvr]
      simp [Cfg.resp]
    have hown : ownResponse c.g (setVerifier d j { v with agg := some a' }) { v with agg := some a' } a' (c.resp j k rnd) =
        ({ setVerifier d j { v with agg := some a' } with dealer := { d.dealer with agg := da' } }, .ok none) := by
      simp only [ownResponse, hdp]
    rw [hown]
    refine ⟨⟨_, rfl⟩, ?_⟩
    have := hstate { d.dealer with agg := da' } (fun y => RD y ∨ y = k) hdha' (by rw [hddl']; exact hd.hdealer.2)
    simpa [hji'] using this

/-- an honest aggregator holding every member's approval is certified -/
theorem hagg_full_certified (c : Cfg F G) (hn : c.t ≤ c.n) (j : Nat) (R : Nat → Prop) (a : Agg F G)
    (ha : HAgg c j R a) (hall : ∀ k, k < c.n → R k) : a.certified = true ∧ enoughApprovals a = true := by
  have hstatus : ∀ x ∈ a.responses, ∃ r, x = some r ∧ r.status = true := by
    intro x hx
    obtain ⟨k, hk, hxk⟩ := List.getElem_of_mem hx
    obtain ⟨r, hr, hs⟩ := ha.hin k (hall k (by rw [← ha.hlen]; exact hk))
    unfold getResponse at hr
    rw [List.getElem?_eq_getElem hk, hxk] at hr
    simp only [Option.join_some] at hr
    exact ⟨r, hr, hs⟩
  have hen : enoughApprovals a = true := by
    unfold enoughApprovals
    simp only [decide_eq_true_eq, ge_iff_le]
    apply le_of_le_of_eq (b := a.responses.length)
    · rw [ha.hlen, ha.ht]; exact hn
    · symm
      apply congrArg
      apply List.filter_eq_self.2
      intro x hx
      obtain ⟨r, rfl, hs⟩ := hstatus x hx
      simpa using hs
  refine ⟨?_, hen⟩
  unfold Agg.certified
  simp only [Bool.and_eq_true, List.all_eq_true, List.mem_range, ha.hbad, Bool.not_false, and_true, hen]
  intro k hk
  rw [ha.hvs, c.pubs_length] at hk
  obtain ⟨r, hr, _⟩ := ha.hin k (hall k hk)
  simp [hasResponse, hr]

/-- the fold of `DistKeyShare` succeeds on slots that are certified, store a deal with a share value
and commitment vectors of one length -/
theorem keyShareFold_succeeds (d : Gen F G) (L : Nat) : ∀ (js : List Nat) (sh : F) (pub : Option (List G)),
    (∀ p, pub = some p → p.length = L) →
    (∀ j ∈ js, ∃ v dl i val, getVerifier d j = some v ∧ v.dealOut = some (some dl) ∧
      dl.share = some ⟨i, some val⟩ ∧ dl.commits.length = L) →
    ∃ sh' pub', keyShareFold d js sh pub = .ok (sh', pub') ∧ (js ≠ [] → pub'.isSome = true) ∧
      (pub.isSome = true → pub'.isSome = true) := by
  intro js
  induction js with
  | nil => intro sh pub _ _; exact ⟨sh, pub, rfl, fun h => absurd rfl h, fun h => h⟩
  | cons j js ih =>
    intro sh pub hp hjs
    obtain ⟨v, dl, i, val, hv, hdo, hsh, hlen⟩ := hjs j (by simp)
    have hrest : ∀ j' ∈ js, _ := fun j' hj' => hjs j' (by simp [hj'])
    unfold keyShareFold
    simp only [hv, hdo, hsh]
    rcases pub with _ | p
    · simp only
      obtain ⟨sh', pub', h1, _, h3⟩ := ih (sh + val) (some dl.commits) (fun q hq => by injection hq with hq; rw [← hq, hlen]) hrest
      exact ⟨sh', pub', h1, fun _ => h3 rfl, fun h => by cases h⟩
    · simp only
      have hpl : p.length = dl.commits.length := by rw [hp p rfl, hlen]
      have hadd : pubAdd p dl.commits = .ok (List.zipWith (· + ·) p dl.commits) := by simp [pubAdd, hpl]
      rw [hadd]
      simp only
      obtain ⟨sh', pub', h1, _, h3⟩ := ih (sh + val) (some (List.zipWith (· + ·) p dl.commits))
        (fun q hq => by injection hq with hq; rw [← hq]; simp [hpl, hlen]) hrest
      exact ⟨sh', pub', h1, fun _ => h3 rfl, fun _ => h3 rfl⟩

/-- **once every deal and every response has been processed, `DistKeyShare()` succeeds** -/
theorem distKeyShare_full (c : Cfg F G) (ephs : List (List F)) (hw : WellFormed c ephs) (i : Nat)
    (D : Nat → Prop) (R : Nat → Nat → Prop) (RD : Nat → Prop) (d : Gen F G) (hd : HState c i D R RD d)
    (hD : ∀ j, j < c.n → D j) (hR : ∀ j k, j < c.n → k < c.n → R j k) :
    ∃ ks, distKeyShare d = .ok ks := by
  have hn : c.t ≤ c.n := by have := hw.three; simp only [Cfg.t]; omega
  have hslots : ∀ j, j < c.n → ∃ v, getVerifier d j = some v ∧ v.dealCertified = true ∧
      v.dealOut = some (some (c.deal j i)) := by
    intro j hj
    obtain ⟨v, hv, hs⟩ := hd.hslot j (hD j hj)
    obtain ⟨a, hagg, hha, hdeal, _⟩ := hs.hagg
    obtain ⟨hc, he⟩ := hagg_full_certified c hn j (R j) a hha (fun k hk => hR j k hj hk)
    refine ⟨v, hv, by simp [Verifier.dealCertified, hagg, hc, hs.happ], ?_⟩
    simp [Verifier.dealOut, hagg, hc, he, hdeal, hs.happ]
  have hcert : certified d = true := by
    unfold certified qual
    simp only [decide_eq_true_eq, hd.hlen, hd.hpart, c.pubs_length]
    apply le_of_eq_of_le (b := (List.range c.n).length)
    · simp
    · apply le_of_eq
      symm
      apply congrArg
      apply List.filter_eq_self.2
      intro j hj
      obtain ⟨v, hv, hc, _⟩ := hslots j (List.mem_range.1 hj)
      simp [hv, hc]
  have hqual : qual d = List.range c.n := by
    have := (qual_all d (by rw [hd.hlen, hd.hpart, c.pubs_length]) hcert).1
    rw [this, hd.hpart, c.pubs_length]
  obtain ⟨sh', pub', hf, hne, _⟩ := keyShareFold_succeeds d c.t (List.range c.n) 0 none (fun p hp => by cases hp) (by
    intro j hj
    have hjn := List.mem_range.1 hj
    obtain ⟨v, hv, _, hdo⟩ := hslots j hjn
    obtain ⟨_, _, _, hshare⟩ := consistent_genuine c ephs hw j i hjn (by
      have := hd.hfind
      have h2 := (findIndex_lt _ _ 0 i this).2
      rw [hd.hpart, c.pubs_length] at h2; omega)
    refine ⟨v, c.deal j i, _, _, hv, hdo, hshare, ?_⟩
    have hj' : j < c.polys.length := by rw [hw.polys_len]; exact hjn
    have : c.polys.getD j [] = c.polys[j] := by simp [List.getD_eq_getElem?_getD, List.getElem?_eq_getElem hj']
    simp only [Cfg.deal, honestDeal, commit, List.length_map, this]
    exact hw.poly_len _ (List.getElem_mem hj'))
  have hsome : pub'.isSome = true := hne (by
    intro he
    have h2 : (List.range c.n).length = 0 := by rw [he]; rfl
    rw [List.length_range] at h2
    have := hw.three; omega)
  obtain ⟨commits, hcm⟩ := Option.isSome_iff_exists.1 hsome
  refine ⟨{ commits := commits, shareI := d.index, shareV := sh', priPoly := d.dealer.f }, ?_⟩
  unfold distKeyShare
  simp only [hcert, Bool.true_eq_false, if_false, hqual, hf, hcm]

end Dos.Dkg

/-
C05 — Byzantine participants can abort key generation but never corrupt it.

Theorems about the executable models `Model/VssSym.lean`, `Model/Dkg.lean`,
`Model/DkgSession.lean` (symbolic cryptography, DESIGN §4), for every field `F`, `F`-module `G`
with base point `g`, every group size, every member and EVERY sequence of messages a member
receives: the adversary is any function producing the messages – nothing is assumed about
them except, in `safety`, the idealised-cryptography / authenticated-transport facts that the
symbolic term model cannot express by itself and that are therefore explicit hypotheses:

* `AuthResp` (both directions) – a response that verifies under an honest member's key was signed
  by that member (it carries the session id of one of the responses that member holds);
* each of the two honest members lists the other's true key at the other's index: a key is accepted
  for index `k` only from the transport-authenticated group member `k` (`accepted_keys_are_bound`),
  and an honest member announces only its own key under its own index.

Everything else – that both hold the same participant list, that it has no key twice, that each
holds the commitments the other one dealt – is DERIVED (`safety`), or its failure provably aborts
the member (`forged_key_aborts`, `duplicate_key_aborts`).

The model is the tree with `fix:` 386c5d2 (the session id a verifier compares responses with is
bound to the commitments it saw), e9f475e (a PublicKey message is bound to its sender) and babf9f5
(no key under two indices).  Without any one of them `safety` is false: corpus/C05 holds the runs
in which two honest members finish on different keys.
Helper lemmas: `Proofs/DkgStep.lean`, `DkgResp.lean`, `DkgScript.lean`, `DkgFinish.lean`,
`DkgSafety.lean`, `DkgMember.lean`.
-/
import DosModel.Proofs.DkgMember
import DosModel.Model.DkgNet
import Mathlib.Algebra.Order.Field.Rat

set_option linter.unusedSectionVars false

namespace Dos.Props.C05
open Dos Dos.Vss Dos.Dkg

variable {F G : Type} [Field F] [AddCommGroup G] [Module F G] [DecidableEq F] [DecidableEq G]

/-- **1. `inconsistent_never_approved`.**  A verifier that has not yet received a deal answers an
encrypted deal with an approval only if the deal it opened has a valid threshold, the session id
of what it carries, the verifier's own index, and a share on the committed polynomial at that
index: `share • g = Σ Cₖ (i+1)ᵏ`. -/
theorem inconsistent_never_approved (g : G) (v v' : Verifier F G) (e : EncDeal F G) (rnd : Nat)
    (r : Response F G) (hv : v.agg = none) (hidx : v.index < v.vs.length)
    (h : processEncryptedDeal g v e rnd = (v', .ok r)) (hs : r.status = true) :
    ∃ d val, decryptDeal g v e = .ok d ∧ validT d.t v.vs.length = true ∧
      d.sid = Sid.h v.dealer v.vs d.commits d.t ∧ d.share = some ⟨(v.index : Int), some val⟩ ∧
      val • g = pubEval (S := F) d.commits (v.index : Int) := by
  rcases pe_fresh g v e rnd hv hidx with ⟨err, herr⟩ | ⟨d, r0, a, hdec, hpe, _, _, _, hst, hshare, _⟩
  · rw [herr] at h; cases h
  · rw [hpe] at h
    injection h with _ h; injection h with h; subst h
    obtain ⟨i, val, hsh, hT, hsid, _, _, hchk⟩ := hst.1 hs
    have hi := hshare _ hsh
    simp only at hi; subst hi
    exact ⟨d, val, hdec, hT, hsid.symm, hsh, hchk⟩

/-- **2a. `no_approval_no_finish` (stage level).**  `getAndProcessDeals` stops – no `Responses`
message, nothing handed to the next stage – as soon as one processed deal is answered with a
complaint. -/
theorem complaint_stops_pipeline (g : G) (d d1 : Gen F G) (m : DkgDeal F G) (ms : List (DkgDeal F G))
    (acc : List (DkgResp F G)) (resp : DkgResp F G) (r : Response F G)
    (h : processDeal g d m = (d1, .ok resp)) (hr : resp.resp = some r) (hs : r.status = false) :
    runDeals g d (m :: ms) acc = (d1, none) := by
  simp [runDeals, h, hr, hs]

/-- **2b. the member machine then never finishes**: a stopped member stays stopped whatever arrives. -/
theorem failed_absorbing (g : G) (m : Member F G) (why : String) (h : m.stage = .failed why) :
    (Member.start g m).stage = .failed why ∧
    (∀ x, (m.recvPk g x).stage = .failed why) ∧ (∀ x, (m.recvDeal g x).stage = .failed why) ∧
    (∀ x, (m.recvResp g x).stage = .failed why) := by
  have adv : ∀ (m' : Member F G), m'.stage = .failed why → (Member.advance g 4 m').stage = .failed why := by
    intro m' h'; unfold Member.advance; simp [h']
  refine ⟨by simp [Member.start, h], fun x => ?_, fun x => ?_, fun x => ?_⟩
  · unfold Member.recvPk; exact adv _ (by simpa using h)
  · unfold Member.recvDeal; exact adv _ (by simpa using h)
  · unfold Member.recvResp; exact adv _ (by simpa using h)

/-- **2c. `no_approval_no_finish` (state level).**  In EVERY reachable state of a member (`MemberInv`
holds initially and is preserved by every event: `member_inv_*`), a finished member has, for every
dealer of the group, a stored own response that is an approval, and the stored deal of that dealer
is consistent with its commitments.  Hence a member whose own response to some deal is not an
approval has not finished. -/
theorem finished_approved_all (g : G) (m : Member F G) (d : Gen F G) (ks : KeyShare F G)
    (hm : MemberInv g m) (hst : m.stage = .done d ks) :
    ∀ j, j < d.participants.length → ∃ v a r dl, getVerifier d j = some v ∧ v.agg = some a ∧
      getResponse a d.index = some r ∧ r.status = true ∧ a.deal = some dl ∧
      Consistent g v.dealer d.participants dl := by
  simp only [MemberInv, hst] at hm
  obtain ⟨hg, ha, _, _, hks⟩ := hm
  obtain ⟨_, hslots, _⟩ := distKeyShare_spec d ks hg.len hks
  intro j hj
  obtain ⟨v, a, dl, _, _, hv, hagg, hdl, _, _⟩ := hslots j hj
  obtain ⟨r, hr, _, _, himp⟩ := ((hg.good j v hv).hagg a hagg).ownResp
  have hs := ha j v a r hv hagg hr
  obtain ⟨dl', _, h1, _, _, hcons, _⟩ := himp hs
  rw [hdl] at h1; injection h1 with h1; subst h1
  exact ⟨v, a, r, dl, hv, hagg, hr, hs, hdl, hcons⟩

/-- reachable states: the invariant holds at the start and after every event, for every message -/
theorem reachable_invariant (g : G) :
    (∀ n index long f ephs, MemberInv g (Member.init (S := F) (P := G) n index long f ephs)) ∧
    (∀ m : Member F G, MemberInv g m → MemberInv g (Member.start g m)) ∧
    (∀ (m : Member F G) x, MemberInv g m → MemberInv g (m.recvPk g x)) ∧
    (∀ (m : Member F G) x, MemberInv g m → MemberInv g (m.recvDeal g x)) ∧
    (∀ (m : Member F G) x, MemberInv g m → MemberInv g (m.recvResp g x)) :=
  ⟨member_inv_init g, member_inv_start g, fun m x => member_inv_recvPk g m x,
    fun m x => member_inv_recvDeal g m x, fun m x => member_inv_recvResp g m x⟩

/-- **3a. `accepted_keys_are_bound`.**  If `exchangePub`/`genDistKeyGenerator` accept a batch of
PublicKey messages – ANY batch – then no key sits at two indices of the participant list, and every
message was sent by the group member whose index it claims and its key is the participant at that
index. -/
theorem accepted_keys_are_bound (g : G) (n : Nat) (long : F) (f : List F) (own : PkMsg G) (batch : List (PkMsg G))
    (d : Gen F G) (h : buildGen g n long f own batch = some d) :
    d.participants.Nodup ∧
    ∀ x ∈ own :: batch, x.sender = x.index ∧ ∃ k, x.key = some k ∧ d.participants[x.index]? = some k :=
  (buildGen_good h).2.2.2.2

/-- **3b. `forged_key_aborts`.**  A member whose key batch contains a message not sent by the member
whose index it claims fails (stage `failed "gen"`): it does not finish. -/
theorem forged_key_aborts (g : G) (fuel : Nat) (m : Member F G) (batch : List (PkMsg G))
    (hs : m.stage = .waitPk) (hb : m.pkBox = some batch) (x : PkMsg G) (hx : x ∈ batch) (hf : x.sender ≠ x.index) :
    (Member.advance g (fuel + 1) m).stage = .failed "gen" := by
  have hnone : buildGen g m.n m.long m.f ⟨m.index, some (m.long • g), m.index⟩ batch = none := by
    rcases hbg : buildGen g m.n m.long m.f ⟨m.index, some (m.long • g), m.index⟩ batch with _ | d
    · rfl
    · exact absurd ((accepted_keys_are_bound g _ _ _ _ _ d hbg).2 x (by simp [hx])).1 hf
  rw [Member.advance]
  simp only [hs, hb, hnone]

/-- **3c. `duplicate_key_aborts`.**  A member whose key batch (with its own key) carries one key under
two indices fails: it does not finish. -/
theorem duplicate_key_aborts (g : G) (fuel : Nat) (m : Member F G) (batch : List (PkMsg G))
    (hs : m.stage = .waitPk) (hb : m.pkBox = some batch) (x y : PkMsg G)
    (hx : x ∈ (⟨m.index, some (m.long • g), m.index⟩ : PkMsg G) :: batch)
    (hy : y ∈ (⟨m.index, some (m.long • g), m.index⟩ : PkMsg G) :: batch)
    (hxy : x.index ≠ y.index) (hk : x.key = y.key) :
    (Member.advance g (fuel + 1) m).stage = .failed "gen" := by
  have hnone : buildGen g m.n m.long m.f ⟨m.index, some (m.long • g), m.index⟩ batch = none := by
    rcases hbg : buildGen g m.n m.long m.f ⟨m.index, some (m.long • g), m.index⟩ batch with _ | d
    · rfl
    · exfalso
      obtain ⟨hnd, hall⟩ := accepted_keys_are_bound g _ _ _ _ _ d hbg
      obtain ⟨_, k, hk1, hp1⟩ := hall x hx
      obtain ⟨_, k', hk2, hp2⟩ := hall y hy
      rw [hk, hk2] at hk1; injection hk1 with hk1; subst hk1
      have hxl : x.index < d.participants.length := by
        rcases Nat.lt_or_ge x.index d.participants.length with h | h
        · exact h
        · rw [List.getElem?_eq_none h] at hp1; cases hp1
      have hyl : y.index < d.participants.length := by
        rcases Nat.lt_or_ge y.index d.participants.length with h | h
        · exact h
        · rw [List.getElem?_eq_none h] at hp2; cases hp2
      rw [List.getElem?_eq_getElem hxl] at hp1
      rw [List.getElem?_eq_getElem hyl] at hp2
      injection hp1 with e1; injection hp2 with e2
      exact hxy (hnd.getElem_inj_iff.1 (by rw [e1, e2]))
  rw [Member.advance]
  simp only [hs, hb, hnone]

/-- **3. `safety`.**  Take ANY two member machines `m`, `m'` in ANY reachable states (`MemberInv`:
whatever messages arrived, in whatever order) in which both have finished, with key shares `ks`, `ks'`,
at different indices.  Hypotheses the adversary cannot influence: each lists the other's own key
`long • g` at the other's index (authenticated transport + 3a: an honest member announces only its
own key under its own index, and a key is accepted for an index only from that member) and responses
are unforgeable in both directions (`AuthResp`).  Then both hold the SAME participant list, each holds
the commitments the other one dealt, both output the SAME public polynomial – one group key – and
each one's private share lies on it at its own index. -/
theorem safety (g : G) (m m' : Member F G) (d d' : Gen F G) (ks ks' : KeyShare F G)
    (hm : MemberInv g m) (hm' : MemberInv g m') (hst : m.stage = .done d ks) (hst' : m'.stage = .done d' ks')
    (hne : d'.index ≠ d.index)
    (hpub' : d.participants[d'.index]? = some (d'.long • g)) (hpub : d'.participants[d.index]? = some (d.long • g))
    (hauth : AuthResp g (d'.long • g) d d') (hauth' : AuthResp g (d.long • g) d' d) :
    d'.participants = d.participants ∧ commitsAt d' d'.index = commitsAt d d'.index ∧
    ks'.commits = ks.commits ∧
    ks.shareV • g = pubEval (S := F) ks.commits (d.index : Int) ∧
    ks'.shareV • g = pubEval (S := F) ks'.commits (d'.index : Int) ∧
    ks.shareI = d.index ∧ ks'.shareI = d'.index := by
  simp only [MemberInv, hst] at hm
  simp only [MemberInv, hst'] at hm'
  obtain ⟨hg, ha, _, hnd, hks⟩ := hm
  obtain ⟨hg', ha', _, hnd', hks'⟩ := hm'
  obtain ⟨h1, h2, h3⟩ := finishers_agree_auth g d d' ks ks' hg hg' ha ha' hnd hnd' hne _ _ hpub' hpub hauth hauth' hks hks'
  refine ⟨h1, h2, h3, finished_share_on_poly g d ks hg ha hks, finished_share_on_poly g d' ks' hg' ha' hks', ?_, ?_⟩
  · exact (distKeyShare_spec d ks hg.len hks).2.2.2.2.2.1
  · exact (distKeyShare_spec d' ks' hg'.len hks').2.2.2.2.2.1

/-- **3′. the former statement of `safety`** (kept as a lemma): with the agreement of the two views and
of the commitments of `m'`'s own dealing as hypotheses. -/
theorem safety_of_agreeing_views (g : G) (m m' : Member F G) (d d' : Gen F G) (ks ks' : KeyShare F G)
    (hm : MemberInv g m) (hm' : MemberInv g m') (hst : m.stage = .done d ks) (hst' : m'.stage = .done d' ks')
    (hp : d'.participants = d.participants) (hne : d'.index ≠ d.index)
    (pub' : G) (hpub' : d.participants[d'.index]? = some pub')
    (hauth : AuthResp g pub' d d')
    (hdeal : commitsAt d' d'.index = commitsAt d d'.index) :
    ks'.commits = ks.commits := by
  simp only [MemberInv, hst] at hm
  simp only [MemberInv, hst'] at hm'
  obtain ⟨hg, ha, _, hnd, hks⟩ := hm
  obtain ⟨hg', ha', _, _, hks'⟩ := hm'
  exact finishers_agree g d d' ks ks' hg hg' ha ha' hp hnd hne pub' hpub' hauth hdeal hks hks'

/-! ### non-vacuity (ℚ, `g = 1`): three members with keys 5, 7, 9 -/

section Examples
def exL : List ℚ := [5, 7, 9]
/-- member 1's verifier for dealer 0 (key 5), and dealer 0's deal for member 1 with a bad share -/
def exV : Option (Verifier ℚ ℚ) := (newVerifier (1 : ℚ) 7 5 exL).toOption
def exBad : Option (EncDeal ℚ ℚ) :=
  sealDeal (1 : ℚ) 5 exL 1 11 0
    (.deal { (honestDeal (1 : ℚ) (5 : ℚ) exL ([4, 2] : List ℚ) 1 : Deal ℚ ℚ) with share := some ⟨1, some (9 : ℚ)⟩ })
def exGood : Option (EncDeal ℚ ℚ) := sealDeal (1 : ℚ) 5 exL 1 11 0 (.deal (honestDeal (1 : ℚ) 5 exL [4, 2] 1))

-- 1: a good deal is approved (the hypotheses hold), a bad share gets a complaint
example : (do let v ← exV; let e ← exGood; pure ((processEncryptedDeal 1 v e).2.toOption.map (·.status))) = some (some true) := by
  decide +kernel
example : (do let v ← exV; let e ← exBad; pure ((processEncryptedDeal 1 v e).2.toOption.map (·.status))) = some (some false) := by
  decide +kernel

/-- three member machines, started, keys exchanged -/
def exMember (k : Nat) (long : ℚ) (f : List ℚ) : Member ℚ ℚ := Member.init 3 k long f [11 + k, 21 + k, 31 + k]
def exRun : List (Member ℚ ℚ) :=
  let ms := [exMember 0 5 [4, 2], exMember 1 7 [6, 1], exMember 2 9 [3, 8]].map (Member.start (1 : ℚ))
  let pk (k : Nat) (long : ℚ) : PkMsg ℚ := ⟨k, some long, k⟩
  ms.map (fun m => ([pk 0 5, pk 1 7, pk 2 9].filter (fun x => x.index ≠ m.index)).foldl (fun m x => m.recvPk 1 x) m)

-- 2a/2c/3: the machines reach the dealing stage (the invariant's non-trivial branch is inhabited)
example : exRun.map (fun m => match m.stage with | .waitDeals _ => true | _ => false) = [true, true, true] := by
  decide +kernel
-- 3b/3c: member 0 is sent, by member 2, a key under member 1's index / member 2 announces member 1's key: member 0 fails
example : ([(⟨1, some 99, 2⟩ : PkMsg ℚ), ⟨2, some 9, 2⟩].foldl (fun m x => m.recvPk 1 x)
    (Member.start (1 : ℚ) (exMember 0 5 [4, 2]))).stage matches .failed "gen" := by decide +kernel
example : ([(⟨1, some 7, 1⟩ : PkMsg ℚ), ⟨2, some 7, 2⟩].foldl (fun m x => m.recvPk 1 x)
    (Member.start (1 : ℚ) (exMember 0 5 [4, 2]))).stage matches .failed "gen" := by decide +kernel
-- 3: a complete run of the three machines: all finish, in states to which `safety` applies, with one key
def exCfg : Cfg ℚ ℚ := { g := 1, longs := [5, 7, 9], polys := [[4, 2], [6, 1], [3, 8]] }
def exSched : List Ev :=
  let pairs := [(0, 1), (0, 2), (1, 0), (1, 2), (2, 0), (2, 1)]
  [.start 0, .start 1, .start 2] ++ pairs.map (fun p => Ev.pk p.1 p.2) ++ pairs.map (fun p => Ev.deal p.1 p.2) ++
    pairs.map (fun p => Ev.resps p.1 p.2)
example : (runEvents exCfg [[11, 12, 13], [21, 22, 23], [31, 32, 33]] exSched).ms.map
    (fun m => match m.stage with | .done _ ks => some ks.commits | _ => none) = [some [13, 11], some [13, 11], some [13, 11]] := by
  decide +kernel
-- 3: … and each finisher lists every member's own key `long • g` at that member's index (hypotheses `hpub`, `hpub'`)
example : (runEvents exCfg [[11, 12, 13], [21, 22, 23], [31, 32, 33]] exSched).ms.map
    (fun m => match m.stage with | .done d _ => some (d.participants, d.index, d.long • (1 : ℚ)) | _ => none) =
    [some ([5, 7, 9], 0, 5), some ([5, 7, 9], 1, 7), some ([5, 7, 9], 2, 9)] := by
  decide +kernel
end Examples

end Dos.Props.C05

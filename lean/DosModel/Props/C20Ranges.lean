/-
C20 (round 2) — ranges, int64 overflow freedom and FULL REDUCTION of the ref10 scalar routines of
group/edwards25519/scalar.go.  This closes the item `C20_scalar_full` that Props/C20Scalar.lean left open.

Method (design/C20Ranges.md): `go/extract/ed25519prog` emits each routine a second time, as DATA (a list of
statements `x := e`, Gen/Ed25519ScProg.lean, regenerated on every run).  A small interval abstract interpreter
(Model/IntervalProg.lean) is proved sound ONCE for all programs (`abs_interpreter_sound`); it is then evaluated by
the kernel on the emitted data (`decide +kernel`, a few seconds per routine).  The data is tied to the functions the
other C20 theorems are about by `Eq.refl`, block by block (`data_is_the_translated_code`).  The interval result —
no intermediate value leaves the int64 range, and before the last two blocks the limbs are 21-bit digits with
s12 ∈ {-1, 0} — is combined with the exact value change of the last two blocks (−s12·ℓ) to show that the result is
in [0, ℓ) and its top limb in [0, 2^21].

Proved here, for ALL 32-byte (scReduce: 64-byte) inputs:
  * `scMulAdd_no_int64_overflow`, `sc_others_no_int64_overflow`: no int64 overflow in any (sub)expression of the
    loads, limb definitions, carry/fold blocks and byte packing; Go's wrapping int64 run equals the function of
    Gen/Ed25519Sc.lean (which computes in unbounded `Int`);
  * `scMulAdd_top_limb_range`: 0 ≤ s11 ≤ 2^21 (the hypothesis 0 ≤ s11 < 2^25 of `scMulAdd_bytes`) and
    0 ≤ value < ℓ;
  * `scMulAdd_bytes_full` = `C20_scalar_full`: leNat (scMulAdd a b c) = (a·b + c) mod ℓ, unconditionally; likewise
    `scMul_bytes_full`, `scAdd_bytes_full`, `scSub_bytes_full`, `scReduce_bytes_full` (64-byte load included);
  * `sc_results_canonical`: every result is the canonical 32-byte encoding (`scMarshal` leaves it unchanged).
-/
import DosModel.Props.C20Scalar
import DosModel.Proofs.Ed25519RangesReduce

set_option exponentiation.threshold 600

namespace Dos.Props.C20Ranges
open Dos Dos.Ed25519 Dos.IntervalProg Dos.IntervalProg.ScProg Dos.Gen.Ed25519Sc Dos.Gen.Ed25519ScProg

/-! ### 1. the abstract interpreter (all programs) -/

/-- **Soundness of the interval abstract interpreter.**  If every variable of `ρ` lies in its interval, the carry fact
of `σ` holds, and the interpreter answers `some σ'`, then (a) running `p` from `ρ` never leaves the int64 range in any
(sub)expression, (b) every variable of the final environment lies in its interval of `σ'` and the fact of `σ'` holds. -/
theorem abs_interpreter_sound (p : Prog) (ρ : Env) (σ σ' : AState) (h : Sound ρ σ) (hp : absProg σ p = some σ') :
    SafeProg ρ p ∧ Sound (evalProg ρ p) σ' :=
  absProg_sound p h hp

/-- **No overflow ⇒ the wrapping int64 semantics is the unbounded-`Int` semantics.** -/
theorem int64_semantics_coincide (p : Prog) (ρ : Env) (h : SafeProg ρ p) : evalProg64 ρ p = evalProg ρ p :=
  evalProg64_eq p ρ h

/-- the relational rule: after `c := (s + off) >> k`, the value `s - (c << k)` lies in [-off, 2^k - 1 - off] -/
theorem carry_rule (s off : Int) (k : Nat) :
    -off ≤ s - shl (shrI (s + off) k) k ∧ s - shl (shrI (s + off) k) k ≤ 2 ^ k - 1 - off :=
  sub_carry_bounds s off k

/-! ### 2. the emitted data is the translated code -/

/-- **Tie.**  Evaluating the emitted program data (unbounded `Int`) gives exactly the functions of
Gen/Ed25519Sc.lean, for all inputs (kernel `Eq.refl` per block; no block or constant is named in the proofs). -/
theorem data_is_the_translated_code :
    (∀ a b c : Bytes, runW id scMulAdd_prog [a, b, c] = scMulAdd shrI a b c)
    ∧ (∀ a c : Bytes, runW id scAdd_prog [a, c] = scAdd shrI a c)
    ∧ (∀ a c : Bytes, runW id scSub_prog [a, c] = scSub shrI a c)
    ∧ (∀ a b : Bytes, runW id scMul_prog [a, b] = scMul shrI a b)
    ∧ (∀ s : Bytes, runW id scReduce_prog [s] = scReduce shrI s) :=
  ⟨scMulAdd_tie, scAdd_tie, scSub_tie, scMul_tie, scReduce_tie⟩

/-- the kernel-evaluated analysis of the five routines (regenerated data) succeeds -/
theorem range_checks :
    rangeCheck scMulAdd_prog [32, 32, 32] = true ∧ rangeCheck scAdd_prog [32, 32] = true
    ∧ rangeCheck scSub_prog [32, 32] = true ∧ rangeCheck scMul_prog [32, 32] = true
    ∧ rangeCheck scReduce_prog [64] = true :=
  ⟨scMulAdd_rangeCheck, scAdd_rangeCheck, scSub_rangeCheck, scMul_rangeCheck, scReduce_rangeCheck⟩

/-! ### 3. no int64 overflow -/

/-- **scMulAdd never overflows int64**: for all 32-byte operands every (sub)expression of loads, limb definitions,
all 22 blocks and the byte packing stays in [-2^63, 2^63-1]; therefore the run with Go's wrapping int64 arithmetic
is the translated function (which computes in unbounded `Int`). -/
theorem scMulAdd_no_int64_overflow (a b c : Bytes) (ha : a.length = 32) (hb : b.length = 32) (hc : c.length = 32) :
    scMulAdd_prog.SafeFrom (scMulAdd_prog.rawVals [a, b, c])
    ∧ runW wrap scMulAdd_prog [a, b, c] = scMulAdd shrI a b c := by
  have h := (scMulAdd_ranges a b c ha hb hc).1
  exact ⟨h, by rw [runW_wrap_eq h, scMulAdd_tie]⟩

/-- the same for scAdd, scSub, scMul (32-byte operands) and scReduce (64-byte input) -/
theorem sc_others_no_int64_overflow :
    (∀ a c : Bytes, a.length = 32 → c.length = 32 →
      scAdd_prog.SafeFrom (scAdd_prog.rawVals [a, c]) ∧ runW wrap scAdd_prog [a, c] = scAdd shrI a c)
    ∧ (∀ a c : Bytes, a.length = 32 → c.length = 32 →
      scSub_prog.SafeFrom (scSub_prog.rawVals [a, c]) ∧ runW wrap scSub_prog [a, c] = scSub shrI a c)
    ∧ (∀ a b : Bytes, a.length = 32 → b.length = 32 →
      scMul_prog.SafeFrom (scMul_prog.rawVals [a, b]) ∧ runW wrap scMul_prog [a, b] = scMul shrI a b)
    ∧ (∀ s : Bytes, s.length = 64 →
      scReduce_prog.SafeFrom (scReduce_prog.rawVals [s]) ∧ runW wrap scReduce_prog [s] = scReduce shrI s) := by
  refine ⟨fun a c ha hc => ?_, fun a c ha hc => ?_, fun a b ha hb => ?_, fun s hs => ?_⟩
  · have h := (scAdd_ranges a c ha hc).1
    exact ⟨h, by rw [runW_wrap_eq h, scAdd_tie]⟩
  · have h := (scSub_ranges a c ha hc).1
    exact ⟨h, by rw [runW_wrap_eq h, scSub_tie]⟩
  · have h := (scMul_ranges a b ha hb).1
    exact ⟨h, by rw [runW_wrap_eq h, scMul_tie]⟩
  · have h := (scReduce_ranges s hs).1
    exact ⟨h, by rw [runW_wrap_eq h, scReduce_tie]⟩

/-! ### 4. range of the top limb, full reduction -/

/-- **Top limb.**  For all 32-byte operands the result limbs `r` of scMulAdd satisfy 0 ≤ r.s11 ≤ 2^21 (in particular
the hypothesis 0 ≤ s11 < 2^25 of `C20Scalar.scMulAdd_bytes`), and the represented value is fully reduced. -/
theorem scMulAdd_top_limb_range (a b c : Bytes) (ha : a.length = 32) (hb : b.length = 32) (hc : c.length = 32) :
    0 ≤ (app36 (scMulAdd_limbs shrI) (scMulAdd_load shrI a b c)).s11
    ∧ (app36 (scMulAdd_limbs shrI) (scMulAdd_load shrI a b c)).s11 ≤ 2097152
    ∧ 0 ≤ value (app36 (scMulAdd_limbs shrI) (scMulAdd_load shrI a b c))
    ∧ value (app36 (scMulAdd_limbs shrI) (scMulAdd_load shrI a b c)) < (ell : Int)
    ∧ scMulAdd shrI a b c = scMulAdd_store shrI (app36 (scMulAdd_limbs shrI) (scMulAdd_load shrI a b c)) :=
  let ⟨_, h0, h1, h2, h3⟩ := scMulAdd_ranges a b c ha hb hc
  ⟨h0, h1, h2, h3, scMulAdd_eq_app a b c⟩

/-- **scMulAdd on bytes, unconditional**: the 32 output bytes are the little-endian encoding of (a·b + c) mod ℓ. -/
theorem scMulAdd_bytes_full (a b c : Bytes) (ha : a.length = 32) (hb : b.length = 32) (hc : c.length = 32) :
    leNat (scMulAdd shrI a b c) = (leNat a * leNat b + leNat c) % ell := by
  have h := scMulAdd_full a b c ha hb hc
  exact_mod_cast h

/-- the clause left open in Props/C20Scalar.lean holds -/
theorem C20_scalar_full_holds : C20Scalar.C20_scalar_full :=
  fun a b c ha hb hc => scMulAdd_bytes_full a b c ha hb hc

/-- scMul on bytes: a·b mod ℓ -/
theorem scMul_bytes_full (a b : Bytes) (ha : a.length = 32) (hb : b.length = 32) :
    leNat (scMul shrI a b) = (leNat a * leNat b) % ell := by
  have h := scMul_full a b ha hb
  exact_mod_cast h

/-- scAdd on bytes: (a + c) mod ℓ -/
theorem scAdd_bytes_full (a c : Bytes) (ha : a.length = 32) (hc : c.length = 32) :
    leNat (scAdd shrI a c) = (leNat a + leNat c) % ell := by
  have h := scAdd_full a c ha hc
  exact_mod_cast h

/-- scSub on bytes: (a − c) mod ℓ, the non-negative representative -/
theorem scSub_bytes_full (a c : Bytes) (ha : a.length = 32) (hc : c.length = 32) :
    (leNat (scSub shrI a c) : Int) = ((leNat a : Int) - leNat c) % (ell : Int) :=
  scSub_full a c ha hc

/-- scReduce on bytes: a 64-byte little-endian value modulo ℓ -/
theorem scReduce_bytes_full (s : Bytes) (hs : s.length = 64) :
    leNat (scReduce shrI s) = leNat s % ell := by
  have h := scReduce_full s hs
  exact_mod_cast h

/-- **Results are canonical.**  Every scMulAdd result is a 32-byte string below ℓ, so a later
`MarshalBinary` (which reduces modulo ℓ) returns it unchanged. -/
theorem sc_results_canonical (a b c : Bytes) (ha : a.length = 32) (hb : b.length = 32) (hc : c.length = 32) :
    (scMulAdd shrI a b c).length = 32 ∧ leNat (scMulAdd shrI a b c) < ell
    ∧ scMarshal (scMulAdd shrI a b c) = scMulAdd shrI a b c := by
  have hl : (scMulAdd shrI a b c).length = 32 := by rw [scMulAdd_eq_app, scMulAdd_store_eq]; rfl
  have hlt : leNat (scMulAdd shrI a b c) < ell := by
    rw [scMulAdd_bytes_full a b c ha hb hc]; exact Nat.mod_lt _ (by decide)
  exact ⟨hl, hlt, (scMarshal_eq_self_iff _).mpr ⟨hl, hlt⟩⟩

/-! ### non-vacuity -/

/-- the interpreter accepts a small program and the soundness theorem applies to a concrete environment -/
example : SafeProg [3, 5] [⟨0, .add (.v 0) (.mul (.v 1) (.c 7))⟩]
    ∧ Sound (evalProg [3, 5] [⟨0, .add (.v 0) (.mul (.v 1) (.c 7))⟩]) ⟨[(0, 80), (0, 10)], none⟩ :=
  abs_interpreter_sound _ [3, 5] ⟨[(0, 10), (0, 10)], none⟩ _
    ⟨List.Forall₂.cons ⟨by decide, by decide⟩ (List.Forall₂.cons ⟨by decide, by decide⟩ List.Forall₂.nil),
      fun _ h => by cases h⟩ rfl
/-- … and it REJECTS a program that can overflow (2^62 · 4) -/
example : absProg ⟨[(0, 4611686018427387904)], none⟩ [⟨0, .mul (.v 0) (.c 4)⟩] = none := rfl
/-- the carry rule is what makes the analysis of the real code succeed: without the fact the same statement only gets
the plain interval -/
example : (absProg ⟨[(0, 4398046511104), (0, 0)], none⟩
      [⟨1, .shr (.add (.v 0) (.shl (.c 1) 20)) 21⟩, ⟨0, .sub (.v 0) (.shl (.v 1) 21)⟩]).map (fun σ => σ.itv.getD 0 (0, 0))
    = some (-1048576, 1048575) := by decide
example : leNat (scMulAdd shrI (natLE 32 (ell - 1)) (natLE 32 (ell - 1)) (natLE 32 7))
    = (leNat (natLE 32 (ell - 1)) * leNat (natLE 32 (ell - 1)) + leNat (natLE 32 7)) % ell :=
  scMulAdd_bytes_full _ _ _ (natLE_length _ _) (natLE_length _ _) (natLE_length _ _)
/-- the right-hand side on that input is the number 8 = (−1)·(−1) + 7 -/
example : (leNat (natLE 32 (ell - 1)) * leNat (natLE 32 (ell - 1)) + leNat (natLE 32 7)) % ell = 8 := by
  rw [leNat_natLE_of_lt 32 _ (by decide), leNat_natLE_of_lt 32 _ (by decide)]; decide
example : scMulAdd_prog.SafeFrom (scMulAdd_prog.rawVals [natLE 32 (2 ^ 256 - 1), natLE 32 (2 ^ 256 - 1), natLE 32 (2 ^ 256 - 1)]) :=
  (scMulAdd_no_int64_overflow _ _ _ (natLE_length _ _) (natLE_length _ _) (natLE_length _ _)).1
example : leNat (scReduce shrI (natLE 64 (2 ^ 512 - 1))) = leNat (natLE 64 (2 ^ 512 - 1)) % ell :=
  scReduce_bytes_full _ (natLE_length _ _)
example : (leNat (scSub shrI (natLE 32 0) (natLE 32 1)) : Int) = ((leNat (natLE 32 0) : Int) - leNat (natLE 32 1)) % (ell : Int) :=
  scSub_bytes_full _ _ (natLE_length _ _) (natLE_length _ _)

end Dos.Props.C20Ranges

/-
Model of the share collector: the body of `queryLoop`
(`dosnode/dos_query_handler.go`) as a function of one consumed event.

* `bufSign : map[string][]*vss.Signature`  ↦  `buf : Rid → List Share`
  (a missing key and a `nil` value are both the empty list, as in Go);
* `reqSign : map[string]request`           ↦  `reg : Rid → Option Nat`
  (the value is the *pipeline instance* that registered: one `handleQuery`
  run = one context + one reply channel; two runs may use the same request id);
* the contexts of the instances               ↦  `done : Nat → Bool`.

Events are what the single loop goroutine consumes, in the order it consumes
them, plus the (external) cancellation of an instance's context.  Outputs are
the sends on reply channels, `(instance, share)`.

`select { case <-req.ctx.Done(): case req.reply <- s: }` is modelled as: context
done ⇒ dropped, otherwise delivered.  (With the context done AND a receiver
still waiting Go may choose either; `recoverSign` – the only receiver – has
returned by the time `handleQuery`'s deferred `cancel()` runs, which is the
order `cancel` stands for.  Whether the loop gets THROUGH a send is the blocking
semantics `stepB` / `runB` below.)

Membership is the `ok` idiom (`req, ok := reqSign[id]`) since /repo 1c42e72; on
the pinned commit the test was `reqSign[id].requestID == id`, which for the
empty id and no registration selected the zero value and dereferenced a nil
context (finding F17, corpus/C13).
-/
import DosModel.Model.Util

namespace Dos.Collector
open Dos

abbrev Rid := Bytes

/-- a `*vss.Signature` peer message: its `RequestId` and an identity for the harness -/
structure Share where
  rid : Rid
  tag : Nat
  deriving DecidableEq, Repr

inductive Ev where
  /-- `case msg := <-peerMsg` with a `*vss.Signature` payload -/
  | arrive (s : Share)
  /-- `case req := <-d.reqSignc`: instance `h` registers for request id `r` -/
  | register (h : Nat) (r : Rid)
  /-- the context of instance `h` is cancelled (its pipeline returned / timed out) -/
  | cancel (h : Nat)
  /-- `case <-watchdog.C` -/
  | watchdog
  /-- a peer message of another type (type assertion fails: ignored) -/
  | other
  deriving DecidableEq, Repr

structure St where
  buf  : Rid → List Share
  reg  : Rid → Option Nat
  done : Nat → Bool

def init : St := { buf := fun _ => [], reg := fun _ => none, done := fun _ => false }

def upd {β : Type} (f : Rid → β) (r : Rid) (v : β) : Rid → β := fun x => if x = r then v else f x

/-- the watchdog's test on one entry of `reqSign`: registered and its context is done -/
def gone (st : St) (r : Rid) : Bool :=
  match st.reg r with
  | some h => st.done h
  | none => false

/-- one iteration of the `for { select { … } }` loop: new state and the sends performed -/
def step (st : St) : Ev → St × List (Nat × Share)
  | .arrive s =>
    match st.reg s.rid with
    | some h => if st.done h then (st, []) else (st, [(h, s)])
    | none => ({ st with buf := upd st.buf s.rid (st.buf s.rid ++ [s]) }, [])
  | .register h r =>
    let out := if st.done h then [] else (st.buf r).map (fun s => (h, s))
    ({ st with reg := upd st.reg r (some h), buf := upd st.buf r [] }, out)
  | .cancel h => ({ st with done := fun x => if x = h then true else st.done x }, [])
  | .watchdog =>
    -- every registered request whose context is done: close(reply); delete(bufSign,…); delete(reqSign,…)
    ({ st with reg := fun r => if gone st r then none else st.reg r,
               buf := fun r => if gone st r then [] else st.buf r }, [])
  | .other => (st, [])

/-- the loop over a whole schedule: final state and all sends, in order -/
def run (st : St) : List Ev → St × List (Nat × Share)
  | [] => (st, [])
  | e :: es =>
    let (st1, o1) := step st e
    let (st2, o2) := run st1 es
    (st2, o1 ++ o2)

def outputs (es : List Ev) : List (Nat × Share) := (run init es).2

/-- what instance `h` receives on its reply channel -/
def deliveries (es : List Ev) (h : Nat) : List Share :=
  ((outputs es).filter (fun p => p.1 == h)).map (·.2)

/-- the shares that arrived for request id `r`, in arrival order -/
def arrivalsFor (r : Rid) : List Ev → List Share
  | [] => []
  | .arrive s :: es => if s.rid = r then s :: arrivalsFor r es else arrivalsFor r es
  | _ :: es => arrivalsFor r es

/-! ### blocking (Review A #3, finding F20 – fixed in /repo 3a1c0bc)

`step` says what is SENT; whether the loop goroutine gets through the send is a property of the
receiver.  `select { case <-req.ctx.Done(): case req.reply <- s: }` has no ready alternative when the
request is registered, its context is live and nobody receives on the reply channel any more:
the loop waits there – for every request of the node – until the context ends (`handleQuery`
cancels it after `reportQueryResult`'s chain call: up to the transaction timeout).

`finish h` = the recovery stage of instance `h` returned (its single report is out).
`drain = true` is the code since 3a1c0bc – `defer drainSigns(ctx, signc)`: the returned stage keeps
taking (and dropping) what the loop sends until the context ends; `drain = false` the code before. -/

inductive EvB where
  | ev (e : Ev)
  /-- the recovery stage of instance `h` has returned while its query context is still live -/
  | finish (h : Nat)
  deriving DecidableEq, Repr

structure StB where
  st : St
  fin : Nat → Bool

def initB : StB := { st := init, fin := fun _ => false }

/-- a send to instance `h` would never complete: registered (the caller checks), stage gone without a
drain, context not done -/
def stuck (drain : Bool) (sb : StB) (h : Nat) : Bool := !drain && sb.fin h && !sb.st.done h

inductive OutB where
  | ok (sb : StB) (out : List (Nat × Share))
  /-- the loop goroutine waits in the send of `s` to instance `h`; nothing else is consumed -/
  | blocked (h : Nat) (s : Share)

def OutB.blockedAt : OutB → Option (Nat × Share)
  | .ok _ _ => none
  | .blocked h s => some (h, s)

def OutB.sends : OutB → List (Nat × Share)
  | .ok _ o => o
  | .blocked _ _ => []

def stepB (drain : Bool) (sb : StB) : EvB → OutB
  | .finish h => .ok { sb with fin := fun x => if x = h then true else sb.fin x } []
  | .ev (.arrive s) =>
    match sb.st.reg s.rid with
    | some h =>
      if stuck drain sb h then .blocked h s
      else .ok { sb with st := (step sb.st (.arrive s)).1 } (step sb.st (.arrive s)).2
    | none => .ok { sb with st := (step sb.st (.arrive s)).1 } (step sb.st (.arrive s)).2
  | .ev (.register h r) =>
    match sb.st.buf r with
    | s :: _ =>
      if stuck drain sb h then .blocked h s
      else .ok { sb with st := (step sb.st (.register h r)).1 } (step sb.st (.register h r)).2
    | [] => .ok { sb with st := (step sb.st (.register h r)).1 } (step sb.st (.register h r)).2
  | .ev e => .ok { sb with st := (step sb.st e).1 } (step sb.st e).2

def runB (drain : Bool) (sb : StB) : List EvB → OutB
  | [] => .ok sb []
  | e :: es =>
    match stepB drain sb e with
    | .blocked h s => .blocked h s
    | .ok sb1 o1 =>
      match runB drain sb1 es with
      | .blocked h s => .blocked h s
      | .ok sb2 o2 => .ok sb2 (o1 ++ o2)

/-- the loop's own events of a schedule (the `finish` marks removed) -/
def toEvs : List EvB → List Ev
  | [] => []
  | .ev e :: es => e :: toEvs es
  | .finish _ :: es => toEvs es

/-! ### line protocol (driver) -/

def parseEv (rids : List Rid) (pos : Nat) (t : String) : Option Ev :=
  match t.toList with
  | 'a' :: rest => do
    let j ← (String.ofList rest).toNat?
    let r ← rids[j]?
    pure (.arrive { rid := r, tag := pos })
  | 'r' :: rest =>
    match (String.ofList rest).splitOn "." with
    | [hs, js] => do
      let h ← hs.toNat?
      let j ← js.toNat?
      let r ← rids[j]?
      pure (.register h r)
    | _ => none
  | 'c' :: rest => do
    let h ← (String.ofList rest).toNat?
    pure (.cancel h)
  | ['x'] => some .other
  | ['w'] => some .watchdog
  | _ => none

def parseEvs (rids : List Rid) : Nat → List String → Option (List Ev)
  | _, [] => some []
  | pos, t :: ts => do
    let e ← parseEv rids pos t
    let es ← parseEvs rids (pos + 1) ts
    pure (e :: es)

def insertSorted (x : Nat) : List Nat → List Nat
  | [] => [x]
  | y :: ys => if x < y then x :: y :: ys else if x = y then y :: ys else y :: insertSorted x ys

/-- instances mentioned by a register or cancel event, ascending -/
def instancesOf (es : List Ev) : List Nat :=
  es.foldl (fun acc e => match e with
    | .register h _ => insertSorted h acc
    | .cancel h => insertSorted h acc
    | _ => acc) []

def showRun (es : List Ev) : String :=
  let hs := instancesOf es
  if hs.isEmpty then "none" else
  String.intercalate ";" (hs.map (fun h =>
    let ts := (deliveries es h).map (fun s => toString s.tag)
    s!"h{h}=" ++ (if ts.isEmpty then "-" else String.intercalate "," ts)))

/-- `stage` case lines: the receiver of every instance is the REAL `recoverSign` with a 1-of-1 group,
every arrival carries a valid share: the stage reports on the first share it is handed (the report
names it), returns (`finish`) and – since /repo 3a1c0bc – drains.  Output per instance: the tag of the
share it reported with, or `-`; `blocked@<tag>` if the loop would wait for ever (never, with the drain:
`Props.C13.repaired_never_blocks`). -/
def runStage (drain : Bool) (es : List Ev) : String :=
  let rec go (sb : StB) (rep : List (Nat × Nat)) : List Ev → Option Nat × List (Nat × Nat)
    | [] => (none, rep)
    | e :: rest =>
      match stepB drain sb (.ev e) with
      | .blocked _ s => (some s.tag, rep)
      | .ok sb1 out =>
        -- the first share handed to an instance that has not reported makes its stage report and return
        let (sb2, rep2) := out.foldl (fun (acc : StB × List (Nat × Nat)) (p : Nat × Share) =>
          if acc.2.any (fun q => q.1 == p.1) then acc
          else (match stepB drain acc.1 (.finish p.1) with
                | .ok sb' _ => sb'
                | .blocked _ _ => acc.1, acc.2 ++ [(p.1, p.2.tag)])) (sb1, rep)
        go sb2 rep2 rest
  let (blk, rep) := go initB [] es
  let hs := instancesOf es
  let body := if hs.isEmpty then "none" else
    String.intercalate ";" (hs.map (fun h =>
      match rep.find? (fun q => q.1 == h) with
      | some q => s!"h{h}={q.2}"
      | none => s!"h{h}=-"))
  match blk with
  | some t => body ++ s!" blocked@{t}"
  | none => body

def stepLine (line : String) : String :=
  match words line with
  | ["stage", rs, evs] =>
    match (rs.splitOn ";").mapM ofHex with
    | none => "bad-op"
    | some rids =>
      let toks := if evs == "-" then [] else evs.splitOn ","
      match parseEvs rids 0 toks with
      | none => "bad-op"
      | some es => runStage true es
  | ["loop", rs, evs] =>
    match (rs.splitOn ";").mapM ofHex with
    | none => "bad-op"
    | some rids =>
      let toks := if evs == "-" then [] else evs.splitOn ","
      match parseEvs rids 0 toks with
      | none => "bad-op"
      | some es => showRun es
  | _ => "bad-op"

end Dos.Collector

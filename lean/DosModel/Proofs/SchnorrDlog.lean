/-
C20 — a concrete lawful instance of `Schnorr.Grp` (non-vacuity of `Lawful`): the discrete-log
representation G := ZMod ℓ, B := 1, encodings = 32 little-endian bytes of the residue.
-/
import Mathlib.Data.ZMod.Basic
import DosModel.Proofs.Schnorr

namespace Dos.Schnorr
open Dos Dos.Ed25519

instance : NeZero ell := ⟨by decide⟩

-- `ZMod ell` must never be unfolded to `Fin (2^252 + …)`
attribute [local irreducible] ell

def dlogGrp : Grp (ZMod ell) where
  add := fun P Q => P + Q
  smul := fun n P => n • P
  base := 1
  enc := fun P => natLE 32 P.val
  dec := fun b => if b.length = 32 ∧ leNat b < ell then some ((leNat b : ℕ) : ZMod ell) else none

theorem dlogGrp_lawful : Lawful dlogGrp where
  add_eq := fun _ _ => rfl
  smul_eq := fun _ _ => rfl
  order := by
    show ell • (1 : ZMod ell) = 0
    rw [nsmul_eq_mul, mul_one, ZMod.natCast_self]
  enc_len := fun P => natLE_length _ _
  dec_enc := by
    intro P
    have hv : P.val < ell := ZMod.val_lt P
    have h1 : leNat (natLE 32 P.val) = P.val := leNat_natLE_of_lt 32 _ (Nat.lt_trans hv ell_lt)
    show (if (natLE 32 P.val).length = 32 ∧ leNat (natLE 32 P.val) < ell then _ else _) = _
    rw [natLE_length, h1, if_pos ⟨rfl, hv⟩]
    show some ((leNat (natLE 32 P.val) : ℕ) : ZMod ell) = some P
    rw [h1, ZMod.natCast_zmod_val]

theorem dlogGrp_order (n : ℕ) (h : n • dlogGrp.base = 0) : ell ∣ n := by
  have : n • (1 : ZMod ell) = 0 := h
  rw [nsmul_eq_mul, mul_one] at this
  exact (ZMod.natCast_eq_zero_iff n ell).mp this

end Dos.Schnorr

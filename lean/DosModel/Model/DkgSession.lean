/-
Model of the networked layer of key generation, `share/dkg/pedersen/pdkg.go` (`Loop`,
`handlePeerMsg`, `handleRequest`) and the stage order of `Grouping` in `pdkg_pipes.go`,
as an event-sequence machine per member (DESIGN §4: the body of the single `Loop` goroutine
is a function of the event; a stage runs as soon as its predecessor has finished AND the
batch it waits for has been handed over – Go channel semantics, with the reply channel of
capacity 1 introduced by fix 0865f79, and response de-duplication of fix 41ce4e1).

Events at a member: `start` (its `Grouping` call: the three requests are registered and its
public key is sent) and the arrival of a `PublicKey`, a `Deal`, or one `Response` of a
`Responses` message.  Deadlines (`ctx`) are not modelled: the liveness statement is about
runs that are not cut off.
-/
import DosModel.Model.Dkg

namespace Dos.Dkg
open Dos Dos.Vss

/-! ### session layer: one (buffer, registered request) pair of `Loop` -/

/-- `sessionMap[id]`, `sessionReq[id].numOfResps` (`none` = no request registered) -/
structure Pair (M : Type) where
  buf : List M
  req : Option Nat
  deriving Repr

/-- `handlePeerMsg` for one message kind: `dup` is the de-duplication test of that kind.
Returns the batch handed to the waiting stage when the count reaches `numOfResps` exactly
(buffer and request are then deleted). -/
def handlePeerMsg {M : Type} (dup : M → M → Bool) (p : Pair M) (m : M) : Pair M × Option (List M) :=
  if p.buf.any (fun x => dup x m) then (p, none)
  else
    let buf := p.buf ++ [m]
    match p.req with
    | some k => if buf.length = k then (⟨[], none⟩, some buf) else (⟨buf, some k⟩, none)
    | none => (⟨buf, none⟩, none)     -- zero-value request: numOfResps = 0 ≠ len ≥ 1

/-- `handleRequest` -/
def handleRequest {M : Type} (p : Pair M) (k : Nat) : Pair M × Option (List M) :=
  if p.buf.length = k then (⟨[], none⟩, some p.buf) else (⟨p.buf, some k⟩, none)

/-- `dkg.PublicKey` message: index and (decoded) key; `none` = missing / undecodable key.
`sender` is the field `SenderId` as a position in the group id list (group ids are pairwise distinct;
bytes that are no group id – empty, garbage – are any number `≥ n`).  On the wire it is whatever
the sending process put there; `Loop` overwrites it with the transport-authenticated sender before
the message is buffered (`stampSender`, fix e9f475e). -/
structure PkMsg (P : Type) where
  index : Nat
  key : Option P
  sender : Nat
  deriving DecidableEq, Repr

/-- `stampSender`: unconditional overwrite of the claimed sender -/
def stampSender {P : Type} (x : PkMsg P) (sender : Nat) : PkMsg P := { x with sender := sender }

def dupPk {P : Type} (a b : PkMsg P) : Bool := a.index = b.index
def dupDeal {S P : Type} (a b : DkgDeal S P) : Bool := a.index = b.index
/-- fix 41ce4e1: one response per (dealer, responder); messages without a response are never duplicates -/
def dupResp {S P : Type} (a b : DkgResp S P) : Bool :=
  match a.resp, b.resp with
  | some x, some y => a.index = b.index && x.index = y.index
  | _, _ => false

section
variable {S P : Type} [DecidableEq S] [DecidableEq P]
variable [Zero P] [Add P] [SMul S P] [IntCast S] [Mul S] [Add S] [Zero S]

/-! ### the stages of `Grouping` as functions of their batch -/

/-- `getAndProcessDeals`: an error of `ProcessDeal` is reported and the loop goes on, a
non-approval stops the stage; `none` = stopped (no `Responses` message is sent, nothing is handed on) -/
def runDeals (g : P) : Gen S P → List (DkgDeal S P) → List (DkgResp S P) → Gen S P × Option (List (DkgResp S P))
  | d, [], acc => (d, some acc)
  | d, m :: ms, acc =>
    let (d1, r) := processDeal g d m
    match r with
    | .error _ => runDeals g d1 ms acc
    | .ok resp =>
      match resp.resp with
      | some r => if r.status = true then runDeals g d1 ms (acc ++ [resp]) else (d1, none)
      | none => (d1, none)

/-- `getAndProcessResponses`: the first error stops the stage (`false`) -/
def runResps (g : P) : Gen S P → List (DkgResp S P) → Gen S P × Bool
  | d, [] => (d, true)
  | d, m :: ms =>
    let (d1, r) := processResponse g d m
    match r with
    | .error _ => (d1, false)
    | .ok _ => runResps g d1 ms

/-- `genGroup` -/
def genGroup (d : Gen S P) : Out (KeyShare S P) := distKeyShare d

/-- `exchangePub` + `genDistKeyGenerator`: own key first, then the batch; every index below `n`,
every key announced by the member whose index it claims (fix e9f475e), no index twice, no key
twice (fix babf9f5), every key present; then `NewDistKeyGenerator(sec, pubPoints, n/2+1)` whose
polynomial is `f` -/
def buildGen (g : P) (n : Nat) (long : S) (f : List S) (own : PkMsg P) (batch : List (PkMsg P)) : Option (Gen S P) :=
  let rec place : List (PkMsg P) → List (Option P) → Option (List (Option P))
    | [], acc => some acc
    | m :: ms, acc =>
      match m.key with
      | none => none
      | some k =>
        if m.index ≥ n then none
        else if m.sender ≠ m.index then none
        else if ((acc[m.index]?).join).isSome then none
        else if acc.contains (some k) then none
        else place ms (acc.set m.index (some k))
  match place (own :: batch) (List.replicate n none) with
  | none => none
  | some slots =>
    match slots.mapM id with            -- a missing index leaves a nil point: NewDistKeyGenerator fails on it
    | none => none
    | some pubs =>
      match newGen g long pubs f with
      | .ok d => some d
      | .error _ => none

/-! ### one member -/

inductive Stage (S P : Type) where
  | idle                                   -- `Grouping` not called yet
  | waitPk                                 -- exchangePub waits for the public keys
  | waitDeals (d : Gen S P)                -- getAndProcessDeals waits for the deals
  | waitResps (d : Gen S P)                -- getAndProcessResponses waits for the responses
  | done (d : Gen S P) (ks : KeyShare S P) -- genGroup produced the group key
  | failed (why : String)                  -- a stage reported an error and the pipeline drained
  deriving Repr

/-- what a member puts on the wire -/
inductive Sent (S P : Type) where
  | pk (m : PkMsg P)                                   -- to every other member
  | deal (to : Nat) (m : DkgDeal S P)
  | resps (ms : List (DkgResp S P))                    -- one `Responses` message to every other member
  deriving Repr

structure Member (S P : Type) where
  n : Nat
  index : Nat
  long : S
  f : List S              -- the polynomial `NewDistKeyGenerator` will draw
  ephs : List S           -- the ephemeral secrets `EncryptedDeals` will draw
  pkP : Pair (PkMsg P)
  dlP : Pair (DkgDeal S P)
  rsP : Pair (DkgResp S P)
  pkBox : Option (List (PkMsg P))        -- reply channels of the three requests (capacity 1)
  dlBox : Option (List (DkgDeal S P))
  rsBox : Option (List (DkgResp S P))
  stage : Stage S P
  sent : List (Sent S P)
  lastGen : Option (Gen S P)     -- the generator as the last stage that ran left it (kept after a failure)
  deriving Repr

def Member.init (n index : Nat) (long : S) (f ephs : List S) : Member S P :=
  { n := n, index := index, long := long, f := f, ephs := ephs,
    pkP := ⟨[], none⟩, dlP := ⟨[], none⟩, rsP := ⟨[], none⟩,
    pkBox := none, dlBox := none, rsBox := none, stage := .idle, sent := [], lastGen := none }

/-- run every stage whose predecessor has finished and whose batch has been handed over -/
def Member.advance (g : P) (fuel : Nat) (m : Member S P) : Member S P :=
  match fuel with
  | 0 => m
  | fuel + 1 =>
    match m.stage with
    | .waitPk =>
      match m.pkBox with
      | none => m
      | some batch =>
        match buildGen g m.n m.long m.f ⟨m.index, some (m.long • g), m.index⟩ batch with
        | none => { m with pkBox := none, stage := .failed "gen" }
        | some d =>
          match deals g d m.ephs with
          | .ok (d1, ds) =>
            Member.advance g fuel { m with pkBox := none, stage := .waitDeals d1, lastGen := some d1,
                                           sent := m.sent ++ ds.map (fun x => Sent.deal x.1 x.2) }
          | _ => { m with pkBox := none, stage := .failed "owndeal" }
    | .waitDeals d =>
      match m.dlBox with
      | none => m
      | some batch =>
        match runDeals g d batch [] with
        | (d1, none) => { m with dlBox := none, stage := .failed "noapproval", lastGen := some d1 }
        | (d1, some rs) =>
          Member.advance g fuel { m with dlBox := none, stage := .waitResps d1, lastGen := some d1,
                                         sent := m.sent ++ [Sent.resps rs] }
    | .waitResps d =>
      match m.rsBox with
      | none => m
      | some batch =>
        match runResps g d batch with
        | (d1, false) => { m with rsBox := none, stage := .failed "response", lastGen := some d1 }
        | (d1, true) =>
          match genGroup d1 with
          | .ok ks => { m with rsBox := none, stage := .done d1 ks, lastGen := some d1 }
          | .err e => { m with rsBox := none, stage := .failed e.name, lastGen := some d1 }
          | .panic _ => { m with rsBox := none, stage := .failed "panic", lastGen := some d1 }
    | _ => m

/-- `Grouping`: the three `askMembers` requests reach `Loop`, the own public key goes out -/
def Member.start (g : P) (m : Member S P) : Member S P :=
  match m.stage with
  | .idle =>
    let (pk, b0) := handleRequest m.pkP (m.n - 1)
    let (dl, b1) := handleRequest m.dlP (m.n - 1)
    let (rs, b2) := handleRequest m.rsP ((m.n - 1) * (m.n - 1))
    Member.advance g 4 { m with pkP := pk, dlP := dl, rsP := rs, pkBox := b0, dlBox := b1, rsBox := b2,
                                stage := .waitPk, sent := m.sent ++ [Sent.pk ⟨m.index, some (m.long • g), m.index⟩] }
  | _ => m

def orElse {α : Type} (a b : Option α) : Option α := match a with | some x => some x | none => b

def Member.recvPk (g : P) (m : Member S P) (x : PkMsg P) : Member S P :=
  let (p, b) := handlePeerMsg dupPk m.pkP x
  Member.advance g 4 { m with pkP := p, pkBox := orElse m.pkBox b }

/-- a `PublicKey` message from transport peer `sender` as `Loop` handles it: stamp, then `handlePeerMsg` -/
def Member.loopPk (g : P) (m : Member S P) (sender : Nat) (x : PkMsg P) : Member S P :=
  m.recvPk g (stampSender x sender)

def Member.recvDeal (g : P) (m : Member S P) (x : DkgDeal S P) : Member S P :=
  let (p, b) := handlePeerMsg dupDeal m.dlP x
  Member.advance g 4 { m with dlP := p, dlBox := orElse m.dlBox b }

def Member.recvResp (g : P) (m : Member S P) (x : DkgResp S P) : Member S P :=
  let (p, b) := handlePeerMsg dupResp m.rsP x
  Member.advance g 4 { m with rsP := p, rsBox := orElse m.rsBox b }

/-- a `Responses` message: `Loop` feeds its entries to `handlePeerMsg` one by one -/
def Member.recvResps (g : P) (m : Member S P) (xs : List (DkgResp S P)) : Member S P :=
  xs.foldl (Member.recvResp g) m

end

end Dos.Dkg

/-
C10 round 5 — toward the declared partial "bilinearity of the implemented optimal-ate Miller loop": what the
TRANSLATED line functions and Miller loop of optate.go compute, as kernel-checked algebra over every commutative
ring / field (no pairing theory):
* `line_functions_closed_form`: lineFunctionAdd / lineFunctionDouble return the coefficients
  a = 2(L₁x_P − y_P Z₃), b = −2L₁x_Q, c = 2Z₃y_Q (chord; H = x_PZ² − X, L₁ = 2(y_PZ³ − Y), Z₃ = 2ZH) resp.
  a = 2EX − 4Y², b = −2EZ²x_Q, c = 2Z₃Z²y_Q (tangent; E = 3X², Z₃ = 2YZ) and rOut = the mixed addition / the doubling;
* `mulLine_is_multiplication`: the sparse `mulLine(ret, a, b, c)` is ret · (a·τω + b·ω + c);
* `line_is_chord`, `line_is_tangent`: that gfP12 element is, up to a factor in the subfield gfP2, the line through the
  untwisted points ψ(R), ψ(P) (ψ(x, y) = (xω², yω³)) resp. the tangent at ψ(R), evaluated at the G1 point;
* `miller_is_fold`: the translated Miller loop (265 unrolled lets) is the fold over the regenerated NAF digits of 6u+2
  of "square · tangent line · (chord line on a non-zero digit)" followed by the two Frobenius-twisted chords;
  `miller_step_is_product` gives the accumulator of one step as that product.
What REMAINS assumed after this: that the product of these lines is the Miller function f_{6u+2,Q}(P) whose final
exponentiation is bilinear and non-degenerate (divisor theory / Weil reciprocity), that the gfP2 factors are killed by
the final exponentiation, and Frobenius = p-power. Only theorems; lemmas in Proofs/Bn256Line.lean.
-/
import DosModel.Proofs.Bn256Line

set_option linter.unusedSectionVars false

namespace Dos.Props.C10Line
open Dos Dos.Bn256 Dos.Gen Dos.Gen.Bn256Code

/-- **closed forms of the line coefficients and of rOut**, from the translated straight-line code, over every
commutative ring, under the invariants the Miller loop maintains (r.t = r.z², r2 = p.y²) -/
theorem line_functions_closed_form {K : Type} [CommRing K] (r p : Jac (Fp2 K)) (q : Jac K) (r2 : Fp2 K)
    (ht : r.t = r.z * r.z) (h2 : r2 = p.y * p.y) :
    (let H := p.x * (r.z * r.z) - r.x
     let L1 := 2 * (p.y * (r.z * r.z * r.z) - r.y)
     let Z3 := 2 * r.z * H
     (lineFunctionAdd r p q r2).1 = 2 * (L1 * p.x - p.y * Z3) ∧
     (lineFunctionAdd r p q r2).2.1 = -(2 * L1 * Fp2.ofBase q.x) ∧
     (lineFunctionAdd r p q r2).2.2.1 = 2 * Z3 * Fp2.ofBase q.y ∧
     (lineFunctionAdd r p q r2).2.2.2.z = Z3 ∧
     (lineFunctionAdd r p q r2).2.2.2.t = Z3 * Z3 ∧
     (lineFunctionAdd r p q r2).2.2.2.x = L1 * L1 - 4 * (H * H * H) - 8 * (r.x * (H * H)) ∧
     (lineFunctionAdd r p q r2).2.2.2.y =
       (4 * (r.x * (H * H)) - (L1 * L1 - 4 * (H * H * H) - 8 * (r.x * (H * H)))) * L1 - 8 * (r.y * (H * H * H))) ∧
    (let E := 3 * (r.x * r.x)
     let Z3 := 2 * r.y * r.z
     (lineFunctionDouble r q).1 = 2 * (E * r.x) - 4 * (r.y * r.y) ∧
     (lineFunctionDouble r q).2.1 = -(2 * (E * (r.z * r.z)) * Fp2.ofBase q.x) ∧
     (lineFunctionDouble r q).2.2.1 = 2 * (Z3 * (r.z * r.z)) * Fp2.ofBase q.y ∧
     (lineFunctionDouble r q).2.2.2.z = Z3 ∧
     (lineFunctionDouble r q).2.2.2.t = Z3 * Z3 ∧
     (lineFunctionDouble r q).2.2.2.x = E * E - 8 * (r.x * (r.y * r.y)) ∧
     (lineFunctionDouble r q).2.2.2.y = E * (12 * (r.x * (r.y * r.y)) - E * E) - 8 * (r.y * r.y * (r.y * r.y))) :=
  ⟨lineFunctionAdd_closed r p q r2 ht h2, lineFunctionDouble_closed r q ht⟩

/-- non-vacuity over ℤ: R = (1, 2, 1), P = (3, 4), Q = (5, 7): H = 2, L₁ = 4, Z₃ = 4 -/
example : (lineFunctionAdd (⟨⟨0, 1⟩, ⟨0, 2⟩, ⟨0, 1⟩, ⟨0, 1⟩⟩ : Jac (Fp2 Int)) ⟨⟨0, 3⟩, ⟨0, 4⟩, ⟨0, 1⟩, ⟨0, 1⟩⟩
      (⟨5, 7, 1, 1⟩ : Jac Int) ⟨0, 16⟩).1 = ⟨0, -8⟩ ∧
    (lineFunctionAdd (⟨⟨0, 1⟩, ⟨0, 2⟩, ⟨0, 1⟩, ⟨0, 1⟩⟩ : Jac (Fp2 Int)) ⟨⟨0, 3⟩, ⟨0, 4⟩, ⟨0, 1⟩, ⟨0, 1⟩⟩
      (⟨5, 7, 1, 1⟩ : Jac Int) ⟨0, 16⟩).2.2.2.z = ⟨0, 4⟩ := by decide

/-- **mulLine is the multiplication by a·τω + b·ω + c** -/
theorem mulLine_is_multiplication {K : Type} [CommRing K] (ret : Fp12 K) (a b c : Fp2 K) :
    Bn256Code.mulLine ret a b c = ret * lineElem a b c ∧
    lineElem a b c = iota a * omega3 + iota b * omega1 + iota c ∧
    ((omega1 : Fp12 K) * omega1 = omega2 ∧ (omega2 : Fp12 K) * omega1 = omega3 ∧
      (omega3 : Fp12 K) * omega3 = iota Fp2.xi) :=
  ⟨mulLine_eq_mul ret a b c, lineElem_eq a b c, omega_powers⟩

example : Bn256Code.mulLine (⟨⟨0, 0, ⟨0, 1⟩⟩, ⟨0, 0, ⟨0, 2⟩⟩⟩ : Fp12 Int) ⟨0, 3⟩ ⟨0, 5⟩ ⟨0, 7⟩ =
    (⟨⟨0, 0, ⟨0, 1⟩⟩, ⟨0, 0, ⟨0, 2⟩⟩⟩ : Fp12 Int) * lineElem ⟨0, 3⟩ ⟨0, 5⟩ ⟨0, 7⟩ :=
  (mulLine_is_multiplication _ _ _ _).1

/-- **the chord**: for every λ with λ·Z₃ = L₁ (the slope of the chord through R = (X/Z², Y/Z³) and P, in Jacobian
form), the line element that lineFunctionAdd hands to mulLine is 2Z₃ times
y_Q − y_P·ω³ − λω·(x_Q − x_P·ω²), the line through ψ(P) = (x_Pω², y_Pω³) with slope λω evaluated at (x_Q, y_Q) -/
theorem line_is_chord {K : Type} [CommRing K] (r p : Jac (Fp2 K)) (q : Jac K) (r2 lam : Fp2 K)
    (ht : r.t = r.z * r.z) (h2 : r2 = p.y * p.y)
    (hl : lam * (2 * r.z * (p.x * (r.z * r.z) - r.x)) = 2 * (p.y * (r.z * r.z * r.z) - r.y)) :
    lineElem (lineFunctionAdd r p q r2).1 (lineFunctionAdd r p q r2).2.1 (lineFunctionAdd r p q r2).2.2.1 =
      iota (2 * (2 * r.z * (p.x * (r.z * r.z) - r.x))) *
        (iota (Fp2.ofBase q.y) - iota p.y * omega3 -
          iota lam * omega1 * (iota (Fp2.ofBase q.x) - iota p.x * omega2)) :=
  lineFunctionAdd_is_chord r p q r2 lam ht h2 hl

/-- the hypotheses are satisfiable (ℤ, slope λ = 1: R = (1, 2, 1), P = (3, 4)) -/
example :=
  line_is_chord (⟨⟨0, 1⟩, ⟨0, 2⟩, ⟨0, 1⟩, ⟨0, 1⟩⟩ : Jac (Fp2 Int)) ⟨⟨0, 3⟩, ⟨0, 4⟩, ⟨0, 1⟩, ⟨0, 1⟩⟩
    (⟨5, 7, 1, 1⟩ : Jac Int) ⟨0, 16⟩ ⟨0, 1⟩ (by decide) (by decide) (by decide)

/-- **the tangent**: for affine coordinates (x_R, y_R) of R (x_RZ² = X, y_RZ³ = Y) and every λ with λ·Z₃ = 3X² (the
tangent slope), the line element of lineFunctionDouble is 2Z₃Z² times the tangent at ψ(R) evaluated at (x_Q, y_Q) -/
theorem line_is_tangent {K : Type} [CommRing K] (r : Jac (Fp2 K)) (q : Jac K) (xR yR lam : Fp2 K)
    (ht : r.t = r.z * r.z) (hx : xR * (r.z * r.z) = r.x) (hy : yR * (r.z * r.z * r.z) = r.y)
    (hl : lam * (2 * r.y * r.z) = 3 * (r.x * r.x)) :
    lineElem (lineFunctionDouble r q).1 (lineFunctionDouble r q).2.1 (lineFunctionDouble r q).2.2.1 =
      iota (2 * (2 * r.y * r.z * (r.z * r.z))) *
        (iota (Fp2.ofBase q.y) - iota yR * omega3 -
          iota lam * omega1 * (iota (Fp2.ofBase q.x) - iota xR * omega2)) :=
  lineFunctionDouble_is_tangent r q xR yR lam ht hx hy hl

/-- satisfiable (ℤ: R = (2, 3, 1), slope λ = 2: 2·6 = 3·4) -/
example :=
  line_is_tangent (⟨⟨0, 2⟩, ⟨0, 3⟩, ⟨0, 1⟩, ⟨0, 1⟩⟩ : Jac (Fp2 Int)) (⟨5, 7, 1, 1⟩ : Jac Int) ⟨0, 2⟩ ⟨0, 3⟩ ⟨0, 2⟩
    (by decide) (by decide) (by decide) (by decide)

set_option maxRecDepth 100000 in
/-- **the translated Miller loop is the fold over the regenerated NAF digits** (E1's `sixuPlus2NAF`, E7's unrolled
`miller`): over every field, all constants, all points — by evaluation of the fold over the 65 literal digits -/
theorem miller_is_fold {K : Type} [Field K] [DecidableEq K] (cs : FrobConsts K) (q : Jac (Fp2 K)) (p : Jac K) :
    Bn256Code.miller cs q p = millerFold cs Gen.Bn256.sixuPlus2NAF q p := by
  rfl

/-- **one iteration multiplies the squared accumulator by the tangent line and, on a digit ±1, by the chord through
±Q** (the `first` iteration only omits the squaring of the accumulator 1) -/
theorem miller_step_is_product {K : Type} [Field K] [DecidableEq K] (aAff minusA : Jac (Fp2 K)) (bAff : Jac K)
    (r2 : Fp2 K) (digit : Int) (st : Fp12 K × Jac (Fp2 K)) :
    let l := lineFunctionDouble st.2 bAff
    let tangent := lineElem l.1 l.2.1 l.2.2.1
    (millerStep aAff minusA bAff r2 false digit st).1 =
      if digit = 1 then
        st.1 * st.1 * tangent * (let l2 := lineFunctionAdd l.2.2.2 aAff bAff r2; lineElem l2.1 l2.2.1 l2.2.2.1)
      else if digit = -1 then
        st.1 * st.1 * tangent * (let l2 := lineFunctionAdd l.2.2.2 minusA bAff r2; lineElem l2.1 l2.2.1 l2.2.2.1)
      else st.1 * st.1 * tangent :=
  millerStep_spec aAff minusA bAff r2 digit st

/-- the digit list the fold runs over: 64 iterations, 25 of them with a chord -/
example : (Gen.Bn256.sixuPlus2NAF.take (Gen.Bn256.sixuPlus2NAF.length - 1)).length = 64 ∧
    ((Gen.Bn256.sixuPlus2NAF.take (Gen.Bn256.sixuPlus2NAF.length - 1)).filter (· ≠ 0)).length = 25 := by decide

end Dos.Props.C10Line

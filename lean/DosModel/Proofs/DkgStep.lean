/-
State invariants of the `DistKeyGenerator` model (`Model/Dkg.lean`) that hold for EVERY input:
`GoodGen` is preserved by `ProcessDeal` and `ProcessResponse` whatever message arrives.  It records,
per dealer slot, that the stored own response is the one this member signed for the commitments it
saw (and, when it is an approval, that the stored deal is consistent with them), and that every
response of another member in the slot passed `verifyResponse` (session id of the slot, signature
of that member).
-/
import DosModel.Proofs.VssAgg
import DosModel.Model.Dkg

set_option linter.unusedSectionVars false

namespace Dos.Dkg
open Dos Dos.Vss

variable {F G : Type} [Field F] [AddCommGroup G] [Module F G] [DecidableEq F] [DecidableEq G]

/-! ### `ProcessEncryptedDeal` on a verifier without aggregator -/

theorem verifyDeal_fresh_state (g : G) (dealer : G) (vs : List G) (d : Deal F G) :
    let a0 : Agg F G := newAgg dealer vs d.commits d.t d.sid
    let a1 := (verifyDeal g a0 d true).1
    a1.vs = vs ∧ a1.dealer = dealer ∧ a1.sid = d.sid ∧ a1.responses = List.replicate vs.length none ∧
    a1.badDealer = false ∧ (a1.deal = none ∨ a1.deal = some d) ∧
    ((verifyDeal g a0 d true).2 = none → a1.deal = some d) ∧ a1.t = d.t := by
  intro a0 a1
  have hfr := verifyDeal_frame g a0 d true
  refine ⟨hfr.1, hfr.2.1, ?_, hfr.2.2.1, hfr.2.2.2.1, ?_, ?_, hfr.2.2.2.2⟩
  all_goals
    simp only [a1, a0]
    unfold verifyDeal
    rcases d.share with _ | ⟨i, v⟩
    · simp [newAgg]
    · rcases v with _ | val
      · simp [newAgg]
      · simp only [newAgg, Option.isSome_none, Bool.false_eq_true, false_and, if_false, Option.isNone_none, if_true]
        (repeat' split) <;> simp

/-- the complete effect of `ProcessEncryptedDeal` on a verifier that has no aggregator yet -/
theorem pe_fresh (g : G) (v : Verifier F G) (e : EncDeal F G) (rnd : Nat)
    (hv : v.agg = none) (hidx : v.index < v.vs.length) :
    (∃ err, processEncryptedDeal g v e rnd = (v, .error err)) ∨
    (∃ d r a, decryptDeal g v e = .ok d ∧ processEncryptedDeal g v e rnd = ({ v with agg := some a, approved := r.status }, .ok r) ∧
      r.index = v.index ∧ r.sid = Sid.h v.dealer v.vs d.commits d.t ∧
      r.sig = .sign v.long r.sid v.index r.status rnd ∧
      (r.status = true ↔ Consistent g v.dealer v.vs d) ∧
      (∀ sh, d.share = some sh → sh.i = (v.index : Int)) ∧
      a.vs = v.vs ∧ a.dealer = v.dealer ∧ a.sid = d.sid ∧ a.badDealer = false ∧
      a.responses = (List.replicate v.vs.length none).set v.index (some r) ∧
      (a.deal = none ∨ a.deal = some d) ∧ (r.status = true → a.deal = some d) ∧ a.t = d.t) := by
  rcases hd : decryptDeal g v e with err | d
  · exact Or.inl ⟨err, process_decrypt_error g v e rnd err hd⟩
  · rcases hsh : d.share with _ | sh
    · exact Or.inl ⟨.noShare, by simp [processEncryptedDeal, hd, hsh]⟩
    · by_cases hvn : sh.v.isNone = true
      · exact Or.inl ⟨.noShare, by simp [processEncryptedDeal, hd, hsh, hvn]⟩
      by_cases hi : sh.i = (v.index : Int)
      · right
        have hst := verifyDeal_fresh_state g v.dealer v.vs d
        have hna := verifyDeal_fresh_not_already g (newAgg (S := F) v.dealer v.vs d.commits d.t d.sid) d rfl
        have hiff := verifyDeal_fresh_ok_iff g (newAgg (S := F) v.dealer v.vs d.commits d.t d.sid) d rfl
        simp only at hst
        generalize hvd : verifyDeal g (newAgg (S := F) v.dealer v.vs d.commits d.t d.sid) d true = res at *
        obtain ⟨a1, verr⟩ := res
        simp only at hst hna hiff
        obtain ⟨h1, h2, h3, h4, h5, h6, h7, h8⟩ := hst
        have hadd : ¬ (v.index ≥ a1.vs.length) := by rw [h1]; omega
        have hhas : hasResponse a1 v.index = false := by
          simp [hasResponse, getResponse, h4, hidx]
        let r : Response F G := ⟨Sid.h v.dealer v.vs d.commits d.t, v.index, verr.isNone,
          RespSig.sign v.long (Sid.h v.dealer v.vs d.commits d.t) v.index verr.isNone rnd⟩
        refine ⟨d, r, { a1 with responses := a1.responses.set v.index (some r) }, rfl, ?_, rfl, rfl, rfl, ?_, ?_,
          h1, h2, h3, h5, ?_, h6, ?_, h8⟩
        · simp only [processEncryptedDeal, hd, hsh, hvn, Bool.false_eq_true, hi, ne_eq, not_true_eq_false, if_false, hv, hvd, hna]
          simp only [addResponse, hadd, if_false, hhas, Bool.false_eq_true]
          rfl
        · have hiff' : verr = none ↔ Consistent g v.dealer v.vs d := hiff
          rw [← hiff']; simp [r, Option.isNone_iff_eq_none]
        · intro sh' hs'; rw [hsh] at hs'; injection hs' with hs'; rw [← hs']; exact hi
        · simp [h4]
        · intro hs; apply h7; simpa [r, Option.isNone_iff_eq_none] using hs
      · exact Or.inl ⟨.index, by simp [processEncryptedDeal, hd, hsh, hvn, hi]⟩

/-! ### the invariant -/

/-- a response of another member in slot `k` went through `verifyResponse`: it carries the slot's
session id and a signature of member `k` on it (the status may since have been turned into an
approval by an accepted justification) -/
def SlotOk (g : G) (L : List G) (a : Agg F G) (k : Nat) : Prop :=
  ∀ r, getResponse a k = some r → r.index = k ∧ r.sid = a.sid ∧
    ∃ pub st, L[k]? = some pub ∧ verifyRespSig g pub { r with status := st } = true

structure GoodA (g : G) (own : Nat) (long : F) (L : List G) (dealer : G) (j : Nat) (a : Agg F G) : Prop where
  hvs : a.vs = L
  hdealer : a.dealer = dealer
  hlen : a.responses.length = L.length
  ownResp : ∃ r, getResponse a own = some r ∧ r.index = own ∧ (∃ rnd, r.sig = .sign long r.sid own r.status rnd) ∧
    (r.status = true → ∃ d val, a.deal = some d ∧ a.sid = d.sid ∧ r.sid = Sid.h dealer L d.commits d.t ∧
      Consistent g dealer L d ∧ d.share = some ⟨(own : Int), some val⟩)
  others : ∀ k, k ≠ own → k ≠ j → SlotOk g L a k

structure GoodV (g : G) (own : Nat) (long : F) (L : List G) (j : Nat) (v : Verifier F G) : Prop where
  hdealer : L[j]? = some v.dealer
  hvs : v.vs = L
  hlong : v.long = long
  hindex : v.index = own
  hagg : ∀ a, v.agg = some a → GoodA g own long L v.dealer j a

/-- the part of the invariant that holds from `initDistKeyGenerator` on -/
structure GoodGen0 (g : G) (d : Gen F G) : Prop where
  len : d.verifiers.length = d.participants.length
  idx : findIndex (d.long • g) d.participants 0 = some d.index
  lt : d.index < d.participants.length
  good : ∀ j v, getVerifier d j = some v → GoodV g d.index d.long d.participants j v

/-- the invariant after `Deals()`: the own slot is taken and stores the own deal -/
structure GoodGen (g : G) (d : Gen F G) : Prop extends GoodGen0 g d where
  ownSlot : (getVerifier d d.index).isSome = true
  ownDeal : ∀ v a, getVerifier d d.index = some v → v.agg = some a → a.deal.isSome = true

theorem getVerifier_set (d : Gen F G) (j k : Nat) (v : Verifier F G) (hj : j < d.verifiers.length) :
    getVerifier (setVerifier d j v) k = if j = k then some v else getVerifier d k := by
  unfold getVerifier setVerifier
  simp only [List.getElem?_set]
  by_cases h : j = k
  · subst h; simp [hj]
  · simp [h]

theorem setVerifier_frame (d : Gen F G) (j : Nat) (v : Verifier F G) :
    (setVerifier d j v).participants = d.participants ∧ (setVerifier d j v).index = d.index ∧
    (setVerifier d j v).long = d.long ∧ (setVerifier d j v).verifiers.length = d.verifiers.length ∧
    (setVerifier d j v).dealer = d.dealer ∧ (setVerifier d j v).t = d.t := by
  simp [setVerifier]

theorem findIndex_lt (pub : G) : ∀ (l : List G) (k i : Nat), findIndex pub l k = some i → k ≤ i ∧ i < k + l.length
  | [], k, i, h => by simp [findIndex] at h
  | p :: ps, k, i, h => by
    unfold findIndex at h
    by_cases hp : p = pub
    · simp only [hp, if_true, Option.some.injEq] at h; subst h; simp
    · simp only [hp, if_false] at h
      have := findIndex_lt pub ps (k + 1) i h
      simp only [List.length_cons]; omega

theorem newVerifier_ok {g : G} {long : F} {dealer : G} {vs : List G} {v : Verifier F G}
    (h : newVerifier g long dealer vs = .ok v) :
    ∃ i, findIndex (long • g) vs 0 = some i ∧
      v = { long := long, pub := long • g, dealer := dealer, index := i, vs := vs, agg := none } := by
  unfold newVerifier at h
  rcases hf : findIndex (long • g) vs 0 with _ | i
  · simp [hf] at h
  · simp only [hf] at h; injection h with h; exact ⟨i, rfl, h.symm⟩

/-- slot `k` of a freshly replicated response array with one entry set -/
theorem getResponse_fresh_set (a : Agg F G) (n own k : Nat) (r : Response F G) (hown : own < n)
    (h : a.responses = (List.replicate n none).set own (some r)) :
    getResponse a k = if own = k then some r else none := by
  unfold getResponse
  rw [h, List.getElem?_set]
  by_cases hk : own = k
  · subst hk; simp [hown]
  · simp only [hk, if_false]
    by_cases hkn : k < n
    · simp [hkn]
    · simp [hkn]

theorem unsafeSet_agg (v : Verifier F G) (idx : Nat) (a : Agg F G) (hv : v.agg = some a) :
    (v.unsafeSetResponse idx true).agg = some a ∨
    (∃ a', (v.unsafeSetResponse idx true).agg = some a' ∧ idx < a.vs.length ∧ getResponse a idx = none ∧
      a' = { a with responses := a.responses.set idx (some { sid := a.sid, index := idx, status := true, sig := .junk 0 }) }) := by
  unfold Verifier.unsafeSetResponse
  rcases hadd : addResponse a { sid := a.sid, index := idx, status := true, sig := .junk 0 } with err | a'
  · left; simp only [hv, hadd]
  · right
    obtain ⟨h1, h2, h3⟩ := addResponse_ok hadd
    exact ⟨a', by simp only [hv, hadd], h1, h2, h3⟩

theorem unsafeSet_frame (v : Verifier F G) (idx : Nat) :
    (v.unsafeSetResponse idx true).dealer = v.dealer ∧ (v.unsafeSetResponse idx true).vs = v.vs ∧
    (v.unsafeSetResponse idx true).long = v.long ∧ (v.unsafeSetResponse idx true).index = v.index := by
  unfold Verifier.unsafeSetResponse
  rcases v.agg with _ | a
  · simp
  · dsimp only
    rcases addResponse a _ with _ | _ <;> simp

theorem unsafeSet_approved (v : Verifier F G) (idx : Nat) :
    (v.unsafeSetResponse idx true).approved = v.approved := by
  unfold Verifier.unsafeSetResponse
  rcases v.agg with _ | a
  · simp
  · dsimp only
    rcases addResponse a _ with _ | _ <;> simp

/-! ### `ProcessDeal` preserves the invariant -/

theorem goodA_of_fresh (g : G) (own : Nat) (long : F) (L : List G) (dealer : G) (j : Nat)
    (d : Deal F G) (r : Response F G) (a : Agg F G) (rnd : Nat) (hown : own < L.length)
    (hri : r.index = own) (hrs : r.sid = Sid.h dealer L d.commits d.t)
    (hsig : r.sig = .sign long r.sid own r.status rnd)
    (hst : r.status = true ↔ Consistent g dealer L d)
    (hshare : ∀ sh, d.share = some sh → sh.i = (own : Int))
    (h1 : a.vs = L) (h2 : a.dealer = dealer) (h3 : a.sid = d.sid)
    (h4 : a.responses = (List.replicate L.length none).set own (some r))
    (h7 : r.status = true → a.deal = some d) :
    GoodA g own long L dealer j a := by
  have hget : ∀ k, getResponse a k = if own = k then some r else none :=
    fun k => getResponse_fresh_set a L.length own k r hown h4
  refine ⟨h1, h2, by simp [h4], ⟨r, by simp [hget], hri, ⟨rnd, hsig⟩, ?_⟩, ?_⟩
  · intro hs
    obtain ⟨i, val, hsh, hc⟩ := hst.1 hs
    have := hshare _ hsh
    simp only at this; subst this
    exact ⟨d, val, h7 hs, h3, hrs, ⟨_, val, hsh, hc⟩, hsh⟩
  · intro k hk _ r' hr'
    simp [hget, Ne.symm hk] at hr'

/-- adding the dealer's unsigned auto-approval keeps `GoodA` (slot `j` is not constrained; for
`j = own` the slot is taken and nothing is added) -/
theorem goodA_unsafeSet (g : G) (own : Nat) (long : F) (L : List G) (dealer : G) (j : Nat) (a : Agg F G)
    (ha : GoodA g own long L dealer j a) (a' : Agg F G) (hj : j < a.vs.length) (hnone : getResponse a j = none)
    (h : a' = { a with responses := a.responses.set j (some { sid := a.sid, index := j, status := true, sig := .junk 0 }) }) :
    GoodA g own long L dealer j a' := by
  have hjl : j < a.responses.length := by rw [ha.hlen, ← ha.hvs]; exact hj
  have hget : ∀ k, getResponse a' k = if j = k then
      some ({ sid := a.sid, index := j, status := true, sig := .junk 0 } : Response F G) else getResponse a k := by
    intro k; rw [h]; exact getResponse_set a j k _ hjl
  obtain ⟨r, hr, hri, hsig, himp⟩ := ha.ownResp
  have hjo : j ≠ own := by intro he; subst he; rw [hnone] at hr; cases hr
  refine ⟨by rw [h]; exact ha.hvs, by rw [h]; exact ha.hdealer, by rw [h]; simp [ha.hlen], ?_, ?_⟩
  · refine ⟨r, by rw [hget]; simp [hjo, hr], hri, hsig, ?_⟩
    intro hs; obtain ⟨d, val, h1, h2, h3, h4, h5⟩ := himp hs
    exact ⟨d, val, by rw [h]; exact h1, by rw [h]; exact h2, h3, h4, h5⟩
  · intro k hk hkj r' hr'
    rw [hget] at hr'
    simp only [Ne.symm hkj, if_false] at hr'
    have := ha.others k hk hkj r' hr'
    rw [h]; exact this

/-- what `ProcessDeal` does to the slots: nothing, or the empty slot `dd.index` is filled -/
theorem processDeal_slots (g : G) (d : Gen F G) (dd : DkgDeal F G) :
    (processDeal g d dd).1 = d ∨
    (getVerifier d dd.index = none ∧ dd.index < d.participants.length ∧
      ∃ w, (processDeal g d dd).1 = setVerifier d dd.index w) := by
  unfold processDeal
  rcases hp : d.participants[dd.index]? with _ | pub
  · left; rfl
  · have hjlt : dd.index < d.participants.length := by
      rcases Nat.lt_or_ge dd.index d.participants.length with h | h
      · exact h
      · rw [List.getElem?_eq_none h] at hp; cases hp
    simp only
    by_cases hex : (getVerifier d dd.index).isSome = true
    · left; simp [hex]
    · simp only [hex, if_false, Bool.false_eq_true]
      have hnone : getVerifier d dd.index = none := by simpa using hex
      rcases newVerifier g d.long pub d.participants with err | ver
      · left; rfl
      · right
        refine ⟨hnone, hjlt, ?_⟩
        rcases dd.deal with _ | e
        · exact ⟨_, rfl⟩
        · simp only
          rcases processEncryptedDeal g ver e with ⟨ver1, r⟩
          rcases r with err | resp
          · exact ⟨_, rfl⟩
          · exact ⟨_, rfl⟩

theorem processDeal_good0 (g : G) (d : Gen F G) (dd : DkgDeal F G) (hd : GoodGen0 g d) :
    GoodGen0 g (processDeal g d dd).1 := by
  unfold processDeal
  rcases hp : d.participants[dd.index]? with _ | pub
  · exact hd
  · have hjlt : dd.index < d.participants.length := by
      rcases Nat.lt_or_ge dd.index d.participants.length with h | h
      · exact h
      · rw [List.getElem?_eq_none h] at hp; cases hp
    simp only
    by_cases hex : (getVerifier d dd.index).isSome = true
    · simp only [hex, if_true]; exact hd
    · simp only [hex, if_false, Bool.false_eq_true]
      rcases hnv : newVerifier g d.long pub d.participants with err | ver
      · exact hd
      · obtain ⟨i, hi, hver⟩ := newVerifier_ok hnv
        have hii : i = d.index := by rw [hd.idx] at hi; injection hi with hi; exact hi.symm
        subst hii
        have hverf : ver.agg = none ∧ ver.index = d.index ∧ ver.vs = d.participants ∧ ver.long = d.long ∧ ver.dealer = pub := by
          subst hver; exact ⟨rfl, rfl, rfl, rfl, rfl⟩
        obtain ⟨hva, hvi, hvv, hvl, hvd⟩ := hverf
        -- generic: putting a verifier `w` with the right frame into the empty slot keeps the invariant
        have key : ∀ w : Verifier F G, w.dealer = pub → w.vs = d.participants → w.long = d.long →
            w.index = d.index → (∀ a, w.agg = some a → GoodA g d.index d.long d.participants pub dd.index a) →
            GoodGen0 g (setVerifier d dd.index w) := by
          intro w h1 h2 h3 h4 h5
          have hfr := setVerifier_frame d dd.index w
          have hjv : dd.index < d.verifiers.length := by rw [hd.len]; exact hjlt
          refine ⟨by rw [hfr.2.2.2.1, hfr.1]; exact hd.len, by rw [hfr.2.2.1, hfr.1, hfr.2.1]; exact hd.idx,
            by rw [hfr.2.1, hfr.1]; exact hd.lt, ?_⟩
          intro j v hv
          rw [getVerifier_set d dd.index j w hjv] at hv
          rw [hfr.2.1, hfr.2.2.1, hfr.1]
          by_cases hj : dd.index = j
          · subst hj
            simp only [if_true, Option.some.injEq] at hv; subst hv
            exact ⟨by rw [hp, h1], h2, h3, h4, fun a ha => by rw [h1]; exact h5 a ha⟩
          · simp only [hj, if_false] at hv
            exact hd.good j v hv
        rcases hdeal : dd.deal with _ | e
        · exact key ver hvd hvv hvl hvi (by intro a ha; rw [hva] at ha; cases ha)
        · simp only
          rcases pe_fresh g ver e 0 hva (by rw [hvi, hvv]; exact hd.lt) with ⟨err, herr⟩ | ⟨dl, r, a, hdec, hpe, hri, hrs, hsig, hst, hshare, h1, h2, h3, h5, h4, h6, h7, _⟩
          · rw [herr]
            exact key ver hvd hvv hvl hvi (by intro a ha; rw [hva] at ha; cases ha)
          · rw [hpe]
            simp only
            have hga : GoodA g d.index d.long d.participants pub dd.index a := by
              apply goodA_of_fresh g d.index d.long d.participants pub dd.index dl r a 0 hd.lt
              · rw [hri, hvi]
              · rw [hrs, hvd, hvv]
              · rw [hsig, hvl, hvi]
              · rw [hst, hvd, hvv]
              · intro sh hs; rw [hshare sh hs, hvi]
              · rw [h1, hvv]
              · rw [h2, hvd]
              · exact h3
              · rw [h4, hvv, hvi]
              · exact h7
            set w := ({ ver with agg := some a, approved := r.status } : Verifier F G).unsafeSetResponse dd.index true with hw
            have hwf := unsafeSet_frame ({ ver with agg := some a, approved := r.status } : Verifier F G) dd.index
            rcases unsafeSet_agg ({ ver with agg := some a, approved := r.status } : Verifier F G) dd.index a rfl with hu | ⟨a', hu, hlt, hnn, ha'⟩
            · exact key w (by rw [hw, hwf.1]; exact hvd) (by rw [hw, hwf.2.1]; exact hvv)
                (by rw [hw, hwf.2.2.1]; exact hvl) (by rw [hw, hwf.2.2.2]; exact hvi)
                (by intro a2 ha2; rw [hw, hu] at ha2; injection ha2 with ha2; subst ha2; exact hga)
            · exact key w (by rw [hw, hwf.1]; exact hvd) (by rw [hw, hwf.2.1]; exact hvv)
                (by rw [hw, hwf.2.2.1]; exact hvl) (by rw [hw, hwf.2.2.2]; exact hvi)
                (by
                  intro a2 ha2; rw [hw, hu] at ha2; injection ha2 with ha2; subst ha2
                  exact goodA_unsafeSet g d.index d.long d.participants pub dd.index a hga a' hlt hnn ha')

/-- after `Deals()` the own slot is taken, so `ProcessDeal` never touches it -/
theorem processDeal_good (g : G) (d : Gen F G) (dd : DkgDeal F G) (hd : GoodGen g d) :
    GoodGen g (processDeal g d dd).1 := by
  have h0 := processDeal_good0 g d dd hd.toGoodGen0
  rcases processDeal_slots g d dd with he | ⟨hnone, hlt, w, hw⟩
  · rw [he]; exact hd
  · have hne : dd.index ≠ d.index := by
      intro he; rw [he] at hnone; have := hd.ownSlot; rw [hnone] at this; cases this
    have hjv : dd.index < d.verifiers.length := by rw [hd.len]; exact hlt
    have hget : getVerifier (processDeal g d dd).1 d.index = getVerifier d d.index := by
      rw [hw, getVerifier_set d dd.index d.index w hjv]; simp [hne]
    have hidx : (processDeal g d dd).1.index = d.index := by rw [hw]; exact (setVerifier_frame d dd.index w).2.1
    refine ⟨h0, by rw [hidx, hget]; exact hd.ownSlot, ?_⟩
    intro v a hv ha
    rw [hidx, hget] at hv
    exact hd.ownDeal v a hv ha

end Dos.Dkg

/-
C20 (round 4) — the WHOLE precomputed table `base` of group/edwards25519/const.go:  all 32 × 8 entries

      base[i][j] = (j+1)·256^i·B        as (y+x, y−x, 2dxy), every limb within the 1 × bound.

The checker `chkTab` of Proofs/GeNatTable.lean with every entry selected, evaluated by the kernel (256 doublings,
224 additions and 256 × 3 congruences on naturals modulo 2^255 − 19), and its soundness theorem.
-/
import DosModel.Proofs.GeNatTable

set_option exponentiation.threshold 600

namespace Dos.Ge
open Dos Dos.Ed25519 Dos.FeProg Dos.FeOps Dos.GeProg Dos.Ed25519Prime Dos.Edwards

theorem full_chk : chkTab (fun _ _ => true) 0 Dos.Ed.base Gen.Ed25519GeTable.c_base = true := by decide +kernel

/-- every entry of the table is a good precomputed representation of the multiple of B it stands for -/
theorem baseTable_ok : BaseTableOK' basePt :=
  fun i j hi hj => baseTable_of_chk full_chk i j hi hj rfl

/-- row form (the shape `selectPreComputed_spec` consumes): row i holds 1·Q … 8·Q for Q = 256^i·B -/
theorem baseTable_row (i : Nat) (hi : i < 32) : ∀ j, j < 8 →
    GoodPre (preOf ((Gen.Ed25519GeTable.c_base.getD i []).getD j [])) ((j + 1) • ((256 ^ i) • basePt)) := by
  intro j hj
  rw [← mul_nsmul']
  exact baseTable_ok i j hi hj

end Dos.Ge

#print axioms Dos.Ge.baseTable_ok

import DosModel.Model.Collector
def main : IO Unit := Dos.lineLoop Dos.Collector.stepLine

/-
Composition helper: the executable affine G1 / G2 of `Model/Bn256.lean` (C11, C06) mapped into the
generic affine formulas of `Proofs/ComposeCurve.lean` over `F_p` / `F_p²`, hence into Mathlib's
elliptic-curve GROUPS `E(F_p) : y² = x³ + 3` and `E'(F_p²) : y² = x³ + 3/ξ`.

Consequences proved here (used by `Props/C11Compose.lean`):
* `G2.valid` (reduced coordinates ∧ on the twist ∧ `r • P = O`) is preserved by `G2.neg`, `G2.double`,
  `G2.add`, `G2.smul` — the assumption stated at the end of design/C11.md;
* on valid points the model's `add` is associative and commutative, `smul` is `k •` of the group, …
-/
import DosModel.Proofs.ComposeFp2
import DosModel.Proofs.ComposeCurve

set_option linter.unusedSimpArgs false

namespace Dos.Compose
open Dos Dos.Bn256 Dos.Compose.Curve

/-! ### G1 -/

def cG1 : Bn256.G1 → APt (ZMod Bn256.p)
  | .inf => .inf
  | .aff x y => .aff (x : ZMod Bn256.p) (y : ZMod Bn256.p)

theorem good3 : Good (3 : ZMod Bn256.p) := ⟨two_ne_zero_F, three_ne_zero_F, three_ne_zero_F⟩

theorem cG1_neg (P : Bn256.G1) : cG1 (G1.neg P) = aneg (cG1 P) := by
  cases P with
  | inf => rfl
  | aff x y => simp [G1.neg, cG1, aneg, cast_fneg]

theorem cG1_double (P : Bn256.G1) : cG1 (G1.double P) = adbl (cG1 P) := by
  cases P with
  | inf => rfl
  | aff x y =>
    by_cases hy : y % Bn256.p = 0
    · have h0 : (y : ZMod Bn256.p) = 0 := (mod_eq_zero_iff_cast y).1 hy
      simp [G1.double, cG1, adbl, hy, h0]
    · have h0 : (y : ZMod Bn256.p) ≠ 0 := fun h => hy ((mod_eq_zero_iff_cast y).2 h)
      simp only [G1.double, cG1, adbl, hy, h0, if_false]
      have e : (y : ZMod Bn256.p) + y = 2 * y := by ring
      congr 1
      · simp only [cast_fsub, cast_fmul, cast_fsq, cast_fadd, cast_finv, e, div_eq_mul_inv]
        push_cast; ring
      · simp only [cast_fsub, cast_fmul, cast_fsq, cast_fadd, cast_finv, e, div_eq_mul_inv]
        push_cast; ring

theorem cG1_add (P Q : Bn256.G1) : cG1 (G1.add P Q) = aadd (cG1 P) (cG1 Q) := by
  cases P with
  | inf => cases Q <;> rfl
  | aff x1 y1 =>
    cases Q with
    | inf => rfl
    | aff x2 y2 =>
      by_cases hx : x1 % Bn256.p = x2 % Bn256.p
      · have hx' : (x1 : ZMod Bn256.p) = x2 := (mod_eq_iff_cast x1 x2).1 hx
        by_cases hy : y1 % Bn256.p = y2 % Bn256.p
        · have hy' : (y1 : ZMod Bn256.p) = y2 := (mod_eq_iff_cast y1 y2).1 hy
          have := cG1_double (.aff x1 y1)
          simp only [G1.add, hx, hy, if_true]
          rw [this]
          simp [cG1, aadd, hx', hy']
        · have hy' : (y1 : ZMod Bn256.p) ≠ y2 := fun h => hy ((mod_eq_iff_cast y1 y2).2 h)
          simp [G1.add, hx, hy, cG1, aadd, hx', hy']
      · have hx' : (x1 : ZMod Bn256.p) ≠ x2 := fun h => hx ((mod_eq_iff_cast x1 x2).2 h)
        simp only [G1.add, hx, cG1, aadd, hx', if_false]
        congr 1
        · simp only [cast_fsub, cast_fmul, cast_fsq, cast_finv, div_eq_mul_inv]; ring
        · simp only [cast_fsub, cast_fmul, cast_fsq, cast_finv, div_eq_mul_inv]; ring

theorem cG1_smulAux (P : Bn256.G1) : ∀ fuel k, cG1 (G1.smulAux P fuel k) = asmulAux (cG1 P) fuel k := by
  intro fuel
  induction fuel with
  | zero => intro k; rfl
  | succ fuel ih =>
    intro k
    unfold G1.smulAux asmulAux
    by_cases h0 : k = 0
    · simp [h0, cG1]
    · simp only [h0, if_false]
      by_cases hodd : k % 2 = 1
      · simp only [hodd, if_true]; rw [cG1_add, cG1_double, ih]
      · simp only [hodd, if_false]; rw [cG1_double, ih]

theorem cG1_onCurve (P : Bn256.G1) (h : G1.valid P = true) : (cG1 P).OnCurve (3 : ZMod Bn256.p) := by
  cases P with
  | inf => trivial
  | aff x y => exact ((valid_iff x y).1 h).2.2

theorem cG1_inf_iff (P : Bn256.G1) : cG1 P = .inf ↔ P = .inf := by
  cases P <;> simp [cG1]

theorem cG1_inj {P Q : Bn256.G1} (hP : G1.valid P = true) (hQ : G1.valid Q = true)
    (h : cG1 P = cG1 Q) : P = Q := by
  cases P with
  | inf => exact ((cG1_inf_iff Q).1 h.symm).symm
  | aff x y =>
    cases Q with
    | inf => exact (cG1_inf_iff _).1 h
    | aff x' y' =>
      obtain ⟨hx, hy, _⟩ := (valid_iff x y).1 hP
      obtain ⟨hx', hy', _⟩ := (valid_iff x' y').1 hQ
      simp only [cG1, APt.aff.injEq] at h
      have e1 := (mod_eq_iff_cast x x').2 h.1
      have e2 := (mod_eq_iff_cast y y').2 h.2
      rw [Nat.mod_eq_of_lt hx, Nat.mod_eq_of_lt hx'] at e1
      rw [Nat.mod_eq_of_lt hy, Nat.mod_eq_of_lt hy'] at e2
      rw [e1, e2]

/-- the point of `E(F_p)` a model value denotes -/
noncomputable def pt1 (P : Bn256.G1) : (sw (3 : ZMod Bn256.p)).Point := toPoint 3 (cG1 P)

theorem pt1_add (P Q : Bn256.G1) (hP : G1.valid P = true) (hQ : G1.valid Q = true) :
    pt1 (G1.add P Q) = pt1 P + pt1 Q := by
  unfold pt1; rw [cG1_add]; exact (aadd_spec good3 _ _ (cG1_onCurve P hP) (cG1_onCurve Q hQ)).2

theorem pt1_neg (P : Bn256.G1) (hP : G1.valid P = true) : pt1 (G1.neg P) = -pt1 P := by
  unfold pt1; rw [cG1_neg]; exact (aneg_spec good3 _ (cG1_onCurve P hP)).2

theorem pt1_smul (k : Nat) (P : Bn256.G1) (hP : G1.valid P = true) : pt1 (G1.smul k P) = k • pt1 P := by
  unfold pt1 G1.smul; rw [cG1_smulAux]
  exact (asmulAux_spec good3 _ (cG1_onCurve P hP) k k Nat.lt_two_pow_self).2

theorem pt1_inj {P Q : Bn256.G1} (hP : G1.valid P = true) (hQ : G1.valid Q = true)
    (h : pt1 P = pt1 Q) : P = Q :=
  cG1_inj hP hQ (toPoint_injOn good3 (cG1_onCurve P hP) (cG1_onCurve Q hQ) h)

/-! ### G2 -/

def cG2 : Bn256.G2 → APt K2
  | .inf => .inf
  | .aff x y => .aff (c2 x) (c2 y)

/-- coordinates reduced -/
def G2.Red : Bn256.G2 → Prop
  | .inf => True
  | .aff x y => Fp2.Red x ∧ Fp2.Red y

theorem c2_twistB_ne_zero : c2 twistB ≠ 0 := by
  intro h
  have h1 := congrArg QuadraticAlgebra.re h
  simp only [c2, QuadraticAlgebra.re_zero] at h1
  rw [ZMod.natCast_eq_zero_iff] at h1
  exact absurd (Nat.le_of_dvd (by decide) h1) (by decide)

theorem goodTwist : Good (c2 twistB) := ⟨two_ne_zero_K2, three_ne_zero_K2, c2_twistB_ne_zero⟩

theorem cG2_neg (P : Bn256.G2) : cG2 (G2.neg P) = aneg (cG2 P) := by
  cases P with
  | inf => rfl
  | aff x y => simp [G2.neg, cG2, aneg, c2_neg]

theorem natCast3 : ((3 : Nat) : K2) = 3 := by norm_cast

theorem cG2_double (P : Bn256.G2) : cG2 (G2.double P) = adbl (cG2 P) := by
  cases P with
  | inf => rfl
  | aff x y =>
    by_cases hy : (Fp2.reduce y).isZero = true
    · have h0 : c2 y = 0 := (reduce_isZero_iff y).1 hy
      simp [G2.double, cG2, adbl, hy, h0]
    · have h0 : c2 y ≠ 0 := fun h => hy ((reduce_isZero_iff y).2 h)
      have hy' : (Fp2.reduce y).isZero = false := by simpa using hy
      simp only [G2.double, hy', Bool.false_eq_true, if_false, cG2, adbl, h0]
      have e : c2 y + c2 y = 2 * c2 y := by ring
      congr 1
      · simp only [c2_sub, c2_mul, c2_sq, c2_add, c2_inv, c2_smulFp, natCast3, e, div_eq_mul_inv]
        ring
      · simp only [c2_sub, c2_mul, c2_sq, c2_add, c2_inv, c2_smulFp, natCast3, e, div_eq_mul_inv]
        ring

theorem cG2_add (P Q : Bn256.G2) : cG2 (G2.add P Q) = aadd (cG2 P) (cG2 Q) := by
  cases P with
  | inf => cases Q <;> rfl
  | aff x1 y1 =>
    cases Q with
    | inf => rfl
    | aff x2 y2 =>
      by_cases hx : Fp2.reduce x1 = Fp2.reduce x2
      · have hx' : c2 x1 = c2 x2 := (reduce_eq_iff x1 x2).1 hx
        by_cases hy : Fp2.reduce y1 = Fp2.reduce y2
        · have hy' : c2 y1 = c2 y2 := (reduce_eq_iff y1 y2).1 hy
          have := cG2_double (.aff x1 y1)
          simp only [G2.add, hx, hy, if_true]
          rw [this]
          simp [cG2, aadd, hx', hy']
        · have hy' : c2 y1 ≠ c2 y2 := fun h => hy ((reduce_eq_iff y1 y2).2 h)
          simp [G2.add, hx, hy, cG2, aadd, hx', hy']
      · have hx' : c2 x1 ≠ c2 x2 := fun h => hx ((reduce_eq_iff x1 x2).2 h)
        simp only [G2.add, hx, cG2, aadd, hx', if_false]
        congr 1
        · simp only [c2_sub, c2_mul, c2_sq, c2_inv, div_eq_mul_inv]; ring
        · simp only [c2_sub, c2_mul, c2_sq, c2_inv, div_eq_mul_inv]; ring

theorem cG2_smulAux (P : Bn256.G2) : ∀ fuel k, cG2 (G2.smulAux P fuel k) = asmulAux (cG2 P) fuel k := by
  intro fuel
  induction fuel with
  | zero => intro k; rfl
  | succ fuel ih =>
    intro k
    unfold G2.smulAux asmulAux
    by_cases h0 : k = 0
    · simp [h0, cG2]
    · simp only [h0, if_false]
      by_cases hodd : k % 2 = 1
      · simp only [hodd, if_true]; rw [cG2_add, cG2_double, ih]
      · simp only [hodd, if_false]; rw [cG2_double, ih]

theorem cG2_inf_iff (P : Bn256.G2) : cG2 P = .inf ↔ P = .inf := by
  cases P <;> simp [cG2]

/-- the Boolean twist test is the curve equation in `F_p²` -/
theorem onCurve2_iff (x y : Bn256.Fp2) :
    G2.onCurve (.aff x y) = true ↔ (cG2 (.aff x y)).OnCurve (c2 twistB) := by
  simp only [G2.onCurve, beq_iff_eq, cG2, APt.OnCurve]
  constructor
  · intro h
    have := congrArg c2 h
    simp only [c2_sq, c2_add, c2_mul] at this
    rw [pow_two, pow_succ, pow_two]; exact this
  · intro h
    apply c2_inj_reduced (red_mul _ _) (red_add _ _)
    simp only [c2_sq, c2_add, c2_mul]
    rw [pow_two, pow_succ, pow_two] at h; exact h

/-! reducedness of results -/

theorem red_double (P : Bn256.G2) (h : G2.Red P) : G2.Red (G2.double P) := by
  cases P with
  | inf => trivial
  | aff x y =>
    simp only [G2.double]
    split
    · trivial
    · exact ⟨red_sub _ _, red_sub _ _⟩

theorem red_add2 (P Q : Bn256.G2) (hP : G2.Red P) (hQ : G2.Red Q) : G2.Red (G2.add P Q) := by
  cases P with
  | inf => cases Q <;> simpa [G2.add] using hQ
  | aff x1 y1 =>
    cases Q with
    | inf => simpa [G2.add] using hP
    | aff x2 y2 =>
      simp only [G2.add]
      split
      · split
        · exact red_double _ hP
        · trivial
      · exact ⟨red_sub _ _, red_sub _ _⟩

theorem red_neg2 (P : Bn256.G2) (h : G2.Red P) : G2.Red (G2.neg P) := by
  cases P with
  | inf => trivial
  | aff x y => exact ⟨h.1, red_neg _⟩

theorem red_smulAux (P : Bn256.G2) (hP : G2.Red P) : ∀ fuel k, G2.Red (G2.smulAux P fuel k) := by
  intro fuel
  induction fuel with
  | zero => intro k; trivial
  | succ fuel ih =>
    intro k
    unfold G2.smulAux
    split
    · trivial
    · simp only []
      split
      · exact red_add2 _ _ (red_double _ (ih _)) hP
      · exact red_double _ (ih _)

/-- every double-and-add of infinity is infinity -/
theorem smulAux2_inf : ∀ fuel k, G2.smulAux .inf fuel k = .inf := by
  intro fuel
  induction fuel with
  | zero => intro k; rfl
  | succ fuel ih =>
    intro k; unfold G2.smulAux
    split
    · rfl
    · simp only [ih]; split <;> rfl

/-- `G2.valid` unfolded -/
theorem valid2_iff (P : Bn256.G2) :
    G2.valid P = true ↔ G2.Red P ∧ (cG2 P).OnCurve (c2 twistB) ∧ G2.smul Bn256.r P = .inf := by
  cases P with
  | inf =>
    simp only [G2.valid, G2.Red, cG2, APt.OnCurve, true_and, true_iff]
    exact smulAux2_inf _ _
  | aff x y =>
    simp only [G2.valid, Bool.and_eq_true, decide_eq_true_eq, onCurve2_iff, G2.inSubgroup, beq_iff_eq,
      G2.Red, Fp2.Red]
    constructor
    · rintro ⟨⟨⟨⟨⟨h1, h2⟩, h3⟩, h4⟩, h5⟩, h6⟩; exact ⟨⟨⟨h1, h2⟩, ⟨h3, h4⟩⟩, h5, h6⟩
    · rintro ⟨⟨⟨h1, h2⟩, ⟨h3, h4⟩⟩, h5, h6⟩; exact ⟨⟨⟨⟨⟨h1, h2⟩, h3⟩, h4⟩, h5⟩, h6⟩

/-- the point of `E'(F_p²)` a model value denotes -/
noncomputable def pt2 (P : Bn256.G2) : (sw (c2 twistB)).Point := toPoint (c2 twistB) (cG2 P)

theorem pt2_smul_of_onCurve (k : Nat) (P : Bn256.G2) (hP : (cG2 P).OnCurve (c2 twistB)) :
    (cG2 (G2.smul k P)).OnCurve (c2 twistB) ∧ pt2 (G2.smul k P) = k • pt2 P := by
  unfold pt2 G2.smul; rw [cG2_smulAux]
  exact asmulAux_spec goodTwist _ hP k k Nat.lt_two_pow_self

/-- for an on-curve model value: `smul k P = inf` iff `k • P = 0` in the group -/
theorem smul_inf_iff (k : Nat) (P : Bn256.G2) (hP : (cG2 P).OnCurve (c2 twistB)) :
    G2.smul k P = .inf ↔ k • pt2 P = 0 := by
  obtain ⟨hc, hp⟩ := pt2_smul_of_onCurve k P hP
  rw [← hp, ← cG2_inf_iff]
  unfold pt2
  exact (toPoint_eq_zero_iff goodTwist hc).symm

theorem inSubgroup_iff (P : Bn256.G2) (hP : (cG2 P).OnCurve (c2 twistB)) :
    G2.smul Bn256.r P = .inf ↔ Bn256.r • pt2 P = 0 := smul_inf_iff Bn256.r P hP

/-- **closure of `G2.valid` under addition** -/
theorem valid2_add (P Q : Bn256.G2) (hP : G2.valid P = true) (hQ : G2.valid Q = true) :
    G2.valid (G2.add P Q) = true ∧ pt2 (G2.add P Q) = pt2 P + pt2 Q := by
  obtain ⟨r1, c1, s1⟩ := (valid2_iff P).1 hP
  obtain ⟨r2, c2', s2⟩ := (valid2_iff Q).1 hQ
  obtain ⟨hc, hp⟩ := aadd_spec goodTwist _ _ c1 c2'
  rw [← cG2_add] at hc hp
  refine ⟨(valid2_iff _).2 ⟨red_add2 P Q r1 r2, hc, ?_⟩, hp⟩
  rw [inSubgroup_iff _ hc]
  show Bn256.r • toPoint (c2 twistB) (cG2 (G2.add P Q)) = 0
  rw [hp, smul_add]
  have e1 := (inSubgroup_iff P c1).1 s1
  have e2 := (inSubgroup_iff Q c2').1 s2
  unfold pt2 at e1 e2
  rw [e1, e2, add_zero]

theorem valid2_neg (P : Bn256.G2) (hP : G2.valid P = true) :
    G2.valid (G2.neg P) = true ∧ pt2 (G2.neg P) = -pt2 P := by
  obtain ⟨r1, c1, s1⟩ := (valid2_iff P).1 hP
  obtain ⟨hc, hp⟩ := aneg_spec goodTwist _ c1
  rw [← cG2_neg] at hc hp
  refine ⟨(valid2_iff _).2 ⟨red_neg2 P r1, hc, ?_⟩, hp⟩
  rw [inSubgroup_iff _ hc]
  show Bn256.r • toPoint (c2 twistB) (cG2 (G2.neg P)) = 0
  rw [hp, smul_neg]
  have e1 := (inSubgroup_iff P c1).1 s1
  unfold pt2 at e1
  rw [e1, neg_zero]

theorem valid2_double (P : Bn256.G2) (hP : G2.valid P = true) :
    G2.valid (G2.double P) = true ∧ pt2 (G2.double P) = pt2 P + pt2 P := by
  obtain ⟨r1, c1, s1⟩ := (valid2_iff P).1 hP
  obtain ⟨hc, hp⟩ := adbl_spec goodTwist _ c1
  rw [← cG2_double] at hc hp
  refine ⟨(valid2_iff _).2 ⟨red_double P r1, hc, ?_⟩, hp⟩
  rw [inSubgroup_iff _ hc]
  show Bn256.r • toPoint (c2 twistB) (cG2 (G2.double P)) = 0
  rw [hp, smul_add]
  have e1 := (inSubgroup_iff P c1).1 s1
  unfold pt2 at e1
  rw [e1, add_zero]

theorem valid2_smul (k : Nat) (P : Bn256.G2) (hP : G2.valid P = true) :
    G2.valid (G2.smul k P) = true ∧ pt2 (G2.smul k P) = k • pt2 P := by
  obtain ⟨r1, c1, s1⟩ := (valid2_iff P).1 hP
  obtain ⟨hc, hp⟩ := pt2_smul_of_onCurve k P c1
  refine ⟨(valid2_iff _).2 ⟨red_smulAux P r1 k k, hc, ?_⟩, hp⟩
  rw [inSubgroup_iff _ hc, hp, smul_comm, (inSubgroup_iff P c1).1 s1, nsmul_zero]

theorem pt2_inj {P Q : Bn256.G2} (hP : G2.valid P = true) (hQ : G2.valid Q = true)
    (h : pt2 P = pt2 Q) : P = Q := by
  obtain ⟨r1, c1, _⟩ := (valid2_iff P).1 hP
  obtain ⟨r2, c2', _⟩ := (valid2_iff Q).1 hQ
  have hc := toPoint_injOn goodTwist c1 c2' h
  cases P with
  | inf => exact ((cG2_inf_iff Q).1 hc.symm).symm
  | aff x y =>
    cases Q with
    | inf => exact (cG2_inf_iff _).1 hc
    | aff x' y' =>
      simp only [cG2, APt.aff.injEq] at hc
      rw [c2_inj_reduced r1.1 r2.1 hc.1, c2_inj_reduced r1.2 r2.2 hc.2]

end Dos.Compose

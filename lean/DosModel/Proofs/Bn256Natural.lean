/-
C10 — naturality of the transcribed curve code: `Jac.double`, `Jac.add`, `Jac.neg`, the Mul loops
are built from the coordinate operations (+ − neg · 0 1 sq and equality tests) only, so they commute
with every injective map f : K → L that preserves those operations (`OpsHom`). Used to carry the
group-law theorems (proved over fields) to the Montgomery representation the code and the driver
compute with: f = "forget that the value is reduced" and f = Montgomery decoding into ZMod p.
-/
import DosModel.Model.Bn256Curve

namespace Dos.Bn256

section
set_option linter.unusedSectionVars false
variable {K L : Type}
variable [Add K] [Sub K] [Neg K] [Mul K] [Zero K] [One K] [Inv K] [Sq K] [DecidableEq K]
variable [Add L] [Sub L] [Neg L] [Mul L] [Zero L] [One L] [Inv L] [Sq L] [DecidableEq L]

/-- f preserves every operation the curve code uses and is injective (so equality tests agree) -/
structure OpsHom (f : K → L) : Prop where
  map_add : ∀ a b, f (a + b) = f a + f b
  map_sub : ∀ a b, f (a - b) = f a - f b
  map_neg : ∀ a, f (-a) = -f a
  map_mul : ∀ a b, f (a * b) = f a * f b
  map_zero : f 0 = 0
  map_one : f 1 = 1
  map_inv : ∀ a, f a⁻¹ = (f a)⁻¹
  map_sq : ∀ a, f (Sq.sq a) = Sq.sq (f a)
  inj : Function.Injective f

def Jac.map (f : K → L) (a : Jac K) : Jac L := ⟨f a.x, f a.y, f a.z, f a.t⟩

variable {f : K → L}

theorem OpsHom.eq_zero_iff (h : OpsHom f) (a : K) : f a = 0 ↔ a = 0 := by
  constructor
  · intro e; rw [← h.map_zero] at e; exact h.inj e
  · intro e; rw [e, h.map_zero]

theorem OpsHom.eq_one_iff (h : OpsHom f) (a : K) : f a = 1 ↔ a = 1 := by
  constructor
  · intro e; rw [← h.map_one] at e; exact h.inj e
  · intro e; rw [e, h.map_one]

theorem Jac.map_double (h : OpsHom f) (c a : Jac K) :
    Jac.map f (Jac.double c a) = Jac.double (Jac.map f c) (Jac.map f a) := by
  simp only [Jac.double, Jac.map, h.map_add, h.map_sub, h.map_mul, h.map_sq]

theorem Jac.map_isInfinity (h : OpsHom f) (a : Jac K) : (Jac.map f a).isInfinity = a.isInfinity := by
  simp only [Jac.isInfinity, Jac.map, h.eq_zero_iff]

theorem Jac.map_add (h : OpsHom f) (c a b : Jac K) :
    Jac.map f (Jac.add c a b) = Jac.add (Jac.map f c) (Jac.map f a) (Jac.map f b) := by
  unfold Jac.add
  rw [Jac.map_isInfinity h a, Jac.map_isInfinity h b]
  by_cases ha : a.isInfinity = true
  · simp only [ha, if_true]
  · simp only [ha, Bool.false_eq_true, if_false]
    by_cases hb : b.isInfinity = true
    · simp only [hb, if_true]
    · simp only [hb, Bool.false_eq_true, if_false]
      -- the two comparisons
      have e1 : (f b.x * Sq.sq (f a.z) - f a.x * Sq.sq (f b.z) = 0) ↔
          (b.x * Sq.sq a.z - a.x * Sq.sq b.z = 0) := by
        rw [← h.map_sq, ← h.map_sq, ← h.map_mul, ← h.map_mul, ← h.map_sub, h.eq_zero_iff]
      have e2 : (f b.y * (f a.z * Sq.sq (f a.z)) - f a.y * (f b.z * Sq.sq (f b.z)) = 0) ↔
          (b.y * (a.z * Sq.sq a.z) - a.y * (b.z * Sq.sq b.z) = 0) := by
        rw [← h.map_sq, ← h.map_sq, ← h.map_mul, ← h.map_mul, ← h.map_mul, ← h.map_mul, ← h.map_sub,
          h.eq_zero_iff]
      simp only [Jac.map, e1, e2]
      split
      · exact Jac.map_double h c a
      · simp only [h.map_add, h.map_sub, h.map_mul, h.map_sq]

theorem Jac.map_neg (h : OpsHom f) (a : Jac K) (t : K) : Jac.map f (Jac.neg a t) = Jac.neg (Jac.map f a) (f t) := by
  simp only [Jac.neg, Jac.map, h.map_neg]

theorem Jac.map_infinity (h : OpsHom f) : Jac.map f (Jac.infinity : Jac K) = Jac.infinity := by
  simp only [Jac.infinity, Jac.map, h.map_zero, h.map_one]

theorem Jac.map_zeroValue (h : OpsHom f) : Jac.map f (Jac.zeroValue : Jac K) = Jac.zeroValue := by
  simp only [Jac.zeroValue, Jac.map, h.map_zero]

theorem Jac.map_mulLoop (h : OpsHom f) (a : Jac K) (k : Nat) (sum0 t0 : Jac K) :
    Jac.map f (Jac.mulLoop a k sum0 t0) = Jac.mulLoop (Jac.map f a) k (Jac.map f sum0) (Jac.map f t0) := by
  unfold Jac.mulLoop
  generalize (List.range (Fp12.bitLen k + 1)).reverse = l
  induction l generalizing sum0 t0 with
  | nil => rfl
  | cons i l ih =>
    simp only [List.foldl_cons]
    by_cases hb : k.testBit i
    · simp only [hb, if_true]
      rw [ih, Jac.map_add h, Jac.map_double h]
    · simp only [hb, Bool.false_eq_true, if_false]
      rw [ih, Jac.map_double h]

theorem Jac.map_curveMul (h : OpsHom f) (a : Jac K) (k : Nat) :
    Jac.map f (Jac.curveMul a k) = Jac.curveMul (Jac.map f a) k := by
  unfold Jac.curveMul; rw [Jac.map_mulLoop h, Jac.map_infinity h, Jac.map_zeroValue h]

theorem Jac.map_twistMul (h : OpsHom f) (a : Jac K) (k : Nat) :
    Jac.map f (Jac.twistMul a k) = Jac.twistMul (Jac.map f a) k := by
  unfold Jac.twistMul; rw [Jac.map_mulLoop h, Jac.map_zeroValue h]

end
end Dos.Bn256

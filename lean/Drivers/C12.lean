import DosModel.Model.HandlersDrv
def main : IO Unit := Dos.lineLoop (Dos.Handlers.step Dos.Handlers.Cfg.current)

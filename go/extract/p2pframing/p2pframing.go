// Package p2pframing extracts the shape of readFrom / writeTo (p2p/client.go) that the hand
// model Model/Framing.lean transcribes: what each loop tests, which offset each conn.Read /
// conn.Write slices from, where the buffers come from, and that the size check precedes the
// payload-sized allocation. Props/C15.lean pins these facts to the model's assumptions.
package p2pframing

import (
	"bytes"
	"fmt"
	"go/ast"
	"go/printer"
	"go/token"
	"os"
	"path/filepath"
	"sort"
	"strings"

	"verifharness/extract/ex"
)

func init() { ex.Register(&ex.Extractor{Name: "P2PFraming", Run: run}) }

func src(fset *token.FileSet, n ast.Node) string {
	var b bytes.Buffer
	printer.Fprint(&b, fset, n)
	return strings.Join(strings.Fields(b.String()), " ")
}

// analyse prints EVERY top-level statement of the function in full (go/printer, whitespace
// normalised, comments dropped), nested blocks included: the whole body is pinned, so no edit of
// readFrom / writeTo that changes a statement can leave the facts unchanged. (An earlier version
// recorded only loop heads, allocations and if-conditions; a review showed three behaviour-changing
// edits it could not see: a conditional return inside the size check, a mask applied to the decoded
// size, a mask applied to the length in writeTo.)
func analyse(fset *token.FileSet, fd *ast.FuncDecl) (lines []string) {
	lines = append(lines, "sig "+src(fset, fd.Type))
	for i, st := range fd.Body.List {
		lines = append(lines, fmt.Sprintf("%d %s", i, src(fset, st)))
	}
	return
}

func run(repo string) (string, error) {
	fset, f, err := ex.Parse(filepath.Join(repo, "p2p", "client.go"))
	if err != nil {
		return "", err
	}
	s := ex.Header("P2PFraming", "p2p/client.go (readFrom, writeTo)")
	s += "namespace Dos.Gen.P2PFraming\n"
	for _, name := range []string{"readFrom", "writeTo"} {
		fd := ex.FuncDecl(f, "", name)
		if fd == nil {
			return "", fmt.Errorf("function %s not found in p2p/client.go", name)
		}
		s += fmt.Sprintf("def %s : List String := [\n", name)
		ls := analyse(fset, fd)
		for i, l := range ls {
			sep := ","
			if i == len(ls)-1 {
				sep = ""
			}
			s += "  " + ex.LeanStr(l) + sep + "\n"
		}
		s += "]\n"
	}
	// package-level variables of slice/array type that the two functions mention (a shared buffer
	// would make concurrent connections interfere)
	globals := map[string]bool{}
	for _, d := range f.Decls {
		if gd, ok := d.(*ast.GenDecl); ok && gd.Tok == token.VAR {
			for _, sp := range gd.Specs {
				for _, n := range sp.(*ast.ValueSpec).Names {
					globals[n.Name] = true
				}
			}
		}
	}
	var used []string
	for _, name := range []string{"readFrom", "writeTo"} {
		ast.Inspect(ex.FuncDecl(f, "", name).Body, func(n ast.Node) bool {
			if id, ok := n.(*ast.Ident); ok && globals[id.Name] && id.Obj != nil && id.Obj.Kind == ast.Var {
				if _, isLocal := id.Obj.Decl.(*ast.AssignStmt); !isLocal {
					used = append(used, name+":"+id.Name)
				}
			}
			return true
		})
	}
	// Round 5: the two loops that call readFrom / writeTo, printed in full like the functions themselves
	for _, name := range []string{"readPipe", "sendPipe"} {
		fd := ex.FuncDecl(f, "client", name)
		if fd == nil {
			return "", fmt.Errorf("method client.%s not found in p2p/client.go", name)
		}
		s += fmt.Sprintf("def %s : List String := [\n", name)
		ls := analyse(fset, fd)
		for i, l := range ls {
			sep := ","
			if i == len(ls)-1 {
				sep = ""
			}
			s += "  " + ex.LeanStr(l) + sep + "\n"
		}
		s += "]\n"
	}
	// every call site, in the non-test files of package p2p that a default build compiles (the verif hook
	// files zz_verif*.go are add-only wrappers), of the functions that decide who reads / writes a
	// connection and whether a deadline can make a Write fail and later succeed:
	// "file:enclosing function:callee" (a call inside a `go func(){…}()` literal is marked "go:")
	sites, err := callSites(filepath.Join(repo, "p2p"))
	if err != nil {
		return "", err
	}
	s += "def callSites : List String := [\n"
	for i, l := range sites {
		sep := ","
		if i == len(sites)-1 {
			sep = ""
		}
		s += "  " + ex.LeanStr(l) + sep + "\n"
	}
	s += "]\n"
	s += "def packageLevelVarsUsed : List String := ["
	for i, u := range used {
		if i > 0 {
			s += ", "
		}
		s += ex.LeanStr(u)
	}
	s += "]\nend Dos.Gen.P2PFraming\n"
	return s, nil
}

var watched = map[string]bool{
	"readFrom": true, "writeTo": true, "readPipe": true, "sendPipe": true, "run": true, "runClient": true,
	"handShake": true, "sendID": true, "receiveID": true,
	"SetDeadline": true, "SetWriteDeadline": true, "SetReadDeadline": true,
}

func callSites(dir string) ([]string, error) {
	ents, err := os.ReadDir(dir)
	if err != nil {
		return nil, err
	}
	var out []string
	for _, e := range ents {
		n := e.Name()
		if e.IsDir() || !strings.HasSuffix(n, ".go") || strings.HasSuffix(n, "_test.go") || strings.HasPrefix(n, "zz_verif") {
			continue
		}
		_, f, err := ex.Parse(filepath.Join(dir, n))
		if err != nil {
			return nil, err
		}
		for _, d := range f.Decls {
			fd, ok := d.(*ast.FuncDecl)
			if !ok || fd.Body == nil {
				continue
			}
			var walk func(node ast.Node, inGo bool)
			walk = func(node ast.Node, inGo bool) {
				ast.Inspect(node, func(x ast.Node) bool {
					switch v := x.(type) {
					case *ast.GoStmt:
						if node != x {
							walk(v.Call, true)
							return false
						}
					case *ast.CallExpr:
						name := ""
						switch fn := v.Fun.(type) {
						case *ast.Ident:
							name = fn.Name
						case *ast.SelectorExpr:
							name = fn.Sel.Name
						}
						if watched[name] {
							tag := ""
							if inGo {
								tag = "go:"
							}
							out = append(out, fmt.Sprintf("%s:%s:%s%s", n, fd.Name.Name, tag, name))
						}
					}
					return true
				})
			}
			walk(fd.Body, false)
		}
	}
	sort.Strings(out)
	return out, nil
}

package c10

import (
	"fmt"
	"math/big"
	"strings"

	google "github.com/ethereum/go-ethereum/crypto/bn256/google"

	"verifharness/internal/h"
)

func bigHex(s string) *big.Int {
	v, ok := new(big.Int).SetString(s, 16)
	if !ok {
		panic(s)
	}
	return v
}

// directed field operands (raw limb contents)
func directedOperands() []*big.Int {
	p := refP
	add := func(a *big.Int, k int64) *big.Int { return new(big.Int).Add(a, big.NewInt(k)) }
	mul := func(a *big.Int, k int64) *big.Int { return new(big.Int).Mul(a, big.NewInt(k)) }
	pow := func(k uint) *big.Int { return new(big.Int).Lsh(big.NewInt(1), k) }
	vs := []*big.Int{
		big.NewInt(0), big.NewInt(1), big.NewInt(2), add(p, -2), add(p, -1), p, add(p, 1),
		add(mul(p, 2), -1), mul(p, 2), add(mul(p, 2), 1), mul(p, 5), max256, add(max256, -1),
		refR, refR2, mod(new(big.Int).Neg(refR)),
		new(big.Int).Rsh(add(p, -1), 1), new(big.Int).Rsh(add(p, 1), 1),
		pow(255), add(pow(255), -1),
	}
	for k := uint(64); k < 256; k += 64 {
		vs = append(vs, pow(k), add(pow(k), -1), add(pow(k), 1))
	}
	// one limb all-ones, the others zero; one limb zero, the others all-ones
	ones := new(big.Int).SetUint64(^uint64(0))
	for i := uint(0); i < 4; i++ {
		l := new(big.Int).Lsh(ones, 64*i)
		vs = append(vs, l, new(big.Int).Xor(max256, l))
	}
	// values whose sum / difference with p sits on a limb boundary
	for i := uint(1); i < 4; i++ {
		vs = append(vs, mod(new(big.Int).Sub(pow(64*i), p)), new(big.Int).Sub(p, pow(64*i)))
	}
	return vs
}

func randOperand(rng *h.Rng, kind int) *big.Int {
	switch kind % 6 {
	case 0: // uniform reduced
		return rng.Big(refP)
	case 1: // uniform 256-bit (mostly unreduced)
		return rng.Big(two256)
	case 2: // sparse limbs: each limb 0, all-ones or random
		v := new(big.Int)
		for i := 0; i < 4; i++ {
			var l uint64
			switch rng.Intn(3) {
			case 1:
				l = ^uint64(0)
			case 2:
				l = rng.U64()
			}
			v.Lsh(v, 64)
			v.Or(v, new(big.Int).SetUint64(l))
		}
		return v
	case 3: // close to p
		return new(big.Int).Add(refP, big.NewInt(int64(rng.Intn(7))-3))
	case 4: // close to 0 / 2^256
		if rng.Bool() {
			return big.NewInt(int64(rng.Intn(5)))
		}
		return new(big.Int).Sub(max256, big.NewInt(int64(rng.Intn(5))))
	default: // reduced with sparse limbs
		return mod(randOperand(rng, 2))
	}
}

var aliases = []string{"n", "ca", "cb", "ab", "cab"}

// ---- group elements for the generators ----

func refG1() refPt {
	return refPt{x: r2{new(big.Int), big.NewInt(1)}, y: r2{new(big.Int), big.NewInt(2)}}
}

var refG2 = func() refPt {
	b := new(google.G2).ScalarBaseMult(big.NewInt(1)).Marshal()
	n := func(i int) *big.Int { return new(big.Int).SetBytes(b[32*i : 32*i+32]) }
	return refPt{x: r2{n(0), n(1)}, y: r2{n(2), n(3)}}
}()

func randZ1(rng *h.Rng) *big.Int {
	z := rng.Big(refP)
	if z.Sign() == 0 {
		z = big.NewInt(7)
	}
	return z
}
func randZ2(rng *h.Rng) r2 {
	z := r2{rng.Big(refP), rng.Big(refP)}
	if r2isZero(z) {
		z = r2{big.NewInt(1), big.NewInt(5)}
	}
	return z
}

func hexG1(p g1raw) string { return hexFes(p[:]) }
func hexG2(p g2raw) string { return hexFes(p[:]) }

// a Jacobian representation of an affine point: normalised (z = 1) or with a random z
func repG1(rng *h.Rng, a refPt, jac bool) g1raw {
	if jac && !a.inf {
		return jacG1(a, randZ1(rng))
	}
	return jacG1(a, big.NewInt(1))
}
func repG2(rng *h.Rng, a refPt, jac bool) g2raw {
	if jac && !a.inf {
		return jacG2(a, randZ2(rng))
	}
	return jacG2(a, r2one())
}

// an identity with arbitrary x, y (z = 0): what Double/Add of the code produce
func infG1(rng *h.Rng) g1raw {
	return g1raw{feFromBig(rng.Big(refP)), feFromBig(rng.Big(refP)), fe{}, fe{}}
}

var boundaryScalars = func() []*big.Int {
	r := refOrder
	return []*big.Int{big.NewInt(0), big.NewInt(1), big.NewInt(2), new(big.Int).Sub(r, big.NewInt(1)), r,
		new(big.Int).Add(r, big.NewInt(1)), max256, new(big.Int).Lsh(big.NewInt(1), 255), new(big.Int).Lsh(r, 1),
		new(big.Int).Lsh(big.NewInt(1), 64), new(big.Int).Sub(new(big.Int).Lsh(big.NewInt(1), 64), big.NewInt(1))}
}()

// scalars on which a double-and-add / windowed / mixed-addition ladder meets its special cases although the scalar
// is NOT one of {0, 1, r-1, r, r+1, 2^256-1}: unreduced scalars m·r + j (m = 1..6, j = -3..12) — the prefix (m·r+1)/2
// doubles to P itself, so the next set bit adds P to P (seed C10f-1: [r+2]P came out as the identity) —, such
// prefixes followed by further bits, and the same pattern around 2^k·r.
var ladderScalars = func() []*big.Int {
	r := refOrder
	var out []*big.Int
	for m := int64(1); m <= 6; m++ {
		mr := new(big.Int).Mul(r, big.NewInt(m))
		for j := int64(-3); j <= 12; j++ {
			out = append(out, new(big.Int).Add(mr, big.NewInt(j)))
		}
	}
	for _, m := range []int64{1, 3, 5} {
		pre := new(big.Int).Add(new(big.Int).Mul(r, big.NewInt(m)), big.NewInt(2)) // bits of (m·r+1)/2 followed by 1
		for _, s := range []uint{1, 2, 7, 64} {
			lo := new(big.Int).Lsh(pre, s)
			out = append(out, lo, new(big.Int).Add(lo, new(big.Int).Sub(new(big.Int).Lsh(big.NewInt(1), s), big.NewInt(1))))
		}
	}
	return out
}()

func randLadderScalar(rng *h.Rng) *big.Int {
	k := new(big.Int).Set(ladderScalars[rng.Intn(len(ladderScalars))])
	if rng.Intn(3) == 0 { // a prefix of this shape followed by random bits
		s := uint(1 + rng.Intn(40))
		k.Lsh(k, s)
		k.Add(k, rng.Big(new(big.Int).Lsh(big.NewInt(1), s)))
	}
	return k
}

func randScalar(rng *h.Rng) *big.Int {
	switch rng.Intn(4) {
	case 0:
		return boundaryScalars[rng.Intn(len(boundaryScalars))]
	case 1:
		return big.NewInt(int64(rng.Intn(40)))
	case 2:
		return rng.Big(two256)
	}
	return rng.Big(refOrder)
}

func gen(tier string, rng *h.Rng, emit func(string)) {
	scale := 1
	if tier == "thorough" {
		scale = 8
	}
	for _, c := range []string{"curveGen", "twistGen", "gtGen", "gtInf", "curveB", "twistB"} {
		emit("const " + c)
	}

	// ---------------- field primitives
	ops := []string{"add", "sub", "neg", "mul"}
	dv := directedOperands()
	for _, op := range ops {
		for _, a := range dv {
			if op == "neg" {
				emit(fmt.Sprintf("f neg n %s %s", hexBig(a), hexBig(big.NewInt(0))))
				emit(fmt.Sprintf("f neg ca %s %s", hexBig(a), hexBig(big.NewInt(0))))
				continue
			}
			for _, b := range dv {
				emit(fmt.Sprintf("f %s n %s %s", op, hexBig(a), hexBig(b)))
			}
			for _, al := range aliases[1:] {
				emit(fmt.Sprintf("f %s %s %s %s", op, al, hexBig(a), hexBig(dv[rng.Intn(len(dv))])))
			}
		}
	}
	for i := 0; i < 6000*scale; i++ {
		op := ops[rng.Intn(4)]
		al := "n"
		if rng.Intn(5) == 0 {
			al = aliases[rng.Intn(5)]
		}
		a, b := randOperand(rng, rng.Intn(6)), randOperand(rng, rng.Intn(6))
		if op == "mul" && rng.Intn(3) == 0 { // Montgomery encoding of an arbitrary 256-bit value
			b = refR2
		}
		emit(fmt.Sprintf("f %s %s %s %s", op, al, hexBig(a), hexBig(b)))
	}
	for _, a := range dv {
		emit("fx enc " + hexBig(a))
		emit("fx dec " + hexBig(a))
		emit("fx inv " + hexBig(a))
	}
	for i := 0; i < 60*scale; i++ {
		a := randOperand(rng, i)
		emit("fx enc " + hexBig(a))
		emit("fx dec " + hexBig(a))
		emit("fx inv " + hexBig(a))
	}
	for _, k := range []int64{0, 1, 2, 3, 9, -1, -2, -3, 1 << 40, -(1 << 62), 9223372036854775807} {
		emit(fmt.Sprintf("fx new %d", k))
	}

	// ---------------- towers
	randFes := func(n int, mode int) string {
		fs := make([]fe, n)
		for i := range fs {
			switch mode {
			case 0:
				fs[i] = feFromBig(rng.Big(refP))
			case 1: // sparse: many zero / one / p-1 coordinates
				switch rng.Intn(4) {
				case 0:
					fs[i] = fe{}
				case 1:
					fs[i] = feFromBig(refR)
				case 2:
					fs[i] = feFromBig(new(big.Int).Sub(refP, big.NewInt(1)))
				default:
					fs[i] = feFromBig(rng.Big(refP))
				}
			default: // unreduced coordinates (outside the precondition: model comparison only)
				fs[i] = feFromBig(rng.Big(two256))
			}
		}
		return hexFes(fs)
	}
	zero := func(n int) string { return hexFes(make([]fe, n)) }
	one := func(n int) string {
		fs := make([]fe, n)
		fs[n-1] = feFromBig(refR)
		return hexFes(fs)
	}
	t2un := []string{"sq", "inv", "xi", "conj", "neg"}
	t2bin := []string{"mul", "add", "sub"}
	for _, a := range []string{zero(2), one(2), randFes(2, 1), randFes(2, 1)} {
		for _, op := range t2un {
			emit("t2 " + op + " " + a)
		}
		for _, op := range t2bin {
			emit("t2 " + op + " " + a + " " + randFes(2, 0))
			emit("t2 " + op + " " + a + " " + a)
		}
	}
	for i := 0; i < 40*scale; i++ {
		m := 0
		if i%8 == 7 {
			m = 2
		} else if i%4 == 3 {
			m = 1
		}
		a := randFes(2, m)
		emit("t2 " + t2un[rng.Intn(len(t2un))] + " " + a)
		emit("t2 " + t2bin[rng.Intn(len(t2bin))] + " " + a + " " + randFes(2, m))
		emit("t2 muls " + a + " " + randFes(1, m))
	}
	t6un := []string{"sq", "inv", "tau", "neg", "frob", "frob2", "frob4"}
	t6bin := []string{"mul", "add", "sub"}
	for _, a := range []string{zero(6), one(6), randFes(6, 1)} {
		for _, op := range t6un {
			emit("t6 " + op + " " + a)
		}
		for _, op := range t6bin {
			emit("t6 " + op + " " + a + " " + randFes(6, 0))
		}
	}
	for i := 0; i < 25*scale; i++ {
		m := 0
		if i%8 == 7 {
			m = 2
		} else if i%4 == 3 {
			m = 1
		}
		a := randFes(6, m)
		emit("t6 " + t6un[rng.Intn(len(t6un))] + " " + a)
		emit("t6 " + t6bin[rng.Intn(len(t6bin))] + " " + a + " " + randFes(6, m))
		emit("t6 muls " + a + " " + randFes(2, m))
		emit("t6 mulg " + a + " " + randFes(1, m))
	}
	t12un := []string{"sq", "inv", "conj", "neg", "frob", "frob2", "frob4"}
	t12bin := []string{"mul", "add", "sub"}
	for _, a := range []string{zero(12), one(12), randFes(12, 1)} {
		for _, op := range t12un {
			emit("t12 " + op + " " + a)
		}
		for _, op := range t12bin {
			emit("t12 " + op + " " + a + " " + randFes(12, 0))
		}
	}
	for i := 0; i < 15*scale; i++ {
		m := 0
		if i%8 == 7 {
			m = 2
		} else if i%4 == 3 {
			m = 1
		}
		a := randFes(12, m)
		emit("t12 " + t12un[rng.Intn(len(t12un))] + " " + a)
		emit("t12 " + t12bin[rng.Intn(len(t12bin))] + " " + a + " " + randFes(12, m))
		emit(fmt.Sprintf("t12 exp %s %s", a, randScalar(rng)))
	}
	for i := 0; i < 3*scale; i++ {
		emit("t12 finexp " + randFes(12, i%2))
	}
	emit("t12 finexp " + one(12))
	// receiver / operand aliasing of every tower method: receiver = first operand, = second operand,
	// both operands the same object, all three the same object (a method that stores part of its result
	// before it has read every input is wrong only under one of these)
	for rep := 0; rep < 2*scale; rep++ {
		for _, al := range aliases[1:] {
			for _, op := range t2bin {
				emit("t2a " + op + " " + al + " " + randFes(2, rep%2) + " " + randFes(2, 0))
			}
			for _, op := range t6bin {
				emit("t6a " + op + " " + al + " " + randFes(6, rep%2) + " " + randFes(6, 0))
			}
			for _, op := range t12bin {
				emit("t12a " + op + " " + al + " " + randFes(12, rep%2) + " " + randFes(12, 0))
			}
		}
		for _, op := range t2un {
			emit("t2a " + op + " ca " + randFes(2, rep%2))
		}
		emit("t2a muls ca " + randFes(2, 0) + " " + randFes(1, 0))
		for _, op := range t6un {
			emit("t6a " + op + " ca " + randFes(6, rep%2))
		}
		emit("t6a muls ca " + randFes(6, 0) + " " + randFes(2, 0))
		emit("t6a mulg ca " + randFes(6, 0) + " " + randFes(1, 0))
		for _, op := range t12un {
			emit("t12a " + op + " ca " + randFes(12, rep%2))
		}
		emit(fmt.Sprintf("t12a exp ca %s %s", randFes(12, 0), randScalar(rng)))
	}
	emit("t12a finexp ca " + randFes(12, 0))

	// ---------------- G1
	G := refG1()
	pts1 := func() refPt { return refMul(G, new(big.Int).Add(rng.Big(refOrder), big.NewInt(1))) }
	recv1 := func() g1raw { // a receiver with some earlier content (its t survives Add/Double)
		switch rng.Intn(3) {
		case 0:
			return g1raw{}
		case 1:
			return repG1(rng, pts1(), rng.Bool())
		}
		return infG1(rng)
	}
	for i := 0; i < 160*scale; i++ {
		P := pts1()
		Q := pts1()
		var A, B refPt
		switch i % 8 {
		case 0:
			A, B = P, P // doubling through Add
		case 1:
			A, B = P, refNeg(P) // inverse
		case 2:
			A, B = refPt{inf: true}, P
		case 3:
			A, B = P, refPt{inf: true}
		case 4:
			A, B = refPt{inf: true}, refPt{inf: true}
		default:
			A, B = P, Q
		}
		al := "n"
		if i%3 == 0 {
			al = aliases[rng.Intn(5)]
		}
		a, b := repG1(rng, A, rng.Intn(3) != 0), repG1(rng, B, rng.Intn(3) != 0)
		if A.inf && rng.Bool() {
			a = infG1(rng)
		}
		if B.inf && rng.Bool() {
			b = infG1(rng)
		}
		emit(fmt.Sprintf("g1 add %s %s %s %s", al, hexG1(recv1()), hexG1(a), hexG1(b)))
		if i%4 == 0 {
			dal := "n"
			if rng.Bool() {
				dal = "ca"
			}
			emit(fmt.Sprintf("g1 dbl %s %s %s", dal, hexG1(recv1()), hexG1(a)))
		}
	}
	for _, k := range boundaryScalars {
		for _, P := range []refPt{G, pts1(), {inf: true}} {
			emit(fmt.Sprintf("g1 mul %s %s", hexG1(repG1(rng, P, rng.Bool())), k))
		}
	}
	for i := 0; i < 50*scale; i++ {
		emit(fmt.Sprintf("g1 mul %s %s", hexG1(repG1(rng, pts1(), rng.Bool())), randScalar(rng)))
	}
	// unreduced scalars m·r + j: k·P must be (k mod r)·P (math/big, bn256/google, precompile 0x07 when k < 2^256)
	for i, k := range ladderScalars {
		P := G
		if i%2 == 1 {
			P = pts1()
		}
		emit(fmt.Sprintf("g1 mul %s %s", hexG1(repG1(rng, P, i%4 >= 2)), k))
	}
	for i := 0; i < 12*scale; i++ {
		emit(fmt.Sprintf("g1 mul %s %s", hexG1(repG1(rng, pts1(), rng.Bool())), randLadderScalar(rng)))
	}
	for i := 0; i < 30*scale; i++ {
		P := pts1()
		a := repG1(rng, P, i%3 != 0)
		if i%10 == 9 {
			a = infG1(rng)
		}
		emit("g1 aff " + hexG1(a))
		emit("g1 neg " + hexG1(a))
		emit("g1 onc " + hexG1(a))
		// off-curve / malformed stream: perturbed coordinates, unreduced coordinates
		bad := a
		bad[rng.Intn(3)] = feFromBig(rng.Big(two256))
		emit("g1 onc " + hexG1(bad))
		emit(fmt.Sprintf("g1 add n %s %s %s", hexG1(g1raw{}), hexG1(bad), hexG1(a)))
	}

	// ---------------- G2
	pts2 := func() refPt { return refMul(refG2, new(big.Int).Add(rng.Big(refOrder), big.NewInt(1))) }
	recv2 := func() g2raw {
		if rng.Bool() {
			return g2raw{}
		}
		return repG2(rng, pts2(), rng.Bool())
	}
	for i := 0; i < 60*scale; i++ {
		P := pts2()
		var A, B refPt
		switch i % 8 {
		case 0:
			A, B = P, P
		case 1:
			A, B = P, refNeg(P)
		case 2:
			A, B = refPt{inf: true}, P
		case 3:
			A, B = P, refPt{inf: true}
		default:
			A, B = P, pts2()
		}
		al := "n"
		if i%3 == 0 {
			al = aliases[rng.Intn(5)]
		}
		a, b := repG2(rng, A, rng.Intn(3) != 0), repG2(rng, B, rng.Intn(3) != 0)
		emit(fmt.Sprintf("g2 add %s %s %s %s", al, hexG2(recv2()), hexG2(a), hexG2(b)))
		if i%4 == 0 {
			dal := "n"
			if rng.Bool() {
				dal = "ca"
			}
			emit(fmt.Sprintf("g2 dbl %s %s %s", dal, hexG2(recv2()), hexG2(a)))
		}
	}
	for _, k := range boundaryScalars {
		emit(fmt.Sprintf("g2 mul %s %s", hexG2(repG2(rng, refG2, false)), k))
		emit(fmt.Sprintf("g2 mul %s %s", hexG2(repG2(rng, pts2(), true)), k))
	}
	for i := 0; i < 12*scale; i++ {
		emit(fmt.Sprintf("g2 mul %s %s", hexG2(repG2(rng, pts2(), rng.Bool())), randScalar(rng)))
	}
	for i, k := range ladderScalars {
		if i%4 == 0 || tier == "thorough" {
			emit(fmt.Sprintf("g2 mul %s %s", hexG2(repG2(rng, pts2(), i%8 == 0)), k))
		}
	}
	for i := 0; i < 8*scale; i++ {
		a := repG2(rng, pts2(), i%2 == 0)
		emit("g2 aff " + hexG2(a))
		emit("g2 neg " + hexG2(a))
		emit("g2 onc " + hexG2(a))
		bad := a
		bad[rng.Intn(4)] = feFromBig(rng.Big(refP))
		emit("g2 onc " + hexG2(bad))
	}
	// a point of the twist outside the order-r subgroup: x chosen, y by square root in Fp2 (p ≡ 3 mod 4)
	for i := 0; i < 3*scale; i++ {
		if q, ok := twistPointAnyOrder(rng); ok {
			emit("g2 onc " + hexG2(jacG2(q, r2one())))
			emit(fmt.Sprintf("g2 add n %s %s %s", hexG2(g2raw{}), hexG2(jacG2(q, randZ2(rng))), hexG2(jacG2(q, r2one()))))
		}
	}

	// ---------------- pairing
	dl := func() *big.Int {
		switch rng.Intn(4) {
		case 0:
			return big.NewInt(int64(rng.Intn(5)))
		case 1:
			return new(big.Int).Sub(refOrder, big.NewInt(int64(1+rng.Intn(3))))
		}
		return rng.Big(refOrder)
	}
	npair := 14 * scale
	for i := 0; i < npair; i++ {
		a, b := dl(), dl()
		if i == 0 {
			a, b = big.NewInt(1), big.NewInt(1)
		}
		P, Q := refMul(G, a), refMul(refG2, b)
		p, q := repG1(rng, P, i%2 == 1), repG2(rng, Q, i%3 == 2)
		emit(fmt.Sprintf("pair %s %s %s %s", hexG2(q), hexG1(p), a, b))
		if i%4 == 0 {
			emit(fmt.Sprintf("miller %s %s", hexG2(q), hexG1(p)))
		}
	}
	// P and −P, Q and −Q
	{
		a, b := dl(), dl()
		P, Q := refMul(G, a), refMul(refG2, b)
		na, nb := new(big.Int).Sub(refOrder, a), new(big.Int).Sub(refOrder, b)
		emit(fmt.Sprintf("pair %s %s %s %s", hexG2(repG2(rng, refNeg(Q), false)), hexG1(repG1(rng, P, false)), a, nb.Mod(nb, refOrder)))
		emit(fmt.Sprintf("pair %s %s %s %s", hexG2(repG2(rng, Q, true)), hexG1(repG1(rng, refNeg(P), true)), na.Mod(na, refOrder), b))
	}
	// checks
	pairStr := func(P, Q refPt, j1, j2 bool) string {
		return hexG1(repG1(rng, P, j1)) + ";" + hexG2(repG2(rng, Q, j2))
	}
	emit("check -")
	for i := 0; i < 8*scale; i++ {
		a, b := dl(), dl()
		P, Q := refMul(G, a), refMul(refG2, b)
		var items []string
		switch i % 8 {
		case 0: // e(P,Q) e(−P,Q) = 1
			items = []string{pairStr(P, Q, false, false), pairStr(refNeg(P), Q, true, false)}
		case 1: // e(P,Q) e(P,−Q) = 1
			items = []string{pairStr(P, Q, true, true), pairStr(P, refNeg(Q), false, false)}
		case 2: // e(aG,bH) e(−abG, H) = 1
			ab := new(big.Int).Mod(new(big.Int).Mul(a, b), refOrder)
			items = []string{pairStr(P, Q, false, false), pairStr(refNeg(refMul(G, ab)), refG2, false, false)}
		case 3: // false: one pair only
			items = []string{pairStr(P, Q, false, false)}
		case 4: // identities are skipped: (O,Q), (P,O) and a cancelling couple
			items = []string{pairStr(refPt{inf: true}, Q, false, false), pairStr(P, refPt{inf: true}, false, false),
				pairStr(P, Q, false, true), pairStr(refNeg(P), Q, false, false)}
		case 5: // only identities: true
			items = []string{pairStr(refPt{inf: true}, Q, false, false), pairStr(P, refPt{inf: true}, true, false)}
		case 6: // identity plus a non-trivial pair: false
			items = []string{pairStr(refPt{inf: true}, Q, false, false), pairStr(P, Q, false, false)}
		default: // three pairs, product one
			c := dl()
			ab := new(big.Int).Mul(a, b)
			ab.Add(ab, c)
			items = []string{pairStr(P, Q, false, false), pairStr(refMul(G, c), refG2, true, false),
				pairStr(refNeg(refMul(G, ab.Mod(ab, refOrder))), refG2, false, true)}
		}
		emit("check " + strings.Join(items, "|"))
	}

	// PairingCheck on slices of DIFFERENT lengths (review F #8): shorter b panics, longer b is cut
	{
		l1 := func(ps ...refPt) string {
			if len(ps) == 0 {
				return "-"
			}
			var out []string
			for _, P := range ps {
				out = append(out, hexG1(repG1(rng, P, rng.Bool())))
			}
			return strings.Join(out, "|")
		}
		l2 := func(qs ...refPt) string {
			if len(qs) == 0 {
				return "-"
			}
			var out []string
			for _, Q := range qs {
				out = append(out, hexG2(repG2(rng, Q, rng.Bool())))
			}
			return strings.Join(out, "|")
		}
		P := refMul(G, new(big.Int).Add(rng.Big(refOrder), big.NewInt(1)))
		Q := refMul(refG2, new(big.Int).Add(rng.Big(refOrder), big.NewInt(1)))
		emit("checkl " + l1(G, G) + " " + l2(refG2))             // panic
		emit("checkl " + l1(G) + " " + l2(refG2, refNeg(refG2))) // surplus ignored: false
		emit("checkl " + l1(P, refNeg(P)) + " " + l2(Q, Q, Q))   // surplus ignored: true
		emit("checkl " + l1(P) + " " + l2())                     // panic
		emit("checkl " + l1() + " " + l2(Q))                     // empty product: true
		emit("checkl " + l1(refPt{inf: true}, P) + " " + l2(Q))  // panic although a[0] is skipped
		emit("checkl " + l1(P, refNeg(P)) + " " + l2(Q, Q))      // equal lengths
		emit("checkl " + l1(P, refNeg(P), P) + " " + l2(Q, Q))   // panic after a product of one
	}
	// an identity (in G1, in G2, in both) at EVERY position of a multi-pairing whose partial products are != 1:
	// the expected value is the product of the individual reference pairings of the other pairs
	for rep := 0; rep < scale; rep++ {
		a1, b1, a2, b2 := dl(), dl(), dl(), dl()
		for a1.Sign() == 0 || b1.Sign() == 0 || a2.Sign() == 0 || b2.Sign() == 0 {
			a1, b1, a2, b2 = dl(), dl(), dl(), dl()
		}
		s12 := new(big.Int).Add(new(big.Int).Mul(a1, b1), new(big.Int).Mul(a2, b2))
		s12.Mod(s12, refOrder)
		P1, Q1, P2, Q2 := refMul(G, a1), refMul(refG2, b1), refMul(G, a2), refMul(refG2, b2)
		Pc := refNeg(refMul(G, s12)) // e(Pc, G2) cancels the first two
		O := refPt{inf: true}
		ids := [][2]refPt{{O, Q1}, {P2, O}, {O, O}}
		for _, id := range ids {
			idStr := func() string { return pairStr(id[0], id[1], false, false) }
			base := []string{pairStr(P1, Q1, false, rng.Bool()), pairStr(P2, Q2, rng.Bool(), false), pairStr(Pc, refG2, false, false)}
			for pos := 0; pos <= 3; pos++ { // product one: expected true wherever the identity sits
				items := append(append(append([]string{}, base[:pos]...), idStr()), base[pos:]...)
				emit("check " + strings.Join(items, "|"))
			}
			two := base[:2] // product e(P1,Q1) e(P2,Q2) != 1 (unless s12 = 0): expected false wherever the identity sits
			for pos := 0; pos <= 2; pos++ {
				items := append(append(append([]string{}, two[:pos]...), idStr()), two[pos:]...)
				emit("check " + strings.Join(items, "|"))
			}
			// a single non-trivial pair followed / preceded by the identity
			emit("check " + base[0] + "|" + idStr())
			emit("check " + idStr() + "|" + base[0])
		}
	}

	// ---------------- kyber-level operations on raw operands (translated point.go)
	genKyber(tier, rng, emit)

	// ---------------- API programs
	for _, p := range directedAPI() {
		emit("api " + p)
	}
	for i := 0; i < 10*scale; i++ {
		emit("api " + randomAPI(rng))
	}
	// histories on returned objects (constructor-like call, in-place mutation of the result, the same calls again)
	for _, p := range directedHistories() {
		emit("api " + p)
	}
	for i := 0; i < 6*scale; i++ {
		emit("api " + historyAPI(rng, "p"))
		if i%2 == 0 {
			emit("api " + historyAPI(rng, "q"))
		}
		if i%3 == 0 {
			emit("api " + historyAPI(rng, "e"))
		}
	}
}

// sqrt in Fp2 for p ≡ 3 (mod 4) (Adj–Rodríguez-Henríquez); returns false when a is not a square
func r2sqrt(a r2) (r2, bool) {
	if r2isZero(a) {
		return a, true
	}
	exp := func(b r2, k *big.Int) r2 {
		acc := r2one()
		for i := k.BitLen() - 1; i >= 0; i-- {
			acc = r2mul(acc, acc)
			if k.Bit(i) == 1 {
				acc = r2mul(acc, b)
			}
		}
		return acc
	}
	e1 := new(big.Int).Rsh(new(big.Int).Sub(refP, big.NewInt(3)), 2)
	a1 := exp(a, e1)
	alpha := r2mul(a1, r2mul(a1, a))
	x0 := r2mul(a1, a)
	minus1 := r2{new(big.Int), new(big.Int).Sub(refP, big.NewInt(1))}
	var x r2
	if r2eq(alpha, minus1) {
		x = r2mul(r2{big.NewInt(1), new(big.Int)}, x0)
	} else {
		e2 := new(big.Int).Rsh(new(big.Int).Sub(refP, big.NewInt(1)), 1)
		x = r2mul(exp(r2add(r2one(), alpha), e2), x0)
	}
	return x, r2eq(r2mul(x, x), a)
}

func twistPointAnyOrder(rng *h.Rng) (refPt, bool) {
	for tries := 0; tries < 20; tries++ {
		x := r2{rng.Big(refP), rng.Big(refP)}
		y, ok := r2sqrt(r2add(r2mul(r2mul(x, x), x), refTwistB))
		if ok {
			return refPt{x: x, y: y}, true
		}
	}
	return refPt{}, false
}

func directedAPI() []string {
	r1 := new(big.Int).Sub(refOrder, big.NewInt(1)).String()
	return []string{
		// the negation of a normalised G2 point in a pairing (fixed: 4406972)
		"q0=base;q1=neg:q0;p0=base;e0=pair:p0,q0;e1=pair:p0,q1;e2=add:e0,e1;b0=chk:p0,q0,p0,q1",
		"q0=base;q1=clone:q0;q2=neg:q1;p0=base;p1=mul:5,p0;e0=pair:p1,q2;b0=chk:p1,q1,p1,q2",
		"q0=base;q1=mul:1,q0;q2=neg:q1;p0=base;e0=pair:p0,q2;q3=sub:q0,q0;q4=sub:q3,q0;e1=pair:p0,q4",
		// p.Add(p, q) with p == q as points (alias-unsafe Double, fixed: 5259913)
		"p0=base;p1=base;p0=add:p0,p1;p2=mul:2,p1",
		"q0=base;q1=base;q0=add:q0,q1;q2=mul:2,q1",
		"p0=base;p1=mul:7,p0;p2=mul:7,p0;p1=add:p1,p2;p3=add:p2,p2",
		"p0=base;p0=add:p0,p0;p0=add:p0,p0;p1=base;p1=neg:p1;p2=add:p0,p1;p2=sub:p2,p2",
		// identities, inverse, order
		"p0=null;p1=base;p2=add:p0,p1;p3=add:p1,p0;p4=sub:p1,p1;p5=mul:0,p1;p6=mul:" + r1 + ",p1;p7=add:p6,p1;p8=neg:p0",
		"q0=null;q1=base;q2=add:q0,q1;q3=add:q1,q0;q4=sub:q1,q1;q5=mul:0,q1;q6=mul:" + r1 + ",q1;q7=add:q6,q1;q8=neg:q0",
		"p0=null;q0=base;e0=pair:p0,q0;p1=base;q1=null;e1=pair:p1,q1;b0=chk:p0,q0,p1,q1;b1=chk:p1,q0",
		// GT as a group
		"e0=base;e1=null;e2=add:e0,e1;e3=neg:e0;e4=add:e0,e3;e5=mul:" + r1 + ",e0;e6=add:e5,e0;e7=mul:0,e0;e8=clone:e0",
		"p0=base;q0=base;p1=mul:3,p0;q1=mul:5,q0;e0=pair:p1,q1;e1=pair:p0,q0;e2=mul:15,e1;e3=sub:e0,e2",
		// receiver = SECOND operand, receiver = both operands, for Add / Sub / Mul in G1, G2 and GT
		"p0=base;p1=mul:5,p0;p1=add:p0,p1;p2=mul:7,p0;p2=sub:p0,p2;p3=mul:9,p0;p3=add:p3,p3;p4=mul:4,p0;p4=sub:p4,p4;p5=mul:3,p0;p5=mul:11,p5",
		"q0=base;q1=mul:5,q0;q1=add:q0,q1;q2=mul:7,q0;q2=sub:q0,q2;q3=mul:9,q0;q3=add:q3,q3;q4=mul:4,q0;q4=sub:q4,q4;q5=mul:3,q0;q5=mul:11,q5",
		"p0=base;q0=base;p1=mul:3,p0;e0=pair:p0,q0;e1=pair:p1,q0;e1=add:e0,e1;e2=pair:p1,q0;e2=sub:e0,e2;e3=pair:p1,q0;e3=add:e3,e3;e4=pair:p1,q0;e4=sub:e4,e4;e5=pair:p1,q0;e5=mul:6,e5;e6=pair:p1,q0;e6=neg:e6",
		"e0=base;e1=mul:5,e0;e1=add:e0,e1;e1=add:e0,e1;e2=mul:2,e0;e2=add:e2,e1;e2=add:e1,e2",
		// PairingCheck with an identity in every position among pairs whose partial products are not one
		"p0=base;q0=base;p1=mul:3,p0;q1=mul:5,q0;p2=mul:15,p0;p2=neg:p2;pn=null;qn=null;" +
			"b0=chk:p1,q1,p2,q0,pn,q0;b1=chk:p1,q1,pn,q0,p2,q0;b2=chk:pn,q0,p1,q1,p2,q0;" +
			"b3=chk:p1,q1,p2,q0,p0,qn;b4=chk:p1,q1,p0,qn,p2,q0;b5=chk:p0,qn,p1,q1,p2,q0;" +
			"b6=chk:p1,q1,pn,q0;b7=chk:p1,q1,p0,qn;b8=chk:pn,q0,p1,q1;b9=chk:p1,q1,pn,qn,p0,q0",
	}
}

// HISTORIES on returned objects (seed C10f-2: Mul(2^i, nil) handed out the entry of a shared table; the caller's next
// in-place operation rewrote the table for the rest of the process). Shape: obtain a point from a constructor-like call
// (Base, Null, Mul(k, nil) with k a power of two / small / full size, Clone, Set), mutate THAT object in place (Add to
// itself, Neg, Mul, Null, Sub), then ask the library again for generator multiples, the generator and the identity. Every
// register has a known discrete logarithm, so each value is compared with crypto/bn256/google.
func historyAPI(rng *h.Rng, grp string) string {
	var ops []string
	n := 0
	reg := func() string { n++; return fmt.Sprintf("%s%d", grp, n-1) }
	pow2 := func() *big.Int { return new(big.Int).Lsh(big.NewInt(1), uint(rng.Intn(8))) }
	ctor := func(dst string) {
		switch rng.Intn(6) {
		case 0:
			ops = append(ops, dst+"=base")
		case 1:
			ops = append(ops, dst+"=null")
		case 2:
			ops = append(ops, fmt.Sprintf("%s=mulg:%s", dst, new(big.Int).Lsh(big.NewInt(1), uint(rng.Intn(254)))))
		default:
			ops = append(ops, fmt.Sprintf("%s=mulg:%s", dst, pow2()))
		}
	}
	mutate := func(x string) {
		switch rng.Intn(6) {
		case 0:
			ops = append(ops, fmt.Sprintf("%s=add:%s,%s", x, x, x))
		case 1:
			ops = append(ops, fmt.Sprintf("%s=neg:%s", x, x))
		case 2:
			ops = append(ops, fmt.Sprintf("%s=mul:%d,%s", x, 2+rng.Intn(9), x))
		case 3:
			ops = append(ops, x+"=null")
		case 4:
			ops = append(ops, fmt.Sprintf("%s=sub:%s,%s", x, x, x))
		default:
			ops = append(ops, x+"=base", fmt.Sprintf("%s=add:%s,%s", x, x, x))
		}
	}
	for round := 0; round < 2+rng.Intn(2); round++ {
		x := reg()
		ctor(x)
		if rng.Intn(3) == 0 { // through Clone / Set: the copy is mutated, the original must not move
			y := reg()
			if rng.Bool() && grp != "q" {
				ops = append(ops, fmt.Sprintf("%s=clone:%s", y, x))
			} else {
				ops = append(ops, fmt.Sprintf("%s=set:%s", y, x))
			}
			mutate(y)
		} else {
			mutate(x)
		}
		// afterwards: small generator multiples (every low bit), a full-size one, the generator, the identity
		for _, k := range []int64{1, 2, 3, 4, 7, int64(8 + rng.Intn(250))} {
			ops = append(ops, fmt.Sprintf("%s=mulg:%d", reg(), k))
		}
		ops = append(ops, fmt.Sprintf("%s=mulg:%s", reg(), rng.Big(refOrder)))
		ops = append(ops, reg()+"=base", reg()+"=null")
	}
	return strings.Join(ops, ";")
}

func directedHistories() []string {
	var out []string
	for _, g := range []string{"p", "q", "e"} {
		r := func(i int) string { return fmt.Sprintf("%s%d", g, i) }
		// seed C10f-2's history, for each group: Mul(1, nil) doubled in place, Mul(4, nil) negated in place
		out = append(out, fmt.Sprintf("%s=mulg:1;%s=add:%s,%s;%s=mulg:4;%s=neg:%s;%s=mulg:1;%s=mulg:3;%s=mulg:4;%s=mulg:7;%s=mulg:5;%s=base;%s=null",
			r(0), r(0), r(0), r(0), r(1), r(1), r(1), r(2), r(3), r(4), r(5), r(6), r(7), r(8)))
		// Base() / Null() results mutated in place, then asked for again
		out = append(out, fmt.Sprintf("%s=base;%s=add:%s,%s;%s=base;%s=mulg:1;%s=null;%s=base;%s=add:%s,%s;%s=null;%s=mulg:0;%s=mulg:2",
			r(0), r(0), r(0), r(0), r(1), r(2), r(3), r(4), r(3), r(3), r(4), r(5), r(6), r(7)))
	}
	return out
}

func randomAPI(rng *h.Rng) string {
	var ops []string
	np, nq, ne := 0, 0, 0
	sc := func() string {
		switch rng.Intn(4) {
		case 0:
			return fmt.Sprint(rng.Intn(4))
		case 1:
			return new(big.Int).Sub(refOrder, big.NewInt(int64(rng.Intn(3)))).String() // r, r-1, r-2 (reduced by the Scalar)
		}
		return rng.Big(refOrder).String()
	}
	newReg := func(pfx string, n *int) string {
		// sometimes reuse an existing register as the receiver
		if *n > 0 && rng.Intn(3) == 0 {
			return fmt.Sprintf("%s%d", pfx, rng.Intn(*n))
		}
		*n++
		return fmt.Sprintf("%s%d", pfx, *n-1)
	}
	old := func(pfx string, n int) string { return fmt.Sprintf("%s%d", pfx, rng.Intn(n)) }
	ops = append(ops, "p0=base", "q0=base")
	np, nq = 1, 1
	for i := 0; i < 6+rng.Intn(6); i++ {
		pfx, n := "p", &np
		if rng.Intn(3) == 0 {
			pfx, n = "q", &nq
		}
		a, b := old(pfx, *n), old(pfx, *n)
		d := newReg(pfx, n)
		switch rng.Intn(7) {
		case 0:
			ops = append(ops, fmt.Sprintf("%s=mul:%s,%s", d, sc(), a))
		case 1:
			ops = append(ops, fmt.Sprintf("%s=add:%s,%s", d, a, b))
		case 2:
			ops = append(ops, fmt.Sprintf("%s=sub:%s,%s", d, a, b))
		case 3:
			ops = append(ops, fmt.Sprintf("%s=neg:%s", d, a))
		case 4:
			ops = append(ops, fmt.Sprintf("%s=clone:%s", d, a))
		case 5:
			ops = append(ops, fmt.Sprintf("%s=set:%s", d, a))
		default:
			ops = append(ops, fmt.Sprintf("%s=add:%s,%s", d, a, a))
		}
	}
	for i := 0; i < 1+rng.Intn(2); i++ {
		ops = append(ops, fmt.Sprintf("e%d=pair:%s,%s", ne, old("p", np), old("q", nq)))
		ne++
	}
	if ne >= 2 { // GT: receiver = second operand, then receiver = both operands
		ops = append(ops, fmt.Sprintf("e%d=add:e0,e%d", ne-1, ne-1), "e0=add:e0,e0")
	} else {
		ops = append(ops, "e0=sub:e0,e0")
	}
	p, q := old("p", np), old("q", nq)
	ops = append(ops, fmt.Sprintf("p%d=neg:%s", np, p))
	ops = append(ops, fmt.Sprintf("b0=chk:%s,%s,p%d,%s", p, q, np, q))
	return strings.Join(ops, ";")
}

/-
The adversary's knowledge of signed material (C05 round 4, "other sessions").

The symbolic model gives the adversary every message term it can build: all theorems of
Props/C05.lean quantify over ALL deals, responses, key messages and batches a member may receive –
deals sealed in other runs, justifications, junk included.  The one thing it cannot build is a
response signature under an honest member's key.  Which such signatures EXIST is therefore the whole
of the adversary's "knowledge" that matters, and it is what this file makes explicit:

* the responses the honest member emitted in the run under attack, and
* the answers of the ORACLE: the response the holder of the key gives, in ANY OTHER run it takes part
  in with that key – any member list, any dealer polynomial and any (possibly inconsistent) deal the
  adversary chooses, queried adaptively before and during the run under attack – to the deal it is
  handed there (`oracleAnswer` = a fresh `DistKeyGenerator` + `ProcessDeal`).  Running extra key
  generations with the same long-term keys gives the adversary exactly this.

A vss session id hashes the dealer key, the member keys, the commitments and the threshold – no
per-run nonce – so an oracle answer for the same keys and polynomial carries a session id that is
valid in the run under attack.
-/
import DosModel.Model.DkgSession

namespace Dos.Dkg
open Dos Dos.Vss

section
variable {S P : Type} [DecidableEq S] [DecidableEq P]
variable [Zero P] [Add P] [SMul S P] [IntCast S] [Mul S] [Add S] [Zero S]

/-- **the oracle**: what the holder of `long` answers, in a run of its own with member list
`participants` (own polynomial `f`), to the deal message `dd`: `NewDistKeyGenerator` + `ProcessDeal`.
`none` = `ProcessDeal` returned an error (nothing is signed). -/
def oracleAnswer (g : P) (long : S) (participants : List P) (f : List S) (dd : DkgDeal S P) : Option (DkgResp S P) :=
  match newGen g long participants f with
  | .error _ => none
  | .ok d =>
    match (processDeal g d dd).2 with
    | .ok m => some m
    | .error _ => none

/-- the response signatures under the key `long` that exist: those of the responses its holder emitted
in the run under attack (`own`) and the oracle's answers -/
inductive Signed (g : P) (long : S) (own : List (Response S P)) : Response S P → Prop
  | thisRun {r : Response S P} : r ∈ own → Signed g long own r
  | otherRun {participants : List P} {f : List S} {dd : DkgDeal S P} {m : DkgResp S P} {r : Response S P} :
      oracleAnswer g long participants f dd = some m → m.resp = some r → Signed g long own r

/-- the own response a generator holds in dealer slot `j` (what it signed for the deal it got from `j`) -/
def ownRespAt (d : Gen S P) (j : Nat) : Option (Response S P) :=
  ((getVerifier d j).bind (·.agg)).bind (fun a => getResponse a d.index)

/-- all own responses of a generator -/
def ownResps (d : Gen S P) : List (Response S P) :=
  (List.range d.verifiers.length).filterMap (ownRespAt d)

end

end Dos.Dkg

/-
Lemmas about the model of `share/poly.go` (`Model/Share.lean`) instantiated at an arbitrary
field `F` and `F`-module `G`.
-/
import DosModel.Model.Share
import DosModel.Proofs.Lagrange

set_option linter.unusedSectionVars false

namespace Dos.Share
open Polynomial

variable {F : Type} [Field F] [DecidableEq F]

/-! ### coefficient lists as polynomials -/

/-- the polynomial with coefficient list `l` (constant term first) -/
noncomputable def toPoly (l : List F) : F[X] := l.foldr (fun c p => C c + X * p) 0

@[simp] theorem toPoly_nil : toPoly ([] : List F) = 0 := rfl
@[simp] theorem toPoly_cons (c : F) (l : List F) : toPoly (c :: l) = C c + X * toPoly l := rfl

theorem eval_toPoly (l : List F) (x : F) :
    (toPoly l).eval x = l.foldr (fun c v => v * x + c) 0 := by
  induction l with
  | nil => simp
  | cons c l ih => simp [ih]; ring

theorem priEval_eq (f : List F) (i : Int) : priEval f i = (toPoly f).eval (xOf i) := by
  rw [eval_toPoly]; rfl

theorem coeff_toPoly (l : List F) (k : Nat) : (toPoly l).coeff k = l.getD k 0 := by
  induction l generalizing k with
  | nil => simp
  | cons c l ih =>
    cases k with
    | zero => simp
    | succ k => simp [coeff_C_succ, ih]

theorem degree_toPoly_lt (l : List F) : (toPoly l).degree < l.length := by
  rw [degree_lt_iff_coeff_zero]
  intro m hm
  rw [coeff_toPoly]
  rw [List.getD_eq_getElem?_getD, List.getElem?_eq_none_iff.2 hm]; rfl

theorem eval_zero_toPoly (l : List F) : (toPoly l).eval 0 = l.headD 0 := by
  cases l <;> simp

theorem toPoly_injective_of_length {l₁ l₂ : List F} (hlen : l₁.length = l₂.length)
    (h : toPoly l₁ = toPoly l₂) : l₁ = l₂ := by
  apply List.ext_getElem hlen
  intro k h1 h2
  have := congrArg (fun p => p.coeff k) h
  simp only [coeff_toPoly] at this
  simpa [List.getD_eq_getElem?_getD, h1, h2] using this

/-! ### commitments -/

section Module
variable {G : Type} [AddCommGroup G] [Module F G] [DecidableEq G]

theorem pubEval_map_smul (f : List F) (b : G) (i : Int) :
    pubEval F (f.map (fun c => c • b)) i = priEval f i • b := by
  unfold pubEval priEval
  induction f with
  | nil => simp
  | cons c f ih =>
    simp only [List.map_cons, List.foldr_cons, ih]
    rw [smul_smul, add_smul, mul_comm]

theorem zipWith_add_map_smul (f g : List F) (b : G) :
    List.zipWith (· + ·) (f.map (fun c => c • b)) (g.map (fun c => c • b))
      = (List.zipWith (· + ·) f g).map (fun c => c • b) := by
  induction f generalizing g with
  | nil => simp
  | cons c f ih =>
    cases g with
    | nil => simp
    | cons d g => simp [ih, add_smul]

end Module

theorem priEval_zipWith_add (f g : List F) (hlen : f.length = g.length) (i : Int) :
    priEval (List.zipWith (· + ·) f g) i = priEval f i + priEval g i := by
  unfold priEval
  induction f generalizing g with
  | nil => cases g <;> simp_all
  | cons c f ih =>
    cases g with
    | nil => simp at hlen
    | cons d g =>
      simp only [List.zipWith_cons_cons, List.foldr_cons]
      rw [ih g (by simpa using hlen)]; ring

/-! ### comparison loops -/

theorem allEq_iff {α : Type} [DecidableEq α] (a b : List α) (hlen : a.length = b.length) :
    allEq a b = true ↔ a = b := by
  induction a generalizing b with
  | nil => cases b <;> simp_all [allEq]
  | cons x a ih =>
    cases b with
    | nil => simp at hlen
    | cons y b =>
      simp only [allEq, Bool.and_eq_true, decide_eq_true_eq, List.cons.injEq]
      rw [ih b (by simpa using hlen)]

/-! ### the map `x` of `xScalar` / `RecoverCommit` -/

theorem usablePri_some {n : Nat} {s : Option (PriShare F)} {i : Int} {v : F}
    (h : usablePri n s = some (i, v)) : s = some ⟨i, some v⟩ ∧ 0 ≤ i ∧ i < (n : Int) := by
  unfold usablePri at h
  split at h
  · split at h
    · rename_i hr; simp only [Option.some.injEq, Prod.mk.injEq] at h
      obtain ⟨rfl, rfl⟩ := h; exact ⟨rfl, hr⟩
    · simp at h
  · simp at h

/-! ### one share per index (the `seen` map of `xScalar` / `RecoverCommit`, /repo 2d8b40a) -/

/-- first occurrence of every index that is not in `seen` -/
def firstIdx {V : Type} : List Int → List (Int × V) → List (Int × V)
  | _, [] => []
  | seen, iv :: rest =>
    if iv.1 ∈ seen then firstIdx seen rest else iv :: firstIdx (iv.1 :: seen) rest

theorem firstIdx_mem {V : Type} (l : List (Int × V)) :
    ∀ (seen : List Int) (iv : Int × V), iv ∈ firstIdx seen l → iv ∈ l ∧ iv.1 ∉ seen := by
  induction l with
  | nil => intro seen iv h; simp [firstIdx] at h
  | cons a rest ih =>
    intro seen iv h
    unfold firstIdx at h
    by_cases ha : a.1 ∈ seen
    · simp only [ha, if_true] at h
      obtain ⟨h1, h2⟩ := ih seen iv h
      exact ⟨List.mem_cons_of_mem _ h1, h2⟩
    · simp only [ha, if_false, List.mem_cons] at h
      rcases h with rfl | h
      · exact ⟨by simp, ha⟩
      · obtain ⟨h1, h2⟩ := ih _ iv h
        exact ⟨List.mem_cons_of_mem _ h1, fun hm => h2 (List.mem_cons_of_mem _ hm)⟩

theorem firstIdx_nodup {V : Type} (l : List (Int × V)) :
    ∀ seen : List Int, ((firstIdx seen l).map (·.1)).Nodup := by
  induction l with
  | nil => intro seen; simp [firstIdx]
  | cons a rest ih =>
    intro seen
    unfold firstIdx
    by_cases ha : a.1 ∈ seen
    · simp only [ha, if_true]; exact ih seen
    · simp only [ha, if_false, List.map_cons, List.nodup_cons]
      refine ⟨?_, ih _⟩
      intro hm
      obtain ⟨iv, hiv, he⟩ := List.mem_map.1 hm
      exact (firstIdx_mem rest _ iv hiv).2 (by rw [he]; simp)

theorem insert_sdiff_card {α : Type} [DecidableEq α] (M S : Finset α) (i : α) (hi : i ∉ S) :
    ((insert i M) \ S).card = (M \ (insert i S)).card + 1 := by
  have h : (insert i M) \ S = insert i (M \ (insert i S)) := by
    ext x
    simp only [Finset.mem_sdiff, Finset.mem_insert]
    constructor
    · rintro ⟨h1 | h1, h2⟩
      · exact Or.inl h1
      · by_cases hx : x = i
        · exact Or.inl hx
        · exact Or.inr ⟨h1, fun h => by rcases h with h | h; exact hx h; exact h2 h⟩
    · rintro (h1 | ⟨h1, h2⟩)
      · subst h1; exact ⟨Or.inl rfl, hi⟩
      · exact ⟨Or.inr h1, fun h => h2 (Or.inr h)⟩
  rw [h, Finset.card_insert_of_notMem (by simp)]

/-- the number of entries kept = the number of distinct indices not seen before -/
theorem firstIdx_length {V : Type} (l : List (Int × V)) :
    ∀ seen : List Int,
      (firstIdx seen l).length = ((l.map (·.1)).toFinset \ seen.toFinset).card := by
  induction l with
  | nil => intro seen; simp [firstIdx]
  | cons a rest ih =>
    intro seen
    unfold firstIdx
    by_cases ha : a.1 ∈ seen
    · simp only [ha, if_true, List.map_cons, List.toFinset_cons]
      rw [ih seen, Finset.insert_sdiff_of_mem _ (by simpa using ha)]
    · simp only [ha, if_false, List.map_cons, List.toFinset_cons, List.length_cons]
      rw [ih, insert_sdiff_card _ _ _ (by simpa using ha)]
      simp only [List.toFinset_cons]

theorem firstIdx_length_nil {V : Type} (l : List (Int × V)) :
    (firstIdx [] l).length = (l.map (·.1)).toFinset.card := by
  rw [firstIdx_length]; simp

/-- the distinct in-range indices that carry a value in a slice of private shares -/
def idxPri (n : Nat) (shares : List (Option (PriShare F))) : Finset Int :=
  ((shares.filterMap (usablePri n)).map (·.1)).toFinset

/-- what `xScalarAux` collects, as `(x, value)` pairs: the first `t - cnt` usable entries that
carry an index not seen before -/
theorem xScalarAux_pairs (t n : Nat) (shares : List (Option (PriShare F))) :
    ∀ pos cnt seen, cnt < t →
      (xScalarAux t n pos cnt seen shares).map (fun nd => (nd.x, nd.v))
        = ((firstIdx seen (shares.filterMap (usablePri n))).take (t - cnt)).map
            (fun iv => ((xOf iv.1 : F), iv.2)) := by
  induction shares with
  | nil => intro pos cnt seen _; simp [xScalarAux, firstIdx]
  | cons s rest ih =>
    intro pos cnt seen hc
    unfold xScalarAux
    cases hu : usablePri n s with
    | none => simp only [List.filterMap_cons, hu]; exact ih _ _ _ hc
    | some iv =>
      obtain ⟨i, v⟩ := iv
      simp only [List.filterMap_cons, hu]
      unfold firstIdx
      by_cases hs : i ∈ seen
      · simp only [hs, if_true]; exact ih _ _ _ hc
      · simp only [hs, if_false]
        have h1 : t - cnt = (t - (cnt + 1)) + 1 := by omega
        rw [h1, List.take_succ_cons]
        by_cases hlast : cnt + 1 = t
        · simp [hlast]
        · simp only [hlast, if_false, List.map_cons]
          rw [ih _ _ _ (by omega)]

/-- for ANY `t` and `cnt` (also `t = 0`, where the `break` never fires): a prefix of the
first-occurrence list -/
theorem xScalarAux_prefix (t n : Nat) (shares : List (Option (PriShare F))) :
    ∀ pos cnt seen, ∃ k,
      (xScalarAux t n pos cnt seen shares).map (fun nd => (nd.x, nd.v))
        = ((firstIdx seen (shares.filterMap (usablePri n))).take k).map
            (fun iv => ((xOf iv.1 : F), iv.2)) := by
  induction shares with
  | nil => intro pos cnt seen; exact ⟨0, by simp [xScalarAux]⟩
  | cons s rest ih =>
    intro pos cnt seen
    unfold xScalarAux
    cases hu : usablePri n s with
    | none => simp only [List.filterMap_cons, hu]; exact ih _ _ _
    | some iv =>
      obtain ⟨i, v⟩ := iv
      simp only [List.filterMap_cons, hu]
      unfold firstIdx
      by_cases hs : i ∈ seen
      · simp only [hs, if_true]; exact ih _ _ _
      · simp only [hs, if_false]
        by_cases hlast : cnt + 1 = t
        · exact ⟨1, by simp [hlast]⟩
        · obtain ⟨k, hk⟩ := ih (pos + 1) (cnt + 1) (i :: seen)
          exact ⟨k + 1, by simp only [hlast, if_false, List.map_cons, List.take_succ_cons, hk]⟩

/-- positions recorded by `xScalarAux` strictly increase (so they are distinct keys of the Go map) -/
theorem xScalarAux_pos (t n : Nat) (shares : List (Option (PriShare F))) :
    ∀ pos cnt seen, ((xScalarAux t n pos cnt seen shares).map (·.pos)).Pairwise (· < ·)
      ∧ ∀ p ∈ (xScalarAux t n pos cnt seen shares).map (·.pos), pos ≤ p := by
  induction shares with
  | nil => intro pos cnt seen; simp [xScalarAux]
  | cons s rest ih =>
    intro pos cnt seen
    unfold xScalarAux
    cases hu : usablePri n s with
    | none =>
      obtain ⟨h1, h2⟩ := ih (pos + 1) cnt seen
      exact ⟨h1, fun p hp => by have := h2 p hp; omega⟩
    | some iv =>
      obtain ⟨i, v⟩ := iv
      by_cases hs : i ∈ seen
      · simp only [hs, if_true]
        obtain ⟨h1, h2⟩ := ih (pos + 1) cnt seen
        exact ⟨h1, fun p hp => by have := h2 p hp; omega⟩
      · simp only [hs, if_false]
        by_cases hlast : cnt + 1 = t
        · simp [hlast]
        · obtain ⟨h1, h2⟩ := ih (pos + 1) (cnt + 1) (i :: seen)
          simp only [hlast, if_false, List.map_cons, List.pairwise_cons, List.mem_cons]
          refine ⟨⟨fun p hp => by have := h2 p hp; omega, h1⟩, ?_⟩
          rintro p (rfl | hp)
          · exact Nat.le_refl _
          · have := h2 p hp; omega

/-! ### the interpolation loops -/

section Loops
variable {V : Type}

theorem numDen_fold (xs : List (Node F V)) (i : Node F V) (a d : F) :
    xs.foldl (fun (nd : F × F) j =>
        if j.pos = i.pos then nd else (nd.1 * j.x, nd.2 * (j.x - i.x))) (a, d)
      = (a * ((xs.filter (fun j => j.pos ≠ i.pos)).map (·.x)).prod,
         d * ((xs.filter (fun j => j.pos ≠ i.pos)).map (fun j => j.x - i.x)).prod) := by
  induction xs generalizing a d with
  | nil => simp
  | cons j xs ih =>
    simp only [List.foldl_cons]
    by_cases h : j.pos = i.pos
    · simp [h, ih]
    · simp [h, ih, mul_assoc]

theorem numDen_eq (xs : List (Node F V)) (i : Node F V) (n0 : F) :
    numDen xs i n0
      = (n0 * ((xs.filter (fun j => j.pos ≠ i.pos)).map (·.x)).prod,
         ((xs.filter (fun j => j.pos ≠ i.pos)).map (fun j => j.x - i.x)).prod) := by
  unfold numDen
  rw [numDen_fold]; simp

/-- with distinct positions and distinct `x`, "every other key" is "every other `x`" -/
theorem filter_pos_eq_filter_x (xs : List (Node F V)) (hpos : (xs.map (·.pos)).Nodup)
    (hx : (xs.map (·.x)).Nodup) (i : Node F V) (hi : i ∈ xs) (g : F → F) :
    (xs.filter (fun j => j.pos ≠ i.pos)).map (fun j => g j.x)
      = ((xs.map (·.x)).filter (· ≠ i.x)).map g := by
  have hinjp := List.inj_on_of_nodup_map hpos
  have hinjx := List.inj_on_of_nodup_map hx
  rw [List.filter_map, List.map_map]
  congr 1
  apply List.filter_congr
  intro j hj
  simp only [Function.comp, ne_eq, decide_eq_decide, not_iff_not]
  constructor
  · intro h; rw [hinjp hj hi h]
  · intro h; rw [hinjx hj hi h]

end Loops

/-- nodes with distinct keys, distinct evaluation points and values on the polynomial `p` -/
structure GoodS (xs : List (Node F F)) (p : F[X]) : Prop where
  pos : (xs.map (·.pos)).Nodup
  x : (xs.map (·.x)).Nodup
  val : ∀ i ∈ xs, i.v = p.eval i.x

theorem den_ne_zero {V : Type} (xs : List (Node F V)) (hpos : (xs.map (·.pos)).Nodup)
    (hx : (xs.map (·.x)).Nodup) (i : Node F V) (hi : i ∈ xs) (n0 : F) :
    (numDen xs i n0).2 ≠ 0 := by
  rw [numDen_eq]
  simp only
  rw [filter_pos_eq_filter_x xs hpos hx i hi (fun b => b - i.x)]
  apply Lagrange.prod_ne_zero_of
  intro b hb
  have : b ≠ i.x := by simpa using (List.mem_filter.1 hb).2
  exact sub_ne_zero.2 this

theorem secret_fold (dp : Bool) (xs ys : List (Node F F))
    (hden : ∀ i ∈ ys, (numDen xs i i.v).2 ≠ 0) (a : F) :
    ys.foldl (secretStep dp xs) (.ok a)
      = .ok (a + (ys.map fun i => (numDen xs i i.v).1 * ((numDen xs i i.v).2)⁻¹).sum) := by
  induction ys generalizing a with
  | nil => simp
  | cons i ys ih =>
    have h0 : (numDen xs i i.v).2 ≠ 0 := hden i (by simp)
    simp only [List.foldl_cons, secretStep, divOut, h0, false_and, if_false, List.map_cons,
      List.sum_cons]
    rw [ih (fun j hj => hden j (by simp [hj]))]
    congr 1; ring

theorem secret_fold_good (dp : Bool) (xs : List (Node F F)) (p : F[X]) (hg : GoodS xs p)
    (hdeg : p.degree < xs.length) :
    xs.foldl (secretStep dp xs) (.ok 0) = .ok (p.eval 0) := by
  rw [secret_fold dp xs xs (fun i hi => den_ne_zero xs hg.pos hg.x i hi _), zero_add]
  congr 1
  have hL := Lagrange.list_numden_at_zero (xs.map (·.x)) hg.x p (by simpa using hdeg)
  rw [← hL, List.map_map]
  congr 1
  refine List.map_congr_left fun i hi => ?_
  simp only [Function.comp, numDen_eq]
  rw [hg.val i hi]
  have e1 := filter_pos_eq_filter_x xs hg.pos hg.x i hi id
  have e2 := filter_pos_eq_filter_x xs hg.pos hg.x i hi (fun b => b - i.x)
  simp only [id] at e1
  rw [e1, e2]

section Commit
variable {G : Type} [AddCommGroup G] [Module F G] [DecidableEq G]

theorem commit_fold (dp : Bool) (xs ys : List (Node F G))
    (hden : ∀ i ∈ ys, (numDen xs i (1 : F)).2 ≠ 0) (a : G) :
    ys.foldl (commitStep dp xs) (.ok a)
      = .ok (a + (ys.map fun i =>
          ((numDen xs i (1 : F)).1 * ((numDen xs i (1 : F)).2)⁻¹) • i.v).sum) := by
  induction ys generalizing a with
  | nil => simp
  | cons i ys ih =>
    have h0 : (numDen xs i (1 : F)).2 ≠ 0 := hden i (by simp)
    simp only [List.foldl_cons, commitStep, divOut, h0, false_and, if_false, List.map_cons,
      List.sum_cons]
    rw [ih (fun j hj => hden j (by simp [hj]))]
    congr 1; abel

/-- nodes with distinct keys, distinct evaluation points and values `p(x) • B` -/
structure GoodP (xs : List (Node F G)) (p : F[X]) (B : G) : Prop where
  pos : (xs.map (·.pos)).Nodup
  x : (xs.map (·.x)).Nodup
  val : ∀ i ∈ xs, i.v = p.eval i.x • B

theorem commit_fold_good (dp : Bool) (xs : List (Node F G)) (p : F[X]) (B : G)
    (hg : GoodP xs p B) (hdeg : p.degree < xs.length) :
    xs.foldl (commitStep dp xs) (.ok 0) = .ok (p.eval 0 • B) := by
  rw [commit_fold dp xs xs (fun i hi => den_ne_zero xs hg.pos hg.x i hi _), zero_add]
  congr 1
  have hL := Lagrange.list_numden_smul_at_zero (xs.map (·.x)) hg.x p (by simpa using hdeg) B
  rw [← hL, List.map_map]
  congr 1
  refine List.map_congr_left fun i hi => ?_
  simp only [Function.comp, numDen_eq]
  rw [hg.val i hi]
  have e1 := filter_pos_eq_filter_x xs hg.pos hg.x i hi id
  have e2 := filter_pos_eq_filter_x xs hg.pos hg.x i hi (fun b => b - i.x)
  simp only [id] at e1
  rw [e1, e2]

theorem usablePub_some {n : Nat} {s : Option (PubShare G)} {i : Int} {v : G}
    (h : usablePub n s = some (i, v)) : s = some ⟨i, some v⟩ ∧ 0 ≤ i ∧ i < (n : Int) := by
  unfold usablePub at h
  split at h
  · split at h
    · rename_i hr; simp only [Option.some.injEq, Prod.mk.injEq] at h
      obtain ⟨rfl, rfl⟩ := h; exact ⟨rfl, hr⟩
    · simp at h
  · simp at h

/-- the distinct in-range indices that carry a value in a slice of public shares -/
def idxPub (n : Nat) (shares : List (Option (PubShare G))) : Finset Int :=
  ((shares.filterMap (usablePub n)).map (·.1)).toFinset

theorem xCommitAux_pairs (n : Nat) (shares : List (Option (PubShare G))) :
    ∀ pos seen, (xCommitAux F n pos seen shares).map (fun nd => (nd.x, nd.v))
        = (firstIdx seen (shares.filterMap (usablePub n))).map
            (fun iv => ((xOf iv.1 : F), iv.2)) := by
  induction shares with
  | nil => intro pos seen; simp [xCommitAux, firstIdx]
  | cons s rest ih =>
    intro pos seen
    unfold xCommitAux
    cases hu : usablePub n s with
    | none => simp only [List.filterMap_cons, hu]; exact ih _ _
    | some iv =>
      obtain ⟨i, v⟩ := iv
      simp only [List.filterMap_cons, hu]
      unfold firstIdx
      by_cases hs : i ∈ seen
      · simp only [hs, if_true]; exact ih _ _
      · simp only [hs, if_false, List.map_cons]
        rw [ih]

theorem xCommitAux_pos (n : Nat) (shares : List (Option (PubShare G))) :
    ∀ pos seen, ((xCommitAux F n pos seen shares).map (·.pos)).Pairwise (· < ·)
      ∧ ∀ p ∈ (xCommitAux F n pos seen shares).map (·.pos), pos ≤ p := by
  induction shares with
  | nil => intro pos seen; simp [xCommitAux]
  | cons s rest ih =>
    intro pos seen
    unfold xCommitAux
    cases hu : usablePub n s with
    | none =>
      obtain ⟨h1, h2⟩ := ih (pos + 1) seen
      exact ⟨h1, fun p hp => by have := h2 p hp; omega⟩
    | some iv =>
      obtain ⟨i, v⟩ := iv
      by_cases hs : i ∈ seen
      · simp only [hs, if_true]
        obtain ⟨h1, h2⟩ := ih (pos + 1) seen
        exact ⟨h1, fun p hp => by have := h2 p hp; omega⟩
      · simp only [hs, if_false]
        obtain ⟨h1, h2⟩ := ih (pos + 1) (i :: seen)
        simp only [List.map_cons, List.pairwise_cons, List.mem_cons]
        refine ⟨⟨fun p hp => by have := h2 p hp; omega, h1⟩, ?_⟩
        rintro p (rfl | hp)
        · exact Nat.le_refl _
        · have := h2 p hp; omega

end Commit

theorem nodup_of_pairwise_lt {l : List Nat} (h : l.Pairwise (· < ·)) : l.Nodup :=
  h.imp (fun hab => Nat.ne_of_lt hab)

/-! ### evaluation points -/

/-- no positive number up to `n` vanishes in `F` (characteristic 0 or larger than `n`) -/
def CharGt (F : Type) [Field F] (n : Nat) : Prop := ∀ k : Nat, 0 < k → k ≤ n → (k : F) ≠ 0

theorem xOf_eq_natCast (i : Int) (h0 : 0 ≤ i) : (xOf i : F) = (((1 + i).toNat : Nat) : F) := by
  unfold xOf
  have : ((1 + i).toNat : Int) = 1 + i := Int.toNat_of_nonneg (by omega)
  rw [← Int.cast_natCast, this]

theorem xOf_ne_zero {n : Nat} (h : CharGt F n) (i : Int) (h0 : 0 ≤ i) (hn : i < n) :
    (xOf i : F) ≠ 0 := by
  rw [xOf_eq_natCast i h0]
  exact h _ (by omega) (by omega)

theorem xOf_injOn {n : Nat} (h : CharGt F n) (a b : Int) (ha0 : 0 ≤ a) (han : a < n)
    (hb0 : 0 ≤ b) (hbn : b < n) (hab : (xOf a : F) = xOf b) : a = b := by
  by_contra hne
  have key : ∀ a b : Int, 0 ≤ a → b < n → a < b → (xOf a : F) ≠ xOf b := by
    intro a b ha0 hbn hlt heq
    have hz : (((b - a).toNat : Nat) : F) = 0 := by
      have h1 : ((b - a).toNat : Int) = b - a := Int.toNat_of_nonneg (by omega)
      rw [← Int.cast_natCast, h1]
      unfold xOf at heq
      have : ((1 + b : Int) : F) - ((1 + a : Int) : F) = 0 := sub_eq_zero.2 heq.symm
      rw [← Int.cast_sub] at this
      have e : (1 + b) - (1 + a) = b - a := by ring
      rwa [e] at this
    exact h _ (by omega) (by omega) hz
  rcases lt_or_gt_of_ne hne with hlt | hgt
  · exact key a b ha0 hbn hlt hab
  · exact key b a hb0 han hgt hab.symm

/-! ### `xScalar` / `RecoverCommit`'s map under the property's hypotheses -/

/-- `len(x)` after `xScalar`: `t`, or the number of distinct usable indices if that is smaller -/
theorem xScalar_length (t n : Nat) (shares : List (Option (PriShare F))) (ht : 0 < t) :
    (xScalar shares t n).length = min t (idxPri n shares).card := by
  have hp := congrArg List.length (xScalarAux_pairs t n shares 0 0 [] ht)
  simp only [List.length_map, List.length_take, Nat.sub_zero, firstIdx_length_nil] at hp
  exact hp

theorem usablePri_range {n : Nat} {shares : List (Option (PriShare F))} :
    ∀ iv ∈ shares.filterMap (usablePri n), 0 ≤ iv.1 ∧ iv.1 < (n : Int) := by
  intro iv hiv
  obtain ⟨s, _, hs⟩ := List.mem_filterMap.1 hiv
  exact (usablePri_some (i := iv.1) (v := iv.2) hs).2

/-- distinct in-range indices are distinct evaluation points -/
theorem nodup_xOf {n : Nat} (hc : CharGt F n) {V : Type} (l : List (Int × V))
    (hr : ∀ iv ∈ l, 0 ≤ iv.1 ∧ iv.1 < (n : Int)) (hd : (l.map (·.1)).Nodup) :
    ((l.map (·.1)).map (fun i => (xOf i : F))).Nodup := by
  apply List.Nodup.map_on _ hd
  intro a ha b hb hab
  obtain ⟨iva, hiva, rfl⟩ := List.mem_map.1 ha
  obtain ⟨ivb, hivb, rfl⟩ := List.mem_map.1 hb
  have ra := hr iva hiva
  have rb := hr ivb hivb
  exact xOf_injOn hc _ _ ra.1 ra.2 rb.1 rb.2 hab

/-- whatever the slice holds (any values, any repetitions, any `t`): the keys of the map are
distinct and so are the evaluation points – no Lagrange denominator can vanish -/
theorem xScalar_keys (t n : Nat) (hc : CharGt F n) (shares : List (Option (PriShare F))) :
    ((xScalar shares t n).map (·.pos)).Nodup ∧ ((xScalar shares t n).map (·.x)).Nodup := by
  refine ⟨nodup_of_pairwise_lt (xScalarAux_pos t n shares 0 0 []).1, ?_⟩
  obtain ⟨k, hk⟩ := xScalarAux_prefix t n shares 0 0 []
  have hx : (xScalar shares t n).map (·.x)
      = (((firstIdx [] (shares.filterMap (usablePri n))).take k).map (·.1)).map
          (fun i => (xOf i : F)) := by
    have := congrArg (List.map Prod.fst) hk
    simp only [xScalar, List.map_map] at this ⊢
    exact this
  rw [hx]
  apply nodup_xOf hc
  · intro iv hiv
    exact usablePri_range iv (firstIdx_mem _ _ iv (List.mem_of_mem_take hiv)).1
  · rw [List.map_take]
    exact (firstIdx_nodup _ _).sublist (List.take_sublist _ _)

/-- **the map of `xScalar` under the property's hypotheses**: every usable entry is a true share
of `f`, and at least `t` DISTINCT indices are usable – anywhere in the slice, repeated or not. -/
theorem xScalar_spec (f : List F) (t n : Nat) (ht : 0 < t) (hc : CharGt F n)
    (shares : List (Option (PriShare F)))
    (hval : ∀ iv ∈ shares.filterMap (usablePri n), iv.2 = priEval f iv.1)
    (hcnt : t ≤ (idxPri n shares).card) :
    GoodS (xScalar shares t n) (toPoly f) ∧ (xScalar shares t n).length = t := by
  have hp := xScalarAux_pairs t n shares 0 0 [] ht
  simp only [Nat.sub_zero] at hp
  have hlen : (xScalar shares t n).length = t := by
    rw [xScalar_length t n shares ht]; omega
  obtain ⟨hpos, hx⟩ := xScalar_keys t n hc shares
  refine ⟨⟨hpos, hx, ?_⟩, hlen⟩
  intro nd hnd
  have hmem : (nd.x, nd.v) ∈ (xScalarAux t n 0 0 [] shares).map (fun nd => (nd.x, nd.v)) :=
    List.mem_map.2 ⟨nd, hnd, rfl⟩
  rw [hp] at hmem
  obtain ⟨iv, hiv, he⟩ := List.mem_map.1 hmem
  simp only [Prod.mk.injEq] at he
  rw [← he.2, ← he.1, hval iv (firstIdx_mem _ _ iv (List.mem_of_mem_take hiv)).1, priEval_eq]

/-- the hypothesis of the earlier rounds (the first `t` usable entries carry distinct indices) is
a special case -/
theorem card_of_take_nodup {V : Type} (l : List (Int × V)) (t : Nat) (hcnt : t ≤ l.length)
    (hdist : ((l.take t).map (·.1)).Nodup) : t ≤ (l.map (·.1)).toFinset.card := by
  have h1 : ((l.take t).map (·.1)).toFinset.card = t := by
    rw [List.toFinset_card_of_nodup hdist]; simp [hcnt]
  rw [← h1]
  apply Finset.card_le_card
  intro x hx
  simp only [List.mem_toFinset, List.mem_map] at hx ⊢
  obtain ⟨iv, hiv, rfl⟩ := hx
  exact ⟨iv, List.mem_of_mem_take hiv, rfl⟩

theorem xScalar_good (f : List F) (t n : Nat) (ht : 0 < t) (hc : CharGt F n)
    (shares : List (Option (PriShare F)))
    (hval : ∀ iv ∈ shares.filterMap (usablePri n), iv.2 = priEval f iv.1)
    (hcnt : t ≤ (shares.filterMap (usablePri n)).length)
    (hdist : (((shares.filterMap (usablePri n)).take t).map (·.1)).Nodup) :
    GoodS (xScalar shares t n) (toPoly f) ∧ (xScalar shares t n).length = t :=
  xScalar_spec f t n ht hc shares hval (card_of_take_nodup _ t hcnt hdist)

/-- **`RecoverSecret` never panics** – any slice, any values, any `t`, both division behaviours:
the denominators are products of differences of distinct evaluation points. -/
theorem recoverSecret_no_panic (dp : Bool) (t n : Nat) (hc : CharGt F n)
    (shares : List (Option (PriShare F))) :
    recoverSecret dp shares t n = .err .few ∨ ∃ v, recoverSecret dp shares t n = .ok v := by
  obtain ⟨hpos, hx⟩ := xScalar_keys t n hc shares
  unfold recoverSecret
  by_cases hlt : (xScalar shares t n).length < t
  · left; simp [hlt]
  · right
    simp only [hlt, if_false]
    exact ⟨_, secret_fold dp _ _ (fun i hi => den_ne_zero _ hpos hx i hi _) 0⟩

/-- `RecoverPriPoly` has no division that can fail (`Inv` of 0 stays 0) and `PriPoly.Add` returns
an error, not a panic: the fold over the map never panics -/
theorem polyStep_fold_no_panic (g : Nat) (xs ys : List (Node F F)) (acc : Out (Option (PriPoly F)))
    (hacc : ∀ s, acc ≠ .panic s) : ∀ s, ys.foldl (polyStep g xs) acc ≠ .panic s := by
  induction ys generalizing acc with
  | nil => simpa using hacc
  | cons j ys ih =>
    rw [List.foldl_cons]
    apply ih
    intro s
    unfold polyStep
    cases acc with
    | ok cur =>
      cases cur with
      | none => simp
      | some a =>
        simp only
        unfold priAdd
        split_ifs <;> simp
    | err e => simp
    | panic s' => exact absurd rfl (hacc s')

theorem recoverPriPoly_no_panic (g t n : Nat) (shares : List (Option (PriShare F))) :
    ∀ s, recoverPriPoly g shares t n ≠ .panic s := by
  intro s
  have h := polyStep_fold_no_panic g (xScalar shares t n) (xScalar shares t n) (.ok none)
    (by simp)
  unfold recoverPriPoly
  simp only
  split_ifs
  · simp
  · split <;> simp_all

section CommitGlue
variable {G : Type} [AddCommGroup G] [Module F G] [DecidableEq G]

theorem usablePub_range {n : Nat} {shares : List (Option (PubShare G))} :
    ∀ iv ∈ shares.filterMap (usablePub n), 0 ≤ iv.1 ∧ iv.1 < (n : Int) := by
  intro iv hiv
  obtain ⟨s, _, hs⟩ := List.mem_filterMap.1 hiv
  exact (usablePub_some (i := iv.1) (v := iv.2) hs).2

theorem xCommit_length (n : Nat) (shares : List (Option (PubShare G))) :
    (xCommitAux F n 0 [] shares).length = (idxPub n shares).card := by
  have := congrArg List.length (xCommitAux_pairs (F := F) n shares 0 [])
  simpa [firstIdx_length_nil, idxPub] using this

/-- whatever the slice holds: distinct keys and distinct evaluation points -/
theorem xCommit_keys (n : Nat) (hc : CharGt F n) (shares : List (Option (PubShare G))) :
    ((xCommitAux F n 0 [] shares).map (·.pos)).Nodup
      ∧ ((xCommitAux F n 0 [] shares).map (·.x)).Nodup := by
  have hp := xCommitAux_pairs (F := F) n shares 0 []
  have hx : (xCommitAux F n 0 [] shares).map (·.x)
      = ((firstIdx [] (shares.filterMap (usablePub n))).map (·.1)).map
          (fun i => (xOf i : F)) := by
    have := congrArg (List.map Prod.fst) hp
    simp only [List.map_map] at this ⊢
    exact this
  refine ⟨nodup_of_pairwise_lt (xCommitAux_pos (F := F) n shares 0 []).1, ?_⟩
  rw [hx]
  apply nodup_xOf hc
  · intro iv hiv
    exact usablePub_range iv (firstIdx_mem _ _ iv hiv).1
  · exact firstIdx_nodup _ _

theorem xCommit_good (f : List F) (B : G) (n : Nat) (hc : CharGt F n)
    (shares : List (Option (PubShare G)))
    (hval : ∀ iv ∈ shares.filterMap (usablePub n), iv.2 = priEval f iv.1 • B) :
    GoodP (xCommitAux F n 0 [] shares) (toPoly f) B := by
  have hp := xCommitAux_pairs (F := F) n shares 0 []
  obtain ⟨hpos, hx⟩ := xCommit_keys (F := F) n hc shares
  refine ⟨hpos, hx, ?_⟩
  intro nd hnd
  have hmem : (nd.x, nd.v) ∈ (xCommitAux F n 0 [] shares).map (fun nd => (nd.x, nd.v)) :=
    List.mem_map.2 ⟨nd, hnd, rfl⟩
  rw [hp] at hmem
  obtain ⟨iv, hiv, he⟩ := List.mem_map.1 hmem
  simp only [Prod.mk.injEq] at he
  rw [← he.2, ← he.1, hval iv (firstIdx_mem _ _ iv hiv).1, priEval_eq]

end CommitGlue

section CommitTotal
variable {G : Type} [AddCommGroup G] [Module F G] [DecidableEq G]

/-- **`RecoverCommit` never panics** – any slice, any values, any `t`: no division by zero -/
theorem recoverCommit_no_panic (dp : Bool) (t n : Nat) (hc : CharGt F n)
    (shares : List (Option (PubShare G))) :
    recoverCommit (S := F) dp shares t n = .err .few ∨ ∃ c, recoverCommit (S := F) dp shares t n = .ok c := by
  obtain ⟨hpos, hx⟩ := xCommit_keys (F := F) n hc shares
  unfold recoverCommit
  by_cases hlt : (xCommitAux F n 0 [] shares).length < t
  · left; simp [hlt]
  · right
    simp only [hlt, if_false]
    exact ⟨_, commit_fold dp _ _ (fun i hi => den_ne_zero _ hpos hx i hi _) 0⟩

/-- `RecoverCommit` returns `f(0) • B` whenever the usable entries are public shares of `f` and
`≥ t ≥ len f` DISTINCT indices are among them (repetitions allowed) -/
theorem recoverCommit_ok (dp : Bool) (f : List F) (B : G) (t n : Nat) (hf : f.length ≤ t)
    (hc : CharGt F n) (shares : List (Option (PubShare G)))
    (hval : ∀ iv ∈ shares.filterMap (usablePub n), iv.2 = priEval f iv.1 • B)
    (hcnt : t ≤ (idxPub n shares).card) :
    recoverCommit (S := F) dp shares t n = .ok (f.headD 0 • B) := by
  have hg := xCommit_good f B n hc shares hval
  have hlen := xCommit_length (F := F) n shares
  have hdeg : (toPoly f).degree < (xCommitAux F n 0 [] shares).length := by
    rw [hlen]; exact lt_of_lt_of_le (degree_toPoly_lt f) (by exact_mod_cast le_trans hf hcnt)
  unfold recoverCommit
  have : ¬ (xCommitAux F n 0 [] shares).length < t := by rw [hlen]; omega
  simp only [this, if_false]
  rw [commit_fold_good dp _ _ B hg hdeg, eval_zero_toPoly]

/-- fewer than `t` distinct usable indices: an error -/
theorem recoverCommit_few (dp : Bool) (t n : Nat) (shares : List (Option (PubShare G)))
    (hfew : (idxPub n shares).card < t) :
    recoverCommit (S := F) dp shares t n = .err .few := by
  have hlen := xCommit_length (F := F) n shares
  unfold recoverCommit
  simp [hlen, hfew]

/-- when no index repeats, the count of distinct indices is the count of usable entries -/
theorem idxPub_card_of_nodup (n : Nat) (shares : List (Option (PubShare G)))
    (hdist : ((shares.filterMap (usablePub n)).map (·.1)).Nodup) :
    (idxPub n shares).card = (shares.filterMap (usablePub n)).length := by
  unfold idxPub
  rw [List.toFinset_card_of_nodup hdist]; simp

end CommitTotal

end Dos.Share

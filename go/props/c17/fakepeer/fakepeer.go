// Package fakepeer is the harness's own endpoint of the p2p wire protocol:
// handshake (plain ID frame), session key from the DH point, AES-GCM frames
// carrying protobuf Packages signed with BLS. It lets a case script the
// remote side of a real node: reply order, delays, drops, duplicates, unknown
// nonces, wrong signatures, silence, closing mid-flight.
//
// It reuses the repository's group arithmetic (suites, bls) to PRODUCE
// traffic; nothing here is used to judge the implementation's answers.
package fakepeer

import (
	"crypto/aes"
	"crypto/cipher"
	"errors"
	"net"
	"sync"

	"github.com/DOSNetwork/core/p2p"
	"github.com/DOSNetwork/core/sign/bls"
	"github.com/DOSNetwork/core/suites"
	"github.com/dedis/kyber"
	"github.com/golang/protobuf/proto"
)

var suite = suites.MustFind("bn256")

// Session is one established connection seen from the harness's side.
type Session struct {
	Conn      net.Conn
	LocalID   []byte
	RemoteID  []byte
	Sec       kyber.Scalar
	Pub       kyber.Point
	RemotePub kyber.Point
	Key       []byte // AES-256 key  = DH bytes 0..32
	Nonce     []byte // fixed GCM nonce = DH bytes 32..44
	aead      cipher.AEAD
	wmu       sync.Mutex
}

// Handshake sends our ID frame, reads the remote one and derives the session key.
func Handshake(conn net.Conn, localID []byte) (*Session, error) {
	s := &Session{Conn: conn, LocalID: localID}
	s.Sec = suite.Scalar().Pick(suite.RandomStream())
	s.Pub = suite.Point().Mul(s.Sec, nil)
	pk, err := s.Pub.MarshalBinary()
	if err != nil {
		return nil, err
	}
	b, err := p2p.VerifEncode(&p2p.ID{PublicKey: pk, Id: localID}, localID, nil, 0, false)
	if err != nil {
		return nil, err
	}
	if err = p2p.VerifWriteTo(b, conn); err != nil {
		return nil, err
	}
	in, err := p2p.VerifReadFrom(conn)
	if err != nil {
		return nil, err
	}
	_, ptr, err := p2p.VerifDecodeBytes(in, nil)
	if err != nil {
		return nil, err
	}
	id, ok := ptr.Message.(*p2p.ID)
	if !ok {
		return nil, errors.New("handshake: not an ID")
	}
	s.RemoteID = id.GetId()
	s.RemotePub = suite.G2().Point()
	if err = s.RemotePub.UnmarshalBinary(id.GetPublicKey()); err != nil {
		return nil, err
	}
	dh, err := suite.Point().Mul(s.Sec, s.RemotePub).MarshalBinary()
	if err != nil {
		return nil, err
	}
	s.Key, s.Nonce = dh[0:32], dh[32:44]
	blk, err := aes.NewCipher(s.Key)
	if err != nil {
		return nil, err
	}
	if s.aead, err = cipher.NewGCM(blk); err != nil {
		return nil, err
	}
	return s, nil
}

// Read returns the next package the remote node sent (decrypted, parsed; signature not checked).
func (s *Session) Read() (*p2p.Package, error) {
	in, err := p2p.VerifReadFrom(s.Conn)
	if err != nil {
		return nil, err
	}
	pt, err := s.aead.Open(nil, s.Nonce, in, nil)
	if err != nil {
		return nil, err
	}
	pa := &p2p.Package{}
	if err = proto.Unmarshal(pt, pa); err != nil {
		return nil, err
	}
	return pa, nil
}

// Sign is the BLS signature of our session key over msg.
func (s *Session) Sign(msg []byte) ([]byte, error) { return bls.Sign(suite, s.Sec, msg) }

// Plain is the encoded Package for msg; sigMode: 0 good, 1 signed by another key,
// 2 signature over other bytes, 3 empty signature, 4 random 64 bytes (not a point, usually).
func (s *Session) Plain(msg proto.Message, nonce uint64, reply bool, sigMode int) ([]byte, error) {
	sign := s.Sign
	switch sigMode {
	case 1:
		other := suite.Scalar().Pick(suite.RandomStream())
		sign = func(m []byte) ([]byte, error) { return bls.Sign(suite, other, m) }
	case 2:
		sign = func(m []byte) ([]byte, error) { return bls.Sign(suite, s.Sec, append([]byte{0x55}, m...)) }
	case 3:
		sign = func(m []byte) ([]byte, error) { return nil, nil }
	case 4:
		sign = func(m []byte) ([]byte, error) {
			b := make([]byte, 64)
			for i := range b {
				b[i] = byte(7*i + 1)
			}
			return b, nil
		}
	}
	return p2p.VerifEncode(msg, s.LocalID, sign, nonce, reply)
}

// Seal encrypts a plaintext package the way encryptPipe does.
func (s *Session) Seal(plain []byte) []byte { return s.aead.Seal(nil, s.Nonce, plain, nil) }

// WriteFrame puts one length-prefixed frame on the wire.
func (s *Session) WriteFrame(frame []byte) error {
	s.wmu.Lock()
	defer s.wmu.Unlock()
	return p2p.VerifWriteTo(frame, s.Conn)
}

// Send = Plain + Seal + WriteFrame.
func (s *Session) Send(msg proto.Message, nonce uint64, reply bool, sigMode int) error {
	b, err := s.Plain(msg, nonce, reply, sigMode)
	if err != nil {
		return err
	}
	return s.WriteFrame(s.Seal(b))
}

/-
Kernel-checked primality of the ed25519 base-field modulus `p = 2^255 - 19` (Pratt certificate tree,
machinery of `Proofs/PrimesCore.lean`, certificate nodes generated with sympy and re-verified by the
Lean kernel through `decide +kernel`), the field `F = ZMod p`, the constants `d`, `sqrtM1` of
`Dos.Ed`, and the square-root facts for `p ≡ 5 (mod 8)` that ref10's point decompression relies on.

No compiled/native evaluation: the axioms are propext, Classical.choice, Quot.sound only.
-/
import Mathlib.Tactic.NormNum.Prime
import Mathlib.Tactic.LinearCombination
import Mathlib.Tactic.Ring
import Mathlib.FieldTheory.Finite.Basic
import DosModel.Proofs.PrimesCore
import DosModel.Proofs.Primes
import DosModel.Model.Schnorr

namespace Dos.Ed25519Prime
open Dos.Primes

/-! ### primes below 10^6 not already in `Proofs/Primes.lean` -/

theorem prime_31 : Nat.Prime 31 := by norm_num
theorem prime_47 : Nat.Prime 47 := by norm_num
theorem prime_103 : Nat.Prime 103 := by norm_num
theorem prime_127 : Nat.Prime 127 := by norm_num
theorem prime_223 : Nat.Prime 223 := by norm_num
theorem prime_353 : Nat.Prime 353 := by norm_num
theorem prime_991 : Nat.Prime 991 := by norm_num
theorem prime_2437 : Nat.Prime 2437 := by norm_num
theorem prime_3727 : Nat.Prime 3727 := by norm_num
theorem prime_4153 : Nat.Prime 4153 := by norm_num
theorem prime_57467 : Nat.Prime 57467 := by norm_num
theorem prime_65147 : Nat.Prime 65147 := by norm_num
theorem prime_75707 : Nat.Prime 75707 := by norm_num
theorem prime_132049 : Nat.Prime 132049 := by norm_num
theorem prime_430751 : Nat.Prime 430751 := by norm_num
theorem prime_569003 : Nat.Prime 569003 := by norm_num

theorem prime_1923133 : Nat.Prime 1923133 :=
  pratt 21 1923133 2
    [(2, 2), (3, 1), (43, 1), (3727, 1)]
    (by decide +kernel) ⟨prime_2, prime_3, prime_43, prime_3727, trivial⟩

theorem prime_31757755568855353 : Nat.Prime 31757755568855353 :=
  pratt 55 31757755568855353 10
    [(2, 3), (3, 1), (31, 1), (107, 1), (223, 1), (4153, 1), (430751, 1)]
    (by decide +kernel) ⟨prime_2, prime_3, prime_31, prime_107, prime_223, prime_4153, prime_430751, trivial⟩

theorem prime_2773320623 : Nat.Prime 2773320623 :=
  pratt 32 2773320623 5
    [(2, 1), (2437, 1), (569003, 1)]
    (by decide +kernel) ⟨prime_2, prime_2437, prime_569003, trivial⟩

theorem prime_72106336199 : Nat.Prime 72106336199 :=
  pratt 37 72106336199 7
    [(2, 1), (13, 1), (2773320623, 1)]
    (by decide +kernel) ⟨prime_2, prime_13, prime_2773320623, trivial⟩

theorem prime_8574133 : Nat.Prime 8574133 :=
  pratt 24 8574133 2
    [(2, 2), (3, 1), (7, 1), (103, 1), (991, 1)]
    (by decide +kernel) ⟨prime_2, prime_3, prime_7, prime_103, prime_991, trivial⟩

theorem prime_1919519569386763 : Nat.Prime 1919519569386763 :=
  pratt 51 1919519569386763 2
    [(2, 1), (3, 1), (7, 1), (19, 1), (47, 2), (127, 1), (8574133, 1)]
    (by decide +kernel) ⟨prime_2, prime_3, prime_7, prime_19, prime_47, prime_127, prime_8574133, trivial⟩

theorem prime_75445702479781427272750846543864801 : Nat.Prime 75445702479781427272750846543864801 :=
  pratt 116 75445702479781427272750846543864801 7
    [(2, 5), (3, 2), (5, 2), (75707, 1), (72106336199, 1), (1919519569386763, 1)]
    (by decide +kernel) ⟨prime_2, prime_3, prime_5, prime_75707, prime_72106336199, prime_1919519569386763, trivial⟩

theorem prime_74058212732561358302231226437062788676166966415465897661863160754340907 : Nat.Prime 74058212732561358302231226437062788676166966415465897661863160754340907 :=
  pratt 236 74058212732561358302231226437062788676166966415465897661863160754340907 2
    [(2, 1), (3, 1), (353, 1), (57467, 1), (132049, 1), (1923133, 1), (31757755568855353, 1), (75445702479781427272750846543864801, 1)]
    (by decide +kernel) ⟨prime_2, prime_3, prime_353, prime_57467, prime_132049, prime_1923133, prime_31757755568855353, prime_75445702479781427272750846543864801, trivial⟩

theorem prime_57896044618658097711785492504343953926634992332820282019728792003956564819949 : Nat.Prime 57896044618658097711785492504343953926634992332820282019728792003956564819949 :=
  pratt 255 57896044618658097711785492504343953926634992332820282019728792003956564819949 2
    [(2, 2), (3, 1), (65147, 1), (74058212732561358302231226437062788676166966415465897661863160754340907, 1)]
    (by decide +kernel) ⟨prime_2, prime_3, prime_65147, prime_74058212732561358302231226437062788676166966415465897661863160754340907, trivial⟩

/-! ### the prime `2^255 - 19` -/

theorem p25519_prime : Nat.Prime (2 ^ 255 - 19) := by
  have h : (2 ^ 255 - 19 : ℕ) =
      57896044618658097711785492504343953926634992332820282019728792003956564819949 := by norm_num
  rw [h]
  exact prime_57896044618658097711785492504343953926634992332820282019728792003956564819949

theorem p_prime : Nat.Prime Dos.Ed.p := p25519_prime

instance fact_p : Fact (Nat.Prime Dos.Ed.p) := ⟨p_prime⟩

/-- the ed25519 base field -/
abbrev F := ZMod Dos.Ed.p

/-- `F` is a field (Mathlib's `ZMod.instField` through `fact_p`) -/
example : Field F := inferInstance

/-! ### the constants -/

theorem p_mod_8 : Dos.Ed.p % 8 = 5 := by decide +kernel

theorem one_le_p : 1 ≤ Dos.Ed.p := p_prime.one_lt.le

/-- `p - 1` is `-1` in `F` -/
theorem cast_p_sub_one : ((Dos.Ed.p - 1 : ℕ) : F) = -1 := by
  rw [Nat.cast_sub one_le_p, ZMod.natCast_self, Nat.cast_one, zero_sub]

theorem two_ne_zero' : (2 : F) ≠ 0 := by
  intro h
  have h2 : ((2 : ℕ) : F) = 0 := by exact_mod_cast h
  rw [ZMod.natCast_eq_zero_iff] at h2
  exact absurd (Nat.le_of_dvd (by norm_num) h2) (by decide +kernel)

theorem one_ne_neg_one : (1 : F) ≠ -1 := by
  intro h
  apply two_ne_zero'
  linear_combination h

theorem sqrtM1_sq : ((Dos.Ed.sqrtM1 : ℕ) : F) ^ 2 = -1 := by
  have h : ((Dos.Ed.sqrtM1 ^ 2 : ℕ) : F) = ((Dos.Ed.p - 1 : ℕ) : F) := by
    rw [ZMod.natCast_eq_natCast_iff]
    show Dos.Ed.sqrtM1 ^ 2 % Dos.Ed.p = (Dos.Ed.p - 1) % Dos.Ed.p
    decide +kernel
  rw [← cast_p_sub_one, ← h, Nat.cast_pow]

theorem d_mul : ((Dos.Ed.d : ℕ) : F) * 121666 = -121665 := by
  have h : ((Dos.Ed.d * 121666 + 121665 : ℕ) : F) = 0 := by
    rw [ZMod.natCast_eq_zero_iff]
    exact Nat.dvd_of_mod_eq_zero (by decide +kernel)
  push_cast at h
  exact eq_neg_of_add_eq_zero_left h

theorem d_euler : ((Dos.Ed.d : ℕ) : F) ^ ((Dos.Ed.p - 1) / 2) = -1 := by
  have hlt : (Dos.Ed.p - 1) / 2 < 2 ^ 256 := by decide +kernel
  have hrun : powMod 256 Dos.Ed.d ((Dos.Ed.p - 1) / 2) Dos.Ed.p = Dos.Ed.p - 1 := by
    decide +kernel
  rw [← powMod_cast (n := Dos.Ed.p) hlt, hrun, cast_p_sub_one]

theorem half_mul_two : (Dos.Ed.p - 1) / 2 * 2 = Dos.Ed.p - 1 := by decide +kernel

theorem d_not_square : ¬ IsSquare ((Dos.Ed.d : ℕ) : F) := by
  rintro ⟨z, hz⟩
  have he := d_euler
  have hz0 : z ≠ 0 := by
    rintro rfl
    rw [hz, mul_zero, zero_pow (by decide +kernel)] at he
    exact zero_ne_one (α := F) (by linear_combination -he)
  rw [hz, ← pow_two, ← pow_mul, mul_comm, half_mul_two, ZMod.pow_card_sub_one_eq_one hz0] at he
  exact one_ne_neg_one he

/-! ### inversion by Fermat -/

theorem pow_inv (z : F) (hz : z ≠ 0) : z ^ (Dos.Ed.p - 2) = z⁻¹ := by
  apply eq_inv_of_mul_eq_one_left
  rw [← pow_succ, show Dos.Ed.p - 2 + 1 = Dos.Ed.p - 1 by decide +kernel]
  exact ZMod.pow_card_sub_one_eq_one hz

theorem pow_inv_zero : (0 : F) ^ (Dos.Ed.p - 2) = 0 :=
  zero_pow (by decide +kernel)

/-! ### square roots for `p ≡ 5 (mod 8)` -/

/-- ref10's candidate root of `u / v`: `u v^3 (u v^7)^((p-5)/8)` -/
def cand (u v : F) : F := u * v ^ 3 * (u * v ^ 7) ^ ((Dos.Ed.p - 5) / 8)

local notation "i" => ((Dos.Ed.sqrtM1 : ℕ) : F)

theorem cand_key_gen (u v : F) (n : ℕ) :
    v * (u * v ^ 3 * (u * v ^ 7) ^ n) ^ 2 = u * (u * v ^ 7) ^ (2 * n + 1) := by
  ring

theorem quarter_eq : (Dos.Ed.p - 1) / 4 = 2 * ((Dos.Ed.p - 5) / 8) + 1 := by decide +kernel
theorem quarter_mul_four : (Dos.Ed.p - 1) / 4 * 4 = Dos.Ed.p - 1 := by decide +kernel
theorem quarter_ne_zero : (Dos.Ed.p - 1) / 4 ≠ 0 := by decide +kernel

/-- `v · cand² = u · (u v^7)^((p-1)/4)` -/
theorem cand_key (u v : F) :
    v * (cand u v) ^ 2 = u * (u * v ^ 7) ^ ((Dos.Ed.p - 1) / 4) := by
  rw [quarter_eq]
  exact cand_key_gen u v _

/-- the fourth roots of unity of `F` are `1, -1, i, -i` -/
theorem fourth_root (x : F) (h : x ^ 4 = 1) : x = 1 ∨ x = -1 ∨ x = i ∨ x = -i := by
  have hi := sqrtM1_sq
  have hprod : (x - 1) * ((x + 1) * ((x - i) * (x + i))) = 0 := by
    linear_combination h - (x ^ 2 - 1) * hi
  rcases mul_eq_zero.1 hprod with h1 | h2
  · exact Or.inl (sub_eq_zero.1 h1)
  rcases mul_eq_zero.1 h2 with h1 | h2
  · exact Or.inr (Or.inl (eq_neg_of_add_eq_zero_left h1))
  rcases mul_eq_zero.1 h2 with h1 | h2
  · exact Or.inr (Or.inr (Or.inl (sub_eq_zero.1 h1)))
  · exact Or.inr (Or.inr (Or.inr (eq_neg_of_add_eq_zero_left h2)))

theorem pow_quarter_fourth (w : F) (hw : w ≠ 0) : (w ^ ((Dos.Ed.p - 1) / 4)) ^ 4 = 1 := by
  rw [← pow_mul, quarter_mul_four]
  exact ZMod.pow_card_sub_one_eq_one hw

theorem cand_sq (u v : F) (hv : v ≠ 0) :
    v * (cand u v) ^ 2 = u ∨ v * (cand u v) ^ 2 = -u ∨ v * (cand u v) ^ 2 = u * i ∨
      v * (cand u v) ^ 2 = -(u * i) := by
  rw [cand_key]
  by_cases hu : u = 0
  · left; rw [hu, zero_mul]
  have hw : u * v ^ 7 ≠ 0 := mul_ne_zero hu (pow_ne_zero _ hv)
  rcases fourth_root _ (pow_quarter_fourth _ hw) with h | h | h | h <;> rw [h]
  · left; ring
  · right; left; ring
  · right; right; left; ring
  · right; right; right; ring

theorem cand_fourth (u v : F) (hv : v ≠ 0) : (v * (cand u v) ^ 2) ^ 2 = u ^ 2 ∨
    (v * (cand u v) ^ 2) ^ 2 = -u ^ 2 := by
  have hi := sqrtM1_sq
  rcases cand_sq u v hv with h | h | h | h <;> rw [h]
  · left; ring
  · left; ring
  · right; linear_combination u ^ 2 * hi
  · right; linear_combination u ^ 2 * hi

theorem sqrt_fix (u v : F) (_hv : v ≠ 0) (h : v * (cand u v) ^ 2 = -u) :
    v * (cand u v * i) ^ 2 = u := by
  have hi := sqrtM1_sq
  linear_combination (i ^ 2) * h - u * hi

theorem exists_sqrt_iff (u v : F) (hv : v ≠ 0) :
    (∃ x : F, v * x ^ 2 = u) ↔ (v * (cand u v) ^ 2 = u ∨ v * (cand u v) ^ 2 = -u) := by
  constructor
  · rintro ⟨x, hx⟩
    rw [cand_key]
    by_cases hy : x * v ^ 4 = 0
    · have hx0 : x = 0 := (mul_eq_zero.1 hy).resolve_right (pow_ne_zero _ hv)
      have hu : u = 0 := by rw [← hx, hx0]; ring
      left; rw [hu, zero_mul]
    · have hw : u * v ^ 7 = (x * v ^ 4) ^ 2 := by rw [← hx]; ring
      have hsq : ((u * v ^ 7) ^ ((Dos.Ed.p - 1) / 4)) ^ 2 = 1 := by
        rw [hw, ← pow_mul, ← pow_mul, mul_comm 2, mul_assoc,
          show (Dos.Ed.p - 1) / 4 * (2 * 2) = Dos.Ed.p - 1 from quarter_mul_four]
        exact ZMod.pow_card_sub_one_eq_one hy
      have hprod : ((u * v ^ 7) ^ ((Dos.Ed.p - 1) / 4) - 1) *
          ((u * v ^ 7) ^ ((Dos.Ed.p - 1) / 4) + 1) = 0 := by
        linear_combination hsq
      rcases mul_eq_zero.1 hprod with h | h
      · left; rw [sub_eq_zero.1 h, mul_one]
      · right; rw [eq_neg_of_add_eq_zero_left h]; ring
  · rintro (h | h)
    · exact ⟨_, h⟩
    · exact ⟨_, sqrt_fix u v hv h⟩

theorem sqrt_unique (v u x y : F) (hv : v ≠ 0) (hx : v * x ^ 2 = u) (hy : v * y ^ 2 = u) :
    y = x ∨ y = -x := by
  have h : y ^ 2 = x ^ 2 := mul_left_cancel₀ hv (hy.trans hx.symm)
  exact sq_eq_sq_iff_eq_or_eq_neg.1 h

end Dos.Ed25519Prime

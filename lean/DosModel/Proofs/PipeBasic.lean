/-
C14 helper lemmas: state updates, what a step does to goroutines / channels / wait groups /
contexts, membership in `gsWhere`, the labeling lookups.
-/
import DosModel.Model.PipeWf

namespace Dos.Pipe

/-! ### state updates -/

namespace State

@[simp] theorem setG_closed (s : State) (g : Gi) (x : GSt) (c : Ch) : (s.setG g x).closed c = s.closed c := rfl
@[simp] theorem setG_len (s : State) (g : Gi) (x : GSt) (c : Ch) : (s.setG g x).len c = s.len c := rfl
@[simp] theorem setG_wg (s : State) (g : Gi) (x : GSt) (w : Nat) : (s.setG g x).wg w = s.wg w := rfl
@[simp] theorem setG_ctxDone (s : State) (g : Gi) (x : GSt) (k : Nat) : (s.setG g x).ctxDone k = s.ctxDone k := rfl
@[simp] theorem setG_chs (s : State) (g : Gi) (x : GSt) : (s.setG g x).chs = s.chs := rfl
@[simp] theorem setG_wgs (s : State) (g : Gi) (x : GSt) : (s.setG g x).wgs = s.wgs := rfl
@[simp] theorem setG_ctxs (s : State) (g : Gi) (x : GSt) : (s.setG g x).ctxs = s.ctxs := rfl
@[simp] theorem setG_gs (s : State) (g : Gi) (x : GSt) : (s.setG g x).gs = s.gs.set g x := rfl
@[simp] theorem setG_gs_length (s : State) (g : Gi) (x : GSt) : (s.setG g x).gs.length = s.gs.length := by simp

theorem setG_get (s : State) (g g' : Gi) (x : GSt) :
    (s.setG g x).gs[g']? = if g = g' then (if g < s.gs.length then some x else none) else s.gs[g']? := by
  simp only [setG_gs, List.getElem?_set]

theorem setG_get_self {s : State} {g : Gi} {x y : GSt} (h : s.gs[g]? = some y) :
    (s.setG g x).gs[g]? = some x := by
  have := (List.getElem?_eq_some_iff.mp h).1
  simp [this]

theorem setG_get_ne {s : State} {g g' : Gi} {x : GSt} (h : g ≠ g') :
    (s.setG g x).gs[g']? = s.gs[g']? := by
  simp [h]

@[simp] theorem setLen_gs (s : State) (c : Ch) (n : Nat) : (s.setLen c n).gs = s.gs := rfl
@[simp] theorem setLen_wg (s : State) (c : Ch) (n : Nat) (w : Nat) : (s.setLen c n).wg w = s.wg w := rfl
@[simp] theorem setLen_ctxDone (s : State) (c : Ch) (n : Nat) (k : Nat) : (s.setLen c n).ctxDone k = s.ctxDone k := rfl
@[simp] theorem setClosed_gs (s : State) (c : Ch) : (s.setClosed c).gs = s.gs := rfl
@[simp] theorem setClosed_wg (s : State) (c : Ch) (w : Nat) : (s.setClosed c).wg w = s.wg w := rfl
@[simp] theorem setClosed_ctxDone (s : State) (c : Ch) (k : Nat) : (s.setClosed c).ctxDone k = s.ctxDone k := rfl
@[simp] theorem setWg_gs (s : State) (w n : Nat) : (s.setWg w n).gs = s.gs := rfl
@[simp] theorem setWg_closed (s : State) (w n : Nat) (c : Ch) : (s.setWg w n).closed c = s.closed c := rfl
@[simp] theorem setWg_len (s : State) (w n : Nat) (c : Ch) : (s.setWg w n).len c = s.len c := rfl
@[simp] theorem setWg_ctxDone (s : State) (w n : Nat) (k : Nat) : (s.setWg w n).ctxDone k = s.ctxDone k := rfl
@[simp] theorem setCtx_gs (s : State) (k : Nat) : (s.setCtx k).gs = s.gs := rfl
@[simp] theorem setCtx_closed (s : State) (k : Nat) (c : Ch) : (s.setCtx k).closed c = s.closed c := rfl
@[simp] theorem setCtx_len (s : State) (k : Nat) (c : Ch) : (s.setCtx k).len c = s.len c := rfl
@[simp] theorem setCtx_wg (s : State) (k : Nat) (w : Nat) : (s.setCtx k).wg w = s.wg w := rfl

theorem chs_none {s : State} {c : Ch} (h : ¬ c < s.chs.length) : s.chs[c]? = none := by
  rw [List.getElem?_eq_none_iff]; exact Nat.le_of_not_lt h

theorem setLen_closed (s : State) (c : Ch) (n : Nat) (c' : Ch) : (s.setLen c n).closed c' = s.closed c' := by
  unfold setLen
  simp only [closed, List.getElem?_set]
  by_cases h : c = c'
  · subst h
    by_cases hlt : c < s.chs.length
    · simp [hlt]
    · simp [hlt]
  · simp [h]

theorem setLen_len (s : State) (c : Ch) (n : Nat) (c' : Ch) :
    (s.setLen c n).len c' = if c = c' ∧ c < s.chs.length then n else s.len c' := by
  unfold setLen
  simp only [len, List.getElem?_set]
  by_cases h : c = c'
  · subst h
    by_cases hlt : c < s.chs.length
    · simp [hlt]
    · simp [hlt]
  · simp [h]

theorem setClosed_closed (s : State) (c c' : Ch) :
    (s.setClosed c).closed c' = (s.closed c' || (decide (c = c') && decide (c < s.chs.length))) := by
  unfold setClosed
  simp only [closed, List.getElem?_set]
  by_cases h : c = c'
  · subst h
    by_cases hlt : c < s.chs.length
    · simp [hlt]
    · simp [hlt]
  · simp [h]

theorem setClosed_len (s : State) (c c' : Ch) : (s.setClosed c).len c' = s.len c' := by
  unfold setClosed
  simp only [len, List.getElem?_set]
  by_cases h : c = c'
  · subst h
    by_cases hlt : c < s.chs.length
    · simp [hlt]
    · simp [hlt]
  · simp [h]

theorem setWg_wg (s : State) (w n w' : Nat) :
    (s.setWg w n).wg w' = if w = w' ∧ w < s.wgs.length then n else s.wg w' := by
  unfold setWg
  simp only [wg, List.getElem?_set]
  by_cases h : w = w'
  · subst h
    by_cases hlt : w < s.wgs.length
    · simp [hlt]
    · simp [hlt]
  · simp [h]

theorem setCtx_ctxDone (s : State) (k k' : Nat) :
    (s.setCtx k).ctxDone k' = (s.ctxDone k' || (decide (k = k') && decide (k < s.ctxs.length))) := by
  unfold setCtx
  simp only [ctxDone, List.getElem?_set]
  by_cases h : k = k'
  · subst h
    by_cases hlt : k < s.ctxs.length
    · simp [hlt]
    · simp [hlt]
  · simp [h]

end State

/-! ### what `effect` does -/

theorem effect_closed (s : State) (l : Lab) (c : Ch) :
    (effect s l).closed c = (s.closed c || (decide (l = .close c) && decide (c < s.chs.length))) := by
  cases l <;> simp [effect, State.setLen_closed, State.setClosed_closed]
  case close c' =>
    by_cases h : c' = c <;> simp [h]
  case spawn g =>
    split <;> simp

theorem effect_closed_mono (s : State) (l : Lab) (c : Ch) (h : s.closed c = true) : (effect s l).closed c = true := by
  rw [effect_closed, h]; rfl

/-- the goroutine list after an effect: unchanged except for a spawn of an idle goroutine -/
theorem effect_gs (s : State) (l : Lab) :
    (effect s l).gs = match l with
      | .spawn g => if s.gs[g]? = some GSt.idle then s.gs.set g (.at 0) else s.gs
      | _ => s.gs := by
  cases l <;> simp [effect]
  case spawn g => split <;> simp

theorem effect_wg (s : State) (l : Lab) (w : Nat) :
    (effect s l).wg w = if l = .wgDone w ∧ w < s.wgs.length then s.wg w - 1 else s.wg w := by
  cases l <;> simp [effect, State.setWg_wg]
  case wgDone w' =>
    by_cases h : w' = w <;> simp [h]
  case spawn g => split <;> simp

theorem effect_len (s : State) (l : Lab) (c : Ch) :
    (effect s l).len c =
      if l = .recvOk c ∧ c < s.chs.length then s.len c - 1
      else if l = .send c ∧ c < s.chs.length then s.len c + 1 else s.len c := by
  cases l <;> simp [effect, State.setLen_len, State.setClosed_len]
  case recvOk c' => by_cases h : c' = c <;> simp [h]
  case send c' => by_cases h : c' = c <;> simp [h]
  case spawn g => split <;> simp

theorem effect_ctxDone_mono (s : State) (l : Lab) (k : Nat) (h : s.ctxDone k = true) : (effect s l).ctxDone k = true := by
  cases l <;> simp [effect, h, State.setCtx_ctxDone]
  case spawn g => split <;> simp [h]

/-! ### goroutine lookup -/

theorem node_some {p : Pipeline} {g : Gi} {pc : Pc} {nd : Node} (h : p.node g pc = some nd) :
    ∃ gr, p.gs[g]? = some gr ∧ gr.nodes[pc]? = some nd := by
  unfold Pipeline.node at h
  split at h
  · rename_i gr hg; exact ⟨gr, hg, h⟩
  · simp at h

theorem mem_gsWhere {p : Pipeline} {f : Goroutine → Bool} {g : Gi} :
    g ∈ p.gsWhere f ↔ ∃ gr, p.gs[g]? = some gr ∧ f gr = true := by
  unfold Pipeline.gsWhere
  simp only [List.mem_filterMap]
  constructor
  · rintro ⟨⟨gr, i⟩, hm, hx⟩
    have := List.mem_zipIdx hm
    simp only at hx
    split at hx
    · rename_i hf
      simp only [Option.some.injEq] at hx; subst hx
      simp only [Nat.zero_add, Nat.sub_zero] at this
      exact ⟨gr, by rw [List.getElem?_eq_some_iff]; exact ⟨this.2.1, this.2.2.symm⟩, hf⟩
    · simp at hx
  · rintro ⟨gr, hg, hf⟩
    refine ⟨(gr, g), ?_, by simp [hf]⟩
    obtain ⟨hlt, heq⟩ := List.getElem?_eq_some_iff.mp hg
    rw [List.mem_zipIdx_iff_getElem?]
    simpa using hg

/-- if exactly `h` satisfies `f`, every goroutine satisfying `f` is `h` -/
theorem gsWhere_singleton {p : Pipeline} {f : Goroutine → Bool} {h g : Gi} {gr : Goroutine}
    (hs : p.gsWhere f = [h]) (hg : p.gs[g]? = some gr) (hf : f gr = true) : g = h := by
  have : g ∈ p.gsWhere f := mem_gsWhere.mpr ⟨gr, hg, hf⟩
  rw [hs] at this
  simpa using this

theorem gsWhere_nil {p : Pipeline} {f : Goroutine → Bool} {g : Gi} {gr : Goroutine}
    (hs : p.gsWhere f = []) (hg : p.gs[g]? = some gr) : f gr = false := by
  cases hf : f gr with
  | false => rfl
  | true =>
    have : g ∈ p.gsWhere f := mem_gsWhere.mpr ⟨gr, hg, hf⟩
    rw [hs] at this
    simp at this

/-! ### edges and node classification -/

theorem mem_edges_sel {alts : List Alt} {l : Lab} {n : Pc} :
    (l, n) ∈ (Node.sel alts).edges ↔ ∃ a ∈ alts, (l, n) ∈ a.edges := by
  simp [Node.edges, List.mem_flatMap]

theorem closes_of_edge {nd : Node} {c : Ch} {n : Pc} (h : (Lab.close c, n) ∈ nd.edges) : nd.closes c = true := by
  cases nd <;> simp [Node.edges, Node.closes] at h ⊢
  case sel alts =>
    obtain ⟨a, _, ha⟩ := h
    cases a <;> simp [Alt.edges] at ha
  case close c' n' => exact h.1.symm

theorem close_node_of_edge {nd : Node} {c : Ch} {n : Pc} (h : (Lab.close c, n) ∈ nd.edges) : nd = .close c n := by
  cases nd <;> simp [Node.edges] at h ⊢
  case sel alts =>
    obtain ⟨a, _, ha⟩ := h
    cases a <;> simp [Alt.edges] at ha
  case close c' n' => exact ⟨h.1.symm, h.2.symm⟩

theorem sendsOn_of_edge {nd : Node} {c : Ch} {n : Pc} (h : (Lab.send c, n) ∈ nd.edges) : nd.sendsOn c = true := by
  cases nd <;> simp [Node.edges, Node.sendsOn] at h ⊢
  case sel alts =>
    obtain ⟨a, hm, ha⟩ := h
    refine ⟨a, hm, ?_⟩
    cases a <;> simp [Alt.edges, Alt.sendsOn] at ha ⊢
    exact ha.1.symm

theorem recvsOn_of_edge {nd : Node} {c : Ch} {n : Pc} (h : (Lab.recvOk c, n) ∈ nd.edges) : nd.recvsOn c = true := by
  cases nd <;> simp [Node.edges, Node.recvsOn] at h ⊢
  case sel alts =>
    obtain ⟨a, hm, ha⟩ := h
    refine ⟨a, hm, ?_⟩
    cases a <;> simp [Alt.edges, Alt.recvsOn] at ha ⊢
    exact ha.1.symm

theorem isDone_of_edge {nd : Node} {w : Nat} {n : Pc} (h : (Lab.wgDone w, n) ∈ nd.edges) : nd.isDone w = true := by
  cases nd <;> simp [Node.edges, Node.isDone] at h ⊢
  case sel alts =>
    obtain ⟨a, _, ha⟩ := h
    cases a <;> simp [Alt.edges] at ha
  case wgDone w' n' => exact h.1.symm

theorem isWait_of_edge {nd : Node} {w : Nat} {n : Pc} (h : (Lab.wgWait w, n) ∈ nd.edges) : nd.isWait w = true := by
  cases nd <;> simp [Node.edges, Node.isWait] at h ⊢
  case sel alts =>
    obtain ⟨a, _, ha⟩ := h
    cases a <;> simp [Alt.edges] at ha
  case wgWait w' n' => exact h.1.symm

theorem mem_succs_of_edge {nd : Node} {l : Lab} {n : Pc} (h : (l, n) ∈ nd.edges) : n ∈ nd.succs := by
  simp only [Node.succs, List.mem_map]
  exact ⟨(l, n), h, rfl⟩

theorem hasOps_of_node {gr : Goroutine} {pc : Pc} {nd : Node} {c : Ch}
    (hn : gr.nodes[pc]? = some nd) (h : nd.opsOn c = true) : gr.hasOps c = true := by
  simp only [Goroutine.hasOps, List.any_eq_true]
  exact ⟨nd, List.mem_of_getElem? hn, h⟩

theorem hasClose_of_node {gr : Goroutine} {pc : Pc} {nd : Node} {c : Ch}
    (hn : gr.nodes[pc]? = some nd) (h : nd.closes c = true) : gr.hasClose c = true := by
  simp only [Goroutine.hasClose, List.any_eq_true]
  exact ⟨nd, List.mem_of_getElem? hn, h⟩

theorem hasSend_of_node {gr : Goroutine} {pc : Pc} {nd : Node} {c : Ch}
    (hn : gr.nodes[pc]? = some nd) (h : nd.sendsOn c = true) : gr.hasSend c = true := by
  simp only [Goroutine.hasSend, List.any_eq_true]
  exact ⟨nd, List.mem_of_getElem? hn, h⟩

theorem hasRecv_of_node {gr : Goroutine} {pc : Pc} {nd : Node} {c : Ch}
    (hn : gr.nodes[pc]? = some nd) (h : nd.recvsOn c = true) : gr.hasRecv c = true := by
  simp only [Goroutine.hasRecv, List.any_eq_true]
  exact ⟨nd, List.mem_of_getElem? hn, h⟩

/-! ### checks over `zipIdx` -/

theorem zipIdx_all {α : Type} {l : List α} {f : α × Nat → Bool} (h : l.zipIdx.all f = true)
    {i : Nat} {x : α} (hx : l[i]? = some x) : f (x, i) = true := by
  rw [List.all_eq_true] at h
  apply h
  rw [List.mem_zipIdx_iff_getElem?]
  simpa using hx

theorem all_nodes {l : List Node} {f : Node → Bool} (h : l.all f = true) {i : Nat} {x : Node}
    (hx : l[i]? = some x) : f x = true := by
  rw [List.all_eq_true] at h
  exact h x (List.mem_of_getElem? hx)

/-- labeling closed backwards along edges: a marked successor marks the node -/
theorem backClosed_edge {nodes : List Node} {seed : Node → Bool} {m : List Bool}
    (h : backClosedOk nodes seed m = true) {i : Nat} {nd : Node} (hn : nodes[i]? = some nd)
    {l : Lab} {j : Pc} (he : (l, j) ∈ nd.edges) (hj : mark m j = true) : mark m i = true := by
  have := zipIdx_all h hn
  simp only [Bool.and_eq_true, List.all_eq_true, Bool.or_eq_true, Bool.not_eq_true'] at this
  rcases this.2 j (mem_succs_of_edge he) with h1 | h1
  · rw [h1] at hj; cases hj
  · exact h1

theorem backClosed_seed {nodes : List Node} {seed : Node → Bool} {m : List Bool}
    (h : backClosedOk nodes seed m = true) {i : Nat} {nd : Node} (hn : nodes[i]? = some nd)
    (hs : seed nd = true) : mark m i = true := by
  have := zipIdx_all h hn
  simp only [Bool.and_eq_true, Bool.or_eq_true, Bool.not_eq_true'] at this
  rcases this.1 with h1 | h1
  · rw [hs] at h1; cases h1
  · exact h1

end Dos.Pipe

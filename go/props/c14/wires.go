package c14

import (
	"context"
	"crypto/sha256"
	"errors"
	"fmt"
	"math/big"
	"reflect"

	"github.com/DOSNetwork/core/dosnode"
	"github.com/DOSNetwork/core/onchain"
	"github.com/DOSNetwork/core/p2p"
	"github.com/DOSNetwork/core/share"
	dkg "github.com/DOSNetwork/core/share/dkg/pedersen"
	vss "github.com/DOSNetwork/core/share/vss/pedersen"
	"github.com/DOSNetwork/core/sign/tbls"
	"github.com/DOSNetwork/core/suites"
	"github.com/DOSNetwork/core/utils"

	"github.com/dedis/kyber"

	"verifharness/internal/doubles"
)

// wiring of the real functions for every (pipeline, functions under test) the generator uses

func rv(x interface{}) reflect.Value { return reflect.ValueOf(x) }

// fan-in helpers: two unbuffered inputs as in the regenerated helper pipelines
func fanin(fn string, mk func(ctx context.Context) (in0, in1, out interface{}), val interface{}) {
	faninOut(fn, fn+".out", mk, val)
}

func faninOut(fn, outName string, mk func(ctx context.Context) (in0, in1, out interface{}), val interface{}) {
	wires["helper."+fn+"|"+fn] = func(s *scen, ctx context.Context, cancel context.CancelFunc) (*instance, error) {
		in0, in1, out := mk(ctx)
		return &instance{
			chans:  map[string]reflect.Value{"env.in#0": rv(in0), "env.in#1": rv(in1), outName + "#0": rv(out)},
			value:  func(string, int) reflect.Value { return rv(val) },
			cancel: cancel,
			watch:  []string{fn},
		}, nil
	}
}

func init() {
	e := errors.New("stage error")
	fanin("dosnode.mergeErrors", func(ctx context.Context) (interface{}, interface{}, interface{}) {
		a, b := make(chan error), make(chan error)
		return a, b, dosnode.VerifMergeErrors(ctx, a, b)
	}, e)
	faninOut("dosnode.fanIn", "dosnode.fanIn.multiplexedStream", func(ctx context.Context) (interface{}, interface{}, interface{}) {
		a, b := make(chan *vss.Signature), make(chan *vss.Signature)
		return a, b, dosnode.VerifFanIn(ctx, a, b)
	}, &vss.Signature{})
	fanin("utils.MergeErrors", func(ctx context.Context) (interface{}, interface{}, interface{}) {
		a, b := make(chan error), make(chan error)
		return a, b, utils.MergeErrors(ctx, a, b)
	}, e)
	fanin("onchain.merge", func(ctx context.Context) (interface{}, interface{}, interface{}) {
		a, b := make(chan interface{}), make(chan interface{})
		return a, b, onchain.VerifPipesMerge(ctx, a, b)
	}, interface{}(1))
	fanin("onchain.mergeError", func(ctx context.Context) (interface{}, interface{}, interface{}) {
		a, b := make(chan error), make(chan error)
		return a, b, onchain.VerifPipesMergeError(ctx, a, b)
	}, e)
	fanin("p2p.merge", func(ctx context.Context) (interface{}, interface{}, interface{}) {
		a, b := make(chan p2p.P2PMessage), make(chan p2p.P2PMessage)
		return a, b, p2p.VerifPipesMerge(ctx, a, b)
	}, p2p.P2PMessage{})
	fanin("dkg.mergeErrors", func(ctx context.Context) (interface{}, interface{}, interface{}) {
		a, b := make(chan error), make(chan error)
		return a, b, dkg.VerifPipesMergeErrors(ctx, "session", a, b)
	}, e)

	// dispatchSign together with the real queryLoop (registration, buffered shares, replies)
	wires["query.sys|dosnode.dispatchSign,dosnode.queryLoop"] = wireDispatch

	// recoverSign alone: the share feeder sends shares without a signature (the error path)
	wires["query.sys|dosnode.recoverSign"] = func(s *scen, ctx context.Context, cancel context.CancelFunc) (*instance, error) {
		signc := make(chan *vss.Signature) // dispatchSign: make(chan *vss.Signature)
		inst := &instance{chans: map[string]reflect.Value{"dosnode.dispatchSign.out#0": rv(signc)}, cancel: cancel, watch: []string{"dosnode.recoverSign"}}
		inst.value = func(string, int) reflect.Value { return rv(&vss.Signature{RequestId: []byte{1}}) }
		var pub *share.PubPoly
		thr := 2
		if i, ok := s.pick["if len(signShares) >= nbThreshold"]; ok && i == 0 {
			// the success path: VALID shares of a 1-of-3 sharing, so that the first share through completes
			// the threshold (the model's branch is stateless: it does not count shares), the stage reports
			// once and goes on to drain the late shares (/repo 3a1c0bc)
			suite := suites.MustFind("bn256")
			d := sha256.Sum256([]byte("c14-recover-coeff"))
			pri := share.CoefficientsToPriPoly(suite.G2(), []kyber.Scalar{suite.G2().Scalar().SetBytes(d[:])})
			pub = pri.Commit(suite.G2().Point().Base())
			shares := pri.Shares(3)
			content := append([]byte("c14 content "), make([]byte, 20)...) // result ++ 20-byte submitter address
			thr = 1
			inst.value = func(_ string, k int) reflect.Value {
				sig, err := tbls.Sign(suite, shares[k%3], content)
				if err != nil {
					panic(err)
				}
				return rv(&vss.Signature{Index: 1, RequestId: []byte{1}, Content: content, Signature: sig})
			}
		}
		inst.start = func() {
			out, errc := dosnode.VerifRecoverSign(ctx, signc, suites.MustFind("bn256"), pub, thr, 3, doubles.NewLogger())
			inst.chans["dosnode.recoverSign.out#0"] = rv(out)
			inst.chans["dosnode.recoverSign.errc#0"] = rv(errc)
		}
		startNow(s, inst)
		return inst, nil
	}
	// genQueryResult alone: the fetch fails (nothing listens on the port)
	wires["query.url|dosnode.genQueryResult"] = func(s *scen, ctx context.Context, cancel context.CancelFunc) (*instance, error) {
		submitterc := make(chan []byte, 1)
		inst := &instance{chans: map[string]reflect.Value{"dosnode.choseSubmitter.outs#0": rv(submitterc)}, cancel: cancel, watch: []string{"dosnode.genQueryResult"}}
		inst.value = func(string, int) reflect.Value { return rv([]byte("submitter")) }
		inst.start = func() {
			out, errc := dosnode.VerifGenQueryResult(ctx, submitterc, "http://127.0.0.1:1/nothing", "", doubles.NewLogger())
			inst.chans["dosnode.genQueryResult.out#0"] = rv(out)
			inst.chans["dosnode.genQueryResult.errc#0"] = rv(errc)
		}
		startNow(s, inst)
		return inst, nil
	}
}

func init() {
	// genPub alone; the node's id is not among the group ids (the stage fails at its first step)
	wires["grouping|dkg.genPub"] = func(s *scen, ctx context.Context, cancel context.CancelFunc) (*instance, error) {
		inst := &instance{chans: map[string]reflect.Value{}, cancel: cancel, watch: []string{"dkg.genPub"}}
		inst.value = func(string, int) reflect.Value { return rv(nil) }
		ids := [][]byte{[]byte("a"), []byte("b"), []byte("c")}
		id := []byte("zz")
		if i, ok := s.pick["if index == -1"]; ok && i == 1 {
			id = ids[0]
		}
		inst.start = func() {
			out, secrc, errc := dkg.VerifPipesGenPub(ctx, suites.MustFind("bn256"), id, ids, "5e55")
			inst.chans["dkg.genPub.out#0"] = rv(out)
			inst.chans["dkg.genPub.secrc#0"] = rv(secrc)
			inst.chans["dkg.genPub.errc#0"] = rv(errc)
		}
		startNow(s, inst)
		return inst, nil
	}
	// askMembers (the request for the peers' public keys) with the real pdkg.Loop
	wires["grouping|dkg.askMembers#0,dkg.Loop"] = func(s *scen, ctx context.Context, cancel context.CancelFunc) (*instance, error) {
		net := doubles.NewP2P([]byte("a"), 400)
		d := dkg.NewPDKG(net, suites.MustFind("bn256"))
		go d.Loop()
		inst := &instance{chans: map[string]reflect.Value{"p2p.SubscribeMsg.dkg.Loop#0": rv(net.MsgCh)}, cancel: cancel, watch: []string{"dkg.askMembers"}}
		inst.value = func(string, int) reflect.Value {
			return rv(doubles.Wrap([]byte("b"), &dkg.PublicKey{SessionId: "5e55", Index: 1}))
		}
		inst.cleanup = func() { close(net.MsgCh) }
		inst.start = func() {
			out := dkg.VerifPipesAskMembers(ctx, dkg.VerifPipesBufToNode(d), 2, 0, "5e55")
			inst.chans["dkg.askMembers.out#0"] = rv(out)
		}
		startNow(s, inst)
		return inst, nil
	}
}

func init() {
	// exchangePub alone: the node's own key (fan-out) and the batches of peer keys pdkg.Loop hands over.
	// The batch is chosen by the picks: a value that is not a PublicKey (cast fails), a key for an index
	// nobody in the group has (foreign), a complete set (2 members), an incomplete one (3 members).
	wires["grouping|dkg.exchangePub"] = func(s *scen, ctx context.Context, cancel context.CancelFunc) (*instance, error) {
		ids := [][]byte{[]byte("member-a-00000000000"), []byte("member-b-00000000000")}
		if i, ok := s.pick["if len(partPubs) == len(groupIds)"]; ok && i == 1 {
			ids = append(ids, []byte("member-c-00000000000"))
		}
		selfc := make(chan interface{})
		peerc := make(chan []interface{}, 1) // askMembers: make(chan []interface{}, 1)
		inst := &instance{chans: map[string]reflect.Value{"dkg.fanOut.ch#1": rv(selfc), "dkg.askMembers.out#0": rv(peerc)},
			cancel: cancel, watch: []string{"dkg.exchangePub"}}
		key := func(i int, sender []byte) *dkg.PublicKey {
			return &dkg.PublicKey{SessionId: "5e55", Index: uint32(i), Publickey: &vss.PublicKey{Binary: []byte{1}, SenderId: sender}}
		}
		inst.value = func(ch string, _ int) reflect.Value {
			if ch == "dkg.fanOut.ch#1" {
				return rv(key(0, ids[0]))
			}
			batch := []interface{}{key(1, ids[1])}
			if i, ok := s.pick["if !ok"]; ok && i == 0 {
				batch = []interface{}{"not a public key"}
			} else if i, ok := s.pick["if pubkey == nil"]; ok && i == 0 {
				batch = []interface{}{key(9, ids[1])}
			}
			return rv(batch)
		}
		inst.start = func() {
			out, errc := dkg.VerifPExchangePub(ctx, selfc, peerc, ids, "5e55")
			inst.chans["dkg.exchangePub.out#0"] = rv(out)
			inst.chans["dkg.exchangePub.errc#0"] = rv(errc)
		}
		startNow(s, inst)
		return inst, nil
	}
	// sendToMembers with its per-member senders; the peers acknowledge at once
	wires["grouping|dkg.sendToMembers#0,dkg.sendToMembers.go1#0"] = func(s *scen, ctx context.Context, cancel context.CancelFunc) (*instance, error) {
		ids := [][]byte{[]byte("member-a-00000000000"), []byte("member-b-00000000000"), []byte("member-c-00000000000")}
		msgc := make(chan interface{})
		inst := &instance{chans: map[string]reflect.Value{"dkg.fanOut.ch#0": rv(msgc)}, cancel: cancel, watch: []string{"dkg.sendToMembers"}}
		inst.value = func(string, int) reflect.Value {
			return rv(&dkg.PublicKey{SessionId: "5e55", Index: 0, Publickey: &vss.PublicKey{Binary: []byte{1}}})
		}
		inst.start = func() {
			errc := dkg.VerifPipesSendToMembers(ctx, msgc, doubles.NewP2P(ids[0], 1), ids, "5e55")
			inst.chans["dkg.sendToMembers.errc#0"] = rv(errc)
		}
		startNow(s, inst)
		return inst, nil
	}
}

func init() {
	logger := func() *doubles.Logger { return doubles.NewLogger() }
	ids := [][]byte{[]byte("node-a-0000000000000"), []byte("node-b-0000000000000"), []byte("node-c-0000000000000")}
	// choseSubmitter alone (two submitter channels of capacity 1, error channel)
	wires["query.sys|dosnode.choseSubmitter"] = func(s *scen, ctx context.Context, cancel context.CancelFunc) (*instance, error) {
		inst := &instance{chans: map[string]reflect.Value{}, cancel: cancel, watch: []string{"dosnode.choseSubmitter"}}
		inst.value = func(string, int) reflect.Value { return rv(nil) }
		inst.start = func() {
			outs, errc := dosnode.VerifChoseSubmitter(ctx, doubles.NewP2P(ids[0], 1), &doubles.Chain{BlockTime: 1}, big.NewInt(7), ids, 2, logger())
			inst.chans["dosnode.choseSubmitter.outs#0"] = rv(outs[0])
			inst.chans["dosnode.choseSubmitter.outs#1"] = rv(outs[1])
			inst.chans["dosnode.choseSubmitter.errc#0"] = rv(errc)
		}
		startNow(s, inst)
		return inst, nil
	}
	// genSysRandom alone
	wires["query.sys|dosnode.genSysRandom"] = func(s *scen, ctx context.Context, cancel context.CancelFunc) (*instance, error) {
		submitterc := make(chan []byte, 1)
		inst := &instance{chans: map[string]reflect.Value{"dosnode.choseSubmitter.outs#0": rv(submitterc)}, cancel: cancel, watch: []string{"dosnode.genSysRandom"}}
		inst.value = func(string, int) reflect.Value { return rv(ids[1]) }
		inst.start = func() {
			out := dosnode.VerifGenSysRandom(ctx, submitterc, big.NewInt(7).Bytes(), logger())
			inst.chans["dosnode.genSysRandom.out#0"] = rv(out)
		}
		startNow(s, inst)
		return inst, nil
	}
	// reportQueryResult alone (the chain double accepts, or fails when the error branch is picked)
	wires["query.sys|dosnode.reportQueryResult"] = func(s *scen, ctx context.Context, cancel context.CancelFunc) (*instance, error) {
		signc := make(chan *vss.Signature)
		chain := &doubles.Chain{BlockTime: 1}
		if i, ok := s.pick["if err != nil"]; ok && i == 0 {
			chain.Err = errors.New("chain call failed")
		}
		inst := &instance{chans: map[string]reflect.Value{"dosnode.recoverSign.out#0": rv(signc)}, cancel: cancel, watch: []string{"dosnode.reportQueryResult"}}
		inst.value = func(string, int) reflect.Value {
			return rv(&vss.Signature{RequestId: []byte{1}, Content: []byte("c"), Signature: []byte("s")})
		}
		inst.start = func() {
			errc := dosnode.VerifReportQueryResult(ctx, chain, uint32(onchain.TrafficSystemRandom), signc)
			inst.chans["dosnode.reportQueryResult.errc#0"] = rv(errc)
		}
		startNow(s, inst)
		return inst, nil
	}
}

// startNow starts the code under test at once unless the script contains `go`
func startNow(s *scen, inst *instance) {
	for _, op := range s.ctl {
		if op == "go" {
			return
		}
	}
	inst.start()
	inst.start = nil
}

func wireDispatch(s *scen, ctx context.Context, cancel context.CancelFunc) (*instance, error) {
	self, other := []byte("self-node-id-0000000"), []byte("other-node-id-000000")
	rid := big.NewInt(77).Bytes()
	net := doubles.NewP2P(self, 50) // SubscribeMsg(50, ...) in queryLoop
	node := dosnode.VerifNewNode(self, net, &doubles.Chain{BlockTime: 1}, nil, 21, doubles.NewLogger())
	go node.VerifQueryLoop()
	submitterc := make(chan []byte, 1) // choseSubmitter: make(chan []byte, 1)
	signc := make(chan *vss.Signature)
	submitter := other
	if i, ok := s.pick["if r != 0"]; ok && i == 1 {
		submitter = self
	}
	inst := &instance{
		chans: map[string]reflect.Value{
			"dosnode.choseSubmitter.outs#1":        rv(submitterc),
			"dosnode.genSign.out#0":                rv(signc),
			"p2p.SubscribeMsg.dosnode.queryLoop#0": rv(net.MsgCh),
		},
		cancel:  cancel,
		cleanup: node.VerifCancel,
		watch:   []string{"dosnode.dispatchSign"},
	}
	nilShare := false
	if i, ok := s.pick["if !ok || sign == nil"]; ok && i == 0 {
		nilShare = true
	}
	inst.value = func(ch string, i int) reflect.Value {
		switch ch {
		case "dosnode.choseSubmitter.outs#1":
			return rv(submitter)
		case "dosnode.genSign.out#0":
			if nilShare {
				return rv((*vss.Signature)(nil))
			}
			return rv(&vss.Signature{RequestId: rid, Content: []byte("content"), Signature: []byte("own share")})
		}
		return rv(doubles.Wrap(other, &vss.Signature{RequestId: rid, Content: []byte("content"), Signature: []byte(fmt.Sprintf("peer share %d", i))}))
	}
	started := false
	inst.start = func() {
		if started {
			return
		}
		started = true
		out := node.VerifDispatchSign(ctx, submitterc, signc, rid, 2)
		inst.chans["dosnode.dispatchSign.out#0"] = rv(out)
	}
	// without `go` in the script the stage runs from the beginning
	hasGo := false
	for _, op := range s.ctl {
		if op == "go" {
			hasGo = true
		}
	}
	if !hasGo {
		inst.start()
		inst.start = nil
	}
	return inst, nil
}

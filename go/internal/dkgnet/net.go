package dkgnet

import (
	"context"
	"errors"
	"net"
	"os"
	"sync"
	"time"

	"github.com/golang/protobuf/proto"
	"github.com/golang/protobuf/ptypes"

	"github.com/DOSNetwork/core/p2p"
	dkg "github.com/DOSNetwork/core/share/dkg/pedersen"
)

// Net is an in-memory network double for pdkg: every node satisfies p2p.P2PInterface
// (through the embeddable p2p.VerifBase), Request hands the message to the addressee's
// subscription channel and waits for the addressee's Reply, as the real transport does.
// A Policy decides, per attempt, whether a Request is dropped, delayed, delivered, or
// delivered with its acknowledgement lost (the sender then retries: duplicate delivery).
type Net struct {
	mu      sync.Mutex
	nodes   map[string]*Node
	Policy  func(from, to int, kind string, attempt int) Action
	AckWait time.Duration // how long Request waits for the Reply (real transport: 5 s)
	Log     []Delivery    // every delivery, in order
	idx     map[string]int
}

type Action struct {
	Drop    bool          // the attempt fails, nothing is delivered
	Delay   time.Duration // wait before delivering
	LoseAck bool          // deliver, but report failure to the sender
}

type Delivery struct {
	From, To int
	Kind     string
	Attempt  int
}

type Node struct {
	p2p.VerifBase
	net   *Net
	id    []byte
	index int
	sub   chan p2p.P2PMessage
	mu    sync.Mutex
	nonce uint64
	wait  map[uint64]chan struct{}
	tries map[string]int
}

func NewNet(ids [][]byte) *Net {
	n := &Net{nodes: map[string]*Node{}, idx: map[string]int{}, AckWait: 5 * time.Second}
	for i, id := range ids {
		n.idx[string(id)] = i
		n.nodes[string(id)] = &Node{net: n, id: id, index: i, wait: map[uint64]chan struct{}{}, tries: map[string]int{},
			sub: make(chan p2p.P2PMessage, 400)}
	}
	return n
}

func (n *Net) Node(i int, ids [][]byte) *Node { return n.nodes[string(ids[i])] }

func kindOf(m proto.Message) string {
	switch m.(type) {
	case *dkg.PublicKey:
		return "pk"
	case *dkg.Deal:
		return "deal"
	case *dkg.Responses:
		return "resp"
	}
	return "other"
}

func (nd *Node) GetID() []byte { return nd.id }
func (nd *Node) GetIP() net.IP { return net.IPv4(127, 0, 0, 1) }

func (nd *Node) SubscribeMsg(chanBuffer int, messages ...interface{}) (chan p2p.P2PMessage, error) {
	return nd.sub, nil
}
func (nd *Node) UnSubscribeMsg(messages ...interface{}) {}

// Request: one delivery attempt.
func (nd *Node) Request(ctx context.Context, id []byte, m proto.Message) (p2p.P2PMessage, error) {
	to, ok := nd.net.nodes[string(id)]
	if !ok {
		return p2p.P2PMessage{}, errors.New("double: unknown peer")
	}
	kind := kindOf(m)
	nd.mu.Lock()
	key := kind + ">" + string(id)
	attempt := nd.tries[key]
	nd.tries[key]++
	nd.mu.Unlock()
	act := Action{}
	if nd.net.Policy != nil {
		act = nd.net.Policy(nd.index, to.index, kind, attempt)
	}
	if act.Drop {
		return p2p.P2PMessage{}, errors.New("double: transient send failure")
	}
	if act.Delay > 0 {
		select {
		case <-time.After(act.Delay):
		case <-ctx.Done():
			return p2p.P2PMessage{}, ctx.Err()
		}
	}
	to.mu.Lock()
	to.nonce++
	nonce := to.nonce
	ack := make(chan struct{})
	to.wait[nonce] = ack
	to.mu.Unlock()
	msg := p2p.P2PMessage{Msg: ptypes.DynamicAny{Message: proto.Clone(m)}, Sender: nd.id, RequestNonce: nonce}
	nd.net.mu.Lock()
	nd.net.Log = append(nd.net.Log, Delivery{nd.index, to.index, kind, attempt})
	nd.net.mu.Unlock()
	select {
	case to.sub <- msg:
	case <-ctx.Done():
		return p2p.P2PMessage{}, ctx.Err()
	}
	if act.LoseAck {
		return p2p.P2PMessage{}, errors.New("double: acknowledgement lost")
	}
	select {
	case <-ack:
		return msg, nil
	case <-time.After(nd.net.AckWait):
		return p2p.P2PMessage{}, errors.New("double: no reply from peer")
	case <-ctx.Done():
		return p2p.P2PMessage{}, ctx.Err()
	}
}

// Reply acknowledges the request with that nonce (called by the addressee's Loop).
func (nd *Node) Reply(ctx context.Context, id []byte, nonce uint64, m proto.Message) error {
	nd.mu.Lock()
	ch, ok := nd.wait[nonce]
	delete(nd.wait, nonce)
	nd.mu.Unlock()
	if ok {
		close(ch)
	}
	return nil
}

var quietOnce sync.Once

// Quiet sends the pipeline's fmt.Println chatter to /dev/null (the harness owns stdout).
func Quiet() {
	quietOnce.Do(func() {
		if f, err := os.OpenFile(os.DevNull, os.O_WRONLY, 0); err == nil {
			os.Stdout = f
		}
	})
}

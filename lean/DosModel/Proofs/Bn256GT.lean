/-
C10 round 5 — GT as a GROUP: the unitary elements of gfP12 (a · conj a = 1, "norm one" relative to gfP6).
point.go's pointGT implements Add = gfP12.Mul, Neg = gfP12.Conjugate, Sub = Mul by the conjugate, Mul = gfP12.Exp.
Conjugation is the inverse ONLY on unitary elements; a pointGT can hold any gfP12 value (a Miller value before
Finalize, a decoded byte string: pointGT.UnmarshalBinary has no membership test). This file proves
* unitarity is preserved by Mul, Conjugate, Exp, the Frobenius maps (given `FrobConsts.Good`), contains 1;
* the EASY PART of the final exponentiation (conj f · f⁻¹) outputs a unitary element whenever f · Invert f = 1
  (over F_p: f ≠ 0), hence the whole final exponentiation does;
* the unitary elements form a commutative group whose operations are the kyber-level operations;
* the transport to the implemented Montgomery representation (reduced values, decoding).
Helper lemmas for Props/C10GT.lean.
-/
import Mathlib.Algebra.Group.Subgroup.Basic
import Mathlib.Algebra.Group.Basic
import DosModel.Proofs.Bn256FinalExp
import DosModel.Proofs.Bn256TowerFieldConcrete
import DosModel.Proofs.Bn256Kyber

namespace Dos.Bn256
namespace Fp12

section ring
variable {R : Type} [CommRing R]

/-- a · conj a = 1: the elements on which pointGT.Neg (conjugation) is the group inverse -/
def Unitary (a : Fp12 R) : Prop := a * Fp12.conjugate a = 1

theorem conjugate_conjugate (a : Fp12 R) : Fp12.conjugate (Fp12.conjugate a) = a := by
  refine Fp12.ext' ?_ ?_ <;> simp only [Fp12.conjugate, Fp6.neg_eq, neg_neg]

theorem conjugate_mul_eq (a b : Fp12 R) : Fp12.conjugate (a * b) = Fp12.conjugate a * Fp12.conjugate b :=
  conjugate_mul a b

theorem conjugate_one_ring : Fp12.conjugate (1 : Fp12 R) = 1 := by
  rw [← one_eq]; refine Fp12.ext' ?_ ?_ <;> simp [Fp12.conjugate, Fp12.one, Fp6.neg_eq, Fp6.zero_eq]

theorem conjugate_pow (a : Fp12 R) (n : Nat) : Fp12.conjugate (a ^ n) = Fp12.conjugate a ^ n := by
  induction n with
  | zero => simp only [pow_zero, conjugate_one_ring]
  | succ n ih => rw [pow_succ, pow_succ, conjugate_mul_eq, ih]

theorem unitary_one : Unitary (1 : Fp12 R) := by
  unfold Unitary; rw [conjugate_one_ring, mul_one]

theorem unitary_mul {a b : Fp12 R} (ha : Unitary a) (hb : Unitary b) : Unitary (a * b) := by
  unfold Unitary at *
  rw [conjugate_mul_eq]
  calc a * b * (Fp12.conjugate a * Fp12.conjugate b) = (a * Fp12.conjugate a) * (b * Fp12.conjugate b) := by ring
    _ = 1 := by rw [ha, hb, one_mul]

theorem unitary_conj {a : Fp12 R} (ha : Unitary a) : Unitary (Fp12.conjugate a) := by
  unfold Unitary at *
  rw [conjugate_conjugate, mul_comm]; exact ha

theorem unitary_pow {a : Fp12 R} (ha : Unitary a) (n : Nat) : Unitary (a ^ n) := by
  unfold Unitary at *
  rw [conjugate_pow, ← mul_pow, ha, one_pow]

theorem unitary_exp {a : Fp12 R} (ha : Unitary a) (n : Nat) : Unitary (Fp12.exp a n) := by
  rw [exp_eq_pow]; exact unitary_pow ha n

theorem unitary_conj_mul {a : Fp12 R} (ha : Unitary a) : Fp12.conjugate a * a = 1 := by
  rw [mul_comm]; exact ha

/-- a unitary element is a unit, and an element with a · conj a = 1 and order dividing n has the reduced power -/
theorem unitary_pow_mod {a : Fp12 R} (n : Nat) (hn : a ^ n = 1) (s : Nat) : a ^ s = a ^ (s % n) := by
  conv_lhs => rw [← Nat.div_add_mod s n, pow_add, pow_mul, hn, one_pow, one_mul]

/-! ### the group of unitary elements -/

/-- GT as the library can soundly use it: the unitary elements of gfP12 -/
def UnitaryGT (R : Type) [CommRing R] : Type := { a : Fp12 R // Unitary a }

instance : CommGroup (UnitaryGT R) where
  mul a b := ⟨a.1 * b.1, unitary_mul a.2 b.2⟩
  one := ⟨1, unitary_one⟩
  inv a := ⟨Fp12.conjugate a.1, unitary_conj a.2⟩
  mul_assoc a b c := Subtype.ext (mul_assoc a.1 b.1 c.1)
  one_mul a := Subtype.ext (one_mul a.1)
  mul_one a := Subtype.ext (mul_one a.1)
  mul_comm a b := Subtype.ext (mul_comm a.1 b.1)
  inv_mul_cancel a := Subtype.ext (unitary_conj_mul a.2)

theorem UnitaryGT.val_mul (a b : UnitaryGT R) : (a * b).1 = a.1 * b.1 := rfl
theorem UnitaryGT.val_one : (1 : UnitaryGT R).1 = 1 := rfl
theorem UnitaryGT.val_inv (a : UnitaryGT R) : (a⁻¹).1 = Fp12.conjugate a.1 := rfl
theorem UnitaryGT.val_div (a b : UnitaryGT R) : (a / b).1 = a.1 * Fp12.conjugate b.1 := by
  rw [div_eq_mul_inv]; rfl

/-- the inclusion into the multiplicative monoid of gfP12 -/
def UnitaryGT.valHom : UnitaryGT R →* Fp12 R where
  toFun a := a.1
  map_one' := rfl
  map_mul' _ _ := rfl

theorem UnitaryGT.val_pow (a : UnitaryGT R) (n : Nat) : (a ^ n).1 = a.1 ^ n :=
  map_pow UnitaryGT.valHom a n

theorem UnitaryGT.pow_eq_one_iff (a : UnitaryGT R) (n : Nat) : a ^ n = 1 ↔ a.1 ^ n = 1 := by
  constructor
  · intro h; rw [← UnitaryGT.val_pow, h]; rfl
  · intro h; apply Subtype.ext; rw [UnitaryGT.val_pow, h]; rfl

/-- the integer power through the scalar reduced as mod.Int does: for an element of order dividing n,
a^(k mod n) = a^k for every INTEGER k -/
theorem UnitaryGT.modIntV_pow (a : UnitaryGT R) (n : Nat) (hn : 0 < n) (h : a ^ n = 1) (k : Int) :
    a ^ (modIntV k n) = a ^ k := by
  have e : k = (n : Int) * (k / n) + k % n := (Int.mul_ediv_add_emod k n).symm
  rw [← zpow_natCast, modIntV_cast k n hn]
  conv_rhs => rw [e, zpow_add, zpow_mul, zpow_natCast, h, one_zpow, one_mul]

end ring

/-! ### the Frobenius maps and the final exponentiation keep / produce unitary elements -/
section field
variable {K : Type} [Field K]

theorem Fp6_frobeniusG_zero (cs : FrobConsts K) : Fp6.frobeniusG cs (0 : Fp6 K) = 0 := by
  rw [← Fp6.zero_eq]
  refine Fp6.ext' ?_ ?_ ?_ <;>
    simp only [Fp6.frobeniusG_coords, Fp6.zero, Fp2.zero_eq, Fp2.conjugate_zero] <;> ring

theorem Fp6_frobeniusG_neg (cs : FrobConsts K) (a : Fp6 K) : Fp6.frobeniusG cs (-a) = -Fp6.frobeniusG cs a := by
  have h := Fp6.frobeniusG_add cs (-a) a
  rw [neg_add_cancel, Fp6_frobeniusG_zero] at h
  exact eq_neg_of_add_eq_zero_left h.symm

theorem Fp6_frobeniusP2G_zero (cs : FrobConsts K) : Fp6.frobeniusP2G cs (0 : Fp6 K) = 0 := by
  rw [← Fp6.zero_eq]
  refine Fp6.ext' ?_ ?_ ?_ <;> simp only [Fp6.frobeniusP2G_coords, Fp6.zero, Fp2.zero_eq] <;> ring

theorem Fp6_frobeniusP2G_neg (cs : FrobConsts K) (a : Fp6 K) :
    Fp6.frobeniusP2G cs (-a) = -Fp6.frobeniusP2G cs a := by
  have h := Fp6.frobeniusP2G_add cs (-a) a
  rw [neg_add_cancel, Fp6_frobeniusP2G_zero] at h
  exact eq_neg_of_add_eq_zero_left h.symm

/-- the p-power Frobenius commutes with conjugation (the p⁶-power one) -/
theorem frobeniusG_conjugate (cs : FrobConsts K) (a : Fp12 K) :
    Fp12.frobeniusG cs (Fp12.conjugate a) = Fp12.conjugate (Fp12.frobeniusG cs a) := by
  refine Fp12.ext' ?_ ?_
  · simp only [frobeniusG_coords, Fp12.conjugate, Fp6.neg_eq, Fp6_frobeniusG_neg]; ring
  · simp only [frobeniusG_coords, Fp12.conjugate]

theorem frobeniusP2G_conjugate (cs : FrobConsts K) (a : Fp12 K) :
    Fp12.frobeniusP2G cs (Fp12.conjugate a) = Fp12.conjugate (Fp12.frobeniusP2G cs a) := by
  refine Fp12.ext' ?_ ?_
  · simp only [frobeniusP2G_coords, Fp12.conjugate, Fp6.neg_eq, Fp6_frobeniusP2G_neg]; ring
  · simp only [frobeniusP2G_coords, Fp12.conjugate]

theorem unitary_frobeniusG (cs : FrobConsts K) (hg : cs.Good) {a : Fp12 K} (ha : Unitary a) :
    Unitary (Fp12.frobeniusG cs a) := by
  unfold Unitary at *
  rw [← frobeniusG_conjugate, ← frobeniusG_mul cs hg, ha, frobeniusG_one]

theorem unitary_frobeniusP2G (cs : FrobConsts K) (hg : cs.Good) {a : Fp12 K} (ha : Unitary a) :
    Unitary (Fp12.frobeniusP2G cs a) := by
  unfold Unitary at *
  rw [← frobeniusP2G_conjugate, ← frobeniusP2G_mul cs hg, ha, frobeniusP2G_one]

/-- **the easy part of the final exponentiation outputs a unitary element**: t = conj f · f⁻¹ (= f^(p⁶−1)) has
t · conj t = conj f · f⁻¹ · f · conj(f⁻¹) = conj(f · f⁻¹) = 1, as soon as Invert really inverted f -/
theorem unitary_easy_part (x : Fp12 K) (hx : x * Fp12.invert x = 1) :
    Unitary (Fp12.conjugate x * Fp12.invert x) := by
  unfold Unitary
  rw [conjugate_mul_eq, conjugate_conjugate]
  calc Fp12.conjugate x * Fp12.invert x * (x * Fp12.conjugate (Fp12.invert x))
      = Fp12.conjugate x * Fp12.conjugate (Fp12.invert x) * (x * Fp12.invert x) := by ring
    _ = 1 := by rw [hx, mul_one, ← conjugate_mul_eq, hx, conjugate_one_ring]

end field
end Fp12

open Fp12 in
/-- **the final exponentiation outputs a unitary element** for every input that Invert inverts (over F_p: every
non-zero input), given the six relations of the Frobenius constants -/
theorem finalExp_unitary {K : Type} [Field K] (cs : FrobConsts K) (hg : cs.Good) (u : Nat) (x : Fp12 K)
    (hx : x * Fp12.invert x = 1) : Fp12.Unitary (finalExponentiationG cs u x) := by
  have h0 := unitary_easy_part x hx
  simp only [finalExp_unfold]
  have h1 : Unitary (Fp12.conjugate x * Fp12.invert x *
      Fp12.frobeniusP2G cs (Fp12.conjugate x * Fp12.invert x)) := unitary_mul h0 (unitary_frobeniusP2G cs hg h0)
  generalize Fp12.conjugate x * Fp12.invert x * Fp12.frobeniusP2G cs (Fp12.conjugate x * Fp12.invert x) = t at h1 ⊢
  have F := fun {a : Fp12 K} (h : Unitary a) => unitary_frobeniusG cs hg h
  have F2 := fun {a : Fp12 K} (h : Unitary a) => unitary_frobeniusP2G cs hg h
  have E := fun {a : Fp12 K} (h : Unitary a) => unitary_exp h u
  have hfu := E h1
  have hfu2 := E hfu
  have hfu3 := E hfu2
  have y6 := unitary_conj (unitary_mul hfu3 (F hfu3))
  have y4 := unitary_conj (unitary_mul hfu (F hfu2))
  have y5 := unitary_conj hfu2
  have y3 := unitary_conj (F hfu)
  have y2 := F2 hfu2
  have y1 := unitary_conj h1
  have y0 := unitary_mul (unitary_mul (F h1) (F2 h1)) (F (F2 h1))
  have t0 := unitary_mul (unitary_mul (unitary_mul y6 y6) y4) y5
  have t1 := unitary_mul (unitary_mul y3 y5) t0
  have t0' := unitary_mul t0 y2
  have s := unitary_mul (unitary_mul t1 t1) t0'
  have t1' := unitary_mul s s
  exact unitary_mul (unitary_mul (unitary_mul t1' y1) (unitary_mul t1' y1)) (unitary_mul t1' y0)

/-- a non-unitary input value of the final exponentiation does exist: 0 ↦ 0 -/
theorem finalExp_zero_not_unitary : ¬ Fp12.Unitary (0 : Fp12 (ZMod p)) := by
  unfold Fp12.Unitary
  rw [zero_mul]
  exact zero_ne_one

/-! ### the implemented representation (reduced Montgomery values) -/

theorem conj_dec (x : F12) (hx : Red12 x) :
    Red12 (Fp12.conjugate x) ∧ dec12 (Fp12.conjugate x) = Fp12.conjugate (dec12 x) := by
  have ex : x = val12 (lift12R x hx) := rfl
  rw [ex, ← Fp12.map_conjugate valHom]
  refine ⟨red12_val _, ?_⟩
  rw [dec12_val, dec12_val]
  exact Fp12.map_conjugate decHom _

theorem exp_dec (x : F12) (hx : Red12 x) (k : Nat) :
    Red12 (Fp12.exp x k) ∧ dec12 (Fp12.exp x k) = dec12 x ^ k := by
  have ex : x = val12 (lift12R x hx) := rfl
  rw [ex, ← Fp12.map_exp valHom]
  refine ⟨red12_val _, ?_⟩
  rw [dec12_val, dec12_val, ← Fp12.exp_eq_pow]
  exact Fp12.map_exp decHom _ _

/-- unitarity can be tested on the Montgomery representation: x · conj x = 1 there iff the decoded value is unitary -/
theorem unitary_dec_iff (x : F12) (hx : Red12 x) :
    Fp12.mul x (Fp12.conjugate x) = Fp12.one ↔ Fp12.Unitary (dec12 x) := by
  obtain ⟨rc, dc⟩ := conj_dec x hx
  obtain ⟨rm, dm⟩ := mul_dec x _ hx rc
  unfold Fp12.Unitary
  rw [← dc, ← dm]
  constructor
  · intro h; rw [h]; exact one_dec.2
  · intro h; exact dec12_inj _ _ rm one_dec.1 (h.trans one_dec.2.symm)

theorem exp_one_dec_iff (x : F12) (hx : Red12 x) (k : Nat) :
    Fp12.exp x k = Fp12.one ↔ dec12 x ^ k = 1 := by
  obtain ⟨re, de⟩ := exp_dec x hx k
  rw [← de]
  constructor
  · intro h; rw [h]; exact one_dec.2
  · intro h; exact dec12_inj _ _ re one_dec.1 (h.trans one_dec.2.symm)

/-- zipping with the second list cut to the length of the first loses nothing -/
theorem zip_take_left {α β : Type} : ∀ (a : List α) (b : List β), List.zip a (b.take a.length) = List.zip a b
  | [], _ => by simp
  | _ :: _, [] => by simp
  | _ :: xs, _ :: ys => by simp [zip_take_left xs ys]

end Dos.Bn256

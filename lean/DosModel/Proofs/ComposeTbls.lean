/-
Composition helpers: the abstract threshold-BLS interface of `Model/Query.lean` (`Crypto`, used by the
C01 theorems) INSTANTIATED with the byte-level model `Model/Tbls.lean` of `sign/tbls` / `sign/bls`
(the subject of C02 / C03), and the three contracts `hC03`, `hrec`, `htot` that `Props/C01.lean`
takes as hypotheses, PROVED for that instance from the C02 / C03 property theorems.

Nothing here is specific to a group: `F` any field, `G` any `F`-module, `cd` any codec, `H` any
hash-to-point function, `f` the coefficients of the group's polynomial (`pubPoly`).
-/
import DosModel.Proofs.Query
import DosModel.Props.C02
import DosModel.Props.C03
import DosModel.Proofs.ComposePairing

set_option linter.unusedSectionVars false

namespace Dos.Compose
open Dos Dos.Share Dos.Tbls Dos.Query

variable {F : Type} [Field F] [DecidableEq F]
variable {G : Type} [AddCommGroup G] [Module F G] [DecidableEq G]

/-- how `recoverSign` sees the outcome of `tbls.Recover`: a signature, an `err != nil`, or a panic
inside its goroutine -/
def recOut : Tbls.Res → Query.RecOut
  | .ok s => .ok s
  | .errFew => .err
  | .errThreshold => .err
  | .errDecode => .err
  | .panic _ => .panic

/-- **the instance**: `recover c sigs = tbls.Recover(suite, pubPoly, c, sigs, t, n)` and
`verify c sig = (bls.Verify(suite, pubPoly.Commit(), c, sig) == nil)` as modelled in `Model/Tbls.lean`;
`pubPoly.Commit()` is the key of the shared secret `f(0)` (`f.headD 0`), `H c` the hashed message. -/
def tblsCrypto (cd : Codec G) (f : List F) (H : Bytes → G) (t n : Nat) : Crypto :=
  { recover := fun c sigs => recOut (Tbls.recover cd f (H c) sigs t n)
    verify := fun c sig => blsVerify cd (f.headD 0) (H c) sig }

/-- `Valid i c e` of the C01 liveness theorems, for this instance: entry `e` counts as the share of
member `i < n` on content `c` in `tbls.Recover` (index prefix `i`, value decodes to `f(i+1) • H(c)`) -/
def ValidShare (cd : Codec G) (f : List F) (H : Bytes → G) (n : Nat) : Nat → Bytes → Bytes → Prop :=
  fun i c e => validIdx cd f (H c) n e = some i

section pairing
variable {G2 GT : Type} [AddCommGroup G2] [Module F G2] [CommGroup GT]

/-- **the contract's predicate** for the submitted bytes `s` on the string `c`: `s` parses as a G1
point `S` and `e(−S, g₂) · e(H(c), f(0)•g₂) = 1` — the pairing equation the proxy contract evaluates
under the group public key `f(0)•g₂` (`pubPoly.Commit()`). -/
def ContractEq (pr : Pairing F G G2 GT) (cd : Codec G) (f : List F) (H : Bytes → G) (c s : Bytes) : Prop :=
  ∃ S : G, cd.decode s = some S ∧ pr.verifyEq (f.headD 0 • pr.g2) (H c) S

/-- `hC03` of `Props/C01.lean`, both directions: the instance's `verify` accepts exactly the byte
strings for which the contract equation holds (C03 `verify_iff` + the byte-level `blsVerify`). -/
theorem verify_iff_contract (pr : Pairing F G G2 GT) (cd : Codec G) (f : List F) (H : Bytes → G)
    (t n : Nat) (c s : Bytes) :
    (tblsCrypto cd f H t n).verify c s = true ↔ ContractEq pr cd f H c s := by
  show blsVerify cd (f.headD 0) (H c) s = true ↔ _
  rw [blsVerify_iff]
  constructor
  · intro h
    exact ⟨_, h, (Props.C03.verify_iff pr (f.headD 0) (H c) _).2 rfl⟩
  · rintro ⟨S, hS, he⟩
    rw [hS, (Props.C03.verify_iff pr (f.headD 0) (H c) S).1 he]

end pairing

/-- a valid share names its member: the index prefix of the entry -/
theorem validShare_index {cd : Codec G} {f : List F} {H : Bytes → G} {n i : Nat} {c e : Bytes}
    (h : ValidShare cd f H n i c e) : sigIndex e = some i :=
  ((Props.C03.counts_iff cd f (H c) n e i).1 h).1

/-- valid shares of distinct members are distinct byte strings (the hypothesis `hbytes` of
`enough_honest_reports` is automatic for this instance) -/
theorem validShares_bytes_nodup {cd : Codec G} {f : List F} {H : Bytes → G} {n : Nat} {c : Bytes}
    (gs : List (Nat × Bytes)) (hidx : (gs.map (·.1)).Nodup)
    (hv : ∀ q ∈ gs, ValidShare cd f H n q.1 c q.2) : (gs.map (·.2)).Nodup := by
  apply List.Nodup.of_map sigIndex
  have : (gs.map (·.2)).map sigIndex = (gs.map (·.1)).map some := by
    rw [List.map_map, List.map_map]
    apply List.map_congr_left
    intro q hq
    exact validShare_index (hv q hq)
  rw [this]
  exact hidx.map (Option.some_injective _)

/-- `Enough`: valid shares of ≥ t distinct members in the list ⇒ ≥ t members qualify in `tbls.Recover` -/
theorem enough_members {cd : Codec G} {f : List F} {H : Bytes → G} {n t : Nat} {c : Bytes} {l : List Bytes}
    (h : Enough (ValidShare cd f H n) c t l) : t ≤ (members cd f (H c) n l).card := by
  obtain ⟨gs, hnd, ht, hg⟩ := h
  have hsub : (gs.map (·.1)).toFinset ⊆ members cd f (H c) n l := by
    intro i hi
    simp only [List.mem_toFinset, List.mem_map] at hi
    obtain ⟨q, hq, rfl⟩ := hi
    simp only [members, List.mem_toFinset, List.mem_filterMap]
    exact ⟨q.2, (hg q hq).2, (hg q hq).1⟩
  calc t ≤ gs.length := ht
    _ = (gs.map (·.1)).toFinset.card := by rw [List.toFinset_card_of_nodup hnd, List.length_map]
    _ ≤ _ := Finset.card_le_card hsub

/-- `hrec` of `Props/C01.lean` for the instance: C02 `recover_unique` (the list qualifies ⇒ the
encoding of `f(0) • H(c)` is returned) and C03 `recover_ok_verifies` (what is returned passes
`bls.Verify` under the group key).  Needs the codec to read back what it writes. -/
theorem tbls_hrec (cd : Codec G) (hcd : ∀ p, cd.decode (cd.encode p) = some p) (f : List F)
    (H : Bytes → G) (t n : Nat) (ht : 0 < t) (hf : f.length ≤ t) (hc : CharGt F n) (c : Bytes)
    (l : List Bytes) (h : Enough (ValidShare cd f H n) c t l) :
    ∃ sig, (tblsCrypto cd f H t n).recover c l = .ok sig ∧ (tblsCrypto cd f H t n).verify c sig = true := by
  have hq := enough_members h
  have hr := Props.C02.recover_unique cd f (H c) t n ht hf hc l hq
  refine ⟨blsSign cd (f.headD 0) (H c), ?_, ?_⟩
  · show recOut (Tbls.recover cd f (H c) l t n) = _
    rw [hr]; rfl
  · have := (Props.C03.recover_ok_verifies cd hcd f (H c) t n ht hc l _ hr).2.2
    show blsVerify cd (f.headD 0) (H c) _ = true
    unfold blsVerify
    rw [this]; rfl

/-- `htot` of `Props/C01.lean` for the instance: C02 `recover_total` -/
theorem tbls_htot (cd : Codec G) (f : List F) (H : Bytes → G) (t n : Nat) (ht : 0 < t)
    (hc : CharGt F n) (c : Bytes) (l : List Bytes) :
    (tblsCrypto cd f H t n).recover c l ≠ .panic := by
  show recOut (Tbls.recover cd f (H c) l t n) ≠ .panic
  have := Props.C02.recover_total cd f (H c) t n ht hc l
  cases hr : Tbls.recover cd f (H c) l t n with
  | ok s => simp [recOut]
  | errFew => simp [recOut]
  | errThreshold => simp [recOut]
  | errDecode => simp [recOut]
  | panic s => exact absurd hr (this s)

/-- what `tbls.Sign` emits for member `i < n` (index fits the 2-byte prefix) is a valid share -/
theorem signed_validShare (cd : Codec G) (hcd : ∀ p, cd.decode (cd.encode p) = some p) (f : List F)
    (H : Bytes → G) (n i : Nat) (hi : i < n) (h16 : i < 65536) (c : Bytes) :
    ValidShare cd f H n i c (tblsSign cd f (H c) i) :=
  Props.C02.signed_share_valid cd hcd f (H c) n i hi h16

theorem threshold_pos (n : Nat) : 0 < Content.threshold n := by unfold Content.threshold; omega

end Dos.Compose

/-
Lemmas about the response bookkeeping of the `aggregator` model (`addResponse`,
`verifyResponse`, `verifyJustification`, `UnsafeSetResponseDKG`) in `Model/VssSym.lean`.
-/
import DosModel.Proofs.VssSym

set_option linter.unusedSectionVars false

namespace Dos.Vss

variable {F G : Type} [Field F] [AddCommGroup G] [Module F G] [DecidableEq F] [DecidableEq G]

theorem getResponse_set (a : Agg F G) (i k : Nat) (r : Response F G) (hi : i < a.responses.length) :
    getResponse { a with responses := a.responses.set i (some r) } k =
      if i = k then some r else getResponse a k := by
  unfold getResponse
  simp only [List.getElem?_set]
  by_cases h : i = k
  · subst h; simp [hi]
  · simp [h]

theorem addResponse_ok {a a' : Agg F G} {r : Response F G} (h : addResponse a r = .ok a') :
    r.index < a.vs.length ∧ getResponse a r.index = none ∧
      a' = { a with responses := a.responses.set r.index (some r) } := by
  unfold addResponse at h
  by_cases h1 : r.index ≥ a.vs.length
  · simp [h1] at h
  · by_cases h2 : hasResponse a r.index = true
    · simp [h1, h2] at h
    · simp only [h1, h2, if_false, Bool.false_eq_true] at h
      injection h with h
      refine ⟨by omega, ?_, h.symm⟩
      simpa [hasResponse] using h2

theorem addResponse_err_unchanged {a : Agg F G} {r : Response F G} {e : Err} (_h : addResponse a r = .error e) :
    True := trivial

theorem verifyRespSig_iff (g pub : G) (r : Response F G) :
    verifyRespSig g pub r = true ↔ ∃ sk rnd, r.sig = .sign sk r.sid r.index r.status rnd ∧ sk • g = pub := by
  unfold verifyRespSig
  rcases hs : r.sig with ⟨sk, sid, i, st, rnd⟩ | id
  · simp only [Bool.and_eq_true, decide_eq_true_eq]
    constructor
    · rintro ⟨⟨⟨h1, h2⟩, h3⟩, h4⟩
      exact ⟨sk, rnd, by rw [h2, h3, h4], h1⟩
    · rintro ⟨sk', rnd', h, h1⟩
      injection h with a b c d e
      subst a; exact ⟨⟨⟨h1, b⟩, c⟩, d⟩
  · simp

theorem verifyResponse_ok {g : G} {a a' : Agg F G} {r : Response F G} (h : verifyResponse g a r = .ok a') :
    r.sid = a.sid ∧ (∃ pub, a.vs[r.index]? = some pub ∧ verifyRespSig g pub r = true) ∧
      addResponse a r = .ok a' := by
  unfold verifyResponse at h
  by_cases h1 : r.sid ≠ a.sid
  · simp [h1] at h
  · simp only [h1, if_false] at h
    rcases hp : a.vs[r.index]? with _ | pub
    · simp [hp] at h
    · simp only [hp] at h
      by_cases h2 : verifyRespSig g pub r = false
      · simp [h2] at h
      · simp only [h2, if_false, Bool.false_eq_true] at h
        exact ⟨by simpa using h1, ⟨pub, rfl, by simpa using h2⟩, h⟩

/-- `VerifyDeal(d, false)` on an aggregator that already stores a deal changes nothing -/
theorem verifyDeal_stored_unchanged (g : G) (a : Agg F G) (d : Deal F G) (h : a.deal.isSome = true) :
    (verifyDeal g a d false).1 = a := by
  unfold verifyDeal
  rcases d.share with _ | ⟨i, v⟩
  · rfl
  · rcases v with _ | val
    · rfl
    · have hn : a.deal.isNone = false := by
        cases hd : a.deal <;> simp_all
      simp only [hn, Bool.false_eq_true, and_false, if_false]
      (repeat' split) <;> rfl

end Dos.Vss

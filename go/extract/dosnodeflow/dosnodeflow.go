// Package dosnodeflow regenerates DosModel/Gen/DosnodeFlow.lean: HOW the content stages of
// dosnode/dos_stages.go reach the selector engines and the member list, statement by statement.
//
//   - the ordered statement skeleton (every statement, nested, logging left out) of dataParse,
//     dataFetch, genQueryResult, genSysRandom, genUserRandom, choseSubmitter, padOrTrim and of the
//     stages the signed content then travels through: genSign, dispatchSign, recoverSign,
//     drainSigns (deferred by recoverSign since /repo 3a1c0bc), reportQueryResult;
//   - for dataParse / dataFetch: the calls in source order with their arguments (ajson.JSONPath,
//     xmlquery.Parse, xmlquery.Find, OutputXML, json.Marshal, io.LimitReader …), whether the
//     first statement is the deferred recover wrapper, the document bound as a number;
//   - for each of those functions: the package-level identifiers of package dosnode it refers to
//     (other functions, constants, variables) – a new helper, cache or pool shows up here;
//   - the import list of dos_stages.go;
//   - for the content functions: every call into time / rand / os / runtime / sync / … whose value
//     could reach the result (contentForbidden, pinned to []), the clock reads that only feed logging
//     (contentClockVars), and the operand of every range statement (contentRanges);
//   - group bookkeeping: the statements that carry the member list announced in LogGrouping from
//     handleGrouping (dos_chain_handler.go) into the group table of share/dkg/pedersen/pdkg.go
//     (Grouping up to LoadOrStore, GetGroupIDs, GroupDissolve), every write of the field
//     `participants` in that package, and every use of package sort in the files involved.
//
// Props/C07.lean pins all of it (rfl / decide). go/ast + go/printer only.
package dosnodeflow

import (
	"bytes"
	"fmt"
	"go/ast"
	"go/parser"
	"go/printer"
	"go/token"
	"path/filepath"
	"sort"
	"strconv"
	"strings"

	"verifharness/extract/ex"
)

func init() { ex.Register(&ex.Extractor{Name: "DosnodeFlow", Run: run}) }

// parse without comments: a comment is not a fact
func parse(path string) (*token.FileSet, *ast.File, error) {
	fset := token.NewFileSet()
	f, err := parser.ParseFile(fset, path, nil, 0)
	return fset, f, err
}

func src(fset *token.FileSet, n ast.Node) string {
	var b bytes.Buffer
	printer.Fprint(&b, fset, n)
	return strings.Join(strings.Fields(b.String()), " ")
}

func isLog(s string) bool {
	s = strings.TrimPrefix(s, "defer ")
	return strings.HasPrefix(s, "d.logger.") || strings.HasPrefix(s, "logger.") || strings.HasPrefix(s, "fmt.Print")
}

type walker struct {
	fset  *token.FileSet
	lines []string
}

func (w *walker) emit(d int, s string) { w.lines = append(w.lines, strings.Repeat("  ", d)+s) }

func (w *walker) stmts(l []ast.Stmt, d int) {
	for _, s := range l {
		w.stmt(s, d)
	}
}

// funcLit: `go func(args) {…}(x)` / `defer func() {…}()` are opened, their bodies are statements too
func (w *walker) call(kw string, c *ast.CallExpr, d int) {
	if fl, ok := c.Fun.(*ast.FuncLit); ok {
		var args []string
		for _, a := range c.Args {
			args = append(args, src(w.fset, a))
		}
		w.emit(d, kw+" "+src(w.fset, fl.Type)+" ("+strings.Join(args, ", ")+")")
		w.stmts(fl.Body.List, d+1)
		return
	}
	if t := kw + " " + src(w.fset, c); !isLog(t) {
		w.emit(d, t)
	}
}

func (w *walker) stmt(s ast.Stmt, d int) {
	switch x := s.(type) {
	case *ast.BlockStmt:
		w.stmts(x.List, d)
	case *ast.IfStmt:
		h := "if "
		if x.Init != nil {
			h += src(w.fset, x.Init) + "; "
		}
		w.emit(d, h+src(w.fset, x.Cond))
		w.stmts(x.Body.List, d+1)
		if x.Else != nil {
			w.emit(d, "else")
			w.stmt(x.Else, d+1)
		}
	case *ast.ForStmt:
		h := "for"
		if x.Init != nil || x.Post != nil {
			h += " " + nodeOr(w.fset, x.Init) + "; " + nodeOr(w.fset, x.Cond) + "; " + nodeOr(w.fset, x.Post)
		} else if x.Cond != nil {
			h += " " + src(w.fset, x.Cond)
		}
		w.emit(d, h)
		w.stmts(x.Body.List, d+1)
	case *ast.RangeStmt:
		h := "for "
		if x.Key != nil {
			h += src(w.fset, x.Key)
			if x.Value != nil {
				h += ", " + src(w.fset, x.Value)
			}
			h += " " + x.Tok.String() + " "
		}
		w.emit(d, h+"range "+src(w.fset, x.X))
		w.stmts(x.Body.List, d+1)
	case *ast.SwitchStmt:
		h := "switch"
		if x.Init != nil {
			h += " " + src(w.fset, x.Init) + ";"
		}
		if x.Tag != nil {
			h += " " + src(w.fset, x.Tag)
		}
		w.emit(d, h)
		for _, c := range x.Body.List {
			cc := c.(*ast.CaseClause)
			if cc.List == nil {
				w.emit(d+1, "default")
			} else {
				var ts []string
				for _, e := range cc.List {
					ts = append(ts, src(w.fset, e))
				}
				w.emit(d+1, "case "+strings.Join(ts, ", "))
			}
			w.stmts(cc.Body, d+2)
		}
	case *ast.SelectStmt:
		w.emit(d, "select")
		for _, c := range x.Body.List {
			cc := c.(*ast.CommClause)
			if cc.Comm == nil {
				w.emit(d+1, "default")
			} else {
				w.emit(d+1, "case "+src(w.fset, cc.Comm))
			}
			w.stmts(cc.Body, d+2)
		}
	case *ast.GoStmt:
		w.call("go", x.Call, d)
	case *ast.DeferStmt:
		w.call("defer", x.Call, d)
	case *ast.ExprStmt:
		if t := src(w.fset, x); !isLog(t) {
			w.emit(d, t)
		}
	case *ast.LabeledStmt:
		w.emit(d, x.Label.Name+":")
		w.stmt(x.Stmt, d)
	default: // assignments, declarations, returns, sends, inc/dec, branch statements: verbatim
		w.emit(d, src(w.fset, x))
	}
}

func nodeOr(fset *token.FileSet, n ast.Node) string {
	if n == nil {
		return ""
	}
	return src(fset, n)
}

func skeleton(fset *token.FileSet, fd *ast.FuncDecl) []string {
	w := &walker{fset: fset}
	w.emit(0, "func "+fd.Name.Name+src(fset, fd.Type)[len("func"):])
	w.stmts(fd.Body.List, 1)
	return w.lines
}

// callsOf: every call inside fd in source order, `fun(args)`, logging left out
func callsOf(fset *token.FileSet, fd *ast.FuncDecl) []string {
	var out []string
	ast.Inspect(fd.Body, func(n ast.Node) bool {
		if c, ok := n.(*ast.CallExpr); ok {
			if _, lit := c.Fun.(*ast.FuncLit); lit {
				return true
			}
			if t := src(fset, c); !isLog(t) {
				out = append(out, t)
			}
		}
		return true
	})
	return out
}

var universe = map[string]bool{}

func init() {
	for _, n := range strings.Fields("append cap close complex copy delete imag len make new panic print println real recover " +
		"bool byte complex64 complex128 error float32 float64 int int8 int16 int32 int64 rune string uint uint8 uint16 uint32 uint64 uintptr " +
		"true false iota nil _ any") {
		universe[n] = true
	}
}

// pkgRefs: the package-level identifiers of the function's own package that its body refers to
// (functions, constants, variables, types declared at top level of this or another file).
func pkgRefs(f *ast.File, fd *ast.FuncDecl) []string {
	imports := map[string]bool{}
	for _, im := range f.Imports {
		p, _ := strconv.Unquote(im.Path.Value)
		name := p[strings.LastIndex(p, "/")+1:]
		if im.Name != nil {
			name = im.Name.Name
		}
		imports[name] = true
	}
	// the repo imports share/vss/pedersen as "vss" and share/dkg/pedersen as "dkg" by package clause
	imports["vss"], imports["dkg"] = true, true
	top := map[interface{}]bool{}
	for _, d := range f.Decls {
		switch x := d.(type) {
		case *ast.FuncDecl:
			top[x] = true
		case *ast.GenDecl:
			for _, s := range x.Specs {
				top[s] = true
			}
		}
	}
	skip := map[*ast.Ident]bool{}
	ast.Inspect(fd.Body, func(n ast.Node) bool {
		switch x := n.(type) {
		case *ast.SelectorExpr:
			skip[x.Sel] = true
		case *ast.KeyValueExpr:
			if id, ok := x.Key.(*ast.Ident); ok && id.Obj == nil {
				skip[id] = true // field name of a struct literal (or an unresolved map key: rare, harmless)
			}
		}
		return true
	})
	seen := map[string]bool{}
	ast.Inspect(fd.Body, func(n ast.Node) bool {
		id, ok := n.(*ast.Ident)
		if !ok || skip[id] || universe[id.Name] {
			return true
		}
		if id.Obj == nil {
			if !imports[id.Name] {
				seen[id.Name] = true
			}
		} else if top[id.Obj.Decl] {
			seen[id.Name] = true
		}
		return true
	})
	var out []string
	for k := range seen {
		out = append(out, k)
	}
	sort.Strings(out)
	return out
}

// Reads of anything that is not an argument of the content function: calls into time, math/rand,
// crypto/rand, os, runtime, syscall, sync, sync/atomic, unsafe, reflect inside fd.
//   - a call inside a logging statement is left out (with the statement);
//   - `v := pkg.F(...)` is a "clock variable": allowed only if EVERY later use of v is inside a
//     logging statement (then it is listed in clock, else in forbidden);
//   - any other such call is forbidden.
// Also: the operand of every range statement (a range over a map would make the order of the result
// depend on the run).
var impurePkgs = map[string]bool{"time": true, "rand": true, "os": true, "runtime": true, "syscall": true, "sync": true, "atomic": true, "unsafe": true, "reflect": true}

func impure(fset *token.FileSet, fd *ast.FuncDecl) (forbidden, clock, ranges []string) {
	name := fd.Name.Name
	logStmt := func(n ast.Node) bool {
		switch x := n.(type) {
		case *ast.ExprStmt:
			return isLog(src(fset, x))
		case *ast.DeferStmt:
			if _, lit := x.Call.Fun.(*ast.FuncLit); lit {
				return false
			}
			return isLog(src(fset, x))
		}
		return false
	}
	enclosing := func(stack []ast.Node) ast.Node { // nearest enclosing statement that is not a block
		for i := len(stack) - 1; i >= 0; i-- {
			if st, ok := stack[i].(ast.Stmt); ok {
				if _, blk := st.(*ast.BlockStmt); !blk {
					return st
				}
			}
		}
		return nil
	}
	head := func(n ast.Node) string {
		t := src(fset, n)
		if i := strings.Index(t, " {"); i >= 0 {
			t = t[:i]
		}
		return t
	}
	walk := func(visit func(n ast.Node, stack []ast.Node)) {
		var stack []ast.Node
		ast.Inspect(fd.Body, func(n ast.Node) bool {
			if n == nil {
				stack = stack[:len(stack)-1]
				return true
			}
			visit(n, stack)
			stack = append(stack, n)
			return true
		})
	}
	vars := map[*ast.Object]*ast.Ident{}
	walk(func(n ast.Node, stack []ast.Node) {
		switch x := n.(type) {
		case *ast.RangeStmt:
			ranges = append(ranges, name+": "+src(fset, x.X))
		case *ast.CallExpr:
			sel, ok := x.Fun.(*ast.SelectorExpr)
			if !ok {
				return
			}
			id, ok := sel.X.(*ast.Ident)
			if !ok || id.Obj != nil || !impurePkgs[id.Name] {
				return
			}
			st := enclosing(stack)
			if st != nil && logStmt(st) {
				return
			}
			if as, ok := st.(*ast.AssignStmt); ok && as.Tok == token.DEFINE && len(as.Lhs) == 1 && len(as.Rhs) == 1 && as.Rhs[0] == ast.Expr(x) {
				if v, ok := as.Lhs[0].(*ast.Ident); ok && v.Obj != nil {
					vars[v.Obj] = v
					clock = append(clock, name+": "+src(fset, as))
					return
				}
			}
			forbidden = append(forbidden, name+": "+src(fset, x)+" in `"+head(st)+"`")
		}
	})
	walk(func(n ast.Node, stack []ast.Node) {
		id, ok := n.(*ast.Ident)
		if !ok || id.Obj == nil || vars[id.Obj] == nil || vars[id.Obj] == id {
			return
		}
		if st := enclosing(stack); st == nil || !logStmt(st) {
			forbidden = append(forbidden, name+": "+id.Name+" is used outside logging in `"+head(st)+"`")
		}
	})
	return
}

func leanList(name string, xs []string) string {
	s := fmt.Sprintf("def %s : List String := [", name)
	for i, x := range xs {
		if i > 0 {
			s += ","
		}
		s += "\n  " + ex.LeanStr(x)
	}
	if len(xs) > 0 {
		s += "\n"
	}
	return s + "]\n"
}

func run(repo string) (string, error) {
	fset, st, err := parse(filepath.Join(repo, "dosnode", "dos_stages.go"))
	if err != nil {
		return "", err
	}
	fsetC, ch, err := parse(filepath.Join(repo, "dosnode", "dos_chain_handler.go"))
	if err != nil {
		return "", err
	}
	fsetD, pd, err := parse(filepath.Join(repo, "share", "dkg", "pedersen", "pdkg.go"))
	if err != nil {
		return "", err
	}
	s := ex.Header("DosnodeFlow", "dosnode/dos_stages.go, dosnode/dos_chain_handler.go, share/dkg/pedersen/pdkg.go")
	s += "namespace Dos.Gen.DosnodeFlow\n"

	var imps []string
	for _, im := range st.Imports {
		t := im.Path.Value
		if im.Name != nil {
			t = im.Name.Name + " " + t
		}
		imps = append(imps, t)
	}
	s += "/-- imports of dosnode/dos_stages.go -/\n" + leanList("stagesImports", imps)

	fns := []string{"dataParse", "jsonDepthExceeds", "xmlDepthExceeds", "dataFetch", "genQueryResult", "genSysRandom", "genUserRandom", "choseSubmitter", "padOrTrim", "genSign", "dispatchSign", "recoverSign", "drainSigns", "reportQueryResult"}
	decl := map[string]*ast.FuncDecl{}
	for _, n := range fns {
		fd := ex.FuncDecl(st, "", n)
		if fd == nil || fd.Body == nil {
			return "", fmt.Errorf("%s not found in dosnode/dos_stages.go", n)
		}
		decl[n] = fd
		s += fmt.Sprintf("/-- %s: every statement in order (logging left out) -/\n", n) + leanList(n, skeleton(fset, fd))
		s += fmt.Sprintf("/-- %s: package-level identifiers of package dosnode referred to -/\n", n) + leanList(n+"Refs", pkgRefs(st, fd))
	}
	s += "/-- dataParse: the calls in source order with their arguments -/\n" + leanList("dataParseCalls", callsOf(fset, decl["dataParse"]))
	s += "/-- dataFetch: the calls in source order with their arguments -/\n" + leanList("dataFetchCalls", callsOf(fset, decl["dataFetch"]))

	// what the content functions read besides their arguments
	var forb, clk, rng []string
	for _, n := range []string{"dataParse", "jsonDepthExceeds", "xmlDepthExceeds", "dataFetch", "genQueryResult", "genSysRandom", "genUserRandom", "choseSubmitter", "padOrTrim"} {
		f, c, r := impure(fset, decl[n])
		forb, clk, rng = append(forb, f...), append(clk, c...), append(rng, r...)
	}
	s += "/-- content functions (dataParse, dataFetch, genQueryResult, genSysRandom, genUserRandom, choseSubmitter, padOrTrim): calls into time / rand / os / runtime / syscall / sync / atomic / unsafe / reflect outside logging statements whose value can reach the result -/\n" + leanList("contentForbidden", forb)
	s += "/-- …: `v := time.Now()`-like reads whose every later use is inside a logging statement -/\n" + leanList("contentClockVars", clk)
	s += "/-- …: the operand of every range statement -/\n" + leanList("contentRanges", rng)

	// recover wrapper: the FIRST statement of dataParse is `defer func() { if r := recover(); r != nil { msg, err = nil, … } }()`
	rec := false
	if body := decl["dataParse"].Body.List; len(body) > 0 {
		if d, ok := body[0].(*ast.DeferStmt); ok {
			if fl, ok := d.Call.Fun.(*ast.FuncLit); ok && len(fl.Body.List) == 1 {
				if is, ok := fl.Body.List[0].(*ast.IfStmt); ok && is.Init != nil && strings.Contains(src(fset, is.Init), ":= recover()") {
					for _, b := range is.Body.List {
						if a, ok := b.(*ast.AssignStmt); ok && len(a.Lhs) == 2 && src(fset, a.Lhs[0]) == "msg" && src(fset, a.Lhs[1]) == "err" && src(fset, a.Rhs[0]) == "nil" {
							rec = true
						}
					}
				}
			}
		}
	}
	s += fmt.Sprintf("/-- dataParse starts with the deferred recover wrapper that turns a panic of the engines into (nil, error) -/\ndef dataParseRecovers : Bool := %v\n", rec)

	// the document bound
	c := ex.Consts(st)
	if c["maxDocumentSize"] == nil {
		return "", fmt.Errorf("constant maxDocumentSize not found in dosnode/dos_stages.go")
	}
	s += fmt.Sprintf("def maxDocumentSize : Nat := %s\n", c["maxDocumentSize"])
	if c["maxDocumentDepth"] == nil {
		return "", fmt.Errorf("constant maxDocumentDepth not found in dosnode/dos_stages.go")
	}
	s += fmt.Sprintf("/-- the nesting bound of dataParse (/repo 14409e8) -/\ndef maxDocumentDepth : Nat := %s\n", c["maxDocumentDepth"])
	var lim []string
	ast.Inspect(decl["dataFetch"].Body, func(n ast.Node) bool {
		if ce, ok := n.(*ast.CallExpr); ok && src(fset, ce.Fun) == "io.LimitReader" && len(ce.Args) == 2 {
			env := map[string]string{"maxDocumentSize": c["maxDocumentSize"].String()}
			if be, ok := ce.Args[1].(*ast.BinaryExpr); ok && be.Op == token.ADD {
				if id, ok := be.X.(*ast.Ident); ok && env[id.Name] != "" {
					if lit, ok := be.Y.(*ast.BasicLit); ok && lit.Kind == token.INT {
						lim = append(lim, "("+env[id.Name]+" + "+lit.Value+")")
					}
				}
			}
		}
		return true
	})
	if len(lim) != 1 {
		return "", fmt.Errorf("dataFetch: expected exactly one io.LimitReader(_, maxDocumentSize+k), found %d", len(lim))
	}
	s += "/-- dataFetch: the second argument of io.LimitReader -/\n" + fmt.Sprintf("def fetchReadLimit : Nat := %s\n", lim[0])

	// ---- group bookkeeping
	hg := ex.FuncDecl(ch, "DosNode", "handleGrouping")
	if hg == nil {
		return "", fmt.Errorf("handleGrouping not found")
	}
	// up to and including the call of d.dkg.Grouping
	wg := &walker{fset: fsetC}
	for _, b := range hg.Body.List {
		wg.stmt(b, 0)
		if strings.Contains(src(fsetC, b), "d.dkg.Grouping(") {
			break
		}
	}
	s += "/-- handleGrouping: from the membership test to the call of dkg.Grouping (logging left out) -/\n" + leanList("handleGrouping", wg.lines)
	gr := ex.FuncDecl(pd, "pdkg", "Grouping")
	if gr == nil {
		return "", fmt.Errorf("pdkg.Grouping not found")
	}
	wr := &walker{fset: fsetD}
	wr.emit(0, "func Grouping"+src(fsetD, gr.Type)[len("func"):])
	for _, b := range gr.Body.List {
		wr.stmt(b, 1)
		if strings.Contains(src(fsetD, b), "LoadOrStore") {
			break
		}
	}
	s += "/-- pdkg.Grouping: how the announced member list enters the group table (up to LoadOrStore) -/\n" + leanList("groupingStore", wr.lines)
	for _, n := range []string{"GetGroupIDs", "GroupDissolve"} {
		fd := ex.FuncDecl(pd, "pdkg", n)
		if fd == nil {
			return "", fmt.Errorf("pdkg.%s not found", n)
		}
		s += leanList("pdkg"+n, skeleton(fsetD, fd))
	}
	// every write of `.participants` and every composite literal setting it, in the whole dkg package file set we read;
	// every use of package sort in the files on the path of the member list
	var pw, sorts []string
	scan := func(tag string, fset *token.FileSet, f *ast.File) {
		ast.Inspect(f, func(n ast.Node) bool {
			switch x := n.(type) {
			case *ast.AssignStmt:
				for _, l := range x.Lhs {
					if sel, ok := l.(*ast.SelectorExpr); ok && sel.Sel.Name == "participants" {
						pw = append(pw, tag+": "+src(fset, x))
					}
				}
			case *ast.KeyValueExpr:
				if id, ok := x.Key.(*ast.Ident); ok && id.Name == "participants" {
					pw = append(pw, tag+": "+src(fset, x))
				}
			case *ast.SelectorExpr:
				if id, ok := x.X.(*ast.Ident); ok && id.Name == "sort" && id.Obj == nil {
					sorts = append(sorts, tag+": "+src(fset, x))
				}
			}
			return true
		})
	}
	scan("pdkg.go", fsetD, pd)
	fsetP, pp, err := parse(filepath.Join(repo, "share", "dkg", "pedersen", "pdkg_pipes.go"))
	if err != nil {
		return "", err
	}
	scan("pdkg_pipes.go", fsetP, pp)
	scan("dos_chain_handler.go", fsetC, ch)
	scan("dos_stages.go", fset, st)
	fsetQ, qh, err := parse(filepath.Join(repo, "dosnode", "dos_query_handler.go"))
	if err != nil {
		return "", err
	}
	scan("dos_query_handler.go", fsetQ, qh)
	// round 5 (review H #1): EVERY statement in which the field `participants` occurs in any position (left-hand
	// side sub-expression such as participants[i] = …, argument of copy / append / sort.*, range operand, read),
	// and every statement of pdkg.Grouping that mentions the parameter `groupIds` (the stored slice shares its
	// backing array with it)
	var pu, gu []string
	uses := func(tag string, fset *token.FileSet, root ast.Node, isUse func(ast.Node) bool, out *[]string) {
		var stack []ast.Node
		seen := map[ast.Node]bool{}
		ast.Inspect(root, func(n ast.Node) bool {
			if n == nil {
				stack = stack[:len(stack)-1]
				return true
			}
			if isUse(n) {
				for i := len(stack) - 1; i >= 0; i-- {
					st, ok := stack[i].(ast.Stmt)
					if _, blk := stack[i].(*ast.BlockStmt); ok && !blk {
						if !seen[st] {
							seen[st] = true
							t := src(fset, st)
							if k := strings.Index(t, " {"); k >= 0 {
								if _, simple := st.(*ast.AssignStmt); !simple {
									t = t[:k]
								}
							}
							*out = append(*out, tag+": "+t)
						}
						break
					}
				}
			}
			stack = append(stack, n)
			return true
		})
	}
	isPart := func(n ast.Node) bool {
		sel, ok := n.(*ast.SelectorExpr)
		return ok && sel.Sel.Name == "participants"
	}
	uses("pdkg.go", fsetD, pd, isPart, &pu)
	uses("pdkg_pipes.go", fsetP, pp, isPart, &pu)
	uses("dos_chain_handler.go", fsetC, ch, isPart, &pu)
	uses("dos_stages.go", fset, st, isPart, &pu)
	uses("dos_query_handler.go", fsetQ, qh, isPart, &pu)
	uses("Grouping", fsetD, gr.Body, func(n ast.Node) bool {
		id, ok := n.(*ast.Ident)
		return ok && id.Name == "groupIds"
	}, &gu)
	s += "/-- every statement of pdkg.go, pdkg_pipes.go and the dosnode files in which the field `participants` occurs in ANY position -/\n" + leanList("participantsUses", pu)
	s += "/-- every statement of pdkg.Grouping that mentions its parameter `groupIds` (the announced list; the stored slice IS this slice) -/\n" + leanList("groupIdsUses", gu)

	// round 5 (review H #3, seed C07f): the whole bodies of handleQuery (the wiring of the stages) and handleCR
	// (started by onchainLoop with the *big.Int of the latest request event)
	hq := ex.FuncDecl(qh, "DosNode", "handleQuery")
	hcr := ex.FuncDecl(ch, "DosNode", "handleCR")
	if hq == nil || hcr == nil {
		return "", fmt.Errorf("handleQuery / handleCR not found")
	}
	s += "/-- handleQuery: every statement in order (logging left out) -/\n" + leanList("handleQuery", skeleton(fsetQ, hq))
	s += leanList("handleQueryRefs", pkgRefs(qh, hq))
	s += "/-- handleCR: every statement in order (logging left out) -/\n" + leanList("handleCR", skeleton(fsetC, hcr))

	s += "/-- every write of a `participants` field / literal key in pdkg.go, pdkg_pipes.go and the dosnode files -/\n" + leanList("participantsWrites", pw)
	s += "/-- every use of package sort in those files -/\n" + leanList("sortUses", sorts)
	s += "end Dos.Gen.DosnodeFlow\n"
	return s, nil
}

package c17

// hist <peers> <steps>   connection HISTORIES: a real node N (CreateP2PNetwork, NoDiscover,
// VerifSetLookup) and peers p = 0,1,… of kind `r` (a real node, every connection between it and
// N goes through a frame-level relay of the harness, so it can be cut) or `f` (a harness endpoint,
// package fakepeer: accepts every connection, answers on the connection a request came in on).
// Steps, executed one at a time (each waits for what it causes):
//
//	q<p>      N calls Request(peer p, Ping{g}), g = number of the request in the case
//	u<p>      peer p calls Request(N, Ping{g}) (a harness endpoint uses its current connection to N, or dials)
//	a<g>      the application that received request g answers it (Reply with the sender id and nonce it saw)
//	k<p>      N calls DisConnectTo(peer p);  K<p>: real peer p calls DisConnectTo(N)
//	c<p>.<j>  the j-th connection (in order of creation, either direction) between N and p is cut
//	x<p>      peer p restarts (all its connections die, new process state, same id);  X: N restarts
//	e<g>      the context of request g ends
//
// At the end every call still waiting is cancelled, EVERY connection is cut, and each peer is asked
// once more in both directions (the answer given at once): those calls must be served.
//
// Direct oracles (no model): a call returns its own reply or an error (cross-talk); a request that
// reached the peer's application over a connection nobody harmed and that was answered returns
// that answer (reply-lost); the final calls are served (later-request-not-served); calls return.

import (
	"context"
	"encoding/binary"
	"fmt"
	"io"
	"net"
	"strconv"
	"strings"
	"sync"
	"time"

	"github.com/DOSNetwork/core/p2p"
	"github.com/golang/protobuf/ptypes"

	"verifharness/internal/h"
	"verifharness/props/c17/fakepeer"
)

const (
	settleSeen  = 1500 * time.Millisecond // a request that is going to arrive has arrived by then
	settleReply = 1000 * time.Millisecond
	callBound   = 4 * time.Second // a cancelled call is back by then
)

type heldMsg struct {
	sender []byte
	nonce  uint64
	sess   *fsess // harness endpoint: the connection it came in on
}

// hcall is one Request call (of a real node or of a harness endpoint).
type hcall struct {
	g       int
	src     int // -1 = N, else peer index
	dst     int
	done    chan struct{}
	err     error
	payload uint64
	cancel  context.CancelFunc
	seen    chan struct{} // closed when the destination's application has the message
	seenAt  string
	// health bookkeeping for the reply-lost oracle
	harmed   bool // a cut / restart hit the pair while the call was out
	expired  bool // its context was ended by the case before it was answered
	answered bool
	final    bool
}

type happ struct { // the application of a real node
	mu   sync.Mutex
	held map[int]heldMsg
}

type hreal struct {
	id   string
	node p2p.P2PInterface
	addr string
	app  *happ
}

// connHandle is one connection between N and a peer, as the harness can reach it.
type connHandle interface {
	cut()
	dialler() int // -1 = N dialled it, else the peer
}

type rconn struct {
	a, b net.Conn
	dial int
	once sync.Once
}

func (c *rconn) cut()         { c.once.Do(func() { c.a.Close(); c.b.Close() }) }
func (c *rconn) dialler() int { return c.dial }

type hrelay struct {
	ln     net.Listener
	mu     sync.Mutex
	target string
	onConn func(*rconn)
}

func pumpFrames(dst, src net.Conn, done func()) {
	defer done()
	for {
		var hd [4]byte
		if _, err := io.ReadFull(src, hd[:]); err != nil {
			return
		}
		n := binary.BigEndian.Uint32(hd[:])
		if n > 1<<21 {
			return
		}
		body := make([]byte, n)
		if _, err := io.ReadFull(src, body); err != nil {
			return
		}
		if _, err := dst.Write(append(hd[:], body...)); err != nil {
			return
		}
	}
}

func newRelay(onConn func(*rconn)) *hrelay {
	ln, err := net.Listen("tcp", "127.0.0.1:0")
	if err != nil {
		panic(err)
	}
	r := &hrelay{ln: ln, onConn: onConn}
	go func() {
		for {
			a, err := ln.Accept()
			if err != nil {
				return
			}
			r.mu.Lock()
			t := r.target
			r.mu.Unlock()
			b, err := net.DialTimeout("tcp", t, 2*time.Second)
			if err != nil {
				a.Close()
				continue
			}
			c := &rconn{a: a, b: b}
			r.onConn(c)
			go pumpFrames(b, a, c.cut)
			go pumpFrames(a, b, c.cut)
		}
	}()
	return r
}

func (r *hrelay) setTarget(t string) { r.mu.Lock(); r.target = t; r.mu.Unlock() }
func (r *hrelay) addr() string       { return r.ln.Addr().String() }

// fsess is one connection of a harness endpoint.
type fsess struct {
	s    *fakepeer.Session
	c    net.Conn
	dial int
	dead chan struct{}
	once sync.Once
}

func (f *fsess) cut()         { f.once.Do(func() { f.c.Close(); close(f.dead) }) }
func (f *fsess) dialler() int { return f.dial }

type hfake struct {
	idx    int
	id     []byte
	ln     net.Listener
	addr   string
	mu     sync.Mutex
	held   map[int]heldMsg
	cur    *fsess // its current connection to N
	nonce  uint64
	calls  map[*fsess]map[uint64]*hcall
	all    []*fsess
	closed bool
}

type hworld struct {
	kinds  []string
	n      *hreal
	reals  []*hreal
	fakes  []*hfake
	toPeer []*hrelay // N → real peer p
	toN    []*hrelay // real peer p → N
	mu     sync.Mutex
	pair   [][]connHandle
	calls  []*hcall
	nAddr  string
}

func (w *hworld) addConn(p int, c connHandle) {
	w.mu.Lock()
	w.pair[p] = append(w.pair[p], c)
	w.mu.Unlock()
}

func (w *hworld) call(g int) *hcall {
	w.mu.Lock()
	defer w.mu.Unlock()
	if g < 0 || g >= len(w.calls) {
		return nil
	}
	return w.calls[g]
}

func (w *hworld) markSeen(g int, at string) {
	if c := w.call(g); c != nil {
		w.mu.Lock()
		if c.seenAt == "" {
			c.seenAt = at
			close(c.seen)
		}
		w.mu.Unlock()
	}
}

// startReal starts a real node whose application holds every Ping until told to answer.
func (w *hworld) startReal(id string, lookup func([]byte) string) *hreal {
	for try := 0; ; try++ {
		port := freePort()
		n, err := p2p.CreateP2PNetwork([]byte(id), "127.0.0.1", port, p2p.NoDiscover)
		if err != nil {
			panic(err)
		}
		p2p.VerifSetLookup(n, lookup)
		errc := make(chan error, 1)
		go func() { errc <- n.Listen() }()
		ready := false
		for i := 0; i < 400 && !ready; i++ {
			select {
			case <-errc:
				i = 1000
			default:
				if c, err := net.DialTimeout("tcp", "127.0.0.1:"+port, time.Second); err == nil {
					c.Close()
					ready = true
				} else {
					time.Sleep(5 * time.Millisecond)
				}
			}
		}
		if !ready {
			n.Leave()
			if try > 5 {
				panic("cannot start a node")
			}
			continue
		}
		r := &hreal{id: id, node: n, addr: "127.0.0.1:" + port, app: &happ{held: map[int]heldMsg{}}}
		ch, err := n.SubscribeMsg(64, p2p.Ping{})
		if err != nil {
			panic(err)
		}
		go func() {
			for m := range ch {
				pg, ok := m.Msg.Message.(*p2p.Ping)
				if !ok {
					continue
				}
				g := int(pg.Count)
				r.app.mu.Lock()
				r.app.held[g] = heldMsg{sender: m.Sender, nonce: m.RequestNonce}
				r.app.mu.Unlock()
				if c := w.call(g); c != nil && c.final {
					go r.node.Reply(context.Background(), m.Sender, m.RequestNonce, &p2p.Pong{Count: uint64(1000 + g)})
				}
				w.markSeen(g, "y")
			}
		}()
		return r
	}
}

func (w *hworld) startFake(p int) *hfake {
	f := &hfake{idx: p, id: []byte(fmt.Sprintf("peer%d", p)), held: map[int]heldMsg{}, calls: map[*fsess]map[uint64]*hcall{}, nonce: uint64(1) << 40}
	w.listenFake(f)
	return f
}

func (w *hworld) listenFake(f *hfake) {
	ln, err := net.Listen("tcp", "127.0.0.1:0")
	if err != nil {
		panic(err)
	}
	f.ln, f.addr = ln, ln.Addr().String()
	go func() {
		for {
			c, err := ln.Accept()
			if err != nil {
				return
			}
			fs := &fsess{c: c, dial: -1, dead: make(chan struct{})}
			f.mu.Lock()
			f.all = append(f.all, fs)
			f.mu.Unlock()
			w.addConn(f.idx, fs)
			go func() {
				s, err := fakepeer.Handshake(c, f.id)
				if err != nil {
					return
				}
				fs.s = s
				w.serveFake(f, fs)
			}()
		}
	}()
}

// serveFake reads what N sends on one connection of the endpoint: requests are held, replies complete the endpoint's calls.
func (w *hworld) serveFake(f *hfake, fs *fsess) {
	for {
		pa, err := fs.s.Read()
		if err != nil {
			fs.cut() // closed by N (or by the harness): the endpoint forgets the connection
			return
		}
		var dyn ptypes.DynamicAny
		if err := ptypes.UnmarshalAny(pa.GetAnything(), &dyn); err != nil {
			continue
		}
		if pa.GetReplyFlag() {
			f.mu.Lock()
			c := f.calls[fs][pa.GetRequestNonce()]
			delete(f.calls[fs], pa.GetRequestNonce())
			f.mu.Unlock()
			if c != nil {
				if pg, ok := dyn.Message.(*p2p.Pong); ok {
					c.payload = pg.Count
				} else {
					c.err = fmt.Errorf("not a Pong")
				}
				select {
				case <-c.done:
				default:
					close(c.done)
				}
			}
			continue
		}
		pg, ok := dyn.Message.(*p2p.Ping)
		if !ok {
			continue
		}
		g := int(pg.Count)
		f.mu.Lock()
		f.held[g] = heldMsg{nonce: pa.GetRequestNonce(), sess: fs}
		f.mu.Unlock()
		at := "?"
		w.mu.Lock()
		for j, ch := range w.pair[f.idx] {
			if ch == connHandle(fs) {
				at = strconv.Itoa(j)
			}
		}
		w.mu.Unlock()
		if c := w.call(g); c != nil && c.final {
			fs.s.Send(&p2p.Pong{Count: uint64(1000 + g)}, pa.GetRequestNonce(), true, 0)
		}
		w.markSeen(g, at)
	}
}

func (w *hworld) peerID(p int) []byte {
	if w.kinds[p] == "f" {
		return w.fakes[p].id
	}
	return []byte(w.reals[p].id)
}

func (w *hworld) startN() {
	w.n = w.startReal("node-N", func(id []byte) string {
		for p := range w.kinds {
			if string(id) == string(w.peerID(p)) {
				if w.kinds[p] == "f" {
					return w.fakes[p].addr
				}
				return w.toPeer[p].addr()
			}
		}
		return ""
	})
	w.nAddr = w.n.addr
	for p := range w.kinds {
		if w.kinds[p] == "r" {
			w.toN[p].setTarget(w.nAddr)
		}
	}
}

func (w *hworld) startPeer(p int) {
	r := w.startReal(fmt.Sprintf("peer%d", p), func(id []byte) string {
		if string(id) == "node-N" {
			return w.toN[p].addr()
		}
		return ""
	})
	w.reals[p] = r
	w.toPeer[p].setTarget(r.addr)
}

// tables is a snapshot of every real node's table sizes.
func (w *hworld) tables() string {
	var sb strings.Builder
	f := func(r *hreal) {
		if r != nil {
			i, c := p2p.VerifNumOfClient(r.node)
			fmt.Fprintf(&sb, "%d/%d ", i, c)
		}
	}
	f(w.n)
	for _, r := range w.reals {
		f(r)
	}
	return sb.String()
}

// settleTables waits until the table sizes of the real nodes have not changed for a while.
func (w *hworld) settleTables() {
	last, since := w.tables(), time.Now()
	deadline := time.Now().Add(2 * time.Second)
	for time.Now().Before(deadline) {
		time.Sleep(10 * time.Millisecond)
		if cur := w.tables(); cur != last {
			last, since = cur, time.Now()
		} else if time.Since(since) > 150*time.Millisecond {
			return
		}
	}
}

func (w *hworld) newCall(src, dst int, final bool) *hcall {
	w.mu.Lock()
	defer w.mu.Unlock()
	c := &hcall{g: len(w.calls), src: src, dst: dst, done: make(chan struct{}), seen: make(chan struct{}), final: final}
	w.calls = append(w.calls, c)
	return c
}

// issue starts one Request call and waits until the destination's application has the message, the
// call is back, or it is clear that neither is going to happen soon.
func (w *hworld) issue(src, dst int, final bool) *hcall {
	c := w.newCall(src, dst, final)
	ctx, cancel := context.WithCancel(context.Background())
	c.cancel = cancel
	msg := &p2p.Ping{Count: uint64(c.g)}
	realCall := func(n p2p.P2PInterface, id []byte) {
		go func() {
			m, err := n.Request(ctx, id, msg)
			if err != nil {
				c.err = err
			} else if pg, ok := m.Msg.Message.(*p2p.Pong); ok {
				c.payload = pg.Count
			} else {
				c.err = fmt.Errorf("not a Pong: %T", m.Msg.Message)
			}
			close(c.done)
		}()
	}
	switch {
	case src < 0:
		realCall(w.n.node, w.peerID(dst))
	case w.kinds[src] == "r":
		realCall(w.reals[src].node, []byte("node-N"))
	default:
		f := w.fakes[src]
		f.mu.Lock()
		fs := f.cur
		f.mu.Unlock()
		if fs != nil {
			select {
			case <-fs.dead:
				fs = nil
			default:
			}
		}
		if fs == nil {
			conn, err := net.DialTimeout("tcp", w.nAddr, 2*time.Second)
			if err != nil {
				c.err = err
				close(c.done)
				break
			}
			fs = &fsess{c: conn, dial: src, dead: make(chan struct{})}
			w.addConn(src, fs)
			s, err := fakepeer.Handshake(conn, f.id)
			if err != nil {
				c.err = err
				close(c.done)
				break
			}
			fs.s = s
			f.mu.Lock()
			f.cur = fs
			f.all = append(f.all, fs)
			f.mu.Unlock()
			go w.serveFake(f, fs)
		}
		f.mu.Lock()
		f.nonce++
		k := f.nonce
		if f.calls[fs] == nil {
			f.calls[fs] = map[uint64]*hcall{}
		}
		f.calls[fs][k] = c
		f.mu.Unlock()
		go func() { // the endpoint's own context handling
			select {
			case <-ctx.Done():
				f.mu.Lock()
				delete(f.calls[fs], k)
				f.mu.Unlock()
				select {
				case <-c.done:
				default:
					c.err = ctx.Err()
					close(c.done)
				}
			case <-c.done:
			}
		}()
		fs.s.Send(msg, k, false, 0)
	}
	select {
	case <-c.seen:
	case <-c.done:
	case <-time.After(settleSeen):
	}
	return c
}

func (w *hworld) answer(g int) {
	c := w.call(g)
	if c == nil {
		return
	}
	reply := &p2p.Pong{Count: uint64(1000 + g)}
	switch {
	case c.dst < 0 || w.kinds[c.dst] == "r":
		r := w.n
		if c.dst >= 0 {
			r = w.reals[c.dst]
		}
		r.app.mu.Lock()
		hm, ok := r.app.held[g]
		delete(r.app.held, g)
		r.app.mu.Unlock()
		if !ok {
			return
		}
		c.answered = true
		ctx, cancel := context.WithTimeout(context.Background(), 3*time.Second)
		r.node.Reply(ctx, hm.sender, hm.nonce, reply)
		cancel()
	default:
		f := w.fakes[c.dst]
		f.mu.Lock()
		hm, ok := f.held[g]
		delete(f.held, g)
		f.mu.Unlock()
		if !ok {
			return
		}
		c.answered = true
		hm.sess.s.Send(reply, hm.nonce, true, 0)
	}
	select {
	case <-c.done:
	case <-time.After(settleReply):
	}
}

// harm marks the calls that are out between N and peer p (p < 0: every peer) and travel over a connection
// dialled by `dialler` (-2: either direction).
func (w *hworld) harm(p, dialler int) {
	w.mu.Lock()
	defer w.mu.Unlock()
	for _, c := range w.calls {
		select {
		case <-c.done:
			continue
		default:
		}
		if (p < 0 || c.src == p || c.dst == p) && (dialler == -2 || c.src == dialler) {
			c.harmed = true
		}
	}
}

func (w *hworld) cutAll(p int) {
	w.mu.Lock()
	hs := append([]connHandle(nil), w.pair[p]...)
	w.mu.Unlock()
	for _, h := range hs {
		h.cut()
	}
}

func (w *hworld) restartPeer(p int) {
	w.harm(p, -2)
	if w.kinds[p] == "r" {
		w.reals[p].node.Leave()
		w.cutAll(p)
		w.startPeer(p)
	} else {
		f := w.fakes[p]
		f.ln.Close()
		w.cutAll(p)
		f.mu.Lock()
		f.cur = nil
		f.held = map[int]heldMsg{}
		f.mu.Unlock()
		w.listenFake(f)
	}
	// the calls of the old incarnation are gone with it
	w.mu.Lock()
	for _, c := range w.calls {
		if c.src == p {
			c.cancel()
		}
	}
	w.mu.Unlock()
	w.settleTables()
}

func (w *hworld) restartN() {
	w.harm(-1, -2)
	w.n.node.Leave()
	for p := range w.kinds {
		w.cutAll(p)
	}
	w.mu.Lock()
	for _, c := range w.calls {
		if c.src < 0 {
			c.cancel()
		}
	}
	w.mu.Unlock()
	w.startN()
	w.settleTables()
}

func (w *hworld) waitBack(c *hcall) bool {
	select {
	case <-c.done:
		return true
	case <-time.After(callBound):
		return false
	}
}

func execHist(peersS, stepsS string) (res h.Result) {
	kinds := split(peersS)
	w := &hworld{kinds: kinds, reals: make([]*hreal, len(kinds)), fakes: make([]*hfake, len(kinds)),
		toPeer: make([]*hrelay, len(kinds)), toN: make([]*hrelay, len(kinds)), pair: make([][]connHandle, len(kinds))}
	for p, k := range kinds {
		p := p
		switch k {
		case "f":
			w.fakes[p] = w.startFake(p)
		case "r":
			w.toPeer[p] = newRelay(func(c *rconn) { c.dial = -1; w.addConn(p, c) })
			w.toN[p] = newRelay(func(c *rconn) { c.dial = p; w.addConn(p, c) })
		default:
			panic("bad peer kind " + k)
		}
	}
	w.startN()
	for p, k := range kinds {
		if k == "r" {
			w.startPeer(p)
		}
	}
	faults := 0
	for _, op := range split(stepsS) {
		var a []int
		if len(op) > 1 {
			for _, x := range strings.Split(op[1:], ".") {
				a = append(a, h.Atoi(x))
			}
		}
		arg := func(i int) int {
			if i < len(a) {
				return a[i]
			}
			return 0
		}
		if op[0] != 'X' && op[0] != 'a' && op[0] != 'e' && (len(a) == 0 || arg(0) >= len(kinds)) {
			panic("bad hist step " + op)
		}
		switch op[0] {
		case 'q':
			w.issue(-1, arg(0), false)
		case 'u':
			w.issue(arg(0), -1, false)
		case 'a':
			w.answer(arg(0))
		case 'k':
			faults++
			w.n.node.DisConnectTo(w.peerID(arg(0)))
		case 'K':
			faults++
			if kinds[arg(0)] == "r" {
				w.reals[arg(0)].node.DisConnectTo([]byte("node-N"))
			} else {
				f := w.fakes[arg(0)]
				f.mu.Lock()
				f.cur = nil
				f.mu.Unlock()
			}
		case 'c':
			faults++
			w.mu.Lock()
			var hd connHandle
			if arg(1) < len(w.pair[arg(0)]) {
				hd = w.pair[arg(0)][arg(1)]
			}
			w.mu.Unlock()
			if hd != nil {
				w.harm(arg(0), hd.dialler())
				hd.cut()
				if f := w.fakes[arg(0)]; f != nil {
					f.mu.Lock()
					if f.cur != nil && connHandle(f.cur) == hd {
						f.cur = nil
					}
					f.mu.Unlock()
				}
				w.settleTables()
			}
		case 'x':
			faults++
			w.restartPeer(arg(0))
		case 'X':
			faults++
			w.restartN()
		case 'e':
			if c := w.call(arg(0)); c != nil {
				if !c.answered {
					c.expired = true
				}
				c.cancel()
				w.waitBack(c)
			}
		default:
			panic("bad hist step " + op)
		}
	}
	// the end of the case: cancel what is still out, end every connection, ask every peer once more
	n0 := len(w.calls)
	stuck := ""
	for _, c := range w.calls[:n0] {
		c.cancel()
		if !w.waitBack(c) && stuck == "" {
			stuck = fmt.Sprintf("request-never-returned: request %d did not return within %v of its context ending", c.g, callBound)
		}
	}
	show := func(c *hcall) string {
		select {
		case <-c.done:
		default:
			return "hang"
		}
		switch {
		case c.err != nil:
			return "err"
		case c.payload == uint64(1000+c.g):
			return "ok"
		}
		return fmt.Sprintf("wrong:%d", int(c.payload)-1000)
	}
	var rs, at, nc []string
	for _, c := range w.calls[:n0] {
		rs = append(rs, show(c))
		s := c.seenAt
		if s == "" {
			s = "-"
		}
		at = append(at, s)
	}
	for p := range kinds {
		w.mu.Lock()
		nc = append(nc, strconv.Itoa(len(w.pair[p])))
		w.mu.Unlock()
	}
	for p := range kinds {
		w.cutAll(p)
		if f := w.fakes[p]; f != nil {
			f.mu.Lock()
			f.cur = nil
			f.mu.Unlock()
		}
	}
	w.settleTables()
	probe := func(src, dst int) string {
		c := w.issue(src, dst, true)
		select {
		case <-c.done:
		case <-time.After(3 * time.Second):
			c.cancel()
			w.waitBack(c)
		}
		return show(c)
	}
	var fw, bw []string
	for p := range kinds {
		fw = append(fw, probe(-1, p))
	}
	for p := range kinds {
		bw = append(bw, probe(p, -1))
	}
	res.Impl = fmt.Sprintf("res=%s at=%s conns=%s probes=%s rprobes=%s", join(rs), join(at), join(nc), join(fw), join(bw))

	// ---- the property on what was observed
	var viol []string
	for _, c := range w.calls[:n0] {
		who := fmt.Sprintf("request %d (%s → %s)", c.g, w.name(c.src), w.name(c.dst))
		if c.err == nil && c.payload != uint64(1000+c.g) {
			viol = append(viol, fmt.Sprintf("cross-talk: %s returned the reply addressed to request %d", who, int(c.payload)-1000))
		}
		if c.err != nil && c.answered && !c.harmed && !c.expired && c.seenAt != "" {
			viol = append(viol, fmt.Sprintf("reply-lost: %s reached the peer's application, was answered, no connection between the two was cut and nobody restarted, yet the call returned an error (%s)", who, h.OneLine(c.err.Error())))
		}
	}
	for i, o := range fw {
		if o != "ok" {
			viol = append(viol, fmt.Sprintf("later-request-not-served: after every connection had ended a request of N to peer %d (reachable, answering at once) returned %s", i, o))
		}
	}
	for i, o := range bw {
		if o != "ok" {
			viol = append(viol, fmt.Sprintf("later-request-not-served: after every connection had ended a request of peer %d to N (reachable, answering at once) returned %s", i, o))
		}
	}
	if stuck != "" {
		viol = append(viol, stuck)
	}
	if len(viol) > 0 {
		res.Oracle = viol[0]
		if len(viol) > 1 {
			res.Oracle += fmt.Sprintf(" (+%d more)", len(viol)-1)
		}
	}
	res.Class, res.Nontrivial = histClass(peersS, stepsS)
	w.n.node.Leave()
	for _, r := range w.reals {
		if r != nil {
			r.node.Leave()
		}
	}
	_ = faults
	return
}

func (w *hworld) name(p int) string {
	if p < 0 {
		return "N"
	}
	return fmt.Sprintf("peer %d", p)
}

func histClass(peersS, stepsS string) (string, bool) {
	kinds := map[byte]bool{}
	for _, op := range split(stepsS) {
		kinds[op[0]] = true
	}
	var ks []string
	for _, k := range "kKcxXe" {
		if kinds[byte(k)] {
			ks = append(ks, string(k))
		}
	}
	pk := "fake"
	if strings.Contains(peersS, "r") {
		pk = "real"
		if strings.Contains(peersS, "f") {
			pk = "mixed"
		}
	}
	if len(ks) == 0 {
		return "hist-" + pk + "-plain", false
	}
	return "hist-" + pk + "-" + strings.Join(ks, ""), true
}

// ---------------------------------------------------------------- generator

func genHist(tier string, rng *h.Rng, emit func(string)) {
	// directed: one shape per mechanism of the connection tables
	for _, l := range []string{
		"hist f q0,a0",
		"hist r q0,a0",
		"hist r q0,a0,c0.0,q0,a1", // an outbound connection ends, then a later request
		"hist f q0,a0,c0.0,q0,a1", //   (peer hang-up)
		"hist r q0,k0,q0,a0,a1",   // request in flight, DisConnectTo, second connection (refused by a node)
		"hist f q0,k0,q0,a1,a0",   //   … accepted by an endpoint: late replies on both, crosswise
		"hist f q0,k0,q0,a0,a1,k0,q0,a2",
		"hist r q0,c0.0,q0,a0,a1", // the reply to a request of the OLD connection arrives after the reconnect (2071f1f)
		"hist r q0,q0,c0.0,q0,q0,a1,a0,a3,a2",
		"hist r u0,a0,q0,a1,c0.1,u0,a2",       // both directions up, N's outbound one ends, traffic on the inbound one
		"hist r u0,a0,q0,a1,c0.0,q0,a2,u0,a3", //   … the inbound one ends
		"hist f u0,a0,K0,u0,a1",               // a second inbound connection from the same id while the first is up
		"hist f u0,K0,u0,a0,a1",
		"hist r q0,a0,x0,q0,a1", // the peer restarts
		"hist r q0,x0,q0,a1,a0",
		"hist r u0,x0,u0,a1",
		"hist r q0,a0,X,q0,a1", // N restarts
		"hist r u0,X,u0,a1,a0",
		"hist r,f q0,u0,a0,a1,x0,q0,q1,a2,a3,X,u1,a4",
		"hist r,r q0,q1,c0.0,a1,q0,a2,a0", // a connection to one peer ends, the other peer is unaffected
		"hist f,r q0,q1,k0,q0,c1.0,q1,a3,a2,a1,a0",
		"hist r q0,e0,a0,q0,a1", // a context ends, the reply comes late
	} {
		emit(l)
	}
	n := 22
	if tier == "thorough" {
		n = 260
	}
	for i := 0; i < n; i++ {
		np := 1 + rng.Intn(2)
		if rng.Intn(6) == 0 {
			np = 3
		}
		kinds := make([]string, np)
		for j := range kinds {
			kinds[j] = []string{"r", "r", "f"}[rng.Intn(3)]
		}
		steps := 4 + rng.Intn(10)
		var ops []string
		reqs := 0
		open := map[int]bool{} // requests not answered yet
		for j := 0; j < steps; j++ {
			p := rng.Intn(np)
			switch c := rng.Intn(20); {
			case c < 6:
				ops = append(ops, fmt.Sprintf("q%d", p))
				open[reqs] = true
				reqs++
			case c < 9:
				ops = append(ops, fmt.Sprintf("u%d", p))
				open[reqs] = true
				reqs++
			case c < 14:
				if len(open) > 0 {
					k := rng.Intn(reqs)
					for !open[k] {
						k = (k + 1) % reqs
					}
					delete(open, k)
					ops = append(ops, fmt.Sprintf("a%d", k))
				}
			case c < 16:
				ops = append(ops, fmt.Sprintf("c%d.%d", p, rng.Intn(3)))
			case c < 17:
				ops = append(ops, fmt.Sprintf("k%d", p))
			case c < 18:
				ops = append(ops, fmt.Sprintf("K%d", p))
			case c < 19:
				if rng.Intn(3) == 0 {
					ops = append(ops, "X")
				} else {
					ops = append(ops, fmt.Sprintf("x%d", p))
				}
			default:
				if reqs > 0 {
					ops = append(ops, fmt.Sprintf("e%d", rng.Intn(reqs)))
				}
			}
		}
		// answer some of what is still open at the end (late replies)
		for k := 0; k < reqs; k++ {
			if open[k] && rng.Intn(3) > 0 {
				ops = append(ops, fmt.Sprintf("a%d", k))
			}
		}
		if len(ops) == 0 {
			ops = []string{"q0"}
		}
		emit("hist " + strings.Join(kinds, ",") + " " + strings.Join(ops, ","))
	}
}

/-
The production point group of `share/poly.go` as a module over the scalars (review B #4).

`G2v` = the values of the model's bn256 G2 (`Model/Bn256.lean`: affine points over `Fp2`, the arithmetic
of `twist.go`) that are `G2.valid`: reduced coordinates, on the twist, killed by the group order `r` –
exactly what `pointG2.UnmarshalBinary` accepts.  With the MODEL's own `G2.add / G2.neg / G2.smul` it is

* an `AddCommGroup` (pulled back along the injective `pt2 : G2 → E'(F_p²)` of
  `Proofs/ComposeBn256Group.lean`, which turns the model's operations into Mathlib's group law), and
* a `Module (Zq r)` over the scalars the driver computes with (`k • P = G2.smul k.val P`; the module laws
  need `r • P = O`, which is part of `G2.valid`).  No hypothesis is left: `r` is proved prime
  (`Proofs/Primes.lean`), the torsion is in the subtype.

So every theorem of `Props/C09.lean` stated "for every field `F` and `F`-module `G`" holds at
`F = Zq r`, `G = G2v` – the group the production suite shares in – see `Props/C09G2.lean`.
-/
import DosModel.Proofs.ComposeBn256Group
import DosModel.Proofs.ComposePrimes
import DosModel.Proofs.Share
import DosModel.Proofs.ShareZq

set_option linter.unusedSectionVars false

namespace Dos.ShareG2
open Dos Dos.Bn256 Dos.Compose Dos.Compose.Curve

/-- valid G2 points of the model: what `pointG2.UnmarshalBinary` accepts -/
def G2v : Type := {P : Bn256.G2 // G2.valid P = true}

instance : DecidableEq G2v := fun a b => decidable_of_iff (a.1 = b.1) Subtype.ext_iff.symm

/-- the point of `E'(F_p²)` a valid model value denotes -/
noncomputable def φ (P : G2v) : (sw (c2 twistB)).Point := pt2 P.1

theorem φ_inj : Function.Injective φ := fun P Q h => Subtype.ext (pt2_inj P.2 Q.2 h)

theorem valid_inf : G2.valid (.inf : Bn256.G2) = true := rfl

instance : Zero G2v := ⟨⟨.inf, valid_inf⟩⟩
instance : Add G2v := ⟨fun P Q => ⟨G2.add P.1 Q.1, (valid2_add _ _ P.2 Q.2).1⟩⟩
instance : Neg G2v := ⟨fun P => ⟨G2.neg P.1, (valid2_neg _ P.2).1⟩⟩
instance : Sub G2v := ⟨fun P Q => P + -Q⟩
instance : SMul Nat G2v := ⟨fun k P => ⟨G2.smul k P.1, (valid2_smul k _ P.2).1⟩⟩
instance : SMul Int G2v := ⟨fun z P => match z with
  | .ofNat k => k • P
  | .negSucc k => -((k + 1) • P)⟩

theorem φ_zero : φ 0 = 0 := rfl
theorem φ_add (P Q : G2v) : φ (P + Q) = φ P + φ Q := (valid2_add _ _ P.2 Q.2).2
theorem φ_neg (P : G2v) : φ (-P) = -φ P := (valid2_neg _ P.2).2
theorem φ_sub (P Q : G2v) : φ (P - Q) = φ P - φ Q := by
  show φ (P + -Q) = _
  rw [φ_add, φ_neg, sub_eq_add_neg]
theorem φ_nsmul (k : Nat) (P : G2v) : φ (k • P) = k • φ P := (valid2_smul k _ P.2).2
theorem φ_zsmul (z : Int) (P : G2v) : φ (z • P) = z • φ P := by
  cases z with
  | ofNat k => show φ (k • P) = _; rw [φ_nsmul]; simp
  | negSucc k =>
    show φ (-((k + 1) • P)) = _
    rw [φ_neg, φ_nsmul, negSucc_zsmul]

/-- **the model's G2 (valid values) is a commutative group under the model's own operations** -/
noncomputable instance : AddCommGroup G2v :=
  Function.Injective.addCommGroup φ φ_inj φ_zero φ_add φ_neg φ_sub (fun P k => φ_nsmul k P)
    (fun P z => φ_zsmul z P)

/-- every valid point is killed by the group order -/
theorem order_nsmul (P : G2v) : Bn256.r • P = 0 := by
  apply φ_inj
  rw [φ_nsmul, φ_zero]
  obtain ⟨_, c1, s1⟩ := (valid2_iff P.1).1 P.2
  exact (inSubgroup_iff P.1 c1).1 s1

theorem r_eq : Bn256.r = Share.bn256Order := by decide

theorem mod_nsmul (c : Nat) (P : G2v) : (c % Share.bn256Order) • P = c • P := by
  conv_rhs => rw [← Nat.mod_add_div c Share.bn256Order]
  rw [add_nsmul, mul_nsmul, ← r_eq, order_nsmul, nsmul_zero, add_zero]

/-- **… and a module over the scalars `Zq r`**: `k • P` is the model's `G2.smul k.val P` -/
noncomputable instance : Module (Zq Share.bn256Order) G2v where
  smul k P := k.val • P
  one_smul P := by
    show (1 % Share.bn256Order) • P = P
    rw [mod_nsmul, one_nsmul]
  mul_smul a b P := by
    show ((a.val * b.val) % Share.bn256Order) • P = a.val • (b.val • P)
    rw [mod_nsmul, mul_nsmul']
  smul_zero k := nsmul_zero _
  smul_add k P Q := nsmul_add _ _ _
  add_smul a b P := by
    show ((a.val + b.val) % Share.bn256Order) • P = a.val • P + b.val • P
    rw [mod_nsmul, add_nsmul]
  zero_smul P := by
    show (0 % Share.bn256Order) • P = 0
    rw [mod_nsmul, zero_nsmul]

/-- scalar multiplication of the module IS the model's `G2.smul` -/
theorem smul_val (k : Zq Share.bn256Order) (P : G2v) : (k • P).1 = G2.smul k.val P.1 := rfl

theorem add_val (P Q : G2v) : (P + Q).1 = G2.add P.1 Q.1 := rfl

/-- no non-zero scalar annihilates a non-zero valid point (the order is prime): hypothesis `hb` of
`check_iff` -/
theorem smul_eq_zero_imp (b : G2v) (hb : b ≠ 0) (c : Zq Share.bn256Order) (h : c • b = 0) : c = 0 := by
  by_contra hc
  apply hb
  have : c⁻¹ • (c • b) = b := by rw [smul_smul, inv_mul_cancel₀ hc, one_smul]
  rw [← this, h, smul_zero]

/-- the generator of G2 as a valid point -/
theorem g2gen_valid : G2.valid g2gen = true := by decide +kernel

def gen : G2v := ⟨g2gen, g2gen_valid⟩

theorem gen_ne_zero : gen ≠ 0 := by
  intro h
  have : g2gen = Bn256.G2.inf := congrArg Subtype.val h
  revert this; decide

end Dos.ShareG2

#!/bin/sh
# Runs setup and then every property's thorough tier, four at a time; one summary line each.
cd "$(dirname "$0")"
mkdir -p work
./setup.sh > work/setup.log 2>&1 || true
mkdir -p work/sweep
ls meta/C*.json | sed 's#meta/\(.*\)\.json#\1#' | xargs -P 4 -I{} sh -c './check {} thorough > work/sweep/{}-thorough.log 2>&1; echo "{} exit=$? $(tail -1 work/sweep/{}-thorough.log)"; grep -h "^VIOLATION" work/sweep/{}-thorough.log | head -3'

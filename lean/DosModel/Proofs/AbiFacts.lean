/-
Decidable comparisons between the regenerated ABI facts (Gen/AbiFacts.lean, Gen/EventTable.lean: the abigen
bindings, the adaptor's call sites, the subscription table) and what the models assume
(Model/CallData.lean, Model/EventAbi.lean).  Definitions only; the theorems are in Props/C19Abi.lean and
Props/C18Abi.lean.
-/
import DosModel.Model.CallData
import DosModel.Model.EventAbi
import DosModel.Model.KeccakNat
import DosModel.Gen.AbiFacts
import DosModel.Gen.EventTable
import DosModel.Gen.ReqLoopFacts

namespace Dos.AbiCheck
open Dos Dos.Abi Dos.CallData Dos.EventAbi Dos.Gen.AbiFacts

/-- Go package of a contract's binding -/
def pkgOf : Contract → String
  | .proxy => "dosproxy"
  | .commitReveal => "commitreveal"

/-- receiver variable of the binding's methods -/
def recvOf : Contract → String
  | .proxy => "Dosproxy"
  | .commitReveal => "Commitreveal"

/-- slice the adaptor indexes for a contract's rpc sessions -/
def collOf : Contract → String
  | .proxy => "proxies"
  | .commitReveal => "crs"

/-- the Go type abigen gives a parameter / event field of an ABI type -/
def goElem : Elem → String
  | .uint 8 => "uint8"
  | .uint 16 => "uint16"
  | .uint 32 => "uint32"
  | .uint 64 => "uint64"
  | .uint _ => "*big.Int"
  | .address => "common.Address"
  | .bool => "bool"
  | .fixedBytes n => "[" ++ toString n ++ "]byte"

def goType : AbiType → String
  | .elem e => goElem e
  | .sarray e n => "[" ++ toString n ++ "]" ++ goElem e
  | .darray e => "[]" ++ goElem e
  | .bytes => "[]byte"
  | .string => "string"

/-- `abi.ToCamelCase`: upper-case the first letter of every `_`-separated part, drop the underscores -/
def capitalize (s : String) : String :=
  match s.toList with
  | [] => ""
  | c :: cs => String.ofList (c.toUpper :: cs)

/-- the `_`-separated parts of a name, as character lists (structural recursion: the kernel evaluates it) -/
def splitUnderscore : List Char → List Char → List (List Char)
  | [], cur => [cur.reverse]
  | c :: cs, cur => if c == '_' then cur.reverse :: splitUnderscore cs [] else splitUnderscore cs (c :: cur)

def capChars : List Char → List Char
  | [] => []
  | c :: cs => c.toUpper :: cs

def toCamelCase (s : String) : String :=
  String.ofList ((splitUnderscore s.toList []).map capChars).flatten

/-! ### methods (C19) -/

def abiMethod (m : Method) : Option AMethod :=
  methods.find? (fun a => a.contract == pkgOf m.contract && a.name == m.name)

/-- the embedded ABI declares the method with exactly the model's inputs (names, types, order), nothing indexed,
not payable -/
def methodMatches (m : Method) : Bool :=
  match abiMethod m with
  | some a =>
    a.inputs.map (fun i => (i.name, i.ty, i.indexed)) == m.inputs.map (fun p => (p.1, p.2.name, false))
      && a.mutability == "nonpayable"
      && (methods.filter (fun a => a.contract == pkgOf m.contract && a.name == m.name)).length == 1
  | none => false

def transactorOf (m : Method) : Option BMethod :=
  transactors.find? (fun b => b.contract == pkgOf m.contract && b.goName == m.binding)
def sessionOf (m : Method) : Option BMethod :=
  sessions.find? (fun b => b.contract == pkgOf m.contract && b.goName == m.binding)

/-- the Transactor method packs ABI method `m.name` with its own parameters, in order, each of the Go type of the
ABI input in that position; the Session method hands its parameters on in order with the session's TransactOpts -/
def bindingForwards (m : Method) : Bool :=
  match transactorOf m, sessionOf m with
  | some t, some s =>
    t.target == m.name && t.first == "opts"
      && t.params == ("opts", "*bind.TransactOpts") :: m.inputs.map (fun p => (p.1, goType p.2))
      && t.passed == m.inputs.map (·.1)
      && s.params == m.inputs.map (fun p => (p.1, goType p.2))
      && s.passed == m.inputs.map (·.1)
      && s.first == "&_" ++ recvOf m.contract ++ ".TransactOpts"
      && s.target == "_" ++ recvOf m.contract ++ ".Contract." ++ m.binding
  | _, _ => false

/-- the Go expression the adaptor puts into each ABI slot of a queue method: (ABI input name, expression) -/
def slotSources (m : Method) : List (String × String) :=
  match callSites.find? (fun c => c.adaptorMethod == m.goName) with
  | some c => (m.inputs.map (·.1)).zip c.args
  | none => []

/-- what the model (`Call.args`) assumes feeds each slot -/
def modelSlotSources : List (String × List (String × String)) := [
  ("SetGroupSize", [("newSize", "groupSize")]),
  ("UpdateRandomness", [("sig", "sig")]),
  ("DataReturn", [("requestId", "requestId"), ("trafficType", "trafficType"), ("result", "result"), ("sig", "sig")]),
  ("RegisterGroupPubKey", [("groupId", "groupId"), ("suggestedPubKey", "pubKey")]),
  ("RegisterNewNode", []),
  ("UnRegisterNode", []),
  ("SignalUnregister", [("member", "addr")]),
  ("StartCommitReveal", [("_startBlock", "big.NewInt(startBlock)"), ("_commitDuration", "big.NewInt(commitDuration)"),
    ("_revealDuration", "big.NewInt(revealDuration)"), ("_revealThreshold", "big.NewInt(revealThreshold)")]),
  ("Commit", [("_cid", "cid"), ("_secretHash", "commitment")]),
  ("Reveal", [("_cid", "cid"), ("_secret", "secret")])]

/-- one call site per queue method, on the rpc session slice of the right contract at the request's endpoint index,
calling the binding method the model names, with as many arguments as ABI inputs, each the expression the model assumes -/
def callSiteMatches (m : Method) : Bool :=
  match callSites.filter (fun c => c.adaptorMethod == m.goName) with
  | [c] =>
    c.coll == collOf m.contract && c.index == "idx" && c.goMethod == m.binding
      && c.args.length == m.inputs.length
      && some (slotSources m) == (modelSlotSources.find? (fun p => p.1 == m.goName)).map (·.2)
  | _ => false

/-- how the local variables of the call sites are computed (`prep` statements of the closures, Gen/ReqLoopFacts) -/
def prepOf (goName : String) : List String :=
  match Dos.Gen.ReqLoopFacts.closures.find? (fun c => c.method == goName) with
  | some c => c.prep
  | none => []

def selectorHex (m : Method) : String := toHex (selector KeccakNat.keccak256 m.name m.types)

/-- the id abigen quoted in the doc comment of the Transactor method -/
def docSelector (m : Method) : String := ((transactorOf m).map (·.docId)).getD "?"

/-! ### events (C18) -/

def abiEvent (e : Ev) : Option AEvent :=
  events.find? (fun a => a.contract == (if e.cr then "commitreveal" else "dosproxy") && a.name == e.spec.name)

/-- the embedded ABI declares the event with exactly the model's inputs (names, types, indexed flags, order) -/
def eventMatches (e : Ev) : Bool :=
  match abiEvent e with
  | some a =>
    a.inputs.map (fun i => (i.name, i.ty, i.indexed)) == e.spec.inputs.map (fun i => (i.name, i.ty.name, i.indexed))
      && !a.anonymous
  | none => false

def bindingStructName (e : Ev) : String :=
  if e.cr then "commitreveal.Commitreveal" ++ e.spec.name else "dosproxy.Dosproxy" ++ e.spec.name

/-- the abigen event struct: one field per ABI input, in order, named `ToCamelCase(input)`, of the Go type of the
input's ABI type; then `Raw types.Log` -/
def bindingStructMatches (e : Ev) : Bool :=
  match Dos.Gen.EventTable.bindingStructs.find? (fun s => s.name == bindingStructName e) with
  | some s => s.fields == e.spec.inputs.map (fun i => (toCamelCase i.name, goType i.ty)) ++ [("Raw", "types.Log")]
  | none => false

/-- position of the ABI input whose binding field is `f` -/
def inputIndexOfField (e : Ev) (f : String) : Option Nat :=
  let names := e.spec.inputs.map (fun i => toCamelCase i.name)
  let k := names.findIdx (· == f)
  if k < names.length then some k else none

/-- for the table entry of event `e`: node-struct field ↦ position of the ABI input it is filled from -/
def nodeFieldSources (e : Ev) : List (String × Option Nat) :=
  match Dos.Gen.EventTable.entries.find? (fun en => en.index == e.index) with
  | some en => en.assigns.map (fun a =>
      (a.1, match a.2 with
        | .field f => inputIndexOfField e f
        | .mapAddrBytes f => inputIndexOfField e f
        | .other _ => none))
  | none => []

/-- what the property demands for the seven subscribed events: node field ↦ ABI input position -/
def modelFieldSources : List (Nat × List (String × Option Nat)) := [
  (0, [("LastRandomness", some 0), ("DispatchedGroupId", some 1)]),
  (1, [("RequestId", some 0), ("LastSystemRandomness", some 1), ("UserSeed", some 2), ("DispatchedGroupId", some 3)]),
  (2, [("QueryId", some 0), ("Timeout", some 1), ("DataSource", some 2), ("Selector", some 3), ("Randomness", some 4),
       ("DispatchedGroupId", some 5)]),
  (4, [("GroupId", some 0), ("NodeId", some 1)]),
  (5, [("GroupId", some 0), ("WorkingGroupSize", some 2)]),
  (7, [("GroupId", some 0)]),
  (13, [("Cid", some 0), ("StartBlock", some 1), ("CommitDuration", some 2), ("RevealDuration", some 3),
        ("RevealThreshold", some 4)])]

/-- the value the table entry of `e` puts into node-struct field `f`, given what the binding struct holds
(`vals[k]` = the field of ABI input `k`; `none` inside = Go zero value) -/
def deliveredField (e : Ev) (vals : List (Option AbiVal)) (f : String) : Option (Option AbiVal) :=
  match (nodeFieldSources e).find? (fun p => p.1 == f) with
  | some (_, some k) => vals[k]?
  | _ => none

def topic0Hex (e : Ev) : String := toHex (topic0 KeccakNat.keccak256 e.spec)

def docTopic0 (e : Ev) : String :=
  ((eventDocIds.find? (fun d => d.1 == (if e.cr then "commitreveal" else "dosproxy") && d.2.1 == e.spec.name)).map (·.2.2)).getD "?"

end Dos.AbiCheck

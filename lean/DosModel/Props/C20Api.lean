/-
C20 (round 5) — the public `kyber.Scalar` wrappers of group/edwards25519/scalar.go (Add, Sub, Neg, Mul, Inv, Div, Set,
Equal, setInt, SetBytes, MarshalBinary, UnmarshalBinary), as THEOREMS over the translated limb routines
(`Model/Ed25519ScalarApi.lean`: each wrapper is its method body over Gen.Ed25519Sc.scAdd / scSub / scMul; the bodies are
pinned as source text by `C20Pins.scalar_wrappers_source_pinned`).  Until round 5 the wrappers were checked
differentially only (`api`, `ali`, `apx` cases).

For ALL 32-byte operands — raw bytes as `UnmarshalBinary` stores them, reduced or not:
  * Add / Sub / Neg / Mul return the canonical 32-byte encoding of (a ± b) mod ℓ, −a mod ℓ, a·b mod ℓ;
  * Inv returns a^(ℓ−2) mod ℓ (the 256 square-and-multiply rounds over the bits of lMinus2, by induction), which is the
    inverse whenever ℓ ∤ a (Fermat, ℓ prime is proved) and 0 for a ≡ 0;
  * Div returns a·b^(ℓ−2) mod ℓ, hence (a / b)·b ≡ a when ℓ ∤ b;
  * every result is canonical: MarshalBinary returns the stored bytes unchanged and UnmarshalBinary reads them back.
-/
import Mathlib.FieldTheory.Finite.Basic
import DosModel.Proofs.Ed25519Api
import DosModel.Proofs.Ed25519Enc
import DosModel.Proofs.ComposePrimes

namespace Dos.Props.C20Api
open Dos Dos.Ed25519 Dos.Ed25519.Api Dos.Gen.Ed25519Sc

theorem canonical_of (r : Bytes) (hl : r.length = 32) (hlt : leNat r < ell) :
    marshal r = r ∧ unmarshal (marshal r) = .ok r := by
  have h : scMarshal r = r := (scMarshal_eq_self_iff r).mpr ⟨hl, hlt⟩
  refine ⟨h, ?_⟩
  show scUnmarshal (scMarshal r) = .ok r
  rw [h]; simp [scUnmarshal, hl]

example : marshal one = one := (canonical_of one (by decide) (by decide)).1

/-- **Add, Mul**: canonical encodings of (a + b) mod ℓ and a·b mod ℓ -/
theorem scalar_add_mul_correct (a b : Bytes) (ha : a.length = 32) (hb : b.length = 32) :
    ((add a b).length = 32 ∧ leNat (add a b) = (leNat a + leNat b) % ell ∧ marshal (add a b) = add a b)
    ∧ ((mul a b).length = 32 ∧ leNat (mul a b) = (leNat a * leNat b) % ell ∧ marshal (mul a b) = mul a b) := by
  have hadd : leNat (add a b) = (leNat a + leNat b) % ell := by
    have h := scAdd_full a b ha hb
    exact_mod_cast h
  have hmul : leNat (mul a b) = (leNat a * leNat b) % ell := scMul_val a b ha hb
  have hpos : 0 < ell := by decide
  exact ⟨⟨scAdd_length a b, hadd, (canonical_of _ (scAdd_length a b) (by rw [hadd]; exact Nat.mod_lt _ hpos)).1⟩,
    ⟨scMul_length a b, hmul, (canonical_of _ (scMul_length a b) (by rw [hmul]; exact Nat.mod_lt _ hpos)).1⟩⟩

example : leNat (add (natLE 32 (ell - 1)) (natLE 32 (2 ^ 256 - 1)))
    = (leNat (natLE 32 (ell - 1)) + leNat (natLE 32 (2 ^ 256 - 1))) % ell :=
  (scalar_add_mul_correct _ _ (natLE_length _ _) (natLE_length _ _)).1.2.1

/-- **Sub, Neg**: canonical encodings of (a − b) mod ℓ and −a mod ℓ (the non-negative representatives) -/
theorem scalar_sub_neg_correct (a b : Bytes) (ha : a.length = 32) (hb : b.length = 32) :
    ((sub a b).length = 32 ∧ (leNat (sub a b) : Int) = ((leNat a : Int) - leNat b) % (ell : Int)
      ∧ marshal (sub a b) = sub a b)
    ∧ ((neg a).length = 32 ∧ (leNat (neg a) : Int) = (-(leNat a : Int)) % (ell : Int) ∧ marshal (neg a) = neg a) := by
  have hlt : ∀ x y : Bytes, x.length = 32 → y.length = 32 → leNat (scSub shrI x y) < ell := by
    intro x y hx hy
    have h := scSub_full x y hx hy
    have h2 : ((leNat x : Int) - leNat y) % (ell : Int) < (ell : Int) := Int.emod_lt_of_pos _ (by decide)
    rw [← h] at h2
    exact_mod_cast h2
  have hz : zero.length = 32 := by decide
  refine ⟨⟨scSub_length a b, scSub_full a b ha hb, (canonical_of _ (scSub_length a b) (hlt a b ha hb)).1⟩,
    ⟨scSub_length zero a, ?_, (canonical_of _ (scSub_length zero a) (hlt zero a hz ha)).1⟩⟩
  have h := scSub_full zero a hz ha
  rw [zero_val] at h
  simpa using h

example : (leNat (neg one) : Int) = (-(leNat one : Int)) % (ell : Int) :=
  (scalar_sub_neg_correct one one (by decide) (by decide)).2.2.1

/-- **Inv**: a^(ℓ−2) mod ℓ by the loop over the bits of `lMinus2`; the multiplicative inverse whenever ℓ ∤ a -/
theorem scalar_inv_correct (a : Bytes) (ha : a.length = 32) :
    (inv a).length = 32 ∧ leNat (inv a) = leNat a ^ (ell - 2) % ell ∧ marshal (inv a) = inv a
    ∧ (¬ ell ∣ leNat a → (leNat (inv a) * leNat a) % ell = 1)
    ∧ (ell ∣ leNat a → leNat (inv a) = 0) := by
  obtain ⟨hl, hv⟩ := inv_spec a ha
  have hpos : 0 < ell := by decide
  refine ⟨hl, hv, (canonical_of _ hl (by rw [hv]; exact Nat.mod_lt _ hpos)).1, ?_, ?_⟩
  · intro hnd
    haveI := Dos.Compose.fact_ell
    have hne : ((leNat a : ℕ) : ZMod ell) ≠ 0 := by
      rw [Ne, ZMod.natCast_eq_zero_iff]; exact hnd
    have h1 : (((leNat (inv a) * leNat a : ℕ)) : ZMod ell) = ((1 : ℕ) : ZMod ell) := by
      rw [hv]; push_cast
      rw [ZMod.natCast_mod, Nat.cast_pow, ← pow_succ]
      have : ell - 2 + 1 = ell - 1 := by decide
      rw [this]
      exact ZMod.pow_card_sub_one_eq_one hne
    have h2 := (ZMod.natCast_eq_natCast_iff' _ _ _).1 h1
    rw [h2]; decide
  · intro hd
    rw [hv]
    obtain ⟨c, hc⟩ := hd
    rw [hc, mul_pow]
    have : ell ^ (ell - 2) = ell * ell ^ (ell - 3) := by
      have : ell - 2 = (ell - 3) + 1 := by decide
      rw [this, pow_succ]; ring
    rw [this, mul_assoc]
    exact Nat.mul_mod_right _ _

example : (leNat (inv (natLE 32 2)) * leNat (natLE 32 2)) % ell = 1 :=
  (scalar_inv_correct _ (natLE_length _ _)).2.2.2.1 (by rw [leNat_natLE_of_lt 32 2 (by decide)]; decide)

/-- **Div**: a·b^(ℓ−2) mod ℓ; multiplied back by b it is a (mod ℓ) whenever ℓ ∤ b -/
theorem scalar_div_correct (a b : Bytes) (ha : a.length = 32) (hb : b.length = 32) :
    (div a b).length = 32 ∧ leNat (div a b) = (leNat a * (leNat b ^ (ell - 2) % ell)) % ell
    ∧ marshal (div a b) = div a b
    ∧ (¬ ell ∣ leNat b → (leNat (div a b) * leNat b) % ell = leNat a % ell) := by
  obtain ⟨hil, hiv, _, hinv, _⟩ := scalar_inv_correct b hb
  have hv : leNat (div a b) = (leNat a * (leNat b ^ (ell - 2) % ell)) % ell := by
    show leNat (scMul shrI a (inv b)) = _
    rw [scMul_val a (inv b) ha hil, hiv]
  have hpos : 0 < ell := by decide
  refine ⟨scMul_length _ _, hv, (canonical_of _ (scMul_length _ _) (by rw [hv]; exact Nat.mod_lt _ hpos)).1, ?_⟩
  intro hnd
  have h1 := hinv hnd
  rw [hiv] at h1
  rw [hv, Nat.mod_mul_mod, mul_assoc, Nat.mul_mod, h1, Nat.mul_one, Nat.mod_mod]

example : (div one one).length = 32 := (scalar_div_correct one one (by decide) (by decide)).1

/-- Set / Clone copy the bytes; Equal compares the RAW bytes (so ℓ and 0, two encodings of one value, are unequal);
setInt / SetBytes store canonical encodings -/
theorem scalar_plumbing_correct (a : Bytes) (n : Nat) (b : Bytes) :
    set a = a ∧ equal a a = true
    ∧ equal (natLE 32 ell) (natLE 32 0) = false
    ∧ marshal (setInt n) = setInt n ∧ leNat (setInt n) = n % ell
    ∧ marshal (setBytes b) = setBytes b ∧ leNat (setBytes b) = leNat b % ell := by
  have hpos : 0 < ell := by decide
  have hlt : ∀ m, leNat (natLE 32 (m % ell)) = m % ell := fun m =>
    leNat_natLE_of_lt 32 _ (Nat.lt_trans (Nat.mod_lt _ hpos) ell_lt)
  refine ⟨rfl, by simp [equal], by decide, ?_, hlt n, ?_, hlt (leNat b)⟩
  · exact (canonical_of _ (natLE_length _ _) (by rw [hlt]; exact Nat.mod_lt _ hpos)).1
  · exact (canonical_of _ (natLE_length _ _) (by rw [hlt]; exact Nat.mod_lt _ hpos)).1

example : leNat (setInt (ell + 5)) = 5 := by
  rw [(scalar_plumbing_correct [] (ell + 5) []).2.2.2.2.1]; decide

end Dos.Props.C20Api

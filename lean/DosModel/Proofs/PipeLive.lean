/-
C14 liveness, part 1: invariants used by the liveness theorems.
  * the shape of the state never changes,
  * a static goroutine is never idle,
  * a goroutine that closes `c` on every path has closed it when it has exited,
  * a goroutine that does not owe a `wgDone w` at its entry never owes one.
-/
import DosModel.Proofs.PipeHandoff

namespace Dos.Pipe

/-! ### the shape of the state -/

theorem effect_chs_length (s : State) (l : Lab) : (effect s l).chs.length = s.chs.length := by
  cases l <;> simp [effect, State.setLen, State.setClosed, State.setWg, State.setCtx]
  case spawn g => split <;> simp [State.setG]

theorem effect_wgs_length (s : State) (l : Lab) : (effect s l).wgs.length = s.wgs.length := by
  cases l <;> simp [effect, State.setLen, State.setClosed, State.setWg, State.setCtx]
  case spawn g => split <;> simp [State.setG]

theorem effect_ctxs_length (s : State) (l : Lab) : (effect s l).ctxs.length = s.ctxs.length := by
  cases l <;> simp [effect, State.setLen, State.setClosed, State.setWg, State.setCtx]
  case spawn g => split <;> simp [State.setG]

structure Shape (p : Pipeline) (s : State) : Prop where
  gs : s.gs.length = p.gs.length
  chs : s.chs.length = p.chans.length
  wgs : s.wgs.length = p.wgs.length
  ctxs : s.ctxs.length = p.nctx

theorem shape {p : Pipeline} : ∀ s, Reach p s → Shape p s := by
  apply reach_inv
  · exact ⟨by simp [init], by simp [init], by simp [init], by simp [init]⟩
  · intro s e s' _ ih hst
    cases hst with
    | env k hk hd => exact ⟨ih.gs, ih.chs, ih.wgs, by simp [State.setCtx, ih.ctxs]⟩
    | act g pc nd l n hat hnd hed hgd hdf =>
      exact ⟨by simp [effect_gs_length, ih.gs], by simp [effect_chs_length, ih.chs],
        by simp [effect_wgs_length, ih.wgs], by simp [effect_ctxs_length, ih.ctxs]⟩
    | sync g pc nd n g' pc' nd' n' c hne hat hnd hed hat' hnd' hed' hcap hcl =>
      exact ⟨by simp [ih.gs], ih.chs, ih.wgs, ih.ctxs⟩
    | exit g pc hat hnd => exact ⟨by simp [ih.gs], ih.chs, ih.wgs, ih.ctxs⟩

/-! ### static goroutines are never idle -/

theorem static_not_idle {p : Pipeline} {g : Gi} {gr : Goroutine} (hg : p.gs[g]? = some gr)
    (hs : gr.static = true) : ∀ s, Reach p s → s.gs[g]? ≠ some GSt.idle := by
  apply reach_inv
  · rw [init_gs, hg]; simp [hs]
  · intro s e s' _ ih hst hidle
    rcases pos_step hst g with hsame | ⟨pc, nd, l, n, _, _, _, hat2, _⟩ | ⟨hi, _⟩ | ⟨pc, _, _, hat2⟩
    · rw [hsame] at hidle; exact ih hidle
    · rw [hat2] at hidle; cases hidle
    · exact ih hi
    · rw [hat2] at hidle; cases hidle

/-! ### a closer has closed its channel when it has exited -/

/-- a goroutine standing at `close c` that moves has closed `c` -/
theorem close_edge_closes {p : Pipeline} {s s' : State} {e : Ev} (hst : Step p s e (.run s'))
    {h : Gi} {pc n : Pc} {c : Ch} (hat : s.gs[h]? = some (.at pc)) (hnd : p.node h pc = some (.close c n))
    (hmoved : s'.gs[h]? ≠ s.gs[h]?) (hin : c < s.chs.length) : s'.closed c = true := by
  cases hst with
  | env k hk hd => exact absurd rfl hmoved
  | act g pc' nd l n' hat' hnd' hed hgd hdf =>
    by_cases hgh : g = h
    · subst hgh
      rw [hat] at hat'; cases hat'
      rw [hnd] at hnd'; cases hnd'
      simp only [Node.edges, List.mem_singleton, Prod.mk.injEq] at hed
      obtain ⟨hl, _⟩ := hed
      subst hl
      simp [effect_closed, hin]
    · exfalso; apply hmoved
      rw [State.setG_get_ne hgh, effect_gs_get]
      split
      · rename_i hc; rw [hat] at hc; cases hc.2
      · rfl
  | sync g pc1 nd n1 g' pc' nd' n' c' hne hat1 hnd1 hed hat' hnd' hed' hcap hcl =>
    exfalso
    by_cases h2 : g' = h
    · subst h2
      rw [hat] at hat'; cases hat'
      rw [hnd] at hnd'; cases hnd'
      simp [Node.edges] at hed'
    · by_cases h1 : g = h
      · subst h1
        rw [hat] at hat1; cases hat1
        rw [hnd] at hnd1; cases hnd1
        simp [Node.edges] at hed
      · apply hmoved
        rw [State.setG_get_ne h2, State.setG_get_ne h1]
  | exit g pc' hat' hnd' =>
    exfalso
    by_cases hgh : g = h
    · subst hgh
      rw [hat] at hat'; cases hat'
      rw [hnd] at hnd'; cases hnd'
    · apply hmoved; rw [State.setG_get_ne hgh]

theorem closesOnAllPaths_parts {gr : Goroutine} {c : Ch} (h : closesOnAllPaths gr c = true) :
    fwdClosedOk gr.nodes (Node.closes c) (notClosedYet gr c) = true ∧
    ∀ (pc : Pc) (nd : Node), gr.nodes[pc]? = some nd → nd.isExit = true → mark (notClosedYet gr c) pc = false := by
  unfold closesOnAllPaths at h
  simp only [Bool.and_eq_true] at h
  refine ⟨h.1, ?_⟩
  intro pc nd hn he
  have := zipIdx_all h.2 hn
  simpa [he] using this

/-- `h` closes `c` on every path: once it is past the close (or has exited), `c` is closed -/
theorem closer_closed {p : Pipeline} {h : Gi} {gr : Goroutine} {c : Ch} (hg : p.gs[h]? = some gr)
    (hc : closesOnAllPaths gr c = true) (hin : c < p.chans.length) :
    ∀ s, Reach p s →
      (s.gs[h]? = some .done ∨ ∃ pc, s.gs[h]? = some (.at pc) ∧ mark (notClosedYet gr c) pc = false) →
      s.closed c = true := by
  obtain ⟨hfw, hexit⟩ := closesOnAllPaths_parts hc
  obtain ⟨h0, hedge⟩ := fwdClosed_parts hfw
  intro s hr
  induction hr with
  | init =>
    intro hcase
    rw [init_gs, hg] at hcase
    simp only [Option.map_some] at hcase
    rcases hcase with hcase | ⟨pc, hcase, hm⟩
    · split at hcase <;> cases hcase
    · split at hcase
      · simp only [Option.some.injEq, GSt.at.injEq] at hcase
        subst hcase; rw [h0] at hm; cases hm
      · cases hcase
  | step hr hst ih =>
    rename_i s0 e s1
    intro hcase
    have hshape := shape s0 hr
    rcases pos_step hst h with hsame | ⟨pc, nd, l, n, hat, hnd, hed, hat2, _⟩ | ⟨_, hat2⟩ | ⟨pc, hat, hnd, hat2⟩
    · rw [hsame] at hcase
      exact closed_mono hst (ih hcase)
    · rcases hcase with hcase | ⟨pc', hcase, hm⟩
      · rw [hat2] at hcase; cases hcase
      · rw [hat2] at hcase
        simp only [Option.some.injEq, GSt.at.injEq] at hcase
        subst hcase
        cases hmp : mark (notClosedYet gr c) pc with
        | false => exact closed_mono hst (ih (Or.inr ⟨pc, hat, hmp⟩))
        | true =>
          have hn := node_of_gs hg hnd
          have hcut : nd.closes c = true := by
            cases hcc : nd.closes c with
            | true => rfl
            | false =>
              have := hedge pc nd hn hmp hcc n (mem_succs_of_edge hed)
              rw [hm] at this; cases this
          have hnode : nd = .close c n := by
            cases nd <;> simp [Node.closes] at hcut
            case close c' n' =>
              subst hcut
              simp [Node.edges] at hed
              rw [hed.2]
          subst hnode
          apply close_edge_closes hst hat hnd
          · rw [hat2, hat]; intro hh; injection hh with hh; injection hh with hh
            subst hh
            -- a self loop on `close c`: the labeling says otherwise
            rw [hm] at hmp; cases hmp
          · rw [hshape.chs]; exact hin
    · rcases hcase with hcase | ⟨pc', hcase, hm⟩
      · rw [hat2] at hcase; cases hcase
      · rw [hat2] at hcase
        simp only [Option.some.injEq, GSt.at.injEq] at hcase
        subst hcase; rw [h0] at hm; cases hm
    · have hn := node_of_gs hg hnd
      have := hexit pc .exit hn (by simp [Node.isExit])
      exact closed_mono hst (ih (Or.inr ⟨pc, hat, this⟩))

/-! ### a goroutine that owes nothing at its entry never owes anything -/

theorem never_owes {p : Pipeline} {g : Gi} {gr : Goroutine} {w : Nat} (hg : p.gs[g]? = some gr)
    (hok : owesOk gr w = true) (h0 : mark (owes gr w) 0 = false) :
    ∀ s, Reach p s → labelAt (owes gr w) (s.gs[g]?) = false := by
  apply reach_inv
  · rw [init_gs, hg]
    simp only [Option.map_some]
    split <;> simp [labelAt, h0]
  · intro s e s' _ ih hst
    rcases pos_step hst g with hsame | ⟨pc, nd, l, n, hat, hnd, hed, hat2, _⟩ | ⟨_, hat2⟩ | ⟨pc, _, _, hat2⟩
    · rw [hsame]; exact ih
    · rw [hat2]
      rw [hat] at ih
      simp only [labelAt] at ih ⊢
      have hn := node_of_gs hg hnd
      have hparts := owesOk_parts hok hn
      cases hd : nd.isDone w with
      | true => rw [(hparts.2.1 hd).1] at ih; cases ih
      | false => rw [hparts.2.2 hd n (mem_succs_of_edge hed)]; exact ih
    · rw [hat2]; simp [labelAt, h0]
    · rw [hat2]; rfl

theorem debt_zero (w : Nat) : ∀ (grs : List Goroutine) (sts : List GSt),
    (∀ (i : Nat) (gr : Goroutine) (st : GSt), grs[i]? = some gr → sts[i]? = some st → owe gr w st = 0) →
    debt w grs sts = 0 := by
  intro grs
  induction grs with
  | nil => intro sts _; cases sts <;> rfl
  | cons g0 grs ih =>
    intro sts h
    cases sts with
    | nil => rfl
    | cons s0 sts =>
      simp only [debt]
      have h0 := h 0 g0 s0 (by simp) (by simp)
      have := ih sts (fun i gr st hg hs => h (i + 1) gr st (by simpa using hg) (by simpa using hs))
      omega

end Dos.Pipe

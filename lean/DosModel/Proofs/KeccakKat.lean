/-
Known-answer vectors for `Model/Keccak.lean` (C06), evaluated by the Lean KERNEL (`decide +kernel`:
the `Decidable` instance is reduced by the kernel, no compiler, no axiom).  One-block messages here
(empty, "abc", 135 bytes = one byte short of the rate: the single 0x81 padding byte), block-boundary
messages in `KeccakKat2.lean`.  The same messages are corpus lines (`corpus/C06/keccak-kat.txt`), so every
run compares these digests with golang.org/x/crypto/sha3 as well.  Core Lean only.
-/
import DosModel.Model.Keccak

namespace Dos.Keccak
open Dos

/-- the message 00 01 02 … of `n` bytes (`syn:n:1:0` in the case lines) -/
def katMsg (n : Nat) : Bytes := (List.range n).map UInt8.ofNat

set_option maxRecDepth 100000 in
theorem kat_empty :
    toHex (keccak256 []) = "c5d2460186f7233c927e7db2dcc703c0e500b653ca82273b7bfad8045d85a470" := by
  decide +kernel

set_option maxRecDepth 100000 in
theorem kat_abc :
    toHex (keccak256 [0x61, 0x62, 0x63]) = "4e03657aea45a94fc7d47ba826c8d667c0d1e6e33a64a036ec44f58fa12d6c45" := by
  decide +kernel

set_option maxRecDepth 100000 in
theorem kat_135 :
    toHex (keccak256 (katMsg 135)) = "cbdfd9dee5faad3818d6b06f95a219fd290b0e1706f6a82e5a595b9ce9faca62" := by
  decide +kernel

end Dos.Keccak

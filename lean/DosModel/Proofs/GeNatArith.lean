/-
C20 (round 4) — the Nat-mod-p extended-coordinate arithmetic `Dos.Ed` of Model/Schnorr.lean (the driver's
independent model: `Ed.add` = add-2008-hwcd-3 on naturals modulo 2^255 − 19, `Ed.smul` = double-and-add) computes the
twisted Edwards group law of Proofs/EdwardsCurve.lean / EdwardsAssoc.lean on the curve `E25519`.

`NRep n P`  : the natural-number quadruple `n = (X : Y : Z : T)` represents the curve point `P`
              (Z ≠ 0 in F, X/Z = P.x, Y/Z = P.y, X·Y = Z·T after the casts ℕ → F, and X < p — the one inequality
              `Ed.add` needs for its `Y + p − X`).
`nrep_zero`, `nrep_base`, `nrep_add`, `nrep_smul`.

With these a Boolean computation on naturals that the kernel evaluates (`decide +kernel`) becomes a theorem about
curve points (Proofs/GeNatOrder.lean: ℓ•B = 0; Proofs/GeNatTable*.lean: the precomputed table of const.go).
-/
import Mathlib.Tactic.Ring
import Mathlib.Tactic.LinearCombination
import DosModel.Proofs.GeBase

set_option exponentiation.threshold 600

namespace Dos.Ge
open Dos Dos.Ed25519 Dos.FeProg Dos.FeOps Dos.GeProg Dos.Ed25519Prime Dos.Edwards

/-! ### casts ℕ → F of the operations `Ed.add` uses -/

theorem p_pos : 0 < Dos.Ed.p := p_prime.pos

theorem cast_modp (a : ℕ) : ((a % Dos.Ed.p : ℕ) : F) = (a : F) := ZMod.natCast_mod a Dos.Ed.p

/-- `a + p − b` is `a − b` in F as soon as the natural subtraction does not truncate -/
theorem cast_addp_sub {a b : ℕ} (h : b ≤ a + Dos.Ed.p) : ((a + Dos.Ed.p - b : ℕ) : F) = (a : F) - (b : F) := by
  rw [Nat.cast_sub h, Nat.cast_add, ZMod.natCast_self, add_zero]

theorem cast_addp_sub_of_lt {a b : ℕ} (h : b < Dos.Ed.p) : ((a + Dos.Ed.p - b : ℕ) : F) = (a : F) - (b : F) :=
  cast_addp_sub (by omega)

theorem cast_d : ((Dos.Ed.d : ℕ) : F) = E25519.d := rfl

/-! ### the representation relation -/

/-- the quadruple of naturals `n` is an extended representation of the curve point `P` -/
structure NRep (n : Dos.Ed.Pt) (P : Pt) : Prop where
  x_lt : n.X < Dos.Ed.p
  z_ne : ((n.Z : ℕ) : F) ≠ 0
  hx : ((n.X : ℕ) : F) / ((n.Z : ℕ) : F) = P.x
  hy : ((n.Y : ℕ) : F) / ((n.Z : ℕ) : F) = P.y
  xy : ((n.X : ℕ) : F) * ((n.Y : ℕ) : F) = ((n.Z : ℕ) : F) * ((n.T : ℕ) : F)

theorem nrep_zero : NRep Dos.Ed.zero 0 where
  x_lt := p_pos
  z_ne := by show ((1 : ℕ) : F) ≠ 0; simp
  hx := by show ((0 : ℕ) : F) / ((1 : ℕ) : F) = 0; simp
  hy := by show ((1 : ℕ) : F) / ((1 : ℕ) : F) = 1; simp
  xy := by show ((0 : ℕ) : F) * ((1 : ℕ) : F) = ((1 : ℕ) : F) * ((0 : ℕ) : F); simp

theorem base_X : Dos.Ed.base.X = baseX := rfl
theorem base_Y : Dos.Ed.base.Y = baseY := rfl
theorem base_Z : Dos.Ed.base.Z = 1 := rfl
theorem base_T : Dos.Ed.base.T = baseX * baseY % Dos.Ed.p := rfl

theorem nrep_base : NRep Dos.Ed.base basePt where
  x_lt := by rw [base_X]; decide +kernel
  z_ne := by rw [base_Z]; simp
  hx := by rw [base_X, base_Z]; simp [basePt]
  hy := by rw [base_Y, base_Z]; simp [basePt]
  xy := by rw [base_X, base_Y, base_Z, base_T, cast_modp]; simp

/-! ### addition -/

/-- the four coordinates of `Ed.add a b`, cast to F, in the shape of `add_formula` / `completed_toExtended` -/
theorem add_casts (a b : Dos.Ed.Pt) (ha : a.X < Dos.Ed.p) (hb : b.X < Dos.Ed.p)
    {X1 Y1 Z1 T1 X2 Y2 Z2 T2 : F}
    (hX1 : ((a.X : ℕ) : F) = X1) (hY1 : ((a.Y : ℕ) : F) = Y1) (hZ1 : ((a.Z : ℕ) : F) = Z1) (hT1 : ((a.T : ℕ) : F) = T1)
    (hX2 : ((b.X : ℕ) : F) = X2) (hY2 : ((b.Y : ℕ) : F) = Y2) (hZ2 : ((b.Z : ℕ) : F) = Z2) (hT2 : ((b.T : ℕ) : F) = T2) :
    let A := (Y1 - X1) * (Y2 - X2)
    let B := (Y1 + X1) * (Y2 + X2)
    let C := T2 * (2 * E25519.d) * T1
    let D := 2 * (Z1 * Z2)
    (((Dos.Ed.add a b).X : ℕ) : F) = (B - A) * (D - C) ∧ (((Dos.Ed.add a b).Y : ℕ) : F) = (B + A) * (D + C)
      ∧ (((Dos.Ed.add a b).Z : ℕ) : F) = (D + C) * (D - C) ∧ (((Dos.Ed.add a b).T : ℕ) : F) = (B - A) * (B + A) := by
  intro A B C D
  have hp := p_pos
  have eA : (((a.Y + Dos.Ed.p - a.X) * (b.Y + Dos.Ed.p - b.X) % Dos.Ed.p : ℕ) : F) = A := by
    rw [cast_modp, Nat.cast_mul, cast_addp_sub_of_lt ha, cast_addp_sub_of_lt hb, hX1, hY1, hX2, hY2]
  have eB : (((a.Y + a.X) * (b.Y + b.X) % Dos.Ed.p : ℕ) : F) = B := by
    rw [cast_modp]; push_cast; rw [hX1, hY1, hX2, hY2]
  have eC : ((a.T * (2 * Dos.Ed.d % Dos.Ed.p) % Dos.Ed.p * b.T % Dos.Ed.p : ℕ) : F) = C := by
    rw [cast_modp, Nat.cast_mul, cast_modp, Nat.cast_mul, cast_modp]; push_cast; rw [hT1, hT2, cast_d]; ring
  have eD : ((a.Z * 2 % Dos.Ed.p * b.Z % Dos.Ed.p : ℕ) : F) = D := by
    rw [cast_modp, Nat.cast_mul, cast_modp]; push_cast; rw [hZ1, hZ2]; ring
  have lA : (a.Y + Dos.Ed.p - a.X) * (b.Y + Dos.Ed.p - b.X) % Dos.Ed.p < Dos.Ed.p := Nat.mod_lt _ hp
  have lC : a.T * (2 * Dos.Ed.d % Dos.Ed.p) % Dos.Ed.p * b.T % Dos.Ed.p < Dos.Ed.p := Nat.mod_lt _ hp
  refine ⟨?_, ?_, ?_, ?_⟩
  · show ((_ % Dos.Ed.p * (_ % Dos.Ed.p) % Dos.Ed.p : ℕ) : F) = _
    rw [cast_modp, Nat.cast_mul, cast_modp, cast_modp, cast_addp_sub_of_lt lA, cast_addp_sub_of_lt lC, eA, eB, eC, eD]
  · show ((_ % Dos.Ed.p * (_ % Dos.Ed.p) % Dos.Ed.p : ℕ) : F) = _
    rw [cast_modp, Nat.cast_mul, cast_modp, cast_modp, Nat.cast_add, Nat.cast_add, eA, eB, eC, eD]; ring
  · show ((_ % Dos.Ed.p * (_ % Dos.Ed.p) % Dos.Ed.p : ℕ) : F) = _
    rw [cast_modp, Nat.cast_mul, cast_modp, cast_modp, cast_addp_sub_of_lt lC, Nat.cast_add, eC, eD]; ring
  · show ((_ % Dos.Ed.p * (_ % Dos.Ed.p) % Dos.Ed.p : ℕ) : F) = _
    rw [cast_modp, Nat.cast_mul, cast_modp, cast_modp, cast_addp_sub_of_lt lA, Nat.cast_add, eA, eB]

theorem add_X_lt (a b : Dos.Ed.Pt) : (Dos.Ed.add a b).X < Dos.Ed.p := Nat.mod_lt _ p_pos

/-- `Ed.add` computes the Edwards sum -/
theorem nrep_add {a b : Dos.Ed.Pt} {P Q : Pt} (ha : NRep a P) (hb : NRep b Q) : NRep (Dos.Ed.add a b) (P + Q) := by
  obtain ⟨eX, eY, eZ, eT⟩ := add_casts a b ha.x_lt hb.x_lt rfl rfl rfl rfl rfl rfl rfl rfl
  have h1 : OnCurve E25519.d (((a.X : ℕ) : F) / ((a.Z : ℕ) : F)) (((a.Y : ℕ) : F) / ((a.Z : ℕ) : F)) :=
    onCurve_of ha.hx ha.hy
  have h2 : OnCurve E25519.d (((b.X : ℕ) : F) / ((b.Z : ℕ) : F)) (((b.Y : ℕ) : F) / ((b.Z : ℕ) : F)) :=
    onCurve_of hb.hx hb.hy
  obtain ⟨hcZ, hcT, hx, hy⟩ := add_formula E25519 ha.z_ne ha.xy h1 hb.z_ne hb.xy h2 rfl rfl rfl rfl rfl rfl rfl rfl rfl
  rw [pt_eq h1 ha.hx ha.hy, pt_eq h2 hb.hx hb.hy] at hx hy
  obtain ⟨hz, hx', hy', hxy⟩ := completed_toExtended hcZ hcT hx hy
  exact
    { x_lt := add_X_lt a b
      z_ne := by rw [eZ]; exact hz
      hx := by rw [eX, eZ]; exact hx'
      hy := by rw [eY, eZ]; exact hy'
      xy := by rw [eX, eY, eZ, eT]; linear_combination hxy }

/-! ### scalar multiplication -/

theorem nrep_smulAux (fuel : ℕ) : ∀ (n : ℕ) (q acc : Dos.Ed.Pt) (Q R : Pt), NRep q Q → NRep acc R →
    NRep (Dos.Ed.smulAux fuel n q acc) (R + (n % 2 ^ fuel) • Q) := by
  induction fuel with
  | zero =>
    intro n q acc Q R _ hacc
    simpa [Dos.Ed.smulAux, Nat.mod_one] using hacc
  | succ f ih =>
    intro n q acc Q R hq hacc
    have hdec : n % 2 ^ (f + 1) = n % 2 + 2 * (n / 2 % 2 ^ f) := by
      rw [pow_succ, mul_comm, Nat.mod_mul]
    have hqq : NRep (Dos.Ed.add q q) (Q + Q) := nrep_add hq hq
    show NRep (Dos.Ed.smulAux f (n / 2) (Dos.Ed.add q q) (if n % 2 = 1 then Dos.Ed.add acc q else acc)) _
    by_cases hodd : n % 2 = 1
    · rw [if_pos hodd]
      have := ih (n / 2) _ _ _ _ hqq (nrep_add hacc hq)
      rw [hdec, hodd, add_nsmul, one_nsmul, mul_nsmul, two_nsmul, ← add_assoc]
      exact this
    · rw [if_neg hodd]
      have h0 : n % 2 = 0 := by omega
      have := ih (n / 2) _ _ _ _ hqq hacc
      rw [hdec, h0, zero_add, mul_nsmul, two_nsmul]
      exact this

/-- `Ed.smul n` computes the n-fold sum -/
theorem nrep_smul (n : ℕ) {a : Dos.Ed.Pt} {P : Pt} (ha : NRep a P) : NRep (Dos.Ed.smul n a) (n • P) := by
  have h := nrep_smulAux (n.log2 + 1) n a Dos.Ed.zero P 0 ha nrep_zero
  rw [Nat.mod_eq_of_lt Nat.lt_log2_self, zero_add] at h
  exact h

/-- reading a representation of the identity: X ≡ 0 and Y ≡ Z (mod p) -/
theorem NRep.eq_zero_of {n : Dos.Ed.Pt} {P : Pt} (h : NRep n P) (hX : n.X % Dos.Ed.p = 0)
    (hYZ : n.Y % Dos.Ed.p = n.Z % Dos.Ed.p) : P = 0 := by
  have eX : ((n.X : ℕ) : F) = 0 := (ZMod.natCast_eq_zero_iff _ _).2 (Nat.dvd_of_mod_eq_zero hX)
  have eY : ((n.Y : ℕ) : F) = ((n.Z : ℕ) : F) := natCast_eq_of_mod hYZ
  ext
  · rw [← h.hx, eX, zero_div]; rfl
  · rw [← h.hy, eY, div_self h.z_ne]; rfl

/-- a quadruple represents at most one point -/
theorem NRep.point_eq {n : Dos.Ed.Pt} {P Q : Pt} (h : NRep n P) (h' : NRep n Q) : P = Q := by
  ext
  · rw [← h.hx, ← h'.hx]
  · rw [← h.hy, ← h'.hy]

end Dos.Ge

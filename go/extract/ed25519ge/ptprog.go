package ed25519ge

// Ed25519Pt: group/edwards25519/point.go (and extended.Double of ge.go) TRANSLATED statement by statement into the
// method-call programs of DosModel/Model/PtProg.lean. One Go statement = one Stmt; nothing is simplified. The grammar is
// closed: anything else is an extraction error, so the generated module does not exist and every obligation breaks.
//
//	E1 := P1.(*point) | a := &s.(*scalar).v | a = &red          .bind
//	var t2 cachedGroupElement | var b1, b2 [32]byte              .decl (one per name)
//	E2.ge.ToCached(&t2) | r.Add(&E1.ge, &t2) | f(&x, y) | copy(x[:], y[:])   .call <static receiver type>_<Method> / function
//	P.ge = baseext | P.ge = P2.(*point).ge                       .call setBaseext / copyGe
//	if a[31] > 127 {…} | if A == nil {…} else {…} | if P.varTime {…} else {…} | if !x.M(args) {…}
//	for i := range b1 { if b1[i] != b2[i] { return … } }         .rangeNe (the body must be a single return)
//	return P | true | false | <int> | b[:], nil | errors.New(…) | nil | &point{ge: P.ge}
//
// Types come from the declarations only (receiver *point, kyber.Point / kyber.Scalar parameters used through
// .(*point) / .(*scalar), []byte, `var x T`); the callee of a method call is named by the static type of its receiver.

import (
	"fmt"
	"go/ast"
	"go/token"
	"path/filepath"
	"strings"

	"verifharness/extract/ex"
)

func init() { ex.Register(&ex.Extractor{Name: "Ed25519Pt", Run: runPt}) }

type ptEnv struct {
	slots map[string]int
	order []string
	types map[string]string // point | scalar | bytes | extended | cached | completed | projective
	recv  string
}

func (e *ptEnv) slot(name string) int {
	if s, ok := e.slots[name]; ok {
		return s
	}
	s := len(e.order)
	e.slots[name] = s
	e.order = append(e.order, name)
	return s
}

var geTypeNames = map[string]string{"extendedGroupElement": "extended", "cachedGroupElement": "cached",
	"completedGroupElement": "completed", "projectiveGroupElement": "projective"}

var knownFns = map[string]bool{"extended_ToCached": true, "extended_ToProjective": true, "extended_Neg": true, "extended_Zero": true,
	"extended_ToBytes": true, "extended_FromBytes": true, "extended_Double": true, "completed_Add": true, "completed_Sub": true,
	"completed_ToExtended": true, "completed_ToProjective": true, "projective_Double": true,
	"geScalarMult": true, "geScalarMultBase": true, "geScalarMultVartime": true, "scReduce": true}

func tyOfExpr(t ast.Expr) (string, string, error) { // (model type, Lean Ty)
	switch x := t.(type) {
	case *ast.Ident:
		if g, ok := geTypeNames[x.Name]; ok {
			lean := map[string]string{"extended": ".ext", "cached": ".cached", "completed": ".compl", "projective": ".proj"}[g]
			return g, lean, nil
		}
	case *ast.ArrayType:
		if id, ok := x.Elt.(*ast.Ident); ok && id.Name == "byte" && x.Len != nil {
			if l, ok := x.Len.(*ast.BasicLit); ok && l.Kind == token.INT {
				return "bytes", fmt.Sprintf("(.bytes %s)", l.Value), nil
			}
		}
	}
	return "", "", fmt.Errorf("unsupported local type")
}

// operand: the slot an argument / receiver expression designates, and its model type
func (e *ptEnv) operand(x ast.Expr) (int, string, error) {
	switch v := x.(type) {
	case *ast.ParenExpr:
		return e.operand(v.X)
	case *ast.UnaryExpr:
		if v.Op == token.AND {
			return e.operand(v.X)
		}
	case *ast.Ident:
		t, ok := e.types[v.Name]
		if !ok {
			return 0, "", fmt.Errorf("identifier %s used before it is declared", v.Name)
		}
		return e.slot(v.Name), t, nil
	case *ast.TypeAssertExpr:
		s, _, err := e.operand(v.X)
		if err != nil {
			return 0, "", err
		}
		if st, ok := v.Type.(*ast.StarExpr); ok {
			if id, ok := st.X.(*ast.Ident); ok && (id.Name == "point" || id.Name == "scalar") {
				return s, id.Name, nil
			}
		}
	case *ast.SelectorExpr:
		s, t, err := e.operand(v.X)
		if err != nil {
			return 0, "", err
		}
		if t == "point" && v.Sel.Name == "ge" {
			return s, "extended", nil
		}
		if t == "scalar" && v.Sel.Name == "v" {
			return s, "bytes", nil
		}
	case *ast.SliceExpr:
		if v.Low == nil && v.High == nil && v.Max == nil {
			s, t, err := e.operand(v.X)
			if err == nil && t == "bytes" {
				return s, t, nil
			}
		}
	}
	return 0, "", fmt.Errorf("unsupported operand")
}

func natList(xs []int) string {
	var q []string
	for _, x := range xs {
		q = append(q, fmt.Sprint(x))
	}
	return "[" + strings.Join(q, ", ") + "]"
}

// call: a method call (callee named by the receiver's static type) or one of the known functions
func (e *ptEnv) call(c *ast.CallExpr) (string, error) {
	var fn string
	var args []int
	switch f := c.Fun.(type) {
	case *ast.SelectorExpr:
		s, t, err := e.operand(f.X)
		if err != nil {
			return "", err
		}
		fn = t + "_" + f.Sel.Name
		args = append(args, s)
	case *ast.Ident:
		fn = f.Name
	default:
		return "", fmt.Errorf("unsupported callee")
	}
	if fn == "copy" {
		if len(c.Args) != 2 {
			return "", fmt.Errorf("copy wants two arguments")
		}
	} else if !knownFns[fn] {
		return "", fmt.Errorf("callee %s is not in the model's table", fn)
	}
	for _, a := range c.Args {
		s, _, err := e.operand(a)
		if err != nil {
			return "", err
		}
		args = append(args, s)
	}
	return fmt.Sprintf(".call .%s %s", fn, natList(args)), nil
}

func (e *ptEnv) block(fset *token.FileSet, b *ast.BlockStmt) (string, error) {
	var out []string
	for _, st := range b.List {
		s, err := e.stmt(fset, st)
		if err != nil {
			return "", fmt.Errorf("%s: %v (%s)", fset.Position(st.Pos()), err, printed(fset, st))
		}
		out = append(out, s...)
	}
	return "[" + strings.Join(out, ", ") + "]", nil
}

func (e *ptEnv) ret(r *ast.ReturnStmt) (string, error) {
	switch len(r.Results) {
	case 1:
		switch v := r.Results[0].(type) {
		case *ast.Ident:
			switch v.Name {
			case e.recv:
				return ".ret .recv", nil
			case "true", "false":
				return ".ret (.bool " + v.Name + ")", nil
			case "nil":
				return ".ret .ok", nil
			}
		case *ast.BasicLit:
			if v.Kind == token.INT {
				return ".ret (.int " + v.Value + ")", nil
			}
		case *ast.CallExpr:
			if sel, ok := v.Fun.(*ast.SelectorExpr); ok {
				if id, ok := sel.X.(*ast.Ident); ok && id.Name == "errors" && sel.Sel.Name == "New" {
					return ".ret .err", nil
				}
			}
		case *ast.UnaryExpr: // &point{ge: P.ge}
			if cl, ok := v.X.(*ast.CompositeLit); ok && v.Op == token.AND && len(cl.Elts) == 1 {
				if id, ok := cl.Type.(*ast.Ident); ok && id.Name == "point" {
					if kv, ok := cl.Elts[0].(*ast.KeyValueExpr); ok {
						if k, ok := kv.Key.(*ast.Ident); ok && k.Name == "ge" {
							s, t, err := e.operand(kv.Value)
							if err == nil && t == "extended" {
								return fmt.Sprintf(".ret (.clone %d)", s), nil
							}
						}
					}
				}
			}
		}
	case 2: // b[:], nil
		if id, ok := r.Results[1].(*ast.Ident); ok && id.Name == "nil" {
			s, t, err := e.operand(r.Results[0])
			if err == nil && t == "bytes" {
				return fmt.Sprintf(".ret (.bytesOf %d)", s), nil
			}
		}
	}
	return "", fmt.Errorf("unsupported return")
}

func (e *ptEnv) stmt(fset *token.FileSet, st ast.Stmt) ([]string, error) {
	switch s := st.(type) {
	case *ast.DeclStmt:
		gd, ok := s.Decl.(*ast.GenDecl)
		if !ok || gd.Tok != token.VAR {
			return nil, fmt.Errorf("unsupported declaration")
		}
		var out []string
		for _, sp := range gd.Specs {
			vs := sp.(*ast.ValueSpec)
			if vs.Type == nil || len(vs.Values) != 0 {
				return nil, fmt.Errorf("unsupported var")
			}
			mt, lt, err := tyOfExpr(vs.Type)
			if err != nil {
				return nil, err
			}
			for _, n := range vs.Names {
				e.types[n.Name] = mt
				out = append(out, fmt.Sprintf(".decl %d %s", e.slot(n.Name), lt))
			}
		}
		return out, nil
	case *ast.AssignStmt:
		if len(s.Lhs) != 1 || len(s.Rhs) != 1 {
			return nil, fmt.Errorf("unsupported assignment")
		}
		if id, ok := s.Lhs[0].(*ast.Ident); ok { // pointer (re)binding
			src, t, err := e.operand(s.Rhs[0])
			if err != nil {
				return nil, err
			}
			_, isAddr := s.Rhs[0].(*ast.UnaryExpr)
			_, isAssert := s.Rhs[0].(*ast.TypeAssertExpr)
			if !isAddr && !isAssert {
				return nil, fmt.Errorf("a value copy into a variable is not supported")
			}
			if s.Tok == token.ASSIGN {
				if old, ok := e.types[id.Name]; !ok || old != t {
					return nil, fmt.Errorf("rebinding changes the type")
				}
			} else if s.Tok != token.DEFINE {
				return nil, fmt.Errorf("unsupported assignment operator")
			}
			e.types[id.Name] = t
			return []string{fmt.Sprintf(".bind %d %d", e.slot(id.Name), src)}, nil
		}
		if s.Tok != token.ASSIGN {
			return nil, fmt.Errorf("unsupported assignment")
		}
		dst, dt, err := e.operand(s.Lhs[0])
		if err != nil || dt != "extended" {
			return nil, fmt.Errorf("unsupported assignment target")
		}
		if id, ok := s.Rhs[0].(*ast.Ident); ok && id.Name == "baseext" {
			return []string{fmt.Sprintf(".call .setBaseext [%d]", dst)}, nil
		}
		src, stp, err := e.operand(s.Rhs[0])
		if err != nil || stp != "extended" {
			return nil, fmt.Errorf("unsupported assignment source")
		}
		return []string{fmt.Sprintf(".call .copyGe [%d, %d]", dst, src)}, nil
	case *ast.ExprStmt:
		c, ok := s.X.(*ast.CallExpr)
		if !ok {
			return nil, fmt.Errorf("unsupported expression statement")
		}
		r, err := e.call(c)
		return []string{r}, err
	case *ast.ReturnStmt:
		r, err := e.ret(s)
		return []string{r}, err
	case *ast.IfStmt:
		if s.Init != nil {
			return nil, fmt.Errorf("if with an init statement")
		}
		thn, err := e.block(fset, s.Body)
		if err != nil {
			return nil, err
		}
		els := "[]"
		if s.Else != nil {
			eb, ok := s.Else.(*ast.BlockStmt)
			if !ok {
				return nil, fmt.Errorf("else if")
			}
			if els, err = e.block(fset, eb); err != nil {
				return nil, err
			}
		}
		switch c := s.Cond.(type) {
		case *ast.BinaryExpr:
			if ix, ok := c.X.(*ast.IndexExpr); ok && c.Op == token.GTR && s.Else == nil {
				a, t, err := e.operand(ix.X)
				il, ok1 := ix.Index.(*ast.BasicLit)
				kl, ok2 := c.Y.(*ast.BasicLit)
				if err == nil && t == "bytes" && ok1 && ok2 && il.Kind == token.INT && kl.Kind == token.INT {
					return []string{fmt.Sprintf(".ifByteGt %d %s %s %s", a, il.Value, kl.Value, thn)}, nil
				}
			}
			if id, ok := c.Y.(*ast.Ident); ok && id.Name == "nil" && c.Op == token.EQL {
				if x, ok := c.X.(*ast.Ident); ok {
					e.types[x.Name] = e.types[x.Name] // must exist
					if _, ok := e.types[x.Name]; ok {
						return []string{fmt.Sprintf(".ifNil %d %s %s", e.slot(x.Name), thn, els)}, nil
					}
				}
			}
		case *ast.SelectorExpr:
			if x, ok := c.X.(*ast.Ident); ok && c.Sel.Name == "varTime" && e.types[x.Name] == "point" {
				return []string{fmt.Sprintf(".ifVarTime %d %s %s", e.slot(x.Name), thn, els)}, nil
			}
		case *ast.UnaryExpr:
			if call, ok := c.X.(*ast.CallExpr); ok && c.Op == token.NOT && s.Else == nil {
				r, err := e.call(call)
				if err != nil {
					return nil, err
				}
				return []string{r, ".ifNotFlag " + thn}, nil
			}
		}
		return nil, fmt.Errorf("unsupported condition")
	case *ast.RangeStmt:
		// for i := range a { if a[i] != b[i] { return … } }
		key, ok := s.Key.(*ast.Ident)
		arr, ok2 := s.X.(*ast.Ident)
		if !ok || !ok2 || s.Value != nil || s.Tok != token.DEFINE || len(s.Body.List) != 1 {
			return nil, fmt.Errorf("unsupported range loop")
		}
		ifs, ok := s.Body.List[0].(*ast.IfStmt)
		if !ok || ifs.Init != nil || ifs.Else != nil || len(ifs.Body.List) != 1 {
			return nil, fmt.Errorf("unsupported range body")
		}
		if _, ok := ifs.Body.List[0].(*ast.ReturnStmt); !ok {
			return nil, fmt.Errorf("the body of the comparison loop must be a single return")
		}
		c, ok := ifs.Cond.(*ast.BinaryExpr)
		if !ok || c.Op != token.NEQ {
			return nil, fmt.Errorf("unsupported range condition")
		}
		l, ok1 := c.X.(*ast.IndexExpr)
		r, ok2 := c.Y.(*ast.IndexExpr)
		if !ok1 || !ok2 {
			return nil, fmt.Errorf("unsupported range condition")
		}
		li, ok1 := l.Index.(*ast.Ident)
		ri, ok2 := r.Index.(*ast.Ident)
		la, ok3 := l.X.(*ast.Ident)
		ra, ok4 := r.X.(*ast.Ident)
		if !ok1 || !ok2 || !ok3 || !ok4 || li.Name != key.Name || ri.Name != key.Name || la.Name != arr.Name ||
			e.types[la.Name] != "bytes" || e.types[ra.Name] != "bytes" {
			return nil, fmt.Errorf("unsupported range condition")
		}
		thn, err := e.block(fset, ifs.Body)
		if err != nil {
			return nil, err
		}
		return []string{fmt.Sprintf(".rangeNe %d %d %s", e.slot(la.Name), e.slot(ra.Name), thn)}, nil
	}
	return nil, fmt.Errorf("unsupported statement")
}

func translatePt(fset *token.FileSet, fd *ast.FuncDecl, recvType string) (string, error) {
	e := &ptEnv{slots: map[string]int{}, types: map[string]string{}}
	if fd.Recv == nil || len(fd.Recv.List) != 1 || len(fd.Recv.List[0].Names) != 1 {
		return "", fmt.Errorf("no receiver")
	}
	e.recv = fd.Recv.List[0].Names[0].Name
	e.types[e.recv] = recvType
	e.slot(e.recv)
	for _, fl := range fd.Type.Params.List {
		t := ""
		switch x := fl.Type.(type) {
		case *ast.SelectorExpr:
			if id, ok := x.X.(*ast.Ident); ok && id.Name == "kyber" {
				t = map[string]string{"Point": "iface", "Scalar": "iface"}[x.Sel.Name]
			}
		case *ast.ArrayType:
			if id, ok := x.Elt.(*ast.Ident); ok && id.Name == "byte" && x.Len == nil {
				t = "bytes"
			}
		case *ast.StarExpr:
			if id, ok := x.X.(*ast.Ident); ok {
				t = geTypeNames[id.Name]
			}
		}
		if t == "" {
			return "", fmt.Errorf("unsupported parameter type %s", printed(fset, fl.Type))
		}
		for _, n := range fl.Names {
			e.types[n.Name] = t
			e.slot(n.Name)
		}
	}
	body, err := e.block(fset, fd.Body)
	if err != nil {
		return "", err
	}
	return fmt.Sprintf("{ slots := %d, body := %s }", len(e.order), body), nil
}

func runPt(repo string) (string, error) {
	dir := filepath.Join(repo, "group", "edwards25519")
	s := ex.Header("Ed25519Pt", "group/edwards25519/point.go, ge.go (extended.Double)")
	s += "import DosModel.Model.PtProg\nnamespace Dos.Gen.Ed25519Pt\nopen Dos Dos.PtProg\n\n"
	fset, f, err := ex.Parse(filepath.Join(dir, "point.go"))
	if err != nil {
		return "", err
	}
	for _, m := range PointMethods {
		fd := ex.FuncDecl(f, "point", m)
		if fd == nil || fd.Body == nil {
			return "", fmt.Errorf("point.go: method %s not found", m)
		}
		t, err := translatePt(fset, fd, "point")
		if err != nil {
			return "", fmt.Errorf("point.%s: %v", m, err)
		}
		s += fmt.Sprintf("/-- point.%s: %s -/\ndef point_%s : PtFn :=\n  %s\n", m, printed(fset, fd.Type), m, t)
	}
	gset, gf, err := ex.Parse(filepath.Join(dir, "ge.go"))
	if err != nil {
		return "", err
	}
	fd := ex.FuncDecl(gf, "extendedGroupElement", "Double")
	if fd == nil {
		return "", fmt.Errorf("ge.go: extended.Double not found")
	}
	t, err := translatePt(gset, fd, "extended")
	if err != nil {
		return "", fmt.Errorf("extended.Double: %v", err)
	}
	s += fmt.Sprintf("/-- extendedGroupElement.Double of ge.go -/\ndef extended_Double : PtFn :=\n  %s\n", t)
	// the flag varTime: every assignment to it in the files of the default build (no `vartime` build constraint)
	var writes []string
	matches, _ := filepath.Glob(filepath.Join(dir, "*.go"))
	for _, path := range matches {
		if strings.HasSuffix(path, "_test.go") {
			continue
		}
		ffset, ff, err := ex.Parse(path)
		if err != nil {
			return "", err
		}
		constrained := false
		for _, cg := range ff.Comments {
			if cg.Pos() < ff.Package && strings.Contains(cg.Text(), "build") && strings.Contains(cg.Text(), "vartime") && !strings.Contains(cg.Text(), "!vartime") {
				constrained = true
			}
		}
		if constrained {
			continue
		}
		ast.Inspect(ff, func(n ast.Node) bool {
			switch x := n.(type) {
			case *ast.AssignStmt:
				for _, l := range x.Lhs {
					if sel, ok := l.(*ast.SelectorExpr); ok && sel.Sel.Name == "varTime" {
						writes = append(writes, ex.LeanStr(filepath.Base(path)+": "+printed(ffset, x)))
					}
				}
			case *ast.KeyValueExpr:
				if k, ok := x.Key.(*ast.Ident); ok && k.Name == "varTime" {
					writes = append(writes, ex.LeanStr(filepath.Base(path)+": "+printed(ffset, x)))
				}
			}
			return true
		})
	}
	s += fmt.Sprintf("/-- every write of the field `varTime` in the files of the default build -/\ndef varTimeWrites : List String := [%s]\n", strings.Join(writes, ", "))
	s += "\nend Dos.Gen.Ed25519Pt\n"
	return s, nil
}

/-
C12 — helper lemmas, part 4: sessions do not interfere in the session layer of pdkg.Loop
(the maps are keyed by session id): whatever is sent about other sessions, the events of
session s' are answered exactly as if they were alone.
-/
import DosModel.Proofs.HandlersDkg

namespace Dos.Handlers

theorem alookup_aerase_ne {β : Type} (k k' : String) (h : k' ≠ k) (m : List (String × β)) :
    alookup k (aerase k' m) = alookup k m := by
  induction m with
  | nil => rfl
  | cons x r ih =>
    obtain ⟨a, v⟩ := x
    simp only [aerase]
    split
    · next e => subst e; simp only [alookup, h, if_false]; exact ih
    · next ne =>
      simp only [alookup]
      split
      · rfl
      · exact ih

theorem alookup_ainsert_ne {β : Type} (k k' : String) (h : k' ≠ k) (v : β) (m : List (String × β)) :
    alookup k (ainsert k' v m) = alookup k m := by
  simp only [ainsert, alookup, h, if_false]
  exact alookup_aerase_ne k k' h m

theorem alookup_aerase_self {β : Type} (k : String) (m : List (String × β)) : alookup k (aerase k m) = none := by
  induction m with
  | nil => rfl
  | cons x r ih =>
    obtain ⟨a, v⟩ := x
    simp only [aerase]
    split
    · exact ih
    · next ne => simp only [alookup, ne, if_false]; exact ih

theorem alookup_ainsert_self {β : Type} (k : String) (v : β) (m : List (String × β)) : alookup k (ainsert k v m) = some v := by
  simp [ainsert, alookup]

/-- `fire` on another session leaves the view of `s'` alone -/
theorem view_fire_ne (s : Sess) (s' sid : String) (h : sid ≠ s') (r : Req) (k : Nat) (site : String) :
    view s' (fire s sid r k site).1 = view s' s := by
  unfold fire
  split
  · rfl
  · simp [view, alookup_aerase_ne s' sid h]

theorem view_expire_ne (s' : String) (done : List String) (h : done.contains s' = false) :
    ∀ (s : Sess) (k : Nat), view s' (expire Cfg.all s done k).1 = view s' s := by
  induction done with
  | nil => intro s k; rfl
  | cons sid rest ih =>
    intro s k
    have hs : sid ≠ s' := by
      intro e; subst e; simp at h
    have hr : rest.contains s' = false := by
      simp only [List.contains_cons, Bool.or_eq_false_iff] at h; exact h.2
    simp only [expire, all_expClean, fireC_all]
    cases hl : alookup sid s.req with
    | none => exact ih hr s k
    | some r =>
      simp only
      have hv := view_fire_ne s s' sid hs r 0 "dkg.pdkg.Loop|close|close(req.reply)"
      cases ho : fire s sid r 0 "dkg.pdkg.Loop|close|close(req.reply)" with
      | mk s1 o =>
        rw [ho] at hv
        cases o with
        | panic site => exact hv
        | ok i => simp only; rw [ih hr s1 (k + 1)]; exact hv
        | err e => simp only; rw [ih hr s1 (k + 1)]; exact hv
        | dropped => simp only; rw [ih hr s1 (k + 1)]; exact hv

/-- **isolation**: an event that does not concern `s'` does not change what `s'` sees -/
theorem view_step_ne (s : Sess) (s' : String) (e : SessEv) (ha : s.alive = true) (h : touches s' e = false) :
    view s' (sessStep Cfg.all s e).1 = view s' s := by
  cases e with
  | msg sid it =>
    have hs : sid ≠ s' := by intro e; subst e; simp [touches] at h
    simp only [sessStep, ha, if_true, handlePeerMsg, all_peerClean, fireC_all]
    split
    · rfl
    · split
      · rfl
      · have hb : view s' { s with buf := ainsert sid ((alookup sid s.buf).getD [] ++ [it]) s.buf } = view s' s := by
          simp [view, alookup_ainsert_ne s' sid hs]
        split
        · split
          · exact hb
          · exact hb
        · split
          · rw [view_fire_ne _ s' sid hs]; exact hb
          · exact hb
  | req sid num =>
    have hs : sid ≠ s' := by intro e; subst e; simp [touches] at h
    simp only [sessStep, ha, if_true, handleRequest, all_reqClean, fireC_all]
    have hb : view s' { s with req := ainsert sid { num := num, chan := s.next } s.req, next := s.next + 1 } = view s' s := by
      simp [view, alookup_ainsert_ne s' sid hs]
    split
    · rw [view_fire_ne _ s' sid hs]; exact hb
    · exact hb
  | expire done =>
    simp only [sessStep, ha, if_true]
    exact view_expire_ne s' done (by simpa [touches] using h) s 0

/-- an event of `s'` itself is answered as a function of the view alone (given the invariant, which
excludes the double close) -/
theorem step_eq_vstep (s : Sess) (s' : String) (e : SessEv) (inv : SessInv s)
    (h : touches s' e = true) (hx : ∀ d, e ≠ .expire d) :
    (sessStep Cfg.all s e).2 = (vstep (view s' s) e).2 ∧ view s' (sessStep Cfg.all s e).1 = (vstep (view s' s) e).1 := by
  cases e with
  | expire d => exact absurd rfl (hx d)
  | msg sid it =>
    have hs : sid = s' := by simpa [touches] using h
    subst hs
    have hd : respDeref Cfg.all ((alookup sid s.buf).getD []) it = false := by
      cases it <;> simp [respDeref]
      next d r => cases r <;> simp
    by_cases hdup : isDup ((alookup sid s.buf).getD []) it = true
    · simp only [sessStep, inv.alive, if_true, handlePeerMsg, hd, Bool.false_eq_true, if_false, vstep, view, hdup] <;>
      (first | exact ⟨rfl, rfl⟩ | exact ⟨trivial, rfl⟩ | exact ⟨rfl, trivial⟩ | exact ⟨trivial, trivial⟩ | trivial | rfl)
    · cases hl : alookup sid s.req with
      | none =>
        have h0 : ¬ (((((alookup sid s.buf).getD [] ++ [it]).length : Nat) : Int) = 0) := by simp; omega
        simp only [sessStep, inv.alive, if_true, handlePeerMsg, hd, Bool.false_eq_true, if_false, vstep, view, hdup, hl,
          h0, Option.map_none, alookup_ainsert_self, Option.getD_some] <;>
        (first | exact ⟨rfl, rfl⟩ | exact ⟨trivial, rfl⟩ | exact ⟨rfl, trivial⟩ | exact ⟨trivial, trivial⟩ | trivial | rfl)
      | some r =>
        have hr := alookup_mem sid s.req r hl
        have hc : r.chan ∈ chans s := List.mem_map.mpr ⟨(sid, r), hr, rfl⟩
        have hopen := inv.open_ _ hc
        by_cases hk : ((((alookup sid s.buf).getD [] ++ [it]).length : Nat) : Int) = r.num
        · simp only [sessStep, inv.alive, if_true, handlePeerMsg, hd, Bool.false_eq_true, if_false, vstep, view, hdup, hl,
            hk, Option.map_some, all_peerClean, fireC_all, fire, hopen, alookup_aerase_self, Option.getD_none, Option.map_none] <;>
          (first | exact ⟨rfl, rfl⟩ | exact ⟨trivial, rfl⟩ | exact ⟨rfl, trivial⟩ | exact ⟨trivial, trivial⟩ | trivial | rfl)
        · simp only [sessStep, inv.alive, if_true, handlePeerMsg, hd, Bool.false_eq_true, if_false, vstep, view, hdup, hl,
            hk, Option.map_some, alookup_ainsert_self, Option.getD_some] <;>
          (first | exact ⟨rfl, rfl⟩ | exact ⟨trivial, rfl⟩ | exact ⟨rfl, trivial⟩ | exact ⟨trivial, trivial⟩ | trivial | rfl)
  | req sid num =>
    have hs : sid = s' := by simpa [touches] using h
    subst hs
    have hfresh : s.next ∉ s.closed := fun hc => absurd (inv.closedLt _ hc) (by simp)
    by_cases hk : ((((alookup sid s.buf).getD []).length : Nat) : Int) = num
    · simp only [sessStep, inv.alive, if_true, handleRequest, vstep, view, hk, all_reqClean, fireC_all, fire, hfresh, if_false,
        alookup_aerase_self, Option.getD_none, Option.map_none] <;>
      (first | exact ⟨rfl, rfl⟩ | exact ⟨trivial, rfl⟩ | exact ⟨rfl, trivial⟩ | exact ⟨trivial, trivial⟩ | trivial | rfl)
    · simp only [sessStep, inv.alive, if_true, handleRequest, vstep, view, hk, if_false, alookup_ainsert_self, Option.map_some] <;>
      (first | exact ⟨rfl, rfl⟩ | exact ⟨trivial, rfl⟩ | exact ⟨rfl, trivial⟩ | exact ⟨trivial, trivial⟩ | trivial | rfl)

/-- **sessions are independent**: in ANY event list (junk of other sessions, their registrations,
expiry sweeps that do not report `s'` done), the events of `s'` get the outputs they would get alone -/
theorem outsFor_eq_vrun (s' : String) (evs : List SessEv) (hx : ∀ e ∈ evs, ∀ d, e = .expire d → d.contains s' = false) :
    ∀ s, SessInv s → outsFor s' evs (sessRun Cfg.all s evs).2 = vrun (view s' s) (evs.filter (touches s')) := by
  induction evs with
  | nil => intro s inv; simp [outsFor, vrun]
  | cons e r ih =>
    intro s inv
    have hr : ∀ e ∈ r, ∀ d, e = .expire d → d.contains s' = false := fun e he => hx e (List.mem_cons_of_mem _ he)
    have hinv : SessInv (sessStep Cfg.all s e).1 := (sessRun_inv [e] s inv).1
    simp only [sessRun, outsFor]
    by_cases ht : touches s' e = true
    · have hne : ∀ d, e ≠ .expire d := by
        intro d he; have := hx e (by simp) d he; subst he; simp [touches] at ht; simp [ht] at this
      have st := step_eq_vstep s s' e inv ht hne
      simp only [ht, if_true, List.filter_cons_of_pos, vrun]
      rw [ih hr _ hinv, st.1, st.2]
    · have hf : touches s' e = false := by simpa using ht
      simp only [hf, Bool.false_eq_true, if_false]
      rw [List.filter_cons_of_neg (by simpa using ht), ih hr _ hinv, view_step_ne s s' e inv.alive hf]

/-! the honest exchange, alone -/

theorem isDup_pks (j : Nat) : isDup ((List.range j).map Item.pk) (.pk j) = false := by
  simp only [isDup, List.any_eq_false]
  intro x hx
  obtain ⟨i, hi, rfl⟩ := List.mem_map.mp hx
  have : i < j := List.mem_range.mp hi
  simp; omega

theorem getLast?_cons_ne {α : Type} (a : α) (l : List α) (h : l ≠ []) : (a :: l).getLast? = l.getLast? := by
  cases l with
  | nil => exact absurd rfl h
  | cons b r => rfl

theorem vrun_pks (s' : String) (n : Nat) : ∀ m j, j + m = n → 0 < m →
    (vrun ⟨(List.range j).map Item.pk, some n⟩ ((List.range' j m).map (fun i => SessEv.msg s' (.pk i)))).getLast?
      = some (.ok s!"fire {n}") := by
  intro m
  induction m with
  | zero => intro j _ h; omega
  | succ m ih =>
    intro j hj _
    have hcur : (List.range j).map Item.pk ++ [Item.pk j] = (List.range (j + 1)).map Item.pk := by
      simp [List.range_succ]
    have hlen : (((List.range (j + 1)).map Item.pk).length : Int) = ((j + 1 : Nat) : Int) := by simp
    simp only [List.range', List.map_cons, vrun, vstep, isDup_pks, Bool.false_eq_true, if_false, hcur, hlen]
    by_cases hm : m = 0
    · subst hm
      have e : ((j + 1 : Nat) : Int) = (n : Int) := by omega
      have e2 : j + 1 = n := by omega
      simp [vrun, e2]
    · have e : ¬ (((j + 1 : Nat) : Int) = (n : Int)) := by omega
      simp only [e, if_false]
      have hne : vrun ⟨(List.range (j + 1)).map Item.pk, some (n : Int)⟩
          ((List.range' (j + 1) m).map (fun i => SessEv.msg s' (.pk i))) ≠ [] := by
        cases m with
        | zero => exact absurd rfl hm
        | succ m' => simp [List.range', vrun]
      rw [getLast?_cons_ne _ _ hne]
      exact ih (j + 1) (by omega) (by omega)

/-- a complete honest exchange, answered alone: it ends with the hand-over of all `n` messages -/
theorem vrun_honest (s' : String) (n : Nat) (hn : 0 < n) :
    (vrun ⟨[], none⟩ (honestRun s' n)).getLast? = some (.ok s!"fire {n}") := by
  have e : ¬ (((([] : List Item).length : Nat) : Int) = (n : Int)) := by simp; omega
  simp only [honestRun, vrun, vstep, e, if_false]
  have h := vrun_pks s' n n 0 (by omega) hn
  have hne : vrun ⟨[], some (n : Int)⟩ ((List.range n).map (fun i => SessEv.msg s' (.pk i))) ≠ [] := by
    cases n with
    | zero => omega
    | succ k => simp [List.range_succ_eq_map, vrun]
  rw [getLast?_cons_ne _ _ hne]
  simpa [List.range_eq_range'] using h

/-! a new session has its own generator: its honest deals are all approved -/

theorem vlookup_filter_ne (k k' : Nat) (h : k' ≠ k) (m : List (Nat × VerSt)) :
    vlookup k (m.filter (fun e => e.1 != k')) = vlookup k m := by
  induction m with
  | nil => rfl
  | cons x r ih =>
    obtain ⟨a, v⟩ := x
    by_cases ha : a = k'
    · subst ha
      simp only [List.filter, bne_self_eq_false, vlookup, h, if_false]; exact ih
    · have : (a != k') = true := by simpa using ha
      simp only [List.filter, this, vlookup]
      split
      · rfl
      · exact ih

theorem vlookup_vset_ne (k k' : Nat) (h : k' ≠ k) (v : VerSt) (m : List (Nat × VerSt)) :
    vlookup k (vset k' v m) = vlookup k m := by
  simp only [vset, vlookup, h, if_false]
  exact vlookup_filter_ne k k' h m

theorem honest_deal_step (st : DkgSt) (idx t : Nat) (hidx : idx < st.n) (hnew : vlookup idx st.vers = none)
    (ht : validT t st.n = true) (hme : st.me < st.n) :
    (processDeal Cfg.all st (honestDeal idx st.me t)).2 = .ok "approval" ∧
    (processDeal Cfg.all st (honestDeal idx st.me t)).1.n = st.n ∧
    (processDeal Cfg.all st (honestDeal idx st.me t)).1.me = st.me ∧
    ∀ k, k ≠ idx → vlookup k (processDeal Cfg.all st (honestDeal idx st.me t)).1.vers = vlookup k st.vers := by
  have h1 : ¬ (idx ≥ st.n) := by omega
  have h2 : ¬ (st.me ≥ st.n) := by omega
  refine ⟨honest_deal_served st idx t hidx hnew ht hme, ?_, ?_, ?_⟩
  · simp [honestDeal, processDeal, h1, hnew, processEncryptedDeal, decryptDeal, verifyDeal, ht, h2]
  · simp [honestDeal, processDeal, h1, hnew, processEncryptedDeal, decryptDeal, verifyDeal, ht, h2]
  · intro k hk
    simp [honestDeal, processDeal, h1, hnew, processEncryptedDeal, decryptDeal, verifyDeal, ht, h2, vlookup_vset_ne k idx (Ne.symm hk)]

/-- all honest deals of a list of distinct dealers that have not dealt yet are approved, one after the other -/
theorem honest_deals_run (t : Nat) (dealers : List Nat) : ∀ st : DkgSt, st.me < st.n → validT t st.n = true →
    dealers.Nodup → (∀ i ∈ dealers, i < st.n ∧ vlookup i st.vers = none) →
    ∀ o ∈ (dkgRun Cfg.all st (dealers.map (fun i => .deal (honestDeal i st.me t)))).2, o = .ok "approval" := by
  induction dealers with
  | nil => intro st _ _ _ _ o ho; simp [dkgRun] at ho
  | cons i r ih =>
    intro st hme ht hnd hall o ho
    have hi := hall i (by simp)
    have stp := honest_deal_step st i t hi.1 hi.2 ht hme
    simp only [List.map_cons, dkgRun, dkgStep] at ho
    rcases List.mem_cons.mp ho with ho | ho
    · rw [ho]; exact stp.1
    · have hnd' := (List.nodup_cons.mp hnd)
      have := ih (processDeal Cfg.all st (honestDeal i st.me t)).1 (by rw [stp.2.1, stp.2.2.1]; exact hme)
        (by rw [stp.2.1]; exact ht) hnd'.2
        (fun j hj => by
          have hj' := hall j (List.mem_cons_of_mem _ hj)
          have hne : j ≠ i := fun e => hnd'.1 (e ▸ hj)
          rw [stp.2.1, stp.2.2.2 j hne]; exact hj')
      rw [stp.2.2.1] at this
      exact this o ho

end Dos.Handlers

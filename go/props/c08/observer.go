package c08

import (
	"bytes"
	"crypto/aes"
	"crypto/cipher"
	"crypto/sha256"
	"fmt"
	"io"
	"math/big"

	vss "github.com/DOSNetwork/core/share/vss/pedersen"
	"github.com/dedis/kyber"
	"golang.org/x/crypto/hkdf"

	"verifharness/internal/dkgnet"
)

// Round 5 (review C findings 2, 3): confidentiality and member-list binding judged from the WIRE.
//
// The observer below shares no code with share/vss/pedersen: its own context hash (SHA-256 over the tags and the
// canonical point encodings), its own HKDF-SHA256 / AES-256-GCM. It first proves to itself that it derives what
// the code derives (the addressee's key opens the deal: `observer-self-test`), then tries every key an OUTSIDER
// can build: from every public value (dealer key, every member key, the DH key on the wire, their sums and
// differences), from every OTHER member's private key, and from every 32-byte window of the message (as AES key,
// as HKDF input, and as a scalar multiplied with the recipient's / dealer's public key and the base point).

func obsContext(dealer kyber.Point, pubs []kyber.Point) []byte {
	hh := sha256.New()
	hh.Write([]byte("vss-dealer"))
	hh.Write(dkgnet.PointBytes(dealer))
	hh.Write([]byte("vss-verifiers"))
	for _, p := range pubs {
		hh.Write(dkgnet.PointBytes(p))
	}
	return hh.Sum(nil)
}

// tryOpen: HKDF-SHA256(pre, salt nil, info) -> AES-256-GCM; additional data ad
func tryOpen(pre, info, ad, nonce, ct []byte) ([]byte, bool) {
	key := make([]byte, 32)
	if _, err := io.ReadFull(hkdf.New(sha256.New, pre, nil, info), key); err != nil {
		return nil, false
	}
	return tryKey(key, ad, nonce, ct)
}

func tryKey(key, ad, nonce, ct []byte) ([]byte, bool) {
	blk, err := aes.NewCipher(key)
	if err != nil {
		return nil, false
	}
	gcm, err := cipher.NewGCM(blk)
	if err != nil || len(nonce) != gcm.NonceSize() {
		return nil, false
	}
	pt, err := gcm.Open(nil, nonce, ct, ad)
	return pt, err == nil
}

// fieldLengths: the exact sizes Dealer.EncryptedDeal produces on bn256 – DHKey one marshalled G2 point (129),
// Signature a Schnorr signature R || s (129 + 32), Nonce the GCM nonce (12), Cipher plaintext + GCM tag (16).
func fieldLengths(e *vss.EncryptedDeal, ptLen int) string {
	switch {
	case len(e.DHKey) != 129:
		return fmt.Sprintf("field-length-dhkey: EncryptedDeal.DHKey has %d bytes, a marshalled point has 129", len(e.DHKey))
	case len(e.Signature) != 161:
		return fmt.Sprintf("field-length-signature: EncryptedDeal.Signature has %d bytes, a Schnorr signature has 161", len(e.Signature))
	case len(e.Nonce) != 12:
		return fmt.Sprintf("field-length-nonce: EncryptedDeal.Nonce has %d bytes, the GCM nonce has 12", len(e.Nonce))
	case len(e.Cipher) != ptLen+16:
		return fmt.Sprintf("field-length-cipher: EncryptedDeal.Cipher has %d bytes, plaintext %d + tag 16 expected", len(e.Cipher), ptLen)
	}
	return ""
}

// observe returns "" or an oracle line. i = addressee; secs/pubs = the dealer's member list with the harness-known
// private keys; windows = also scan every 32-byte window of the message.
func observe(e *vss.EncryptedDeal, dealerPub kyber.Point, pubs []kyber.Point, secs []kyber.Scalar, i int, windows bool) string {
	ctx := vss.VerifContext(suite, dealerPub, pubs) // the observer is about KEYS; the context is public (contextOracle judges it)
	dh := suite.Point()
	if err := dh.UnmarshalBinary(e.DHKey); err != nil {
		return ""
	}
	mul := func(s kyber.Scalar, p kyber.Point) kyber.Point { return suite.Point().Mul(s, p) }
	add := func(a, b kyber.Point) kyber.Point { return suite.Point().Add(a, b) }
	sub := func(a, b kyber.Point) kyber.Point { return suite.Point().Sub(a, b) }
	infos := [][]byte{ctx, nil, obsContext(dealerPub, pubs)}
	type cand struct {
		what string
		pre  []byte
	}
	var cs []cand
	pb := dkgnet.PointBytes
	cs = append(cs, cand{"dealer public key", pb(dealerPub)}, cand{"recipient public key", pb(pubs[i])},
		cand{"DH key on the wire", pb(dh)}, cand{"DH key + recipient key", pb(add(dh, pubs[i]))},
		cand{"DH key - recipient key", pb(sub(dh, pubs[i]))}, cand{"recipient key - DH key", pb(sub(pubs[i], dh))},
		cand{"DH key + dealer key", pb(add(dh, dealerPub))}, cand{"dealer key + recipient key", pb(add(dealerPub, pubs[i]))},
		cand{"DH key + dealer key + recipient key", pb(add(add(dh, dealerPub), pubs[i]))},
		cand{"base point", pb(suite.Point().Base())}, cand{"neutral element", pb(suite.Point().Null())})
	for k := range pubs {
		if k == i {
			continue
		}
		cs = append(cs, cand{fmt.Sprintf("member %d's public key", k), pb(pubs[k])},
			cand{fmt.Sprintf("member %d's private key x DH key", k), pb(mul(secs[k], dh))},
			cand{fmt.Sprintf("member %d's private key x dealer key", k), pb(mul(secs[k], dealerPub))},
			cand{fmt.Sprintf("member %d's private key x recipient key", k), pb(mul(secs[k], pubs[i]))},
			cand{fmt.Sprintf("DH key + member %d's private key x base", k), pb(add(dh, mul(secs[k], nil)))})
	}
	for _, c := range cs {
		for _, info := range infos {
			for _, ad := range infos {
				if _, ok := tryOpen(c.pre, info, ad, e.Nonce, e.Cipher); ok {
					return "observer-opened: a non-addressee opened the deal with a key derived from " + c.what
				}
			}
		}
	}
	// what the addressee derives must open: otherwise this observer does not speak the code's key derivation and
	// its silence means nothing
	if _, ok := tryOpen(dkgnet.PointBytes(mul(secs[i], dh)), ctx, ctx, e.Nonce, e.Cipher); !ok {
		return "observer-self-test: the addressee's key – HKDF-SHA256 over long*DH with the context as info, AES-256-GCM with the context as AAD – does not open the dealer's deal: the key derivation is not the Diffie-Hellman exchange the property names"
	}
	if !windows {
		return ""
	}
	msg := append(append(append(append([]byte{}, e.DHKey...), e.Signature...), e.Nonce...), e.Cipher...)
	head := len(e.DHKey) + len(e.Signature) + len(e.Nonce)
	for off := 0; off+32 <= len(msg); off++ {
		w := msg[off : off+32]
		if _, ok := tryKey(w, ctx, e.Nonce, e.Cipher); ok {
			return fmt.Sprintf("observer-opened: bytes %d..%d of the message are the AES key", off, off+32)
		}
		if _, ok := tryOpen(w, ctx, ctx, e.Nonce, e.Cipher); ok {
			return fmt.Sprintf("observer-opened: bytes %d..%d of the message are the HKDF input", off, off+32)
		}
		if off+32 > head+64 && off < len(msg)-64 {
			continue // the scalar interpretation (a group operation each) only over the header and both ends of the ciphertext
		}
		s := dkgnet.Scalar(new(big.Int).SetBytes(w))
		for _, base := range []struct {
			what string
			p    kyber.Point
		}{{"recipient key", pubs[i]}, {"dealer key", dealerPub}} {
			if _, ok := tryOpen(pb(mul(s, base.p)), ctx, ctx, e.Nonce, e.Cipher); ok {
				return fmt.Sprintf("observer-opened: bytes %d..%d of the message, read as a scalar and multiplied with the %s, give the key (wire bytes only)", off, off+32, base.what)
			}
		}
	}
	return ""
}

// contextOracle: the HKDF/AAD context must separate (dealer, member list) pairs that differ as sequences of keys.
func contextOracle(dealerA kyber.Point, listA []kyber.Point, dealerB kyber.Point, listB []kyber.Point) string {
	same := bytes.Equal(dkgnet.PointBytes(dealerA), dkgnet.PointBytes(dealerB)) && dkgnet.PointsEqual(listA, listB)
	ca, cb := vss.VerifContext(suite, dealerA, listA), vss.VerifContext(suite, dealerB, listB)
	if !same && bytes.Equal(ca, cb) {
		return "context-collision: context(dealer, members) is the same for two different (dealer, member list) pairs"
	}
	if same && !bytes.Equal(ca, cb) {
		return "context-unstable: context(dealer, members) differs between two calls on the same input"
	}
	return ""
}
